package c11

// History generator.  It executes the history while generating it (on its own world) so that
// most operations can be chosen valid for the current stored state; every random choice comes
// from c.Rng.  The finished history is then re-executed from scratch by runHistory (that run is
// the one observed), so generated, replayed and corpus histories take the same path.

import (
	"github.com/ontio/ontology/common/constants"

	"verif/harness/hx"
)

type generator struct {
	c      *hx.Ctx
	regime string // "selfgov" (all height gates passed) | "approve" (before self-governed registration)
	w      *world
	h      *history
	height uint32
	time   uint32
	o      *obs
	split  bool // C10: start after seven epochs, set fee percentages now and then
}

const (
	genesisOwnerA = 3
	genesisOwnerB = 4
	firstNodeOwn  = 5 // 5,6,7 own the candidate nodes
	firstAuth     = 8 // 8,9,10 authorize
	outsider      = 11
)

func newGen(c *hx.Ctx, i int) *generator {
	g := &generator{c: c, regime: "selfgov"}
	if i%4 == 3 {
		g.regime = "approve"
	}
	return g
}

func (g *generator) rnd(n int) int { return g.c.Intn(n) }

func (g *generator) setup() {
	st := setup{Funded: g.rnd(6) != 0, Bal: map[int]uint64{}}
	if g.regime == "selfgov" {
		st.Height0 = constants.UINT64_WRAPPING_MAINNET + 1000
	} else {
		st.Height0 = 3_000_000
	}
	st.Time0 = constants.CHANGE_UNBOUND_TIMESTAMP_MAINNET + 100000
	perm := g.c.Rng.Perm(nPeer)
	for i := 0; i < 7; i++ {
		owner := genesisOwnerA
		if g.rnd(2) == 0 {
			owner = genesisOwnerB
		}
		st.Peers = append(st.Peers, genesisPeer{Peer: perm[i] + 1, Owner: owner, Init: uint64(10000 + 500*g.rnd(60))})
	}
	for id := genesisOwnerA; id <= genesisOwnerB; id++ {
		st.Bal[id] = uint64(1000 * g.rnd(60))
	}
	for id := firstNodeOwn; id < firstAuth; id++ {
		st.Bal[id] = uint64(20000 + 1000*g.rnd(200))
	}
	for id := firstAuth; id < outsider; id++ {
		st.Bal[id] = uint64(500 * g.rnd(400))
	}
	g.h = &history{Setup: st}
	g.height = st.Height0
	g.time = st.Time0
}

func (g *generator) freePeers() (out []int) {
	for id := 1; id <= nPeer; id++ {
		found := false
		for _, p := range g.o.Pool {
			found = found || p.Peer == id
		}
		if !found {
			out = append(out, id)
		}
	}
	return
}

func (g *generator) poolWith(pred func(p *peerObs) bool) (out []peerObs) {
	for i := range g.o.Pool {
		if pred(&g.o.Pool[i]) {
			out = append(out, g.o.Pool[i])
		}
	}
	return
}

func isActive(p *peerObs) bool { return p.Status == 1 || p.Status == 2 }

func (g *generator) anyPeer() int {
	if len(g.o.Pool) > 0 && g.rnd(8) != 0 {
		return g.o.Pool[g.rnd(len(g.o.Pool))].Peer
	}
	return g.rnd(nPeer + 1)
}

func (g *generator) pos() uint32 {
	switch g.rnd(12) {
	case 0:
		return uint32(g.rnd(3)) // 0,1,2: invalid
	case 1:
		return uint32(500*g.rnd(20) + 1 + g.rnd(499)) // not a multiple
	case 2:
		return uint32(g.c.U64Boundary())
	}
	return uint32(500 * (1 + g.rnd(30)))
}

func (g *generator) infosOf(addr int) (out []infoObs) {
	for _, i := range g.o.Infos {
		if i.Addr == addr {
			out = append(out, i)
		}
	}
	return
}

// next chooses the next operation from the current stored state.
func (g *generator) next() op {
	auth := firstAuth + g.rnd(3)
	if g.rnd(10) == 0 {
		auth = genesisOwnerA + g.rnd(outsider-genesisOwnerA+1) // owners and the outsider authorize too
	}
	if g.split && g.rnd(9) == 0 && len(g.o.Pool) > 0 {
		p := g.o.Pool[g.rnd(len(g.o.Pool))]
		if g.rnd(2) == 0 {
			return op{Kind: "peercost", Signer: p.Owner, Addr: p.Owner, Peer: p.Peer, Amount: uint32(g.rnd(103))}
		}
		return op{Kind: "feepct", Signer: p.Owner, Addr: p.Owner, Peer: p.Peer, Amount: uint32(g.rnd(103)), Pos: []uint32{uint32(g.rnd(103))}}
	}
	k := g.rnd(100)
	switch {
	case k < 7: // register
		o := op{Kind: "register", Addr: firstNodeOwn + g.rnd(3), Amount: uint32(10000 + 500*g.rnd(40))}
		if free := g.freePeers(); len(free) > 0 && g.rnd(6) != 0 {
			o.Peer = free[g.rnd(len(free))]
			// a pubkey that was registered before: half of the time its former owner, who may still
			// hold an authorize record (unfrozen init pos not withdrawn), registers it again
			for _, i := range g.o.Infos {
				if i.Peer == o.Peer && i.Addr >= genesisOwnerA && i.Addr < firstAuth && g.rnd(2) == 0 {
					o.Addr = i.Addr
				}
			}
		} else {
			o.Peer = g.rnd(nPeer + 1)
		}
		switch g.rnd(14) {
		case 0:
			o.Amount = uint32(g.rnd(10000))
		case 1:
			o.Amount = uint32(g.c.U64Boundary())
		case 2:
			o.NoTok = true
		case 3:
			o.Addr = genesisOwnerA + g.rnd(2)
		}
		o.Signer = o.Addr
		return o
	case k < 14: // maxauth
		o := op{Kind: "maxauth", Peer: g.anyPeer()}
		for _, p := range g.o.Pool {
			if p.Peer == o.Peer {
				o.Addr = p.Owner
				o.Amount = uint32(uint64(g.rnd(22)) * p.Init)
				if g.rnd(3) == 0 {
					o.Amount = uint32(500 * g.rnd(100))
				}
			}
		}
		o.Signer = o.Addr
		return o
	case k < 38: // authorize
		o := op{Kind: "authorize", Addr: auth, Signer: auth}
		act := g.poolWith(func(p *peerObs) bool { return isActive(p) })
		n := 1 + g.rnd(3)
		for i := 0; i < n; i++ {
			if len(act) > 0 && g.rnd(10) != 0 {
				o.Peers = append(o.Peers, act[g.rnd(len(act))].Peer)
			} else {
				o.Peers = append(o.Peers, g.anyPeer())
			}
			o.Pos = append(o.Pos, g.pos())
		}
		return o
	case k < 52: // unauthorize
		o := op{Kind: "unauthorize", Addr: auth, Signer: auth}
		infos := g.infosOf(auth)
		n := 1 + g.rnd(2)
		for i := 0; i < n; i++ {
			if len(infos) > 0 && g.rnd(10) != 0 {
				inf := infos[g.rnd(len(infos))]
				o.Peers = append(o.Peers, inf.Peer)
				have := inf.B[0] + inf.B[1] + inf.B[2]
				switch {
				case have >= 500 && g.rnd(4) != 0:
					o.Pos = append(o.Pos, uint32(500*(1+uint64(g.rnd(int(have/500))))))
				default:
					o.Pos = append(o.Pos, g.pos())
				}
			} else {
				o.Peers = append(o.Peers, g.anyPeer())
				o.Pos = append(o.Pos, g.pos())
			}
		}
		return o
	case k < 64: // withdraw
		o := op{Kind: "withdraw", Addr: auth, Signer: auth}
		if g.rnd(5) == 0 {
			o.Addr = genesisOwnerA + g.rnd(firstAuth-genesisOwnerA)
			o.Signer = o.Addr
		}
		// most of the time: somebody who has unfrozen positions
		var ready []infoObs
		for _, i := range g.o.Infos {
			if i.B[5] > 0 {
				ready = append(ready, i)
			}
		}
		if len(ready) > 0 && g.rnd(4) != 0 {
			o.Addr = ready[g.rnd(len(ready))].Addr
			o.Signer = o.Addr
		}
		infos := g.infosOf(o.Addr)
		n := 1 + g.rnd(2)
		for i := 0; i < n; i++ {
			if len(infos) > 0 && g.rnd(10) != 0 {
				inf := infos[g.rnd(len(infos))]
				o.Peers = append(o.Peers, inf.Peer)
				switch {
				case inf.B[5] > 0 && g.rnd(4) != 0:
					if g.rnd(3) == 0 {
						o.Pos = append(o.Pos, uint32(inf.B[5]))
					} else {
						o.Pos = append(o.Pos, uint32(1+uint64(g.rnd(int(inf.B[5])))))
					}
				case g.rnd(2) == 0:
					o.Pos = append(o.Pos, uint32(inf.B[5]+uint64(g.rnd(3))))
				default:
					o.Pos = append(o.Pos, g.pos())
				}
			} else {
				o.Peers = append(o.Peers, g.anyPeer())
				o.Pos = append(o.Pos, uint32(g.rnd(2000)))
			}
		}
		return o
	case k < 78: // commit
		o := op{Kind: "commit", Signer: idAdmin}
		if g.rnd(8) == 0 {
			o.Signer = auth
		}
		return o
	case k < 82: // quit
		o := op{Kind: "quit", Peer: g.anyPeer()}
		for _, p := range g.o.Pool {
			if p.Peer == o.Peer {
				o.Addr = p.Owner
			}
		}
		o.Signer = o.Addr
		return o
	case k < 85: // black
		o := op{Kind: "black", Signer: idAdmin}
		n := 1 + g.rnd(2)
		for i := 0; i < n; i++ {
			o.Peers = append(o.Peers, g.anyPeer())
		}
		return o
	case k < 87: // white
		o := op{Kind: "white", Signer: idAdmin, Peer: g.rnd(nPeer + 1)}
		if len(g.o.Black) > 0 && g.rnd(4) != 0 {
			o.Peer = g.o.Black[g.rnd(len(g.o.Black))]
		}
		return o
	case k < 90: // addinit
		o := op{Kind: "addinit", Peer: g.anyPeer(), Amount: uint32(g.rnd(5000))}
		for _, p := range g.o.Pool {
			if p.Peer == o.Peer {
				o.Addr = p.Owner
			}
		}
		o.Signer = o.Addr
		return o
	case k < 93: // reduceinit
		o := op{Kind: "reduceinit", Peer: g.anyPeer(), Amount: uint32(g.rnd(3000))}
		for _, p := range g.o.Pool {
			if p.Peer == o.Peer {
				o.Addr = p.Owner
			}
		}
		o.Signer = o.Addr
		return o
	case k < 95: // penalty
		o := op{Kind: "penalty", Signer: idAdmin, Peer: g.rnd(nPeer + 1), Addr: firstNodeOwn + g.rnd(6)}
		if len(g.o.Pens) > 0 && g.rnd(4) != 0 {
			o.Peer = g.o.Pens[g.rnd(len(g.o.Pens))].Peer
		}
		return o
	case k < 97: // approve / reject / unregister on anything
		kinds := []string{"approve", "reject", "unregister"}
		o := op{Kind: kinds[g.rnd(3)], Signer: idAdmin, Peer: g.anyPeer()}
		if o.Kind == "unregister" {
			o.Addr = firstNodeOwn + g.rnd(3)
			o.Signer = o.Addr
		}
		return o
	}
	// malformed: list shapes
	o := op{Kind: []string{"authorize", "unauthorize", "withdraw"}[g.rnd(3)], Addr: auth, Signer: auth}
	switch g.rnd(3) {
	case 0: // unequal lengths
		o.Peers = []int{g.anyPeer(), g.anyPeer()}
		o.Pos = []uint32{500}
	case 1: // empty lists
	default: // longer than the decoder accepts
		for i := 0; i < 1025; i++ {
			o.Peers = append(o.Peers, 0)
			o.Pos = append(o.Pos, 0)
		}
	}
	return o
}

// registered-but-not-approved peers (regime "approve")
func (g *generator) pending() []peerObs {
	return g.poolWith(func(p *peerObs) bool { return p.Status == 0 })
}

func (g *generator) push(o op) {
	// heights: usually +1, sometimes the same block, sometimes a long jump (anyone may commit)
	switch g.rnd(20) {
	case 0:
	case 1:
		g.height += 100001
	default:
		g.height++
	}
	g.time += uint32(g.rnd(30))
	o.Height, o.Time = g.height, g.time
	// wrong signer now and then
	if g.rnd(25) == 0 {
		o.Signer = genesisOwnerA + g.rnd(outsider-genesisOwnerA+1)
	}
	g.w.apply(&o)
	g.h.Ops = append(g.h.Ops, o)
	var err error
	if g.o, err = g.w.observe(); err != nil {
		panic(err)
	}
}

func (g *generator) generate() *history {
	g.setup()
	g.w = newWorld(g.c)
	if err := g.w.genesis(&g.h.Setup); err != nil {
		panic(err)
	}
	var err error
	if g.o, err = g.w.observe(); err != nil {
		panic(err)
	}
	// bootstrap: let most peers accept authorizations
	for _, p := range g.o.Pool {
		if g.rnd(4) != 0 {
			g.push(op{Kind: "maxauth", Signer: p.Owner, Addr: p.Owner, Peer: p.Peer, Amount: uint32(uint64(1+g.rnd(20)) * p.Init)})
		}
	}
	if g.split {
		g.splitBootstrap()
	}
	n := 30 + g.rnd(30)
	for i := 0; i < n; i++ {
		if (g.split && g.rnd(5) == 0 || !g.split && g.rnd(9) == 0) && g.topUpThenUnauthorizeMore() {
			continue
		}
		if g.rnd(14) == 0 && g.ownerRecordThenQuit() {
			continue
		}
		if g.regime == "approve" {
			if pend := g.pending(); len(pend) > 0 && g.rnd(3) == 0 {
				p := pend[g.rnd(len(pend))]
				switch g.rnd(6) {
				case 0:
					g.push(op{Kind: "reject", Signer: idAdmin, Peer: p.Peer})
				case 1:
					g.push(op{Kind: "unregister", Signer: p.Owner, Addr: p.Owner, Peer: p.Peer})
				default:
					g.push(op{Kind: "approve", Signer: idAdmin, Peer: p.Peer})
				}
				continue
			}
		}
		g.push(g.next())
	}
	return g.h
}

// splitBootstrap (C10): every peer accepts authorizations, most peers share their fees (cost below
// 100, set two epochs ahead as the contract requires), the authorizers hold positions, and the
// chain is past view 9 so that the costs are in force and every commit settles with executeSplit2.
func (g *generator) splitBootstrap() {
	for _, p := range g.o.Pool {
		g.push(op{Kind: "maxauth", Signer: p.Owner, Addr: p.Owner, Peer: p.Peer, Amount: uint32(20 * p.Init)})
		if g.rnd(5) != 0 {
			if g.regime == "selfgov" && g.rnd(2) == 0 {
				g.push(op{Kind: "feepct", Signer: p.Owner, Addr: p.Owner, Peer: p.Peer, Amount: uint32(g.rnd(80)), Pos: []uint32{uint32(g.rnd(80))}})
			} else {
				g.push(op{Kind: "peercost", Signer: p.Owner, Addr: p.Owner, Peer: p.Peer, Amount: uint32(g.rnd(80))})
			}
		}
	}
	for a := firstAuth; a < outsider; a++ {
		for j := 0; j < 2; j++ {
			p := g.o.Pool[g.rnd(len(g.o.Pool))]
			g.push(op{Kind: "authorize", Signer: a, Addr: a, Peers: []int{p.Peer}, Pos: []uint32{uint32(500 * (2 + g.rnd(20)))}})
		}
	}
	for i := 0; i < 20 && g.o.View < 10; i++ {
		g.push(op{Kind: "commit", Signer: idAdmin})
	}
}

// topUpThenUnauthorizeMore (C10): within one epoch an address that already holds Consensus or
// Candidate positions on a peer authorizes n more and then unauthorizes more than n.
func (g *generator) topUpThenUnauthorizeMore() bool {
	var held []infoObs
	for _, i := range g.o.Infos {
		if i.B[0]+i.B[1] >= 500 {
			for _, p := range g.o.Pool {
				if p.Peer == i.Peer && isActive(&p) && p.Owner != i.Addr {
					held = append(held, i)
				}
			}
		}
	}
	if len(held) == 0 {
		return false
	}
	i := held[g.rnd(len(held))]
	n := uint32(500 * (1 + g.rnd(10)))
	more := uint32(500 * (1 + uint64(g.rnd(int((i.B[0]+i.B[1])/500)))))
	g.push(op{Kind: "authorize", Signer: i.Addr, Addr: i.Addr, Peers: []int{i.Peer}, Pos: []uint32{n}})
	g.push(op{Kind: "unauthorize", Signer: i.Addr, Addr: i.Addr, Peers: []int{i.Peer}, Pos: []uint32{n + more}})
	return true
}

// ownerRecordThenQuit: a node whose owner already holds an authorize record for it (init pos added
// and reduced again; or left over from an earlier registration of the same pubkey), with
// authorizers whose addresses sort before AND after the owner's, quits; two or three epochs pass and
// the owner withdraws everything that is unfrozen, then tries a little more.
func (g *generator) ownerRecordThenQuit() bool {
	active := g.poolWith(func(p *peerObs) bool { return isActive(p) })
	if len(active) <= 7 {
		return false
	}
	var nodes []peerObs
	for _, p := range active {
		if p.Owner >= firstNodeOwn && p.Owner < firstAuth {
			nodes = append(nodes, p)
		}
	}
	if len(nodes) == 0 {
		return false
	}
	p := nodes[g.rnd(len(nodes))]
	own := p.Owner
	g.push(op{Kind: "maxauth", Signer: own, Addr: own, Peer: p.Peer, Amount: uint32(10 * p.Init)})
	up := uint32(500 * (1 + g.rnd(4)))
	g.push(op{Kind: "addinit", Signer: own, Addr: own, Peer: p.Peer, Amount: up})
	g.push(op{Kind: "reduceinit", Signer: own, Addr: own, Peer: p.Peer, Amount: 1 + uint32(g.rnd(int(up)))})
	before := genesisOwnerA + g.rnd(2) // sorts before every node owner
	after := firstAuth + g.rnd(3)      // sorts after every node owner
	switch g.rnd(4) {
	case 0: // only before
		after = 0
	case 1: // only after
		before = 0
	}
	if before != 0 {
		g.push(op{Kind: "authorize", Signer: before, Addr: before, Peers: []int{p.Peer}, Pos: []uint32{uint32(500 * (1 + g.rnd(4)))}})
	}
	if after != 0 {
		g.push(op{Kind: "authorize", Signer: after, Addr: after, Peers: []int{p.Peer}, Pos: []uint32{uint32(500 * (1 + g.rnd(4)))}})
	}
	g.push(op{Kind: "quit", Signer: own, Addr: own, Peer: p.Peer})
	for i, n := 0, 2+g.rnd(2); i < n; i++ {
		g.push(op{Kind: "commit", Signer: idAdmin})
	}
	var unf uint64
	for _, i := range g.o.Infos {
		if i.Peer == p.Peer && i.Addr == own {
			unf = i.B[5]
		}
	}
	if unf > 0 && unf < 1<<32 {
		g.push(op{Kind: "withdraw", Signer: own, Addr: own, Peers: []int{p.Peer}, Pos: []uint32{uint32(unf)}})
	}
	g.push(op{Kind: "withdraw", Signer: own, Addr: own, Peers: []int{p.Peer}, Pos: []uint32{uint32(1 + g.rnd(20000))}})
	return true
}

// probes: fixed histories executed on every run (whatever the seed): the paths the property is
// about - stake, epoch, unstake, two epochs, withdraw; quit of a node with authorizers;
// blacklisting of a consensus node with authorizers and the penalty transfer; the
// register/approve/reject path before self-governed registration.
func probes() []*history {
	base := func(h0 uint32) setup {
		st := setup{Funded: true, Bal: map[int]uint64{3: 5000, 4: 5000, 5: 100000, 6: 100000, 7: 100000, 8: 60000, 9: 60000, 10: 60000},
			Height0: h0, Time0: constants.CHANGE_UNBOUND_TIMESTAMP_MAINNET + 100000}
		for i := 1; i <= 7; i++ {
			st.Peers = append(st.Peers, genesisPeer{Peer: i, Owner: 3 + i%2, Init: uint64(10000 + 1000*i)})
		}
		return st
	}
	seq := func(st setup, ops ...op) *history {
		h, t := st.Height0, st.Time0
		for i := range ops {
			h++
			t += 7
			ops[i].Height, ops[i].Time = h, t
		}
		return &history{Setup: st, Ops: ops}
	}
	late := uint32(constants.UINT64_WRAPPING_MAINNET + 1000)
	p1 := seq(base(late),
		op{Kind: "register", Signer: 5, Addr: 5, Peer: 8, Amount: 30000},
		op{Kind: "maxauth", Signer: 5, Addr: 5, Peer: 8, Amount: 100000},
		op{Kind: "authorize", Signer: 8, Addr: 8, Peers: []int{8}, Pos: []uint32{5000}},
		op{Kind: "authorize", Signer: 9, Addr: 9, Peers: []int{8, 8}, Pos: []uint32{1000, 1500}},
		op{Kind: "commit", Signer: 1},
		op{Kind: "unauthorize", Signer: 8, Addr: 8, Peers: []int{8}, Pos: []uint32{2000}},
		op{Kind: "commit", Signer: 1},
		op{Kind: "withdraw", Signer: 8, Addr: 8, Peers: []int{8}, Pos: []uint32{2000}}, // still frozen
		op{Kind: "commit", Signer: 1},
		op{Kind: "withdraw", Signer: 8, Addr: 8, Peers: []int{8}, Pos: []uint32{2001}},
		op{Kind: "withdraw", Signer: 8, Addr: 8, Peers: []int{8}, Pos: []uint32{2000}},
		op{Kind: "withdraw", Signer: 8, Addr: 8, Peers: []int{8}, Pos: []uint32{1}},
		op{Kind: "quit", Signer: 5, Addr: 5, Peer: 8},
		op{Kind: "commit", Signer: 1},
		op{Kind: "commit", Signer: 1},
		op{Kind: "withdraw", Signer: 9, Addr: 9, Peers: []int{8}, Pos: []uint32{2500}},
		op{Kind: "withdraw", Signer: 5, Addr: 5, Peers: []int{8}, Pos: []uint32{30000}},
		op{Kind: "withdraw", Signer: 8, Addr: 8, Peers: []int{8}, Pos: []uint32{3000}},
	)
	p2 := seq(base(late),
		op{Kind: "maxauth", Signer: 4, Addr: 4, Peer: 7, Amount: 100000},
		op{Kind: "register", Signer: 6, Addr: 6, Peer: 9, Amount: 20000},
		op{Kind: "authorize", Signer: 8, Addr: 8, Peers: []int{7}, Pos: []uint32{10000}},
		op{Kind: "authorize", Signer: 9, Addr: 9, Peers: []int{7}, Pos: []uint32{1500}},
		op{Kind: "commit", Signer: 1},
		op{Kind: "unauthorize", Signer: 9, Addr: 9, Peers: []int{7}, Pos: []uint32{500}},
		op{Kind: "black", Signer: 1, Peers: []int{7}},                    // consensus node: commits at once
		op{Kind: "register", Signer: 4, Addr: 4, Peer: 7, Amount: 20000}, // black-listed
		op{Kind: "withdraw", Signer: 8, Addr: 8, Peers: []int{7}, Pos: []uint32{9500}},
		op{Kind: "withdraw", Signer: 9, Addr: 9, Peers: []int{7}, Pos: []uint32{1425}},
		op{Kind: "penalty", Signer: 1, Peer: 7, Addr: 10},
		op{Kind: "white", Signer: 1, Peer: 7},
		op{Kind: "register", Signer: 4, Addr: 4, Peer: 7, Amount: 20000},
	)
	p3 := seq(base(3_000_000),
		op{Kind: "register", Signer: 5, Addr: 5, Peer: 8, Amount: 30000, NoTok: true},
		op{Kind: "register", Signer: 5, Addr: 5, Peer: 8, Amount: 30000},
		op{Kind: "register", Signer: 6, Addr: 6, Peer: 9, Amount: 12000},
		op{Kind: "register", Signer: 7, Addr: 7, Peer: 10, Amount: 9000},
		op{Kind: "authorize", Signer: 8, Addr: 8, Peers: []int{8}, Pos: []uint32{500}}, // not approved yet
		op{Kind: "approve", Signer: 1, Peer: 10},                                       // below MinInitStake
		op{Kind: "approve", Signer: 1, Peer: 8},
		op{Kind: "reject", Signer: 1, Peer: 9},
		op{Kind: "unregister", Signer: 7, Addr: 7, Peer: 10},
		op{Kind: "withdraw", Signer: 6, Addr: 6, Peers: []int{9}, Pos: []uint32{12000}},
		op{Kind: "withdraw", Signer: 7, Addr: 7, Peers: []int{10}, Pos: []uint32{9000}},
		op{Kind: "maxauth", Signer: 5, Addr: 5, Peer: 8, Amount: 50000},
		op{Kind: "authorize", Signer: 8, Addr: 8, Peers: []int{8}, Pos: []uint32{500}},
		op{Kind: "commit", Signer: 1},
		op{Kind: "reduceinit", Signer: 5, Addr: 5, Peer: 8, Amount: 1000},
		op{Kind: "addinit", Signer: 5, Addr: 5, Peer: 8, Amount: 2000},
		op{Kind: "reduceinit", Signer: 5, Addr: 5, Peer: 8, Amount: 1000},
	)
	unf := base(late)
	unf.Funded = false
	p4 := seq(unf,
		op{Kind: "quit", Signer: 4, Addr: 4, Peer: 1}, // fewer than K would remain
		op{Kind: "register", Signer: 5, Addr: 5, Peer: 8, Amount: 30000},
		op{Kind: "quit", Signer: 4, Addr: 4, Peer: 1},
		op{Kind: "commit", Signer: 1},
		op{Kind: "commit", Signer: 1},
		op{Kind: "withdraw", Signer: 4, Addr: 4, Peers: []int{1}, Pos: []uint32{11000}}, // paid out of the other node's stake
	)
	// normalQuit with a pre-existing record of the owner: the owner (5) holds two nodes (8, 9); init pos
	// of node 8 is added and reduced (owner record), authorizers sort before (4) and after (8) the
	// owner; the node quits, epochs pass, the owner withdraws all that is unfrozen (init pos once) and
	// then tries to take out the init pos of its other, live node.
	quitProbe := func(owner, peer int, auths []int) *history {
		ops := []op{
			{Kind: "register", Signer: owner, Addr: owner, Peer: peer, Amount: 30000},
			{Kind: "register", Signer: owner, Addr: owner, Peer: peer + 1, Amount: 20000},
			{Kind: "maxauth", Signer: owner, Addr: owner, Peer: peer, Amount: 100000},
		}
		for _, a := range auths {
			ops = append(ops, op{Kind: "authorize", Signer: a, Addr: a, Peers: []int{peer}, Pos: []uint32{1000}})
		}
		ops = append(ops,
			op{Kind: "addinit", Signer: owner, Addr: owner, Peer: peer, Amount: 2000},
			op{Kind: "commit", Signer: 1},
			op{Kind: "reduceinit", Signer: owner, Addr: owner, Peer: peer, Amount: 1000},
			op{Kind: "quit", Signer: owner, Addr: owner, Peer: peer},
			op{Kind: "commit", Signer: 1},
			op{Kind: "commit", Signer: 1},
			op{Kind: "commit", Signer: 1},
			op{Kind: "withdraw", Signer: owner, Addr: owner, Peers: []int{peer}, Pos: []uint32{32000}}, // 31000 init pos + 1000 reduced
			op{Kind: "withdraw", Signer: owner, Addr: owner, Peers: []int{peer}, Pos: []uint32{20000}}, // nothing left: must fail
		)
		return seq(base(late), ops...)
	}
	p5 := quitProbe(5, 8, []int{4, 8}) // owner's record in the middle
	p6 := quitProbe(5, 8, []int{8, 9}) // first
	p7 := quitProbe(7, 8, []int{3, 5}) // last
	// the same pubkey registered again by an owner who did not withdraw all of the unfrozen init pos
	p8 := seq(base(late),
		op{Kind: "register", Signer: 6, Addr: 6, Peer: 10, Amount: 10000},
		op{Kind: "register", Signer: 6, Addr: 6, Peer: 11, Amount: 25000},
		op{Kind: "maxauth", Signer: 6, Addr: 6, Peer: 10, Amount: 50000},
		op{Kind: "authorize", Signer: 9, Addr: 9, Peers: []int{10}, Pos: []uint32{500}},
		op{Kind: "quit", Signer: 6, Addr: 6, Peer: 10},
		op{Kind: "commit", Signer: 1},
		op{Kind: "commit", Signer: 1},
		op{Kind: "withdraw", Signer: 6, Addr: 6, Peers: []int{10}, Pos: []uint32{4000}},
		op{Kind: "register", Signer: 6, Addr: 6, Peer: 10, Amount: 12000},
		op{Kind: "maxauth", Signer: 6, Addr: 6, Peer: 10, Amount: 50000},
		op{Kind: "authorize", Signer: 9, Addr: 9, Peers: []int{10}, Pos: []uint32{1000}},
		op{Kind: "commit", Signer: 1},
		op{Kind: "quit", Signer: 6, Addr: 6, Peer: 10},
		op{Kind: "commit", Signer: 1},
		op{Kind: "commit", Signer: 1},
		op{Kind: "withdraw", Signer: 6, Addr: 6, Peers: []int{10}, Pos: []uint32{18000}}, // 6000 left over + 12000
		op{Kind: "withdraw", Signer: 6, Addr: 6, Peers: []int{10}, Pos: []uint32{12000}}, // must fail
	)
	// unAuthorizeForPeer served partly from NewPos and partly from committed positions: an address
	// with Consensus (node 7) resp. Candidate (node 9) positions authorizes more in the current epoch
	// and unauthorizes more than it just added; after the freeze it withdraws exactly what it
	// unauthorized, one unit more must fail.
	p9 := seq(base(late),
		op{Kind: "maxauth", Signer: 4, Addr: 4, Peer: 7, Amount: 200000},
		op{Kind: "authorize", Signer: 8, Addr: 8, Peers: []int{7}, Pos: []uint32{10000}},
		op{Kind: "register", Signer: 6, Addr: 6, Peer: 9, Amount: 10000},
		op{Kind: "maxauth", Signer: 6, Addr: 6, Peer: 9, Amount: 100000},
		op{Kind: "authorize", Signer: 9, Addr: 9, Peers: []int{9}, Pos: []uint32{500}},
		op{Kind: "commit", Signer: 1},
		op{Kind: "authorize", Signer: 8, Addr: 8, Peers: []int{7}, Pos: []uint32{5000}},
		op{Kind: "unauthorize", Signer: 8, Addr: 8, Peers: []int{7}, Pos: []uint32{7500}},
		op{Kind: "authorize", Signer: 9, Addr: 9, Peers: []int{9}, Pos: []uint32{1000}},
		op{Kind: "unauthorize", Signer: 9, Addr: 9, Peers: []int{9}, Pos: []uint32{1500}},
		op{Kind: "commit", Signer: 1},
		op{Kind: "withdraw", Signer: 9, Addr: 9, Peers: []int{9}, Pos: []uint32{1500}},
		op{Kind: "withdraw", Signer: 9, Addr: 9, Peers: []int{9}, Pos: []uint32{1}},
		op{Kind: "commit", Signer: 1},
		op{Kind: "withdraw", Signer: 8, Addr: 8, Peers: []int{7}, Pos: []uint32{7500}},
		op{Kind: "withdraw", Signer: 8, Addr: 8, Peers: []int{7}, Pos: []uint32{1}},
	)
	return []*history{p1, p2, p3, p4, p5, p6, p7, p8, p9}
}
