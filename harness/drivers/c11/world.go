package c11

// The implementation side: an in-memory store behind an OverlayDB; the genesis native calls
// (ont/ong/param init, governance initConfig) are executed through the real contracts, every
// governance operation runs as its own transaction (SmartContract -> NewNativeService ->
// NativeCall on a fresh CacheDB, Commit only when the call returned no error - that is what
// HandleInvokeTransaction does), and the stored governance records are decoded independently.

import (
	"crypto/ecdsa"
	"crypto/elliptic"
	"encoding/binary"
	"encoding/hex"
	"fmt"
	"math/big"
	"sort"
	"strings"

	"github.com/laizy/bigint"
	"github.com/ontio/ontology-crypto/ec"
	"github.com/ontio/ontology-crypto/keypair"
	"github.com/ontio/ontology/account"
	"github.com/ontio/ontology/common"
	"github.com/ontio/ontology/common/config"
	"github.com/ontio/ontology/common/constants"
	"github.com/ontio/ontology/core/states"
	scommon "github.com/ontio/ontology/core/store/common"
	"github.com/ontio/ontology/core/store/leveldbstore"
	"github.com/ontio/ontology/core/store/overlaydb"
	"github.com/ontio/ontology/core/types"
	"github.com/ontio/ontology/smartcontract"
	"github.com/ontio/ontology/smartcontract/service/native"
	"github.com/ontio/ontology/smartcontract/service/native/auth"
	"github.com/ontio/ontology/smartcontract/service/native/global_params"
	gov "github.com/ontio/ontology/smartcontract/service/native/governance"
	"github.com/ontio/ontology/smartcontract/service/native/ong"
	"github.com/ontio/ontology/smartcontract/service/native/ont"
	nutils "github.com/ontio/ontology/smartcontract/service/native/utils"
	"github.com/ontio/ontology/smartcontract/storage"

	"verif/harness/hx"
)

var (
	ontC = nutils.OntContractAddress
	ongC = nutils.OngContractAddress
	govC = nutils.GovernanceContractAddress
)

// ---------------------------------------------------------------- identities

// Address ids of the model: 0 = governance contract, 1 = admin (operator of the param
// contract), 2 = bank (holds the rest of the ONT supply), 3.. = users.
const (
	idGov   = 0
	idAdmin = 1
	idBank  = 2
)

const nAddr = 12 // ids 0..11
const nPeer = 11 // peer ids 1..11 (id order = order of the hex pubkey strings)

func addrOf(id int) common.Address {
	if id == idGov {
		return govC
	}
	var a common.Address
	copy(a[:], []byte(fmt.Sprintf("c11-verif-address-%02d", id)))
	return a
}

func idOfAddr(a common.Address) int {
	for i := 0; i < nAddr; i++ {
		if addrOf(i) == a {
			return i
		}
	}
	return -1
}

var peerKeys []string // index = peer id - 1; ascending string order

// deterministic P-256 keys (scalars 1001..), serialised the way the node does, sorted.
func initPeerKeys() {
	if peerKeys != nil {
		return
	}
	curve := elliptic.P256()
	var ks []string
	for i := 0; i < nPeer; i++ {
		d := big.NewInt(int64(1001 + 7*i))
		x, y := curve.ScalarBaseMult(d.Bytes())
		pk := &ec.PublicKey{Algorithm: ec.ECDSA, PublicKey: &ecdsa.PublicKey{Curve: curve, X: x, Y: y}}
		ks = append(ks, hex.EncodeToString(keypair.SerializePublicKey(pk)))
	}
	sort.Strings(ks)
	peerKeys = ks
}

// peer id 0 is a syntactically valid hex string that is not a public key.
func keyOf(id int) string {
	if id >= 1 && id <= nPeer {
		return peerKeys[id-1]
	}
	return "00ff"
}

func idOfKey(k string) int {
	for i, s := range peerKeys {
		if s == k {
			return i + 1
		}
	}
	return -1
}

// ---------------------------------------------------------------- world

type world struct {
	c       *hx.Ctx
	overlay *overlaydb.OverlayDB
}

type genesisPeer struct {
	Peer  int    `json:"peer"`
	Owner int    `json:"owner"`
	Init  uint64 `json:"init"`
}

type setup struct {
	Peers   []genesisPeer  `json:"peers"`
	Funded  bool           `json:"funded"`  // governance receives sum(initPos) ONT after initConfig
	Bal     map[int]uint64 `json:"bal"`     // ONT given to users by the bank
	Height0 uint32         `json:"height0"` // height of the genesis calls
	Time0   uint32         `json:"time0"`
}

const adminOntID = "did:ont:AdjfcJgwru2FD8kotCPvLDXYzRjqFjc9Tb"

var callerOK, callerBad string // ONT IDs used as `Caller` of registerCandidate: with / without the role

func newWorld(c *hx.Ctx) *world {
	initPeerKeys()
	ont.InitOnt()
	ong.InitOng()
	global_params.InitGlobalParams()
	auth.Init()
	gov.InitGovernance()
	// The ONT ID contract is outside the model: signature checks of ONT IDs always succeed, so
	// that the auth contract's verifyToken answers from the role tables alone.
	native.Contracts[nutils.OntIDContractAddress] = func(n *native.NativeService) {
		n.Register("verifySignature", func(*native.NativeService) ([]byte, error) { return nutils.BYTE_TRUE, nil })
	}
	if callerOK == "" {
		var err error
		if callerOK, err = account.CreateID([]byte("c11-verif-caller-with-role-nonce")); err != nil {
			panic(err)
		}
		if callerBad, err = account.CreateID([]byte("c11-verif-caller-without-a-role!")); err != nil {
			panic(err)
		}
	}
	return &world{c: c, overlay: overlaydb.NewOverlayDB(leveldbstore.NewMemLevelDBStore())}
}

type call struct {
	Contract common.Address
	Method   string
	Args     []byte
	Signers  []int
	Height   uint32
	Time     uint32
}

func (w *world) invoke(k *call) (ret []byte, err error, panicked bool) {
	cache := storage.NewCacheDB(w.overlay)
	var signers []common.Address
	for _, s := range k.Signers {
		signers = append(signers, addrOf(s))
	}
	tx := &types.Transaction{SignedAddr: signers}
	sc := &smartcontract.SmartContract{
		Config:  &smartcontract.Config{Time: k.Time, Height: k.Height, Tx: tx},
		CacheDB: cache,
		Gas:     1 << 60,
	}
	ns, e := sc.NewNativeService()
	if e != nil {
		return nil, e, false
	}
	var msg string
	panicked, msg = hx.Recover(func() { ret, err = ns.NativeCall(k.Contract, k.Method, k.Args) })
	w.c.Eval()
	if panicked {
		return nil, fmt.Errorf("PANIC: %s", msg), true
	}
	if err == nil {
		cache.Commit()
	}
	return ret, err, false
}

func balanceBytes(v *big.Int) []byte {
	return states.NativeTokenBalance{Balance: bigint.New(v)}.MustToStorageItemBytes()
}

const vrfStr = "1c9810aa9822e511d5804a9c4db9dd08497c31087b0daafa34d768a3253441fa20515e2f30f81741102af0ca3cefc4818fef16adb825fbaa8cad78647f3afb590e"

// genesis runs the native genesis calls the way core/genesis builds them.
func (w *world) genesis(st *setup) error {
	h, t := st.Height0, st.Time0
	// ONT: whole supply to the bank
	args := common.NewZeroCopySink(nil)
	nutils.EncodeVarUint(args, 1)
	nutils.EncodeAddress(args, addrOf(idBank))
	nutils.EncodeVarUint(args, constants.ONT_TOTAL_SUPPLY)
	oargs := common.NewZeroCopySink(nil)
	oargs.WriteVarBytes(args.Bytes())
	if _, err, _ := w.invoke(&call{ontC, ont.INIT_NAME, oargs.Bytes(), nil, h, t}); err != nil {
		return fmt.Errorf("ont init: %v", err)
	}
	if _, err, _ := w.invoke(&call{ongC, ont.INIT_NAME, []byte{}, nil, h, t}); err != nil {
		return fmt.Errorf("ong init: %v", err)
	}
	// param contract: admin/operator
	params := new(global_params.Params)
	sink := common.NewZeroCopySink(nil)
	params.Serialization(sink)
	nutils.EncodeAddress(sink, addrOf(idAdmin))
	wrapped := common.NewZeroCopySink(nil)
	wrapped.WriteVarBytes(sink.Bytes())
	if _, err, _ := w.invoke(&call{nutils.ParamContractAddress, global_params.INIT_NAME, wrapped.Bytes(), nil, h, t}); err != nil {
		return fmt.Errorf("param init: %v", err)
	}
	// governance
	cfg := &config.VBFTConfig{N: 7, C: 2, K: 7, L: 112, BlockMsgDelay: 10000, HashMsgDelay: 10000,
		PeerHandshakeTimeout: 10, MaxBlockChangeView: 100000, MinInitStake: 10000,
		AdminOntID: adminOntID, VrfValue: vrfStr, VrfProof: vrfStr}
	var sum uint64
	for i, p := range st.Peers {
		oa := addrOf(p.Owner)
		cfg.Peers = append(cfg.Peers, &config.VBFTPeerStakeInfo{Index: uint32(i + 1), PeerPubkey: keyOf(p.Peer),
			Address: oa.ToBase58(), InitPos: p.Init})
		sum += p.Init
	}
	cs := common.NewZeroCopySink(nil)
	if err := cfg.Serialization(cs); err != nil {
		return err
	}
	gs := common.NewZeroCopySink(nil)
	gs.WriteVarBytes(cs.Bytes())
	if _, err, _ := w.invoke(&call{govC, gov.INIT_CONFIG, gs.Bytes(), nil, h, t}); err != nil {
		return fmt.Errorf("gov init: %v", err)
	}
	// role "candidate" may call registerCandidate; callerOK holds it
	fr := &auth.FuncsToRoleParam{ContractAddr: govC, AdminOntID: []byte(adminOntID), Role: []byte("candidate"),
		FuncNames: []string{gov.REGISTER_CANDIDATE}, KeyNo: 1}
	if _, err, _ := w.invoke(&call{nutils.AuthContractAddress, "assignFuncsToRole", common.SerializeToBytes(fr), nil, h, t}); err != nil {
		return fmt.Errorf("assignFuncsToRole: %v", err)
	}
	or := &auth.OntIDsToRoleParam{ContractAddr: govC, AdminOntID: []byte(adminOntID), Role: []byte("candidate"),
		Persons: [][]byte{[]byte(callerOK)}, KeyNo: 1}
	if _, err, _ := w.invoke(&call{nutils.AuthContractAddress, "assignOntIDsToRole", common.SerializeToBytes(or), nil, h, t}); err != nil {
		return fmt.Errorf("assignOntIDsToRole: %v", err)
	}
	// distribution by ordinary ONT transfers signed by the bank
	if st.Funded && sum > 0 {
		if err := w.ontTransfer(idBank, idGov, sum, h, t); err != nil {
			return err
		}
	}
	ids := make([]int, 0, len(st.Bal))
	for id := range st.Bal {
		ids = append(ids, id)
	}
	sort.Ints(ids)
	for _, id := range ids {
		if st.Bal[id] > 0 {
			if err := w.ontTransfer(idBank, id, st.Bal[id], h, t); err != nil {
				return err
			}
		}
	}
	// ONG for the candidate fee and the fee split (ONG is outside the model: written directly)
	cache := storage.NewCacheDB(w.overlay)
	for id := 0; id < nAddr; id++ {
		raw, _ := new(big.Int).SetString("1000000000000000000000000", 10) // 10^6 ONG in 10^-18 units
		cache.Put(ont.GenBalanceKey(ongC, addrOf(id)), balanceBytes(raw))
	}
	cache.Commit()
	return nil
}

func ongBalanceKey(id int) []byte { return ont.GenBalanceKey(ongC, addrOf(id)) }

// units are 10^-9 ONG; the stored value has 18 decimals
func ongBalanceBytes(units uint64) []byte {
	raw := new(big.Int).Mul(new(big.Int).SetUint64(units), big.NewInt(1_000_000_000))
	return balanceBytes(raw)
}

func (w *world) ontTransfer(from, to int, amount uint64, h, t uint32) error {
	sts := ont.TransferStates{States: []ont.TransferState{{From: addrOf(from), To: addrOf(to), Value: amount}}}
	_, err, _ := w.invoke(&call{ontC, "transfer", common.SerializeToBytes(&sts), []int{from}, h, t})
	return err
}

// ---------------------------------------------------------------- decoded storage

type peerObs struct {
	Peer   int    `json:"peer"`
	Owner  int    `json:"owner"`
	Status int    `json:"status"`
	Init   uint64 `json:"init"`
	Total  uint64 `json:"total"`
}
type infoObs struct {
	Peer int       `json:"peer"`
	Addr int       `json:"addr"`
	B    [6]uint64 `json:"b"` // cons cand new wcons wcand wunf
}
type kv struct {
	K int    `json:"k"`
	V uint64 `json:"v"`
}
type penObs struct {
	Peer int    `json:"peer"`
	Init uint64 `json:"init"`
	Auth uint64 `json:"auth"`
}
type obs struct {
	View    uint32    `json:"view"`
	VHeight uint32    `json:"vheight"`
	Pool    []peerObs `json:"pool"`
	Prev    []peerObs `json:"prev"` // pool of view-1 (used by the fee split)
	Infos   []infoObs `json:"infos"`
	Stakes  []kv      `json:"stakes"`
	Pens    []penObs  `json:"pens"`
	Bal     []kv      `json:"bal"` // whole ONT per known address id
	Black   []int     `json:"black"`
	MaxAuth []kv      `json:"maxauth"`
	Frac    bool      `json:"frac,omitempty"` // some ONT balance is not a whole number
}

func (w *world) raw(contract common.Address, prefix []byte) [][2][]byte {
	p := append([]byte{byte(scommon.ST_STORAGE)}, contract[:]...)
	p = append(p, prefix...)
	it := w.overlay.NewIterator(p)
	defer it.Release()
	var out [][2][]byte
	for ok := it.First(); ok; ok = it.Next() {
		out = append(out, [2][]byte{append([]byte{}, it.Key()[1+20:]...), append([]byte{}, it.Value()...)})
	}
	return out
}

func rawValue(v []byte) ([]byte, error) { return states.GetValueFromRawStorageItem(v) }

func (w *world) poolAt(view uint32) ([]peerObs, error) {
	key := append([]byte(gov.PEER_POOL), gov.GetUint32Bytes(view)...)
	var out []peerObs
	for _, e := range w.raw(govC, key) {
		if len(e[0]) != len(key) {
			continue
		}
		val, err := rawValue(e[1])
		if err != nil {
			return nil, err
		}
		m := &gov.PeerPoolMap{PeerPoolMap: map[string]*gov.PeerPoolItem{}}
		if err := m.Deserialization(common.NewZeroCopySource(val)); err != nil {
			return nil, err
		}
		for k, it := range m.PeerPoolMap {
			if k != it.PeerPubkey {
				return nil, fmt.Errorf("pool key %s holds item of %s", k, it.PeerPubkey)
			}
			out = append(out, peerObs{idOfKey(k), idOfAddr(it.Address), int(it.Status), it.InitPos, it.TotalPos})
		}
	}
	sort.Slice(out, func(i, j int) bool { return out[i].Peer < out[j].Peer })
	return out, nil
}

func (w *world) observe() (*obs, error) {
	o := &obs{}
	// view
	for _, e := range w.raw(govC, []byte(gov.GOVERNANCE_VIEW)) {
		val, err := rawValue(e[1])
		if err != nil || len(val) < 8 {
			return nil, fmt.Errorf("view record: %v", err)
		}
		o.View = binary.LittleEndian.Uint32(val[0:4])
		o.VHeight = binary.LittleEndian.Uint32(val[4:8])
	}
	var err error
	if o.Pool, err = w.poolAt(o.View); err != nil {
		return nil, err
	}
	if o.View > 0 {
		if o.Prev, err = w.poolAt(o.View - 1); err != nil {
			return nil, err
		}
	}
	for _, e := range w.raw(govC, gov.AUTHORIZE_INFO_POOL) {
		val, err := rawValue(e[1])
		if err != nil {
			return nil, err
		}
		var ai gov.AuthorizeInfo
		if err := ai.Deserialization(common.NewZeroCopySource(val)); err != nil {
			return nil, err
		}
		b := [6]uint64{ai.ConsensusPos, ai.CandidatePos, ai.NewPos, ai.WithdrawConsensusPos, ai.WithdrawCandidatePos, ai.WithdrawUnfreezePos}
		o.Infos = append(o.Infos, infoObs{idOfKey(ai.PeerPubkey), idOfAddr(ai.Address), b})
	}
	sort.Slice(o.Infos, func(i, j int) bool {
		if o.Infos[i].Peer != o.Infos[j].Peer {
			return o.Infos[i].Peer < o.Infos[j].Peer
		}
		return o.Infos[i].Addr < o.Infos[j].Addr
	})
	for _, e := range w.raw(govC, []byte(gov.TOTAL_STAKE)) {
		val, err := rawValue(e[1])
		if err != nil {
			return nil, err
		}
		var ts gov.TotalStake
		if err := ts.Deserialization(common.NewZeroCopySource(val)); err != nil {
			return nil, err
		}
		o.Stakes = append(o.Stakes, kv{idOfAddr(ts.Address), ts.Stake})
	}
	sort.Slice(o.Stakes, func(i, j int) bool { return o.Stakes[i].K < o.Stakes[j].K })
	for _, e := range w.raw(govC, []byte(gov.PENALTY_STAKE)) {
		val, err := rawValue(e[1])
		if err != nil {
			return nil, err
		}
		var ps gov.PenaltyStake
		if err := ps.Deserialization(common.NewZeroCopySource(val)); err != nil {
			return nil, err
		}
		o.Pens = append(o.Pens, penObs{idOfKey(ps.PeerPubkey), ps.InitPos, ps.AuthorizePos})
	}
	sort.Slice(o.Pens, func(i, j int) bool { return o.Pens[i].Peer < o.Pens[j].Peer })
	for _, e := range w.raw(govC, []byte(gov.BLACK_LIST)) {
		o.Black = append(o.Black, idOfKey(hex.EncodeToString(e[0][len(gov.BLACK_LIST):])))
	}
	sort.Ints(o.Black)
	for _, e := range w.raw(govC, []byte(gov.PEER_ATTRIBUTES)) {
		val, err := rawValue(e[1])
		if err != nil {
			return nil, err
		}
		var pa gov.PeerAttributes
		if err := pa.Deserialization(common.NewZeroCopySource(val)); err != nil {
			return nil, err
		}
		o.MaxAuth = append(o.MaxAuth, kv{idOfKey(pa.PeerPubkey), pa.MaxAuthorize})
	}
	sort.Slice(o.MaxAuth, func(i, j int) bool { return o.MaxAuth[i].K < o.MaxAuth[j].K })
	// ONT balances (raw records of the ONT contract with a 20-byte suffix)
	scale := new(big.Int).SetUint64(constants.ONT_TOTAL_SUPPLY_V2 / constants.ONT_TOTAL_SUPPLY)
	for id := 0; id < nAddr; id++ {
		a := addrOf(id)
		for _, e := range w.raw(ontC, a[:]) {
			if len(e[0]) != 20 {
				continue
			}
			item := new(states.StorageItem)
			if err := item.Deserialization(common.NewZeroCopySource(e[1])); err != nil {
				return nil, err
			}
			b, err := states.NativeTokenBalanceFromStorageItem(item)
			if err != nil {
				return nil, err
			}
			q, r := new(big.Int).QuoRem(b.ToBigInt(), scale, new(big.Int))
			if r.Sign() != 0 {
				o.Frac = true
			}
			if q.Sign() != 0 {
				o.Bal = append(o.Bal, kv{id, q.Uint64()})
			}
		}
	}
	return o, nil
}

// classify maps the implementation's error text to the model's result enum.
func classify(err error, panicked bool) string {
	if err == nil {
		return "ROk"
	}
	if panicked {
		return "RPanic"
	}
	m := err.Error()
	has := func(s string) bool { return strings.Contains(m, s) }
	switch {
	case has("deserialize, contract params") || has("deserialize, deserialize"):
		return "EDecode"
	case has("block num is not reached"):
		return "EHeight"
	case has("checkWitness error") || has("authentication Failed"):
		return "EWitness"
	case has("verifyToken"):
		return "EToken"
	case has("invalid peer pubkey"):
		return "EPubkey"
	case has("is in BlackList"):
		return "EBlack"
	case has("is not in BlackList"):
		return "ENotBlack"
	case has("already in peerPoolMap"):
		return "EDup"
	case has("node is full"):
		return "EFull"
	case has("initPos must >="), has("init pos must >= 1"):
		return "EInit"
	case has("pos must >= 1") || has("pos must be times of") || has("amount of withdraw must >= 1"):
		return "EPos"
	case has("is not in peerPoolMap"):
		return "ENoPeer"
	case has("address can not be node owner"):
		return "EOwner"
	case has("is not registered by this address") || has("address is not peer owner"):
		return "ENotOwner"
	case has("status is not RegisterCandidateStatus") || has("is not RegisterCandidateStatus") ||
		has("is not candidate and can not be authorized") || has("is not CandidateStatus or ConsensusStatus") ||
		has("peerPubkey is not candidate"):
		return "EStatus"
	case has("pos of this peer is full"):
		return "EPosLimit"
	case has("more than peerAttributes.MaxAuthorize") || has("maxAuthorize is out of limit"):
		return "EMaxAuth"
	case has("your pos of this peerPubkey is not enough") || has("unfreeze withdraw pos of this peerPubkey is not enough"):
		return "ENotEnough"
	case has("ont deposit is not enough"):
		return "EStake"
	case has("over totalSupply"):
		return "EOntBound"
	case has("[Transfer] balance insufficient") && has("appCallTransferOnt"):
		return "EOntBalance"
	case has("num of peers is less than K"):
		return "ELessK"
	case has("twice in one block"):
		return "ETwice"
	case has("candidatePos should be 0") || has("consensusPos should be 0"):
		return "EBucket"
	case has("initPos can not be negative") || has("initPos must more than"):
		return "EReduce"
	case has("get value from promisePosBytes"):
		return "EPromise"
	}
	return "EOther"
}
