package c11

import (
	"fmt"
	"strings"

	"github.com/ontio/ontology/common"
	gov "github.com/ontio/ontology/smartcontract/service/native/governance"
	nutils "github.com/ontio/ontology/smartcontract/service/native/utils"

	"verif/harness/hx"
)

// op is one governance transaction (JSON form = replay form).
type op struct {
	Kind   string   `json:"kind"`
	Signer int      `json:"signer"`
	Addr   int      `json:"addr,omitempty"`
	Peer   int      `json:"peer,omitempty"`
	Peers  []int    `json:"peers,omitempty"`
	Pos    []uint32 `json:"pos,omitempty"`
	Amount uint32   `json:"amount,omitempty"`
	NoTok  bool     `json:"notok,omitempty"` // registerCandidate: caller ONT ID without the role
	Height uint32   `json:"height"`
	Time   uint32   `json:"time"`
}

func (o *op) encode() (method string, args []byte, err error) {
	sink := common.NewZeroCopySink(nil)
	keys := func(ids []int) []string {
		var out []string
		for _, id := range ids {
			out = append(out, keyOf(id))
		}
		return out
	}
	switch o.Kind {
	case "register":
		caller := callerOK
		if o.NoTok {
			caller = callerBad
		}
		p := &gov.RegisterCandidateParam{PeerPubkey: keyOf(o.Peer), Address: addrOf(o.Addr), InitPos: o.Amount,
			Caller: []byte(caller), KeyNo: 1}
		p.Serialization(sink)
		method = gov.REGISTER_CANDIDATE
	case "unregister":
		(&gov.UnRegisterCandidateParam{PeerPubkey: keyOf(o.Peer), Address: addrOf(o.Addr)}).Serialization(sink)
		method = gov.UNREGISTER_CANDIDATE
	case "approve":
		(&gov.ApproveCandidateParam{PeerPubkey: keyOf(o.Peer)}).Serialization(sink)
		method = gov.APPROVE_CANDIDATE
	case "reject":
		(&gov.RejectCandidateParam{PeerPubkey: keyOf(o.Peer)}).Serialization(sink)
		method = gov.REJECT_CANDIDATE
	case "authorize", "unauthorize":
		// written by hand so that lists longer than the writer's limit and unequal lengths can be sent
		nutils.EncodeAddress(sink, addrOf(o.Addr))
		nutils.EncodeVarUint(sink, uint64(len(o.Peers)))
		for _, k := range keys(o.Peers) {
			sink.WriteString(k)
		}
		nutils.EncodeVarUint(sink, uint64(len(o.Pos)))
		for _, v := range o.Pos {
			nutils.EncodeVarUint(sink, uint64(v))
		}
		method = gov.AUTHORIZE_FOR_PEER
		if o.Kind == "unauthorize" {
			method = gov.UNAUTHORIZE_FOR_PEER
		}
	case "withdraw":
		nutils.EncodeAddress(sink, addrOf(o.Addr))
		nutils.EncodeVarUint(sink, uint64(len(o.Peers)))
		for _, k := range keys(o.Peers) {
			sink.WriteString(k)
		}
		nutils.EncodeVarUint(sink, uint64(len(o.Pos)))
		for _, v := range o.Pos {
			nutils.EncodeVarUint(sink, uint64(v))
		}
		method = gov.WITHDRAW
	case "quit":
		(&gov.QuitNodeParam{PeerPubkey: keyOf(o.Peer), Address: addrOf(o.Addr)}).Serialization(sink)
		method = gov.QUIT_NODE
	case "black":
		(&gov.BlackNodeParam{PeerPubkeyList: keys(o.Peers)}).Serialization(sink)
		method = gov.BLACK_NODE
	case "white":
		(&gov.WhiteNodeParam{PeerPubkey: keyOf(o.Peer)}).Serialization(sink)
		method = gov.WHITE_NODE
	case "commit":
		method = gov.COMMIT_DPOS
	case "maxauth":
		(&gov.ChangeMaxAuthorizationParam{PeerPubkey: keyOf(o.Peer), Address: addrOf(o.Addr), MaxAuthorize: o.Amount}).Serialization(sink)
		method = gov.CHANGE_MAX_AUTHORIZATION
	case "addinit", "reduceinit":
		(&gov.ChangeInitPosParam{PeerPubkey: keyOf(o.Peer), Address: addrOf(o.Addr), Pos: o.Amount}).Serialization(sink)
		method = gov.ADD_INIT_POS
		if o.Kind == "reduceinit" {
			method = gov.REDUCE_INIT_POS
		}
	case "penalty":
		(&gov.TransferPenaltyParam{PeerPubkey: keyOf(o.Peer), Address: addrOf(o.Addr)}).Serialization(sink)
		method = gov.TRANSFER_PENALTY
	case "peercost": // C10 only (not an operation of the C11 model)
		if err := (&gov.SetPeerCostParam{PeerPubkey: keyOf(o.Peer), Address: addrOf(o.Addr), PeerCost: o.Amount}).Serialization(sink); err != nil {
			return "", nil, err
		}
		method = gov.SET_PEER_COST
	case "feepct": // C10 only
		p := &gov.SetFeePercentageParam{PeerPubkey: keyOf(o.Peer), Address: addrOf(o.Addr), PeerCost: o.Amount}
		if len(o.Pos) > 0 {
			p.StakeCost = o.Pos[0]
		}
		if err := p.Serialization(sink); err != nil {
			return "", nil, err
		}
		method = gov.SET_FEE_PERCENTAGE
	default:
		return "", nil, fmt.Errorf("bad op kind %q", o.Kind)
	}
	return method, sink.Bytes(), nil
}

func (w *world) apply(o *op) (res string, errText string) {
	method, args, err := o.encode()
	if err != nil {
		panic(err)
	}
	_, e, panicked := w.invoke(&call{govC, method, args, []int{o.Signer}, o.Height, o.Time})
	if e != nil {
		errText = e.Error()
	}
	return classify(e, panicked), errText
}

// ---------------------------------------------------------------- Coq printing

func coqPairs(ps []int, vs []uint32) string {
	var items []string
	n := len(ps)
	if len(vs) < n {
		n = len(vs)
	}
	for i := 0; i < n; i++ {
		items = append(items, fmt.Sprintf("(%d, %d)", ps[i], vs[i]))
	}
	return hx.CoqList(items)
}

// coqOp prints the op as a term of Model.Gov.op; ok=false when the op has no model form
// (list lengths differ: a decode error in the implementation, recorded as such).
func (o *op) coq() string {
	switch o.Kind {
	case "register":
		return fmt.Sprintf("(ORegister %d %d %d %d %s %s)", o.Signer, o.Peer, o.Addr, o.Amount, hx.CoqBool(o.Peer >= 1 && o.Peer <= nPeer), hx.CoqBool(!o.NoTok))
	case "unregister":
		return fmt.Sprintf("(OUnRegister %d %d %d)", o.Signer, o.Peer, o.Addr)
	case "approve":
		return fmt.Sprintf("(OApprove %d %d)", o.Signer, o.Peer)
	case "reject":
		return fmt.Sprintf("(OReject %d %d)", o.Signer, o.Peer)
	case "authorize":
		return fmt.Sprintf("(OAuthorize %d %d %s %s)", o.Signer, o.Addr, coqPairs(o.Peers, o.Pos), hx.CoqBool(len(o.Peers) == len(o.Pos)))
	case "unauthorize":
		return fmt.Sprintf("(OUnAuthorize %d %d %s %s)", o.Signer, o.Addr, coqPairs(o.Peers, o.Pos), hx.CoqBool(len(o.Peers) == len(o.Pos)))
	case "withdraw":
		return fmt.Sprintf("(OWithdraw %d %d %s %s)", o.Signer, o.Addr, coqPairs(o.Peers, o.Pos), hx.CoqBool(len(o.Peers) == len(o.Pos)))
	case "quit":
		return fmt.Sprintf("(OQuit %d %d %d)", o.Signer, o.Peer, o.Addr)
	case "black":
		var items []string
		for _, p := range o.Peers {
			items = append(items, fmt.Sprint(p))
		}
		return fmt.Sprintf("(OBlack %d %s)", o.Signer, hx.CoqList(items))
	case "white":
		return fmt.Sprintf("(OWhite %d %d)", o.Signer, o.Peer)
	case "commit":
		return fmt.Sprintf("(OCommit %d)", o.Signer)
	case "maxauth":
		return fmt.Sprintf("(OMaxAuth %d %d %d %d)", o.Signer, o.Peer, o.Addr, o.Amount)
	case "addinit":
		return fmt.Sprintf("(OAddInit %d %d %d %d)", o.Signer, o.Peer, o.Addr, o.Amount)
	case "reduceinit":
		return fmt.Sprintf("(OReduceInit %d %d %d %d)", o.Signer, o.Peer, o.Addr, o.Amount)
	case "penalty":
		return fmt.Sprintf("(OPenalty %d %d %d)", o.Signer, o.Peer, o.Addr)
	}
	panic("bad kind " + o.Kind)
}

func (o *obs) coq() string {
	var b strings.Builder
	peers := func(ps []peerObs) string {
		var items []string
		for _, p := range ps {
			items = append(items, fmt.Sprintf("mkPeer %d %d %d %d %d", p.Peer, p.Owner, p.Status, p.Init, p.Total))
		}
		return hx.CoqList(items)
	}
	kvs := func(l []kv) string {
		var items []string
		for _, e := range l {
			items = append(items, fmt.Sprintf("(%d, %d)", e.K, e.V))
		}
		return hx.CoqList(items)
	}
	var infos, pens, black []string
	for _, i := range o.Infos {
		infos = append(infos, fmt.Sprintf("mkInfo %d %d %d %d %d %d %d %d", i.Peer, i.Addr, i.B[0], i.B[1], i.B[2], i.B[3], i.B[4], i.B[5]))
	}
	for _, p := range o.Pens {
		pens = append(pens, fmt.Sprintf("(%d, (%d, %d))", p.Peer, p.Init, p.Auth))
	}
	for _, p := range o.Black {
		black = append(black, fmt.Sprint(p))
	}
	fmt.Fprintf(&b, "(mkObs %d %d %s %s %s %s %s %s %s %s)", o.View, o.VHeight, peers(o.Pool), hx.CoqList(infos), kvs(o.Stakes),
		hx.CoqList(pens), kvs(o.Bal), hx.CoqList(black), kvs(o.MaxAuth), peers(o.Prev))
	return b.String()
}

// diff returns the records of `post` that differ from `pre` (records that disappeared are
// listed with their default value) and the peers that left the pool.
func diff(pre, post *obs) (d *obs, del []int, prevChanged bool) {
	d = &obs{View: post.View, VHeight: post.VHeight, Black: post.Black}
	if fmt.Sprint(pre.Prev) != fmt.Sprint(post.Prev) {
		d.Prev, prevChanged = post.Prev, true
	}
	prePool := map[int]peerObs{}
	for _, p := range pre.Pool {
		prePool[p.Peer] = p
	}
	postPool := map[int]bool{}
	for _, p := range post.Pool {
		postPool[p.Peer] = true
		if q, ok := prePool[p.Peer]; !ok || q != p {
			d.Pool = append(d.Pool, p)
		}
	}
	for _, p := range pre.Pool {
		if !postPool[p.Peer] {
			del = append(del, p.Peer)
		}
	}
	type ik struct{ p, a int }
	preI := map[ik][6]uint64{}
	for _, i := range pre.Infos {
		preI[ik{i.Peer, i.Addr}] = i.B
	}
	postI := map[ik]bool{}
	for _, i := range post.Infos {
		postI[ik{i.Peer, i.Addr}] = true
		if b, ok := preI[ik{i.Peer, i.Addr}]; !ok || b != i.B {
			d.Infos = append(d.Infos, i)
		}
	}
	for _, i := range pre.Infos {
		if !postI[ik{i.Peer, i.Addr}] && i.B != [6]uint64{} {
			d.Infos = append(d.Infos, infoObs{Peer: i.Peer, Addr: i.Addr})
		}
	}
	kvDiff := func(a, b []kv) (out []kv) {
		am := map[int]uint64{}
		for _, e := range a {
			am[e.K] = e.V
		}
		bm := map[int]bool{}
		for _, e := range b {
			bm[e.K] = true
			if v, ok := am[e.K]; !ok || v != e.V {
				out = append(out, e)
			}
		}
		for _, e := range a {
			if !bm[e.K] && e.V != 0 {
				out = append(out, kv{e.K, 0})
			}
		}
		return
	}
	d.Stakes = kvDiff(pre.Stakes, post.Stakes)
	d.Bal = kvDiff(pre.Bal, post.Bal)
	d.MaxAuth = kvDiff(pre.MaxAuth, post.MaxAuth)
	preP := map[int]penObs{}
	for _, p := range pre.Pens {
		preP[p.Peer] = p
	}
	postP := map[int]bool{}
	for _, p := range post.Pens {
		postP[p.Peer] = true
		if q, ok := preP[p.Peer]; !ok || q != p {
			d.Pens = append(d.Pens, p)
		}
	}
	for _, p := range pre.Pens {
		if !postP[p.Peer] {
			d.Pens = append(d.Pens, penObs{Peer: p.Peer})
		}
	}
	return
}
