package c44

import (
	"bytes"
	"fmt"
	"sort"
	"strings"

	"verif/harness/hx"
)

// shortener prints byte strings as Coq terms that reuse named constants (addresses, contract
// records) declared once in the header of cases.v; the case file stays small and parses fast.
type shortener struct {
	names []namedBytes
}

type namedBytes struct {
	name string
	b    []byte
}

func (s *shortener) add(name string, b []byte) {
	s.names = append(s.names, namedBytes{name, append([]byte{}, b...)})
	sort.SliceStable(s.names, func(i, j int) bool { return len(s.names[i].b) > len(s.names[j].b) })
}

func (s *shortener) header() string {
	var sb strings.Builder
	for _, n := range s.names {
		fmt.Fprintf(&sb, "Definition %s : bytes := %s.\n", n.name, hx.CoqBytes(n.b))
	}
	return sb.String()
}

func rawBytes(b []byte) string {
	if len(b) > 64 {
		same := true
		for _, x := range b {
			if x != b[0] {
				same = false
				break
			}
		}
		if same {
			return fmt.Sprintf("(repeat %d %d%%nat)", b[0], len(b))
		}
	}
	return hx.CoqBytes(b)
}

func (s *shortener) match(b []byte) (string, []byte, bool) {
	for _, n := range s.names {
		if len(n.b) >= 8 && bytes.HasPrefix(b, n.b) {
			return n.name, b[len(n.b):], true
		}
	}
	return "", nil, false
}

// B prints b, recognising name, name ++ rest, and x :: name ++ rest.
func (s *shortener) B(b []byte) string {
	if name, rest, ok := s.match(b); ok {
		if len(rest) == 0 {
			return name
		}
		return fmt.Sprintf("(%s ++ %s)", name, rawBytes(rest))
	}
	if len(b) > 1 {
		if name, rest, ok := s.match(b[1:]); ok {
			if len(rest) == 0 {
				return fmt.Sprintf("(%d :: %s)", b[0], name)
			}
			return fmt.Sprintf("(%d :: %s ++ %s)", b[0], name, rawBytes(rest))
		}
	}
	return rawBytes(b)
}

var sh = &shortener{}

func initShortener() string {
	sh = &shortener{}
	for i, a := range addrPool() {
		sh.add(fmt.Sprintf("pa%d", i), a)
	}
	for t := 0; t < 4; t++ {
		sh.add(fmt.Sprintf("prec%d", t), recordFor(byte(t)))
	}
	for i, c := range contracts() {
		sh.add(fmt.Sprintf("ua%d", i), c.addr[:])
		sh.add(fmt.Sprintf("urec%d", i), c.record)
	}
	return sh.header()
}
