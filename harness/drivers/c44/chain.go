package c44

import (
	"bytes"
	"encoding/binary"
	"encoding/json"
	"fmt"
	"path/filepath"

	"github.com/ontio/ontology/common"
	"github.com/ontio/ontology/common/config"
	"github.com/ontio/ontology/core/payload"
	"github.com/ontio/ontology/core/types"
	cutils "github.com/ontio/ontology/core/utils"
	"github.com/ontio/ontology/smartcontract/event"
	"github.com/ontio/ontology/smartcontract/storage"

	"verif/harness/hx"
	"verif/harness/ledgerkit"
)

// ---------- a tiny NeoVM assembler ----------

type asm struct {
	b      []byte
	labels map[string]int
	fix    map[int]string // position of a JMP* opcode -> label
}

func newAsm() *asm { return &asm{labels: map[string]int{}, fix: map[int]string{}} }

const (
	opPUSHDATA1 = 0x4C
	opPUSHDATA2 = 0x4D
	opPUSH1     = 0x51
	opJMPIF     = 0x63
	opJMPIFNOT  = 0x64
	opDEPTH     = 0x74
	opRET       = 0x66
	opAPPCALL   = 0x67
	opSYSCALL   = 0x68
	opDROP      = 0x75
	opDUP       = 0x76
	opNUMEQUAL  = 0x9C
)

func (a *asm) op(o byte) { a.b = append(a.b, o) }

func (a *asm) pushBytes(d []byte) {
	switch n := len(d); {
	case n == 0:
		a.op(0x00)
	case n <= 75:
		a.b = append(append(a.b, byte(n)), d...)
	case n < 256:
		a.b = append(append(a.b, opPUSHDATA1, byte(n)), d...)
	default:
		a.b = append(a.b, opPUSHDATA2, byte(n), byte(n>>8))
		a.b = append(a.b, d...)
	}
}

func (a *asm) pushInt(n int) { // 1..16
	a.op(byte(opPUSH1 + n - 1))
}

func (a *asm) syscall(name string) {
	a.b = append(append(a.b, opSYSCALL, byte(len(name))), name...)
}

func (a *asm) appcall(addr common.Address) { a.b = append(append(a.b, opAPPCALL), addr[:]...) }

func (a *asm) jmpif(label string) {
	a.fix[len(a.b)] = label
	a.b = append(a.b, opJMPIF, 0, 0)
}

func (a *asm) jmpifnot(label string) {
	a.fix[len(a.b)] = label
	a.b = append(a.b, opJMPIFNOT, 0, 0)
}

func (a *asm) label(l string) { a.labels[l] = len(a.b) }

func (a *asm) bytes() []byte {
	for pos, l := range a.fix {
		off := a.labels[l] - pos // relative to the jump opcode
		binary.LittleEndian.PutUint16(a.b[pos+1:], uint16(int16(off)))
	}
	return a.b
}

const (
	selPut = 1 + iota
	selDelete
	selMigrate
	selDestroy
	selCreate
	selDestroyPut
	selMigratePut
)

const (
	sysGetContext = "System.Storage.GetContext"
	sysPut        = "System.Storage.Put"
	sysDelete     = "System.Storage.Delete"
	sysMigrate    = "Ontology.Contract.Migrate"
	sysCreate     = "Ontology.Contract.Create"
	sysDestroy    = "System.Contract.Destroy"
)

// emitOp emits the syscalls of one operation; its arguments are already on the stack.
func emitOp(a *asm, sel int) {
	switch sel {
	case selPut:
		a.syscall(sysGetContext)
		a.syscall(sysPut)
	case selDelete:
		a.syscall(sysGetContext)
		a.syscall(sysDelete)
	case selMigrate:
		a.syscall(sysMigrate)
		a.op(opDROP)
	case selDestroy:
		a.syscall(sysDestroy)
	case selCreate:
		a.syscall(sysCreate)
		a.op(opDROP)
	case selDestroyPut:
		a.syscall(sysDestroy)
		a.syscall(sysGetContext)
		a.syscall(sysPut)
	case selMigratePut:
		a.syscall(sysMigrate)
		a.op(opDROP)
		a.syscall(sysGetContext)
		a.syscall(sysPut)
	}
}

// dispatcher: the code of the contracts of the universe. The tag makes the address unique; the
// selector on top of the (copied) caller stack chooses the operation.
func dispatcher(tag byte) []byte {
	a := newAsm()
	a.pushBytes([]byte{0xC4, tag})
	a.op(opDROP)
	// run as the entry script of a transaction (empty stack): Storage.Put(ownKey, ownVal) under
	// the address of this very code, deployed or not
	a.op(opDEPTH)
	a.jmpif("dispatch")
	a.pushBytes(ownVal)
	a.pushBytes(ownKey)
	a.syscall(sysGetContext)
	a.syscall(sysPut)
	a.op(opRET)
	a.label("dispatch")
	for sel := selPut; sel <= selMigratePut; sel++ {
		next := fmt.Sprintf("L%d", sel)
		a.op(opDUP)
		a.pushInt(sel)
		a.op(opNUMEQUAL)
		a.jmpifnot(next)
		a.op(opDROP)
		emitOp(a, sel)
		a.op(opRET)
		a.label(next)
	}
	a.op(0xF0) // THROW: unknown selector
	return a.bytes()
}

// ---------- programs ----------

type PCall struct {
	Via    int    `json:"via"`              // index of the dispatcher called with APPCALL; -1: the entry script itself
	Op     string `json:"op"`               // put del migrate destroy create destroy+put migrate+put
	K      string `json:"k,omitempty"`      // hex suffix key
	V      string `json:"v,omitempty"`      // hex value
	Target int    `json:"target,omitempty"` // dispatcher index: migration target / contract to create
}

type PTx struct {
	Deploy int     `json:"deploy"` // >= 0: deploy transaction of that dispatcher; -1: invoke
	Calls  []PCall `json:"calls,omitempty"`
	As     int     `json:"as,omitempty"` // j+1: the invoke script IS the code of dispatcher j (runs under its address without APPCALL)
}

type Program struct {
	Kind   string  `json:"kind"` // "chain"
	Blocks [][]PTx `json:"blocks"`
}

const universe = 5

var (
	ownKey = []byte("own")
	ownVal = []byte{0xEE}
)

type contractInfo struct {
	code   []byte
	addr   common.Address
	record []byte
}

func contracts() []contractInfo {
	out := make([]contractInfo, universe)
	for i := range out {
		code := dispatcher(byte(i))
		dc, err := payload.NewDeployCode(code, payload.NEOVM_TYPE, "n", "v", "a", "e", "d")
		if err != nil {
			panic(err)
		}
		out[i] = contractInfo{code, dc.Address(), dc.ToArray()}
	}
	return out
}

var selOf = map[string]int{"put": selPut, "del": selDelete, "migrate": selMigrate, "destroy": selDestroy,
	"create": selCreate, "destroy+put": selDestroyPut, "migrate+put": selMigratePut}

// pushArgs pushes the arguments of one operation (deepest first) and returns their number.
func pushArgs(a *asm, cs []contractInfo, c PCall) int {
	n := 0
	deploy := func(code []byte) {
		for _, s := range []string{"d", "e", "a", "v", "n"} { // desc email author version name
			a.pushBytes([]byte(s))
		}
		a.pushInt(int(payload.NEOVM_TYPE))
		a.pushBytes(code)
		n += 7
	}
	kv := func() {
		a.pushBytes(hx.UnHex(c.V))
		a.pushBytes(hx.UnHex(c.K))
		n += 2
	}
	switch c.Op {
	case "put":
		kv()
	case "del":
		a.pushBytes(hx.UnHex(c.K))
		n++
	case "migrate", "create":
		deploy(cs[c.Target].code)
	case "destroy":
	case "destroy+put":
		kv()
	case "migrate+put":
		kv()
		deploy(cs[c.Target].code)
	default:
		panic("op " + c.Op)
	}
	return n
}

// script builds the entry script of an invoke transaction; nonce makes scripts (and so entry
// addresses) distinct.
func script(cs []contractInfo, calls []PCall, nonce uint32) []byte {
	a := newAsm()
	nb := make([]byte, 4)
	binary.LittleEndian.PutUint32(nb, nonce)
	a.pushBytes(nb)
	a.op(opDROP)
	for _, c := range calls {
		n := pushArgs(a, cs, c)
		if c.Via < 0 {
			emitOp(a, selOf[c.Op])
			continue
		}
		a.pushInt(selOf[c.Op])
		a.appcall(cs[c.Via].addr)
		for i := 0; i < n+1; i++ { // the callee worked on a copy of the stack
			a.op(opDROP)
		}
	}
	return a.bytes()
}

// model side of one call
func coqCalls(cs []contractInfo, calls []PCall, entry common.Address) []string {
	var out []string
	for _, c := range calls {
		cur := entry[:]
		if c.Via >= 0 {
			cur = cs[c.Via].addr[:]
			out = append(out, fmt.Sprintf("CCall %s", sh.B(cur)))
		}
		put := fmt.Sprintf("CPut %s %s %s", sh.B(cur), sh.B(hx.UnHex(c.K)), sh.B(hx.UnHex(c.V)))
		t := cs[c.Target]
		mig := fmt.Sprintf("CMigrate %s %s %s", sh.B(cur), sh.B(t.addr[:]), sh.B(t.record))
		switch c.Op {
		case "put":
			out = append(out, put)
		case "del":
			out = append(out, fmt.Sprintf("CDelete %s %s", sh.B(cur), sh.B(hx.UnHex(c.K))))
		case "migrate":
			out = append(out, mig)
		case "destroy":
			out = append(out, fmt.Sprintf("CDestroy %s", sh.B(cur)))
		case "create":
			out = append(out, fmt.Sprintf("CCreate %s %s", sh.B(t.addr[:]), sh.B(t.record)))
		case "destroy+put":
			out = append(out, fmt.Sprintf("CDestroy %s", sh.B(cur)), put)
		case "migrate+put":
			out = append(out, mig, put)
		}
	}
	return out
}

type addrObs struct {
	rec       []byte
	deployed  bool
	destroyed bool
	listing   []kvp
}

func observeAddrs(k *ledgerkit.Kit, cs []contractInfo) []addrObs {
	cache := storage.NewCacheDB(k.Store().VerifC44StateOverlay())
	out := make([]addrObs, len(cs))
	for i, c := range cs {
		dc, destroyed, err := cache.GetContract(c.addr)
		if err != nil {
			panic(err)
		}
		o := addrObs{destroyed: destroyed, deployed: dc != nil}
		if dc != nil {
			o.rec = dc.ToArray()
		}
		o.listing = drain(cache.NewIterator(c.addr[:]))
		out[i] = o
	}
	return out
}

// touches: does the transaction deploy at / migrate onto / destroy / write under contract j?
func txTouches(t PTx, j int) bool {
	if t.Deploy >= 0 {
		return t.Deploy == j
	}
	for _, c := range t.Calls {
		switch c.Op {
		case "put", "del", "destroy", "destroy+put":
			if c.Via == j {
				return true
			}
		case "migrate", "migrate+put":
			if c.Target == j {
				return true
			}
		}
	}
	return false
}

const chainGasLimit = 1000000000000000

// doChain executes a program on a fresh solo chain, checks the ledger-level oracle and emits the
// correspondence case.
func doChain(c *hx.Ctx, p *Program) {
	cs := contracts()
	dir := filepath.Join(c.OutDir, "c44-ledger")
	k, err := ledgerkit.New(dir)
	if err != nil {
		panic(err)
	}
	defer k.Close()
	track := config.GetTrackDestroyedContractHeight()
	c.Eval()
	var coqBlocks []string
	dead := make([]bool, len(cs))
	wrote := make([]bool, len(cs))
	prev := observeAddrs(k, cs)
	nonce := uint32(1000)
	for bi, blk := range p.Blocks {
		var txs []*types.Transaction
		var coqTxs []string
		for _, t := range blk {
			nonce++
			var mtx *types.MutableTransaction
			if t.Deploy >= 0 {
				mtx, err = cutils.NewDeployTransaction(cs[t.Deploy].code, "n", "v", "a", "e", "d", payload.NEOVM_TYPE)
				if err != nil {
					panic(err)
				}
				mtx.Nonce = nonce
				mtx.GasLimit = chainGasLimit
				coqTxs = append(coqTxs, fmt.Sprintf("TDeploy %s %s", sh.B(cs[t.Deploy].addr[:]), sh.B(cs[t.Deploy].record)))
				c.Count("chain-tx:deploy")
			} else if t.As > 0 {
				j := t.As - 1
				mtx = k.InvokeTx(cs[j].code, 0, chainGasLimit)
				coqTxs = append(coqTxs, fmt.Sprintf("TInvoke [CPut %s %s %s]", sh.B(cs[j].addr[:]), sh.B(ownKey), sh.B(ownVal)))
				c.Count("chain-tx:contract-code-as-entry-script")
			} else {
				code := script(cs, t.Calls, nonce)
				mtx = k.InvokeTx(code, 0, chainGasLimit)
				entry := common.AddressFromVmCode(code)
				coqTxs = append(coqTxs, fmt.Sprintf("TInvoke %s", hx.CoqList(coqCalls(cs, t.Calls, entry))))
				for _, cl := range t.Calls {
					via := "appcall"
					if cl.Via < 0 {
						via = "entry"
					}
					c.Count("chain-call:" + cl.Op + ":" + via)
				}
			}
			if err := ledgerkit.Sign(mtx, k.Acct); err != nil {
				panic(err)
			}
			tx, err := mtx.IntoImmutable()
			if err != nil {
				panic(err)
			}
			txs = append(txs, tx)
		}
		b, err := k.MakeBlock(txs)
		if err != nil {
			panic(err)
		}
		res, err := k.Ledger.ExecuteBlock(b)
		if err != nil {
			c.Fail("chain:block-rejected", "a block of deploy/invoke transactions executes", p, err.Error(), nil)
			return
		}
		if err := k.Ledger.AddBlock(b, nil, res.MerkleRoot); err != nil {
			c.Fail("chain:block-rejected", "a block of deploy/invoke transactions is added", p, err.Error(), nil)
			return
		}
		var outs []string
		ok := make([]bool, len(blk))
		for i := range blk {
			ok[i] = res.Notify[i].State == event.CONTRACT_STATE_SUCCESS
			if ok[i] {
				outs = append(outs, "Committed")
				c.Count("chain-outcome:committed")
			} else {
				outs = append(outs, "Failed")
				c.Count("chain-outcome:failed")
			}
		}
		cur := observeAddrs(k, cs)
		// ---- oracle on the ledger ----
		// a committed transaction in which code running under address j called Storage.Put after
		// (or without) the contract's existence: the known defect of checkStorageContext
		for i, t := range blk {
			if !ok[i] || t.Deploy >= 0 {
				continue
			}
			if t.As > 0 {
				wrote[t.As-1] = true
			}
			for _, cl := range t.Calls {
				if cl.Via >= 0 && (cl.Op == "destroy+put" || cl.Op == "migrate+put") {
					wrote[cl.Via] = true
				}
			}
		}
		for j := range cs {
			if cur[j].destroyed && len(cur[j].listing) != 0 {
				if wrote[j] {
					c.Fail("storage:write-through-missing-context", "a destroyed or migrated-away address owns no storage (Storage.Put went through the context of a destroyed / missing contract)",
						p, map[string]interface{}{"block": bi, "contract": j, "storage": kvsJSON(cur[j].listing)}, nil)
				} else {
					c.Fail("destroyed:storage-came-back", "a destroyed or migrated-away address owns no storage",
						p, map[string]interface{}{"block": bi, "contract": j, "storage": kvsJSON(cur[j].listing)}, nil)
				}
			}
			if dead[j] {
				if !cur[j].destroyed || cur[j].deployed {
					c.Fail("destroyed:came-back", "a destroyed or migrated-away address stays destroyed and without record",
						p, map[string]interface{}{"block": bi, "contract": j, "destroyed": cur[j].destroyed, "deployed": cur[j].deployed}, nil)
				}
				for i, t := range blk {
					if !ok[i] {
						continue
					}
					if t.As-1 == j {
						c.Fail("storage:write-through-missing-context", "no transaction that writes under a destroyed address succeeds (the contract's code sent as an invoke script runs under the destroyed address)",
							p, map[string]interface{}{"block": bi, "tx": i, "contract": j}, nil)
					} else if txTouches(t, j) {
						cl := "destroyed:write-accepted"
						if t.Deploy == j {
							cl = "destroyed:redeploy-accepted"
						}
						c.Fail(cl, "no transaction that deploys at, migrates onto or writes under a destroyed address succeeds",
							p, map[string]interface{}{"block": bi, "tx": i, "contract": j}, nil)
					}
				}
			}
		}
		if len(blk) == 1 && ok[0] && blk[0].Deploy < 0 && len(blk[0].Calls) == 1 && blk[0].Calls[0].Via >= 0 {
			cl := blk[0].Calls[0]
			from, to := cl.Via, cl.Target
			switch cl.Op {
			case "migrate":
				c.Count("chain-oracle:solo-migrate")
				if from != to {
					var want []kvp
					for _, e := range prev[from].listing {
						want = append(want, kvp{append(cp(cs[to].addr[:]), e.k[20:]...), e.v})
					}
					if len(prev[to].listing) == 0 && !kvsEqual(cur[to].listing, want) {
						c.Fail("migrate:storage-not-moved", "after Contract.Migrate the new contract holds exactly the old contract's entries",
							p, map[string]interface{}{"block": bi, "got": kvsJSON(cur[to].listing)}, kvsJSON(want))
					}
					if !cur[to].deployed {
						c.Fail("migrate:new-contract-missing", "after Contract.Migrate the new contract is deployed", p, bi, nil)
					}
				}
				if len(cur[from].listing) != 0 || cur[from].deployed {
					c.Fail("migrate:old-key-left", "after Contract.Migrate the old address has no record and no storage", p,
						map[string]interface{}{"block": bi, "storage": kvsJSON(cur[from].listing), "deployed": cur[from].deployed}, nil)
				}
				if track <= b.Header.Height && !cur[from].destroyed {
					c.Fail("migrate:marker-not-set", "with tracking active the migrated-away address is marked destroyed", p, bi, nil)
				}
			case "destroy":
				c.Count("chain-oracle:solo-destroy")
				if len(cur[from].listing) != 0 || cur[from].deployed {
					c.Fail("destroy:key-left", "after Contract.Destroy the address has no record and no storage", p,
						map[string]interface{}{"block": bi, "storage": kvsJSON(cur[from].listing), "deployed": cur[from].deployed}, nil)
				}
				if track <= b.Header.Height && !cur[from].destroyed {
					c.Fail("destroy:marker-not-set", "with tracking active the destroyed address is marked destroyed", p, bi, nil)
				}
			}
		}
		var obs []string
		for j := range cs {
			if cur[j].destroyed {
				if !dead[j] {
					c.Count("chain:address-became-destroyed")
				}
				dead[j] = true
			}
			if len(cur[j].listing) > 0 {
				c.Count("chain-storage-entries:" + bucket(len(cur[j].listing)))
			}
			obs = append(obs, fmt.Sprintf("AObs %s %s %s %s", sh.B(cs[j].addr[:]), hx.CoqOpt(cur[j].deployed, sh.B(cur[j].rec)),
				hx.CoqBool(cur[j].destroyed), coqKvs(cur[j].listing)))
		}
		coqBlocks = append(coqBlocks, fmt.Sprintf("(mkBlock %d %s, %s, %s)", b.Header.Height, hx.CoqList(coqTxs), hx.CoqList(outs), hx.CoqList(obs)))
		prev = cur
	}
	js, _ := json.Marshal(p)
	c.Nontrivial(string(js))
	c.Sample(p)
	c.Case(fmt.Sprintf("CChain %d %s", track, hx.CoqList(coqBlocks)), p)
}

// ---------- generator ----------

var chainKeys = [][]byte{{}, {0x00}, {0x01}, {'a'}, {'a', 'b'}, {'a', 'b', 0xff}, {0xff}, {0xff, 0xff}, {0xfe}}

func genCall(c *hx.Ctx, deployed []bool) PCall {
	via := c.Intn(universe)
	if c.Intn(6) == 0 {
		via = -1
	}
	k := chainKeys[c.Intn(len(chainKeys))]
	if c.Intn(40) == 0 {
		k = bytes.Repeat([]byte{'k'}, 1024+c.Intn(2)) // at / over the key length limit
	}
	call := PCall{Via: via, K: hx.Hex(k), V: hx.Hex(c.Bytes(c.Intn(4))), Target: c.Intn(universe)}
	switch r := c.Intn(100); {
	case r < 50:
		call.Op = "put"
	case r < 60:
		call.Op = "del"
	case r < 74:
		call.Op = "migrate"
	case r < 82:
		call.Op = "destroy"
	case r < 90:
		call.Op = "create"
	case r < 95:
		call.Op = "destroy+put"
	default:
		call.Op = "migrate+put"
	}
	return call
}

func genProgram(c *hx.Ctx) *Program {
	p := &Program{Kind: "chain"}
	deployed := make([]bool, universe)
	// block 1: deploy two or three dispatchers; block 2: fill them
	var b1 []PTx
	for i := 0; i < 2+c.Intn(2); i++ {
		b1 = append(b1, PTx{Deploy: i})
		deployed[i] = true
	}
	p.Blocks = append(p.Blocks, b1)
	var b2 []PTx
	for i := 0; i < 2; i++ {
		var calls []PCall
		for j := 0; j < 2+c.Intn(4); j++ {
			calls = append(calls, PCall{Via: i, Op: "put", K: hx.Hex(chainKeys[c.Intn(len(chainKeys))]), V: hx.Hex(c.Bytes(1 + c.Intn(3)))})
		}
		b2 = append(b2, PTx{Deploy: -1, Calls: calls})
	}
	p.Blocks = append(p.Blocks, b2)
	nb := 5 + c.Intn(6)
	for i := 0; i < nb; i++ {
		var blk []PTx
		if c.Intn(3) == 0 { // a block with one single-call transaction (the ledger oracle looks at these)
			call := genCall(c, deployed)
			call.Via = c.Intn(3)
			if c.Intn(3) != 0 {
				call.Op = []string{"migrate", "migrate", "destroy"}[c.Intn(3)]
				call.Target = 2 + c.Intn(3) // mostly not yet deployed
			}
			// same transaction: new entries still pending in the cache when the loop runs
			blk = append(blk, PTx{Deploy: -1, Calls: []PCall{call}})
		} else {
			for n := 1 + c.Intn(4); n > 0; n-- {
				if c.Intn(5) == 0 {
					blk = append(blk, PTx{Deploy: c.Intn(universe)})
					continue
				}
				if c.Intn(12) == 0 {
					blk = append(blk, PTx{Deploy: -1, As: 1 + c.Intn(universe)})
					continue
				}
				var calls []PCall
				for m := 1 + c.Intn(4); m > 0; m-- {
					calls = append(calls, genCall(c, deployed))
				}
				blk = append(blk, PTx{Deploy: -1, Calls: calls})
			}
		}
		p.Blocks = append(p.Blocks, blk)
	}
	return p
}

// scripted chain: every stage of the property once, deterministically
func scriptedProgram() *Program {
	put := func(via int, k string, v string) PCall { return PCall{Via: via, Op: "put", K: hx.Hex([]byte(k)), V: hx.Hex([]byte(v))} }
	inv := func(calls ...PCall) PTx { return PTx{Deploy: -1, Calls: calls} }
	return &Program{Kind: "chain", Blocks: [][]PTx{
		{{Deploy: 0}, {Deploy: 1}},
		{inv(put(0, "", "root"), put(0, "a", "1"), put(0, "ab", "2"), put(1, "x", "9"))},
		{inv(put(0, "b", "3"))}, // committed to the store before the migration
		// same block: an entry in the overlay (earlier transaction), one pending in the cache (same
		// transaction), the rest in the store; then migrate 0 -> 2
		{inv(put(0, "c", "4")), inv(put(0, "d", "5"), PCall{Via: 0, Op: "migrate", Target: 2})},
		{inv(put(0, "e", "6"))},                            // refused: 0 is gone
		{{Deploy: 0}},                                      // refused: destroyed
		{inv(PCall{Via: 1, Op: "migrate", Target: 0})},     // refused: target destroyed
		{inv(PCall{Via: -1, Op: "create", Target: 0})},     // no-op
		{inv(put(2, "z", "7"), PCall{Via: 2, Op: "destroy+put", K: hx.Hex([]byte("q")), V: "01"})}, // rolled back
		{inv(PCall{Via: 2, Op: "destroy"})},
		{inv(PCall{Via: -1, Op: "migrate", Target: 3})},    // a script migrates itself: deploys 3
		{inv(put(3, "k", "8"), PCall{Via: 3, Op: "migrate+put", Target: 4, K: hx.Hex([]byte("q")), V: "01"})},
		{inv(PCall{Via: 3, Op: "migrate", Target: 4})},
		{inv(PCall{Via: 1, Op: "migrate", Target: 4})},     // refused: 4 is deployed
		{{Deploy: 2}, {Deploy: 3}, inv(put(4, "k", "9"))},
		{{Deploy: -1, As: 3}},                              // the code of destroyed contract 2 sent as an invoke script: writes under 2
		{{Deploy: -1, As: 5}},                              // ... and of the live contract 4
	}}
}

// safeChain: a panic inside the ledger (it has no recover of its own) is reported as a failing
// input instead of killing the run; no further chain is started after one.
func safeChain(c *hx.Ctx, p *Program) bool {
	panicked, msg := hx.Recover(func() { doChain(c, p) })
	if panicked {
		c.Fail("chain:panic", "executing a block of deploy / invoke transactions does not panic", p, msg, nil)
	}
	return !panicked
}

func runChains(c *hx.Ctx) {
	if !safeChain(c, scriptedProgram()) {
		return
	}
	n := c.N(7, 60)
	for i := 0; i < n; i++ {
		if !safeChain(c, genProgram(c)) {
			return
		}
	}
}
