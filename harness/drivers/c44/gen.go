package c44

import (
	"fmt"
	"go/ast"
	"go/parser"
	"go/token"
	"path/filepath"
	"strconv"
	"strings"

	"github.com/ontio/ontology/common"
	"github.com/ontio/ontology/common/config"
	"github.com/ontio/ontology/common/constants"
	"github.com/ontio/ontology/core/states"
	scommon "github.com/ontio/ontology/core/store/common"
	"github.com/ontio/ontology/core/store/leveldbstore"
	"github.com/ontio/ontology/core/store/overlaydb"
	"github.com/ontio/ontology/smartcontract/storage"

	"verif/harness/gen"
)

// trackHeightFor evaluates config.GetTrackDestroyedContractHeight() under a network id.
func trackHeightFor(netID uint32) uint32 {
	old := config.DefConfig.P2PNode.NetworkId
	config.DefConfig.P2PNode.NetworkId = netID
	defer func() { config.DefConfig.P2PNode.NetworkId = old }()
	return config.GetTrackDestroyedContractHeight()
}

// markerLen: length of the value SetContractDestroyed writes (read back through the overlay).
func markerLen() int {
	old := config.DefConfig.P2PNode.NetworkId
	config.DefConfig.P2PNode.NetworkId = 3
	defer func() { config.DefConfig.P2PNode.NetworkId = old }()
	ldb := leveldbstore.NewMemLevelDBStore()
	defer ldb.Close()
	ov := overlaydb.NewOverlayDB(ldb)
	cache := storage.NewCacheDB(ov)
	var a common.Address
	a[0] = 1
	cache.SetContractDestroyed(a, 0x01020304)
	cache.Commit()
	v, _ := ov.Get(append([]byte{byte(scommon.ST_DESTROYED)}, a[:]...))
	return len(v)
}

func findFuncDecl(f *ast.File, name string) *ast.FuncDecl {
	for _, d := range f.Decls {
		if fd, ok := d.(*ast.FuncDecl); ok && fd.Name.Name == name {
			return fd
		}
	}
	return nil
}

// callNames lists the called function / method names of a function body in source order
// (builtins make/append/len/copy/cap excluded).
func callNames(fd *ast.FuncDecl) []string {
	var out []string
	skip := map[string]bool{"make": true, "append": true, "len": true, "copy": true, "cap": true}
	ast.Inspect(fd.Body, func(n ast.Node) bool {
		ce, ok := n.(*ast.CallExpr)
		if !ok {
			return true
		}
		switch f := ce.Fun.(type) {
		case *ast.SelectorExpr:
			out = append(out, f.Sel.Name)
		case *ast.Ident:
			if !skip[f.Name] {
				out = append(out, f.Name)
			}
		}
		return true
	})
	return out
}

func coqStrings(l []string) string {
	q := make([]string, len(l))
	for i, s := range l {
		q[i] = strconv.Quote(s)
	}
	return "[" + strings.Join(q, "; ") + "]%string"
}

func producer(repo string) ([]byte, []string) {
	var errs []string
	fset := token.NewFileSet()
	cachedb, err := parser.ParseFile(fset, filepath.Join(repo, "smartcontract/storage/cachedb.go"), nil, 0)
	if err != nil {
		return nil, []string{err.Error()}
	}
	storageGo, err := parser.ParseFile(fset, filepath.Join(repo, "smartcontract/service/neovm/storage.go"), nil, 0)
	if err != nil {
		return nil, []string{err.Error()}
	}
	calls := func(name string) string {
		fd := findFuncDecl(cachedb, name)
		if fd == nil {
			errs = append(errs, "cachedb.go: function "+name+" not found")
			return "[]"
		}
		return coqStrings(callNames(fd))
	}
	// key[20:] in MigrateContractStorage
	skipN := -1
	if fd := findFuncDecl(cachedb, "MigrateContractStorage"); fd != nil {
		ast.Inspect(fd.Body, func(n ast.Node) bool {
			se, ok := n.(*ast.SliceExpr)
			if !ok {
				return true
			}
			if id, ok := se.X.(*ast.Ident); ok && id.Name == "key" && se.High == nil {
				if bl, ok := se.Low.(*ast.BasicLit); ok {
					if v, e := strconv.Atoi(bl.Value); e == nil {
						skipN = v
					}
				}
			}
			return true
		})
	}
	if skipN < 0 {
		errs = append(errs, "MigrateContractStorage: slice expression key[N:] with a literal N not found")
		skipN = 0
	}
	// len(key) > 1024 in StoragePut
	maxKey := -1
	if fd := findFuncDecl(storageGo, "StoragePut"); fd != nil {
		ast.Inspect(fd.Body, func(n ast.Node) bool {
			be, ok := n.(*ast.BinaryExpr)
			if !ok || be.Op != token.GTR {
				return true
			}
			ce, ok := be.X.(*ast.CallExpr)
			if !ok {
				return true
			}
			if id, ok := ce.Fun.(*ast.Ident); !ok || id.Name != "len" {
				return true
			}
			if bl, ok := be.Y.(*ast.BasicLit); ok {
				if v, e := strconv.Atoi(bl.Value); e == nil {
					maxKey = v
				}
			}
			return true
		})
	}
	if maxKey < 0 {
		errs = append(errs, "StoragePut: comparison len(key) > N with a literal N not found")
		maxKey = 0
	}
	cs := []gen.Const{
		{Name: "C44_ST_STORAGE", Type: "N", Value: fmt.Sprintf("%d%%N", byte(scommon.ST_STORAGE)), Comment: "core/store/common.ST_STORAGE (CacheDB.Put/Get/Delete/NewIterator key prefix)"},
		{Name: "C44_ST_CONTRACT", Type: "N", Value: fmt.Sprintf("%d%%N", byte(scommon.ST_CONTRACT)), Comment: "core/store/common.ST_CONTRACT (CacheDB.GetContract/PutContract/DeleteContract key prefix)"},
		{Name: "C44_ST_DESTROYED", Type: "N", Value: fmt.Sprintf("%d%%N", byte(scommon.ST_DESTROYED)), Comment: "core/store/common.ST_DESTROYED (IsContractDestroyed/SetContractDestroyed key prefix)"},
		{Name: "C44_ADDR_LEN", Type: "nat", Value: fmt.Sprintf("%d%%nat", len(common.Address{})), Comment: "common.ADDR_LEN = len(common.Address{})"},
		{Name: "C44_MIGRATE_KEY_SKIP", Type: "nat", Value: fmt.Sprintf("%d%%nat", skipN), Comment: "smartcontract/storage/cachedb.go:MigrateContractStorage: low bound of the slice expression key[..:]"},
		{Name: "C44_MAX_STORAGE_KEY", Type: "N", Value: fmt.Sprintf("%d%%N", maxKey), Comment: "smartcontract/service/neovm/storage.go:StoragePut: the literal in len(key) > .."},
		{Name: "C44_ITEM_VERSION", Type: "N", Value: fmt.Sprintf("%d%%N", states.GenRawStorageItem(nil)[0]), Comment: "states.GenRawStorageItem(nil)[0] (StateBase.StateVersion)"},
		{Name: "C44_TRACK_MAINNET", Type: "N", Value: fmt.Sprintf("%d%%N", uint32(constants.BLOCKHEIGHT_TRACK_DESTROYED_CONTRACT_MAINNET)), Comment: "constants.BLOCKHEIGHT_TRACK_DESTROYED_CONTRACT_MAINNET"},
		{Name: "C44_TRACK_POLARIS", Type: "N", Value: fmt.Sprintf("%d%%N", uint32(constants.BLOCKHEIGHT_TRACK_DESTROYED_CONTRACT_POLARIS)), Comment: "constants.BLOCKHEIGHT_TRACK_DESTROYED_CONTRACT_POLARIS"},
		{Name: "C44_TRACK_OTHER", Type: "N", Value: fmt.Sprintf("%d%%N", trackHeightFor(3)), Comment: "config.GetTrackDestroyedContractHeight() with NetworkId = 3 (any other network)"},
		{Name: "C44_MARKER_LEN", Type: "nat", Value: fmt.Sprintf("%d%%nat", markerLen()), Comment: "width of sink.WriteUint32(height) in SetContractDestroyed"},
		{Name: "C44_MIGRATE_CALLS", Type: "list string", Value: calls("MigrateContractStorage"), Comment: "method calls of MigrateContractStorage, in source order"},
		{Name: "C44_CLEAN_DATA_CALLS", Type: "list string", Value: calls("CleanContractStorageData"), Comment: "method calls of CleanContractStorageData, in source order"},
		{Name: "C44_CLEAN_CALLS", Type: "list string", Value: calls("CleanContractStorage"), Comment: "method calls of CleanContractStorage, in source order"},
		{Name: "C44_DELETE_CONTRACT_CALLS", Type: "list string", Value: calls("DeleteContract"), Comment: "method calls of DeleteContract, in source order"},
	}
	if trackHeightFor(config.NETWORK_ID_MAIN_NET) != uint32(constants.BLOCKHEIGHT_TRACK_DESTROYED_CONTRACT_MAINNET) ||
		trackHeightFor(config.NETWORK_ID_POLARIS_NET) != uint32(constants.BLOCKHEIGHT_TRACK_DESTROYED_CONTRACT_POLARIS) {
		errs = append(errs, "GetTrackDestroyedContractHeight no longer returns the two network constants")
	}
	return gen.EmitConsts("From Coq Require Import String.\n", cs), errs
}
