// Package c44: contract migration and destruction move or remove all of a contract's storage; a
// destroyed / migrated-away address cannot be deployed or written again.
//
// Part A (CacheDB API): random histories on a real CacheDB over OverlayDB over an in-memory LevelDB.
// The store, the overlay and the cache are filled with storage entries of six addresses that share
// long prefixes (two differ only in the last byte, one is all 0xff, one all 0x00), suffixes of
// length 0..3 over {00,01,'a',fe,ff} (so keys are prefixes of each other), keys shorter than an
// address, keys under the neighbouring prefix bytes, contract records and destroyed markers; then
// MigrateContractStorage / CleanContractStorage(Data) / DeleteContract / Set/UnsetContractDestroyed
// interleaved with puts, deletes, Commit, Reset, CommitTo, under the three network configurations
// (tracking height 0, 0 and 11700000 with heights around it).
// Part B (ledger): a solo chain executes blocks of deploy and NeoVM invoke transactions; the invoke
// scripts call Storage.Put/Delete, Contract.Create/Migrate/Destroy themselves or through APPCALL of
// deployed dispatcher contracts (including put-after-destroy and put-after-migrate inside one
// execution, redeploying a destroyed address, migrating onto a destroyed address).
//
// Oracle (implementation only): Get / iterator outputs before and after each migrate / destroy
// (every old entry readable under the new address with the same value, nothing left under the old
// one, no other key changed, record gone, marker set when tracking is active), a plain-map
// specification of the whole history, and on the ledger: a destroyed address never shows a record or
// storage again and no transaction that deploys at it or writes under it succeeds.
// Correspondence: every history / chain with all observations is re-run on Model/ContractStore.v.
package c44

import (
	"encoding/json"
	"fmt"

	"github.com/ontio/ontology/common/constants"

	"verif/harness/gen"
	"verif/harness/hx"
)

func init() {
	gen.RegisterFile("ContractConsts.v", producer)
	hx.Register("C44", Run)
}

// ---------- generator for part A ----------

var sfxAlphabet = []byte{0x00, 0x01, 'a', 0xfe, 0xff}

func addrPool() [][]byte {
	mk := func(fill byte, last byte) []byte {
		a := make([]byte, 20)
		for i := range a {
			a[i] = fill
		}
		a[19] = last
		return a
	}
	return [][]byte{mk(7, 1), mk(7, 2), mk(0xff, 0xff), mk(0, 0), mk(0xff, 0xfe), mk(7, 0)}
}

type apiGen struct {
	c     *hx.Ctx
	pool  [][]byte
	used  [][]byte // storage keys (addr ++ sfx) used so far
	codes [][]byte // codes given to PutContract
	hot   []byte
}

func (g *apiGen) addr() []byte {
	if g.hot != nil && g.c.Intn(2) == 0 {
		return g.hot // one address per history collects most entries, so the loops have work to do
	}
	return g.pool[g.c.Intn(len(g.pool))]
}

func (g *apiGen) sfx() []byte {
	n := g.c.Intn(4)
	if g.c.Intn(12) == 0 {
		n = 4 + g.c.Intn(30)
	}
	s := make([]byte, n)
	for i := range s {
		s[i] = sfxAlphabet[g.c.Intn(len(sfxAlphabet))]
	}
	return s
}

func (g *apiGen) key() []byte {
	switch r := g.c.Intn(20); {
	case r < 9 && len(g.used) > 0:
		return cp(g.used[g.c.Intn(len(g.used))])
	case r == 9 && len(g.used) > 0: // extension of a used key
		return append(cp(g.used[g.c.Intn(len(g.used))]), sfxAlphabet[g.c.Intn(len(sfxAlphabet))])
	case r == 10: // shorter than an address: a proper prefix of one
		a := g.addr()
		return cp(a[:g.c.Intn(20)])
	default:
		k := append(cp(g.addr()), g.sfx()...)
		g.used = append(g.used, k)
		return k
	}
}

func (g *apiGen) val() []byte {
	if g.c.Intn(25) == 0 {
		return nil // Put of an empty value is a delete
	}
	return g.c.Bytes(1 + g.c.Intn(3))
}

func (g *apiGen) height(net uint32) uint32 {
	if net != 1 {
		return []uint32{0, 1, 7, 1 << 31, ^uint32(0)}[g.c.Intn(5)]
	}
	t := uint32(constants.BLOCKHEIGHT_TRACK_DESTROYED_CONTRACT_MAINNET)
	return []uint32{0, t - 2, t - 1, t, t + 1, ^uint32(0)}[g.c.Intn(6)]
}

// rawEntry: a raw (full key, value) for the store or the overlay
func (g *apiGen) rawEntry(net uint32) (k, v []byte) {
	switch r := g.c.Intn(20); {
	case r < 13:
		return append([]byte{stS}, g.key()...), g.val()
	case r < 15: // neighbouring prefix bytes that are not name spaces of ours
		return append([]byte{stS + 2}, g.key()...), g.c.Bytes(2)
	case r < 18:
		return append([]byte{stC}, g.addr()...), recordFor(byte(g.c.Intn(4)))
	default:
		if g.c.Intn(4) == 0 {
			return append([]byte{stD}, g.addr()...), nil
		}
		return append([]byte{stD}, g.addr()...), markerOf(g.height(net))
	}
}

func (g *apiGen) history() *Hist {
	h := &Hist{Kind: "api", Net: []uint32{3, 3, 3, 1, 1, 2}[g.c.Intn(6)]}
	g.used = nil
	g.hot = g.pool[g.c.Intn(len(g.pool))]
	seen := map[string]bool{}
	for n := g.c.Intn(20); n > 0; n-- {
		k, v := g.rawEntry(h.Net)
		if seen[string(k)] || len(v) == 0 {
			continue
		}
		seen[string(k)] = true
		h.Store = append(h.Store, [2]string{hx.Hex(k), hx.Hex(v)})
	}
	nops := 6 + g.c.Intn(26)
	for i := 0; i < nops; i++ {
		var o Op
		switch r := g.c.Intn(100); {
		case r < 24:
			o = Op{Op: "put", K: hx.Hex(g.key()), V: hx.Hex(g.val())}
		case r < 31:
			o = Op{Op: "del", K: hx.Hex(g.key())}
		case r < 37:
			o = Op{Op: "get", K: hx.Hex(g.key())}
		case r < 43:
			var p []byte
			switch g.c.Intn(5) {
			case 0:
				p = nil
			case 1:
				a := g.addr()
				p = cp(a[:19]) // shared by the addresses that differ in the last byte
			case 2:
				p = g.key()
			default:
				p = g.addr()
			}
			o = Op{Op: "iter", K: hx.Hex(p)}
		case r < 53:
			k, v := g.rawEntry(h.Net)
			if len(v) == 0 || g.c.Intn(6) == 0 {
				o = Op{Op: "ovdel", K: hx.Hex(k)}
			} else {
				o = Op{Op: "ovput", K: hx.Hex(k), V: hx.Hex(v)}
			}
		case r < 56:
			code := []byte{0x51, byte(g.c.Intn(3))}
			o = Op{Op: "putcontract", K: hx.Hex(code)}
		case r < 62:
			o = Op{Op: "getcontract", A: hx.Hex(g.addr())}
		case r < 66:
			o = Op{Op: "isdestroyed", A: hx.Hex(g.addr())}
		case r < 69:
			o = Op{Op: "setdestroyed", A: hx.Hex(g.addr()), H: g.height(h.Net)}
		case r < 71:
			o = Op{Op: "unsetdestroyed", A: hx.Hex(g.addr()), H: g.height(h.Net)}
		case r < 73:
			o = Op{Op: "deletecontract", A: hx.Hex(g.addr()), H: g.height(h.Net)}
		case r < 82:
			a, b := g.addr(), g.addr()
			if g.c.Intn(10) != 0 {
				for string(a) == string(b) {
					b = g.addr()
				}
			}
			o = Op{Op: "migrate", A: hx.Hex(a), B: hx.Hex(b), H: g.height(h.Net)}
		case r < 87:
			o = Op{Op: "clean", A: hx.Hex(g.addr()), H: g.height(h.Net)}
		case r < 89:
			o = Op{Op: "cleandata", A: hx.Hex(g.addr())}
		case r < 94:
			o = Op{Op: "commit"}
		case r < 96:
			o = Op{Op: "reset"}
		default:
			o = Op{Op: "ovcommit"}
		}
		h.Ops = append(h.Ops, o)
	}
	return h
}

func coqStore(st [][2]string) string {
	s := make([]string, 0, len(st))
	for _, e := range st {
		s = append(s, fmt.Sprintf("(%s, %s)", sh.B(hx.UnHex(e[0])), sh.B(hx.UnHex(e[1]))))
	}
	return hx.CoqList(s)
}

// doAPI runs one history, reports oracle failures and emits the correspondence case.
func doAPI(c *hx.Ctx, h *Hist, emit bool) {
	coqOps, track, fails, panicMsg := runAPI(h, c.Count)
	c.Eval()
	if panicMsg != "" {
		c.Fail("api:panic", "no CacheDB operation panics", h, panicMsg, nil)
		return
	}
	for _, f := range fails {
		c.Fail(f.class, f.clause, h, map[string]interface{}{"at": f.at, "got": f.got}, f.want)
	}
	nm := 0
	for _, o := range h.Ops {
		c.Count("api-op:" + o.Op)
		if o.Op == "migrate" || o.Op == "clean" || o.Op == "cleandata" {
			nm++
		}
	}
	c.Count(fmt.Sprintf("api-net:%d", h.Net))
	if nm > 0 {
		b, _ := json.Marshal(h)
		c.Nontrivial(string(b))
	}
	c.Sample(h)
	if emit {
		c.Case(fmt.Sprintf("CApi %d %s %s", track, coqStore(h.Store), hx.CoqList(coqOps)), h)
	}
}

// scripted histories: the corners, deterministically on every run
func scriptedAPI() []*Hist {
	p := addrPool()
	a1, a2, aff := hx.Hex(p[0]), hx.Hex(p[1]), hx.Hex(p[2])
	sk := func(a []byte, sfx ...byte) string { return hx.Hex(append(cp(a), sfx...)) }
	raw := func(pfx byte, a []byte, sfx ...byte) string { return hx.Hex(append(append([]byte{pfx}, a...), sfx...)) }
	rec := hx.Hex(recordFor(1))
	return []*Hist{
		{Kind: "api", Net: 3, // entries in all three layers, tombstone in the cache, neighbour address, prefix-sharing suffixes
			Store: [][2]string{{raw(stC, p[0]), rec}, {raw(stS, p[0], 'a'), "07"}, {raw(stS, p[0], 'b'), "08"}, {raw(stS, p[0], 'c'), "04"}, {raw(stS, p[1]), "06"}},
			Ops: []Op{{Op: "ovput", K: raw(stS, p[0]), V: "02"}, {Op: "ovput", K: raw(stS, p[0], 'a', 'b'), V: "03"},
				{Op: "put", K: sk(p[0], 'a'), V: "0101"}, {Op: "del", K: sk(p[0], 'b')}, {Op: "put", K: sk(p[1], 'x'), V: "09"},
				{Op: "migrate", A: a1, B: a2, H: 10}, {Op: "commit"}, {Op: "iter", K: a2}, {Op: "ovcommit"}, {Op: "iter", K: a1}}},
		{Kind: "api", Net: 3, // all-0xff address: prefix range without upper limit; destroy
			Store: [][2]string{{raw(stS, p[2]), "05"}, {raw(stS, p[2], 0xff), "0505"}, {raw(stS, p[4], 1), "01"}},
			Ops: []Op{{Op: "put", K: sk(p[2], 0xff, 0xff), V: "01"}, {Op: "clean", A: aff, H: 3}, {Op: "getcontract", A: aff}, {Op: "commit"}, {Op: "iter", K: ""}}},
		{Kind: "api", Net: 3, // migrate onto itself
			Store: [][2]string{{raw(stS, p[0], 1), "01"}, {raw(stS, p[0], 2), "02"}},
			Ops: []Op{{Op: "put", K: sk(p[0], 3), V: "03"}, {Op: "migrate", A: a1, B: a1, H: 1}}},
		{Kind: "api", Net: 1, // mainnet: below / at the tracking height
			Store: [][2]string{{raw(stC, p[0]), rec}, {raw(stS, p[0], 1), "01"}, {raw(stC, p[1]), rec}, {raw(stS, p[1], 1), "01"}},
			Ops: []Op{{Op: "clean", A: a1, H: uint32(constants.BLOCKHEIGHT_TRACK_DESTROYED_CONTRACT_MAINNET) - 1},
				{Op: "clean", A: a2, H: uint32(constants.BLOCKHEIGHT_TRACK_DESTROYED_CONTRACT_MAINNET)},
				{Op: "isdestroyed", A: a1}, {Op: "isdestroyed", A: a2}, {Op: "unsetdestroyed", A: a2, H: 5}, {Op: "isdestroyed", A: a2},
				{Op: "unsetdestroyed", A: a2, H: ^uint32(0)}, {Op: "isdestroyed", A: a2}}},
		{Kind: "api", Net: 3, // migrate twice in a row; second finds nothing; target had own entries that collide
			Store: [][2]string{{raw(stS, p[0], 1), "01"}, {raw(stS, p[1], 1), "ee"}, {raw(stS, p[1], 2), "02"}},
			Ops: []Op{{Op: "migrate", A: a1, B: a2, H: 1}, {Op: "migrate", A: a1, B: a2, H: 2}, {Op: "get", K: sk(p[1], 1)}, {Op: "reset"}, {Op: "iter", K: ""}}},
		{Kind: "api", Net: 3, // many entries: the loop walks well past the first MemDB nodes it creates
			Ops: append(manyPuts(p[0], 40), Op{Op: "commit"}, Op{Op: "ovcommit"}, Op{Op: "put", K: sk(p[0], 0), V: "aa"}, Op{Op: "migrate", A: a1, B: hx.Hex(p[5]), H: 1})},
	}
}

func manyPuts(a []byte, n int) []Op {
	var ops []Op
	for i := 0; i < n; i++ {
		ops = append(ops, Op{Op: "put", K: hx.Hex(append(cp(a), byte(i*6), byte(i))), V: hx.Hex([]byte{byte(i + 1)})})
	}
	return ops
}

// ---------- Run ----------

type replayInput struct {
	Kind string `json:"kind"`
}

func Run(c *hx.Ctx) {
	c.CoqModule("Corr.C44")
	c.CoqHeader(initShortener())
	var raw json.RawMessage
	if c.ReplayInput(&raw) {
		replay(c, raw)
		return
	}
	for _, in := range c.CorpusInputs() {
		replay(c, in)
	}
	for _, h := range scriptedAPI() {
		c.Count("api:scripted")
		doAPI(c, h, true)
	}
	g := &apiGen{c: c, pool: addrPool()}
	n := c.N(420, 9000)
	for i := 0; i < n; i++ {
		doAPI(c, g.history(), true)
	}
	runChains(c)
}

func replay(c *hx.Ctx, raw json.RawMessage) {
	var k replayInput
	if err := json.Unmarshal(raw, &k); err != nil {
		panic(err)
	}
	switch k.Kind {
	case "chain":
		var p Program
		if err := json.Unmarshal(raw, &p); err != nil {
			panic(err)
		}
		safeChain(c, &p)
	default:
		var h Hist
		if err := json.Unmarshal(raw, &h); err != nil {
			panic(err)
		}
		doAPI(c, &h, true)
	}
}
