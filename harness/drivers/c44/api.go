package c44

import (
	"bytes"
	"encoding/binary"
	"fmt"
	"sort"

	"github.com/ontio/ontology/common"
	"github.com/ontio/ontology/common/config"
	"github.com/ontio/ontology/core/payload"
	scommon "github.com/ontio/ontology/core/store/common"
	"github.com/ontio/ontology/core/store/leveldbstore"
	"github.com/ontio/ontology/core/store/overlaydb"
	"github.com/ontio/ontology/smartcontract/storage"

	"verif/harness/hx"
)

// ---------- replayable history on the CacheDB API ----------

type Op struct {
	Op string `json:"op"`
	K  string `json:"k,omitempty"` // hex: storage key (without the ST_STORAGE byte) or raw key for ov*
	V  string `json:"v,omitempty"`
	A  string `json:"a,omitempty"` // hex address
	B  string `json:"b,omitempty"` // hex address (migrate target)
	H  uint32 `json:"h,omitempty"`
}

type Hist struct {
	Kind  string      `json:"kind"` // "api"
	Net   uint32      `json:"net"`  // config.DefConfig.P2PNode.NetworkId during the run
	Store [][2]string `json:"store"`
	Ops   []Op        `json:"ops"`
}

var (
	stS = byte(scommon.ST_STORAGE)
	stC = byte(scommon.ST_CONTRACT)
	stD = byte(scommon.ST_DESTROYED)
)

func cp(b []byte) []byte { return append([]byte{}, b...) }

func addrOf(hexs string) common.Address {
	var a common.Address
	copy(a[:], hx.UnHex(hexs))
	return a
}

type kvp struct{ k, v []byte }

func kvsJSON(l []kvp) [][2]string {
	out := make([][2]string, 0, len(l))
	for _, e := range l {
		out = append(out, [2]string{hx.Hex(e.k), hx.Hex(e.v)})
	}
	return out
}

func coqKvs(l []kvp) string {
	s := make([]string, 0, len(l))
	for _, e := range l {
		s = append(s, fmt.Sprintf("(%s, %s)", sh.B(e.k), sh.B(e.v)))
	}
	return hx.CoqList(s)
}

func kvsEqual(a, b []kvp) bool {
	if len(a) != len(b) {
		return false
	}
	for i := range a {
		if !bytes.Equal(a[i].k, b[i].k) || !bytes.Equal(a[i].v, b[i].v) {
			return false
		}
	}
	return true
}

func drain(it scommon.StoreIterator) []kvp {
	var out []kvp
	for has := it.First(); has; has = it.Next() {
		out = append(out, kvp{cp(it.Key()), cp(it.Value())})
		if len(out) > 100000 {
			break
		}
	}
	it.Release()
	return out
}

// ---------- reference: three plain maps over full keys, with the SPECIFICATION of migrate /
// destroy (a snapshot of the live keys, no iteration while writing) ----------

type ref struct {
	store, overlay, cache map[string][]byte
}

func newRef() *ref {
	return &ref{map[string][]byte{}, map[string][]byte{}, map[string][]byte{}}
}

func (r *ref) blockGet(k string) []byte {
	if v, ok := r.overlay[k]; ok {
		return v
	}
	return r.store[k]
}

func (r *ref) get(k string) []byte {
	if v, ok := r.cache[k]; ok {
		return v
	}
	return r.blockGet(k)
}

func (r *ref) list(prefix []byte) []kvp {
	keys := map[string]struct{}{}
	for _, m := range []map[string][]byte{r.store, r.overlay, r.cache} {
		for k := range m {
			keys[k] = struct{}{}
		}
	}
	var out []kvp
	for k := range keys {
		if !bytes.HasPrefix([]byte(k), prefix) {
			continue
		}
		if v := r.get(k); len(v) != 0 {
			out = append(out, kvp{[]byte(k), v})
		}
	}
	sort.Slice(out, func(i, j int) bool { return bytes.Compare(out[i].k, out[j].k) < 0 })
	return out
}

func fk(p byte, k []byte) string { return string(append([]byte{p}, k...)) }

func markerOf(h uint32) []byte {
	b := make([]byte, 4)
	binary.LittleEndian.PutUint32(b, h)
	return b
}

func (r *ref) setDestroyed(track uint32, a common.Address, h uint32) {
	if track <= h {
		r.cache[fk(stD, a[:])] = markerOf(h)
	}
}

func (r *ref) deleteContract(track uint32, a common.Address, h uint32) {
	r.cache[fk(stC, a[:])] = nil
	r.setDestroyed(track, a, h)
}

func (r *ref) migrate(track uint32, old, new common.Address, h uint32) {
	r.deleteContract(track, old, h)
	snap := r.list(append([]byte{stS}, old[:]...))
	for _, e := range snap {
		r.cache[fk(stS, append(cp(new[:]), e.k[21:]...))] = e.v
	}
	for _, e := range snap { // the deletes come last: they win when old == new
		r.cache[string(e.k)] = nil
	}
}

func (r *ref) cleanData(a common.Address) {
	for _, e := range r.list(append([]byte{stS}, a[:]...)) {
		r.cache[string(e.k)] = nil
	}
}

func (r *ref) commit() {
	for k, v := range r.cache {
		r.overlay[k] = v
	}
	r.cache = map[string][]byte{}
}

func (r *ref) ovCommit() {
	for k, v := range r.overlay {
		if len(v) == 0 {
			delete(r.store, k)
		} else {
			r.store[k] = v
		}
	}
}

func stripFirst(l []kvp) []kvp {
	out := make([]kvp, len(l))
	for i, e := range l {
		out[i] = kvp{e.k[1:], e.v}
	}
	return out
}

// ---------- running a history on the implementation ----------

type failure struct {
	class, clause string
	at            int
	got, want     interface{}
}

// a record that GetContract can deserialize, for an arbitrary address
func recordFor(tag byte) []byte {
	dc, err := payload.NewDeployCode([]byte{0x51, tag}, payload.NEOVM_TYPE, "n", "v", "a", "e", "d")
	if err != nil {
		panic(err)
	}
	return dc.ToArray()
}

func runAPI(h *Hist, count func(string)) (coqOps []string, track uint32, fails []failure, panicMsg string) {
	oldNet := config.DefConfig.P2PNode.NetworkId
	config.DefConfig.P2PNode.NetworkId = h.Net
	defer func() { config.DefConfig.P2PNode.NetworkId = oldNet }()
	track = config.GetTrackDestroyedContractHeight()

	ldb := leveldbstore.NewMemLevelDBStore()
	defer ldb.Close()
	r := newRef()
	for _, e := range h.Store {
		k, v := hx.UnHex(e[0]), hx.UnHex(e[1])
		if err := ldb.Put(k, v); err != nil {
			panic(err)
		}
		r.store[string(k)] = v
	}
	overlay := overlaydb.NewOverlayDB(ldb)
	cache := storage.NewCacheDB(overlay)
	fail := func(i int, class, clause string, got, want interface{}) {
		fails = append(fails, failure{class, clause, i, got, want})
	}
	cnt := func(s string) {
		if count != nil {
			count(s)
		}
	}
	listAll := func() []kvp { return drain(cache.NewIterator(nil)) }
	listOf := func(a common.Address) []kvp { return drain(cache.NewIterator(a[:])) }
	// observations appended after a migrate / destroy: the whole storage name space and the two
	// addresses' contract state, each compared with the reference and recorded for the model
	observe := func(i int, what string, addrs ...common.Address) {
		all := listAll()
		want := stripFirst(r.list([]byte{stS}))
		if !kvsEqual(all, want) {
			fail(i, what+":storage-differs-from-specification", "after "+what+" the storage name space must be the old one with the contract's entries moved/removed", kvsJSON(all), kvsJSON(want))
		}
		coqOps = append(coqOps, fmt.Sprintf("AIter [] %s", coqKvs(all)))
		for _, a := range addrs {
			getContract(cache, r, a, i, what, fail, &coqOps)
		}
	}
	p, msg := hx.Recover(func() {
		for i, o := range h.Ops {
			k, v := hx.UnHex(o.K), hx.UnHex(o.V)
			a, b := addrOf(o.A), addrOf(o.B)
			switch o.Op {
			case "put":
				cache.Put(k, v)
				r.cache[fk(stS, k)] = v
				coqOps = append(coqOps, fmt.Sprintf("APut %s %s", sh.B(k), sh.B(v)))
			case "del":
				cache.Delete(k)
				r.cache[fk(stS, k)] = nil
				coqOps = append(coqOps, fmt.Sprintf("ADel %s", sh.B(k)))
			case "get":
				got, err := cache.Get(k)
				if err != nil {
					fail(i, "get:error", "CacheDB.Get returned an error on an in-memory store", err.Error(), nil)
				}
				if want := r.get(fk(stS, k)); !bytes.Equal(got, want) {
					fail(i, "get:wrong-value", "CacheDB.Get must return the most recent write", hx.Hex(got), hx.Hex(want))
				}
				coqOps = append(coqOps, fmt.Sprintf("AGet %s %s", sh.B(k), sh.B(got)))
			case "iter":
				got := drain(cache.NewIterator(k))
				if want := stripFirst(r.list(append([]byte{stS}, k...))); !kvsEqual(got, want) {
					fail(i, "iter:wrong-listing", "a prefix iterator returns exactly the live keys with the prefix", kvsJSON(got), kvsJSON(want))
				}
				coqOps = append(coqOps, fmt.Sprintf("AIter %s %s", sh.B(k), coqKvs(got)))
			case "ovput":
				overlay.Put(k, v)
				r.overlay[string(k)] = v
				coqOps = append(coqOps, fmt.Sprintf("AOvPut %s %s", sh.B(k), sh.B(v)))
			case "ovdel":
				overlay.Delete(k)
				r.overlay[string(k)] = nil
				coqOps = append(coqOps, fmt.Sprintf("AOvDel %s", sh.B(k)))
			case "putcontract":
				dc, err := payload.NewDeployCode(k, payload.NEOVM_TYPE, "n", "v", "a", "e", "d")
				if err != nil {
					panic(err)
				}
				cache.PutContract(dc)
				ad := dc.Address()
				r.cache[fk(stC, ad[:])] = dc.ToArray()
				coqOps = append(coqOps, fmt.Sprintf("APutContract %s %s", sh.B(ad[:]), sh.B(dc.ToArray())))
			case "getcontract":
				getContract(cache, r, a, i, "getcontract", fail, &coqOps)
			case "isdestroyed":
				got, err := cache.IsContractDestroyed(a)
				if err != nil {
					fail(i, "isdestroyed:error", "IsContractDestroyed returned an error", err.Error(), nil)
				}
				if want := len(r.get(fk(stD, a[:]))) != 0; got != want {
					fail(i, "isdestroyed:wrong", "IsContractDestroyed is true exactly when a marker is stored", got, want)
				}
				coqOps = append(coqOps, fmt.Sprintf("AIsDestroyed %s %s", sh.B(a[:]), hx.CoqBool(got)))
			case "setdestroyed":
				cache.SetContractDestroyed(a, o.H)
				r.setDestroyed(track, a, o.H)
				coqOps = append(coqOps, fmt.Sprintf("ASetDestroyed %s %d", sh.B(a[:]), o.H))
				if track <= o.H {
					cnt("marker:set")
					if d, _ := cache.IsContractDestroyed(a); !d {
						fail(i, "marker:not-set", "SetContractDestroyed at a tracked height must make IsContractDestroyed true", d, true)
					}
				} else {
					cnt("marker:below-tracking-height")
				}
			case "unsetdestroyed":
				cache.UnsetContractDestroyed(a, o.H)
				if track <= o.H {
					r.cache[fk(stD, a[:])] = nil
				}
				coqOps = append(coqOps, fmt.Sprintf("AUnsetDestroyed %s %d", sh.B(a[:]), o.H))
			case "deletecontract":
				cache.DeleteContract(a, o.H)
				r.deleteContract(track, a, o.H)
				coqOps = append(coqOps, fmt.Sprintf("ADeleteContract %s %d", sh.B(a[:]), o.H))
			case "migrate":
				before := listAll()
				oldL := listOf(a)
				if err := cache.MigrateContractStorage(a, b, o.H); err != nil {
					fail(i, "migrate:error", "MigrateContractStorage returned an error on an in-memory store", err.Error(), nil)
				}
				r.migrate(track, a, b, o.H)
				coqOps = append(coqOps, fmt.Sprintf("AMigrate %s %s %d", sh.B(a[:]), sh.B(b[:]), o.H))
				cnt(fmt.Sprintf("migrate:entries:%s", bucket(len(oldL))))
				if a == b {
					cnt("migrate:to-itself")
				}
				checkMigrate(cache, a, b, o.H, track, before, oldL, i, fail)
				observe(i, "migrate", a, b)
			case "clean", "cleandata":
				before := listAll()
				oldL := listOf(a)
				var err error
				if o.Op == "clean" {
					err = cache.CleanContractStorage(a, o.H)
					r.deleteContract(track, a, o.H)
					coqOps = append(coqOps, fmt.Sprintf("AClean %s %d", sh.B(a[:]), o.H))
				} else {
					err = cache.CleanContractStorageData(a)
					coqOps = append(coqOps, fmt.Sprintf("ACleanData %s", sh.B(a[:])))
				}
				r.cleanData(a)
				if err != nil {
					fail(i, "destroy:error", "CleanContractStorage returned an error on an in-memory store", err.Error(), nil)
				}
				cnt(fmt.Sprintf("destroy:entries:%s", bucket(len(oldL))))
				checkClean(cache, a, o.H, track, o.Op == "clean", before, i, fail)
				observe(i, "destroy", a)
			case "commit":
				cache.Commit()
				r.commit()
				coqOps = append(coqOps, "ACommit")
			case "reset":
				cache.Reset()
				r.cache = map[string][]byte{}
				coqOps = append(coqOps, "AReset")
			case "ovcommit":
				ldb.NewBatch()
				overlay.CommitTo()
				if err := ldb.BatchCommit(); err != nil {
					panic(err)
				}
				r.ovCommit()
				coqOps = append(coqOps, "AOvCommit")
			default:
				panic("unknown op " + o.Op)
			}
		}
	})
	if p {
		panicMsg = msg
	}
	return
}

func bucket(n int) string {
	switch {
	case n == 0:
		return "0"
	case n == 1:
		return "1"
	case n <= 4:
		return "2-4"
	case n <= 16:
		return "5-16"
	default:
		return ">16"
	}
}

func getContract(cache *storage.CacheDB, r *ref, a common.Address, i int, what string,
	fail func(int, string, string, interface{}, interface{}), coqOps *[]string) {
	dc, destroyed, err := cache.GetContract(a)
	if err != nil {
		fail(i, "getcontract:error", "GetContract returned an error", err.Error(), nil)
	}
	var rec []byte
	if dc != nil {
		rec = dc.ToArray()
	}
	wantD := len(r.get(fk(stD, a[:]))) != 0
	var wantRec []byte
	if !wantD {
		wantRec = r.get(fk(stC, a[:]))
	}
	if destroyed != wantD || !bytes.Equal(rec, wantRec) {
		fail(i, "getcontract:wrong", "GetContract returns (nil, destroyed) for a marked address, else the stored record",
			[]interface{}{hx.Hex(rec), destroyed}, []interface{}{hx.Hex(wantRec), wantD})
	}
	*coqOps = append(*coqOps, fmt.Sprintf("AGetContract %s %s %s", sh.B(a[:]), hx.CoqOpt(dc != nil, sh.B(rec)), hx.CoqBool(destroyed)))
}

// checkMigrate is the direct property oracle for MigrateContractStorage: it looks only at what the
// implementation returned before and after the call.
func checkMigrate(cache *storage.CacheDB, old, new common.Address, h, track uint32, before, oldL []kvp, i int,
	fail func(int, string, string, interface{}, interface{})) {
	after := drain(cache.NewIterator(nil))
	am := map[string][]byte{}
	for _, e := range after {
		am[string(e.k)] = e.v
	}
	if left := drain(cache.NewIterator(old[:])); len(left) != 0 {
		fail(i, "migrate:old-key-left", "after migration no entry remains under the old address", kvsJSON(left), nil)
	}
	if old != new {
		for _, e := range oldL {
			nk := append(cp(new[:]), e.k[20:]...)
			got, _ := cache.Get(nk)
			if len(got) == 0 {
				fail(i, "migrate:entry-lost", "every entry of the old contract is readable under the new address", hx.Hex(nk), hx.Hex(e.v))
			} else if !bytes.Equal(got, e.v) {
				fail(i, "migrate:value-changed", "every entry of the old contract keeps its value", hx.Hex(got), hx.Hex(e.v))
			}
			if g, _ := cache.Get(e.k); len(g) != 0 {
				fail(i, "migrate:old-key-left", "after migration Get on an old key returns nothing", hx.Hex(e.k), nil)
			}
		}
	}
	moved := map[string]bool{}
	for _, e := range oldL {
		moved[string(append(cp(new[:]), e.k[20:]...))] = true
	}
	for _, e := range before {
		if bytes.HasPrefix(e.k, old[:]) || moved[string(e.k)] {
			continue
		}
		if !bytes.Equal(am[string(e.k)], e.v) {
			fail(i, "migrate:foreign-key-changed", "keys of other contracts are unchanged by a migration", []string{hx.Hex(e.k), hx.Hex(am[string(e.k)])}, hx.Hex(e.v))
		}
	}
	bm := map[string]bool{}
	for _, e := range before {
		bm[string(e.k)] = true
	}
	for _, e := range after {
		if !bm[string(e.k)] && !moved[string(e.k)] {
			fail(i, "migrate:key-appeared", "a migration creates no key other than the moved ones", hx.Hex(e.k), nil)
		}
	}
	checkGone(cache, old, h, track, true, "migrate", i, fail)
}

func checkClean(cache *storage.CacheDB, a common.Address, h, track uint32, withRecord bool, before []kvp, i int,
	fail func(int, string, string, interface{}, interface{})) {
	if left := drain(cache.NewIterator(a[:])); len(left) != 0 {
		fail(i, "destroy:key-left", "after destruction no entry remains under the address", kvsJSON(left), nil)
	}
	after := drain(cache.NewIterator(nil))
	var want []kvp
	for _, e := range before {
		if !bytes.HasPrefix(e.k, a[:]) {
			want = append(want, e)
		}
	}
	if !kvsEqual(after, want) {
		fail(i, "destroy:foreign-key-changed", "destruction removes exactly the keys under the address", kvsJSON(after), kvsJSON(want))
	}
	if withRecord {
		checkGone(cache, a, h, track, true, "destroy", i, fail)
	}
}

// after DeleteContract: no record; with tracking active the address reads as destroyed
func checkGone(cache *storage.CacheDB, a common.Address, h, track uint32, _ bool, what string, i int,
	fail func(int, string, string, interface{}, interface{})) {
	dc, destroyed, _ := cache.GetContract(a)
	if dc != nil {
		fail(i, what+":record-left", "the contract record of the old address is deleted", a.ToHexString(), nil)
	}
	if track <= h && !destroyed {
		fail(i, what+":marker-not-set", "with tracking active the old address is marked destroyed", destroyed, true)
	}
}
