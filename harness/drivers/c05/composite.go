package c05

// Composite transactions: a NeoVM script made of several sub-calls, each of which writes storage or
// goes through a place that could commit or flush a cache in the middle of the transaction
// (native calls from NeoVM, the native system contract's evmInvoke and its StateDB, APPCALL
// chains, Contract.Create / Migrate / Destroy), followed by a terminator that makes the
// transaction fail AFTER the sub-calls succeeded (THROW, out of gas) or lets it succeed.

import (
	"bytes"
	"strings"

	"github.com/ontio/ontology/common"
	"github.com/ontio/ontology/core/payload"
	"github.com/ontio/ontology/core/types"
	cutils "github.com/ontio/ontology/core/utils"
	"github.com/ontio/ontology/smartcontract/service/native/ont"
	nutils "github.com/ontio/ontology/smartcontract/service/native/utils"
	vm "github.com/ontio/ontology/vm/neovm"

	"verif/harness/ledgerkit"
)

type evmArg struct {
	Caller common.Address
	Target common.Address
	Input  []byte
}

// contract: the 7 deploy parameters on the stack -> Ontology.Contract.Migrate; DROP
func migrateContract() []byte {
	b := vm.NewParamsBuilder(new(bytes.Buffer))
	b.Emit(vm.PUSH3) // salt
	b.Emit(vm.DROP)
	syscall(b, "Ontology.Contract.Migrate")
	b.Emit(vm.DROP)
	return b.ToArray()
}

// contract: System.Contract.Destroy (destroys itself)
func destroyContract() []byte {
	b := vm.NewParamsBuilder(new(bytes.Buffer))
	b.Emit(vm.PUSH2) // salt (the deploy witness uses PUSH1)
	b.Emit(vm.DROP)
	syscall(b, "System.Contract.Destroy")
	return b.ToArray()
}

func (w *world) deploySetup(code []byte, desc string) (common.Address, error) {
	mtx, err := cutils.NewDeployTransaction(code, "c05", "1", "v", "v@v", desc, payload.NEOVM_TYPE)
	if err != nil {
		return common.ADDRESS_EMPTY, err
	}
	mtx.GasLimit = 30000000
	return common.AddressFromVmCode(code), w.setup(mtx)
}

func native(contract common.Address, method string, arg interface{}) []byte {
	code, err := cutils.BuildNativeInvokeCode(contract, 0, method, []interface{}{arg})
	if err != nil {
		panic(err)
	}
	return code
}

// deployParams pushes desc, email, author, version, name, vmType, code (code on top)
func deployParams(b *vm.ParamsBuilder, code []byte) {
	for _, s := range []string{"d", "e@e", "a", "1", "n"} {
		b.EmitPushByteArray([]byte(s))
	}
	b.Emit(vm.PUSH1) // NEOVM_TYPE
	b.EmitPushByteArray(code)
}

// genComposite draws a composite transaction; d.Code records the step names.
func (w *world) genComposite(d *txDesc) *types.MutableTransaction {
	c := w.c
	payer := w.users[d.Payer].Address
	other := w.users[(d.Payer+1+c.Intn(len(w.users)-1))%len(w.users)].Address
	if d.Price > two64div20000 {
		d.Price = 2500 // overflowing prices are refused before anything runs: exercised by the plain kinds
	}
	var script []byte
	var steps []string
	heavy := 0
	n := 1 + c.Intn(3)
	for i := 0; i < n; i++ {
		b := vm.NewParamsBuilder(new(bytes.Buffer))
		switch k := c.Intn(14); {
		case k >= 12: // the payer's own ONG leaves: all but 0 / fee-1 / fee / fee+1
			bal := w.ongOf(d.Payer)
			if d.Price == 0 || d.Price > 5000 {
				d.Price = []uint64{1, 500, 2500}[c.Intn(3)]
			}
			fee := 20000 * d.Price
			left := []uint64{0, fee - 1, fee, fee + 1}[c.Intn(4)]
			amt := uint64(0)
			if bal > left {
				amt = bal - left
			}
			mech := drainMechanisms[c.Intn(len(drainMechanisms))]
			steps = append(steps, "drain:"+mech)
			script = append(script, w.drainScript(mech, payer, other, amt)...)
		case k < 2: // native write from NeoVM
			steps = append(steps, "ong-approve")
			script = append(script, native(ledgerkit.OngAddr, "approve", &ont.TransferState{From: payer, To: other, Value: 1 + uint64(c.Intn(1000))})...)
		case k < 3:
			steps = append(steps, "ong-transfer")
			script = append(script, native(ledgerkit.OngAddr, "transfer", []*ont.TransferState{{From: payer, To: other, Value: uint64(c.Intn(1000))}})...)
		case k < 5: // storage write through an APPCALL
			steps = append(steps, "contract-put")
			b.EmitPushBool(true)
			b.EmitPushByteArray(c.Bytes(1 + c.Intn(40)))
			b.EmitPushByteArray([]byte{byte('c'), byte(c.Intn(4))})
			b.EmitPushCall(w.contract[:])
			script = append(script, b.ToArray()...)
		case k < 8: // native system contract: EVM call (an address without code: succeeds)
			steps = append(steps, "evm-invoke")
			var target common.Address
			copy(target[:], c.Bytes(20))
			script = append(script, native(nutils.SystemContractAddress, "evmInvoke", evmArg{payer, target, c.Bytes(c.Intn(8))})...)
		case k < 9: // EVM call on behalf of somebody who did not sign: the sub-call fails
			steps = append(steps, "evm-invoke-unwitnessed")
			script = append(script, native(nutils.SystemContractAddress, "evmInvoke", evmArg{nutils.GovernanceContractAddress, other, nil})...)
		case k < 10: // Contract.Create of a fresh contract
			steps = append(steps, "contract-create")
			heavy++
			deployParams(b, append([]byte{byte(vm.PUSH4), byte(vm.DROP)}, c.Bytes(6)...))
			syscall(b, "Ontology.Contract.Create")
			b.Emit(vm.DROP)
			script = append(script, b.ToArray()...)
		case k < 11: // the self-destroying contract
			steps = append(steps, "contract-destroy")
			b.EmitPushCall(w.destroyer[:])
			script = append(script, b.ToArray()...)
		default: // the migrating contract
			steps = append(steps, "contract-migrate")
			heavy++
			deployParams(b, append([]byte{byte(vm.PUSH5), byte(vm.DROP)}, c.Bytes(6)...))
			b.EmitPushCall(w.migrator[:])
			script = append(script, b.ToArray()...)
		}
	}
	destructive := strings.Contains(strings.Join(steps, ","), "contract-destroy") || strings.Contains(strings.Join(steps, ","), "contract-migrate")
	switch t := c.Intn(6); {
	case t < 3 || (destructive && t < 5): // fail after the sub-calls succeeded
		steps = append(steps, "THROW")
		script = append(script, byte(vm.THROW))
	case t < 4 || destructive: // run out of gas after the sub-calls
		steps = append(steps, "loop")
		script = append(script, byte(vm.JMP), 0, 0)
	default:
		steps = append(steps, "ok")
	}
	if heavy > 0 { // Contract.Create / Migrate cost 20,000,000 gas each
		d.Price = []uint64{0, 1, 500}[c.Intn(3)]
		d.Limit = 20000000*uint64(heavy) + uint64(c.Intn(1500000))
		if c.Intn(5) == 0 {
			d.Limit = 20000000*uint64(heavy) - 1000000 + uint64(c.Intn(1000000)) // not enough: fails inside the sub-call
		}
	} else {
		if d.Price > 5000 && c.Intn(3) != 0 {
			d.Price = 2500
		}
		if d.Limit > 3000000 || d.Limit < 20000 {
			d.Limit = 20000 + uint64(c.Intn(300000))
		}
	}
	d.Kind = "composite"
	d.Code = strings.Join(steps, ",")
	return w.k.InvokeTx(script, d.Price, d.Limit)
}
