package c05

// Deterministic probes of the inputs the model's lemmas name (run on every check).

import (
	"bytes"
	"fmt"
	"math/big"

	"github.com/ontio/ontology/common"
	"github.com/ontio/ontology/core/payload"
	cutils "github.com/ontio/ontology/core/utils"
	"github.com/ontio/ontology/smartcontract/event"
	"github.com/ontio/ontology/smartcontract/service/neovm"

	"github.com/ontio/ontology/core/store"
	"github.com/ontio/ontology/core/types"
	vm "github.com/ontio/ontology/vm/neovm"

	"verif/harness/hx"
	"verif/harness/ledgerkit"
)

// witnesses runs the named probe, or all of them.
func witnesses(w *world, only string) {
	if only == "" || only == "deploy-destroyed" {
		w.deployDestroyed()
	}
	if only == "" || only == "gasprice-2^59" {
		w.roundZero()
	}
}

// GasPrice = 2^59: MIN_TRANSACTION_GAS * GasPrice = 20000 * 2^59 = 625 * 2^64 wraps to 0, so the
// rounding unit handed to tuneGasFeeByHeight is 0 (Proofs/Fee.v: tune_panic_iff, c05_round_zero_panics).
func (w *world) roundZero() {
	c := w.c
	b := vm.NewParamsBuilder(new(bytes.Buffer))
	b.Emit(vm.PUSH1)
	mtx := w.k.InvokeTx(b.ToArray(), 1<<59, 20000)
	mtx.Payer = w.users[1].Address
	in := &blockInput{Seed: c.Seed, Witness: "gasprice-2^59", Txs: []*txDesc{{Kind: "script", Payer: 1, Signer: 1, Price: 1 << 59, Limit: 20000}}}
	if err := ledgerkit.Sign(mtx, w.users[1]); err != nil {
		c.Fail("driver-gen", "transaction could be built", in, err.Error(), nil)
		return
	}
	tx, _ := mtx.IntoImmutable()
	blk, err := w.k.MakeBlock([]*types.Transaction{tx})
	if err != nil {
		c.Fail("driver-gen", "block could be built", in, err.Error(), nil)
		return
	}
	obs := make([]*txObs, 1)
	hx.Recover(func() { walk(w, blk, obs) })
	var res store.ExecuteResult
	panicked, msg := hx.Recover(func() { res, err = w.k.Ledger.ExecuteBlock(blk) })
	c.Eval()
	c.Count("witness:gasprice-2^59")
	_ = res
	if panicked {
		w.reportPanic(in, blk, obs, msg)
		return
	}
	c.Note(fmt.Sprintf("gasprice-2^59 witness: no panic (err=%v)", err))
	if len(obs) == 1 && obs[0] != nil {
		w.emitPanicCase(in, blk, obs, false)
	}
}

// deployDestroyed: a paid Deploy transaction (outside the property's quantifier) of a contract
// that was destroyed before. HandleDeployTransaction charges the fee through the transaction
// cache and commits it, then refuses the redeploy and returns without recording GasConsumed or
// the transfer event. Also one paid deploy of a new contract, to validate the model's success path.
func (w *world) deployDestroyed() {
	c := w.c
	b := vm.NewParamsBuilder(new(bytes.Buffer))
	b.Emit(vm.PUSH1) // salt (address = hash of the code)
	b.Emit(vm.DROP)
	syscall(b, "Ontology.Contract.Destroy")
	code := b.ToArray()
	addr := common.AddressFromVmCode(code)
	dep := func(code []byte, price uint64, by int) (*types.Transaction, error) {
		mtx, err := cutils.NewDeployTransaction(code, "c05d", "1", "v", "v@v", "destroys itself", payload.NEOVM_TYPE)
		if err != nil {
			return nil, err
		}
		w.k.InvokeTx(nil, 0, 0) // advance the nonce counter
		mtx.GasPrice, mtx.GasLimit, mtx.Payer, mtx.Nonce = price, 30000000, w.users[by].Address, uint32(c.Intn(1<<30))
		if err := ledgerkit.Sign(mtx, w.users[by]); err != nil {
			return nil, err
		}
		return mtx.IntoImmutable()
	}
	fail := func(err error) { c.Fail("driver-gen", "deploy witness could be built", nil, err.Error(), nil) }
	// make sure the payer can pay two deployments (50 ONG each at price 2500)
	if tx, err := w.transfer(ledgerkit.OngAddr, 0, w.users[1].Address, 200000000000, 0, 30000); err != nil {
		fail(err)
		return
	} else if err := w.setupTx(tx); err != nil {
		fail(err)
		return
	}
	tx, err := dep(code, 0, 0)
	if err != nil {
		fail(err)
		return
	}
	if err := w.setupTx(tx); err != nil {
		fail(err)
		return
	}
	cb := vm.NewParamsBuilder(new(bytes.Buffer))
	cb.EmitPushCall(addr[:])
	call := w.k.InvokeTx(cb.ToArray(), 0, 100000)
	if err := w.setup(call); err != nil { // the contract destroys itself
		fail(err)
		return
	}
	other := append([]byte{byte(vm.PUSH1), byte(vm.DROP), byte(vm.PUSH1), byte(vm.DROP)}, code[2:]...)
	for _, wit := range []struct {
		name string
		code []byte
	}{{"deploy-destroyed", code}, {"deploy-new", other}} {
		tx, err := dep(wit.code, 2500, 1)
		if err != nil {
			fail(err)
			return
		}
		in := &blockInput{Seed: c.Seed, Witness: "deploy-destroyed", Txs: []*txDesc{{Kind: wit.name, Payer: 1, Signer: 1, Price: 2500, Limit: 30000000}}}
		blk, err := w.k.MakeBlock([]*types.Transaction{tx})
		if err != nil {
			fail(err)
			return
		}
		obs := make([]*txObs, 1)
		if err := walk(w, blk, obs); err != nil {
			fail(err)
			return
		}
		res, err := w.k.Ledger.ExecuteBlock(blk)
		c.Eval()
		if err != nil || len(res.Notify) != 1 {
			fail(fmt.Errorf("deploy block: %v", err))
			return
		}
		if err := w.k.Ledger.AddBlock(blk, nil, res.MerkleRoot); err != nil {
			fail(err)
			return
		}
		c.Count("witness:" + wit.name)
		n, o := res.Notify[0], obs[0]
		pb, _ := balance(o.PayerRaw)
		pa, _ := balance(o.PayerAfter)
		moved := new(big.Int).Sub(pb, pa)
		reported := new(big.Int).Mul(new(big.Int).SetUint64(n.GasConsumed), scale)
		if n.State == event.CONTRACT_STATE_FAIL && moved.Cmp(reported) != 0 {
			c.Fail("deploy:redeploy-destroyed-fee-unreported", "GasConsumed of a failed transaction equals the fee actually moved (Deploy transaction)",
				in, fmt.Sprintf("GasConsumed=%d events=%d", n.GasConsumed, len(n.Notify)), "fee moved (10^-18 ONG): "+moved.String())
		}
		// correspondence case
		var st []kvPair
		for k, v := range w.stored {
			if len(v) > 0 {
				st = append(st, kvPair{[]byte(k), v})
			}
		}
		sortKV(st)
		dc := tx.Payload.(*payload.DeployCode)
		sink := common.NewZeroCopySink(nil)
		dc.Serialization(sink)
		a := dc.Address()
		tbl := func(key string) string {
			if v, ok := neovm.GAS_TABLE.Load(key); ok {
				return fmt.Sprintf("(Some %d)", v.(uint64))
			}
			return "None"
		}
		var fe []string
		for _, e := range n.Notify {
			if v, ok := feeEvent(e, tx.Payer); ok {
				fe = append(fe, hx.CoqN(v))
			}
		}
		c.Case(fmt.Sprintf("CDeploy %s %s %s\n  (mkDep (mkTx %s true %d %d %d false) %s %s)\n  (%d, %d, %s, %d) %s",
			tbl(neovm.CONTRACT_CREATE_NAME), tbl(neovm.UINT_DEPLOY_CODE_LEN_NAME), coqKV(st),
			hx.CoqBytes(tx.Payer[:]), tx.GasPrice, tx.GasLimit, len(dc.GetRawCode()), hx.CoqBytes(a[:]), hx.CoqBytes(sink.Bytes()),
			n.State, n.GasConsumed, hx.CoqList(fe), len(n.Notify), coqKV(writeSet(res.WriteSet))), in)
	}
}
