package c05

// Deterministic probes of the inputs the model's lemmas name (run on every check).

import (
	"bytes"
	"fmt"
	"math/big"
	"os"
	"strconv"

	"github.com/ontio/ontology/common"
	"github.com/ontio/ontology/core/payload"
	cutils "github.com/ontio/ontology/core/utils"
	"github.com/ontio/ontology/smartcontract/event"
	"github.com/ontio/ontology/smartcontract/service/neovm"

	"github.com/ontio/ontology/core/types"
	vm "github.com/ontio/ontology/vm/neovm"

	"verif/harness/hx"
	"verif/harness/ledgerkit"
)

// witnesses runs the named probe.
func witnesses(w *world, in *blockInput) {
	switch in.Witness {
	case "drain":
		w.drainProbes()
	case "dirty-cache":
		w.dirtyProbes()
	case "deploy-destroyed":
		w.deployDestroyed()
	case "tx":
		if os.Getenv("C05_CHILD") == "" && in.Label != "generated" {
			// corpus probe: first in a child with a time limit, then (if it returned) here
			price, _ := strconv.ParseUint(in.Price, 10, 64)
			limit, _ := strconv.ParseUint(in.Limit, 10, 64)
			bal, _ := strconv.ParseUint(in.Balance, 10, 64)
			mtx := w.k.InvokeTx(hx.UnHex(in.Code), price, limit)
			mtx.Payer = w.users[len(w.users)-1].Address
			tx, _ := mtx.IntoImmutable()
			if !w.guard(tx, bal, in, in.Label) {
				return
			}
		}
		w.txProbe(in)
	case "gasprice", "gasprice-2^59":
		p, err := strconv.ParseUint(in.Price, 10, 64)
		if err != nil {
			p = 1 << 59
		}
		w.gasPriceProbe(p)
	}
}

// gasPriceProbe (corpus/C05): a block of two charged transactions with the given gas price, one
// whose script faults and one whose script would succeed. For the multiples of 2^59
// GasPrice*MIN_TRANSACTION_GAS wraps to 0; before /repo 96f31c72 tuneGasFeeByHeight divided by that
// unit and ExecuteBlock panicked. The block must execute; the usual oracle and the correspondence
// then apply to it (Props/C05.v: c05_round_zero_iff, c05_tune_zero_unit, c05_round_zero_asks_balance).
func (w *world) gasPriceProbe(price uint64) {
	c := w.c
	in := &blockInput{Seed: c.Seed, Witness: "gasprice", Price: strconv.FormatUint(price, 10)}
	var txs []*types.Transaction
	for i, op := range []vm.OpCode{vm.THROW, vm.PUSH1} {
		b := vm.NewParamsBuilder(new(bytes.Buffer))
		b.Emit(op)
		who := len(w.users) - 1 - i
		mtx := w.k.InvokeTx(b.ToArray(), price, 20000+uint64(i))
		mtx.Payer = w.users[who].Address
		if err := ledgerkit.Sign(mtx, w.users[who]); err != nil {
			c.Fail("driver-gen", "transaction could be built", in, err.Error(), nil)
			return
		}
		tx, _ := mtx.IntoImmutable()
		txs = append(txs, tx)
		in.Txs = append(in.Txs, &txDesc{Kind: "script", Payer: who, Signer: who, Price: price, Limit: 20000 + uint64(i)})
	}
	c.Count("witness:gasprice-" + in.Price)
	w.runBlock(in, txs, true)
}

// deployDestroyed: a paid Deploy transaction (outside the property's quantifier) of a contract
// that was destroyed before. HandleDeployTransaction charges the fee through the transaction
// cache and commits it, then refuses the redeploy and returns without recording GasConsumed or
// the transfer event. Also one paid deploy of a new contract, to validate the model's success path.
func (w *world) deployDestroyed() {
	c := w.c
	b := vm.NewParamsBuilder(new(bytes.Buffer))
	b.Emit(vm.PUSH1) // salt (address = hash of the code)
	b.Emit(vm.DROP)
	syscall(b, "System.Contract.Destroy")
	code := b.ToArray()
	addr := common.AddressFromVmCode(code)
	dep := func(code []byte, price uint64, by int) (*types.Transaction, error) {
		mtx, err := cutils.NewDeployTransaction(code, "c05d", "1", "v", "v@v", "destroys itself", payload.NEOVM_TYPE)
		if err != nil {
			return nil, err
		}
		w.k.InvokeTx(nil, 0, 0) // advance the nonce counter
		mtx.GasPrice, mtx.GasLimit, mtx.Payer, mtx.Nonce = price, 30000000, w.users[by].Address, uint32(c.Intn(1<<30))
		if err := ledgerkit.Sign(mtx, w.users[by]); err != nil {
			return nil, err
		}
		return mtx.IntoImmutable()
	}
	step := fmt.Sprintf("fund (bookkeeper has %d)", w.ongOf(0))
	fail := func(err error) {
		c.Fail("driver-gen", "deploy witness could be built", nil, step+": "+err.Error(), nil)
	}
	// make sure the payer can pay two deployments (50 ONG each at price 2500)
	if tx, err := w.transfer(ledgerkit.OngAddr, 0, w.users[1].Address, 200000000000, 0, 30000); err != nil {
		fail(err)
		return
	} else if err := w.setupTx(tx); err != nil {
		fail(err)
		return
	}
	step = "deploy"
	tx, err := dep(code, 0, 0)
	if err != nil {
		fail(err)
		return
	}
	if err := w.setupTx(tx); err != nil {
		fail(err)
		return
	}
	step = "destroy"
	cb := vm.NewParamsBuilder(new(bytes.Buffer))
	cb.EmitPushCall(addr[:])
	call := w.k.InvokeTx(cb.ToArray(), 0, 100000)
	if err := w.setup(call); err != nil { // the contract destroys itself
		fail(err)
		return
	}
	other := append([]byte{byte(vm.PUSH1), byte(vm.DROP), byte(vm.PUSH1), byte(vm.DROP)}, code[2:]...)
	for _, wit := range []struct {
		name string
		code []byte
	}{{"deploy-destroyed", code}, {"deploy-new", other}} {
		tx, err := dep(wit.code, 2500, 1)
		if err != nil {
			fail(err)
			return
		}
		in := &blockInput{Seed: c.Seed, Witness: "deploy-destroyed", Txs: []*txDesc{{Kind: wit.name, Payer: 1, Signer: 1, Price: 2500, Limit: 30000000}}}
		blk, err := w.k.MakeBlock([]*types.Transaction{tx})
		if err != nil {
			fail(err)
			return
		}
		obs := make([]*txObs, 1)
		if err := walk(w, blk, obs); err != nil {
			fail(err)
			return
		}
		res, err := w.k.Ledger.ExecuteBlock(blk)
		c.Eval()
		if err != nil || len(res.Notify) != 1 {
			fail(fmt.Errorf("deploy block: %v", err))
			return
		}
		if err := w.k.Ledger.AddBlock(blk, nil, res.MerkleRoot); err != nil {
			fail(err)
			return
		}
		c.Count("witness:" + wit.name)
		n, o := res.Notify[0], obs[0]
		pb, _ := balance(o.PayerRaw)
		pa, _ := balance(o.PayerAfter)
		moved := new(big.Int).Sub(pb, pa)
		reported := new(big.Int).Mul(new(big.Int).SetUint64(n.GasConsumed), scale)
		if n.State == event.CONTRACT_STATE_FAIL && moved.Cmp(reported) != 0 {
			c.Fail("deploy:redeploy-destroyed-fee-unreported", "GasConsumed of a failed transaction equals the fee actually moved (Deploy transaction)",
				in, fmt.Sprintf("GasConsumed=%d events=%d", n.GasConsumed, len(n.Notify)), "fee moved (10^-18 ONG): "+moved.String())
		}
		// correspondence case
		var st []kvPair
		for k, v := range w.stored {
			if len(v) > 0 {
				st = append(st, kvPair{[]byte(k), v})
			}
		}
		sortKV(st)
		dc := tx.Payload.(*payload.DeployCode)
		sink := common.NewZeroCopySink(nil)
		dc.Serialization(sink)
		a := dc.Address()
		tbl := func(key string) string {
			if v, ok := neovm.GAS_TABLE.Load(key); ok {
				return fmt.Sprintf("(Some %d)", v.(uint64))
			}
			return "None"
		}
		var fe []string
		for _, e := range n.Notify {
			if v, ok := feeEvent(e, tx.Payer); ok {
				fe = append(fe, hx.CoqN(v))
			}
		}
		c.Case(fmt.Sprintf("CDeploy %s %s %s\n  (mkDep (mkTx %s true %d %d %d false) %s %s)\n  (%d, %d, %s, %d) %s",
			tbl(neovm.CONTRACT_CREATE_NAME), tbl(neovm.UINT_DEPLOY_CODE_LEN_NAME), coqKV(st),
			hx.CoqBytes(tx.Payer[:]), tx.GasPrice, tx.GasLimit, len(dc.GetRawCode()), hx.CoqBytes(a[:]), hx.CoqBytes(sink.Bytes()),
			n.State, n.GasConsumed, hx.CoqList(fe), len(n.Notify), coqKV(writeSet(res.WriteSet))), in)
	}
}
