package c05

// Deterministic probes of the inputs the model's lemmas name (run on every check).

import (
	"bytes"
	"fmt"

	"github.com/ontio/ontology/core/store"
	"github.com/ontio/ontology/core/types"
	vm "github.com/ontio/ontology/vm/neovm"

	"verif/harness/hx"
	"verif/harness/ledgerkit"
)

// witnesses runs the named probe, or all of them.
func witnesses(w *world, only string) {
	if only == "" || only == "gasprice-2^59" {
		w.roundZero()
	}
}

// GasPrice = 2^59: MIN_TRANSACTION_GAS * GasPrice = 20000 * 2^59 = 625 * 2^64 wraps to 0, so the
// rounding unit handed to tuneGasFeeByHeight is 0 (Proofs/Fee.v: tune_panic_iff, c05_round_zero_panics).
func (w *world) roundZero() {
	c := w.c
	b := vm.NewParamsBuilder(new(bytes.Buffer))
	b.Emit(vm.PUSH1)
	mtx := w.k.InvokeTx(b.ToArray(), 1<<59, 20000)
	mtx.Payer = w.users[1].Address
	in := &blockInput{Seed: c.Seed, Witness: "gasprice-2^59", Txs: []*txDesc{{Kind: "script", Payer: 1, Signer: 1, Price: 1 << 59, Limit: 20000}}}
	if err := ledgerkit.Sign(mtx, w.users[1]); err != nil {
		c.Fail("driver-gen", "transaction could be built", in, err.Error(), nil)
		return
	}
	tx, _ := mtx.IntoImmutable()
	blk, err := w.k.MakeBlock([]*types.Transaction{tx})
	if err != nil {
		c.Fail("driver-gen", "block could be built", in, err.Error(), nil)
		return
	}
	obs := make([]*txObs, 1)
	hx.Recover(func() { walk(w, blk, obs) })
	var res store.ExecuteResult
	panicked, msg := hx.Recover(func() { res, err = w.k.Ledger.ExecuteBlock(blk) })
	c.Eval()
	c.Count("witness:gasprice-2^59")
	_ = res
	if panicked {
		w.reportPanic(in, blk, obs, msg)
		return
	}
	c.Note(fmt.Sprintf("gasprice-2^59 witness: no panic (err=%v)", err))
	if len(obs) == 1 && obs[0] != nil {
		w.emitPanicCase(in, blk, obs, false)
	}
}
