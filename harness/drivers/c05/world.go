package c05

// The chain the transactions run on, and the transaction generators.

import (
	"bytes"
	"fmt"
	"math/big"
	"path/filepath"

	"github.com/laizy/bigint"
	"github.com/ontio/ontology/account"
	"github.com/ontio/ontology/common"
	"github.com/ontio/ontology/core/payload"
	"github.com/ontio/ontology/core/states"
	"github.com/ontio/ontology/core/types"
	cutils "github.com/ontio/ontology/core/utils"
	"github.com/ontio/ontology/smartcontract/event"
	"github.com/ontio/ontology/smartcontract/service/native/ont"
	nutils "github.com/ontio/ontology/smartcontract/service/native/utils"
	vm "github.com/ontio/ontology/vm/neovm"

	"verif/harness/hx"
	"verif/harness/ledgerkit"
)

type world struct {
	c         *hx.Ctx
	k         *ledgerkit.Kit
	users     []*account.Account // users[0] is the bookkeeper (holds the supplies; only refills, never a random payer)
	contract  common.Address     // deployed: Storage.Put(key, value) then THROWIFNOT flag
	destroyer common.Address     // deployed: System.Contract.Destroy on itself
	migrator  common.Address     // deployed: Ontology.Contract.Migrate with the caller's parameters
	stored    map[string][]byte  // persisted ONG records at the start of the block being observed
}

// decode a stored balance record with the implementation's reader; unit 10^-18 ONG
func balance(raw []byte) (*big.Int, bool) {
	if len(raw) == 0 {
		return new(big.Int), true
	}
	item := new(states.StorageItem)
	if err := item.Deserialization(common.NewZeroCopySource(raw)); err != nil {
		return nil, false
	}
	b, err := states.NativeTokenBalanceFromStorageItem(item)
	if err != nil {
		return nil, false
	}
	return b.ToBigInt(), true
}

var scale = big.NewInt(states.ScaleFactor)

// what getBalanceFromNative returns for the record
func balanceU64(raw []byte) (uint64, bool) {
	b, ok := balance(raw)
	if !ok {
		return 0, false
	}
	return new(big.Int).Div(b, scale).Uint64(), true
}

func syscall(b *vm.ParamsBuilder, name string) {
	b.Emit(vm.SYSCALL)
	raw := append([]byte{byte(len(name))}, name...)
	for _, x := range raw {
		b.Emit(vm.OpCode(x))
	}
}

// contract: [flag value key] -> Storage.Put(ctx, key, value); THROWIFNOT flag
func storageContract() []byte {
	b := vm.NewParamsBuilder(new(bytes.Buffer))
	syscall(b, "System.Storage.GetContext")
	syscall(b, "System.Storage.Put")
	b.Emit(vm.THROWIFNOT)
	return b.ToArray()
}

func newWorld(c *hx.Ctx) (*world, error) {
	kit, err := ledgerkit.New(filepath.Join(c.OutDir, "c05-ledger"))
	if err != nil {
		return nil, err
	}
	w := &world{c: c, k: kit, users: []*account.Account{kit.Acct}}
	for i := 0; i < 5; i++ {
		w.users = append(w.users, account.NewAccount(""))
	}
	// deploy the storage contract (gas price 0: no fee logic involved)
	code := storageContract()
	mtx, err := cutils.NewDeployTransaction(code, "c05", "1", "v", "v@v", "storage put then conditional throw", payload.NEOVM_TYPE)
	if err != nil {
		return nil, err
	}
	mtx.GasLimit = 30000000
	w.contract = common.AddressFromVmCode(code)
	if err := w.setup(mtx); err != nil {
		return nil, err
	}
	if w.destroyer, err = w.deploySetup(destroyContract(), "destroys itself"); err != nil {
		return nil, err
	}
	if w.migrator, err = w.deploySetup(migrateContract(), "migrates itself"); err != nil {
		return nil, err
	}
	// ONG for the users: plenty, medium, little, a fractional balance, nothing
	fund := []uint64{3000000000000, 8000000000, 200000000, 60000000, 30000}
	for i, v := range fund {
		if v == 0 {
			continue
		}
		tx, err := w.transfer(ledgerkit.OngAddr, 0, w.users[i+1].Address, v, 0, 30000)
		if err != nil {
			return nil, err
		}
		if err := w.setupTx(tx); err != nil {
			return nil, err
		}
	}
	// fractional balance for users[4]: transferV2 of 5.000000000123456789 * 10^-9... (10^-18 units)
	frac, _ := new(big.Int).SetString("700000000123456789", 10)
	v2 := []*ont.TransferStateV2{{From: kit.Acct.Address, To: w.users[4].Address, Value: states.NativeTokenBalance{Balance: bigint.New(frac)}}}
	mtx2, err := kit.NativeTx(ledgerkit.OngAddr, 0, 0, 30000, "transferV2", []interface{}{v2})
	if err == nil {
		if err := w.setup(mtx2); err != nil {
			c.Note("fractional funding not available: " + err.Error())
		}
	} else {
		c.Note("fractional funding not built: " + err.Error())
	}
	// a little ONT for users[1] so that ONT transfers can succeed
	tx, err := w.transfer(ledgerkit.OntAddr, 0, w.users[1].Address, 1000, 0, 30000)
	if err != nil {
		return nil, err
	}
	return w, w.setupTx(tx)
}

func (w *world) setup(mtx *types.MutableTransaction) error {
	if err := ledgerkit.Sign(mtx, w.k.Acct); err != nil {
		return err
	}
	tx, err := mtx.IntoImmutable()
	if err != nil {
		return err
	}
	return w.setupTx(tx)
}

func (w *world) setupTx(tx *types.Transaction) error {
	b, err := w.k.MakeBlock([]*types.Transaction{tx})
	if err != nil {
		return err
	}
	res, err := w.k.Ledger.ExecuteBlock(b)
	if err != nil {
		return err
	}
	if len(res.Notify) != 1 || res.Notify[0].State != event.CONTRACT_STATE_SUCCESS {
		return fmt.Errorf("setup transaction failed")
	}
	return w.k.Ledger.AddBlock(b, nil, res.MerkleRoot)
}

func (w *world) transfer(token common.Address, from int, to common.Address, amount, price, limit uint64) (*types.Transaction, error) {
	return w.k.TransferTx(token, w.users[from], to, amount, price, limit)
}

// ---------- transaction generators ----------

type txDesc struct {
	Kind   string `json:"kind"`
	Payer  int    `json:"payer"`
	Signer int    `json:"signer"`
	Price  uint64 `json:"price"`
	Limit  uint64 `json:"limit"`
	Amount uint64 `json:"amount,omitempty"`
	N      int    `json:"n,omitempty"`
	Flag   bool   `json:"flag,omitempty"`
	Code   string `json:"code,omitempty"`
}

const two64div20000 = 922337203685477 // floor(2^64 / 20000)

func (w *world) genPrice() uint64 {
	c := w.c
	switch c.Intn(20) {
	case 0, 1:
		return 0
	case 2, 3:
		return 1
	case 4, 5, 6, 7, 8, 9, 10:
		return 2500
	case 11, 12, 13, 14, 15:
		return 1 + uint64(c.Intn(5000))
	case 16:
		return []uint64{two64div20000, two64div20000 + 1, two64div20000 - 1, two64div20000*2 + 1}[c.Intn(4)]
	case 17:
		return []uint64{1 << 63, ^uint64(0), 1<<62 + 12345, 1<<58 + 1}[c.Intn(4)]
	case 18:
		return uint64(c.Intn(40)) * 1000000
	default:
		return 1 + uint64(c.Intn(100))
	}
}

func (w *world) genLimit(price uint64) uint64 {
	c := w.c
	switch c.Intn(16) {
	case 0:
		return []uint64{0, 1, 19999}[c.Intn(3)]
	case 1:
		return 20000
	case 2:
		return 20001
	case 3, 4, 5, 6, 7, 8:
		return 20000 + uint64(c.Intn(100000))
	case 9:
		return 1000000 + uint64(c.Intn(10000000))
	case 10:
		return []uint64{1 << 63, ^uint64(0), 1 << 40}[c.Intn(3)]
	case 11:
		if price > 1 { // limit*price wraps around to something small
			return ^uint64(0)/price + 1 + uint64(c.Intn(3))
		}
		return 30000
	case 12:
		return 39999 + uint64(c.Intn(3)) // around a rounding step
	default:
		return 20000 + uint64(c.Intn(400000))
	}
}

func (w *world) balanceOf(a common.Address) uint64 {
	raw, err := w.k.Store().GetCacheDB().Get(ongKey(a)[1:])
	if err != nil {
		return 0
	}
	v, _ := balanceU64(raw)
	return v
}

func (w *world) ongOf(i int) uint64 {
	raw, err := w.k.Store().GetCacheDB().Get(ongKey(w.users[i].Address)[1:])
	if err != nil {
		return 0
	}
	v, _ := balanceU64(raw)
	return v
}

// genTx draws one transaction. Amounts are chosen relative to the payer's persisted balance.
func (w *world) genTx() (*types.Transaction, *txDesc, error) {
	c := w.c
	d := &txDesc{Payer: 1 + c.Intn(len(w.users)-1)}
	if c.Intn(2) == 0 {
		d.Payer = 1 + c.Intn(3) // the better funded ones
	}
	d.Signer = d.Payer
	if c.Intn(25) == 0 {
		d.Signer = (d.Payer + 1) % len(w.users) // the payer did not sign
	}
	d.Price = w.genPrice()
	d.Limit = w.genLimit(d.Price)
	payer := w.users[d.Payer]
	other := w.users[(d.Payer+1+c.Intn(len(w.users)-1))%len(w.users)].Address
	bal := w.ongOf(d.Payer)
	var mtx *types.MutableTransaction
	var err error
	switch k := c.Intn(30); {
	case k >= 20: // several sub-calls, then a terminator
		mtx = w.genComposite(d)
	case k < 5: // ONG transfer by the payer
		d.Kind = "ong-transfer"
		fee := 20000 * d.Price
		switch c.Intn(9) {
		case 6, 7, 8: // leaves exactly 0, fee-1, fee or fee+1
			if d.Price == 0 || d.Price > 5000 {
				d.Price = []uint64{1, 500, 2500}[c.Intn(3)]
				fee = 20000 * d.Price
			}
			if d.Limit < 20000 || d.Limit > 1<<40 {
				d.Limit = 20000 + uint64(c.Intn(60000))
			}
			left := []uint64{0, fee - 1, fee, fee + 1}[c.Intn(4)]
			if bal > left {
				d.Amount = bal - left
			}
			d.N = int(left)
		case 0:
			d.Amount = bal // everything: nothing left for the fee
		case 1:
			d.Amount = bal + 1 + uint64(c.Intn(1000)) // more than there is
		case 2:
			if bal > 0 {
				d.Amount = bal - uint64(c.Rng.Int63n(int64(minU(bal, 100000000)))) // leaves a little
			}
		default:
			d.Amount = uint64(c.Rng.Int63n(int64(minU(bal, 1<<40) + 1)))
		}
		st := []*ont.TransferState{{From: payer.Address, To: other, Value: d.Amount}}
		mtx, err = w.k.NativeTx(ledgerkit.OngAddr, 0, d.Price, d.Limit, "transfer", []interface{}{st})
	case k < 8: // two transfers, the second cannot be paid: writes, then fails
		d.Kind = "ong-transfer-then-fail"
		d.Amount = uint64(c.Rng.Int63n(int64(minU(bal, 1<<30) + 1)))
		st := []*ont.TransferState{{From: payer.Address, To: other, Value: d.Amount}, {From: payer.Address, To: other, Value: bal + 1}}
		mtx, err = w.k.NativeTx(ledgerkit.OngAddr, 0, d.Price, d.Limit, "transfer", []interface{}{st})
	case k < 9: // ONT transfer (most payers hold no ONT)
		d.Kind = "ont-transfer"
		d.Amount = uint64(c.Intn(3))
		st := []*ont.TransferState{{From: payer.Address, To: other, Value: d.Amount}}
		mtx, err = w.k.NativeTx(ledgerkit.OntAddr, 0, d.Price, d.Limit, "transfer", []interface{}{st})
	case k < 10: // somebody else's ONG: authorization failure inside the execution
		d.Kind = "ong-transfer-unauthorized"
		d.Amount = 1 + uint64(c.Intn(1000))
		st := []*ont.TransferState{{From: other, To: payer.Address, Value: d.Amount}}
		mtx, err = w.k.NativeTx(ledgerkit.OngAddr, 0, d.Price, d.Limit, "transfer", []interface{}{st})
	case k < 14: // contract call: storage write, then fault or not
		d.Kind = "contract-put"
		d.Flag = c.Intn(2) == 0
		d.N = 1 + c.Intn(60)
		b := vm.NewParamsBuilder(new(bytes.Buffer))
		b.EmitPushBool(d.Flag)
		b.EmitPushByteArray(c.Bytes(d.N))
		b.EmitPushByteArray([]byte{byte('k'), byte(c.Intn(4))})
		b.EmitPushCall(w.contract[:])
		mtx = w.k.InvokeTx(b.ToArray(), d.Price, d.Limit)
	case k < 17: // plain script: n x (PUSH1 DROP), optionally THROW; or an endless loop
		d.Kind = "script"
		d.N = c.Intn(40)
		if c.Intn(8) == 0 {
			d.N = 20000 + c.Intn(30000) // costs more than MIN_TRANSACTION_GAS
		}
		b := vm.NewParamsBuilder(new(bytes.Buffer))
		for i := 0; i < d.N; i++ {
			b.Emit(vm.PUSH1)
			b.Emit(vm.DROP)
		}
		switch c.Intn(4) {
		case 0:
			b.Emit(vm.THROW)
			d.Flag = false
		case 1:
			b.Emit(vm.JMP) // JMP +0: loops until the gas runs out (no step limit outside pre-execution)
			b.Emit(0)
			b.Emit(0)
			if d.Limit > 3000000 {
				d.Limit = 20000 + uint64(c.Intn(300000))
			}
		default:
			d.Flag = true
		}
		mtx = w.k.InvokeTx(b.ToArray(), d.Price, d.Limit)
	case k < 19: // long code: the code-length gas is not zero
		d.Kind = "long-script"
		d.N = 1024*(1+c.Intn(3)) + c.Intn(100)
		b := vm.NewParamsBuilder(new(bytes.Buffer))
		b.EmitPushByteArray(make([]byte, d.N))
		b.Emit(vm.DROP)
		switch c.Intn(4) {
		case 0:
			b.Emit(vm.THROW)
		case 1: // endless loop: with an underflowed gas allowance it would never return
			b.Emit(vm.JMP)
			b.Emit(0)
			b.Emit(0)
			d.Flag = true
			if d.Limit > 3000000 {
				d.Limit = 60000 + uint64(c.Intn(300000))
			}
		}
		if c.Intn(3) == 0 { // code-length gas > 0 together with a price whose products overflow
			d.Price = []uint64{two64div20000 + 1, 1 << 63, ^uint64(0), 1 << 59, two64div20000 - 1, 1 << 50}[c.Intn(6)]
		}
		mtx = w.k.InvokeTx(b.ToArray(), d.Price, d.Limit)
	case k < 20: // random bytes
		d.Kind = "random-script"
		code := c.Bytes(1 + c.Intn(24))
		d.Code = hx.Hex(code)
		if d.Limit > 3000000 { // random bytes may loop
			d.Limit = 20000 + uint64(c.Intn(300000))
		}
		mtx = w.k.InvokeTx(code, d.Price, d.Limit)
	}
	if err != nil {
		return nil, nil, err
	}
	mtx.Payer = payer.Address
	if err := ledgerkit.Sign(mtx, w.users[d.Signer]); err != nil {
		return nil, nil, err
	}
	tx, err := mtx.IntoImmutable()
	return tx, d, err
}

// refill: a free transfer from the bookkeeper that gives a user a balance worth testing
func (w *world) refill() (*types.Transaction, *txDesc, error) {
	c := w.c
	to := 1 + c.Intn(len(w.users)-1)
	if c.Intn(3) != 0 { // mostly the poorest
		for i := 1; i < len(w.users); i++ {
			if w.ongOf(i) < w.ongOf(to) {
				to = i
			}
		}
	}
	var amt uint64
	switch c.Intn(9) {
	case 0:
		amt = uint64(c.Intn(20000)) // below any minimum fee
	case 1:
		amt = 20000 * 2500 // exactly the minimum fee at the usual price
	case 2:
		amt = 20000*2500 + uint64(c.Intn(3)) - 1
	case 3:
		amt = uint64(c.Rng.Int63n(1 << 50))
	case 4:
		amt = two64div20000 * 3
	default:
		amt = 100000000 + uint64(c.Rng.Int63n(40000000000))
	}
	tx, err := w.transfer(ledgerkit.OngAddr, 0, w.users[to].Address, amt, 0, 30000)
	return tx, &txDesc{Kind: "refill", Payer: 0, Signer: 0, Limit: 30000, Amount: amt, N: to}, err
}

func minU(a, b uint64) uint64 {
	if a < b {
		return a
	}
	return b
}

func isGov(a common.Address) bool { return a == nutils.GovernanceContractAddress }
