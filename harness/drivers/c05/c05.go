// Package c05: a failed transaction changes nothing except the fee it is charged.
package c05

import "verif/harness/hx"

func init() { hx.Register("C05", Run) }

func Run(c *hx.Ctx) {
	c.CoqModule("Corr.C05")
}
