// Package c05: a failed transaction changes nothing except the fee it is charged.
//
// Real blocks on a solo ledger. For every block the driver
//  1. observes each transaction's pre-state and the outcome of its script (probe.go, through the
//     add-only hook LedgerStoreImp.VerifWalkBlock),
//  2. executes and adds the block with the real ExecuteBlock / AddBlock,
//  3. runs the direct property oracle on what the implementation did (per failed transaction: the
//     only keys that changed are the payer's and the governance contract's ONG records, the amounts
//     match, the amount is not more than the payer had, GasConsumed is that amount, the only event
//     is that transfer; per successful one: exactly the script's writes plus the fee; the block
//     write set holds nothing else),
//  4. emits the block as a correspondence case: Model/Fee.v gets the persisted ONG records, the
//     transactions' parameters and the probed outcomes and must reproduce every notify
//     (state, GasConsumed, number of events, fee event) and the block's write set byte for byte.
package c05

import (
	"bytes"
	"encoding/json"
	"fmt"
	"math/big"
	"os"
	"path/filepath"
	"strings"

	"github.com/ontio/ontology/common"
	"github.com/ontio/ontology/common/config"
	"github.com/ontio/ontology/core/payload"
	"github.com/ontio/ontology/core/store"
	"github.com/ontio/ontology/core/types"
	"github.com/ontio/ontology/smartcontract/event"
	ninit "github.com/ontio/ontology/smartcontract/service/native/init"
	nutils "github.com/ontio/ontology/smartcontract/service/native/utils"
	"github.com/ontio/ontology/smartcontract/service/neovm"

	"verif/harness/hx"
	"verif/harness/ledgerkit"
)

func init() { hx.Register("C05", Run) }

type blockInput struct {
	Seed    int64     `json:"seed"`
	Block   int       `json:"block"`             // index of the generated block (replay: regenerate up to it with the same seed)
	Witness string    `json:"witness"`           // deterministic probe name, or ""
	Price   string    `json:"price,omitempty"`   // witness "gasprice" / "tx": the gas price (decimal)
	Limit   string    `json:"limit,omitempty"`   // witness "tx": gas limit
	Balance string    `json:"balance,omitempty"` // witness "tx": the payer's ONG balance (10^-9 ONG)
	Code    string    `json:"code,omitempty"`    // witness "tx": the script (hex)
	Label   string    `json:"label,omitempty"`
	Txs     []*txDesc `json:"txs"`
	Failed  int       `json:"failed_tx"`
}

func Run(c *hx.Ctx) {
	c.CoqModule("Corr.C05")
	var in blockInput
	replay := c.ReplayInput(&in)
	if replay && in.Witness == "" {
		c.Rng.Seed(in.Seed)
	}
	w, err := newWorld(c)
	if err != nil {
		c.Fail("ledger-setup", "solo chain with funded accounts and the storage contract", nil, err.Error(), nil)
		return
	}
	defer w.k.Close()
	if replay && in.Witness != "" {
		witnesses(w, &in)
		return
	}
	if !replay { // regression probes of repaired findings run first
		for _, raw := range c.CorpusInputs() {
			var ci blockInput
			if json.Unmarshal(raw, &ci) == nil && ci.Witness != "" {
				witnesses(w, &ci)
			}
		}
		w.dirtyProbes()
		w.drainProbes()
	}
	n := c.N(130, 1200)
	if replay {
		n = in.Block + 1
	}
	for b := 0; b < n; b++ {
		only := !replay || b == in.Block
		if !w.oneBlock(b, only) {
			return
		}
	}
	if !replay {
		witnesses(w, &blockInput{Witness: "deploy-destroyed"})
	}
}

// oneBlock generates, observes, executes and checks one block. report=false: run silently (replay prefix).
func (w *world) oneBlock(idx int, report bool) bool {
	c := w.c
	var txs []*types.Transaction
	var descs []*txDesc
	add := func(tx *types.Transaction, d *txDesc, err error) bool {
		if err != nil {
			c.Fail("driver-gen", "transaction could be built", d, err.Error(), nil)
			return false
		}
		txs, descs = append(txs, tx), append(descs, d)
		return true
	}
	if c.Intn(2) == 0 {
		if !add(w.refill()) {
			return false
		}
	}
	k := 1 + c.Intn(4)
	if c.Intn(2) == 0 {
		k = 1
	}
	if c.Intn(5) == 0 { // an uncharged write-then-fail directly followed by a committing transaction
		ptx, pds, err := w.dirtyPair(writerKinds[c.Intn(3)], committerKinds[c.Intn(len(committerKinds))])
		if err != nil {
			c.Fail("driver-gen", "transaction could be built", nil, err.Error(), nil)
			return false
		}
		txs, descs = append(txs, ptx...), append(descs, pds...)
		k = c.Intn(2)
	}
	for i := 0; i < k; i++ {
		if !add(w.genTx()) {
			return false
		}
	}
	return w.runBlock(&blockInput{Seed: c.Seed, Block: idx, Txs: descs}, txs, report)
}

// runBlock observes, executes, adds and checks one block of invoke transactions.
func (w *world) runBlock(in *blockInput, txs []*types.Transaction, report bool) bool {
	c := w.c
	blk, err := w.k.MakeBlock(txs)
	if err != nil {
		c.Fail("driver-gen", "block could be built", in, err.Error(), nil)
		return false
	}
	if os.Getenv("C05_CHILD") == "" { // the parent never runs a wrap suspect before a child has survived it
		for i, tx := range txs {
			old := w.balanceOf(tx.Payer)
			if wrapSuspect(tx, old) {
				in.Failed = i
				if !w.guard(tx, old, in, "generated") {
					return true // reported; the block is dropped
				}
			}
		}
	}
	if os.Getenv("C05_CHILD") != "" { // tell the parent that the timed part starts now
		os.WriteFile(filepath.Join(c.OutDir, "child.ready"), []byte("1"), 0o644)
	}
	obs := make([]*txObs, len(txs))
	wpanic, wmsg := hx.Recover(func() { err = walk(w, blk, obs) })
	if !wpanic && err != nil {
		c.Fail("block-rejected", "a block of signed invoke transactions is executable", in, err.Error(), nil)
		return false
	}
	var res store.ExecuteResult
	panicked, msg := hx.Recover(func() { res, err = w.k.Ledger.ExecuteBlock(blk) })
	c.Eval()
	if panicked {
		// Go run-time panic while executing the block: nothing was added; report and go on
		if report {
			w.reportPanic(in, blk, obs, msg)
		}
		return true
	}
	if wpanic {
		c.Fail("walk-differs", "ExecuteBlock treats a transaction as handleTransaction does after a cache Reset", in, "no panic", wmsg)
		return false
	}
	if err != nil {
		c.Fail("block-rejected", "a block of signed invoke transactions is executable", in, err.Error(), nil)
		return false
	}
	if err := w.k.Ledger.AddBlock(blk, nil, res.MerkleRoot); err != nil {
		c.Fail("block-rejected", "an executed block can be added", in, err.Error(), nil)
		return false
	}
	if !report {
		return true
	}
	real := writeSet(res.WriteSet)
	w.oracle(in, blk, obs, res.Notify, real)
	w.emitCase(in, blk, obs, res.Notify, real)
	return true
}

// ---------- direct property oracle ----------

func sameKV(a, b []kvPair) bool {
	if len(a) != len(b) {
		return false
	}
	for i := range a {
		if !bytes.Equal(a[i].K, b[i].K) || !bytes.Equal(a[i].V, b[i].V) {
			return false
		}
	}
	return true
}

func changedKeys(before, after []kvPair) [][]byte {
	var out [][]byte
	for _, e := range after {
		if v, ok := lookup(before, e.K); !ok || !bytes.Equal(v, e.V) {
			out = append(out, e.K)
		}
	}
	for _, e := range before {
		if _, ok := lookup(after, e.K); !ok {
			out = append(out, e.K)
		}
	}
	return out
}

func feeEvent(n *event.NotifyEventInfo, payer common.Address) (uint64, bool) {
	st, ok := n.States.([]interface{})
	if !ok || n.ContractAddress != nutils.OngContractAddress || len(st) != 4 {
		return 0, false
	}
	if st[0] != "transfer" || st[1] != payer.ToBase58() || st[2] != nutils.GovernanceContractAddress.ToBase58() {
		return 0, false
	}
	v, ok := st[3].(uint64)
	return v, ok
}

func (w *world) oracle(in *blockInput, blk *types.Block, obs []*txObs, notifies []*event.ExecuteNotify, real []kvPair) {
	c := w.c
	if len(notifies) != len(obs) {
		c.Fail("notify-count", "one execution record per transaction", in, len(notifies), len(obs))
		return
	}
	gov := ongKey(nutils.GovernanceContractAddress)
	failedWrites := map[string]int{}
	dirtyBefore := -1 // first failed transaction of the block whose execution had written storage
	for i, tx := range blk.Transactions {
		o, n := obs[i], notifies[i]
		cur := *in // each reported failure keeps its own transaction index
		cur.Failed = i
		in := &cur
		d := in.Txs[i]
		// the real execution record must be the one the transaction gets when it starts from an empty
		// cache on the block state its successful predecessors (and the fees) left
		if n.State != o.Walk.State || n.GasConsumed != o.Walk.GasConsumed || len(n.Notify) != len(o.Walk.Notify) {
			if dirtyBefore >= 0 {
				c.Fail("leak:failed-tx-write-read-by-next", "a transaction does not see what a failed transaction before it wrote", in,
					fmt.Sprintf("record (%d, %d, %d events) after the failed uncharged transaction %d", n.State, n.GasConsumed, len(n.Notify), dirtyBefore),
					fmt.Sprintf("record (%d, %d, %d events) on the block state without it", o.Walk.State, o.Walk.GasConsumed, len(o.Walk.Notify)))
			} else {
				c.Fail("walk-differs", "ExecuteBlock treats a transaction as handleTransaction does after a cache Reset", in,
					fmt.Sprint(n.State, n.GasConsumed, len(n.Notify)), fmt.Sprint(o.Walk.State, o.Walk.GasConsumed, len(o.Walk.Notify)))
			}
		}
		if n.State == event.CONTRACT_STATE_FAIL && o.Probe != nil && len(o.Probe.Cache) > 0 {
			if dirtyBefore < 0 {
				dirtyBefore = i
			}
			if n.GasConsumed == 0 {
				c.Count("failed-uncharged-after-writes")
				if i+1 < len(blk.Transactions) && notifies[i+1].State == event.CONTRACT_STATE_SUCCESS {
					c.Count("failed-uncharged-after-writes:followed-by-committer")
				}
			}
		}
		if tx.TxType != types.InvokeNeo { // Deploy / EIP155 committers: only the block-level clauses apply
			c.Count("kind:" + d.Kind + ":" + d.Code)
			if n.State == event.CONTRACT_STATE_FAIL {
				for _, k := range changedKeys(o.Before, o.After) {
					if !bytes.Equal(k, ongKey(tx.Payer)) && !bytes.Equal(k, gov) {
						c.Fail("leak:failed-tx-write-survived", "a failed transaction changes only the payer's and the governance contract's ONG records", in, hx.Hex(k), d.Kind)
					}
				}
			}
			continue
		}
		pk := ongKey(tx.Payer)
		pb, ok1 := balance(o.PayerRaw)
		gb, ok2 := balance(o.GovRaw)
		pa, ok3 := balance(o.PayerAfter)
		ga, ok4 := balance(o.GovAfter)
		if !(ok1 && ok2 && ok3 && ok4) {
			c.Fail("record-undecodable", "stored ONG records decode", in, nil, nil)
			continue
		}
		fee := new(big.Int).Mul(new(big.Int).SetUint64(n.GasConsumed), scale)
		class := "tx:" + d.Kind
		w.feeRule(in, blk, tx, o, n)
		if d.Kind == "composite" {
			class += ":" + d.Code
			for _, st := range strings.Split(d.Code, ",") {
				c.Count("step:" + st)
			}
			if n.State == event.CONTRACT_STATE_FAIL && o.Probe != nil && len(o.Probe.Cache) > 0 {
				c.Count("composite:failed-after-writes")
			}
		}
		if o.Underflow != 0 {
			c.Fail("gas:available-gas-underflow", "the engine never gets more gas than GasLimit", in, o.Underflow, tx.GasLimit)
		}
		if old, ok := balanceU64(o.PayerRaw); ok && wrapSuspect(tx, old) {
			c.Count("wrap-suspect:executed")
			// a fee product overflows: the handler must refuse the transaction before running it
			if n.State != event.CONTRACT_STATE_FAIL || o.Probe != nil || (n.GasConsumed != old && n.GasConsumed != 0) {
				c.Fail("gas:available-gas-underflow", "a transaction whose fee products overflow is refused with the balance charged", in,
					fmt.Sprint("state ", n.State, " GasConsumed ", n.GasConsumed), fmt.Sprint("state 0 GasConsumed ", old))
			}
		}
		// (0) an execution writes only into the transaction cache: nothing may reach the block
		// overlay before the handler commits (a flush in mid-transaction survives a later failure)
		if o.Probe != nil && len(o.Probe.Flushed) > 0 {
			c.Fail("flush:mid-transaction-commit", "an execution writes storage only through the transaction cache; only the handler commits it", in,
				fmt.Sprintf("%d keys reached the block overlay during the execution, first %s", len(o.Probe.Flushed), hx.Hex(o.Probe.Flushed[0].K)), class)
		}
		if n.State == event.CONTRACT_STATE_FAIL {
			c.Count("outcome:failed")
			if o.Probe != nil {
				for _, e := range o.Probe.Cache {
					failedWrites[string(e.K)] = i
				}
				if len(o.Probe.Cache) > 0 {
					c.Count("failed-after-writes")
				}
				c.Count("failed:" + failKind(o.Probe))
			} else {
				c.Count("failed:not-executed:" + notRun(tx, o.PayerRaw))
			}
			if n.GasConsumed > 0 {
				c.Count("failed-with-fee")
			} else {
				c.Count("failed-without-fee")
			}
			// (1) every storage effect is discarded: only the two ONG records may change
			for _, k := range changedKeys(o.Before, o.After) {
				if !bytes.Equal(k, pk) && !bytes.Equal(k, gov) {
					c.Fail("leak:failed-tx-write-survived", "a failed transaction changes only the payer's and the governance contract's ONG records", in, hx.Hex(k), class)
				}
			}
			// (2) the change is the fee moved from the payer to governance, (3) not more than the payer had
			moved := new(big.Int).Sub(pb, pa)
			if tx.Payer == nutils.GovernanceContractAddress {
				moved = new(big.Int)
			} else if new(big.Int).Sub(ga, gb).Cmp(moved) != 0 {
				c.Fail("fee:not-conserved", "what the payer loses is what governance gains", in, fmt.Sprint(pb, pa, gb, ga), class)
			}
			if moved.Sign() < 0 || moved.Cmp(pb) > 0 {
				c.Fail("fee:exceeds-balance", "the fee never exceeds the payer's balance", in, moved.String(), pb.String())
			}
			// (4) reported gas consumed = fee moved
			if moved.Cmp(fee) != 0 {
				c.Fail("fee:reported-differs", "GasConsumed equals the fee actually moved", in, fee.String(), moved.String())
			}
			// (5) the only event of a failed transaction is the fee transfer
			switch {
			case n.GasConsumed == 0 && len(n.Notify) != 0:
				c.Fail("event:failed-tx-events", "a failed transaction that pays nothing records no event", in, len(n.Notify), 0)
			case n.GasConsumed > 0:
				if len(n.Notify) != 1 {
					c.Fail("event:failed-tx-events", "a failed transaction records exactly the fee transfer", in, len(n.Notify), 1)
				} else if v, ok := feeEvent(n.Notify[0], tx.Payer); !ok || v != n.GasConsumed {
					c.Fail("event:fee-event", "the fee event names payer, governance and the amount", in, fmt.Sprint(n.Notify[0].States), n.GasConsumed)
				}
			}
			if len(o.Probe.cacheOrNil()) > 0 && n.GasConsumed > 0 {
				c.Nontrivial(fmt.Sprintf("%d-%d-%d", c.Seed, in.Block, i))
			}
		} else {
			c.Count("outcome:success")
			if o.Probe == nil {
				c.Fail("success-without-run", "a successful transaction ran its script", in, nil, nil)
				continue
			}
			// the transaction's writes, once, plus the fee
			view := func(k []byte, before []byte) []byte {
				if v, ok := lookup(o.Probe.Cache, k); ok {
					return v
				}
				return before
			}
			for _, k := range changedKeys(o.Before, o.After) {
				if bytes.Equal(k, pk) || bytes.Equal(k, gov) {
					continue
				}
				want, ok := lookup(o.Probe.Cache, k)
				got, _ := lookup(o.After, k)
				if !ok || !bytes.Equal(want, got) {
					c.Fail("commit:success-writes", "a successful transaction commits exactly its script's writes", in, hx.Hex(k), class)
				}
			}
			for _, e := range o.Probe.Cache {
				if got, ok := lookup(o.After, e.K); !bytes.Equal(e.K, pk) && !bytes.Equal(e.K, gov) && (!ok || !bytes.Equal(got, e.V)) {
					c.Fail("commit:success-writes", "a successful transaction commits exactly its script's writes", in, hx.Hex(e.K), class)
				}
			}
			pe, okp := balance(view(pk, o.PayerRaw))
			ge, okg := balance(view(gov, o.GovRaw))
			charged := tx.GasPrice != 0 && !bytes.Equal(tx.Payload.(*payload.InvokeCode).Code, ninit.COMMIT_DPOS_BYTES)
			if okp && okg && tx.Payer != nutils.GovernanceContractAddress {
				want := new(big.Int)
				if charged {
					want = fee
				}
				if new(big.Int).Sub(pe, pa).Cmp(want) != 0 || new(big.Int).Sub(ga, ge).Cmp(want) != 0 {
					c.Fail("fee:success-amount", "a successful transaction pays exactly GasConsumed on top of its own effects", in,
						fmt.Sprint(pe, pa, ge, ga), want.String())
				}
			}
			if charged {
				c.Count("success:charged")
			} else {
				c.Count("success:free")
			}
			if charged && n.GasConsumed > 0 {
				if len(n.Notify) == 0 {
					c.Fail("event:fee-event", "the fee transfer is the last event", in, 0, 1)
				} else if v, ok := feeEvent(n.Notify[len(n.Notify)-1], tx.Payer); !ok || v != n.GasConsumed {
					c.Fail("event:fee-event", "the fee transfer is the last event", in, fmt.Sprint(n.Notify[len(n.Notify)-1].States), n.GasConsumed)
				}
			}
			if len(o.Probe.Cache) > 0 {
				c.Nontrivial(fmt.Sprintf("%d-%d-%d", c.Seed, in.Block, i))
			}
		}
		c.Count("kind:" + d.Kind)
		c.Count(priceClass(tx.GasPrice))
	}
	in.Failed = -1
	// the block's write set is what the walk accumulated, nothing else
	last := obs[len(obs)-1].After
	if !sameKV(real, last) {
		for _, k := range changedKeys(last, real) {
			if i, ok := failedWrites[string(k)]; ok && notifies[i].State == event.CONTRACT_STATE_FAIL {
				in.Failed = i
				c.Fail("leak:failed-tx-write-survived", "the block write set holds no write of a failed transaction", in, hx.Hex(k), nil)
				return
			}
		}
		c.Fail("writeset:differs", "the block write set is the successful transactions' writes and the fees", in, len(real), len(last))
	}
	c.Count(fmt.Sprintf("block-txs:%d", len(obs)))
}

func (o *outcome) cacheOrNil() []kvPair {
	if o == nil {
		return nil
	}
	return o.Cache
}

func failKind(o *outcome) string {
	switch {
	case o.Ok:
		return "after-execution(balance)"
	case strings.Contains(o.Err, "gas insufficient") || strings.Contains(o.Err, "Gas") || strings.Contains(o.Err, "gas"):
		return "out-of-gas"
	case strings.Contains(o.Err, "authentication") || strings.Contains(o.Err, "witness"):
		return "authorization"
	case strings.Contains(o.Err, "insufficient") || strings.Contains(o.Err, "underflow"):
		return "insufficient-balance"
	default:
		return "fault"
	}
}

// notRun names the check that stopped the transaction before its script ran (distribution only)
func notRun(tx *types.Transaction, payerRaw []byte) string {
	old, _ := balanceU64(payerRaw)
	clg := uint64(len(tx.Payload.(*payload.InvokeCode).Code)/neovm.PER_UNIT_CODE_LEN) * neovm.UINT_INVOKE_CODE_LEN_GAS
	switch {
	case old < neovm.MIN_TRANSACTION_GAS*tx.GasPrice:
		return "balance<minGas"
	case old < clg*tx.GasPrice:
		return "balance<codeLenGas"
	case tx.GasLimit < clg:
		return "gasLimit<codeLenGas"
	}
	return "?"
}

func priceClass(p uint64) string {
	switch {
	case p == 0:
		return "price:0"
	case p < 10000:
		return "price:1..9999"
	case p <= two64div20000:
		return "price:below-wrap"
	case p*neovm.MIN_TRANSACTION_GAS == 0:
		return "price:multiple-of-2^59(unit 0)"
	default:
		return "price:minGas-wraps"
	}
}

// ---------- correspondence case ----------

func coqKV(l []kvPair) string {
	var it []string
	for _, e := range l {
		it = append(it, "("+hx.CoqBytes(e.K)+", "+hx.CoqBytes(e.V)+")")
	}
	return hx.CoqList(it)
}

func (w *world) emitCase(in *blockInput, blk *types.Block, obs []*txObs, notifies []*event.ExecuteNotify, real []kvPair) {
	c := w.c
	for _, tx := range blk.Transactions {
		if tx.TxType != types.InvokeNeo { // the model's block loop covers invoke transactions
			c.Count("block:not-a-model-case(deploy/eip155)")
			return
		}
	}
	// the persisted ONG records the model may read, as a store (sorted, live entries only)
	var st []kvPair
	for k, v := range w.stored {
		if len(v) > 0 {
			st = append(st, kvPair{[]byte(k), v})
		}
	}
	sortKV(st)
	var txs, rs []string
	for i, tx := range blk.Transactions {
		code := tx.Payload.(*payload.InvokeCode).Code
		signed := false
		for _, a := range tx.GetSignatureAddresses() {
			signed = signed || a == tx.Payer
		}
		sys := bytes.Equal(code, ninit.COMMIT_DPOS_BYTES) || blk.Header.Height == 0
		pr := "None"
		if p := obs[i].Probe; p != nil {
			pr = fmt.Sprintf("(Some (%d, mkOut %s %s %s %d %d))", p.Gas, coqKV(p.Cache), hx.CoqBool(p.Ok), hx.CoqBool(p.Internal), p.Left, p.Events)
		}
		txs = append(txs, fmt.Sprintf("(mkTx %s %s %d %d %d %s, %s)", hx.CoqBytes(tx.Payer[:]), hx.CoqBool(signed), tx.GasPrice, tx.GasLimit, len(code), hx.CoqBool(sys), pr))
		n := notifies[i]
		var fe []string
		for _, e := range n.Notify {
			if v, ok := feeEvent(e, tx.Payer); ok && n.GasConsumed == v && e == n.Notify[len(n.Notify)-1] {
				fe = append(fe, hx.CoqN(v))
			}
		}
		rs = append(rs, fmt.Sprintf("(%d, %d, %s, %d)", n.State, n.GasConsumed, hx.CoqList(fe), len(n.Notify)))
	}
	gasTable := "None"
	if v, ok := neovm.GAS_TABLE.Load(neovm.UINT_INVOKE_CODE_LEN_NAME); ok {
		gasTable = fmt.Sprintf("(Some %d)", v.(uint64))
	}
	term := fmt.Sprintf("CBlock %d %d %s %s\n  %s\n  %s\n  %s", config.DefConfig.P2PNode.NetworkId, blk.Header.Height, gasTable,
		coqKV(st), hx.CoqList(txs), hx.CoqList(rs), coqKV(real))
	c.Case(term, in)
	if len(obs) > 1 {
		c.Sample(in)
	}
}

func sortKV(l []kvPair) {
	for i := 1; i < len(l); i++ {
		for j := i; j > 0 && bytes.Compare(l[j].K, l[j-1].K) < 0; j-- {
			l[j], l[j-1] = l[j-1], l[j]
		}
	}
}

var _ = ledgerkit.OngAddr

func (w *world) reportPanic(in *blockInput, blk *types.Block, obs []*txObs, msg string) {
	c := w.c
	class := "panic:block-execution"
	for i := range blk.Transactions {
		if i < len(obs) && obs[i] != nil && obs[i].Walk == nil {
			in.Failed = i // the transaction the walk was handling
		}
	}
	c.Count("block:" + class)
	if len(msg) > 300 {
		msg = msg[:300]
	}
	c.Fail(class, "a block of signed invoke transactions can be executed: every transaction fails or succeeds and is charged its fee",
		in, "ExecuteBlock panics: "+msg, "an execution record for every transaction")
	if len(obs) > 0 && obs[0] != nil {
		w.emitPanicCase(in, blk, obs, true)
	}
}

// emitPanicCase: the model must predict the panic (or its absence) for the block; only the
// transactions the walk reached are given (the last one is the one that panicked).
func (w *world) emitPanicCase(in *blockInput, blk *types.Block, obs []*txObs, panicked bool) {
	var st []kvPair
	for k, v := range w.stored {
		if len(v) > 0 {
			st = append(st, kvPair{[]byte(k), v})
		}
	}
	sortKV(st)
	var txs []string
	for i, tx := range blk.Transactions {
		if i >= len(obs) || obs[i] == nil {
			break
		}
		code := tx.Payload.(*payload.InvokeCode).Code
		pr := "None"
		if p := obs[i].Probe; p != nil {
			pr = fmt.Sprintf("(Some (%d, mkOut %s %s %s %d %d))", p.Gas, coqKV(p.Cache), hx.CoqBool(p.Ok), hx.CoqBool(p.Internal), p.Left, p.Events)
		}
		signed := false
		for _, a := range tx.GetSignatureAddresses() {
			signed = signed || a == tx.Payer
		}
		txs = append(txs, fmt.Sprintf("(mkTx %s %s %d %d %d false, %s)", hx.CoqBytes(tx.Payer[:]), hx.CoqBool(signed), tx.GasPrice, tx.GasLimit, len(code), pr))
	}
	gasTable := "None"
	if v, ok := neovm.GAS_TABLE.Load(neovm.UINT_INVOKE_CODE_LEN_NAME); ok {
		gasTable = fmt.Sprintf("(Some %d)", v.(uint64))
	}
	w.c.Case(fmt.Sprintf("CPanic %d %d %s %s\n  %s %s", config.DefConfig.P2PNode.NetworkId, blk.Header.Height, gasTable, coqKV(st), hx.CoqList(txs), hx.CoqBool(panicked)), in)
}

// feeRule: what a charged transaction whose script ran owes, decided from the property and the
// observed execution outcome alone (exact arithmetic, not the model): with cost = max(gas used,
// 20000) * GasPrice and the payer's balance AFTER the execution,
//   - script ok and balance after >= cost : SUCCESS, pays min(cost rounded up to the fee unit, balance after);
//   - otherwise                          : FAIL, pays min(rounded cost, balance BEFORE) - the
//     transaction's own effects are dropped, so the fee comes out of the pre-execution balance.
func (w *world) feeRule(in *blockInput, blk *types.Block, tx *types.Transaction, o *txObs, n *event.ExecuteNotify) {
	c := w.c
	p := o.Probe
	if p == nil || p.Internal || tx.GasPrice == 0 || bytes.Equal(tx.Payload.(*payload.InvokeCode).Code, ninit.COMMIT_DPOS_BYTES) {
		return
	}
	old, ok1 := balanceU64(o.PayerRaw)
	after := o.PayerRaw
	if v, ok := lookup(p.Cache, ongKey(tx.Payer)); ok {
		after = v
	}
	newBal, ok2 := balanceU64(after)
	if !ok1 || !ok2 {
		return
	}
	cost, rounded := owed(tx, p, blk.Header.Height)
	canPay := p.Ok && new(big.Int).SetUint64(newBal).Cmp(cost) >= 0
	signed := false
	for _, a := range tx.GetSignatureAddresses() {
		signed = signed || a == tx.Payer
	}
	got := new(big.Int).SetUint64(n.GasConsumed)
	if n.State == event.CONTRACT_STATE_SUCCESS {
		if !canPay || got.Cmp(cost) < 0 {
			c.Count("fee-rule:violated")
			c.Fail("fee:success-underpaid", "a transaction whose payer cannot pay max(gas used, 20000)*GasPrice after its own execution fails: its effects are dropped and the fee is taken from the pre-execution balance", in,
				fmt.Sprintf("State 1, GasConsumed %d, payer balance after execution %d (before %d)", n.GasConsumed, newBal, old),
				fmt.Sprintf("State 0, GasConsumed %s (cost %s)", minBig(rounded, old), cost))
			return
		}
		if want := minBig(rounded, newBal); got.Cmp(want) != 0 {
			c.Fail("fee:amount", "a successful transaction pays its gas cost rounded up to the fee unit, at most what the payer has", in, got.String(), want.String())
		}
		c.Count("fee-rule:success-paid")
		return
	}
	if canPay {
		if signed { // the charge on the transaction cache can only fail for an unsigned payer
			c.Fail("fee:amount", "a transaction that ran successfully and can pay its cost succeeds", in, fmt.Sprint("State 0, GasConsumed ", n.GasConsumed), "State 1")
		}
		return
	}
	if p.Ok {
		c.Count("fee-rule:failed-cannot-pay-after-execution")
	}
	want := minBig(rounded, old)
	ongSupply := new(big.Int).SetUint64(1000000000000000000)
	if signed && want.Cmp(ongSupply) <= 0 && got.Cmp(want) != 0 {
		c.Fail("fee:amount", "a failed transaction pays its gas cost rounded up to the fee unit, at most the pre-execution balance", in, got.String(), want.String())
	}
}
