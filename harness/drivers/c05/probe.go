package c05

// Observation of one block: the pre-state of every transaction (ONG balances, block write set),
// the outcome of its script when run the way HandleInvokeTransaction runs it (on a scratch cache
// stacked on the block overlay, so nothing leaks), and the block overlay after the transaction.

import (
	"bytes"
	"sort"

	"github.com/ontio/ontology/common"
	"github.com/ontio/ontology/common/config"
	"github.com/ontio/ontology/core/payload"
	scom "github.com/ontio/ontology/core/store/common"
	"github.com/ontio/ontology/core/store/overlaydb"
	"github.com/ontio/ontology/core/types"
	"github.com/ontio/ontology/smartcontract"
	"github.com/ontio/ontology/smartcontract/event"
	ninit "github.com/ontio/ontology/smartcontract/service/native/init"
	nutils "github.com/ontio/ontology/smartcontract/service/native/utils"
	"github.com/ontio/ontology/smartcontract/service/neovm"
	"github.com/ontio/ontology/smartcontract/storage"
)

// roStore presents a block overlay as the persistent store of a scratch overlay (reads only).
type roStore struct{ ov *overlaydb.OverlayDB }

func (r *roStore) Put(key []byte, value []byte) error { panic("c05: write to read-only store") }
func (r *roStore) Get(key []byte) ([]byte, error) {
	v, err := r.ov.Get(key)
	if err != nil {
		return nil, err
	}
	if v == nil {
		return nil, scom.ErrNotFound
	}
	return v, nil
}
func (r *roStore) Has(key []byte) (bool, error) {
	v, err := r.ov.Get(key)
	return v != nil, err
}
func (r *roStore) Delete(key []byte) error                      { panic("c05: write to read-only store") }
func (r *roStore) NewBatch()                                    {}
func (r *roStore) BatchPut(key []byte, value []byte)            { panic("c05: write to read-only store") }
func (r *roStore) BatchDelete(key []byte)                       { panic("c05: write to read-only store") }
func (r *roStore) BatchCommit() error                           { return nil }
func (r *roStore) Close() error                                 { return nil }
func (r *roStore) NewIterator(prefix []byte) scom.StoreIterator { return r.ov.NewIterator(prefix) }

type kvPair struct {
	K []byte `json:"k"`
	V []byte `json:"v"` // empty = deleted
}

func writeSet(m *overlaydb.MemDB) []kvPair {
	var out []kvPair
	m.ForEach(func(key, val []byte) {
		out = append(out, kvPair{append([]byte{}, key...), append([]byte{}, val...)})
	})
	sort.SliceStable(out, func(i, j int) bool { return bytes.Compare(out[i].K, out[j].K) < 0 })
	return out
}

func lookup(ws []kvPair, k []byte) ([]byte, bool) {
	for _, e := range ws {
		if bytes.Equal(e.K, k) {
			return e.V, true
		}
	}
	return nil, false
}

func ongKey(a common.Address) []byte {
	k := []byte{byte(scom.ST_STORAGE)}
	k = append(k, nutils.OngContractAddress[:]...)
	return append(k, a[:]...)
}

// outcome of engine.Invoke() with `Gas` handed to the engine
type outcome struct {
	Gas      uint64   `json:"gas"`
	Cache    []kvPair `json:"cache"`
	Ok       bool     `json:"ok"`
	Internal bool     `json:"internal"`
	Left     uint64   `json:"left"`
	Events   int      `json:"events"`
	Err      string   `json:"err,omitempty"`
	Flushed  []kvPair `json:"flushed,omitempty"` // what reached the layer BELOW the transaction cache during the execution
}

type txObs struct {
	PayerRaw, GovRaw     []byte // stored ONG balance records before the transaction (block view)
	PayerAfter, GovAfter []byte
	Before, After        []kvPair // block write set before / after
	Probe                *outcome
	Underflow            uint64 // planned engine gas above GasLimit: no probe was run
	Walk                 *event.ExecuteNotify
}

// plan is the harness's own reading of the checks HandleInvokeTransaction makes before it runs the
// script (as of /repo 667fe5ca: both fee products overflow-checked): does the script run, and with
// how much gas. Only used to choose the gas of the probe; the model recomputes it from the
// generated formulas and refuses a probe made with another gas.
func plan(tx *types.Transaction, height uint32, old uint64, codeGas uint64) (runs bool, gas uint64) {
	code := tx.Payload.(*payload.InvokeCode).Code
	sys := bytes.Equal(code, ninit.COMMIT_DPOS_BYTES) || height == 0
	if sys || tx.GasPrice == 0 {
		return true, tx.GasLimit
	}
	minGas, ovf := common.SafeMul(neovm.MIN_TRANSACTION_GAS, tx.GasPrice)
	if ovf || old < minGas {
		return false, 0
	}
	clg := uint64(len(code)/neovm.PER_UNIT_CODE_LEN) * codeGas
	clGas, ovf := common.SafeMul(clg, tx.GasPrice)
	if ovf || old < clGas || tx.GasLimit < clg {
		return false, 0
	}
	avail := tx.GasLimit
	if m := old / tx.GasPrice; avail > m {
		avail = m
	}
	return true, avail - clg
}

// wrappedGas is the available gas computed with plain wrapping uint64 products (what the handler
// did before 667fe5ca). A value above GasLimit can only come from a wrap: availableGasLimit -
// codeLenGasLimit underflowed. Such transactions are "wrap suspects": the real handler is first
// run on them in a child process with a time limit (an endless loop with ~2^64 gas never returns).
func wrappedGas(tx *types.Transaction, old uint64, codeGas uint64) (runs bool, gas uint64) {
	code := tx.Payload.(*payload.InvokeCode).Code
	if tx.GasPrice == 0 || bytes.Equal(code, ninit.COMMIT_DPOS_BYTES) {
		return true, tx.GasLimit
	}
	clg := uint64(len(code)/neovm.PER_UNIT_CODE_LEN) * codeGas
	if old < neovm.MIN_TRANSACTION_GAS*tx.GasPrice || old < clg*tx.GasPrice || tx.GasLimit < clg {
		return false, 0
	}
	avail := tx.GasLimit
	if m := old / tx.GasPrice; avail > m {
		avail = m
	}
	return true, avail - clg
}

func wrapSuspect(tx *types.Transaction, old uint64) bool {
	if tx.TxType != types.InvokeNeo {
		return false
	}
	runs, gas := wrappedGas(tx, old, neovm.UINT_INVOKE_CODE_LEN_GAS)
	return runs && gas > tx.GasLimit
}

func probe(w *world, block *types.Block, tx *types.Transaction, ov *overlaydb.OverlayDB, gasTable map[string]uint64, gas uint64) *outcome {
	pov := overlaydb.NewOverlayDB(&roStore{ov})
	pc := storage.NewCacheDB(pov)
	sc := smartcontract.SmartContract{
		Config:  &smartcontract.Config{Time: block.Header.Timestamp, Height: block.Header.Height, Tx: tx, BlockHash: block.Hash()},
		CacheDB: pc, Store: w.k.Store(), GasTable: gasTable, Gas: gas,
		WasmExecStep: config.DEFAULT_WASM_MAX_STEPCOUNT, PreExec: false,
	}
	engine, _ := sc.NewExecuteEngine(tx.Payload.(*payload.InvokeCode).Code, tx.TxType)
	_, err := engine.Invoke()
	o := &outcome{Gas: gas, Ok: err == nil, Internal: sc.IsInternalErr(), Left: sc.Gas, Events: len(sc.Notifications)}
	if err != nil {
		o.Err = err.Error()
		if len(o.Err) > 120 {
			o.Err = o.Err[:120]
		}
	}
	o.Flushed = writeSet(pov.GetWriteSet()) // must be empty: the handler alone commits the cache
	pc.Commit()
	o.Cache = writeSet(pov.GetWriteSet())
	return o
}

// walk observes every transaction of the block (nothing is saved); obs has one slot per
// transaction and keeps what was observed if the walk panics.
func walk(w *world, block *types.Block, obs []*txObs) error {
	gov := ongKey(nutils.GovernanceContractAddress)
	get := func(ov *overlaydb.OverlayDB, k []byte) []byte {
		v, _ := ov.Get(k)
		return append([]byte{}, v...)
	}
	err := w.k.Store().VerifWalkBlock(block,
		func(i int, tx *types.Transaction, ov *overlaydb.OverlayDB, gasTable map[string]uint64) {
			o := &txObs{PayerRaw: get(ov, ongKey(tx.Payer)), GovRaw: get(ov, gov), Before: writeSet(ov.GetWriteSet())}
			obs[i] = o
			if i == 0 { // the overlay is still empty: these are the persisted records
				w.stored = map[string][]byte{string(gov): o.GovRaw}
				for _, t := range block.Transactions {
					w.stored[string(ongKey(t.Payer))] = get(ov, ongKey(t.Payer))
					if dc, ok := t.Payload.(*payload.DeployCode); ok {
						a := dc.Address()
						for _, p := range []scom.DataEntryPrefix{scom.ST_CONTRACT, scom.ST_DESTROYED} {
							k := append([]byte{byte(p)}, a[:]...)
							w.stored[string(k)] = get(ov, k)
						}
					}
				}
			}
			if tx.TxType != types.InvokeNeo {
				return
			}
			old, ok := balanceU64(o.PayerRaw)
			if !ok {
				return
			}
			if runs, gas := plan(tx, block.Header.Height, old, gasTable[neovm.UINT_INVOKE_CODE_LEN_NAME]); runs {
				if gas > tx.GasLimit { // cannot happen with exact products (Props/C05.v c05_engine_gas_within_limit)
					o.Underflow = gas
					return
				}
				o.Probe = probe(w, block, tx, ov, gasTable, gas)
			}
		},
		func(i int, tx *types.Transaction, ov *overlaydb.OverlayDB, notify *event.ExecuteNotify) {
			obs[i].After = writeSet(ov.GetWriteSet())
			obs[i].PayerAfter, obs[i].GovAfter = get(ov, ongKey(tx.Payer)), get(ov, gov)
			obs[i].Walk = notify
		})
	return err
}
