package c05

// The dirty-cache family. A failed transaction that is NOT charged (gas price 0, or a system
// script) leaves HandleInvokeTransaction without committing or resetting anything: the transaction
// cache still holds every write of the failed execution. Only the Reset at the top of executeBlock's
// loop keeps the next transaction of the block from reading those writes and - if it commits -
// from publishing them. Deterministic probe blocks [uncharged write-then-fail ; committing
// transaction] for every writer kind x committer kind run on every check, and the random blocks get
// a share of such pairs. The oracle is the usual one on the REAL block: the write set holds nothing
// of a failed transaction, and every execution record is the one the transaction gets on the
// pre-block state plus its successful predecessors.

import (
	"bytes"
	"math/big"

	ethcommon "github.com/ethereum/go-ethereum/common"
	ethtypes "github.com/ethereum/go-ethereum/core/types"
	ethcrypto "github.com/ethereum/go-ethereum/crypto"
	"github.com/ontio/ontology/common/config"
	"github.com/ontio/ontology/core/payload"
	"github.com/ontio/ontology/core/types"
	cutils "github.com/ontio/ontology/core/utils"
	"github.com/ontio/ontology/smartcontract/service/native/ont"
	vm "github.com/ontio/ontology/vm/neovm"

	"verif/harness/ledgerkit"
)

var writerKinds = []string{"ong-transfer+THROW", "storage-put+THROW", "storage-put+out-of-gas", "contract-create+THROW"}
var committerKinds = []string{"invoke", "deploy", "eip155"}

func (w *world) signed(mtx *types.MutableTransaction, by int) (*types.Transaction, error) {
	mtx.Payer = w.users[by].Address
	if err := ledgerkit.Sign(mtx, w.users[by]); err != nil {
		return nil, err
	}
	return mtx.IntoImmutable()
}

// uncharged transaction (gas price 0) that writes storage and then fails
func (w *world) dirtyWriter(kind string, by int) (*types.Transaction, *txDesc, error) {
	c := w.c
	d := &txDesc{Kind: "dirty-writer", Payer: by, Signer: by, Price: 0, Limit: 60000, Code: kind}
	var script []byte
	b := vm.NewParamsBuilder(new(bytes.Buffer))
	switch kind {
	case "ong-transfer+THROW":
		to := w.users[1+(by%(len(w.users)-1))].Address
		script = append(native(ledgerkit.OngAddr, "transfer", []*ont.TransferState{{From: w.users[by].Address, To: to, Value: 1 + uint64(c.Intn(5000))}}), byte(vm.THROW))
	case "storage-put+THROW":
		b.EmitPushBool(false) // THROWIFNOT false
		b.EmitPushByteArray(c.Bytes(1 + c.Intn(30)))
		b.EmitPushByteArray([]byte{byte('d'), byte(c.Intn(4))})
		b.EmitPushCall(w.contract[:])
		script = b.ToArray()
	case "storage-put+out-of-gas":
		b.EmitPushBool(true)
		b.EmitPushByteArray(c.Bytes(1 + c.Intn(30)))
		b.EmitPushByteArray([]byte{byte('g'), byte(c.Intn(4))})
		b.EmitPushCall(w.contract[:])
		script = append(b.ToArray(), byte(vm.JMP), 0, 0)
		d.Limit = 30000 + uint64(c.Intn(20000))
	default: // contract-create+THROW
		deployParams(b, append([]byte{byte(vm.PUSH6), byte(vm.DROP)}, c.Bytes(6)...))
		syscall(b, "Ontology.Contract.Create")
		b.Emit(vm.DROP)
		script = append(b.ToArray(), byte(vm.THROW))
		d.Limit = 20500000
	}
	tx, err := w.signed(w.k.InvokeTx(script, 0, d.Limit), by)
	return tx, d, err
}

// a transaction that succeeds and commits the transaction cache
func (w *world) committer(kind string, by int) (*types.Transaction, *txDesc, error) {
	c := w.c
	d := &txDesc{Kind: "committer", Payer: by, Signer: by, Code: kind}
	switch kind {
	case "invoke": // an ONG transfer of 1 unit, free
		d.Limit = 30000
		tx, err := w.transfer(ledgerkit.OngAddr, by, w.users[0].Address, 1, 0, 30000)
		return tx, d, err
	case "deploy": // a free Deploy transaction of a new contract
		code := append([]byte{byte(vm.PUSH7), byte(vm.DROP)}, c.Bytes(8)...)
		mtx, err := cutils.NewDeployTransaction(code, "c05c", "1", "v", "v@v", "committer", payload.NEOVM_TYPE)
		if err != nil {
			return nil, nil, err
		}
		mtx.GasLimit, mtx.Nonce = 30000000, uint32(c.Intn(1<<30))
		d.Limit = mtx.GasLimit
		tx, err := w.signed(mtx, by)
		return tx, d, err
	default: // EIP155: a value-0, gas-price-0 call of an address without code from a fresh key
		key, err := ethcrypto.GenerateKey()
		if err != nil {
			return nil, nil, err
		}
		var to ethcommon.Address
		copy(to[:], c.Bytes(20))
		etx := ethtypes.NewTransaction(0, to, big.NewInt(0), 21000, big.NewInt(0), nil)
		stx, err := ethtypes.SignTx(etx, ethtypes.NewEIP155Signer(big.NewInt(int64(config.DefConfig.P2PNode.EVMChainId))), key)
		if err != nil {
			return nil, nil, err
		}
		d.Limit = 21000
		tx, err := types.TransactionFromEIP155(stx)
		return tx, d, err
	}
}

// dirtyPair builds [writer ; committer].
func (w *world) dirtyPair(wk, ck string) ([]*types.Transaction, []*txDesc, error) {
	t1, d1, err := w.dirtyWriter(wk, 1)
	if err != nil {
		return nil, nil, err
	}
	t2, d2, err := w.committer(ck, 2)
	if err != nil {
		return nil, nil, err
	}
	return []*types.Transaction{t1, t2}, []*txDesc{d1, d2}, nil
}

// dirtyProbes: every writer kind x committer kind, and one pair whose second transaction can only
// succeed if it READS the failed transaction's write.
func (w *world) dirtyProbes() {
	c := w.c
	for _, wk := range writerKinds {
		for _, ck := range committerKinds {
			txs, ds, err := w.dirtyPair(wk, ck)
			in := &blockInput{Seed: c.Seed, Witness: "dirty-cache", Label: wk + ";" + ck, Txs: ds}
			if err != nil {
				c.Fail("driver-gen", "dirty-cache probe could be built", in, err.Error(), nil)
				continue
			}
			c.Count("witness:dirty-cache")
			w.runBlock(in, txs, true)
		}
	}
	// stale read: users[1] sends 5000 to users[5] and fails; users[5] then spends more than it has
	have := w.ongOf(5)
	t1, err1 := w.signed(w.k.InvokeTx(append(native(ledgerkit.OngAddr, "transfer",
		[]*ont.TransferState{{From: w.users[1].Address, To: w.users[5].Address, Value: 5000}}), byte(vm.THROW)), 0, 60000), 1)
	t2, err2 := w.transfer(ledgerkit.OngAddr, 5, w.users[0].Address, have+3000, 0, 30000)
	in := &blockInput{Seed: c.Seed, Witness: "dirty-cache", Label: "stale-read", Txs: []*txDesc{
		{Kind: "dirty-writer", Payer: 1, Signer: 1, Limit: 60000, Code: "ong-transfer+THROW"},
		{Kind: "stale-reader", Payer: 5, Signer: 5, Limit: 30000, Amount: have + 3000}}}
	if err1 != nil || err2 != nil {
		c.Fail("driver-gen", "dirty-cache probe could be built", in, nil, nil)
		return
	}
	c.Count("witness:dirty-cache")
	w.runBlock(in, []*types.Transaction{t1, t2}, true)
}
