package c05

// Translator part of C05.
//
// Gen/FeeConsts.v  : constants obtained by linking the real packages (gas constants, the gas-table
//                    defaults, the per-network gas-round tune heights, native contract addresses,
//                    ONG supply, storage prefix, notify states).
// Gen/FeeFormulas.v: every uint64 expression and comparison of the fee logic in
//                    core/store/ledgerstore/tx_handler.go (HandleInvokeTransaction,
//                    HandleDeployTransaction, tuneGasFeeByHeight, calcGasByCodeLen), read from
//                    the current source with go/ast and printed as Gallina over N with the
//                    uint64 wrap explicit at every operation (Lib/U64.v). Model/Fee.v is built
//                    on these definitions, so a change of a formula changes the model and the
//                    theorems are re-checked against it.
//
// The translator fails closed: an expression outside the fragment, or a locator that no longer
// finds its site, produces `translator_broken_<name>` instead of the definition.

import (
	"bytes"
	"fmt"
	"go/ast"
	"go/parser"
	"go/printer"
	"go/token"
	"os"
	"path/filepath"
	"sort"
	"strings"

	"github.com/ontio/ontology/common"
	"github.com/ontio/ontology/common/config"
	"github.com/ontio/ontology/common/constants"
	"github.com/ontio/ontology/core/states"
	scom "github.com/ontio/ontology/core/store/common"
	"github.com/ontio/ontology/smartcontract/event"
	nutils "github.com/ontio/ontology/smartcontract/service/native/utils"
	"github.com/ontio/ontology/smartcontract/service/neovm"

	"verif/harness/gen"
	"verif/harness/hx"
)

const txHandler = "core/store/ledgerstore/tx_handler.go"

type site struct {
	Name  string
	Func  string
	Loc   string            // assign:<var>[#k] | callarg:<fn>:<idx>[#k] | cond:<printed condition> | field:<key> | return:<idx>
	Subst map[string]string // printed Go sub-expression -> Coq variable
	Vars  []string
	Bool  bool
	BVars []string // bool parameters (printed before Vars)
	File  string   // source file (default tx_handler.go)
}

var inv = map[string]string{
	"tx.GasPrice": "price", "tx.GasLimit": "limit", "oldBalance": "old", "newBalance": "new",
	"minGas": "minGas", "codeLenGasLimit": "clg", "availableGasLimit": "avail", "maxAvaGasLimit": "maxAva",
	"sc.Gas": "left", "costGasLimit": "cgl", "costGas": "costGas",
}

var sites = []site{
	// HandleInvokeTransaction
	// common.SafeMul itself (its two return statements and the zero test)
	{Name: "safemul_zero", File: "common/safeMath.go", Func: "SafeMul", Loc: "cond:x == 0 || y == 0", Vars: []string{"x", "y"}, Bool: true,
		Subst: map[string]string{"x": "x", "y": "y"}},
	{Name: "safemul_zero_val", File: "common/safeMath.go", Func: "SafeMul", Loc: "return:0#0", Vars: nil, Subst: map[string]string{}},
	{Name: "safemul_zero_ovf", File: "common/safeMath.go", Func: "SafeMul", Loc: "return:1#0", Vars: nil, Bool: true, Subst: map[string]string{}},
	{Name: "safemul_val", File: "common/safeMath.go", Func: "SafeMul", Loc: "return:0#1", Vars: []string{"x", "y"},
		Subst: map[string]string{"x": "x", "y": "y"}},
	{Name: "safemul_ovf", File: "common/safeMath.go", Func: "SafeMul", Loc: "return:1#1", Vars: []string{"x", "y"}, Bool: true,
		Subst: map[string]string{"x": "x", "y": "y"}},
	// minGas, overflow = common.SafeMul(neovm.MIN_TRANSACTION_GAS, tx.GasPrice)
	{Name: "fee_min_a", Func: "HandleInvokeTransaction", Loc: "callarg:common.SafeMul:0#0", Vars: []string{"price"}},
	{Name: "fee_min_b", Func: "HandleInvokeTransaction", Loc: "callarg:common.SafeMul:1#0", Vars: []string{"price"}},
	{Name: "fee_lt_min", Func: "HandleInvokeTransaction", Loc: "cond:overflow || oldBalance < minGas", BVars: []string{"ovf"}, Vars: []string{"old", "minGas"}, Bool: true,
		Subst: map[string]string{"overflow": "ovf", "oldBalance": "old", "minGas": "minGas"}},
	// codeLenGas, overflow := common.SafeMul(codeLenGasLimit, tx.GasPrice)
	{Name: "fee_code_a", Func: "HandleInvokeTransaction", Loc: "callarg:common.SafeMul:0#1", Vars: []string{"clg", "price"}},
	{Name: "fee_code_b", Func: "HandleInvokeTransaction", Loc: "callarg:common.SafeMul:1#1", Vars: []string{"clg", "price"}},
	{Name: "fee_lt_code", Func: "HandleInvokeTransaction", Loc: "cond:overflow || oldBalance < codeLenGas", BVars: []string{"ovf"}, Vars: []string{"old", "codeLenGas"}, Bool: true,
		Subst: map[string]string{"overflow": "ovf", "oldBalance": "old", "codeLenGas": "codeLenGas"}},
	{Name: "fee_lt_limit", Func: "HandleInvokeTransaction", Loc: "cond:tx.GasLimit < codeLenGasLimit", Vars: []string{"limit", "clg"}, Bool: true},
	{Name: "fee_charge_nobal_min", Func: "HandleInvokeTransaction", Loc: "callarg:costInvalidGas:1#0", Vars: []string{"old"}},
	{Name: "fee_charge_nobal_code", Func: "HandleInvokeTransaction", Loc: "callarg:costInvalidGas:1#1", Vars: []string{"old"}},
	{Name: "fee_charge_limit", Func: "HandleInvokeTransaction", Loc: "callarg:costInvalidGas:1#2", Vars: []string{"limit", "price"}},
	{Name: "fee_max_ava", Func: "HandleInvokeTransaction", Loc: "assign:maxAvaGasLimit", Vars: []string{"old", "price"}},
	{Name: "fee_ava_gt", Func: "HandleInvokeTransaction", Loc: "cond:availableGasLimit > maxAvaGasLimit", Vars: []string{"avail", "maxAva"}, Bool: true},
	{Name: "fee_exec_gas", Func: "HandleInvokeTransaction", Loc: "field:Gas", Vars: []string{"avail", "clg"}},
	{Name: "fee_cost_limit", Func: "HandleInvokeTransaction", Loc: "assign:costGasLimit#0", Vars: []string{"avail", "left"}},
	{Name: "fee_cost_lt_min", Func: "HandleInvokeTransaction", Loc: "cond:costGasLimit < neovm.MIN_TRANSACTION_GAS", Vars: []string{"cgl"}, Bool: true},
	{Name: "fee_cost_floor", Func: "HandleInvokeTransaction", Loc: "assign:costGasLimit#1", Vars: nil},
	{Name: "fee_cost_gas", Func: "HandleInvokeTransaction", Loc: "assign:costGas#0", Vars: []string{"cgl", "price"}},
	{Name: "fee_fail_gas", Func: "HandleInvokeTransaction", Loc: "callarg:tuneGasFeeByHeight:1#0", Vars: []string{"costGas"}},
	{Name: "fee_fail_round", Func: "HandleInvokeTransaction", Loc: "callarg:tuneGasFeeByHeight:2#0", Vars: []string{"price"}},
	{Name: "fee_fail_cap", Func: "HandleInvokeTransaction", Loc: "callarg:tuneGasFeeByHeight:3#0", Vars: []string{"old", "new"}},
	{Name: "fee_lt_new", Func: "HandleInvokeTransaction", Loc: "cond:newBalance < costGas", Vars: []string{"new", "costGas"}, Bool: true},
	{Name: "fee_insuf_gas", Func: "HandleInvokeTransaction", Loc: "callarg:tuneGasFeeByHeight:1#1", Vars: []string{"costGas"}},
	{Name: "fee_insuf_round", Func: "HandleInvokeTransaction", Loc: "callarg:tuneGasFeeByHeight:2#1", Vars: []string{"price"}},
	{Name: "fee_insuf_cap", Func: "HandleInvokeTransaction", Loc: "callarg:tuneGasFeeByHeight:3#1", Vars: []string{"old", "new"}},
	{Name: "fee_ok_gas", Func: "HandleInvokeTransaction", Loc: "callarg:tuneGasFeeByHeight:1#2", Vars: []string{"costGas"}},
	{Name: "fee_ok_round", Func: "HandleInvokeTransaction", Loc: "callarg:tuneGasFeeByHeight:2#2", Vars: []string{"price"}},
	{Name: "fee_ok_cap", Func: "HandleInvokeTransaction", Loc: "callarg:tuneGasFeeByHeight:3#2", Vars: []string{"old", "new"}},
	// tuneGasFeeByHeight
	{Name: "tune_active", Func: "tuneGasFeeByHeight", Loc: "cond:height > gasTuneheight", Vars: []string{"height", "tuneHeight"}, Bool: true,
		Subst: map[string]string{"height": "height", "gasTuneheight": "tuneHeight"}},
	{Name: "tune_round_zero", Func: "tuneGasFeeByHeight", Loc: "cond:gasRound == 0", Vars: []string{"round"}, Bool: true,
		Subst: map[string]string{"gasRound": "round"}},
	{Name: "tune_zero_ret", Func: "tuneGasFeeByHeight", Loc: "return:0#0", Vars: []string{"gas", "cur"},
		Subst: map[string]string{"gas": "gas", "curBalance": "cur"}},
	{Name: "tune_t", Func: "tuneGasFeeByHeight", Loc: "assign:t", Vars: []string{"gas", "round"},
		Subst: map[string]string{"gas": "gas", "gasRound": "round"}},
	{Name: "tune_overflow", Func: "tuneGasFeeByHeight", Loc: "cond:gas > math.MaxUint64-gasRound", Vars: []string{"gas", "round"}, Bool: true,
		Subst: map[string]string{"gas": "gas", "gasRound": "round"}},
	{Name: "tune_new", Func: "tuneGasFeeByHeight", Loc: "assign:newGas", Vars: []string{"round", "t"},
		Subst: map[string]string{"gasRound": "round", "t": "t"}},
	{Name: "tune_over_cap", Func: "tuneGasFeeByHeight", Loc: "cond:newGas > curBalance", Vars: []string{"newGas", "cur"}, Bool: true,
		Subst: map[string]string{"newGas": "newGas", "curBalance": "cur"}},
	// calcGasByCodeLen (codeLen is a Go int that is a length: non-negative, so uint64(int) is the identity)
	{Name: "code_len_gas", Func: "calcGasByCodeLen", Loc: "return:0", Vars: []string{"codeLen", "codeGas"},
		Subst: map[string]string{"codeLen": "codeLen", "codeGas": "codeGas"}},
	// HandleDeployTransaction
	{Name: "dep_gas_limit", Func: "HandleDeployTransaction", Loc: "assign:gasLimit", Vars: []string{"create", "codeLen", "unit"},
		Subst: map[string]string{"createGasPrice": "create", "calcGasByCodeLen(len(deploy.GetRawCode()), uintCodePrice)": "(code_len_gas codeLen unit)"}},
	{Name: "dep_need", Func: "HandleDeployTransaction", Loc: "callarg:isBalanceSufficient:4", Vars: []string{"gasLimit", "price"},
		Subst: map[string]string{"gasLimit": "gasLimit", "tx.GasPrice": "price"}},
	{Name: "dep_lt_limit", Func: "HandleDeployTransaction", Loc: "cond:tx.GasLimit < gasLimit", Vars: []string{"limit", "gasLimit"}, Bool: true,
		Subst: map[string]string{"gasLimit": "gasLimit", "tx.GasLimit": "limit"}},
	{Name: "dep_charge_nobal", Func: "HandleDeployTransaction", Loc: "callarg:costInvalidGas:1#0", Vars: []string{"balance"},
		Subst: map[string]string{"balance": "balance"}},
	{Name: "dep_charge_limit", Func: "HandleDeployTransaction", Loc: "callarg:costInvalidGas:1#1", Vars: []string{"limit", "price"},
		Subst: map[string]string{"tx.GasLimit": "limit", "tx.GasPrice": "price"}},
	{Name: "dep_gas_consumed", Func: "HandleDeployTransaction", Loc: "assign:gasConsumed", Vars: []string{"gasLimit", "price"},
		Subst: map[string]string{"gasLimit": "gasLimit", "tx.GasPrice": "price"}},
	// isBalanceSufficient
	{Name: "bal_lt_gas", Func: "isBalanceSufficient", Loc: "cond:balance < gas", Vars: []string{"balance", "gas"}, Bool: true,
		Subst: map[string]string{"balance": "balance", "gas": "gas"}},
}

// named constants the expressions may mention
var constNames = map[string]string{
	"neovm.MIN_TRANSACTION_GAS": "FEE_MIN_TRANSACTION_GAS",
	"neovm.PER_UNIT_CODE_LEN":   "FEE_PER_UNIT_CODE_LEN",
	"math.MaxUint64":            "max_u64",
	"MAX_UINT64":                "max_u64",
}

func pr(fset *token.FileSet, n ast.Node) string {
	var b bytes.Buffer
	printer.Fprint(&b, fset, n)
	return b.String()
}

func findFn(f *ast.File, name string) *ast.FuncDecl {
	for _, d := range f.Decls {
		if fd, ok := d.(*ast.FuncDecl); ok && fd.Name.Name == name {
			return fd
		}
	}
	return nil
}

func locateSite(fset *token.FileSet, fd *ast.FuncDecl, loc string) (ast.Expr, error) {
	k := 0
	if i := strings.LastIndex(loc, "#"); i >= 0 {
		fmt.Sscanf(loc[i+1:], "%d", &k)
		loc = loc[:i]
	}
	parts := strings.SplitN(loc, ":", 3)
	var found []ast.Expr
	switch parts[0] {
	case "assign":
		ast.Inspect(fd.Body, func(n ast.Node) bool {
			if as, ok := n.(*ast.AssignStmt); ok && len(as.Lhs) == len(as.Rhs) {
				for i, l := range as.Lhs {
					if id, ok := l.(*ast.Ident); ok && id.Name == parts[1] {
						found = append(found, as.Rhs[i])
					}
				}
			}
			return true
		})
	case "callarg":
		var idx int
		fmt.Sscanf(parts[2], "%d", &idx)
		ast.Inspect(fd.Body, func(n ast.Node) bool {
			if ce, ok := n.(*ast.CallExpr); ok && pr(fset, ce.Fun) == parts[1] && idx < len(ce.Args) {
				found = append(found, ce.Args[idx])
			}
			return true
		})
	case "cond":
		want := strings.Join(parts[1:], ":")
		ast.Inspect(fd.Body, func(n ast.Node) bool {
			if is, ok := n.(*ast.IfStmt); ok && pr(fset, is.Cond) == want {
				found = append(found, is.Cond)
			}
			return true
		})
	case "field":
		ast.Inspect(fd.Body, func(n ast.Node) bool {
			if kv, ok := n.(*ast.KeyValueExpr); ok && pr(fset, kv.Key) == parts[1] {
				found = append(found, kv.Value)
			}
			return true
		})
	case "return":
		var idx int
		fmt.Sscanf(parts[1], "%d", &idx)
		ast.Inspect(fd.Body, func(n ast.Node) bool {
			if rs, ok := n.(*ast.ReturnStmt); ok && idx < len(rs.Results) {
				found = append(found, rs.Results[idx])
			}
			return true
		})
	default:
		return nil, fmt.Errorf("bad locator %q", loc)
	}
	if k >= len(found) {
		return nil, fmt.Errorf("locator %q: %d matches, wanted #%d", loc, len(found), k)
	}
	return found[k], nil
}

// u64 translates a Go uint64 expression to Gallina over N, the wrap explicit at every operation.
func u64(fset *token.FileSet, e ast.Expr, subst map[string]string) (string, error) {
	s := pr(fset, e)
	if v, ok := subst[s]; ok {
		return v, nil
	}
	if v, ok := constNames[s]; ok {
		return v, nil
	}
	switch x := e.(type) {
	case *ast.ParenExpr:
		return u64(fset, x.X, subst)
	case *ast.BasicLit:
		if x.Kind == token.INT {
			var v uint64
			if _, err := fmt.Sscanf(x.Value, "%v", &v); err == nil {
				return fmt.Sprintf("%d", v), nil
			}
		}
	case *ast.BinaryExpr:
		l, err := u64(fset, x.X, subst)
		if err != nil {
			return "", err
		}
		r, err := u64(fset, x.Y, subst)
		if err != nil {
			return "", err
		}
		switch x.Op {
		case token.ADD:
			return "(u64add " + l + " " + r + ")", nil
		case token.SUB:
			return "(u64sub " + l + " " + r + ")", nil
		case token.MUL:
			return "(u64mul " + l + " " + r + ")", nil
		case token.QUO:
			return "(u64div " + l + " " + r + ")", nil
		}
	case *ast.CallExpr:
		if id, ok := x.Fun.(*ast.Ident); ok && id.Name == "uint64" && len(x.Args) == 1 {
			a, err := u64(fset, x.Args[0], subst)
			if err != nil {
				return "", err
			}
			return "(u64 " + a + ")", nil
		}
	}
	return "", fmt.Errorf("unsupported expression %q", s)
}

func cond(fset *token.FileSet, e ast.Expr, subst map[string]string) (string, error) {
	if pe, ok := e.(*ast.ParenExpr); ok {
		return cond(fset, pe.X, subst)
	}
	if id, ok := e.(*ast.Ident); ok {
		if v, ok := subst[id.Name]; ok {
			return v, nil // a bool parameter
		}
		if id.Name == "true" || id.Name == "false" {
			return id.Name, nil
		}
	}
	be, ok := e.(*ast.BinaryExpr)
	if !ok {
		return "", fmt.Errorf("condition %q is not a comparison", pr(fset, e))
	}
	if be.Op == token.LOR || be.Op == token.LAND {
		l, err := cond(fset, be.X, subst)
		if err != nil {
			return "", err
		}
		r, err := cond(fset, be.Y, subst)
		if err != nil {
			return "", err
		}
		if be.Op == token.LOR {
			return "(" + l + " || " + r + ")", nil
		}
		return "(" + l + " && " + r + ")", nil
	}
	l, err := u64(fset, be.X, subst)
	if err != nil {
		return "", err
	}
	r, err := u64(fset, be.Y, subst)
	if err != nil {
		return "", err
	}
	switch be.Op {
	case token.LSS:
		return "(" + l + " <? " + r + ")", nil
	case token.GTR:
		return "(" + r + " <? " + l + ")", nil
	case token.LEQ:
		return "(" + l + " <=? " + r + ")", nil
	case token.GEQ:
		return "(" + r + " <=? " + l + ")", nil
	case token.EQL:
		return "(" + l + " =? " + r + ")", nil
	case token.NEQ:
		return "(negb (" + l + " =? " + r + "))", nil
	}
	return "", fmt.Errorf("unsupported comparison %q", pr(fset, e))
}

func produceFormulas(repo string) ([]byte, []string) {
	var b bytes.Buffer
	var errs []string
	fmt.Fprintf(&b, "(* GENERATED by harness/drivers/c05 from %s of the current source on every run. Do not edit. *)\n", txHandler)
	fmt.Fprintf(&b, "From Coq Require Import NArith Bool.\nFrom Ont Require Import Lib.U64 Gen.FeeConsts.\nLocal Open Scope N_scope.\nOpen Scope bool_scope.\n\n")
	fset := token.NewFileSet()
	parsed := map[string]*ast.File{}
	fileOf := func(rel string) (*ast.File, error) {
		if rel == "" {
			rel = txHandler
		}
		if f, ok := parsed[rel]; ok {
			return f, nil
		}
		f, err := parser.ParseFile(fset, filepath.Join(repo, rel), nil, 0)
		if err == nil {
			parsed[rel] = f
		}
		return f, err
	}
	if _, err := fileOf(""); err != nil {
		return []byte("Definition translator_broken_parse : unit := tt.\n"), []string{err.Error()}
	}
	// code_len_gas is used by dep_gas_limit: emit in the listed order but make sure it comes first
	ordered := append([]site{}, sites...)
	sort.SliceStable(ordered, func(i, j int) bool { return ordered[i].Name == "code_len_gas" && ordered[j].Name != "code_len_gas" })
	for _, s := range ordered {
		fail := func(msg string) {
			errs = append(errs, s.Name+": "+msg)
			fmt.Fprintf(&b, "Definition translator_broken_%s : unit := tt. (* %s *)\n\n", s.Name, strings.ReplaceAll(msg, "*)", "* )"))
		}
		f, err := fileOf(s.File)
		if err != nil {
			fail(err.Error())
			continue
		}
		fd := findFn(f, s.Func)
		if fd == nil || fd.Body == nil {
			fail("function " + s.Func + " not found")
			continue
		}
		e, err := locateSite(fset, fd, s.Loc)
		if err != nil {
			fail(err.Error())
			continue
		}
		subst := s.Subst
		if subst == nil {
			subst = inv
		}
		var body string
		if s.Bool {
			body, err = cond(fset, e, subst)
		} else {
			body, err = u64(fset, e, subst)
		}
		if err != nil {
			fail(err.Error())
			continue
		}
		params := ""
		for _, v := range s.BVars {
			params += " (" + v + " : bool)"
		}
		for _, v := range s.Vars {
			params += " (" + v + " : N)"
		}
		ty := "N"
		if s.Bool {
			ty = "bool"
		}
		fmt.Fprintf(&b, "(* %s, %s\n   Go: %s *)\nDefinition %s%s : %s := %s.\n\n", s.Func, s.Loc, strings.ReplaceAll(pr(fset, e), "*)", "* )"), s.Name, params, ty, body)
	}
	return b.Bytes(), errs
}

func produceConsts(repo string) ([]byte, []string) {
	n := func(name string, v uint64, comment string) gen.Const {
		return gen.Const{Name: name, Type: "N", Value: fmt.Sprintf("%d%%N", v), Comment: comment}
	}
	addr := func(name string, a common.Address, comment string) gen.Const {
		return gen.Const{Name: name, Type: "list N", Value: "(" + hx.CoqBytes(a[:]) + ")%N", Comment: comment}
	}
	tbl := func(key string) uint64 {
		v, ok := neovm.GAS_TABLE.Load(key)
		if !ok {
			return 0
		}
		return v.(uint64)
	}
	var nets []uint32
	for id := range config.GAS_ROUND_TUNE_HEIGHT {
		nets = append(nets, id)
	}
	sort.Slice(nets, func(i, j int) bool { return nets[i] < nets[j] })
	var th []string
	for _, id := range nets {
		th = append(th, fmt.Sprintf("(%d, %d)", id, config.GetGasRoundTuneHeight(id)))
	}
	cs := []gen.Const{
		n("FEE_MIN_TRANSACTION_GAS", neovm.MIN_TRANSACTION_GAS, "neovm.MIN_TRANSACTION_GAS"),
		n("FEE_PER_UNIT_CODE_LEN", uint64(neovm.PER_UNIT_CODE_LEN), "neovm.PER_UNIT_CODE_LEN"),
		n("FEE_UINT_INVOKE_CODE_LEN_GAS", tbl(neovm.UINT_INVOKE_CODE_LEN_NAME), "neovm.GAS_TABLE[UINT_INVOKE_CODE_LEN_NAME] (initial value)"),
		n("FEE_UINT_DEPLOY_CODE_LEN_GAS", tbl(neovm.UINT_DEPLOY_CODE_LEN_NAME), "neovm.GAS_TABLE[UINT_DEPLOY_CODE_LEN_NAME] (initial value)"),
		n("FEE_CONTRACT_CREATE_GAS", tbl(neovm.CONTRACT_CREATE_NAME), "neovm.GAS_TABLE[CONTRACT_CREATE_NAME] (initial value)"),
		{Name: "FEE_TUNE_HEIGHTS", Type: "list (N * N)", Value: "[" + strings.Join(th, "; ") + "]%N", Comment: "config.GAS_ROUND_TUNE_HEIGHT: network id -> height (a missing id reads as 0)"},
		n("FEE_ONG_TOTAL_SUPPLY", constants.ONG_TOTAL_SUPPLY, "constants.ONG_TOTAL_SUPPLY (10^-9 ONG)"),
		{Name: "FEE_ONG_TOTAL_SUPPLY_V2", Type: "Z", Value: "(" + constants.ONG_TOTAL_SUPPLY_V2.BigInt().String() + ")%Z", Comment: "constants.ONG_TOTAL_SUPPLY_V2 (10^-18 ONG)"},
		{Name: "FEE_SCALE", Type: "Z", Value: fmt.Sprintf("(%d)%%Z", uint64(states.ScaleFactor)), Comment: "states.ScaleFactor"},
		addr("FEE_ONG_ADDR", nutils.OngContractAddress, "native/utils.OngContractAddress"),
		addr("FEE_GOV_ADDR", nutils.GovernanceContractAddress, "native/utils.GovernanceContractAddress"),
		n("FEE_ST_STORAGE", uint64(scom.ST_STORAGE), "core/store/common.ST_STORAGE"),
		n("FEE_ST_CONTRACT", uint64(scom.ST_CONTRACT), "core/store/common.ST_CONTRACT"),
		n("FEE_ST_DESTROYED", uint64(scom.ST_DESTROYED), "core/store/common.ST_DESTROYED"),
		n("FEE_STATE_FAIL", uint64(event.CONTRACT_STATE_FAIL), "event.CONTRACT_STATE_FAIL"),
		n("FEE_STATE_SUCCESS", uint64(event.CONTRACT_STATE_SUCCESS), "event.CONTRACT_STATE_SUCCESS"),
	}
	return gen.EmitConsts("", cs), nil
}

// ---------- commit sites ----------
//
// Every call of a cache / overlay / store commit (`.Commit()`, `.CommitTo()`, `.BatchCommit()`,
// `.CommitToCacheDB()`) in the code that runs inside or around a transaction's execution, listed
// with file, enclosing function and printed call. Two lists:
//   commit_sites_exec    : code that runs DURING an execution (interpreters, native contracts,
//                          the smart-contract runtime). The model lets an execution write only
//                          into the transaction cache, so the only admissible member is
//                          StateDB.CommitToCacheDB (which stays inside that cache);
//   commit_sites_handler : the transaction handlers and the cache layers themselves - pinned
//                          literally in Props/C05.v (each one is a modelled site or classified there).
// A new commit in mid-transaction changes these lists and the theorems about them stop checking.

var execDirs = []string{"smartcontract/service/native", "smartcontract/service/neovm", "smartcontract/service/wasmvm",
	"smartcontract/service/evm", "smartcontract/context", "smartcontract/event", "smartcontract/states", "vm/neovm", "vm/evm"}
var execFiles = []string{"smartcontract/smart_contract.go"}

// handler-level files (the named ones inside execDirs are moved here)
var handlerFiles = []string{"core/store/ledgerstore/tx_handler.go", "smartcontract/storage/statedb.go", "smartcontract/storage/cachedb.go",
	"smartcontract/service/evm/state_processor.go", "vm/evm/runtime/contract.go"}

var commitNames = map[string]bool{"Commit": true, "CommitTo": true, "BatchCommit": true, "CommitToCacheDB": true}

// cacheSites: the calls that create, reset or commit a CacheDB in the block loop and in the
// transaction handlers (functions named in blockFuncs), in source order. The model's block loop
// (run_block: Reset before every transaction) and costInvalidGas (a FRESH cache on the overlay,
// committed) are pinned to this list in Props/C05.v.
var blockFuncs = map[string][]string{
	"core/store/ledgerstore/ledger_store.go": {"executeBlock", "handleTransaction"},
	"core/store/ledgerstore/tx_handler.go":   {"costInvalidGas", "chargeCostGas", "HandleInvokeTransaction", "HandleDeployTransaction", "HandleEIP155Transaction"},
}
var cacheNames = map[string]bool{"Reset": true, "NewCacheDB": true, "Commit": true, "NewStateDB": true}

func cacheSites(repo string) ([]string, []string) {
	var out, errs []string
	var files []string
	for f := range blockFuncs {
		files = append(files, f)
	}
	sort.Strings(files)
	for _, rel := range files {
		fset := token.NewFileSet()
		f, err := parser.ParseFile(fset, filepath.Join(repo, rel), nil, 0)
		if err != nil {
			errs = append(errs, err.Error())
			continue
		}
		for _, fn := range blockFuncs[rel] {
			fd := findFn(f, fn)
			if fd == nil || fd.Body == nil {
				errs = append(errs, "cache sites: function "+fn+" not found in "+rel)
				continue
			}
			ast.Inspect(fd.Body, func(n ast.Node) bool {
				if ce, ok := n.(*ast.CallExpr); ok {
					if se, ok := ce.Fun.(*ast.SelectorExpr); ok && cacheNames[se.Sel.Name] {
						out = append(out, fmt.Sprintf("(%s, %s, %s)", hx.CoqStr(fn), hx.CoqStr(se.Sel.Name), hx.CoqStr(pr(fset, ce))))
					}
				}
				return true
			})
		}
	}
	return out, errs
}

func commitCalls(repo, rel string) ([]string, error) {
	fset := token.NewFileSet()
	f, err := parser.ParseFile(fset, filepath.Join(repo, rel), nil, 0)
	if err != nil {
		return nil, err
	}
	var out []string
	for _, d := range f.Decls {
		fd, ok := d.(*ast.FuncDecl)
		if !ok || fd.Body == nil {
			continue
		}
		ast.Inspect(fd.Body, func(n ast.Node) bool {
			if ce, ok := n.(*ast.CallExpr); ok {
				if se, ok := ce.Fun.(*ast.SelectorExpr); ok && commitNames[se.Sel.Name] {
					out = append(out, fmt.Sprintf("(%s, %s, %s, %s)", hx.CoqStr(rel), hx.CoqStr(fd.Name.Name), hx.CoqStr(se.Sel.Name), hx.CoqStr(pr(fset, ce))))
				}
			}
			return true
		})
	}
	return out, nil
}

func produceCommitSites(repo string) ([]byte, []string) {
	var errs []string
	isHandler := map[string]bool{}
	for _, f := range handlerFiles {
		isHandler[f] = true
	}
	var exec, handler []string
	add := func(rel string) {
		calls, err := commitCalls(repo, rel)
		if err != nil {
			errs = append(errs, err.Error())
			return
		}
		if isHandler[rel] {
			handler = append(handler, calls...)
		} else {
			exec = append(exec, calls...)
		}
	}
	var files []string
	for _, d := range execDirs {
		filepath.Walk(filepath.Join(repo, d), func(p string, info os.FileInfo, err error) error {
			if err == nil && !info.IsDir() && strings.HasSuffix(p, ".go") && !strings.HasSuffix(p, "_test.go") && !strings.Contains(filepath.Base(p), "verif_hooks") {
				rel, _ := filepath.Rel(repo, p)
				files = append(files, rel)
			}
			return nil
		})
	}
	files = append(files, execFiles...)
	for _, f := range handlerFiles {
		dup := false
		for _, g := range files {
			dup = dup || g == f
		}
		if !dup {
			files = append(files, f)
		}
	}
	sort.Strings(files)
	if len(files) < 50 {
		errs = append(errs, fmt.Sprintf("commit sites: only %d source files found", len(files)))
	}
	for _, f := range files {
		add(f)
	}
	var b bytes.Buffer
	fmt.Fprintf(&b, "(* GENERATED by harness/drivers/c05 from the current source (go/ast) on every run. Do not edit.\n   (file, enclosing function, method, printed call) of every Commit / CommitTo / BatchCommit / CommitToCacheDB call;\n   %d files scanned. *)\n", len(files))
	fmt.Fprintf(&b, "From Coq Require Import List String.\nImport ListNotations.\nOpen Scope string_scope.\n\n")
	if len(errs) > 0 {
		fmt.Fprintf(&b, "Definition translator_broken_commit_sites : unit := tt.\n")
		return b.Bytes(), errs
	}
	emit := func(name string, l []string) {
		fmt.Fprintf(&b, "Definition %s : list (string * string * string * string) := [\n  %s\n].\n\n", name, strings.Join(l, ";\n  "))
	}
	emit("commit_sites_exec", exec)
	emit("commit_sites_handler", handler)
	cs, cerrs := cacheSites(repo)
	if len(cerrs) > 0 {
		fmt.Fprintf(&b, "Definition translator_broken_cache_sites : unit := tt.\n")
		return b.Bytes(), cerrs
	}
	fmt.Fprintf(&b, "(* (function, method, printed call) of every CacheDB / StateDB creation, Reset and Commit in the block loop and the transaction handlers *)\n")
	fmt.Fprintf(&b, "Definition cache_sites_block : list (string * string * string) := [\n  %s\n].\n", strings.Join(cs, ";\n  "))
	return b.Bytes(), nil
}

func init() {
	gen.RegisterFile("FeeCommitSites.v", produceCommitSites)
	gen.RegisterFile("FeeConsts.v", produceConsts)
	gen.RegisterFile("FeeFormulas.v", produceFormulas)
}
