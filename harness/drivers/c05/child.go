package c05

// Running the real handler on one transaction in a child process with a time limit, so that a
// block execution that never returns (endless loop with an underflowed gas allowance) is observed
// instead of suffered.

import (
	"bytes"
	"encoding/json"
	"fmt"
	"math/big"
	"os"
	"os/exec"
	"path/filepath"
	"strconv"
	"time"

	"github.com/ontio/ontology/core/payload"
	"github.com/ontio/ontology/core/types"

	"verif/harness/hx"
	"verif/harness/ledgerkit"
)

const childLimit = 20 * time.Second

var childSeq int

// txInput describes one transaction for the child: the child builds its own ledger, gives a user
// exactly `balance` (10^-9 ONG) and executes a block holding the transaction.
func txInput(c *hx.Ctx, tx *types.Transaction, old uint64, label string) *blockInput {
	code := tx.Payload.(*payload.InvokeCode).Code
	return &blockInput{Seed: c.Seed, Witness: "tx", Label: label, Price: strconv.FormatUint(tx.GasPrice, 10),
		Limit: strconv.FormatUint(tx.GasLimit, 10), Balance: strconv.FormatUint(old, 10), Code: hx.Hex(code)}
}

// childRun executes the "tx" witness in a child process. timedOut: killed after childLimit.
func childRun(c *hx.Ctx, in *blockInput) (timedOut bool, err error) {
	childSeq++
	dir := filepath.Join(c.OutDir, fmt.Sprintf("child-%d", childSeq))
	if err := os.MkdirAll(dir, 0o755); err != nil {
		return false, err
	}
	defer os.RemoveAll(dir)
	b, _ := json.Marshal(map[string]interface{}{"property": "C05", "input": in})
	rf := filepath.Join(dir, "replay.json")
	if err := os.WriteFile(rf, b, 0o644); err != nil {
		return false, err
	}
	cmd := exec.Command(os.Args[0], "run", "-id", "C05", "-seed", strconv.FormatInt(c.Seed, 10), "-tier", "quick",
		"-out", dir, "-replay", rf, "-repo", c.Repo)
	cmd.Env = append(os.Environ(), "C05_CHILD=1")
	var out bytes.Buffer
	cmd.Stdout, cmd.Stderr = &out, &out
	if err := cmd.Start(); err != nil {
		return false, err
	}
	done := make(chan error, 1)
	go func() { done <- cmd.Wait() }()
	// The time limit applies to the block execution only: the child touches `child.ready` right
	// before it hands the block to the handler (building its ledger can take many seconds on a
	// loaded machine).
	started := time.Now()
	var readyAt time.Time
	tick := time.NewTicker(50 * time.Millisecond)
	defer tick.Stop()
	for {
		select {
		case err := <-done:
			if err != nil {
				o := out.Bytes()
				if len(o) > 400 {
					o = o[len(o)-400:]
				}
				return false, fmt.Errorf("%v: %s", err, o)
			}
			return false, nil
		case <-tick.C:
			if readyAt.IsZero() {
				if _, err := os.Stat(filepath.Join(dir, "child.ready")); err == nil {
					readyAt = time.Now()
				} else if time.Since(started) > childStartup {
					cmd.Process.Kill()
					<-done
					return false, errSlowStart
				}
			} else if time.Since(readyAt) > childLimit {
				cmd.Process.Kill()
				<-done
				return true, nil
			}
		}
	}
}

const childStartup = 5 * time.Minute

var errSlowStart = fmt.Errorf("child did not reach the block execution within %v", childStartup)

// guard runs the child for a wrap-suspect transaction and reports; ok=false: do not execute the
// transaction in this process.
func (w *world) guard(tx *types.Transaction, old uint64, in *blockInput, label string) (ok bool) {
	c := w.c
	_, gas := wrappedGas(tx, old, 20000)
	c.Count("wrap-suspect:child-run")
	ti := txInput(c, tx, old, label)
	timedOut, err := childRun(c, ti)
	switch {
	case timedOut:
		c.Fail("gas:available-gas-underflow", "a block holding a signed invoke transaction is executed in bounded time: the engine never gets more gas than GasLimit",
			ti, fmt.Sprintf("ExecuteBlock did not return within %v (child process killed); with wrapping uint64 products availableGasLimit - codeLenGasLimit = %d > GasLimit %d",
				childLimit, gas, tx.GasLimit), "the transaction is refused with the balance charged (a fee product overflows)")
		return false
	case err == errSlowStart:
		c.Note("wrap-suspect child: " + err.Error() + " (machine overloaded?); block skipped")
		return false
	case err != nil:
		c.Fail("child-crash", "the child process executing one transaction ends normally", ti, err.Error(), nil)
		return false
	}
	return true
}

// txProbe (witness "tx"; the child's job, and the in-process follow-up of a corpus probe): give
// users[5] exactly the balance, execute a block holding the transaction, apply oracle and model.
func (w *world) txProbe(in *blockInput) {
	c := w.c
	price, _ := strconv.ParseUint(in.Price, 10, 64)
	limit, _ := strconv.ParseUint(in.Limit, 10, 64)
	want, _ := strconv.ParseUint(in.Balance, 10, 64)
	who := len(w.users) - 1
	have := w.ongOf(who)
	var fund *types.Transaction
	var err error
	switch {
	case want > have:
		fund, err = w.transfer(ledgerkit.OngAddr, 0, w.users[who].Address, want-have, 0, 30000)
	case want < have:
		fund, err = w.transfer(ledgerkit.OngAddr, who, w.users[0].Address, have-want, 0, 30000)
	}
	if err == nil && fund != nil {
		err = w.setupTx(fund)
	}
	if err != nil {
		c.Fail("driver-gen", "the probe's payer could be funded", in, err.Error(), nil)
		return
	}
	mtx := w.k.InvokeTx(hx.UnHex(in.Code), price, limit)
	mtx.Payer = w.users[who].Address
	if err := ledgerkit.Sign(mtx, w.users[who]); err != nil {
		c.Fail("driver-gen", "transaction could be built", in, err.Error(), nil)
		return
	}
	tx, _ := mtx.IntoImmutable()
	in.Txs = []*txDesc{{Kind: "tx-probe", Payer: who, Signer: who, Price: price, Limit: limit, Code: in.Label}}
	c.Count("witness:tx:" + in.Label)
	w.runBlock(in, []*types.Transaction{tx}, true)
}

var _ = big.NewInt
