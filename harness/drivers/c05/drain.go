package c05

// The drain family: a charged transaction whose OWN successful execution moves the payer's ONG
// away, leaving 0, fee-1, fee or fee+1 (fee = max(gas used, 20000) * gas price). The property:
// a transaction whose payer cannot pay the fee after execution FAILS - its effects are dropped
// and the fee is taken from the pre-execution balance; with fee or more left it succeeds and pays
// exactly the fee. Three mechanisms: a native transfer, a composite script (transfer + storage
// write), and approve + transferFrom by the payer itself.

import (
	"bytes"
	"fmt"
	"math/big"

	"github.com/ontio/ontology/common"
	"github.com/ontio/ontology/common/config"
	"github.com/ontio/ontology/core/payload"
	"github.com/ontio/ontology/core/types"
	"github.com/ontio/ontology/smartcontract/service/native/ont"
	"github.com/ontio/ontology/smartcontract/service/neovm"
	vm "github.com/ontio/ontology/vm/neovm"

	"verif/harness/ledgerkit"
)

var drainMechanisms = []string{"transfer", "composite", "approve+transferFrom"}

// drainScript moves `amount` of the payer's ONG to `to`.
func (w *world) drainScript(mech string, payer, to common.Address, amount uint64) []byte {
	switch mech {
	case "transfer":
		return native(ledgerkit.OngAddr, "transfer", []*ont.TransferState{{From: payer, To: to, Value: amount}})
	case "composite":
		b := vm.NewParamsBuilder(new(bytes.Buffer))
		b.EmitPushBool(true)
		b.EmitPushByteArray(w.c.Bytes(1 + w.c.Intn(20)))
		b.EmitPushByteArray([]byte{byte('r'), byte(w.c.Intn(4))})
		b.EmitPushCall(w.contract[:])
		return append(b.ToArray(), native(ledgerkit.OngAddr, "transfer", []*ont.TransferState{{From: payer, To: to, Value: amount}})...)
	default: // the payer approves itself and then pulls the amount out to `to`
		return append(native(ledgerkit.OngAddr, "approve", &ont.TransferState{From: payer, To: payer, Value: amount}),
			native(ledgerkit.OngAddr, "transferFrom", ont.NewTransferFromState(payer, payer, to, amount))...)
	}
}

// setBalanceTx returns a free transaction that brings users[who] to exactly `want` (nil if it is there).
func (w *world) setBalanceTx(who int, want uint64) (*types.Transaction, error) {
	have := w.ongOf(who)
	switch {
	case want > have:
		return w.transfer(ledgerkit.OngAddr, 0, w.users[who].Address, want-have, 0, 30000)
	case want < have:
		return w.transfer(ledgerkit.OngAddr, who, w.users[0].Address, have-want, 0, 30000)
	}
	return nil, nil
}

// drainProbes: mechanisms x prices x what is left.
func (w *world) drainProbes() {
	c := w.c
	const who = 3
	const start = 1000000000 // 1 ONG
	for _, mech := range drainMechanisms {
		for _, price := range []uint64{1, 2500} {
			fee := neovm.MIN_TRANSACTION_GAS * price // every mechanism uses less than 20000 gas
			for _, left := range []uint64{0, fee - 1, fee, fee + 1} {
				in := &blockInput{Seed: c.Seed, Witness: "drain", Label: fmt.Sprintf("%s price %d leaving %d (fee %d)", mech, price, left, fee)}
				var txs []*types.Transaction
				fund, err := w.setBalanceTx(who, start)
				if err == nil && fund != nil {
					txs = append(txs, fund)
					in.Txs = append(in.Txs, &txDesc{Kind: "refill", Payer: 0, Signer: 0, Limit: 30000, N: who})
				}
				var tx *types.Transaction
				if err == nil {
					tx, err = w.signed(w.k.InvokeTx(w.drainScript(mech, w.users[who].Address, w.users[4].Address, start-left), price, 60000), who)
				}
				if err != nil {
					c.Fail("driver-gen", "drain probe could be built", in, err.Error(), nil)
					continue
				}
				txs = append(txs, tx)
				in.Txs = append(in.Txs, &txDesc{Kind: "drain", Payer: who, Signer: who, Price: price, Limit: 60000, Amount: start - left, Code: mech})
				c.Count("witness:drain")
				w.runBlock(in, txs, true)
			}
		}
	}
}

// ---------- the fee a transaction owes, from the property's reading (exact arithmetic) ----------

// owed computes, for a charged transaction whose script ran with outcome p, the raw cost
// max(gas used, MIN_TRANSACTION_GAS) * GasPrice, that cost rounded up to the fee unit
// MIN_TRANSACTION_GAS * GasPrice (when rounding is active at this height), with exact integers.
func owed(tx *types.Transaction, p *outcome, height uint32) (cost, rounded *big.Int) {
	code := tx.Payload.(*payload.InvokeCode).Code
	clg := uint64(len(code)/neovm.PER_UNIT_CODE_LEN) * neovm.UINT_INVOKE_CODE_LEN_GAS
	used := new(big.Int).SetUint64(p.Gas - p.Left) // p.Left <= p.Gas: sc.Gas only decreases
	used.Add(used, new(big.Int).SetUint64(clg))
	if used.Cmp(big.NewInt(int64(neovm.MIN_TRANSACTION_GAS))) < 0 {
		used.SetUint64(neovm.MIN_TRANSACTION_GAS)
	}
	price := new(big.Int).SetUint64(tx.GasPrice)
	cost = new(big.Int).Mul(used, price)
	rounded = new(big.Int).Set(cost)
	if height > config.GetGasRoundTuneHeight(config.DefConfig.P2PNode.NetworkId) {
		unit := new(big.Int).Mul(big.NewInt(int64(neovm.MIN_TRANSACTION_GAS)), price)
		q := new(big.Int).Add(cost, new(big.Int).Sub(unit, big.NewInt(1)))
		rounded = q.Div(q, unit).Mul(q, unit)
	}
	return
}

func minBig(a *big.Int, b uint64) *big.Int {
	bb := new(big.Int).SetUint64(b)
	if a.Cmp(bb) < 0 {
		return a
	}
	return bb
}
