package c39

import (
	"bytes"
	"encoding/json"
	"fmt"
	"go/ast"
	"go/parser"
	"go/printer"
	"go/token"
	"path/filepath"
	"strings"

	"github.com/ontio/ontology/common/constants"
	"github.com/ontio/ontology/core/store/ledgerstore"

	"verif/harness/gen"
)

func jsonUnmarshal(raw json.RawMessage, v interface{}) error { return json.Unmarshal(raw, v) }

// Sites: the signature-threshold expressions the block checks use.
var sites = []gen.Site{
	{Name: "c39_solo_m", File: "core/store/ledgerstore/ledger_store.go", Func: "verifyHeader", Loc: "assign:m#1",
		Subst: map[string]string{"len(header.Bookkeepers)": "n"}, Vars: []string{"n"}},
	{Name: "c39_validator_m", File: "core/validation/block_validator.go", Func: "VerifyBlock", Loc: "assign:m",
		Subst: map[string]string{"len(header.Bookkeepers)": "n"}, Vars: []string{"n"}},
	{Name: "c39_addr_m", File: "core/types/address.go", Func: "AddressFromBookkeepers", Loc: "callarg:AddressFromMultiPubKeys:1",
		Subst: map[string]string{"len(bookkeepers)": "n"}, Vars: []string{"n"}},
}

// traced functions: the order of receiver calls, conditions and returns is part of the model.
var traced = []struct{ name, file, fn, skipIf string }{
	{"AddBlock", "core/store/ledgerstore/ledger_store.go", "AddBlock", ""},
	{"SubmitBlock", "core/store/ledgerstore/ledger_store.go", "SubmitBlock", ""},
	{"AddHeader", "core/store/ledgerstore/ledger_store.go", "AddHeader", ""},
	{"AddHeaders", "core/store/ledgerstore/ledger_store.go", "AddHeaders", ""},
	{"saveBlock", "core/store/ledgerstore/ledger_store.go", "saveBlock", ""},
	{"submitBlock", "core/store/ledgerstore/ledger_store.go", "submitBlock", ""},
	{"saveBlockToBlockStore", "core/store/ledgerstore/ledger_store.go", "saveBlockToBlockStore", ""},
	{"saveBlockToStateStore", "core/store/ledgerstore/ledger_store.go", "saveBlockToStateStore", ""},
	{"saveBlockToEventStore", "core/store/ledgerstore/ledger_store.go", "saveBlockToEventStore", ""},
	{"verifyHeader", "core/store/ledgerstore/ledger_store.go", "verifyHeader", `consensusType == "vbft"`},
	{"VerifyBlock", "core/validation/block_validator.go", "VerifyBlock", "completely"},
	{"VerifyHeader", "core/validation/block_validator.go", "VerifyHeader", ""},
	{"VerifyMultiSignature", "core/signature/signature.go", "VerifyMultiSignature", ""},
	{"sigVerifyWrapper", "core/signature/signature.go", "verify", ""},
	{"BlockDeserialization", "core/types/block.go", "Deserialization", ""},
	{"AddStateMerkleTreeRoot", "core/store/ledgerstore/state_store.go", "AddStateMerkleTreeRoot", ""},
	{"AddBlockMerkleTreeRoot", "core/store/ledgerstore/state_store.go", "AddBlockMerkleTreeRoot", ""},
}

func pr(fset *token.FileSet, n ast.Node) string {
	var b bytes.Buffer
	printer.Fprint(&b, fset, n)
	return strings.Join(strings.Fields(b.String()), " ")
}

// traceFunc lists, in source order: calls on the receiver (this./self.) and a few package-level
// calls, every if/for condition, and every return (nil / err / a freshly made error / value).
// The then-branch of `if <skipIf>` is recorded as one opaque entry.
func traceFunc(repo, file, fn, skipIf string) ([]string, error) {
	fset := token.NewFileSet()
	f, err := parser.ParseFile(fset, filepath.Join(repo, file), nil, 0)
	if err != nil {
		return nil, err
	}
	var fd *ast.FuncDecl
	for _, d := range f.Decls {
		if x, ok := d.(*ast.FuncDecl); ok && x.Name.Name == fn && x.Body != nil {
			fd = x
			break
		}
	}
	if fd == nil {
		return nil, fmt.Errorf("function %s not found in %s", fn, file)
	}
	var out []string
	interesting := map[string]bool{"signature.VerifyMultiSignature": true, "types.AddressFromBookkeepers": true,
		"SaveNotify": true, "VerifyHeader": true, "ld.GetHeaderByHash": true, "common.ComputeMerkleRoot": true,
		"s.Verify": true, "verify": true, "s.Deserialize": true, "transaction.Deserialization": true}
	var walk func(n ast.Node) bool
	walk = func(n ast.Node) bool {
		switch x := n.(type) {
		case *ast.FuncLit:
			return false
		case *ast.IfStmt:
			cond := pr(fset, x.Cond)
			if x.Init != nil {
				cond = pr(fset, x.Init) + "; " + cond
			}
			out = append(out, "if:"+cond)
			if skipIf != "" && cond == skipIf {
				out = append(out, "skipped-branch")
				if x.Init != nil {
					ast.Inspect(x.Init, walk)
				}
				if x.Else != nil {
					ast.Inspect(x.Else, walk)
				}
				return false
			}
		case *ast.ForStmt:
			if x.Cond != nil {
				out = append(out, "for:"+pr(fset, x.Cond))
			} else {
				out = append(out, "for")
			}
		case *ast.RangeStmt:
			out = append(out, "range:"+pr(fset, x.X))
		case *ast.DeferStmt:
			if _, ok := x.Call.Fun.(*ast.FuncLit); ok {
				out = append(out, "defer:func")
				// a deferred closure: record whether it recovers and what it assigns
				ast.Inspect(x.Call.Fun, func(m ast.Node) bool {
					switch y := m.(type) {
					case *ast.CallExpr:
						if id, ok := y.Fun.(*ast.Ident); ok && id.Name == "recover" {
							out = append(out, "defer:recover")
						}
					case *ast.AssignStmt:
						out = append(out, "defer:assign:"+pr(fset, y))
					}
					return true
				})
				return false
			}
			out = append(out, "defer")
		case *ast.BranchStmt:
			out = append(out, "branch:"+x.Tok.String())
		case *ast.CallExpr:
			name := pr(fset, x.Fun)
			if strings.HasPrefix(name, "this.") || strings.HasPrefix(name, "self.") {
				out = append(out, "call:"+name[5:])
			} else if interesting[name] {
				out = append(out, "call:"+name)
			}
		case *ast.ReturnStmt:
			kind := "return"
			for _, r := range x.Results {
				s := pr(fset, r)
				switch {
				case s == "nil":
					kind += ":nil"
				case s == "err" || s == "e":
					kind += ":err"
				case strings.HasPrefix(s, "fmt.Errorf(") || strings.HasPrefix(s, "errors.New(") || strings.HasPrefix(s, "errors.NewErr("):
					kind += ":error"
				default:
					kind += ":" + s
				}
			}
			out = append(out, kind)
		}
		return true
	}
	ast.Inspect(fd.Body, walk)
	return out, nil
}

func coqStrList(l []string) string {
	var s []string
	for _, x := range l {
		s = append(s, "\""+strings.ReplaceAll(x, "\"", "\"\"")+"\"")
	}
	return "[" + strings.Join(s, ";\n  ") + "]"
}

func registerGen() {
	gen.RegisterFile("AddBlockGen.v", func(repo string) ([]byte, []string) {
		var rs []gen.SiteResult
		var errs []string
		for _, s := range sites {
			r := gen.TranslateSite(repo, s)
			if r.Err != "" {
				errs = append(errs, s.Name+": "+r.Err)
			}
			rs = append(rs, r)
		}
		var b bytes.Buffer
		b.Write(gen.EmitSites("", rs))
		fmt.Fprintf(&b, "\nFrom Coq Require Import NArith List String.\nImport ListNotations.\nLocal Open Scope string_scope.\n\n")
		fmt.Fprintf(&b, "(* ledgerstore.HEADER_INDEX_MAX_SIZE, constants.MULTI_SIG_MAX_PUBKEY_SIZE (linked values) *)\n")
		fmt.Fprintf(&b, "Definition c39_header_index_max : N := %d%%N.\n", ledgerstore.HEADER_INDEX_MAX_SIZE)
		fmt.Fprintf(&b, "Definition c39_multisig_max : N := %d%%N.\n\n", constants.MULTI_SIG_MAX_PUBKEY_SIZE)
		fmt.Fprintf(&b, "(* Shape of the functions mirrored by Model/AddBlock.v: receiver calls, conditions and returns in source order. *)\n")
		for _, t := range traced {
			tr, err := traceFunc(repo, t.file, t.fn, t.skipIf)
			if err != nil {
				errs = append(errs, t.name+": "+err.Error())
				fmt.Fprintf(&b, "Definition translator_broken_trace_%s : unit := tt.\n\n", t.name)
				continue
			}
			fmt.Fprintf(&b, "(* %s, func %s *)\nDefinition c39_trace_%s : list string :=\n %s.\n\n", t.file, t.fn, t.name, coqStrList(tr))
		}
		return b.Bytes(), errs
	})
}
