package c39

import (
	"crypto/sha256"
	"encoding/hex"
	"fmt"
	"io"
	"os"
	"path/filepath"
	"sort"
	"strings"

	"github.com/ontio/ontology-crypto/keypair"
	osig "github.com/ontio/ontology-crypto/signature"
	"github.com/ontio/ontology/account"
	"github.com/ontio/ontology/common"
	"github.com/ontio/ontology/common/config"
	"github.com/ontio/ontology/core/genesis"
	"github.com/ontio/ontology/core/signature"
	"github.com/ontio/ontology/core/types"

	"verif/harness/ledgerkit"
)

// chain is a solo-consensus ledger whose blocks are signed by n bookkeepers (m of n needed).
type chain struct {
	k      *ledgerkit.Kit
	bks    []*account.Account // bookkeeper accounts, in header order
	others []*account.Account // non-bookkeeper accounts (recipients, foreign signers)
	n, m   int
}

func quorum(n int) int { return n - (n-1)/3 }

func newChain(dir string, n int) (*chain, error) {
	c := &chain{n: n, m: quorum(n)}
	funder := account.NewAccount("")
	if n == 1 {
		k, err := ledgerkit.NewWithAccount(dir, funder)
		if err != nil {
			return nil, err
		}
		c.k = k
		c.bks = []*account.Account{funder}
	} else {
		if err := os.RemoveAll(dir); err != nil {
			return nil, err
		}
		var keys []keypair.PublicKey
		for i := 0; i < n; i++ {
			a := account.NewAccount("")
			c.bks = append(c.bks, a)
			keys = append(keys, a.PublicKey)
		}
		ledgerkit.ConfigureSolo(funder)
		gb, err := genesis.BuildGenesisBlock(keys, config.DefConfig.Genesis)
		if err != nil {
			return nil, err
		}
		c.k = &ledgerkit.Kit{Dir: dir, Acct: funder, Bookkeepers: keys, Genesis: gb}
		if err := c.k.Open(); err != nil {
			return nil, err
		}
	}
	for i := 0; i < 3; i++ {
		c.others = append(c.others, account.NewAccount(""))
	}
	return c, nil
}

// cloneHeader copies the exported fields (the cached hash is dropped, so Hash() is recomputed).
func cloneHeader(h *types.Header) *types.Header {
	cp := &types.Header{Version: h.Version, PrevBlockHash: h.PrevBlockHash, TransactionsRoot: h.TransactionsRoot,
		BlockRoot: h.BlockRoot, Timestamp: h.Timestamp, Height: h.Height, ConsensusData: h.ConsensusData,
		ConsensusPayload: append([]byte(nil), h.ConsensusPayload...), NextBookkeeper: h.NextBookkeeper}
	cp.Bookkeepers = append([]keypair.PublicKey(nil), h.Bookkeepers...)
	for _, s := range h.SigData {
		cp.SigData = append(cp.SigData, append([]byte(nil), s...))
	}
	return cp
}

func cloneBlock(b *types.Block) *types.Block {
	return &types.Block{Header: cloneHeader(b.Header), Transactions: append([]*types.Transaction(nil), b.Transactions...)}
}

func signHash(a *account.Account, h common.Uint256) []byte {
	s, err := signature.Sign(a, h[:])
	if err != nil {
		panic(err)
	}
	return s
}

// sign sets Bookkeepers to all chain bookkeepers and SigData to signatures of the first m of them
// over the hash of the header's current field values.
func (c *chain) sign(b *types.Block) {
	b.Header = cloneHeader(b.Header)
	b.Header.Bookkeepers = nil
	b.Header.SigData = nil
	for _, a := range c.bks {
		b.Header.Bookkeepers = append(b.Header.Bookkeepers, a.PublicKey)
	}
	h := b.Header.Hash()
	for i := 0; i < c.m; i++ {
		b.Header.SigData = append(b.Header.SigData, signHash(c.bks[i], h))
	}
}

// makeBlock builds a valid, fully signed next block with the given transactions.
func (c *chain) makeBlock(txs []*types.Transaction) (*types.Block, error) {
	b, err := c.k.MakeBlock(txs)
	if err != nil {
		return nil, err
	}
	c.sign(b)
	return b, nil
}

// ---------- digests ----------

func fileDigest(dir string) string {
	var names []string
	filepath.Walk(dir, func(p string, info os.FileInfo, err error) error {
		if err != nil || info.IsDir() {
			return nil
		}
		if info.Name() == "LOCK" || info.Name() == "LOG" || strings.HasPrefix(info.Name(), "LOG.") {
			return nil
		}
		names = append(names, p)
		return nil
	})
	sort.Strings(names)
	h := sha256.New()
	for _, p := range names {
		rel, _ := filepath.Rel(dir, p)
		f, err := os.Open(p)
		if err != nil {
			fmt.Fprintf(h, "%s:ERR\n", rel)
			continue
		}
		fh := sha256.New()
		n, _ := io.Copy(fh, f)
		f.Close()
		fmt.Fprintf(h, "%s:%d:%x\n", rel, n, fh.Sum(nil))
	}
	return hex.EncodeToString(h.Sum(nil))
}

// digestKit renders everything observable about the ledger: getters, LevelDB contents (iteration
// through the hook exporters), in-memory fields written by the block-adding path, and the
// bytes of every file of the data directory.
func digestKit(k *ledgerkit.Kit, accts []*account.Account, withFiles bool) map[string]string {
	d := memDigest(k)
	l := k.Ledger
	h := l.GetCurrentBlockHeight()
	sr, err := l.GetStateMerkleRoot(h)
	d["g.stateRoot"] = fmt.Sprint(sr.ToHexString(), " ", err)
	for i := uint32(0); i <= h && i < 8; i++ {
		x := l.GetBlockHash(i)
		d[fmt.Sprintf("g.blockHash%d", i)] = x.ToHexString()
		if b, err := l.GetBlockByHeight(i); err == nil && b != nil {
			bh := b.Hash()
			d[fmt.Sprintf("g.block%d", i)] = fmt.Sprintf("%s/%d", bh.ToHexString(), len(b.Transactions))
		}
	}
	for i, a := range accts {
		for _, tok := range []common.Address{ledgerkit.OntAddr, ledgerkit.OngAddr} {
			v, err := l.GetStorageItem(tok, a.Address[:])
			d[fmt.Sprintf("g.bal%d.%x", i, tok[19])] = fmt.Sprintf("%x %v", v, err != nil)
		}
	}
	if withFiles {
		d["files"] = fileDigest(k.Dir)
	}
	return d
}

// memDigest: the getters and exporters that do not need the state database.
func memDigest(k *ledgerkit.Kit) map[string]string {
	l := k.Ledger
	st := k.Store()
	d := map[string]string{}
	h := l.GetCurrentBlockHeight()
	d["g.height"] = fmt.Sprint(h)
	ch := l.GetCurrentBlockHash()
	d["g.curHash"] = ch.ToHexString()
	d["g.hdrHeight"] = fmt.Sprint(l.GetCurrentHeaderHeight())
	hh := l.GetCurrentHeaderHash()
	d["g.hdrHash"] = hh.ToHexString()
	br := l.GetBlockRootWithNewTxRoots(h+1, nil)
	d["g.blockRoot"] = br.ToHexString()
	nx := l.GetBlockHash(h + 1)
	d["g.nextIdx"] = nx.ToHexString()
	for k, v := range st.VerifC39StoreDigests() {
		d["db."+k] = v
	}
	for k, v := range st.VerifC39MemState() {
		d["mem."+k] = v
	}
	return d
}

func diffDigest(a, b map[string]string) []string {
	var out []string
	for k, v := range a {
		if b[k] != v {
			out = append(out, k)
		}
	}
	for k := range b {
		if _, ok := a[k]; !ok {
			out = append(out, k)
		}
	}
	sort.Strings(out)
	return out
}

func countOf(s string) uint64 {
	var n uint64
	fmt.Sscanf(s, "%d:", &n)
	return n
}

// ---------- interning (real values -> small ids for the model) ----------

type interner struct {
	hashes map[common.Uint256]uint64
	keys   map[string]uint64
	addrs  map[common.Address]uint64
	raw    map[string]uint64
}

func newInterner() *interner {
	return &interner{hashes: map[common.Uint256]uint64{common.UINT256_EMPTY: 0}, keys: map[string]uint64{},
		addrs: map[common.Address]uint64{}, raw: map[string]uint64{}}
}

func (in *interner) hash(h common.Uint256) uint64 {
	if v, ok := in.hashes[h]; ok {
		return v
	}
	v := uint64(len(in.hashes))
	in.hashes[h] = v
	return v
}

func (in *interner) key(k keypair.PublicKey) uint64 {
	s := string(keypair.SerializePublicKey(k))
	if v, ok := in.keys[s]; ok {
		return v
	}
	v := uint64(len(in.keys) + 1)
	in.keys[s] = v
	return v
}

func (in *interner) addr(a common.Address) uint64 {
	if v, ok := in.addrs[a]; ok {
		return v
	}
	v := uint64(len(in.addrs) + 1)
	in.addrs[a] = v
	return v
}

func (in *interner) rawid(b []byte) uint64 {
	if v, ok := in.raw[string(b)]; ok {
		return v
	}
	v := uint64(len(in.raw) + 1)
	in.raw[string(b)] = v
	return v
}

// abstractSig maps a real signature to the model's abstract signature by running the real
// verification against every known key and candidate message: SigMalformed when Deserialize
// refuses it, SigOk k m for the (key, message) it verifies under, SigOk 0 0 when none.
func abstractSig(in *interner, sig []byte, keys []keypair.PublicKey, msgs []common.Uint256) string {
	s, err := osig.Deserialize(sig)
	if err != nil {
		return "SigMalformed"
	}
	for _, m := range msgs {
		for _, k := range keys {
			if safeVerify(k, m[:], s) {
				return fmt.Sprintf("(SigOk %d %d)", in.key(k), in.hash(m))
			}
		}
	}
	return "(SigOk 0 0)"
}

// safeVerify: the crypto library's Verify; a panic inside the library counts as "does not verify"
// (as core/signature.verify treats it).
func safeVerify(k keypair.PublicKey, data []byte, s *osig.Signature) (ok bool) {
	defer func() {
		if r := recover(); r != nil {
			ok = false
		}
	}()
	return osig.Verify(k, data, s)
}
