// Package c39: invalid blocks are rejected without changing the ledger.
//
// Builds solo-consensus chains (1, 4 or 7 bookkeepers) on disk, takes a valid next block and
// offers every single-field mutation of it (with and without re-signing; wrong state root,
// duplicated transaction, bad tx root, too few / foreign / repeated signatures, ...) through
// four entry points: the network path (Block.Deserialization then Ledger.AddBlock), AddBlock on
// the in-memory block, SubmitBlock (consensus path) and validation.VerifyBlock.
//
// Oracle (on the implementation): a digest of all getters, of every key/value pair of the four
// LevelDB stores, of the in-memory fields the adding path writes and of every file of the data
// directory is taken before and after each offer; an invalid block must return an error (nil is
// allowed only for a height not above the current one) and leave the digest identical; afterwards
// a valid block must still be accepted and the ledger must equal a twin that never saw the
// invalid blocks.
//
// Correspondence: the whole history (genesis, valid blocks, every offer with its outcome and the
// observable ledger state after it) is replayed through Model/AddBlock.v inside Coq.
package c39

import (
	"fmt"
	"os"
	"path/filepath"
	"sort"
	"strings"

	"github.com/ontio/ontology-crypto/keypair"
	osig "github.com/ontio/ontology-crypto/signature"
	"github.com/ontio/ontology/account"
	"github.com/ontio/ontology/common"
	"github.com/ontio/ontology/core/store"
	"github.com/ontio/ontology/core/types"
	"github.com/ontio/ontology/core/validation"

	"verif/harness/hx"
	"verif/harness/ledgerkit"
)

func init() {
	registerGen()
	hx.Register("C39", Run)
}

type cfg struct {
	N   int  `json:"n"`   // bookkeepers
	Pre int  `json:"pre"` // valid blocks before the candidate
	Ntx int  `json:"ntx"` // transactions in the candidate block
	HF  bool `json:"hf"`  // also run the header-first phase (AddHeader of the valid header, then the mutants again)
}

type replayIn struct {
	Cfg    cfg    `json:"cfg"`
	Mut    string `json:"mut"`
	Resign bool   `json:"resign"`
	Via    string `json:"via"`
	// the valid next header was accepted through AddHeader/AddHeaders before this offer
	HeaderFirst bool `json:"header_first"`
}

var vias = []string{"wire", "mem", "submit", "verify"}

func Run(x *hx.Ctx) {
	x.CoqModule("Corr.C39")
	var in replayIn
	if x.ReplayInput(&in) {
		runChain(x, in.Cfg, 0, &in)
		return
	}
	idx := 0
	for _, raw := range x.CorpusInputs() {
		var ci replayIn
		if jsonUnmarshal(raw, &ci) == nil {
			runChain(x, ci.Cfg, idx, &ci)
			idx++
		}
	}
	cfgs := []cfg{{N: 1, Pre: 1, Ntx: 1, HF: true}, {N: 4, Pre: 2, Ntx: 2, HF: true}, {N: 7, Pre: 0, Ntx: 0, HF: true}, {N: 2, Pre: 1, Ntx: 0, HF: true}}
	extra := x.N(2, 24)
	for i := 0; i < extra; i++ {
		cfgs = append(cfgs, cfg{N: []int{1, 2, 3, 4, 5, 7}[x.Intn(6)], Pre: x.Intn(4), Ntx: x.Intn(3), HF: i%2 == 1})
	}
	for _, cf := range cfgs {
		runChain(x, cf, idx, nil)
		idx++
	}
	ioFaultProbe(x, idx)
}

// run is the state of one chain scenario.
type run struct {
	x      *hx.Ctx
	cf     cfg
	c      *chain
	in     *interner
	accts  []*account.Account
	keys   []keypair.PublicKey // every key we know (for abstracting signatures)
	leaves []uint64            // interned leaves of the block merkle tree (tx roots of blocks 0..h)
	mtab   map[string]uint64
	ttab   map[string]uint64
	atab   map[string]uint64
	baseB  int64
	baseE  int64
	last   map[string]string // digest after the previous step
	offers []string
	only   *replayIn
	hf     bool // the valid next header is in the header cache (header-first phase)
}

func idList(ids []uint64) string {
	var s []string
	for _, v := range ids {
		s = append(s, fmt.Sprint(v))
	}
	return hx.CoqList(s)
}

func (r *run) txIDs(b *types.Block) ([]uint64, []common.Uint256) {
	var ids []uint64
	var hs []common.Uint256
	for _, t := range b.Transactions {
		hs = append(hs, t.Hash())
		ids = append(ids, r.in.hash(t.Hash()))
	}
	return ids, hs
}

func (r *run) noteTables(b *types.Block) {
	l := r.c.k.Ledger
	ids, hs := r.txIDs(b)
	r.ttab[idList(ids)] = r.in.hash(common.ComputeMerkleRoot(hs))
	cur := l.GetCurrentBlockHeight()
	if b.Header.Height == cur+1 {
		nl := append(append([]uint64{}, r.leaves...), r.in.hash(b.Header.TransactionsRoot))
		r.mtab[idList(nl)] = r.in.hash(l.GetBlockRootWithNewTxRoots(cur+1, []common.Uint256{b.Header.TransactionsRoot}))
	}
	r.mtab[idList(r.leaves)] = r.in.hash(l.GetBlockRootWithNewTxRoots(cur+1, nil))
	var kids []uint64
	for _, k := range b.Header.Bookkeepers {
		kids = append(kids, r.in.key(k))
	}
	if a, err := types.AddressFromBookkeepers(b.Header.Bookkeepers); err == nil {
		r.atab[idList(kids)] = r.in.addr(a)
	}
}

func (r *run) coqBlock(b *types.Block, msgs []common.Uint256) string {
	h := b.Header
	var kids []uint64
	for _, k := range h.Bookkeepers {
		kids = append(kids, r.in.key(k))
	}
	var sigs []string
	for _, s := range h.SigData {
		sigs = append(sigs, abstractSig(r.in, s, r.keys, msgs))
	}
	ids, _ := r.txIDs(b)
	return fmt.Sprintf("(mkBlock (mkHeader %d %d %d %d %d %d %d %s %s) %s)",
		r.in.hash(h.Hash()), h.Height, r.in.hash(h.PrevBlockHash), h.Timestamp, r.in.hash(h.TransactionsRoot),
		r.in.hash(h.BlockRoot), r.in.addr(h.NextBookkeeper), idList(kids), hx.CoqList(sigs), idList(ids))
}

func (r *run) coqExec(res *store.ExecuteResult) string {
	var nt []uint64
	for _, n := range res.Notify {
		nt = append(nt, r.in.hash(n.TxHash))
	}
	type kv struct {
		k string
		v []byte
	}
	var ws []kv
	if res.WriteSet != nil {
		res.WriteSet.ForEach(func(k, v []byte) { ws = append(ws, kv{string(k), append([]byte(nil), v...)}) })
	}
	sort.Slice(ws, func(i, j int) bool { return ws[i].k < ws[j].k })
	var wl []string
	for _, w := range ws {
		if len(w.v) == 0 {
			wl = append(wl, fmt.Sprintf("(%d, None)", r.in.rawid([]byte(w.k))))
		} else {
			wl = append(wl, fmt.Sprintf("(%d, Some %d)", r.in.rawid([]byte(w.k)), r.in.rawid(w.v)))
		}
	}
	return fmt.Sprintf("(mkExec %d %d %s %s)", r.in.hash(res.Hash), r.in.hash(res.MerkleRoot), idList(nt), hx.CoqList(wl))
}

// coqObs renders the observable projection compared with the model after each step.
func (r *run) coqObs(d map[string]string, stateRootValid bool) string {
	hid := func(k string) uint64 {
		h, err := common.Uint256FromHexString(strings.Fields(d[k])[0])
		if err != nil {
			return 0
		}
		return r.in.hash(h)
	}
	sroot := uint64(0)
	if stateRootValid && strings.HasSuffix(d["g.stateRoot"], "<nil>") {
		sroot = hid("g.stateRoot")
	}
	return fmt.Sprintf("(mkObs %s %d %s %d %d %d %d %s %s)", d["g.height"], hid("g.curHash"), d["g.hdrHeight"], hid("g.hdrHash"),
		hid("g.blockRoot"), sroot, hid("g.nextIdx"),
		hx.CoqZ(int64(countOf(d["db.block"]))-r.baseB), hx.CoqZ(int64(countOf(d["db.ledgerevent"]))-r.baseE))
}

var errTable = []struct{ sub, coq string }{
	{"not equal next block height", "EHeight"},
	{"not equal next header height", "EHeight"},
	{"cannot find pre header", "EPrevNotFound"},
	{"can not find prevHeader", "EPrevNotFound"},
	{"can not find previous block", "EPrevNotFound"},
	{"block height is incorrect", "EPrevHeight"},
	{"block timestamp is incorrect", "ETimestamp"},
	{"wrong multi-sig param", "EBookkeeperParam"},
	{"bookkeeper address error", "EBookkeeperAddr"},
	{"not enough signatures in multi-signature", "ESigNotEnough"},
	{"invalid signature data", "ESigData"},
	{"multi-signature verification failed", "ESigVerify"},
	{"state merkle root mismatch", "EStateRoot"},
	{"wrong block root", "EBlockRoot"},
	{"duplicated transaction in block", "EDupTx"},
	{"mismatched transaction root", "ETxRoot"},
	{"stateStore.CommitTo", "(EIo IoCommitState)"},
	{"eventStore.CommitTo", "(EIo IoCommitEvent)"},
	{"blockStore.CommitTo", "(EIo IoCommitBlock)"},
}

func errEnum(err error) string {
	if err == nil {
		return ""
	}
	s := err.Error()
	for _, e := range errTable {
		if strings.Contains(s, e.sub) {
			return e.coq
		}
	}
	return "EOther"
}

// sigsOK: the first m signatures verify over the header hash under m distinct positions of the
// header's key list.
func sigsOK(h *types.Header, m int) bool {
	if len(h.SigData) < m || m < 1 {
		return false
	}
	hash := h.Hash()
	used := make([]bool, len(h.Bookkeepers))
	for i := 0; i < m; i++ {
		s, err := osig.Deserialize(h.SigData[i])
		if err != nil {
			return false
		}
		ok := false
		for j, k := range h.Bookkeepers {
			if !used[j] && safeVerify(k, hash[:], s) {
				used[j] = true
				ok = true
				break
			}
		}
		if !ok {
			return false
		}
	}
	return true
}

// expectation is the harness's own statement of validity (independent of the node's checks).
func (r *run) expectation(b *types.Block, via string, sroot common.Uint256, hasEx bool, res *store.ExecuteResult) string {
	l := r.c.k.Ledger
	cur := l.GetCurrentBlockHeight()
	h := b.Header
	if h.Height <= cur {
		return "ignore"
	}
	tip, err := l.GetHeaderByHash(l.GetCurrentBlockHash())
	if err != nil {
		panic(err)
	}
	ok := h.Height == cur+1 && h.PrevBlockHash == tip.Hash() && h.Timestamp > tip.Timestamp
	if ok {
		ok = h.BlockRoot == l.GetBlockRootWithNewTxRoots(cur+1, []common.Uint256{h.TransactionsRoot})
	}
	if ok {
		a, err := types.AddressFromBookkeepers(h.Bookkeepers)
		ok = err == nil && a == tip.NextBookkeeper && sigsOK(h, quorum(len(h.Bookkeepers)))
	}
	switch via {
	case "wire":
		seen := map[common.Uint256]bool{}
		var hs []common.Uint256
		for _, t := range b.Transactions {
			if seen[t.Hash()] {
				ok = false
			}
			seen[t.Hash()] = true
			hs = append(hs, t.Hash())
		}
		ok = ok && common.ComputeMerkleRoot(hs) == h.TransactionsRoot
		fallthrough
	case "mem":
		ok = ok && hasEx && (len(b.Transactions) == 0 || res.MerkleRoot == sroot)
	case "submit":
	}
	if ok {
		return "accept"
	}
	return "reject"
}

// hdrExpectation: the harness's own statement of validity of a header offered to AddHeader
// (header-first sync): next header height, known predecessor one below, later timestamp,
// the predecessor's bookkeeper set, enough valid signatures. Block root, transactions and
// state are not part of a header offer.
func (r *run) hdrExpectation(h *types.Header) string {
	l := r.c.k.Ledger
	if h.Height != l.GetCurrentHeaderHeight()+1 {
		return "reject"
	}
	if h.Height == 0 {
		return "accept"
	}
	prev, err := l.GetHeaderByHash(h.PrevBlockHash)
	if err != nil || prev == nil {
		return "reject"
	}
	ok := prev.Height+1 == h.Height && h.Timestamp > prev.Timestamp
	if ok {
		a, err := types.AddressFromBookkeepers(h.Bookkeepers)
		ok = err == nil && a == prev.NextBookkeeper && sigsOK(h, quorum(len(h.Bookkeepers)))
	}
	if ok {
		return "accept"
	}
	return "reject"
}

// step offers one block through one entry point, runs the oracle and records the
// correspondence offer. Returns whether the ledger accepted it.
func (r *run) step(mu *mutant, via string, mustAccept bool, msgs []common.Uint256) bool {
	x := r.x
	l := r.c.k.Ledger
	blk := cloneBlock(mu.blk)
	cur := l.GetCurrentBlockHeight()
	var res store.ExecuteResult
	hasEx := false
	if blk.Header.Height == cur+1 {
		rr, err := l.ExecuteBlock(blk)
		if err == nil {
			res, hasEx = rr, true
		}
	}
	sroot := res.MerkleRoot
	switch mu.stateRoot {
	case "random":
		sroot = randHash(x)
	case "zero":
		sroot = common.UINT256_EMPTY
		if res.MerkleRoot == sroot {
			sroot[0] = 1
		}
	}
	exp := r.expectation(blk, via, sroot, hasEx, &res)
	if via == "verify" {
		exp = "pure"
	}
	if via == "hdr" || via == "hdrs" {
		exp = r.hdrExpectation(blk.Header)
	}
	in := replayIn{Cfg: r.cf, Mut: mu.Name, Resign: mu.Resign, Via: via, HeaderFirst: r.hf}
	if exp == "accept" && !mustAccept {
		return false // a valid variant: kept for the end of the scenario
	}
	r.noteTables(blk)
	before := r.last
	if before == nil {
		before = digestKit(r.c.k, r.accts, true)
	}
	var err error
	decoded := false
	x.Eval()
	panicked, pmsg := hx.Recover(func() {
		switch via {
		case "wire":
			nb, derr := types.BlockFromRawBytes(blk.ToArray())
			if derr != nil {
				err = derr
				return
			}
			decoded = true
			err = l.AddBlock(nb, nil, sroot)
		case "mem":
			err = l.AddBlock(cloneBlock(blk), nil, sroot)
		case "submit":
			err = l.SubmitBlock(cloneBlock(blk), nil, res)
		case "verify":
			err = validation.VerifyBlock(cloneBlock(blk), l, false)
		case "hdr":
			err = r.c.k.Store().AddHeader(cloneHeader(blk.Header))
		case "hdrs":
			err = l.AddHeaders([]*types.Header{cloneHeader(blk.Header)})
		}
	})
	_ = decoded
	after := digestKit(r.c.k, r.accts, true)
	r.last = after
	changed := diffDigest(before, after)
	kind := mu.Kind
	x.Count("via:" + via)
	x.Count("mutation:" + kind)
	x.Count(fmt.Sprintf("bookkeepers:%d", r.cf.N))
	got := map[string]interface{}{"error": fmt.Sprint(err), "changed": changed}
	if panicked {
		x.Fail("panic:"+via, "offering a block panicked", in, pmsg, "error value")
		return false
	}
	accepted := false
	switch exp {
	case "pure":
		if len(changed) > 0 {
			x.Fail("verifyblock-changed-state", "validation.VerifyBlock changed the ledger", in, got, "digest unchanged")
		}
		x.Count("outcome:verify:" + orNil(errEnum(err)))
	case "ignore":
		x.Count("outcome:ignored-nil")
		if len(changed) > 0 {
			x.Fail("changed-on-ignore:"+kind, "a block at a height not above the current one changed the ledger", in, got, "digest unchanged")
		}
		if err != nil {
			x.Count("outcome:stale-height-error")
		}
	case "reject":
		x.Count("outcome:" + orNil(errEnum(err)))
		if via == "hdr" || via == "hdrs" {
			kind = "header:" + kind
		}
		if r.hf {
			x.Count("header-first-offers")
		}
		if err == nil {
			x.Fail("accepted-invalid:"+kind, "an invalid block was not rejected (no error returned)", in, got, "an error and an unchanged ledger")
			accepted = len(changed) > 0
		} else if len(changed) > 0 {
			x.Fail("changed-on-reject:"+kind, "a rejected block left the ledger changed", in, got, "digest identical before and after")
		}
		x.Nontrivial(fmt.Sprintf("%v|%s|%v|%s|%v", r.cf, mu.Name, mu.Resign, via, r.hf))
	case "accept":
		x.Count("outcome:added")
		if via == "hdr" || via == "hdrs" {
			if err != nil || after["g.hdrHeight"] != fmt.Sprint(blk.Header.Height) {
				x.Fail("rejected-valid-header", "a valid next header was not accepted by AddHeader", in, got, "nil error, header height+1")
			} else {
				accepted = true
			}
		} else if err != nil || after["g.height"] != fmt.Sprint(cur+1) {
			x.Fail("rejected-valid:"+kind, "a valid block was not added (after the invalid offers)", in, got, "nil error, height+1")
		} else {
			accepted = true
		}
	}
	if exp == "reject" || exp == "ignore" {
		x.Sample(map[string]interface{}{"cfg": r.cf, "mutation": mu.Name, "resigned": mu.Resign, "via": via, "expected": exp, "error": fmt.Sprint(err)})
	}
	// correspondence record
	viaC := map[string]string{"wire": "VWire", "mem": "VMem", "submit": "VSubmit", "verify": "VVerify", "hdr": "VHeader", "hdrs": "VHeaders"}[via]
	exC := "None"
	if hasEx {
		exC = "(Some " + r.coqExec(&res) + ")"
	}
	var resC string
	if via == "verify" || via == "hdr" || via == "hdrs" {
		resC = "(OVerify " + hx.CoqOpt(err != nil, errEnum(err)) + ")"
	} else if err != nil {
		resC = "(OOut (Rejected " + errEnum(err) + "))"
	} else if after["g.height"] == fmt.Sprint(cur) {
		resC = "(OOut Ignored)"
	} else {
		resC = "(OOut Added)"
	}
	r.offers = append(r.offers, fmt.Sprintf("(mkOffer %s %s %d %s None %s %s)", viaC, r.coqBlock(blk, msgs), r.in.hash(sroot), exC, resC, r.coqObs(after, true)))
	if after["g.height"] == fmt.Sprint(cur+1) {
		r.leaves = append(r.leaves, r.in.hash(blk.Header.TransactionsRoot))
	}
	return accepted
}

func orNil(s string) string {
	if s == "" {
		return "nil"
	}
	return s
}

func coqTable(m map[string]uint64) string {
	var ks []string
	for k := range m {
		ks = append(ks, k)
	}
	sort.Strings(ks)
	var s []string
	for _, k := range ks {
		s = append(s, fmt.Sprintf("(%s, %d)", k, m[k]))
	}
	return hx.CoqList(s)
}

func (r *run) transfers(n int) []*types.Transaction {
	var txs []*types.Transaction
	for i := 0; i < n; i++ {
		to := r.c.others[r.x.Intn(len(r.c.others))]
		tok := ledgerkit.OntAddr
		tx, err := r.c.k.TransferTx(tok, r.c.k.Acct, to.Address, uint64(1+r.x.Intn(1000)), 0, 20000)
		if err != nil {
			panic(err)
		}
		txs = append(txs, tx)
	}
	return txs
}

func runChain(x *hx.Ctx, cf cfg, idx int, only *replayIn) {
	dir := filepath.Join(x.OutDir, fmt.Sprintf("chain%d", idx))
	c, err := newChain(dir, cf.N)
	if err != nil {
		panic(err)
	}
	defer func() {
		c.k.Close()
		os.RemoveAll(dir)
		os.RemoveAll(dir + "-twin")
	}()
	r := &run{x: x, cf: cf, c: c, in: newInterner(), mtab: map[string]uint64{}, ttab: map[string]uint64{}, atab: map[string]uint64{}, only: only}
	r.accts = append([]*account.Account{c.k.Acct}, c.others...)
	r.keys = append(pubs(c.bks), pubs(r.accts)...)
	// genesis
	d0 := digestKit(c.k, r.accts, true)
	r.baseB, r.baseE = int64(countOf(d0["db.block"])), int64(countOf(d0["db.ledgerevent"]))
	g := c.k.Genesis
	r.leaves = []uint64{r.in.hash(g.Header.TransactionsRoot)}
	r.noteTables(g)
	gid, _ := r.txIDs(g)
	sr0, _ := c.k.Ledger.GetStateMerkleRoot(0)
	gex := fmt.Sprintf("(mkExec %d %d %s [])", r.in.hash(sr0), r.in.hash(sr0), idList(gid))
	gblock := r.coqBlock(g, nil)
	gobs := r.coqObs(d0, true)
	r.last = d0

	// valid history
	for i := 0; i < cf.Pre; i++ {
		b, err := c.makeBlock(r.transfers(1 + x.Intn(2)))
		if err != nil {
			panic(err)
		}
		via := vias[x.Intn(3)]
		if !r.step(&mutant{Name: "valid-history", Kind: "valid", blk: b}, via, true, []common.Uint256{b.Hash()}) {
			x.Note(fmt.Sprintf("chain %v: history block %d not accepted", cf, i+1))
			return
		}
	}

	// twin of the ledger as it is before any invalid offer
	preClose := memDigest(c.k)
	c.k.Close()
	if err := ledgerkit.CopyDir(dir, dir+"-twin"); err != nil {
		panic(err)
	}
	if err := c.k.Open(); err != nil {
		panic(err)
	}
	// re-opening itself writes to the block store (LoadBloomBits records the filter start):
	// re-base the key counts compared with the model, which does not model a restart
	postOpen := memDigest(c.k)
	r.baseB += int64(countOf(postOpen["db.block"])) - int64(countOf(preClose["db.block"]))
	r.baseE += int64(countOf(postOpen["db.ledgerevent"])) - int64(countOf(preClose["db.ledgerevent"]))
	r.last = nil

	l := c.k.Ledger
	tip, err := l.GetHeaderByHash(l.GetCurrentBlockHash())
	if err != nil {
		panic(err)
	}
	valid, err := c.makeBlock(r.transfers(cf.Ntx))
	if err != nil {
		panic(err)
	}
	m := &mctx{c: c, x: x, valid: valid, tip: tip, prev2: tip.PrevBlockHash, extra: r.transfers(1)[0]}
	msgs := func(b *types.Block) []common.Uint256 {
		return []common.Uint256{b.Hash(), valid.Hash(), tip.Hash()}
	}
	muts := allMutants(m)
	var acceptable []*mutant
	wants := func(mu *mutant, via string, hf bool) bool {
		return only == nil || (only.Mut == mu.Name && only.Resign == mu.Resign && only.Via == via && only.HeaderFirst == hf)
	}
	for _, mu := range muts {
		for _, via := range vias {
			if !wants(mu, via, false) {
				continue
			}
			hBefore := l.GetCurrentBlockHeight()
			r.step(mu, via, false, msgs(mu.blk))
			if l.GetCurrentBlockHeight() != hBefore {
				// an invalid block got in: the scenario cannot continue on this chain
				x.Note(fmt.Sprintf("chain %v: stopped after %s/%s was added", cf, mu.Name, via))
				r.emit(gblock, gex, gobs)
				return
			}
		}
		// valid variants (e.g. another timestamp, re-signed) are candidates for the final block
		if mu.stateRoot == "" || len(mu.blk.Transactions) == 0 {
			acceptable = append(acceptable, mu)
		}
	}
	if cf.HF {
		// header-first sync. (a) every mutated header offered to AddHeader / AddHeaders itself:
		// a rejected header must leave header height, header cache and index unchanged
		for i, mu := range muts {
			via := []string{"hdr", "hdrs"}[i%2]
			if !wants(mu, via, false) {
				continue
			}
			hh := l.GetCurrentHeaderHeight()
			r.step(mu, via, false, msgs(mu.blk))
			if l.GetCurrentHeaderHeight() != hh {
				x.Note(fmt.Sprintf("chain %v: stopped after header %s/%s was accepted", cf, mu.Name, via))
				r.emit(gblock, gex, gobs)
				return
			}
		}
		// (b) the VALID next header is accepted by AddHeader (or AddHeaders): it is now in the
		// header cache and the header index; the digest taken after this step is the 'before'
		// of the offers below. (c) every mutant again through AddBlock and SubmitBlock.
		if only == nil || only.HeaderFirst {
			hv := &mutant{Name: "valid-header", Kind: "valid", blk: valid}
			if !r.step(hv, []string{"hdr", "hdrs"}[x.Intn(2)], true, msgs(valid)) {
				r.emit(gblock, gex, gobs)
				return
			}
			r.hf = true
			for _, mu := range muts {
				for _, via := range []string{"mem", "submit"} {
					if !wants(mu, via, true) {
						continue
					}
					hBefore := l.GetCurrentBlockHeight()
					r.step(mu, via, false, msgs(mu.blk))
					if l.GetCurrentBlockHeight() != hBefore {
						x.Note(fmt.Sprintf("chain %v: stopped after %s/%s (header-first) was added", cf, mu.Name, via))
						r.emit(gblock, gex, gobs)
						return
					}
				}
			}
			r.hf = false
		}
	}
	if only != nil {
		r.emit(gblock, gex, gobs)
		return
	}
	// after all invalid offers: a valid block is still accepted, and the ledger equals the twin
	// that only ever saw the valid block.
	final := &mutant{Name: "valid", Kind: "valid", blk: valid}
	finalVia := vias[x.Intn(3)]
	var cands []*mutant
	for _, mu := range acceptable {
		for _, via := range vias[:3] {
			blk := cloneBlock(mu.blk)
			rr, err := l.ExecuteBlock(blk)
			if err != nil {
				continue
			}
			if r.expectation(blk, via, rr.MerkleRoot, true, &rr) == "accept" {
				cands = append(cands, mu)
				break
			}
		}
	}
	x.Count(fmt.Sprintf("valid-variants:%d", len(cands)))
	if len(cands) > 0 && x.Intn(2) == 0 && !cf.HF {
		final = cands[x.Intn(len(cands))]
		for _, via := range []string{"mem", "submit", "wire"} {
			blk := cloneBlock(final.blk)
			rr, _ := l.ExecuteBlock(blk)
			if r.expectation(blk, via, rr.MerkleRoot, true, &rr) == "accept" {
				finalVia = via
			}
		}
		x.Count("final:variant:" + final.Name)
	}
	final = &mutant{Name: final.Name, Kind: "valid", Resign: final.Resign, blk: final.blk}
	if !r.step(final, finalVia, true, msgs(final.blk)) {
		r.emit(gblock, gex, gobs)
		return
	}
	d1 := digestKit(c.k, r.accts, false)
	c.k.Close()
	tw, err := c.k.OpenAt(dir + "-twin")
	if err != nil {
		panic(err)
	}
	tb := cloneBlock(final.blk)
	rr, err := tw.Ledger.ExecuteBlock(tb)
	if err == nil {
		switch finalVia {
		case "wire":
			nb, derr := types.BlockFromRawBytes(tb.ToArray())
			if derr == nil {
				err = tw.Ledger.AddBlock(nb, nil, rr.MerkleRoot)
			} else {
				err = derr
			}
		case "mem":
			err = tw.Ledger.AddBlock(tb, nil, rr.MerkleRoot)
		case "submit":
			err = tw.Ledger.SubmitBlock(tb, nil, rr)
		}
	}
	d2 := digestKit(tw, r.accts, false)
	tw.Close()
	if err != nil {
		x.Note("twin: " + err.Error())
	}
	if df := diffDigest(d1, d2); len(df) > 0 {
		x.Fail("trace-of-rejected-blocks", "after the same valid block, the ledger that was offered invalid blocks differs from one that was not",
			replayIn{Cfg: cf, Mut: "*", Via: finalVia}, df, "identical getters, store contents and in-memory state")
	}
	x.Count("twin-compared")
	if err := c.k.Open(); err != nil {
		panic(err)
	}
	r.emit(gblock, gex, gobs)
}

func (r *run) emit(gblock, gex, gobs string) {
	r.x.Case(fmt.Sprintf("CChain %s %s %s %s %s %s %s", coqTable(r.mtab), coqTable(r.ttab), coqTable(r.atab), gblock, gex, gobs,
		"[\n  "+strings.Join(r.offers, ";\n  ")+"]"),
		map[string]interface{}{"cfg": r.cf, "offers": len(r.offers)})
}

// ioFaultProbe: outside the property's quantifier (the block is VALID, the environment fails).
// The state store's LevelDB handle is closed, so the last commit of submitBlock fails after
// the header index, both merkle trees, the merkle file, the block store and the event store
// were already written. Recorded as a note and as a correspondence case for the model's
// [EIo IoCommitState] branch; not an oracle failure.
func ioFaultProbe(x *hx.Ctx, idx int) {
	cf := cfg{N: 1, Pre: 1, Ntx: 1}
	dir := filepath.Join(x.OutDir, fmt.Sprintf("chain%d-iofault", idx))
	c, err := newChain(dir, cf.N)
	if err != nil {
		panic(err)
	}
	defer func() {
		hx.Recover(func() { c.k.Close() })
		os.RemoveAll(dir)
	}()
	r := &run{x: x, cf: cf, c: c, in: newInterner(), mtab: map[string]uint64{}, ttab: map[string]uint64{}, atab: map[string]uint64{}}
	r.accts = append([]*account.Account{c.k.Acct}, c.others...)
	r.keys = append(pubs(c.bks), pubs(r.accts)...)
	d0 := digestKit(c.k, r.accts, false)
	r.baseB, r.baseE = int64(countOf(d0["db.block"])), int64(countOf(d0["db.ledgerevent"]))
	g := c.k.Genesis
	r.leaves = []uint64{r.in.hash(g.Header.TransactionsRoot)}
	r.noteTables(g)
	gid, _ := r.txIDs(g)
	sr0, _ := c.k.Ledger.GetStateMerkleRoot(0)
	gex := fmt.Sprintf("(mkExec %d %d %s [])", r.in.hash(sr0), r.in.hash(sr0), idList(gid))
	gblock := r.coqBlock(g, nil)
	gobs := r.coqObs(d0, true)
	r.last = d0
	b, err := c.makeBlock(r.transfers(1))
	if err != nil {
		panic(err)
	}
	if !r.step(&mutant{Name: "valid-history", Kind: "valid", blk: b}, "mem", true, []common.Uint256{b.Hash()}) {
		return
	}
	l := c.k.Ledger
	v, err := c.makeBlock(r.transfers(1))
	if err != nil {
		panic(err)
	}
	res, err := l.ExecuteBlock(v)
	if err != nil {
		panic(err)
	}
	r.noteTables(v)
	before := memDigest(c.k)
	if err := c.k.Store().VerifC39CloseStateDB(); err != nil {
		x.Note("iofault: close state db: " + err.Error())
		return
	}
	var serr, serr2 error
	x.Eval()
	p, msg := hx.Recover(func() { serr = l.SubmitBlock(cloneBlock(v), nil, res) })
	if p {
		x.Note("iofault: SubmitBlock panicked: " + msg)
		return
	}
	after := memDigest(c.k)
	delete(before, "db.states") // the state database is closed: it cannot be read any more
	delete(after, "db.states")
	changed := diffDigest(before, after)
	// the same valid block offered again
	p, msg = hx.Recover(func() { serr2 = l.SubmitBlock(cloneBlock(v), nil, res) })
	x.Count("iofault-probe")
	x.Note(fmt.Sprintf("environment-fault probe (outside the property's quantifier): state-store commit made to fail on a VALID block: error=%q; changed although the block was not added: %v; re-offering the same block: %q (panicked=%v %s)",
		fmt.Sprint(serr), changed, fmt.Sprint(serr2), p, msg))
	if serr != nil {
		r.offers = append(r.offers, fmt.Sprintf("(mkOffer VSubmit %s %d (Some %s) (Some IoCommitState) (OOut (Rejected %s)) %s)",
			r.coqBlock(v, []common.Uint256{v.Hash()}), r.in.hash(res.MerkleRoot), r.coqExec(&res), errEnum(serr), r.coqObs(after, false)))
		r.emit(gblock, gex, gobs)
	}
}
