package c39

import (
	"math"

	"github.com/ontio/ontology-crypto/keypair"
	"github.com/ontio/ontology/account"
	"github.com/ontio/ontology/common"
	"github.com/ontio/ontology/core/types"

	"verif/harness/hx"
)

// mutant is one single-field mutation of a valid next block.
type mutant struct {
	Name   string // mutation name (stable; used in replay files)
	Kind   string // family: height, prev, timestamp, blockroot, txroot, sigs, bookkeepers, stateroot, txs, hashed-field
	Resign bool   // header re-signed by the real bookkeepers after the mutation
	blk    *types.Block
	// state root handed to AddBlock: "" = the root obtained by executing this very block,
	// "random" / "zero" = a wrong one
	stateRoot string
}

type mctx struct {
	c     *chain
	x     *hx.Ctx
	valid *types.Block
	tip   *types.Header
	prev2 common.Uint256 // hash of the block below the tip (or zero)
	extra *types.Transaction
}

func randHash(x *hx.Ctx) common.Uint256 {
	var h common.Uint256
	copy(h[:], x.Bytes(32))
	return h
}

// headerMutations: every header field, several values each; applied to a clone.
func headerMutations(m *mctx) []struct {
	name, kind string
	f          func(h *types.Header)
} {
	h := m.tip.Height
	curRoot := m.c.k.Ledger.GetBlockRootWithNewTxRoots(h+1, nil)
	rh1, rh2, rh3 := randHash(m.x), randHash(m.x), randHash(m.x)
	var ra common.Address
	copy(ra[:], m.x.Bytes(20))
	payload := m.x.Bytes(1 + m.x.Intn(8))
	type hm = struct {
		name, kind string
		f          func(h *types.Header)
	}
	l := []hm{
		{"version+1", "hashed-field", func(x *types.Header) { x.Version++ }},
		{"prev=random", "prev", func(x *types.Header) { x.PrevBlockHash = rh1 }},
		{"prev=zero", "prev", func(x *types.Header) { x.PrevBlockHash = common.UINT256_EMPTY }},
		{"prev=below-tip", "prev", func(x *types.Header) { x.PrevBlockHash = m.prev2 }},
		{"prev=self", "prev", func(x *types.Header) { x.PrevBlockHash = m.valid.Hash() }},
		{"txroot=random", "txroot", func(x *types.Header) { x.TransactionsRoot = rh2 }},
		{"txroot=zero", "txroot", func(x *types.Header) { x.TransactionsRoot = common.UINT256_EMPTY }},
		{"blockroot=random", "blockroot", func(x *types.Header) { x.BlockRoot = rh3 }},
		{"blockroot=zero", "blockroot", func(x *types.Header) { x.BlockRoot = common.UINT256_EMPTY }},
		{"blockroot=current", "blockroot", func(x *types.Header) { x.BlockRoot = curRoot }},
		{"blockroot=bitflip", "blockroot", func(x *types.Header) { x.BlockRoot[m.x.Intn(32)] ^= 1 << uint(m.x.Intn(8)) }},
		{"time=tip", "timestamp", func(x *types.Header) { x.Timestamp = m.tip.Timestamp }},
		{"time=tip-1", "timestamp", func(x *types.Header) { x.Timestamp = m.tip.Timestamp - 1 }},
		{"time=0", "timestamp", func(x *types.Header) { x.Timestamp = 0 }},
		{"time=later", "timestamp", func(x *types.Header) { x.Timestamp += 7 }},
		{"height=tip", "height", func(x *types.Header) { x.Height = h }},
		{"height=0", "height", func(x *types.Header) { x.Height = 0 }},
		{"height=tip+2", "height", func(x *types.Header) { x.Height = h + 2 }},
		{"height=tip+1+2^31", "height", func(x *types.Header) { x.Height = h + 1 + (1 << 31) }},
		{"height=maxuint32", "height", func(x *types.Header) { x.Height = math.MaxUint32 }},
		{"consensusdata+1", "hashed-field", func(x *types.Header) { x.ConsensusData++ }},
		{"payload=random", "hashed-field", func(x *types.Header) { x.ConsensusPayload = payload }},
		{"nextbookkeeper=random", "hashed-field", func(x *types.Header) { x.NextBookkeeper = ra }},
	}
	return l
}

func pubs(as []*account.Account) []keypair.PublicKey {
	var ks []keypair.PublicKey
	for _, a := range as {
		ks = append(ks, a.PublicKey)
	}
	return ks
}

// allMutants enumerates the mutation set for the valid block m.valid.
func allMutants(m *mctx) []*mutant {
	var out []*mutant
	add := func(name, kind string, resign bool, b *types.Block, sr string) {
		out = append(out, &mutant{Name: name, Kind: kind, Resign: resign, blk: b, stateRoot: sr})
	}
	c := m.c
	// 1. every header field, without and with re-signing
	for _, hm := range headerMutations(m) {
		for _, resign := range []bool{false, true} {
			b := cloneBlock(m.valid)
			hm.f(b.Header)
			b.Header = cloneHeader(b.Header)
			if resign {
				c.sign(b)
			}
			add(hm.name, hm.kind, resign, b, "")
		}
	}
	// 2. bookkeeper list (signatures left as they are unless said otherwise)
	bkm := func(name string, f func(h *types.Header)) {
		b := cloneBlock(m.valid)
		f(b.Header)
		add(name, "bookkeepers", false, b, "")
	}
	foreign := c.others
	if c.n > 1 {
		bkm("bk-drop-last", func(h *types.Header) { h.Bookkeepers = h.Bookkeepers[:len(h.Bookkeepers)-1] })
		bkm("bk-reverse", func(h *types.Header) {
			for i, j := 0, len(h.Bookkeepers)-1; i < j; i, j = i+1, j-1 {
				h.Bookkeepers[i], h.Bookkeepers[j] = h.Bookkeepers[j], h.Bookkeepers[i]
			}
		})
	}
	bkm("bk-add-foreign", func(h *types.Header) { h.Bookkeepers = append(h.Bookkeepers, foreign[0].PublicKey) })
	bkm("bk-replace-first", func(h *types.Header) { h.Bookkeepers[0] = foreign[0].PublicKey })
	bkm("bk-empty", func(h *types.Header) { h.Bookkeepers = nil })
	bkm("bk-dup-first", func(h *types.Header) { h.Bookkeepers = append(h.Bookkeepers, h.Bookkeepers[0]) })
	bkm("bk-17-keys", func(h *types.Header) {
		for len(h.Bookkeepers) < 17 {
			h.Bookkeepers = append(h.Bookkeepers, h.Bookkeepers[0])
		}
	})
	bkm("bk-foreign-authority", func(h *types.Header) {
		// a self-consistent header of another authority: its own keys, enough of its own signatures
		var fs []*account.Account
		for len(fs) < c.n {
			fs = append(fs, foreign[len(fs)%len(foreign)])
		}
		if c.n > len(foreign) {
			fs = fs[:len(foreign)]
		}
		h.Bookkeepers = pubs(fs)
		h.SigData = nil
		hh := m.valid.Hash()
		for i := 0; i < quorum(len(fs)); i++ {
			h.SigData = append(h.SigData, signHash(fs[i], hh))
		}
	})
	// 3. signatures
	sgm := func(name string, f func(h *types.Header)) {
		b := cloneBlock(m.valid)
		f(b.Header)
		add(name, "sigs", false, b, "")
	}
	vh := m.valid.Hash()
	sgm("sig-none", func(h *types.Header) { h.SigData = nil })
	sgm("sig-one-too-few", func(h *types.Header) { h.SigData = h.SigData[:len(h.SigData)-1] })
	sgm("sig-corrupt-first", func(h *types.Header) { s := h.SigData[0]; s[len(s)/2] ^= 0x40 })
	sgm("sig-corrupt-last", func(h *types.Header) { s := h.SigData[len(h.SigData)-1]; s[len(s)-1] ^= 0x01 })
	sgm("sig-truncate-first", func(h *types.Header) { h.SigData[0] = h.SigData[0][:1] })
	sgm("sig-empty-bytes-last", func(h *types.Header) { h.SigData[len(h.SigData)-1] = []byte{} })
	sgm("sig-foreign-first", func(h *types.Header) { h.SigData[0] = signHash(foreign[1], vh) })
	sgm("sig-over-tip-hash", func(h *types.Header) {
		th := m.tip.Hash()
		for i := range h.SigData {
			h.SigData[i] = signHash(c.bks[i], th)
		}
	})
	sgm("sig-garbage-first-then-valid", func(h *types.Header) {
		h.SigData = append([][]byte{signHash(foreign[2], vh)}, h.SigData...)
	})
	sgm("sig-extra-garbage-tail", func(h *types.Header) { h.SigData = append(h.SigData, []byte{1, 2, 3}) })
	if c.m > 1 {
		sgm("sig-same-signer-m-times", func(h *types.Header) {
			for i := range h.SigData {
				h.SigData[i] = signHash(c.bks[0], vh)
			}
		})
		sgm("sig-reverse", func(h *types.Header) {
			for i, j := 0, len(h.SigData)-1; i < j; i, j = i+1, j-1 {
				h.SigData[i], h.SigData[j] = h.SigData[j], h.SigData[i]
			}
		})
		sgm("sig-m-1-valid-plus-foreign", func(h *types.Header) { h.SigData[len(h.SigData)-1] = signHash(foreign[0], vh) })
	}
	if c.n > c.m {
		sgm("sig-other-quorum", func(h *types.Header) {
			h.SigData = nil
			for i := c.n - c.m; i < c.n; i++ {
				h.SigData = append(h.SigData, signHash(c.bks[i], vh))
			}
		})
	}
	// 4. state root argument
	add("stateroot=random", "stateroot", false, cloneBlock(m.valid), "random")
	add("stateroot=zero", "stateroot", false, cloneBlock(m.valid), "zero")
	// 5. transaction list against the header
	txs := m.valid.Transactions
	rebuilt := func(name string, ntx []*types.Transaction) {
		b := cloneBlock(m.valid)
		b.Transactions = ntx
		b.RebuildMerkleRoot()
		b.Header.BlockRoot = c.k.Ledger.GetBlockRootWithNewTxRoots(m.tip.Height+1, []common.Uint256{b.Header.TransactionsRoot})
		c.sign(b)
		add(name, "txs", true, b, "")
	}
	keep := func(name string, ntx []*types.Transaction) {
		b := cloneBlock(m.valid)
		b.Transactions = ntx
		add(name, "txs", false, b, "")
	}
	if len(txs) > 0 {
		rebuilt("tx-dup-rebuilt", append(append([]*types.Transaction{}, txs...), txs[0]))
		keep("tx-dup-keep-header", append(append([]*types.Transaction{}, txs...), txs[0]))
		keep("tx-drop-keep-header", txs[:len(txs)-1])
		sw := append([]*types.Transaction{}, txs...)
		sw[0] = m.extra
		keep("tx-swap-keep-header", sw)
	}
	keep("tx-add-keep-header", append(append([]*types.Transaction{}, txs...), m.extra))
	{
		// header announces a tx root that is not the root of the transactions, block root and
		// signatures consistent with the announced root
		b := cloneBlock(m.valid)
		b.Header.TransactionsRoot = randHash(m.x)
		b.Header.BlockRoot = c.k.Ledger.GetBlockRootWithNewTxRoots(m.tip.Height+1, []common.Uint256{b.Header.TransactionsRoot})
		c.sign(b)
		add("txroot=random-consistent", "txroot", true, b, "")
	}
	return out
}
