// Package c03: the per-block write set and state-change hash (core/store/overlaydb OverlayDB over
// MemDB) depend only on the last write per touched key.
//
// Correspondence: random put/delete histories on a real OverlayDB over goleveldb's in-memory
// storage; GetWriteSet().ForEach output (after the history, for small ones after every operation)
// and ChangeHash are compared with Model/WriteSet.v (Gallina SHA-256).
// Oracle (implementation only): every re-ordering / padding / pruning of a history that keeps the
// last operation per key must give the same ForEach output and the same ChangeHash, the ForEach
// output must be the key-sorted last-write map, and neither may depend on the backing store or on
// a previous use of the overlay before Reset.
package c03

import (
	"bytes"
	"fmt"
	"sort"
	"strings"

	"github.com/ontio/ontology/core/store/leveldbstore"
	"github.com/ontio/ontology/core/store/overlaydb"

	"verif/harness/gen"
	"verif/harness/hx"
)

func init() {
	gen.RegisterFile("WriteSetGen.v", produceWriteSetGen)
	hx.Register("C03", Run)
}

// Op is one operation of a history (hex strings so that a failing input is replayable).
type Op struct {
	Del bool   `json:"del,omitempty"`
	K   string `json:"k"`
	V   string `json:"v,omitempty"`
}

// Input is the replayable input of the oracle: a history and (optionally) a second history with
// the same last-write map.
type Input struct {
	Base    [][2]string `json:"base,omitempty"`     // content of the backing store
	Base2   [][2]string `json:"base2,omitempty"`    // backing store of the variant run (store-independence)
	Garbage []Op        `json:"garbage,omitempty"`  // variant run: history applied and Reset() before Variant
	Ops     []Op        `json:"ops"`
	Variant []Op        `json:"variant,omitempty"`
	Kind    string      `json:"kind,omitempty"`
}

type kvp struct{ k, v []byte }

func (o Op) key() []byte { return hx.UnHex(o.K) }
func (o Op) val() []byte {
	if o.Del {
		return nil
	}
	return hx.UnHex(o.V)
}

// newStore: a LevelDBStore on goleveldb's in-memory storage holding the given content.
func newStore(base [][2]string) *leveldbstore.LevelDBStore {
	store := leveldbstore.NewMemLevelDBStore()
	for _, e := range base {
		if err := store.Put(hx.UnHex(e[0]), hx.UnHex(e[1])); err != nil {
			panic(err)
		}
	}
	return store
}

// runImpl applies the history to a fresh OverlayDB over the given store (which the overlay never
// writes: CommitTo is not called) and returns what GetWriteSet().ForEach enumerates (after every
// op when steps is set) and ChangeHash.
func runImpl(store *leveldbstore.LevelDBStore, garbage, ops []Op, steps bool) (ws []kvp, hash []byte, perStep [][]kvp, length, size int) {
	ov := overlaydb.NewOverlayDB(store)
	nth := 0
	apply := func(o Op) {
		// the arguments may be modified by the caller after Put/Delete return
		k := append([]byte{}, o.key()...)
		// reads in between are not writes (every third operation is preceded by a Get of its key)
		if nth++; nth%3 == 0 {
			ov.Get(k)
		}
		if o.Del {
			ov.Delete(k)
		} else {
			v := append([]byte{}, o.val()...)
			ov.Put(k, v)
			for i := range v {
				v[i] ^= 0xa5
			}
		}
		for i := range k {
			k[i] ^= 0x5a
		}
	}
	if garbage != nil {
		for _, o := range garbage {
			apply(o)
		}
		ov.Reset()
	}
	collect := func() []kvp {
		var out []kvp
		ov.GetWriteSet().ForEach(func(key, val []byte) {
			out = append(out, kvp{append([]byte{}, key...), append([]byte{}, val...)})
		})
		return out
	}
	for _, o := range ops {
		apply(o)
		if steps {
			perStep = append(perStep, collect())
		}
	}
	ws = collect()
	h := ov.ChangeHash()
	hash = append([]byte{}, h[:]...)
	// ChangeHash and ForEach are read-only: a second call gives the same answer
	h2 := ov.ChangeHash()
	if !bytes.Equal(h2[:], hash) {
		hash = append(hash, h2[:]...) // makes every comparison fail visibly
	}
	return ws, hash, perStep, ov.GetWriteSet().Len(), ov.GetWriteSet().Size()
}

func kvsEqual(a, b []kvp) bool {
	if len(a) != len(b) {
		return false
	}
	for i := range a {
		if !bytes.Equal(a[i].k, b[i].k) || !bytes.Equal(a[i].v, b[i].v) {
			return false
		}
	}
	return true
}

func showKvs(l []kvp) []string {
	var s []string
	for _, e := range l {
		s = append(s, hx.Hex(e.k)+"="+hx.Hex(e.v))
	}
	return s
}

// lastWriteSorted: the key-sorted last-write map of a history, computed without the overlay.
func lastWriteSorted(ops []Op) []kvp {
	m := map[string][]byte{}
	for _, o := range ops {
		m[string(o.key())] = o.val()
	}
	var out []kvp
	for k, v := range m {
		out = append(out, kvp{[]byte(k), v})
	}
	sort.Slice(out, func(i, j int) bool { return bytes.Compare(out[i].k, out[j].k) < 0 })
	return out
}

// ---------- Coq printers ----------

// coqB prints a byte string as a Coq term: runs of >= 24 equal bytes as (rp n b), the rest as
// packed chunks (coqPk); segments joined with ++.
func coqB(b []byte) string {
	if len(b) == 0 {
		return "[]"
	}
	var segs []string
	start := 0 // start of the pending literal segment
	for i := 0; i < len(b); {
		j := i
		for j < len(b) && b[j] == b[i] {
			j++
		}
		if j-i >= 24 {
			if i > start {
				segs = append(segs, coqPk(b[start:i]))
			}
			segs = append(segs, fmt.Sprintf("(rp %d %d)", j-i, b[i]))
			start = j
		}
		i = j
	}
	if start < len(b) {
		segs = append(segs, coqPk(b[start:]))
	}
	if len(segs) == 1 {
		return segs[0]
	}
	return "(" + strings.Join(segs, " ++ ") + ")"
}

// coqPk prints a non-empty byte string as (pk lastn [chunks]%uint63): 7 bytes per
// primitive-integer literal, little-endian (decoded by Corr.C03.pk).
func coqPk(b []byte) string {
	var sb strings.Builder
	last := len(b) % 7
	if last == 0 {
		last = 7
	}
	fmt.Fprintf(&sb, "(pk %d [", last)
	for i := 0; i < len(b); i += 7 {
		var x uint64
		for j := 0; j < 7 && i+j < len(b); j++ {
			x |= uint64(b[i+j]) << (8 * uint(j))
		}
		if i > 0 {
			sb.WriteByte(';')
		}
		fmt.Fprintf(&sb, "%d", x)
	}
	sb.WriteString("]%uint63)")
	return sb.String()
}

func coqOp(o Op) string {
	if o.Del {
		return "ODelete " + coqB(o.key())
	}
	return fmt.Sprintf("OPut %s %s", coqB(o.key()), coqB(o.val()))
}

func coqOps(ops []Op) string {
	s := make([]string, len(ops))
	for i, o := range ops {
		s[i] = coqOp(o)
	}
	return hx.CoqList(s)
}

func coqKvs(l []kvp) string {
	s := make([]string, len(l))
	for i, e := range l {
		s[i] = fmt.Sprintf("(%s, %s)", coqB(e.k), coqB(e.v))
	}
	return hx.CoqList(s)
}

// ---------- the oracle ----------

// checkPair runs ops and variant and requires identical observables.
func checkPair(c *hx.Ctx, store *leveldbstore.LevelDBStore, in Input, ws []kvp, hash []byte) {
	c.Eval()
	var ws2 []kvp
	var hash2 []byte
	if in.Base2 != nil {
		store = newStore(in.Base2)
		defer store.Close()
	}
	p, msg := hx.Recover(func() { ws2, hash2, _, _, _ = runImpl(store, in.Garbage, in.Variant, false) })
	if p {
		c.Fail("panic:overlay", "a put/delete history panicked", in, msg, "no panic")
		return
	}
	c.Count("oracle:variant:" + in.Kind)
	class := "order-dependence:" + in.Kind
	if !kvsEqual(ws, ws2) {
		c.Fail(class, "two histories with the same last write per key give different write sets (GetWriteSet().ForEach)",
			in, map[string]interface{}{"ops": showKvs(ws), "variant": showKvs(ws2)}, "identical ForEach output")
		return
	}
	if !bytes.Equal(hash, hash2) {
		c.Fail(class, "two histories with the same last write per key give different ChangeHash",
			in, map[string]interface{}{"ops": hx.Hex(hash), "variant": hx.Hex(hash2), "write_set": showKvs(ws)}, "identical ChangeHash")
	}
}

// checkHistory: the direct checks on one history; returns the observables.
func checkHistory(c *hx.Ctx, store *leveldbstore.LevelDBStore, in Input, steps bool) (ws []kvp, hash []byte, perStep [][]kvp, ok bool) {
	c.Eval()
	var length, size int
	p, msg := hx.Recover(func() { ws, hash, perStep, length, size = runImpl(store, nil, in.Ops, steps) })
	if p {
		c.Fail("panic:overlay", "a put/delete history panicked", in, msg, "no panic")
		return nil, nil, nil, false
	}
	if len(hash) != 32 {
		c.Fail("changehash-not-readonly", "two consecutive ChangeHash calls differ", in, hx.Hex(hash), "equal")
		return nil, nil, nil, false
	}
	want := lastWriteSorted(in.Ops)
	if !kvsEqual(ws, want) {
		c.Fail("writeset-not-last-write-map", "GetWriteSet().ForEach is not the key-sorted map key -> last value written (deletion = empty)",
			in, showKvs(ws), showKvs(want))
		return ws, hash, perStep, false
	}
	// MemDB's own counters are functions of the final content as well
	sz := 0
	for _, e := range want {
		sz += len(e.k) + len(e.v)
	}
	if length != len(want) || size != sz {
		c.Fail("memdb-counters", "MemDB.Len/Size differ from the final content", in,
			map[string]int{"len": length, "size": size}, map[string]int{"len": len(want), "size": sz})
	}
	return ws, hash, perStep, true
}

// variants builds histories with the same last-write map as ops.
func variants(c *hx.Ctx, in Input, nperm int) []Input {
	ops := in.Ops
	var out []Input
	mk := func(kind string, v []Op) Input {
		return Input{Base: in.Base, Ops: ops, Variant: v, Kind: kind}
	}
	lastIdx := map[string]int{}
	for i, o := range ops {
		lastIdx[o.K] = i
	}
	// permutations that keep every key's last operation last among the operations on that key
	for n := 0; n < nperm; n++ {
		perm := c.Rng.Perm(len(ops))
		v := make([]Op, len(ops))
		posOfLastOrig := map[string]int{} // position in v of the original last op
		lastPos := map[string]int{}       // last position in v of any op on the key
		for j, i := range perm {
			v[j] = ops[i]
			if lastIdx[ops[i].K] == i {
				posOfLastOrig[ops[i].K] = j
			}
			lastPos[ops[i].K] = j
		}
		for k, j := range posOfLastOrig {
			l := lastPos[k]
			v[j], v[l] = v[l], v[j]
		}
		out = append(out, mk("perm", v))
	}
	// only the final operations
	var fin []Op
	for i, o := range ops {
		if lastIdx[o.K] == i {
			fin = append(fin, o)
		}
	}
	sh := make([]Op, len(fin))
	for j, i := range c.Rng.Perm(len(fin)) {
		sh[j] = fin[i]
	}
	out = append(out, mk("final-only-shuffled", sh))
	asc := append([]Op{}, fin...)
	sort.Slice(asc, func(i, j int) bool { return bytes.Compare(asc[i].key(), asc[j].key()) < 0 })
	out = append(out, mk("final-only-ascending", asc))
	desc := make([]Op, len(asc))
	for i := range asc {
		desc[len(asc)-1-i] = asc[i]
	}
	out = append(out, mk("final-only-descending", desc))
	// padding: before the final operation of a key insert operations it overrides
	var pad []Op
	for i, o := range ops {
		if lastIdx[o.K] == i {
			switch c.Intn(5) {
			case 0: // delete-then-recreate
				pad = append(pad, Op{Del: true, K: o.K})
			case 1: // overwrite with the same value
				pad = append(pad, o)
			case 2: // other value first
				pad = append(pad, Op{K: o.K, V: hx.Hex(c.Bytes(1 + c.Intn(40)))})
			case 3: // create, delete, then the final one
				pad = append(pad, Op{K: o.K, V: hx.Hex(c.Bytes(1 + c.Intn(8)))}, Op{Del: true, K: o.K})
			}
		}
		pad = append(pad, o)
		if lastIdx[o.K] == i && c.Intn(4) == 0 { // same operation again afterwards
			pad = append(pad, o)
		}
	}
	out = append(out, mk("padded", pad))
	// a Put of an empty value and a Delete are the same write
	var sw []Op
	for _, o := range ops {
		if o.Del {
			sw = append(sw, Op{K: o.K, V: ""})
		} else if o.V == "" {
			sw = append(sw, Op{Del: true, K: o.K})
		} else {
			sw = append(sw, o)
		}
	}
	out = append(out, mk("delete-as-empty-put", sw))
	// a different backing store: restoring the stored value / deleting an absent key is still a write
	st := Input{Ops: ops, Variant: ops, Kind: "other-store", Base: in.Base, Base2: [][2]string{}}
	for _, e := range lastWriteSorted(ops) {
		switch c.Intn(3) {
		case 0:
			if len(e.v) > 0 {
				st.Base2 = append(st.Base2, [2]string{hx.Hex(e.k), hx.Hex(e.v)}) // store already holds the final value
			}
		case 1:
			st.Base2 = append(st.Base2, [2]string{hx.Hex(e.k), hx.Hex(c.Bytes(1 + c.Intn(5)))})
		}
	}
	out = append(out, st)
	// an overlay that was used for something else and Reset
	g := Input{Base: in.Base, Ops: ops, Variant: ops, Kind: "reset-reuse"}
	g.Garbage = []Op{}
	for i := 0; i < 1+c.Intn(30); i++ {
		if len(ops) > 0 && c.Intn(2) == 0 {
			g.Garbage = append(g.Garbage, Op{K: ops[c.Intn(len(ops))].K, V: hx.Hex(c.Bytes(1 + c.Intn(20)))})
		} else {
			g.Garbage = append(g.Garbage, Op{K: hx.Hex(c.Bytes(c.Intn(6))), V: hx.Hex(c.Bytes(c.Intn(20)))})
		}
	}
	out = append(out, g)
	return out
}

// sameLastWrite: the hypothesis of the property, checked on every variant before it is used.
func sameLastWrite(a, b []Op) bool { return kvsEqual(lastWriteSorted(a), lastWriteSorted(b)) }
