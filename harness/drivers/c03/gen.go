package c03

import (
	"bytes"
	"fmt"
	"go/ast"
	"go/parser"
	"go/printer"
	"go/token"
	"path/filepath"
	"strings"
)

// produceWriteSetGen renders coq/Gen/WriteSetGen.v from the AST of overlaydb.go / memdb.go.
// It fails closed: any shape of ChangeHash / Delete / the OverlayDB forwarding methods other than
// the one the model mirrors is reported as a translator error (the tie to the source is broken
// and the model has to be revisited).
func produceWriteSetGen(repo string) ([]byte, []string) {
	var errs []string
	bad := func(f string, a ...interface{}) { errs = append(errs, fmt.Sprintf(f, a...)) }

	fset := token.NewFileSet()
	parse := func(rel string) *ast.File {
		f, err := parser.ParseFile(fset, filepath.Join(repo, rel), nil, 0)
		if err != nil {
			bad("%s: %v", rel, err)
			return nil
		}
		return f
	}
	show := func(n ast.Node) string {
		var b bytes.Buffer
		printer.Fprint(&b, fset, n)
		return strings.Join(strings.Fields(b.String()), " ")
	}
	method := func(f *ast.File, recv, name string) *ast.FuncDecl {
		if f == nil {
			return nil
		}
		for _, d := range f.Decls {
			fd, ok := d.(*ast.FuncDecl)
			if !ok || fd.Name.Name != name || fd.Recv == nil || len(fd.Recv.List) != 1 {
				continue
			}
			if strings.TrimPrefix(show(fd.Recv.List[0].Type), "*") == recv {
				return fd
			}
		}
		bad("method %s.%s not found", recv, name)
		return nil
	}
	// body of a method must be exactly the given statements (whitespace-normalised source text)
	bodyIs := func(fd *ast.FuncDecl, what string, want ...string) bool {
		if fd == nil {
			return false
		}
		var got []string
		for _, s := range fd.Body.List {
			got = append(got, show(s))
		}
		if strings.Join(got, " ; ") != strings.Join(want, " ; ") {
			bad("%s: body is {%s}, the model mirrors {%s}", what, strings.Join(got, " ; "), strings.Join(want, " ; "))
			return false
		}
		return true
	}

	ov := parse("core/store/overlaydb/overlaydb.go")
	mem := parse("core/store/overlaydb/memdb.go")

	// --- forwarding methods of OverlayDB
	bodyIs(method(ov, "OverlayDB", "Put"), "OverlayDB.Put", "self.memdb.Put(key, value)")
	bodyIs(method(ov, "OverlayDB", "Delete"), "OverlayDB.Delete", "self.memdb.Delete(key)")
	bodyIs(method(ov, "OverlayDB", "GetWriteSet"), "OverlayDB.GetWriteSet", "return self.memdb")

	// --- MemDB.Delete: p.Put(key, nil)
	deleteValue := ""
	if fd := method(mem, "MemDB", "Delete"); fd != nil {
		if bodyIs(fd, "MemDB.Delete", "p.Put(key, nil)") {
			deleteValue = "[]"
		}
	}

	// --- ChangeHash
	var writes []string
	extra := 0
	ctor := ""
	if fd := method(ov, "OverlayDB", "ChangeHash"); fd != nil {
		hashImportOK := false
		for _, im := range ov.Imports {
			if im.Path.Value == `"crypto/sha256"` && im.Name == nil {
				hashImportOK = true
			}
		}
		if !hashImportOK {
			bad("overlaydb.go does not import crypto/sha256 under its own name")
		}
		st := fd.Body.List
		if len(st) != 5 {
			bad("ChangeHash: %d statements, the model mirrors 5 (new hash; ForEach; var hash; Sum; return)", len(st))
		} else {
			hv := ""
			if as, ok := st[0].(*ast.AssignStmt); ok && len(as.Lhs) == 1 && len(as.Rhs) == 1 && as.Tok == token.DEFINE {
				hv = show(as.Lhs[0])
				ctor = show(as.Rhs[0])
				if ctor != "sha256.New()" {
					bad("ChangeHash: hash constructor is %s, the correspondence uses SHA-256 (sha256.New())", ctor)
				}
			} else {
				bad("ChangeHash: first statement is %q, expected <h> := sha256.New()", show(st[0]))
			}
			// ForEach(closure)
			var lit *ast.FuncLit
			if es, ok := st[1].(*ast.ExprStmt); ok {
				if call, ok := es.X.(*ast.CallExpr); ok && show(call.Fun) == "self.memdb.ForEach" && len(call.Args) == 1 {
					lit, _ = call.Args[0].(*ast.FuncLit)
				}
			}
			if lit == nil {
				bad("ChangeHash: second statement is %q, expected self.memdb.ForEach(func(key, val []byte) {...})", show(st[1]))
			} else {
				var params []string
				for _, fl := range lit.Type.Params.List {
					for _, n := range fl.Names {
						params = append(params, n.Name)
					}
				}
				if len(params) != 2 {
					bad("ChangeHash: ForEach callback has %d parameters", len(params))
				} else {
					for _, s := range lit.Body.List {
						ok := false
						if es, isE := s.(*ast.ExprStmt); isE {
							if call, isC := es.X.(*ast.CallExpr); isC && show(call.Fun) == hv+".Write" && len(call.Args) == 1 {
								switch show(call.Args[0]) {
								case params[0]:
									writes = append(writes, "HKey")
									ok = true
								case params[1]:
									writes = append(writes, "HVal")
									ok = true
								}
							}
						}
						if !ok {
							bad("ChangeHash: callback statement %q is not %s.Write(%s|%s)", show(s), hv, params[0], params[1])
						}
					}
				}
			}
			if show(st[2]) != "var hash comm.Uint256" {
				bad("ChangeHash: third statement is %q", show(st[2]))
			}
			if show(st[3]) != hv+".Sum(hash[:0])" {
				bad("ChangeHash: fourth statement is %q, expected %s.Sum(hash[:0])", show(st[3]), hv)
			}
			if show(st[4]) != "return hash" {
				bad("ChangeHash: fifth statement is %q", show(st[4]))
			}
			// any write to the hash outside the callback
			total := 0
			ast.Inspect(fd.Body, func(n ast.Node) bool {
				if call, ok := n.(*ast.CallExpr); ok && hv != "" && strings.HasPrefix(show(call.Fun), hv+".Write") {
					total++
				}
				return true
			})
			extra = total - len(writes)
		}
	}

	var b bytes.Buffer
	b.WriteString("(* GENERATED by harness/gen (drivers/c03) from the AST of core/store/overlaydb/{overlaydb,memdb}.go. Do not edit. *)\n")
	b.WriteString("From Coq Require Import NArith List.\nImport ListNotations.\n\n")
	b.WriteString("(* Which argument of the ForEach callback a stateDiff.Write call feeds to the hash. *)\n")
	b.WriteString("Inductive hfield := HKey | HVal.\n\n")
	fmt.Fprintf(&b, "(* overlaydb.go ChangeHash: hash constructor %s; arguments of the Write calls inside the closure passed to\n   self.memdb.ForEach, in order *)\n", ctor)
	fmt.Fprintf(&b, "Definition change_hash_writes : list hfield := [%s].\n\n", strings.Join(writes, "; "))
	b.WriteString("(* overlaydb.go ChangeHash: number of Write calls outside the ForEach closure (leading count, trailer, ...) *)\n")
	fmt.Fprintf(&b, "Definition change_hash_extra_writes : nat := %d.\n\n", extra)
	b.WriteString("(* memdb.go Delete: p.Put(key, nil) -- the value recorded for a deleted key *)\n")
	if deleteValue == "" {
		deleteValue = "[255%N; 255%N] (* UNTRANSLATED *)"
	}
	fmt.Fprintf(&b, "Definition delete_value : list N := %s.\n", deleteValue)
	return b.Bytes(), errs
}
