package c03

import (
	"bytes"
	"encoding/json"
	"fmt"
	"go/ast"
	"go/parser"
	"go/token"
	"path/filepath"
	"strconv"
	"strings"

	"github.com/ontio/ontology/core/store/overlaydb"

	"verif/harness/hx"
)

// ---------- generators ----------

var alphabet = []byte{0x00, 0x01, 'a', 'b', 0x7f, 0x80, 0xff}

// randKey: short keys over a small alphabet (many shared prefixes, different lengths, the empty
// key), or storage-like keys (prefix byte, 20-byte contract address, item suffix).
func randKey(c *hx.Ctx, addrs [][]byte) []byte {
	switch c.Intn(10) {
	case 0, 1, 2, 3, 4, 5:
		n := c.Intn(5)
		if n == 0 && c.Intn(3) != 0 {
			n = 1 + c.Intn(4)
		}
		k := make([]byte, n)
		for i := range k {
			k[i] = alphabet[c.Intn(len(alphabet))]
		}
		return k
	case 6, 7:
		a := addrs[c.Intn(len(addrs))]
		k := append([]byte{5}, a...)
		return append(k, alphabet[:c.Intn(4)]...)
	case 8:
		a := addrs[c.Intn(len(addrs))]
		return append([]byte{byte(4 + c.Intn(3))}, a[:c.Intn(len(a)+1)]...)
	default:
		return c.Bytes(1 + c.Intn(12))
	}
}

func randVal(c *hx.Ctx, long bool) []byte {
	switch c.Intn(10) {
	case 0:
		return nil // Put of an empty value
	case 1, 2, 3, 4:
		return c.Bytes(1 + c.Intn(4))
	case 5, 6, 7:
		return c.Bytes(8 + c.Intn(33))
	case 8:
		// value that looks like a key (the hash input has no separators)
		return []byte{alphabet[c.Intn(len(alphabet))], alphabet[c.Intn(len(alphabet))]}
	default:
		if long {
			return c.Bytes(100 + c.Intn(400))
		}
		return c.Bytes(40 + c.Intn(30))
	}
}

func cat(a []byte, b ...byte) []byte { return append(append([]byte{}, a...), b...) }

// relatedVal: a value related to what is already there. For a key that already holds a non-empty
// value, half of the time: a strict prefix, a strict suffix, a strict extension, the same length
// with one byte changed (first / middle / last), the same value, or empty. Otherwise, a quarter
// of the time: a value sharing a prefix with the key, or with a value written to some key.
func relatedVal(c *hx.Ctx, long bool, key, cur []byte, all [][]byte) []byte {
	if len(cur) > 0 && c.Intn(2) == 0 {
		switch c.Intn(8) {
		case 0, 1: // strict prefix
			if len(cur) >= 2 {
				return cat(cur[:1+c.Intn(len(cur)-1)])
			}
			return nil
		case 2: // strict extension
			return cat(cur, c.Bytes(1+c.Intn(8))...)
		case 3, 4: // same length, one byte changed
			v := cat(cur)
			i := []int{0, len(v) / 2, len(v) - 1}[c.Intn(3)]
			v[i] ^= byte(1 + c.Intn(255))
			return v
		case 5: // same value
			return cat(cur)
		case 6: // strict suffix
			if len(cur) >= 2 {
				return cat(cur[1+c.Intn(len(cur)-1):])
			}
			return nil
		default:
			return nil
		}
	}
	if c.Intn(4) == 0 {
		src := key
		if len(all) > 0 && c.Intn(2) == 0 {
			src = all[c.Intn(len(all))]
		}
		if len(src) > 0 {
			switch c.Intn(3) {
			case 0: // a prefix of it (possibly all of it)
				return cat(src[:1+c.Intn(len(src))])
			case 1: // a prefix of it, then something else
				return cat(src[:1+c.Intn(len(src))], c.Bytes(1+c.Intn(6))...)
			default: // all of it and more
				return cat(src, c.Bytes(1+c.Intn(6))...)
			}
		}
	}
	return randVal(c, long)
}

// ---------- buffer capacities (read from the code) and large values ----------

// bufCaps: initial key/value buffer capacity of an OverlayDB's MemDB (from the linked package) and
// of a CacheDB's MemDB (const initCap of smartcontract/storage/cachedb.go, from the source).
var bufCaps struct{ overlay, cache int }

func readCaps(c *hx.Ctx) {
	bufCaps.overlay = overlaydb.NewOverlayDB(nil).GetWriteSet().Capacity()
	bufCaps.cache = 0
	fset := token.NewFileSet()
	if f, err := parser.ParseFile(fset, filepath.Join(c.Repo, "smartcontract/storage/cachedb.go"), nil, 0); err == nil {
		ast.Inspect(f, func(n ast.Node) bool {
			if vs, ok := n.(*ast.ValueSpec); ok && len(vs.Names) == 1 && vs.Names[0].Name == "initCap" && len(vs.Values) == 1 {
				bufCaps.cache = constInt(vs.Values[0])
			}
			return true
		})
	}
	if bufCaps.cache <= 0 {
		c.Note("c03: const initCap of smartcontract/storage/cachedb.go not found; using the overlay capacity / 4")
		bufCaps.cache = bufCaps.overlay / 4
	}
	c.Note(fmt.Sprintf("buffer capacities read from the code: OverlayDB memdb %d, CacheDB memdb %d", bufCaps.overlay, bufCaps.cache))
}

func constInt(e ast.Expr) int {
	switch x := e.(type) {
	case *ast.BasicLit:
		v, _ := strconv.ParseInt(x.Value, 0, 64)
		return int(v)
	case *ast.ParenExpr:
		return constInt(x.X)
	case *ast.BinaryExpr:
		a, b := constInt(x.X), constInt(x.Y)
		switch x.Op {
		case token.MUL:
			return a * b
		case token.ADD:
			return a + b
		case token.SHL:
			return a << uint(b)
		}
	}
	return 0
}

// fillerVal: n bytes, a long run of one byte between short random ends (run-length encoded in the case term)
func fillerVal(c *hx.Ctx, n int) []byte {
	if n < 1 {
		n = 1
	}
	v := bytes.Repeat([]byte{byte(c.Intn(256))}, n)
	h, t := c.Intn(7), c.Intn(7)
	if h+t < n {
		copy(v, c.Bytes(h))
		copy(v[n-t:], c.Bytes(t))
	}
	return v
}

// addBigPuts inserts one or two Puts whose len(key)+len(value) is around the buffer capacity (the
// initial ones read from the code, and the actual Capacity()/Free() of a MemDB that has executed the
// operations before it), always after an overwrite and a delete of an existing key have happened.
func addBigPuts(c *hx.Ctx, in *Input) {
	seen := map[string]bool{}
	ow, dl, at := false, false, -1
	for i, o := range in.Ops {
		if seen[o.K] {
			if o.Del {
				dl = true
			} else if o.V != "" {
				ow = true
			}
		}
		seen[o.K] = true
		if ow && dl {
			at = i + 1
			break
		}
	}
	if at < 0 {
		k := hx.Hex(c.Bytes(1 + c.Intn(6)))
		if len(in.Ops) > 0 {
			k = in.Ops[c.Intn(len(in.Ops))].K
		}
		k2 := hx.Hex(c.Bytes(2 + c.Intn(6)))
		in.Ops = append(in.Ops, Op{K: k, V: hx.Hex(c.Bytes(1 + c.Intn(20)))}, Op{K: k, V: hx.Hex(c.Bytes(1 + c.Intn(20)))},
			Op{K: k2, V: hx.Hex(c.Bytes(1 + c.Intn(20)))}, Op{Del: true, K: k2})
		at = len(in.Ops)
	}
	n := 1
	if c.Intn(3) == 0 {
		n = 2
	}
	for ; n > 0; n-- {
		pos := at + c.Intn(len(in.Ops)-at+1)
		ov := overlaydb.NewOverlayDB(nil)
		for _, o := range in.Ops[:pos] {
			if o.Del {
				ov.Delete(o.key())
			} else {
				ov.Put(o.key(), o.val())
			}
		}
		curCap, free := ov.GetWriteSet().Capacity(), ov.GetWriteSet().Free()
		c0, c1 := bufCaps.overlay, bufCaps.cache
		cands := []int{c0 - 96 + c.Intn(200), c1 - 24 + c.Intn(100), c0 * 5000 / 4096, c0 * 9000 / 4096,
			curCap - 1, curCap, curCap + 1, curCap + c.Intn(200), free, free + 1, 2*curCap + 3}
		total := cands[c.Intn(len(cands))]
		var k string
		if c.Intn(2) == 0 {
			k = in.Ops[c.Intn(len(in.Ops))].K // a key already in the list: the overwrite path of Put
		} else {
			k = hx.Hex(c.Bytes(1 + c.Intn(8)))
		}
		o := Op{K: k, V: hx.Hex(fillerVal(c, total-len(k)/2))}
		in.Ops = append(in.Ops[:pos], append([]Op{o}, in.Ops[pos:]...)...)
		switch {
		case total >= curCap && total > free:
			c.Count("big-put:>=capacity-and-does-not-fit")
		case total > free:
			c.Count("big-put:does-not-fit")
		default:
			c.Count("big-put:fits")
		}
	}
}

// bigProbes: the shapes "overwrite, then one Put as large as the whole buffer" (the final-only
// variants of the oracle run them in the other order: large Put first).
func bigProbes() []Input {
	c0 := bufCaps.overlay
	big := func(n int, b byte) string { return string(bytes.Repeat([]byte{b}, n)) }
	return []Input{
		{Ops: []Op{put("k1", "aaaa"), put("k1", "bbbbbb"), put("k2", big(c0*5000/4096, 'x'))}},
		{Ops: []Op{put("k1", "a-value"), put("k3", "c-value"), del("k1"), put("k3", "d"), put("k2", big(c0-2, 'y')), put("k4", "after")}},
		{Ops: []Op{put("k1", "aaaa"), put("k2", "cc"), put("k1", "bbbbbb"), del("k2"), put("k1", big(c0+1, 'z')), put("k0", "after")}},
	}
}

// randHistory: nops operations over a pool of npool keys.
func randHistory(c *hx.Ctx, nops, npool int, long bool) Input {
	addrs := [][]byte{c.Bytes(20), c.Bytes(20)}
	addrs = append(addrs, append(append([]byte{}, addrs[0][:19]...), addrs[0][19]+1))
	pool := make([][]byte, npool)
	for i := range pool {
		pool[i] = randKey(c, addrs)
	}
	var in Input
	last := map[string]*Op{}
	cur := map[string][]byte{} // last non-empty value written to the key
	var allVals [][]byte
	for i := 0; i < nops; i++ {
		k := pool[c.Intn(len(pool))]
		o := Op{K: hx.Hex(k)}
		prev := last[o.K]
		switch r := c.Intn(10); {
		case r < 3:
			o.Del = true
		case r == 3 && prev != nil:
			o = *prev // the same operation again (overwrite with the same value)
		default:
			o.V = hx.Hex(relatedVal(c, long, k, cur[o.K], allVals))
		}
		in.Ops = append(in.Ops, o)
		oc := o
		last[o.K] = &oc
		if !o.Del && o.V != "" {
			cur[o.K] = o.val() // the bytes an in-place comparison with "the stored value" would see
			allVals = append(allVals, o.val())
		}
	}
	// backing store: some of the touched keys (sometimes already holding the final value) and others
	// (a third of the touched keys; half of those hold a value that the history also writes, so that
	// "written with the value the store already has" and "restored to the original value" occur)
	for _, e := range lastWriteSorted(in.Ops) {
		if c.Intn(3) != 0 {
			continue
		}
		v := hx.Hex(c.Bytes(1 + c.Intn(6)))
		if c.Intn(2) == 0 {
			var written []string
			for _, o := range in.Ops {
				if o.K == hx.Hex(e.k) && !o.Del && o.V != "" {
					written = append(written, o.V)
				}
			}
			if len(written) > 0 {
				v = written[c.Intn(len(written))]
			}
		}
		in.Base = append(in.Base, [2]string{hx.Hex(e.k), v})
	}
	return in
}

// ---------- classification of a history (distribution counters) ----------

func classify(c *hx.Ctx, ops []Op) (nontrivial bool) {
	seen := map[string]Op{}
	over, same, recreate, delUntouched, emptyPut := 0, 0, 0, 0, 0
	curv := map[string]string{} // last non-empty value written to the key (hex)
	rel := map[string]int{}
	for _, o := range ops {
		p, touched := seen[o.K]
		switch {
		case o.Del && !touched:
			delUntouched++
		case touched && p == o:
			same++
		case touched && p.Del && !o.Del:
			recreate++
		case touched:
			over++
		}
		if !o.Del && o.V == "" {
			emptyPut++
		}
		if cv, has := curv[o.K]; has && !o.Del && o.V != "" && o.V != cv {
			switch {
			case strings.HasPrefix(cv, o.V):
				rel["overwrite-with-strict-prefix"]++
			case strings.HasPrefix(o.V, cv):
				rel["overwrite-with-strict-extension"]++
			case strings.HasSuffix(cv, o.V):
				rel["overwrite-with-strict-suffix"]++
			case len(cv) == len(o.V):
				rel["overwrite-same-length-other-bytes"]++
			}
		}
		if !o.Del && o.V != "" {
			curv[o.K] = o.V
		}
		if o.Del {
			c.Count("op:delete")
		} else {
			c.Count("op:put")
		}
		c.Count(fmt.Sprintf("keylen<=%d", bucket(len(o.K)/2, []int{0, 1, 2, 4, 12, 24})))
		if !o.Del {
			c.Count(fmt.Sprintf("vallen<=%d", bucket(len(o.V)/2, []int{0, 4, 40, 70, 500, 1200, 4300, 10000})))
		}
		seen[o.K] = o
	}
	cnt := func(name string, n int) {
		if n > 0 {
			c.Count("history-with:" + name)
		}
	}
	cnt("overwrite", over)
	cnt("overwrite-same-value", same)
	cnt("delete-then-recreate", recreate)
	cnt("delete-of-untouched-key", delUntouched)
	cnt("put-empty-value", emptyPut)
	for _, name := range []string{"overwrite-with-strict-prefix", "overwrite-with-strict-extension", "overwrite-with-strict-suffix", "overwrite-same-length-other-bytes"} {
		cnt(name, rel[name])
	}
	c.Count(fmt.Sprintf("ops<=%d", bucket(len(ops), []int{1, 4, 12, 40, 100, 400, 2000})))
	c.Count(fmt.Sprintf("keys<=%d", bucket(len(seen), []int{1, 2, 4, 8, 32, 128, 1000})))
	return len(seen) >= 2 && over+same+recreate > 0
}

func bucket(n int, bs []int) int {
	for _, b := range bs {
		if n <= b {
			return b
		}
	}
	return 1 << 20
}

// ---------- one history: oracle + correspondence case ----------

const (
	caseHist  = "hist"
	caseSet   = "set"
	caseSteps = "steps"
)

func doHistory(c *hx.Ctx, in Input, kind string, nperm int) {
	store := newStore(in.Base)
	defer store.Close()
	ws, hash, perStep, ok := checkHistory(c, store, in, kind == caseSteps)
	if ws == nil && hash == nil {
		return
	}
	if classify(c, in.Ops) {
		b, _ := json.Marshal(in.Ops)
		c.Nontrivial(string(b))
	}
	if ok {
		for _, v := range variants(c, in, nperm) {
			if !sameLastWrite(v.Ops, v.Variant) {
				panic("c03 driver: variant generator broke the last-write map: " + v.Kind)
			}
			checkPair(c, store, v, ws, hash)
		}
	}
	c.Sample(map[string]interface{}{"kind": kind, "ops": in.Ops, "write_set": showKvs(ws), "change_hash": hx.Hex(hash)})
	desc := map[string]interface{}{"ops": in.Ops, "base": in.Base}
	switch kind {
	case caseHist:
		c.Case(fmt.Sprintf("CHist %s %s %s", coqOps(in.Ops), coqKvs(ws), coqB(hash)), desc)
	case caseSteps:
		s := make([]string, len(perStep))
		for i, l := range perStep {
			s[i] = coqKvs(l)
		}
		c.Case(fmt.Sprintf("CSteps %s %s %s", coqOps(in.Ops), hx.CoqList(s), coqB(hash)), desc)
	default:
		c.Case(fmt.Sprintf("CSet %s %s", coqOps(in.Ops), coqKvs(ws)), desc)
	}
	c.Count("case:" + kind)
}

// replayInput re-runs a recorded failing input.
func replayInput(c *hx.Ctx, in Input) {
	store := newStore(in.Base)
	defer store.Close()
	ws, hash, _, ok := checkHistory(c, store, in, false)
	if ok && in.Variant != nil {
		if !sameLastWrite(in.Ops, in.Variant) {
			c.Note("replay: the variant does not have the same last-write map; not compared")
			return
		}
		checkPair(c, store, in, ws, hash)
	}
}

func put(k, v string) Op { return Op{K: hx.Hex([]byte(k)), V: hx.Hex([]byte(v))} }
func del(k string) Op    { return Op{Del: true, K: hx.Hex([]byte(k))} }

// fixed probes (run on every seed): the situations the property text names, key-order corner
// cases, and overwrites with related values
func probes() []Input {
	return []Input{
		{Ops: []Op{}},
		{Ops: []Op{del("never-existed")}},
		{Ops: []Op{put("k", "v"), put("k", "v")}},
		{Ops: []Op{put("k", "v1"), del("k"), put("k", "v2")}},
		{Ops: []Op{put("k", "new"), put("k", "orig")}, Base: [][2]string{{hx.Hex([]byte("k")), hx.Hex([]byte("orig"))}}},
		{Ops: []Op{put("b", "2"), put("a", "1"), put("c", "3"), put("a", "4"), del("b"), put("b", "5")}},
		{Ops: []Op{put("abc", "3"), put("ab", "2"), put("", "0"), put("a", "1"), put("abd", "4"), del("ab"), put("a\x00", "5")}},
		{Ops: []Op{put("\xff", "x"), put("\x00", "y"), put("\xff\x00", "z"), put("\x7f", "u"), put("\x80", "w"), put("\x00\xff", "t")}},
		// no separators in the hash input: these two have different write sets
		{Ops: []Op{put("ab", "c")}},
		{Ops: []Op{put("a", "bc")}},
		{Ops: []Op{put("k", ""), put("j", "x")}},
		// overwriting with a related value: strict prefix, extension, one byte changed, suffix
		{Ops: []Op{put("k", "abcdef"), put("k", "abc")}},
		{Ops: []Op{put("k", "abcdef"), put("k", "a")}},
		{Ops: []Op{put("k", "abc"), put("k", "abcdef")}},
		{Ops: []Op{put("k", "abcdef"), put("k", "Xbcdef")}},
		{Ops: []Op{put("k", "abcdef"), put("k", "abXdef")}},
		{Ops: []Op{put("k", "abcdef"), put("k", "abcdeX")}},
		{Ops: []Op{put("k", "abcdef"), put("k", "def")}},
		{Ops: []Op{put("k", "abcdef"), put("k", "abc"), put("k", "abcdef"), put("k", "abcde")}},
		{Ops: []Op{put("k", "abcdef"), del("k"), put("k", "abc")}},
		{Ops: []Op{put("k", "abc"), put("k", ""), put("k", "ab")}},
		{Ops: []Op{put("k", "abcdef"), put("j", "abc"), put("k", "abcd"), put("j", "ab"), put("l", "abcdef")}},
		{Ops: []Op{put("key", "key"), put("key", "ke"), put("ke", "key"), put("ke", "k")}},
		{Ops: []Op{put("k", strings.Repeat("0123456789", 10)), put("k", strings.Repeat("0123456789", 10)[:99])},
			Base: [][2]string{{hx.Hex([]byte("k")), hx.Hex([]byte("0123"))}}},
	}
}

// Run is the C03 driver.
func Run(c *hx.Ctx) {
	c.CoqModule("Corr.C03")
	var rin Input
	if c.ReplayInput(&rin) {
		replayInput(c, rin)
		return
	}
	for _, raw := range c.CorpusInputs() {
		var in Input
		if json.Unmarshal(raw, &in) == nil {
			replayInput(c, in)
			doHistory(c, Input{Base: in.Base, Ops: in.Ops}, caseSet, 2)
			if in.Variant != nil {
				doHistory(c, Input{Base: in.Base, Ops: in.Variant}, caseSet, 2)
			}
		}
	}
	readCaps(c)
	for _, p := range probes() {
		doHistory(c, p, caseSteps, 3)
		c.Count("gen:probe")
	}
	for i, p := range bigProbes() {
		doHistory(c, p, []string{caseHist, caseSteps, caseSet}[i%3], 3)
		c.Count("gen:probe-big")
	}
	// small histories, write set after every operation + final hash
	for i := 0; i < c.N(250, 2500); i++ {
		doHistory(c, randHistory(c, 1+c.Intn(10), 1+c.Intn(4), false), caseSteps, 3)
		c.Count("gen:small-steps")
	}
	// medium histories with the hash
	for i := 0; i < c.N(350, 4000); i++ {
		doHistory(c, randHistory(c, 2+c.Intn(24), 1+c.Intn(8), false), caseHist, 3)
		c.Count("gen:medium-hash")
	}
	// larger histories and long values, write set only in Coq (the implementation's hash is still
	// compared across all variants by the oracle)
	for i := 0; i < c.N(300, 4000); i++ {
		in := randHistory(c, 10+c.Intn(70), 2+c.Intn(30), true)
		if i%6 == 0 { // values around the buffer capacity, after an overwrite and a delete
			if i%12 == 0 {
				in = randHistory(c, 4+c.Intn(12), 2+c.Intn(5), false) // small buffer content: capacity still the initial one
			}
			addBigPuts(c, &in)
			c.Count("gen:large-set:with-big-put")
		}
		doHistory(c, in, caseSet, 3)
		c.Count("gen:large-set")
	}
	// many keys: skip-list towers of several levels
	for i := 0; i < c.N(6, 60); i++ {
		in := randHistory(c, 300+c.Intn(900), 100+c.Intn(500), false)
		if i%3 == 0 {
			addBigPuts(c, &in)
		}
		doHistory(c, in, caseSet, 2)
		c.Count("gen:many-keys")
	}
}
