package c12

// shapeTable: how every registered native-contract method reads its argument bytes (one line per
// method: contract|method|shape; tokens are explained in shapes.go). Extracted by reading the
// handlers of /repo/smartcontract/service/native; a wrong shape only lowers the depth a generated
// call reaches, it cannot hide a crash that is found.
const shapeTable = `
ontid|regIDWithPublicKey|i k
ontid|regIDWithController|i i n
ontid|regIDWithController|i v( n[ i ] n ) v( n[ i n ] )
ontid|revokeID|i n
ontid|revokeIDByController|i C
ontid|removeController|i n
ontid|addRecovery|i a v
ontid|changeRecovery|i a a
ontid|setRecovery|i v( n[ i ] n ) n
ontid|updateRecovery|i v( n[ i ] n ) v( n[ i n ] )
ontid|addKey|i k k v
ontid|removeKey|i k k
ontid|addKeyByController|i k C v
ontid|removeKeyByController|i n C
ontid|addKeyByRecovery|i k v( n[ i n ] ) v
ontid|removeKeyByRecovery|i n v( n[ i n ] )
ontid|regIDWithAttributes|i k n[ v v v ]
ontid|addAttributes|i n[ v v v ] k
ontid|removeAttribute|i v k
ontid|addAttributesByController|i n[ v v v ] C
ontid|removeAttributeByController|i v C
ontid|verifySignature|i n
ontid|verifyController|i C
ontid|getPublicKeys|i
ontid|getKeyState|i n
ontid|getAttributes|i
ontid|getDDO|i
ontid|removeRecovery|i n
ontid|addKeyByIndex|i k n v
ontid|removeKeyByIndex|i k n
ontid|addAttributesByIndex|i n[ v v v ] n
ontid|removeAttributeByIndex|i v n
ontid|addNewAuthKey|i k v n
ontid|addNewAuthKeyByRecovery|i k v v( n[ i n ] )
ontid|addNewAuthKeyByController|i k v C
ontid|setAuthKey|i n n
ontid|setAuthKeyByRecovery|i n v( n[ i n ] )
ontid|setAuthKeyByController|i n C
ontid|removeAuthKey|i n n
ontid|removeAuthKeyByRecovery|i n v( n[ i n ] )
ontid|removeAuthKeyByController|i n C
ontid|addService|i v v v n
ontid|updateService|i v v v n
ontid|removeService|i v n
ontid|addContext|i n[ v ] n
ontid|removeContext|i n[ v ] n
ontid|addProof|
ontid|getPublicKeysJson|i
ontid|getAttributesJson|i
ontid|getAttributeByKey|i v
ontid|getServiceJson|i v
ontid|getControllerJson|i
ontid|getDocumentJson|i
governance|initConfig|v( 4 4 4 4 4 4 4 4 4 s s s w[ 4 s r 8 ] )
governance|registerCandidate|s a n v n
governance|registerCandidateTransferFrom|s a n v n
governance|unRegisterCandidate|s a
governance|authorizeForPeer|a n[ s ] n[ n ]
governance|authorizeForPeerTransferFrom|a n[ s ] n[ n ]
governance|unAuthorizeForPeer|a n[ s ] n[ n ]
governance|withdraw|a n[ s ] n[ n ]
governance|quitNode|s a
governance|withdrawOng|a
governance|changeMaxAuthorization|s a n
governance|setPeerCost|s a n
governance|setFeePercentage|s a n n
governance|withdrawFee|a
governance|addInitPos|s a n
governance|reduceInitPos|s a n
governance|approveCandidate|s
governance|rejectCandidate|s
governance|blackNode|n[ s ]
governance|whiteNode|s
governance|commitDpos|
governance|updateConfig|n n n n n n n n
governance|updateGlobalParam|n n n n n n n n
governance|updateGlobalParam2|n n n v v v v v
governance|updateSplitCurve|n[ n ]
governance|transferPenalty|s a
governance|setPromisePos|s n
governance|setGasAddress|a
governance|getPeerPool|
governance|getPeerInfo|a
governance|getPeerPoolByAddress|a
governance|getView|
governance|getAuthorizeInfo|a s
governance|getAddressFee|a
auth|initContractAdmin|i
auth|transfer|a i n
auth|assignFuncsToRole|a i v n[ s ] n
auth|assignOntIDsToRole|a i v n[ i ] n
auth|delegate|a i i v n n n
auth|withdraw|a i i v n
auth|verifyToken|a i s n
global_params|init|v( n[ s s ] a )
global_params|acceptAdmin|a
global_params|transferAdmin|a
global_params|setOperator|a
global_params|setGlobalParam|n[ s s ]
global_params|getGlobalParam|n[ s ]
global_params|createSnapshot|
global_params|addDestroyedContract|n[ a ]
global_params|removeDestroyedContract|n[ a ]
ontfs|FsGetGlobalParam|
ontfs|FsNodeRegister|n n n n n a v
ontfs|FsNodeQuery|a
ontfs|FsNodeUpdate|n n n n n a v
ontfs|FsNodeCancel|a
ontfs|FsFileProve|a v v n
ontfs|FsNodeWithdrawProfit|a
ontfs|FsGetNodeList|n
ontfs|FsGetPdpInfoList|v
ontfs|FsChallenge|v( v a a n n n n )
ontfs|FsResponse|a v v n
ontfs|FsJudge|v( v a a n n n n )
ontfs|FsGetChallenge|v( v a a n n n n )
ontfs|FsGetFileChallengeList|v( v a a n n n n )
ontfs|FsGetNodeChallengeList|a
ontfs|FsStoreFiles|v( n[ v( v a v n n n n n b n n n n v b n n ) ] )
ontfs|FsRenewFiles|v( n[ v( v a a n ) ] )
ontfs|FsDeleteFiles|v( n[ v( v ) ] )
ontfs|FsTransferFiles|v( n[ v( v a a ) ] )
ontfs|FsGetFileInfo|v
ontfs|FsGetFileList|v( n v a k v )
ontfs|FsReadFilePledge|v( v a n n[ v( a n n n ) ] )
ontfs|FsReadFileSettle|v a a n n v k
ontfs|FsGetReadPledge|v a
ontfs|FsCreateSpace|v( a n n n n n n n n b )
ontfs|FsDeleteSpace|a
ontfs|FsUpdateSpace|v( a a n n )
ontfs|FsGetSpaceInfo|a
lock_proxy|lock|a a n v n
lock_proxy|unlock|v( v v w ) v n
lock_proxy|bindProxy|n v
lock_proxy|bindAsset|a n v n b
lock_proxy|withdrawONG|r
lock_proxy|getProxyHash|n
lock_proxy|getAssetHash|a n
lock_proxy|getCrossedAmount|a n
lock_proxy|getCrossedLimit|a n
header_sync|syncGenesisHeader|v( 4 8 h h h h 4 4 8 v r w[ k ] w[ v ] )
header_sync|syncBlockHeader|a n[ v( 4 8 h h h h 4 4 8 v r w[ k ] w[ v ] ) ]
cross_chain_manager|createCrossChainTx|n v s v
cross_chain_manager|processCrossChainTx|a n n s v( 4 8 h h h h 4 4 8 v r w[ k ] w[ v ] )
ont|init|v( n[ a n ] )
ont|name|
ont|symbol|
ont|decimals|
ont|totalSupply|
ont|decimalsV2|
ont|totalSupplyV2|
ont|transfer|n[ a a n ]
ont|transferV2|n[ a a n ]
ont|approve|a a n
ont|approveV2|a a n
ont|transferFrom|a a a n
ont|transferFromV2|a a a n
ont|balanceOf|a
ont|balanceOfV2|a
ont|allowance|a a
ont|allowanceV2|a a
ont|totalAllowance|a
ont|totalAllowanceV2|a
ont|unboundOngToGovernance|
ong|init|
ong|name|
ong|symbol|
ong|decimals|
ong|totalSupply|
ong|decimalsV2|
ong|totalSupplyV2|
ong|transfer|n[ a a n ]
ong|transferV2|n[ a a n ]
ong|approve|a a n
ong|approveV2|a a n
ong|transferFrom|a a a n
ong|transferFromV2|a a a n
ong|balanceOf|a
ong|balanceOfV2|a
ong|allowance|a a
ong|allowanceV2|a a
ong|totalAllowance|a
ong|totalAllowanceV2|a
system|evmInvoke|a a v
`
