package c12

import (
	"encoding/json"
	"os"
	"runtime"
	"testing"
	"time"
)

func TestHang(t *testing.T) {
	f := os.Getenv("C12_PROBE")
	if f == "" {
		t.Skip()
	}
	b, _ := os.ReadFile(f)
	var in struct{ Input Probe }
	if err := json.Unmarshal(b, &in); err != nil {
		t.Fatal(err)
	}
	e, err := newEnv(t.TempDir())
	if err != nil {
		t.Fatal(err)
	}
	for k := range in.Input.Txs {
		p := Probe{Name: "x", Txs: in.Input.Txs[k : k+1]}
		done := make(chan ProbeResult, 1)
		go func() { done <- e.runProbe(p) }()
		select {
		case r := <-done:
			t.Log(k, in.Input.Txs[k].Method, r.Outcomes)
		case <-time.After(6 * time.Second):
			buf := make([]byte, 1<<16)
			n := runtime.Stack(buf, true)
			s := string(buf[:n])
			if len(s) > 6000 {
				s = s[:6000]
			}
			t.Fatal("HANG in tx ", k, in.Input.Txs[k].Method, "\n", s)
		}
	}
}
