package c12

import (
	"testing"
	"time"
)

func TestEnvTiming(t *testing.T) {
	t0 := time.Now()
	w := newWorld()
	t.Log("world", time.Since(t0))
	e, err := newEnv(t.TempDir())
	if err != nil {
		t.Fatal(err)
	}
	t.Log("env", time.Since(t0))
	for _, s := range corpusSeeds(w) {
		r := e.runProbe(s.p)
		t.Log(s.p.Name, r.Outcomes, time.Since(t0))
	}
	e.close()
}
