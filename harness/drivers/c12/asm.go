package c12

import (
	"bytes"
	"encoding/hex"
	"math/big"

	vm "github.com/ontio/ontology/vm/neovm"
)

// Node is a NeoVM argument value tree (what a user can put on the evaluation stack and hand to
// Ontology.Native.Invoke / System.Runtime.Notify / ...).
//
//	K = "b" bytes (B hex) | "i" integer (I decimal) | "t" bool (T) | "a" array (E) | "s" struct (E)
type Node struct {
	K string `json:"k"`
	B string `json:"b,omitempty"`
	I string `json:"i,omitempty"`
	T bool   `json:"t,omitempty"`
	E []Node `json:"e,omitempty"`
}

func nB(b []byte) Node       { return Node{K: "b", B: hex.EncodeToString(b)} }
func nS(s string) Node       { return nB([]byte(s)) }
func nI(v int64) Node        { return Node{K: "i", I: big.NewInt(v).String()} }
func nU(v uint64) Node       { return Node{K: "i", I: new(big.Int).SetUint64(v).String()} }
func nBig(v *big.Int) Node   { return Node{K: "i", I: v.String()} }
func nT(b bool) Node         { return Node{K: "t", T: b} }
func nArr(e ...Node) Node    { return Node{K: "a", E: e} }
func nStruct(e ...Node) Node { return Node{K: "s", E: e} }

type asm struct {
	b *vm.ParamsBuilder
}

func newAsm() *asm { return &asm{b: vm.NewParamsBuilder(new(bytes.Buffer))} }

func (a *asm) op(ops ...vm.OpCode) *asm {
	for _, o := range ops {
		a.b.Emit(o)
	}
	return a
}
func (a *asm) raw(bs ...byte) *asm {
	for _, x := range bs {
		a.b.Emit(vm.OpCode(x))
	}
	return a
}
func (a *asm) bytes(v []byte) *asm { a.b.EmitPushByteArray(v); return a }
func (a *asm) int(v int64) *asm    { a.b.EmitPushInteger(big.NewInt(v)); return a }
func (a *asm) big(v *big.Int) *asm { a.b.EmitPushInteger(v); return a }
func (a *asm) syscall(name string) *asm {
	a.b.Emit(vm.SYSCALL)
	a.b.EmitPushByteArray([]byte(name)) // a var-string with a 1-byte length: names are short
	return a
}
func (a *asm) code() []byte { return a.b.ToArray() }

// push compiles a value tree: leaves one value on the evaluation stack.
func (a *asm) push(n Node) *asm {
	switch n.K {
	case "b":
		bs, _ := hex.DecodeString(n.B)
		a.bytes(bs)
	case "i":
		v, ok := new(big.Int).SetString(n.I, 10)
		if !ok {
			v = big.NewInt(0)
		}
		a.big(v)
	case "t": // boolType values only come out of comparisons: NOT of 0 / 1
		if n.T {
			a.op(vm.PUSH0, vm.NOT)
		} else {
			a.op(vm.PUSH1, vm.NOT)
		}
	case "a": // elements pushed in reverse, PACK
		if len(n.E) <= 1024 {
			for i := len(n.E) - 1; i >= 0; i-- {
				a.push(n.E[i])
			}
			a.int(int64(len(n.E))).op(vm.PACK)
		} else {
			a.int(0).op(vm.NEWARRAY)
			for _, e := range n.E {
				a.op(vm.DUP).push(e).op(vm.APPEND)
			}
		}
	case "s":
		a.int(0).op(vm.NEWSTRUCT)
		for _, e := range n.E {
			a.op(vm.DUP).push(e).op(vm.APPEND)
		}
	default:
		a.int(0)
	}
	return a
}

const nativeInvokeName = "Ontology.Native.Invoke"

// nativeCall compiles: args, method, address, version, SYSCALL Ontology.Native.Invoke
func nativeCallCode(contract []byte, ver int64, method string, args Node) []byte {
	a := newAsm()
	a.push(args)
	a.bytes([]byte(method)).bytes(contract).int(ver).syscall(nativeInvokeName)
	return a.code()
}
