// Package c12 checks property C12: no transaction or pre-execution request can crash the node.
//
// Three parts (see checks/C12.json):
//   - translator: Gen/GuardSites.v - the bounds guards of the NeoVM value stack, the executor's
//     index/slice/jump opcodes, the recursion counters and the repaired ontid index test, read from
//     the source as boolean formulas; Props/C12.v proves on them that no guarded access can leave
//     its slice (gen.go)
//   - correspondence: the guard model (Model/Guards.v) against the real ValueStack / Executor on
//     boundary indices, and cloneStruct / Notify conversion on cyclic heap values (corr.go)
//   - oracle: generated NeoVM programs, native-contract calls with structured boundary arguments
//     and EVM byte code, each executed in a child process through block execution and through
//     pre-execution; a panic, a fatal error, memory blow-up or a hang is a failing input
//     (progs.go, native.go, evm.go, child.go)
package c12

import (
	"encoding/json"
	"fmt"
	"path/filepath"
	"strings"
	"time"

	"verif/harness/hx"
)

func init() { hx.Register("C12", Run) }

func Run(c *hx.Ctx) {
	c.CoqModule("Corr.C12")
	var in Probe
	if c.ReplayInput(&in) {
		oracle(c, []Probe{in}, nil, "replay")
		runCorr(c, 40)
		return
	}
	// 1. corpus: minimized past failures (repaired defects must stay repaired)
	var probes []Probe
	for _, raw := range c.CorpusInputs() {
		var p Probe
		if json.Unmarshal(raw, &p) == nil && len(p.Txs) > 0 {
			probes = append(probes, p)
		}
	}
	// 2. known-finding witnesses, probed on every run
	w := newWorld()
	probes = append(probes, panicWitnesses(w)...)
	// 3. generated input
	probes = append(probes, genPrograms(c, w, c.N(260, 4000))...)
	probes = append(probes, genNative(c, w, c.N(700, 12000))...)
	probes = append(probes, genScenarios(c, w, c.N(80, 2000))...)
	probes = append(probes, genEvm(c, w, c.N(60, 1200))...)
	probes = append(probes, genEvmOps(c)...)
	oracle(c, probes, fatalWitnesses(w), "run")
	// 4. correspondence cases for the guard model
	runCorr(c, c.N(900, 9000))
}

// oracle runs the probes in child processes and reports every execution that did not end with a
// result or an error.
func oracle(c *hx.Ctx, probes, fatal []Probe, origin string) {
	if len(probes)+len(fatal) == 0 {
		return
	}
	t0 := time.Now()
	res, fres := runParallel(filepath.Join(c.OutDir, "c12-"+origin), probes, fatal, parallelChildren, 10*time.Minute)
	all := append(append([]Probe{}, probes...), fatal...)
	for i, r := range append(res, fres...) {
		p := all[i]
		c.Count("probe:" + originOf(p, origin))
		c.Count("probe-kind:" + kindOf(p))
		switch {
		case r.Crashed:
			c.Eval()
			c.Fail(crashClass(p, "fatal", r.Death), "process survival: the child process was terminated by the Go runtime", p, r.Death, "a result or an error")
		case r.OOM:
			c.Eval()
			c.Fail(crashClass(p, "oom", ""), "process survival: memory use grew beyond the watchdog limit", p, r.Death, "bounded allocation")
		case r.Timeout:
			c.Eval()
			c.Fail(crashClass(p, "hang", ""), "termination: the execution did not finish within the time limit", p, r.Death, "termination")
		}
		for _, o := range r.Outcomes {
			c.Eval()
			path := o.Path
			if strings.HasPrefix(path, "pre:") {
				path = "pre"
			}
			c.Count("outcome:" + path + ":" + o.State)
			if o.Path == "block" && kindOf(p) == "native" && len(o.Detail) == len(p.Txs) {
				ct := strings.SplitN(p.Name, ":", 3)[1]
				for k := range p.Txs { // how deep the structured calls get: successes per contract
					if o.Detail[k] == 'S' {
						c.Count("native-call-succeeded:" + ct)
						c.Nontrivial("native-ok:" + ct + ":" + p.Txs[k].Method)
					} else {
						c.Count("native-call-refused:" + ct)
					}
				}
			}
			if o.State == "panic" && kindOf(p) == "evmop" {
				// the pre-execution of transaction k alone names the opcode and the byte code
				var k int
				if _, err := fmt.Sscanf(o.Path, "pre:%d", &k); err == nil && k < len(p.Txs) {
					one := Probe{Name: p.Name, Txs: []TxSpec{p.Txs[k]}}
					c.Fail("crash:evm:"+evmOpName(p.Txs[k].Note), "Invoke return value: EVM byte code ended in a Go panic (no recover on the EVM path): "+p.Txs[k].Note,
						one, map[string]string{"path": "pre", "panic": o.Detail, "bytecode": p.Txs[k].Data}, "a result or an error")
				} else if prePanicked(r) {
					// the block died on a transaction that is reported on its own below
				} else {
					c.Fail("crash:evm:block", "Invoke return value: a block of EVM transactions ended in a Go panic", p, map[string]string{"path": o.Path, "panic": o.Detail}, "a result or an error")
				}
				continue
			}
			if o.State == "panic" {
				c.Fail(crashClass(p, "panic", o.Detail), "Invoke return value: the execution ended in a Go panic (the node has no recover on this path)",
					p, map[string]string{"path": o.Path, "panic": o.Detail}, "a result or an error")
			}
			if o.Millis > 5000 {
				c.Count("slow:>5s")
			}
			if o.State == "ok" || o.State == "fail" {
				c.Nontrivial(p.Name)
			}
		}
	}
	c.Note(fmt.Sprintf("oracle %s: %d probes in %d parallel children, %s", origin, len(all), parallelChildren, time.Since(t0).Round(time.Millisecond)))
}

const parallelChildren = 6

func originOf(p Probe, dflt string) string {
	switch kindOf(p) {
	case "corpus", "witness":
		return kindOf(p)
	}
	if dflt == "replay" {
		return dflt
	}
	return "generated"
}

func kindOf(p Probe) string {
	if i := strings.Index(p.Name, ":"); i > 0 {
		return p.Name[:i]
	}
	return p.Name
}

// crashClass names the failure class matched against known_findings.d/C12.json. Only the
// detector finding F4 is listed there: a fatal stack overflow inside buildParamToNative (a value
// whose cycle avoids first elements handed to Ontology.Native.Invoke). Every other class carries
// the kind of probe and the innermost ontology function, so it is not listed and is a VIOLATION.
func crashClass(p Probe, how, detail string) string {
	site := ""
	if i := strings.Index(detail, " @ "); i >= 0 {
		site = detail[i+3:]
		if j := strings.Index(site, " "); j > 0 {
			site = site[:j]
		}
	}
	if how == "fatal" && strings.Contains(detail, "stack overflow") && strings.Contains(detail, "uildParamToNative") {
		return "crash:cycle-non-first-element:Native.Invoke"
	}
	if site == "" {
		site = kindOf(p)
	}
	return "crash:" + how + ":" + site
}

func prePanicked(r ProbeResult) bool {
	for _, o := range r.Outcomes {
		if o.State == "panic" && strings.HasPrefix(o.Path, "pre:") {
			return true
		}
	}
	return false
}
