package c12

import (
	"encoding/hex"
	"fmt"
	"math/big"
	"math/rand"

	nutils "github.com/ontio/ontology/smartcontract/service/native/utils"

	"verif/harness/hx"
)

// Life-cycle scenarios: sequences of mostly valid native calls (so that the later calls find the
// state they need) in which single fields are replaced by boundary values. They reach the code the
// shape-driven calls rarely reach: ontfs proof checking / challenges / settlement, governance
// candidate bookkeeping and the fee split at commitDpos.

func pickBig(r *rand.Rand, vals ...string) Node {
	v, _ := new(big.Int).SetString(vals[r.Intn(len(vals))], 10)
	return nBig(v)
}

func genScenarios(c *hx.Ctx, w *world, n int) []Probe {
	var out []Probe
	for i := 0; i < n; i++ {
		if i%2 == 0 {
			out = append(out, fsScenario(c.Rng, w, i))
			c.Count("scenario:ontfs")
		} else {
			out = append(out, govScenario(c.Rng, w, i))
			c.Count("scenario:governance")
		}
	}
	return out
}

func fsScenario(r *rand.Rand, w *world, i int) Probe {
	node, owner := r.Intn(3), 3+r.Intn(3)
	na, oa := w.users[node].Address[:], w.users[owner].Address[:]
	fs := func(m string, args Node, signer int) TxSpec {
		return TxSpec{Kind: "native", Contract: ontfsAddrHex, Method: m, Args: &args, Signers: []int{signer}}
	}
	vol := pickBig(r, "1048576", "1048576", "1048577", "4503599627370496", "18446744073709551615", "1048575")
	reg := nStruct(nI(0), nI(0), vol, nI(0), pickBig(r, "1099511627776", "1099511627776", "18446744073709551615", "0"), nB(na), nS("tcp://x"))
	blockCount := pickBig(r, "1", "1", "2", "0", "33", "9223372036854775808", "18446744073709551615", "72057594037927936")
	copies := pickBig(r, "1", "1", "2", "0", "9223372036854775808", "18446744073709551615")
	params := [][]byte{cat(pdpV1, make([]byte, 8)), cat(pdpV1, make([]byte, 32)), pdpV1, nil, {1}, cat([]byte{2, 0, 0, 0, 0, 0, 0, 0}, make([]byte, 32)), make([]byte, 9)}
	param := params[r.Intn(len(params))]
	stype := pickBig(r, "1", "1", "1", "0", "2")
	fi := nativeBytesN(nS("f1"), nB(oa), nS("d"), blockCount, nI(1), copies, nI(0), nI(0), nT(r.Intn(4) != 0),
		nI(0), pickBig(r, "1099511627776", "1099511627776", "18446744073709551615", "0"), nI(0), nI(0), nB(param), nT(true), nI(0), stype)
	store := nStruct(nB(nativeBytesN(nI(1), nB(fi))))
	space := nStruct(nB(nativeBytesN(nB(oa), pickBig(r, "256", "1024", "1048576", "255", "18446744073709551615"), nI(0), copies, nI(0), nI(0), nI(0),
		pickBig(r, "1099511627776", "0", "18446744073709551615"), nI(0), nT(true))))
	proofs := [][]byte{nil, {1}, pdpV1, cat(pdpV1, []byte{1, 2, 3}), cat(pdpV1, []byte(`[]`)), cat(pdpV1, []byte(`[""]`)), cat(pdpV1, []byte(`["AAAAAAAAAAA="]`)),
		cat(pdpV1, []byte(`["AAAAAAAAAAA=","AAAAAAAAAAA="]`)), cat(pdpV1, []byte(`["AAAAAAAAAAA=","","AAAAAAAAAAA="]`)), cat(pdpV1, []byte(`[null,null]`)),
		cat(pdpV1, []byte(`{"a":1}`)), cat([]byte{2, 0, 0, 0, 0, 0, 0, 0}, []byte(`["AAAAAAAAAAA="]`)), cat(pdpV1, []byte(`["AAAAAAAAAAE=","AAAAAAAAAAA="]`))}
	height := nI(int64(setupHeight + 1 + r.Intn(2)))
	if r.Intn(6) == 0 {
		height = pickBig(r, "0", "4294967296", "4294967300", "18446744073709551615")
	}
	prove := nStruct(nB(na), nS("f1"), nB(proofs[r.Intn(len(proofs))]), height)
	chl := nStruct(nB(nativeBytesN(nS("f1"), nB(oa), nB(na), nI(0), nI(0), nI(0), nI(0))))
	resp := nStruct(nB(na), nS("f1"), nB(proofs[r.Intn(len(proofs))]), height)
	plan := nativeBytesN(nB(na), pickBig(r, "1", "0", "18446744073709551615"), nI(1), nI(0))
	pledge := nStruct(nB(nativeBytesN(nS("f1"), nB(oa), nI(0), nI(1), nB(plan))))
	renew := nStruct(nB(nativeBytesN(nI(1), nB(nativeBytesN(nS("f1"), nB(oa), nB(oa), pickBig(r, "1099511627776", "0", "18446744073709551615"))))))
	del := nStruct(nB(nativeBytesN(nI(1), nB(nativeBytesN(nS("f1"))))))
	all := []TxSpec{
		fs("FsNodeRegister", reg, node), fs("FsCreateSpace", space, owner), fs("FsStoreFiles", store, owner), fs("FsFileProve", prove, node),
		fs("FsChallenge", chl, owner), fs("FsResponse", resp, node), fs("FsJudge", chl, owner), fs("FsReadFilePledge", pledge, owner),
		fs("FsRenewFiles", renew, owner), fs("FsGetFileInfo", nStruct(nS("f1")), owner), fs("FsGetPdpInfoList", nStruct(nS("f1")), owner),
		fs("FsGetNodeList", nStruct(pickBig(r, "0", "1", "18446744073709551615")), owner), fs("FsDeleteFiles", del, owner),
		fs("FsDeleteSpace", nStruct(nB(oa)), owner), fs("FsNodeWithdrawProfit", nStruct(nB(na)), node), fs("FsNodeCancel", nStruct(nB(na)), node),
	}
	var txs []TxSpec
	for k, t := range all {
		if k < 4 && r.Intn(8) != 0 || k >= 4 && r.Intn(3) == 0 {
			txs = append(txs, t)
		}
	}
	return Probe{Name: fmt.Sprintf("native:ontfs:scenario-%d", i), BlockOnly: true, Txs: txs}
}

func govScenario(r *rand.Rand, w *world, i int) Probe {
	peer, voter := r.Intn(3), 3+r.Intn(3)
	pa, va := w.users[peer].Address[:], w.users[voter].Address[:]
	pk := hex.EncodeToString(w.pk(peer))
	gov := addrHex(nutils.GovernanceContractAddress)
	g := func(m string, args Node, signer int) TxSpec {
		return TxSpec{Kind: "native", Contract: gov, Method: m, Args: &args, Signers: []int{signer}}
	}
	pos := func() Node {
		return pickBig(r, "100000", "100000", "200000", "500", "1000", "1", "0", "4294967295", "4294967296")
	}
	all := []TxSpec{
		g("registerCandidate", nStruct(nS(pk), nB(pa), pos(), nS(w.ids[peer]), nI(1)), peer),
		g("approveCandidate", nStruct(nS(pk)), -1),
		g("changeMaxAuthorization", nStruct(nS(pk), nB(pa), pos()), peer),
		g("setPeerCost", nStruct(nS(pk), nB(pa), pickBig(r, "0", "50", "100", "101")), peer),
		g("setFeePercentage", nStruct(nS(pk), nB(pa), pickBig(r, "0", "50", "100", "101"), pickBig(r, "0", "50", "100", "101")), peer),
		g("authorizeForPeer", nStruct(nB(va), nI(1), nS(pk), nI(1), pos()), voter),
		g("addInitPos", nStruct(nS(pk), nB(pa), pos()), peer),
		g("setPromisePos", nStruct(nS(pk), pickBig(r, "0", "1", "1000")), -1),
		g("reduceInitPos", nStruct(nS(pk), nB(pa), pos()), peer),
		g("commitDpos", nStruct(), -1),
		g("unAuthorizeForPeer", nStruct(nB(va), nI(1), nS(pk), nI(1), pos()), voter),
		g("withdrawFee", nStruct(nB(va)), voter),
		g("withdrawOng", nStruct(nB(va)), voter),
		g("quitNode", nStruct(nS(pk), nB(pa)), peer),
		g("blackNode", nStruct(nI(1), nS(pk)), -1),
		g("commitDpos", nStruct(), -1),
		g("withdraw", nStruct(nB(va), nI(1), nS(pk), nI(1), pos()), voter),
		g("whiteNode", nStruct(nS(pk)), -1),
		g("getPeerPool", nStruct(), voter), g("getAuthorizeInfo", nStruct(nB(va), nS(pk)), voter),
	}
	var txs []TxSpec
	for k, t := range all {
		if k < 2 && r.Intn(10) != 0 || k >= 2 && r.Intn(2) == 0 {
			txs = append(txs, t)
		}
	}
	return Probe{Name: fmt.Sprintf("native:governance:scenario-%d", i), BlockOnly: true, Txs: txs}
}
