package c12

import (
	"encoding/hex"
	"fmt"
	"math/rand"

	ethcomm "github.com/ethereum/go-ethereum/common"
	ethcrypto "github.com/ethereum/go-ethereum/crypto"

	"verif/harness/hx"
)

// EVM byte code through EIP-155 transactions: a creation transaction whose init code is generated
// (and returns generated runtime code), followed by calls to the created contract.
// Biased to what could hurt the host: jumps into data, loops that only gas stops, recursion
// through CALL/DELEGATECALL/CREATE, memory expansion at huge offsets, copies with out-of-range
// source offsets, precompiles with odd input lengths, SELFDESTRUCT, deep stacks.

func evmPush(v uint64) []byte {
	var b []byte
	for x := v; x > 0; x >>= 8 {
		b = append([]byte{byte(x)}, b...)
	}
	if len(b) == 0 {
		b = []byte{0}
	}
	return append([]byte{byte(0x5f + len(b))}, b...)
}

var evmBig = []uint64{0, 1, 2, 31, 32, 33, 255, 256, 1024, 65535, 65536, 1 << 20, 1 << 24, 1<<32 - 1, 1 << 32, 1<<63 - 1, 1 << 63, ^uint64(0)}

func evmCode(r *rand.Rand, n int) []byte {
	var c []byte
	push := func() { c = append(c, evmPush(evmBig[r.Intn(len(evmBig))])...) }
	for i := 0; i < n; i++ {
		switch r.Intn(16) {
		case 0, 1, 2:
			push()
		case 3: // memory at a boundary offset
			push()
			push()
			c = append(c, []byte{0x52, 0x53, 0x51}[r.Intn(3)]) // MSTORE MSTORE8 MLOAD
		case 4: // copies: dest, offset, length
			push()
			push()
			push()
			c = append(c, []byte{0x37, 0x39, 0x3e}[r.Intn(3)]) // CALLDATACOPY CODECOPY RETURNDATACOPY
		case 5: // call a precompile / self / random address
			push() // ret length
			push() // ret offset
			push() // args length
			push() // args offset
			if r.Intn(2) == 0 {
				c = append(c, evmPush(0)...) // value (CALL / CALLCODE)
			}
			switch r.Intn(3) {
			case 0:
				c = append(c, evmPush(uint64(1+r.Intn(10)))...) // precompile
			case 1:
				c = append(c, 0x30) // ADDRESS (self)
			default:
				push()
			}
			c = append(c, 0x5a)                                      // GAS
			c = append(c, []byte{0xf1, 0xf2, 0xf4, 0xfa}[r.Intn(4)]) // CALL CALLCODE DELEGATECALL STATICCALL
		case 6: // CREATE / CREATE2 with code from memory
			push()
			push()
			push()
			c = append(c, []byte{0xf0, 0xf5}[r.Intn(2)])
		case 7: // jump somewhere
			c = append(c, evmPush(uint64(r.Intn(n+4)))...)
			c = append(c, []byte{0x56, 0x57}[r.Intn(2)])
		case 8:
			c = append(c, 0x5b) // JUMPDEST
		case 9: // storage
			push()
			push()
			c = append(c, []byte{0x55, 0x54}[r.Intn(2)])
		case 10: // arithmetic incl. EXP, SIGNEXTEND, BYTE, SHL/SHR/SAR, ADDMOD/MULMOD
			push()
			push()
			push()
			c = append(c, []byte{0x01, 0x02, 0x04, 0x05, 0x06, 0x07, 0x08, 0x09, 0x0a, 0x0b, 0x1a, 0x1b, 0x1c, 0x1d, 0x20}[r.Intn(15)])
		case 11: // DUPn / SWAPn (stack underflow / overflow)
			c = append(c, byte(0x80+r.Intn(32)))
		case 12: // environment
			c = append(c, []byte{0x30, 0x31, 0x32, 0x33, 0x34, 0x36, 0x38, 0x3a, 0x3b, 0x3c, 0x3d, 0x3f, 0x40, 0x41, 0x42, 0x43, 0x44, 0x45, 0x46, 0x47}[r.Intn(20)])
		case 13: // LOGn
			push()
			push()
			c = append(c, byte(0xa0+r.Intn(5)))
		case 14:
			c = append(c, byte(r.Intn(256))) // any byte, undefined opcodes included
		default: // endings
			push()
			push()
			c = append(c, []byte{0xf3, 0xfd, 0xff, 0x00, 0xfe}[r.Intn(5)]) // RETURN REVERT SELFDESTRUCT STOP INVALID
		}
	}
	return c
}

// initCode returns init code that deploys `runtime`: CODECOPY(0, offset, len) RETURN(0, len).
func initCode(runtime []byte) []byte {
	pre := []byte{}
	l := evmPush(uint64(len(runtime)))
	// PUSH len, PUSH off, PUSH 0, CODECOPY, PUSH len, PUSH 0, RETURN   (off patched: all pushes fixed width)
	off := len(l) + 2 + 2 + 1 + len(l) + 2 + 1
	pre = append(pre, l...)
	pre = append(pre, 0x60, byte(off), 0x60, 0x00, 0x39)
	pre = append(pre, l...)
	pre = append(pre, 0x60, 0x00, 0xf3)
	return append(pre, runtime...)
}

func genEvm(c *hx.Ctx, w *world, n int) []Probe {
	var out []Probe
	loopForever := []byte{0x5b, 0x60, 0x00, 0x56}                                                                   // JUMPDEST PUSH1 0 JUMP
	callSelf := []byte{0x5b, 0x60, 0, 0x60, 0, 0x60, 0, 0x60, 0, 0x60, 0, 0x30, 0x5a, 0xf1, 0x50, 0x60, 0x00, 0x56} // CALL(self) in a loop
	memBomb := append(append(evmPush(1), evmPush(1<<40)...), 0x52)                                                  // MSTORE(2^40, 1)
	createLoop := []byte{0x5b, 0x38, 0x60, 0, 0x60, 0, 0x39, 0x38, 0x60, 0, 0x60, 0, 0xf0, 0x50, 0x60, 0, 0x56}     // CODECOPY; CREATE(self code) loop
	fixed := [][]byte{loopForever, callSelf, memBomb, createLoop}
	for i := 0; i < n; i++ {
		var runtime []byte
		if i < len(fixed) {
			runtime = fixed[i]
		} else {
			runtime = evmCode(c.Rng, 3+c.Rng.Intn(40))
		}
		from := c.Rng.Intn(nEth)
		sender := ethcomm.Address(newEthAcct(from).addr)
		created := ethcrypto.CreateAddress(sender, 0)
		gas := uint64([]int{30000, 100000, 500000, 3000000}[c.Rng.Intn(4)])
		var txs []TxSpec
		if c.Rng.Intn(4) == 0 { // the generated code itself as init code
			txs = append(txs, TxSpec{Kind: "evm", From: from, Data: hex.EncodeToString(runtime), GasLimit: gas})
		} else {
			txs = append(txs, TxSpec{Kind: "evm", From: from, Data: hex.EncodeToString(initCode(runtime)), GasLimit: 3000000})
			data := make([]byte, []int{0, 4, 32, 36, 100}[c.Rng.Intn(5)])
			c.Rng.Read(data)
			txs = append(txs, TxSpec{Kind: "evm", From: from, To: hex.EncodeToString(created[:]), Data: hex.EncodeToString(data), GasLimit: gas, Value: uint64(c.Rng.Intn(2))})
		}
		out = append(out, Probe{Name: fmt.Sprintf("evm:%d", i), Txs: txs})
		c.Count(fmt.Sprintf("evm-code-len:%d", bucket(len(runtime))))
	}
	return out
}
