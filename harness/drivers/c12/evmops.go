package c12

import (
	"encoding/hex"
	"fmt"
	"math/big"
	"strings"

	"verif/harness/hx"
)

// EVM operand-boundary family: for EVERY opcode that takes offset / length / size / target /
// amount operands, creation transactions whose init code pushes one operand tuple from the
// boundary set and executes the opcode - systematically (not sampled): every operand position
// takes every boundary value against benign others (0 and 32), and every pair of positions takes
// every pair of the "hot" values; with and without return data from an earlier STATICCALL to the
// identity precompile. Gas is limited, so huge memory expansions end with out-of-gas. Each
// transaction runs in a block (EIP-155, about 60 per block) and alone through pre-execution;
// a panic is reported as crash:evm:<OPCODE> with the byte code of that one transaction.

func pow2(n uint) *big.Int { return new(big.Int).Lsh(big.NewInt(1), n) }
func sub(a *big.Int, b int64) *big.Int {
	return new(big.Int).Sub(a, big.NewInt(b))
}

// {0, 1, 31, 32, 33, 2^16, 2^32-1, 2^32, 2^63-1, 2^63, 2^64-32, 2^64-1, 2^64, 2^255, 2^256-1}
var evmBoundary = []*big.Int{big.NewInt(0), big.NewInt(1), big.NewInt(31), big.NewInt(32), big.NewInt(33), pow2(16),
	sub(pow2(32), 1), pow2(32), sub(pow2(63), 1), pow2(63), sub(pow2(64), 32), sub(pow2(64), 1), pow2(64), pow2(255), sub(pow2(256), 1)}

// the values that matter in pairs (wrap-around of offset+size in 64 and 256 bits)
var evmHot = []*big.Int{big.NewInt(0), big.NewInt(1), big.NewInt(32), sub(pow2(64), 32), sub(pow2(64), 1), pow2(64), sub(pow2(256), 1)}

func evmPushBig(v *big.Int) []byte {
	b := v.Bytes()
	if len(b) == 0 {
		b = []byte{0}
	}
	if len(b) > 32 {
		b = b[len(b)-32:]
	}
	return append([]byte{byte(0x5f + len(b))}, b...)
}

type evmOp struct {
	name  string
	code  byte
	arity int
	// positions that get the full treatment (nil = all); the others hold fixed operands
	vary  []int
	fixed map[int][]byte // position -> code that pushes the fixed operand
}

var (
	opGas     = []byte{0x5a}
	opAddress = []byte{0x30}
	pushID    = []byte{0x60, 0x04} // the identity precompile
	pushZero  = []byte{0x60, 0x00}
)

// operand 0 is the top of the stack
var evmOps = []evmOp{
	{name: "CALLDATACOPY", code: 0x37, arity: 3}, {name: "CODECOPY", code: 0x39, arity: 3}, {name: "RETURNDATACOPY", code: 0x3e, arity: 3},
	{name: "EXTCODECOPY", code: 0x3c, arity: 4, vary: []int{1, 2, 3}, fixed: map[int][]byte{0: opAddress}},
	{name: "EXTCODECOPY-addr", code: 0x3c, arity: 4, vary: []int{0}},
	{name: "MLOAD", code: 0x51, arity: 1}, {name: "MSTORE", code: 0x52, arity: 2}, {name: "MSTORE8", code: 0x53, arity: 2},
	{name: "SHA3", code: 0x20, arity: 2}, {name: "CALLDATALOAD", code: 0x35, arity: 1},
	{name: "LOG0", code: 0xa0, arity: 2}, {name: "LOG1", code: 0xa1, arity: 3}, {name: "LOG2", code: 0xa2, arity: 4, vary: []int{0, 1}},
	{name: "LOG3", code: 0xa3, arity: 5, vary: []int{0, 1}}, {name: "LOG4", code: 0xa4, arity: 6, vary: []int{0, 1}},
	{name: "CREATE", code: 0xf0, arity: 3}, {name: "CREATE2", code: 0xf5, arity: 4},
	{name: "CALL", code: 0xf1, arity: 7, vary: []int{3, 4, 5, 6}, fixed: map[int][]byte{0: opGas, 1: pushID, 2: pushZero}},
	{name: "CALLCODE", code: 0xf2, arity: 7, vary: []int{3, 4, 5, 6}, fixed: map[int][]byte{0: opGas, 1: pushID, 2: pushZero}},
	{name: "DELEGATECALL", code: 0xf4, arity: 6, vary: []int{2, 3, 4, 5}, fixed: map[int][]byte{0: opGas, 1: pushID}},
	{name: "STATICCALL", code: 0xfa, arity: 6, vary: []int{2, 3, 4, 5}, fixed: map[int][]byte{0: opGas, 1: pushID}},
	{name: "CALL-gas-addr-value", code: 0xf1, arity: 7, vary: []int{0, 1, 2}},
	{name: "CALL-self", code: 0xf1, arity: 7, vary: []int{3, 4, 5, 6}, fixed: map[int][]byte{0: opGas, 1: opAddress, 2: pushZero}},
	{name: "RETURN", code: 0xf3, arity: 2}, {name: "REVERT", code: 0xfd, arity: 2},
	{name: "JUMP", code: 0x56, arity: 1}, {name: "JUMPI", code: 0x57, arity: 2},
	{name: "EXP", code: 0x0a, arity: 2}, {name: "SHL", code: 0x1b, arity: 2}, {name: "SHR", code: 0x1c, arity: 2}, {name: "SAR", code: 0x1d, arity: 2},
	{name: "DIV", code: 0x04, arity: 2}, {name: "SDIV", code: 0x05, arity: 2}, {name: "MOD", code: 0x06, arity: 2}, {name: "SMOD", code: 0x07, arity: 2},
	{name: "ADDMOD", code: 0x08, arity: 3}, {name: "MULMOD", code: 0x09, arity: 3}, {name: "SIGNEXTEND", code: 0x0b, arity: 2}, {name: "BYTE", code: 0x1a, arity: 2},
	{name: "BALANCE", code: 0x31, arity: 1}, {name: "EXTCODESIZE", code: 0x3b, arity: 1}, {name: "EXTCODEHASH", code: 0x3f, arity: 1},
	{name: "BLOCKHASH", code: 0x40, arity: 1}, {name: "SLOAD", code: 0x54, arity: 1}, {name: "SSTORE", code: 0x55, arity: 2},
	{name: "SELFDESTRUCT", code: 0xff, arity: 1},
}

// returnDataPrefix: mem[0:32] = 0x2a; STATICCALL(gas, 4, 0, 32, 0, 32): 32 bytes of return data
var returnDataPrefix = []byte{0x60, 0x2a, 0x60, 0x00, 0x52, 0x60, 0x20, 0x60, 0x00, 0x60, 0x20, 0x60, 0x00, 0x60, 0x04, 0x5a, 0xfa, 0x50}

func bigName(v *big.Int) string {
	for _, n := range []uint{16, 32, 63, 64, 255, 256} {
		p := pow2(n)
		for _, d := range []int64{0, 1, 32} {
			if v.Cmp(sub(p, d)) == 0 {
				if d == 0 {
					return fmt.Sprintf("2^%d", n)
				}
				return fmt.Sprintf("2^%d-%d", n, d)
			}
		}
	}
	return v.String()
}

func (o evmOp) tx(ops []*big.Int, withReturnData bool, from int) TxSpec {
	var code []byte
	if withReturnData {
		code = append(code, returnDataPrefix...)
	}
	var names []string
	for p := o.arity - 1; p >= 0; p-- { // operand 0 is pushed last
		if f, ok := o.fixed[p]; ok {
			code = append(code, f...)
		} else {
			code = append(code, evmPushBig(ops[p])...)
		}
	}
	for p := 0; p < o.arity; p++ {
		if _, ok := o.fixed[p]; ok {
			names = append(names, "_")
		} else {
			names = append(names, bigName(ops[p]))
		}
	}
	code = append(code, o.code, 0x5b, 0x00) // the opcode, JUMPDEST (a valid target at a known place), STOP
	note := o.name + "(" + strings.Join(names, ",") + ")"
	if withReturnData {
		note += " after STATICCALL(identity)"
	}
	return TxSpec{Kind: "evm", From: from, Data: hex.EncodeToString(code), GasLimit: 200000, Note: note}
}

func (o evmOp) tuples() [][]*big.Int {
	vary := o.vary
	if vary == nil {
		for p := 0; p < o.arity; p++ {
			vary = append(vary, p)
		}
	}
	base := func(v int64) []*big.Int {
		t := make([]*big.Int, o.arity)
		for i := range t {
			t[i] = big.NewInt(v)
		}
		return t
	}
	var out [][]*big.Int
	for _, b := range []int64{0, 32} { // one position at a time over the whole boundary set
		for _, p := range vary {
			for _, v := range evmBoundary {
				t := base(b)
				t[p] = v
				out = append(out, t)
			}
		}
	}
	for i := 0; i < len(vary); i++ { // every pair of positions over the hot values
		for j := i + 1; j < len(vary); j++ {
			for _, u := range evmHot {
				for _, v := range evmHot {
					t := base(0)
					t[vary[i]], t[vary[j]] = u, v
					out = append(out, t)
				}
			}
		}
	}
	return out
}

func genEvmOps(c *hx.Ctx) []Probe {
	var txs []TxSpec
	for _, o := range evmOps {
		for k, t := range o.tuples() {
			with := o.name == "RETURNDATACOPY" || k%3 == 0
			txs = append(txs, o.tx(t, false, 0))
			if with {
				txs = append(txs, o.tx(t, true, 0))
			}
			c.Count("evm-op:" + o.name)
		}
	}
	// PUSHn as the last instruction with fewer than n operand bytes
	for n := 1; n <= 32; n++ {
		for _, have := range []int{0, n / 2, n - 1} {
			code := append([]byte{0x60, 0x01, byte(0x5f + n)}, make([]byte, have)...)
			txs = append(txs, TxSpec{Kind: "evm", Data: hex.EncodeToString(code), GasLimit: 100000, Note: fmt.Sprintf("PUSH%d(%d bytes left)", n, have)})
		}
	}
	// DUPn / SWAPn against stack depths around n, and the 1024 limit
	for n := 1; n <= 16; n++ {
		for _, opc := range []byte{byte(0x7f + n), byte(0x8f + n)} {
			for _, depth := range []int{0, n - 1, n, n + 1, 1023, 1024} {
				var code []byte
				for i := 0; i < depth; i++ {
					code = append(code, 0x60, 0x01)
				}
				code = append(code, opc, 0x00)
				nm := "DUP"
				if opc >= 0x90 {
					nm = "SWAP"
				}
				txs = append(txs, TxSpec{Kind: "evm", Data: hex.EncodeToString(code), GasLimit: 200000, Note: fmt.Sprintf("%s%d(depth %d)", nm, n, depth)})
			}
		}
	}
	var out []Probe
	const per = 60
	for i := 0; i < len(txs); i += per {
		j := i + per
		if j > len(txs) {
			j = len(txs)
		}
		out = append(out, Probe{Name: fmt.Sprintf("evmop:%d", i/per), Txs: txs[i:j]})
	}
	c.Count(fmt.Sprintf("evm-op-transactions:%d", len(txs)))
	return out
}

// evmOpName: "RETURNDATACOPY(0,2^64-1,1) after ..." -> RETURNDATACOPY
func evmOpName(note string) string {
	if i := strings.IndexAny(note, "(-"); i > 0 {
		return note[:i]
	}
	return note
}
