package c12

import "verif/harness/hx"

func runCorr(c *hx.Ctx, n int) {}
