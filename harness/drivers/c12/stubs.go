package c12

import "verif/harness/hx"

func genPrograms(c *hx.Ctx, w *world, n int) []Probe { return nil }
func genNative(c *hx.Ctx, w *world, n int) []Probe   { return nil }
func genEvm(c *hx.Ctx, w *world, n int) []Probe      { return nil }
func runCorr(c *hx.Ctx, n int)                       {}
