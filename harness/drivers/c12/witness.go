package c12

import (
	"encoding/hex"

	nutils "github.com/ontio/ontology/smartcontract/service/native/utils"
	vm "github.com/ontio/ontology/vm/neovm"
)

// cyclicToNative: w = [1, w] (the cycle avoids element 0) handed to Ontology.Native.Invoke.
// circularRefAndDepthDetection looks at w[0] only and answers "no cycle", buildParamToNative then
// recurses until the goroutine stack is exhausted: fatal error, not recoverable (finding F4;
// Coq: c12_detector_sound_refuted / c14_witness).
func cyclicToNativeCode(kind vm.OpCode) []byte {
	a := newAsm()
	a.int(0).op(kind)                  // w = []
	a.op(vm.DUP).int(1).op(vm.APPEND)  // w = [1]
	a.op(vm.DUP, vm.DUP).op(vm.APPEND) // w = [1, w]
	a.bytes([]byte("name")).bytes(nutils.OntContractAddress[:]).int(0).syscall(nativeInvokeName)
	return a.code()
}

// panicWitnesses: known findings that end in a recoverable panic (none open at present).
func panicWitnesses(w *world) []Probe { return nil }

// fatalWitnesses: known findings that end the process (stack overflow) or never return.
func fatalWitnesses(w *world) []Probe {
	return append([]Probe{}, []Probe{
		{Name: "witness:cycle-non-first-element:Native.Invoke", PreOnly: true, StackMB: 16,
			Txs: []TxSpec{{Kind: "code", Code: hex.EncodeToString(cyclicToNativeCode(vm.NEWARRAY))}}},
		{Name: "witness:cycle-non-first-element:Native.Invoke", BlockOnly: true, StackMB: 16,
			Txs: []TxSpec{{Kind: "code", Code: hex.EncodeToString(cyclicToNativeCode(vm.NEWARRAY))}}},
	}...)
}
