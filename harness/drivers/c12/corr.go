package c12

import (
	"bufio"
	"bytes"
	"context"
	"encoding/hex"
	"encoding/json"
	"fmt"
	"math/rand"
	"os"
	"os/exec"
	"strings"
	"time"

	vm "github.com/ontio/ontology/vm/neovm"
	vmerr "github.com/ontio/ontology/vm/neovm/errors"
	vmtypes "github.com/ontio/ontology/vm/neovm/types"

	"verif/harness/hx"
)

// Correspondence cases for Model/Guards.v. The implementation side runs in a child process
// (VERIF_C12_CHILD=corr): StructValue.Clone and ConvertNeoVmValueHexString are called on cyclic
// values, and a broken counter would end in a fatal stack overflow.

type HRef struct {
	K string `json:"k"` // arr | struct | map | int | bytes | bool
	A int    `json:"a,omitempty"`
	I int64  `json:"i,omitempty"`
	B string `json:"b,omitempty"`
	N int    `json:"n,omitempty"` // bytes: n zero bytes (large values without large JSON)
	T bool   `json:"t,omitempty"`
}

type HObj struct {
	Kind  string  `json:"kind"` // arr | struct | map
	Elems []HRef  `json:"elems,omitempty"`
	Keys  []int64 `json:"keys,omitempty"` // map: integer keys, one per element
}

type CorrReq struct {
	Kind  string  `json:"kind"` // stack | exec | jmp | dcall | call | clone | convert
	Op    string  `json:"op,omitempty"`
	Limit int64   `json:"limit,omitempty"`
	Data  []int64 `json:"data,omitempty"`
	I     int64   `json:"i,omitempty"`
	J     int64   `json:"j,omitempty"`
	T     int64   `json:"t,omitempty"`
	Heap  []HObj  `json:"heap,omitempty"`
	Root  HRef    `json:"root,omitempty"`
}

type CorrRes struct {
	Err   string  `json:"err,omitempty"`
	Res   []int64 `json:"res,omitempty"`
	After []int64 `json:"after,omitempty"`
	NewIP *int64  `json:"newip,omitempty"`
	Ok    bool    `json:"ok,omitempty"`
	Panic string  `json:"panic,omitempty"`
}

func errName(err error) string {
	switch err {
	case nil:
		return ""
	case vmerr.ERR_INDEX_OUT_OF_BOUND:
		return "EIndexOOB"
	case vmerr.ERR_OVER_STACK_LEN:
		return "EOverStackLen"
	case vmerr.ERR_OVER_LIMIT_STACK:
		return "EOverLimitStack"
	case vmerr.ERR_OVER_MAX_ARRAY_SIZE:
		return "EOverMaxArray"
	case vmerr.ERR_BAD_VALUE:
		return "EBadValue"
	case vmerr.ERR_FAULT:
		return "EFault"
	case vmerr.ERR_DCALL_OFFSET_ERROR:
		return "EDcallOffset"
	}
	return "EOther"
}

func stackInts(s *vm.ValueStack) []int64 {
	n := s.Count()
	out := make([]int64, n)
	for i := 0; i < n; i++ {
		v, _ := s.Peek(int64(n - 1 - i))
		out[i], _ = v.AsInt64()
	}
	return out
}

func valsInts(vs []vmtypes.VmValue) []int64 {
	out := make([]int64, len(vs))
	for i := range vs {
		out[i], _ = vs[i].AsInt64()
	}
	return out
}

func bytesInts(b []byte) []int64 {
	out := make([]int64, len(b))
	for i := range b {
		out[i] = int64(b[i])
	}
	return out
}

func intsBytes(d []int64) []byte {
	out := make([]byte, len(d))
	for i := range d {
		out[i] = byte(d[i])
	}
	return out
}

func runCorrReq(q CorrReq) (r CorrRes) {
	defer func() {
		if p := recover(); p != nil {
			r = CorrRes{Panic: fmt.Sprint(p)}
		}
	}()
	switch q.Kind {
	case "stack":
		s := vm.NewValueStack(q.Limit)
		for _, d := range q.Data {
			s.Push(vmtypes.VmValueFromInt64(d))
		}
		t := vmtypes.VmValueFromInt64(q.T)
		var err error
		switch q.Op {
		case "SInsert":
			err = s.Insert(q.I, t)
		case "SPeek":
			var v vmtypes.VmValue
			v, err = s.Peek(q.I)
			if err == nil {
				x, _ := v.AsInt64()
				r.Res = []int64{x}
			}
		case "SRemove":
			var v vmtypes.VmValue
			v, err = s.Remove(q.I)
			if err == nil {
				x, _ := v.AsInt64()
				r.Res = []int64{x}
			}
		case "SSet":
			err = s.Set(int(q.I), t)
		case "SPush":
			err = s.Push(t)
		case "SPop":
			var v vmtypes.VmValue
			v, err = s.Pop()
			if err == nil {
				x, _ := v.AsInt64()
				r.Res = []int64{x}
			}
		case "SSwap":
			err = s.Swap(q.I, q.J)
		case "SPushMany":
			vals := make([]vmtypes.VmValue, q.I)
			for k := range vals {
				vals[k] = t
			}
			err = s.PushMany(vals...)
		}
		r.Err = errName(err)
		if err == nil {
			r.After = stackInts(s)
		}
	case "exec":
		e := vm.NewExecutor([]byte{0x61}, vm.VmFeatureFlag{})
		var arr *vmtypes.ArrayValue
		var st *vmtypes.StructValue
		mk := func() {
			arr = vmtypes.NewArrayValue()
			for _, d := range q.Data {
				arr.Append(vmtypes.VmValueFromInt64(d))
			}
		}
		mks := func() {
			st = vmtypes.NewStructValue()
			for _, d := range q.Data {
				st.Append(vmtypes.VmValueFromInt64(d))
			}
		}
		var op vm.OpCode
		switch q.Op {
		case "XSubstr":
			e.EvalStack.PushBytes(intsBytes(q.Data))
			e.EvalStack.PushInt64(q.I)
			e.EvalStack.PushInt64(q.J)
			op = vm.SUBSTR
		case "XLeft", "XRight":
			e.EvalStack.PushBytes(intsBytes(q.Data))
			e.EvalStack.PushInt64(q.I)
			op = vm.LEFT
			if q.Op == "XRight" {
				op = vm.RIGHT
			}
		case "XPickArray":
			mk()
			e.EvalStack.Push(vmtypes.VmValueFromArrayVal(arr))
			e.EvalStack.PushInt64(q.I)
			op = vm.PICKITEM
		case "XPickStruct":
			mks()
			e.EvalStack.Push(vmtypes.VmValueFromStructVal(st))
			e.EvalStack.PushInt64(q.I)
			op = vm.PICKITEM
		case "XPickBytes":
			e.EvalStack.PushBytes(intsBytes(q.Data))
			e.EvalStack.PushInt64(q.I)
			op = vm.PICKITEM
		case "XSetArray":
			mk()
			e.EvalStack.Push(vmtypes.VmValueFromArrayVal(arr))
			e.EvalStack.PushInt64(q.I)
			e.EvalStack.PushInt64(q.J)
			op = vm.SETITEM
		case "XSetStruct":
			mks()
			e.EvalStack.Push(vmtypes.VmValueFromStructVal(st))
			e.EvalStack.PushInt64(q.I)
			e.EvalStack.PushInt64(q.J)
			op = vm.SETITEM
		case "XRemoveAt":
			mk()
			e.EvalStack.Push(vmtypes.VmValueFromArrayVal(arr))
			e.EvalStack.PushInt64(q.I)
			op = vm.REMOVE
		case "XNewArray", "XNewStruct":
			e.EvalStack.PushInt64(q.I)
			op = vm.NEWARRAY
			if q.Op == "XNewStruct" {
				op = vm.NEWSTRUCT
			}
		case "XPack":
			for _, d := range q.Data {
				e.EvalStack.PushInt64(d)
			}
			e.EvalStack.PushInt64(q.I)
			op = vm.PACK
		}
		_, err := e.ExecuteOp(op, e.Context)
		r.Err = errName(err)
		if err != nil {
			return
		}
		switch q.Op {
		case "XSubstr", "XLeft", "XRight":
			b, _ := e.EvalStack.PopAsBytes()
			r.Res = bytesInts(b)
		case "XPickArray", "XPickStruct", "XPickBytes":
			x, _ := e.EvalStack.PopAsInt64()
			r.Res = []int64{x}
			r.After = q.Data
		case "XSetArray", "XRemoveAt":
			r.After = valsInts(arr.Data)
		case "XSetStruct":
			r.After = valsInts(st.Data)
		case "XNewArray":
			a, _ := e.EvalStack.PopAsArray()
			r.After = valsInts(a.Data)
		case "XNewStruct":
			a, _ := e.EvalStack.PopAsStruct()
			r.After = valsInts(a.Data)
		case "XPack":
			a, _ := e.EvalStack.PopAsArray()
			r.Res = valsInts(a.Data)
			r.After = stackInts(e.EvalStack)
		}
	case "jmp": // I = reader position after the operand, J = code length, T = operand
		code := bytes.Repeat([]byte{byte(vm.NOP)}, int(q.J))
		code[q.I-3] = byte(vm.JMP)
		code[q.I-2], code[q.I-1] = byte(uint16(q.T)), byte(uint16(q.T)>>8)
		e := vm.NewExecutor(code, vm.VmFeatureFlag{})
		e.Context.SetInstructionPointer(q.I - 2)
		_, err := e.ExecuteOp(vm.JMP, e.Context)
		if err == nil {
			ip := int64(e.Context.GetInstructionPointer())
			r.NewIP = &ip
		}
	case "dcall": // J = code length, T = target
		code := bytes.Repeat([]byte{byte(vm.NOP)}, int(q.J))
		e := vm.NewExecutor(code, vm.VmFeatureFlag{})
		e.EvalStack.PushInt64(q.T)
		_, err := e.ExecuteOp(vm.DCALL, e.Context)
		if err == nil {
			ip := int64(e.Context.GetInstructionPointer())
			r.NewIP = &ip
		}
	case "call": // I = number of saved contexts
		code := []byte{byte(vm.CALL), 3, 0, byte(vm.NOP)}
		e := vm.NewExecutor(code, vm.VmFeatureFlag{})
		for k := int64(0); k < q.I; k++ {
			e.Callers = append(e.Callers, e.Context)
		}
		e.Context.SetInstructionPointer(1)
		_, err := e.ExecuteOp(vm.CALL, e.Context)
		r.Ok = err == nil
	case "clone", "convert":
		root := buildHeap(q.Heap, q.Root)
		if q.Kind == "clone" {
			sv, err := root.AsStructValue()
			if err != nil {
				r.Panic = "root is not a struct"
				return
			}
			_, cerr := sv.Clone()
			r.Ok = cerr == nil
		} else {
			_, err := root.ConvertNeoVmValueHexString()
			r.Ok = err == nil
		}
	}
	return
}

func buildHeap(h []HObj, root HRef) vmtypes.VmValue {
	arrs := make([]*vmtypes.ArrayValue, len(h))
	sts := make([]*vmtypes.StructValue, len(h))
	maps := make([]*vmtypes.MapValue, len(h))
	for i, o := range h {
		switch o.Kind {
		case "arr":
			arrs[i] = vmtypes.NewArrayValue()
		case "struct":
			sts[i] = vmtypes.NewStructValue()
		default:
			maps[i] = vmtypes.NewMapValue()
		}
	}
	val := func(r HRef) vmtypes.VmValue {
		switch r.K {
		case "arr":
			return vmtypes.VmValueFromArrayVal(arrs[r.A])
		case "struct":
			return vmtypes.VmValueFromStructVal(sts[r.A])
		case "map":
			return vmtypes.VmValueFromMapValue(maps[r.A])
		case "bytes":
			b, _ := hex.DecodeString(r.B)
			if r.N > 0 {
				b = make([]byte, r.N)
			}
			v, _ := vmtypes.VmValueFromBytes(b)
			return v
		case "bool":
			return vmtypes.VmValueFromBool(r.T)
		}
		return vmtypes.VmValueFromInt64(r.I)
	}
	for i, o := range h {
		for k, e := range o.Elems {
			switch o.Kind {
			case "arr":
				arrs[i].Data = append(arrs[i].Data, val(e))
			case "struct":
				sts[i].Data = append(sts[i].Data, val(e))
			default:
				maps[i].Set(vmtypes.VmValueFromInt64(o.Keys[k]), val(e))
			}
		}
	}
	return val(root)
}

func corrChildMain() {
	var reqs []CorrReq
	if err := json.NewDecoder(bufio.NewReaderSize(os.Stdin, 1<<20)).Decode(&reqs); err != nil {
		fmt.Fprintln(os.Stderr, "corr child: bad input:", err)
		os.Exit(3)
	}
	w := bufio.NewWriter(os.Stdout)
	for _, q := range reqs {
		b, _ := json.Marshal(runCorrReq(q))
		w.Write(b)
		w.WriteByte('\n')
		w.Flush()
	}
	os.Exit(0)
}

// runCorrChild returns one result per request; died = index of the request the child died on (-1 none).
func runCorrChild(reqs []CorrReq) (res []CorrRes, died int, death string) {
	self, _ := os.Executable()
	in, _ := json.Marshal(reqs)
	ctx, cancel := context.WithTimeout(context.Background(), 5*time.Minute)
	defer cancel()
	cmd := exec.CommandContext(ctx, self)
	cmd.Env = append(os.Environ(), childEnv+"=corr", "GOTRACEBACK=single")
	cmd.Stdin = bytes.NewReader(in)
	var stdout, stderr bytes.Buffer
	cmd.Stdout, cmd.Stderr = &stdout, &stderr
	runErr := cmd.Run()
	sc := bufio.NewScanner(&stdout)
	sc.Buffer(make([]byte, 1<<20), 1<<26)
	for sc.Scan() {
		var r CorrRes
		if json.Unmarshal(sc.Bytes(), &r) != nil {
			break
		}
		res = append(res, r)
	}
	if runErr != nil && len(res) < len(reqs) {
		return res, len(res), deathLine(stderr.String())
	}
	return res, -1, ""
}

// ---- generation ----

func zl(d []int64) string {
	s := make([]string, len(d))
	for i, x := range d {
		s[i] = fmt.Sprintf("%d", x)
	}
	return "([" + strings.Join(s, "; ") + "])%Z"
}

func obsTerm(r CorrRes) string {
	if r.Err != "" {
		return "(OErr " + r.Err + ")"
	}
	return fmt.Sprintf("(OOk %s %s)", zl(r.Res), zl(r.After))
}

func refTerm(r HRef) string {
	switch r.K {
	case "arr":
		return fmt.Sprintf("HArr %d%%nat", r.A)
	case "struct":
		return fmt.Sprintf("HStruct %d%%nat", r.A)
	case "map":
		return fmt.Sprintf("HMap %d%%nat", r.A)
	case "bytes":
		if r.N > 0 {
			return fmt.Sprintf("HPrim (PBytes (repeat 0%%N %d%%nat))", r.N)
		}
		b, _ := hex.DecodeString(r.B)
		return "HPrim (PBytes " + hx.CoqBytes(b) + ")"
	case "bool":
		return "HPrim (PBool " + hx.CoqBool(r.T) + ")"
	}
	return fmt.Sprintf("HPrim (PInt (%d)%%Z)", r.I)
}

func heapTerm(h []HObj) string {
	var objs []string
	for _, o := range h {
		var es []string
		for k, e := range o.Elems {
			if o.Kind == "map" {
				es = append(es, fmt.Sprintf("(PInt (%d)%%Z, %s)", o.Keys[k], refTerm(e)))
			} else {
				es = append(es, refTerm(e))
			}
		}
		if o.Kind == "map" {
			objs = append(objs, "OMap ["+strings.Join(es, "; ")+"]")
		} else {
			objs = append(objs, "OList ["+strings.Join(es, "; ")+"]")
		}
	}
	return "[" + strings.Join(objs, "; ") + "]"
}

var idxBoundaries = []int64{0, 1, 2, -1, -2, 1 << 31, 1<<31 - 1, -1 << 31, 1 << 32, 1<<63 - 1, -1 << 63, 1024, 1025, 2048, 2049}

func genIndex(r *rand.Rand, n int) int64 {
	switch r.Intn(4) {
	case 0:
		return idxBoundaries[r.Intn(len(idxBoundaries))]
	default:
		return int64(n + r.Intn(5) - 2) // around the length
	case 2:
		return int64(r.Intn(n + 1))
	}
}

func genData(r *rand.Rand, max int, byteVals bool) []int64 {
	n := r.Intn(max + 1)
	d := make([]int64, n)
	for i := range d {
		if byteVals {
			d[i] = int64(r.Intn(256))
		} else {
			d[i] = int64(r.Intn(2000) - 1000)
		}
	}
	return d
}

func genHeap(r *rand.Rand, forClone bool) ([]HObj, HRef) {
	n := 1 + r.Intn(6)
	h := make([]HObj, n)
	for i := range h {
		switch r.Intn(8) {
		case 0:
			h[i].Kind = "map"
		case 1, 2, 3:
			h[i].Kind = "arr"
		default:
			h[i].Kind = "struct"
		}
	}
	if forClone {
		h[0].Kind = "struct"
	}
	for i := range h {
		m := r.Intn(5)
		for k := 0; k < m; k++ {
			var e HRef
			switch r.Intn(10) {
			case 0, 1, 2, 3, 4: // a reference: any object, cycles welcome
				a := r.Intn(n)
				e = HRef{K: h[a].Kind, A: a}
			case 5:
				e = HRef{K: "bytes", B: hex.EncodeToString(make([]byte, r.Intn(4)))}
			case 6:
				e = HRef{K: "bytes", N: []int{30000, 40000, 65535, 65536, 65537}[r.Intn(5)]}
			case 7:
				e = HRef{K: "bool", T: r.Intn(2) == 0}
			default:
				e = HRef{K: "int", I: []int64{0, 1, -1, 255, 256, 1 << 40, -1 << 63}[r.Intn(7)]}
			}
			h[i].Elems = append(h[i].Elems, e)
			if h[i].Kind == "map" {
				h[i].Keys = append(h[i].Keys, int64(k))
			}
		}
	}
	return h, HRef{K: h[0].Kind, A: 0}
}

// wideHeap: a struct with n integer elements below a chain of d structs (counter boundaries).
func wideHeap(n, d int) ([]HObj, HRef) {
	var h []HObj
	for i := 0; i < d; i++ {
		h = append(h, HObj{Kind: "struct", Elems: []HRef{{K: "struct", A: i + 1}}})
	}
	leaf := HObj{Kind: "struct"}
	for i := 0; i < n; i++ {
		leaf.Elems = append(leaf.Elems, HRef{K: "int", I: 7})
	}
	h = append(h, leaf)
	return h, HRef{K: "struct", A: 0}
}

func runCorr(c *hx.Ctx, n int) {
	r := c.Rng
	var reqs []CorrReq
	stackOps := []string{"SInsert", "SPeek", "SRemove", "SSet", "SPush", "SPop", "SSwap", "SPushMany"}
	execOps := []string{"XSubstr", "XLeft", "XRight", "XPickArray", "XPickStruct", "XPickBytes", "XSetArray", "XSetStruct", "XRemoveAt", "XNewArray", "XNewStruct", "XPack"}
	for len(reqs) < n {
		switch k := r.Intn(20); {
		case k < 7:
			limit := int64([]int{0, 1, 3, 4, 8, 2048}[r.Intn(6)])
			max := int(limit)
			if max > 8 {
				max = 8
			}
			d := genData(r, max, false)
			q := CorrReq{Kind: "stack", Op: stackOps[r.Intn(len(stackOps))], Limit: limit, Data: d, I: genIndex(r, len(d)), J: genIndex(r, len(d)), T: int64(r.Intn(100))}
			if q.Op == "SPushMany" {
				q.I = int64(r.Intn(6))
			}
			if q.Op == "SSet" && (q.I > 1<<31 || q.I < -1<<31) {
				q.I = int64(len(d))
			}
			reqs = append(reqs, q)
		case k < 14:
			op := execOps[r.Intn(len(execOps))]
			d := genData(r, 8, strings.HasSuffix(op, "Bytes") || op == "XSubstr" || op == "XLeft" || op == "XRight")
			q := CorrReq{Kind: "exec", Op: op, Data: d, I: genIndex(r, len(d)), J: genIndex(r, len(d))}
			if op == "XNewArray" || op == "XNewStruct" {
				q.Data = nil
				q.I = []int64{0, 1, 5, -1, 1023, 1024, 1025, 1 << 40}[r.Intn(8)]
			}
			if op == "XSubstr" && r.Intn(3) == 0 && len(d) > 0 { // start + count wraps around int64
				q.I = int64(1 + r.Intn(len(d)))
				q.J = (1<<63 - 1) - int64(r.Intn(int(q.I)+1))
			}
			if (op == "XSetArray" || op == "XSetStruct") && (q.J > 1<<40 || q.J < -1<<40) {
				q.J = 5
			}
			reqs = append(reqs, q)
		case k < 16:
			codelen := int64(3 + r.Intn(40))
			ip := 3 + int64(r.Intn(int(codelen-2)))
			num := []int64{0, 1, 2, 3, 4, -1, -2, -3, int64(codelen), int64(codelen) + 1, -int64(codelen), 32767, -32768}[r.Intn(13)]
			if r.Intn(3) == 0 {
				num = codelen - ip + 3 + int64(r.Intn(3)) - 1 // around the end of the code
			}
			reqs = append(reqs, CorrReq{Kind: "jmp", I: ip, J: codelen, T: num})
		case k < 17:
			codelen := int64(1 + r.Intn(20))
			reqs = append(reqs, CorrReq{Kind: "dcall", J: codelen, T: []int64{0, -1, codelen - 1, codelen, codelen + 1, 1 << 40}[r.Intn(6)]})
		case k < 18:
			reqs = append(reqs, CorrReq{Kind: "call", I: []int64{0, 1, 1022, 1023, 1024, 1025}[r.Intn(6)]})
		default:
			kind := []string{"clone", "convert"}[r.Intn(2)]
			var h []HObj
			var root HRef
			if r.Intn(6) == 0 {
				h, root = wideHeap([]int{1022, 1023, 1024, 1025, 1026}[r.Intn(5)], r.Intn(3))
			} else {
				h, root = genHeap(r, kind == "clone")
			}
			reqs = append(reqs, CorrReq{Kind: kind, Heap: h, Root: root})
		}
	}
	res, died, death := runCorrChild(reqs)
	if died >= 0 {
		c.Fail("crash:fatal:corr:"+reqs[died].Kind+":"+reqs[died].Op, "process survival: the operation ended the child process", reqs[died], death, "a result or an error")
	}
	for i, q := range reqs {
		if i >= len(res) || (died >= 0 && i >= died) {
			break
		}
		x := res[i]
		c.Eval()
		c.Count("corr:" + q.Kind + ":" + q.Op)
		if x.Panic != "" {
			c.Fail("crash:panic:corr:"+q.Kind+":"+q.Op, "the operation panicked", q, x.Panic, "a result or an error")
			continue
		}
		var term string
		switch q.Kind {
		case "stack":
			term = fmt.Sprintf("CStack %s (%d)%%Z %s (%d)%%Z (%d)%%Z (%d)%%Z %s", q.Op, q.Limit, zl(q.Data), q.I, q.J, q.T, obsTerm(x))
		case "exec":
			term = fmt.Sprintf("CExec %s %s (%d)%%Z (%d)%%Z %s", q.Op, zl(q.Data), q.I, q.J, obsTerm(x))
		case "jmp":
			term = fmt.Sprintf("CJmp (%d)%%Z (%d)%%Z (%d)%%Z %s", q.I, q.J, q.T, optZ(x.NewIP))
		case "dcall":
			term = fmt.Sprintf("CDcall (%d)%%Z (%d)%%Z %s", q.J, q.T, optZ(x.NewIP))
		case "call":
			term = fmt.Sprintf("CCall (%d)%%Z %s", q.I, hx.CoqBool(x.Ok))
		case "clone":
			term = fmt.Sprintf("CClone %s %d%%nat %s", heapTerm(q.Heap), q.Root.A, hx.CoqBool(x.Ok))
		case "convert":
			term = fmt.Sprintf("CConvert %s (%s) %s", heapTerm(q.Heap), refTerm(q.Root), hx.CoqBool(x.Ok))
		}
		if x.Err != "" {
			c.Count("corr-err:" + x.Err)
		}
		c.Nontrivial(term)
		c.Case(term, q)
		if i < 3 {
			c.Sample(map[string]interface{}{"request": q, "answer": x})
		}
	}
}

func optZ(p *int64) string {
	if p == nil {
		return "None"
	}
	return fmt.Sprintf("(Some (%d)%%Z)", *p)
}
