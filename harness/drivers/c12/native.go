package c12

import (
	"encoding/binary"
	"encoding/hex"
	"fmt"
	"math/big"
	"math/rand"
	"strings"

	"github.com/ontio/ontology-crypto/keypair"
	"github.com/ontio/ontology/common"
	nutils "github.com/ontio/ontology/smartcontract/service/native/utils"

	"verif/harness/hx"
)

// Native-contract calls with structured arguments.
//
// Every registered method has a shape (shapetable.go): the sequence of reads its handler performs
// on the argument bytes. Tokens:
//
//	v bytes   s text   i ONT ID   k public key   a address (var-bytes)   n integer (var-bytes, NEO
//	little-endian)   b bool   C ontid controller proof (key index, or serialized signers)
//	n[ .. ]  count then repetitions      v( .. )  a var-bytes whose content has the inner shape
//	inside v( ): w raw varuint, 1 2 4 8 fixed-width LE, h 32 raw bytes, r 20 raw bytes
//
// A call is generated from its shape with values drawn from the committed world (registered ids,
// keys and addresses of the signer, contract addresses, names used by earlier calls of the same
// probe) and from boundary pools (indices 0, 1, len, len+1, 2^32-1, 2^32, 2^63, 2^64-1, empty and
// long strings, counts that disagree with the list that follows). A probe is 1..5 calls to one
// contract by one principal, in table order (which follows the objects' life cycle), executed as
// one block and each call pre-executed alone.

type shape struct {
	contract string
	method   string
	toks     []string
}

var contractAddr = map[string]common.Address{
	"ontid":               nutils.OntIDContractAddress,
	"governance":          nutils.GovernanceContractAddress,
	"auth":                nutils.AuthContractAddress,
	"global_params":       nutils.ParamContractAddress,
	"ontfs":               nutils.OntFSContractAddress,
	"lock_proxy":          nutils.LockProxyContractAddress,
	"header_sync":         nutils.HeaderSyncContractAddress,
	"cross_chain_manager": nutils.CrossChainContractAddress,
	"ont":                 nutils.OntContractAddress,
	"ong":                 nutils.OngContractAddress,
	"system":              nutils.SystemContractAddress,
}

func parseShapes() map[string][]shape {
	out := map[string][]shape{}
	for _, l := range strings.Split(shapeTable, "\n") {
		p := strings.Split(l, "|")
		if len(p) != 3 {
			continue
		}
		out[p[0]] = append(out[p[0]], shape{p[0], p[1], strings.Fields(p[2])})
	}
	return out
}

type ngen struct {
	r     *rand.Rand
	w     *world
	u     int      // principal user of the probe
	names [][]byte // byte strings used by earlier calls of the probe (file hashes, roles, ...)
}

var bigBoundaries = []string{"0", "1", "2", "3", "4", "5", "100", "101", "255", "256", "1024", "1025", "65535", "65536",
	"4294967295", "4294967296", "4294967297", "9223372036854775807", "9223372036854775808", "18446744073709551615",
	"18446744073709551616", "-1", "-9223372036854775808", "1099511627776", "4503599627370496", "1048576", "86400"}

func (g *ngen) num() Node {
	switch g.r.Intn(10) {
	case 0, 1, 2, 3:
		return nI(int64(g.r.Intn(6)))
	case 4:
		return nI(int64(g.r.Intn(2000)))
	case 5: // around the current height / time
		return nI(int64(setupHeight + g.r.Intn(3)))
	default:
		v, _ := new(big.Int).SetString(bigBoundaries[g.r.Intn(len(bigBoundaries))], 10)
		return nBig(v)
	}
}

func (g *ngen) someUser() int {
	if g.r.Intn(10) < 7 {
		return g.u
	}
	return g.r.Intn(nUsers)
}

func (g *ngen) addr() Node {
	switch g.r.Intn(12) {
	case 0:
		return nB(g.w.book.Address[:])
	case 1:
		cs := []common.Address{nutils.OntContractAddress, nutils.OngContractAddress, nutils.GovernanceContractAddress, nutils.OntFSContractAddress, nutils.LockProxyContractAddress}
		a := cs[g.r.Intn(len(cs))]
		return nB(a[:])
	case 2:
		return nB(make([]byte, 20))
	case 3:
		return nB(g.rbytes([]int{0, 19, 21}[g.r.Intn(3)]))
	default:
		return nB(g.w.users[g.someUser()].Address[:])
	}
}

func (g *ngen) rbytes(n int) []byte {
	b := make([]byte, n)
	g.r.Read(b)
	return b
}

func (g *ngen) id() Node {
	switch g.r.Intn(14) {
	case 0:
		var a common.Address
		g.r.Read(a[:])
		return nS(ontID(a)) // valid, not registered
	case 1:
		return nS("did:ont:" + string(g.rbytes(5)))
	case 2:
		return nS("")
	case 3:
		return nS("did:ont:" + strings.Repeat("A", 300))
	case 4:
		return nS(g.w.ctlID())
	default:
		return nS(g.w.ids[g.someUser()])
	}
}

func (g *ngen) key() Node {
	switch g.r.Intn(12) {
	case 0:
		return nB(nil)
	case 1:
		return nB(g.rbytes(33))
	case 2:
		pk := append([]byte{}, g.w.pk(g.u)...)
		pk[g.r.Intn(len(pk))] ^= byte(1 + g.r.Intn(255))
		return nB(pk)
	case 3:
		return nB(g.w.pk(g.u)[:1+g.r.Intn(4)])
	default:
		return nB(g.w.pk(g.someUser()))
	}
}

func (g *ngen) text() Node {
	switch g.r.Intn(10) {
	case 0:
		return nS("")
	case 1: // governance peer keys are hex strings of public keys
		return nS(hex.EncodeToString(g.w.pk(g.someUser())))
	case 2:
		return nS(hex.EncodeToString(keypair.SerializePublicKey(g.w.book.PublicKey)))
	case 3:
		return nS(strings.Repeat("z", 200+g.r.Intn(2000)))
	default:
		return nB(g.name())
	}
}

func (g *ngen) name() []byte {
	if len(g.names) > 0 && g.r.Intn(10) < 7 {
		return g.names[g.r.Intn(len(g.names))]
	}
	n := []byte(fmt.Sprintf("n%d", g.r.Intn(3)))
	g.names = append(g.names, n)
	return n
}

func (g *ngen) blob() Node {
	switch g.r.Intn(14) {
	case 0:
		return nB(nil)
	case 1:
		return nB(g.rbytes(1))
	case 2:
		return nB(cat(pdpV1, make([]byte, 8)))
	case 3:
		return nB(cat(pdpV1, []byte(`["AAAAAAAAAAA="]`)))
	case 4:
		return nB(cat(pdpV1, []byte(`["AAAAAAAAAAA=","AAAAAAAAAAA="]`)))
	case 5:
		return nB(g.rbytes(1 + g.r.Intn(40)))
	case 6:
		return nB(g.rbytes(70000))
	case 7:
		return nB(pdpV1)
	default:
		return nB(g.name())
	}
}

// count for a list: mostly the real length, sometimes off by one / huge
func (g *ngen) count(real int) Node {
	switch g.r.Intn(12) {
	case 0:
		return nI(int64(real + 1))
	case 1:
		if real > 0 {
			return nI(int64(real - 1))
		}
		return nI(0)
	case 2:
		v, _ := new(big.Int).SetString(bigBoundaries[14+g.r.Intn(6)], 10)
		return nBig(v)
	default:
		return nI(int64(real))
	}
}

// fields generates the flat field list of toks[i:] up to the matching close; returns next index.
func (g *ngen) fields(toks []string, i int, raw bool) ([]Node, int) {
	var out []Node
	for i < len(toks) {
		t := toks[i]
		switch {
		case t == "]" || t == ")":
			return out, i + 1
		case t == "n[" || t == "w[" || t == "4[":
			reps := []int{0, 1, 1, 2, 3}[g.r.Intn(5)]
			if g.r.Intn(40) == 0 {
				reps = 30
			}
			var items []Node
			next := i + 1
			for k := 0; k < reps || k == 0; k++ {
				var one []Node
				one, next = g.fields(toks, i+1, raw)
				if k < reps {
					items = append(items, one...)
				}
			}
			c := g.count(reps)
			if t != "n[" {
				c.K = "raw:" + t[:1]
			}
			out = append(out, c)
			out = append(out, items...)
			i = next
			continue
		case t == "v(":
			inner, next := g.fields(toks, i+1, true)
			out = append(out, nB(rawBytes(inner)))
			i = next
			continue
		case t == "v":
			out = append(out, g.blob())
		case t == "s":
			out = append(out, g.text())
		case t == "i":
			out = append(out, g.id())
		case t == "k":
			out = append(out, g.key())
		case t == "a":
			out = append(out, g.addr())
		case t == "n":
			out = append(out, g.num())
		case t == "b":
			out = append(out, nT(g.r.Intn(2) == 0))
		case t == "C":
			if g.r.Intn(2) == 0 {
				out = append(out, nI(int64(g.r.Intn(3))))
			} else {
				out = append(out, nB(g.w.signers(g.someUser())))
			}
		case t == "w" || t == "1" || t == "2" || t == "4" || t == "8":
			n := g.num()
			n.K = "raw:" + t
			out = append(out, n)
		case t == "h":
			n := nB(g.rbytes(32))
			n.K = "raw:b"
			out = append(out, n)
		case t == "r":
			n := nB(g.w.users[g.someUser()].Address[:])
			n.K = "raw:b"
			out = append(out, n)
		}
		i++
	}
	return out, i
}

// rawBytes serializes a flat field list the way BuildParamToNative would (var-bytes for bytes and
// integers, one byte for bools); "raw:" kinds exist only inside nested byte strings.
func rawBytes(fields []Node) []byte {
	sink := common.NewZeroCopySink(nil)
	for _, f := range fields {
		switch f.K {
		case "b":
			b, _ := hex.DecodeString(f.B)
			sink.WriteVarBytes(b)
		case "i":
			v, _ := new(big.Int).SetString(f.I, 10)
			sink.WriteVarBytes(common.BigIntToNeoBytes(v))
		case "t":
			sink.WriteBool(f.T)
		case "raw:b":
			b, _ := hex.DecodeString(f.B)
			sink.WriteBytes(b)
		case "raw:w", "raw:1", "raw:2", "raw:4", "raw:8":
			v, _ := new(big.Int).SetString(f.I, 10)
			u := new(big.Int).And(v, new(big.Int).SetUint64(^uint64(0))).Uint64()
			switch f.K {
			case "raw:w":
				sink.WriteVarUint(u)
			case "raw:1":
				sink.WriteByte(byte(u))
			case "raw:2":
				var b [2]byte
				binary.LittleEndian.PutUint16(b[:], uint16(u))
				sink.WriteBytes(b[:])
			case "raw:4":
				sink.WriteUint32(uint32(u))
			case "raw:8":
				sink.WriteUint64(u)
			}
		}
	}
	return sink.Bytes()
}

// topLevel drops what cannot be written at the top level through NeoVM (raw fixed-width fields).
func topLevel(fields []Node) []Node {
	var out []Node
	for _, f := range fields {
		if strings.HasPrefix(f.K, "raw:") {
			if f.K == "raw:b" {
				f.K = "b"
			} else {
				f.K = "i"
			}
		}
		out = append(out, f)
	}
	return out
}

func (g *ngen) call(s shape) TxSpec {
	fs, _ := g.fields(s.toks, 0, false)
	fs = topLevel(fs)
	if len(fs) > 0 && g.r.Intn(25) == 0 { // truncated argument list
		fs = fs[:g.r.Intn(len(fs))]
	}
	var args Node
	if g.r.Intn(30) == 0 {
		args = nArr(fs...) // an array instead of a struct: a count is prepended
	} else {
		args = nStruct(fs...)
	}
	signers := []int{g.u}
	switch g.r.Intn(12) {
	case 0:
		signers = []int{g.r.Intn(nUsers)}
	case 1:
		signers = []int{g.u, -1}
	case 2:
		signers = []int{-1}
	}
	ver := int64(0)
	if g.r.Intn(40) == 0 {
		ver = int64(g.r.Intn(300))
	}
	a := contractAddr[s.contract]
	return TxSpec{Kind: "native", Contract: hex.EncodeToString(a[:]), Method: s.method, Ver: ver, Args: &args, Signers: signers}
}

func genNative(c *hx.Ctx, w *world, n int) []Probe {
	shapes := parseShapes()
	var contracts []string
	for k := range contractAddr {
		if len(shapes[k]) > 0 {
			contracts = append(contracts, k)
		}
	}
	sortStrings(contracts)
	// weights: the contracts that take user-controlled indices / lengths get most of the budget
	weight := map[string]int{"ontid": 8, "ontfs": 8, "governance": 5, "auth": 3, "global_params": 2, "lock_proxy": 2,
		"header_sync": 1, "cross_chain_manager": 2, "ont": 2, "ong": 2, "system": 1}
	var wheel []string
	for _, k := range contracts {
		for i := 0; i < weight[k]; i++ {
			wheel = append(wheel, k)
		}
	}
	var out []Probe
	// every method at least once, alone
	for _, k := range contracts {
		for _, s := range shapes[k] {
			g := &ngen{r: c.Rng, w: w, u: c.Rng.Intn(3)}
			out = append(out, Probe{Name: fmt.Sprintf("native:%s:%s", k, s.method), Txs: []TxSpec{g.call(s)}})
			c.Count("native-method-covered")
		}
	}
	for len(out) < n {
		k := wheel[c.Rng.Intn(len(wheel))]
		ss := shapes[k]
		g := &ngen{r: c.Rng, w: w, u: c.Rng.Intn(nUsers)}
		cnt := 1 + c.Rng.Intn(5)
		// pick cnt methods, keep table order
		idx := map[int]bool{}
		for len(idx) < cnt && len(idx) < len(ss) {
			idx[c.Rng.Intn(len(ss))] = true
		}
		var txs []TxSpec
		var ms []string
		for i := range ss {
			if idx[i] {
				txs = append(txs, g.call(ss[i]))
				ms = append(ms, ss[i].method)
			}
		}
		out = append(out, Probe{Name: fmt.Sprintf("native:%s:%s", k, strings.Join(ms, "+")), Txs: txs})
		c.Count("native-contract:" + k)
		c.Count(fmt.Sprintf("native-calls-per-probe:%d", len(txs)))
	}
	return out
}

func sortStrings(s []string) {
	for i := 1; i < len(s); i++ {
		for j := i; j > 0 && s[j] < s[j-1]; j-- {
			s[j], s[j-1] = s[j-1], s[j]
		}
	}
}
