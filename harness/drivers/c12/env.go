package c12

import (
	"crypto/ecdsa"
	"crypto/elliptic"
	"crypto/sha256"
	"encoding/hex"
	"fmt"
	"math/big"
	"strings"

	ethcomm "github.com/ethereum/go-ethereum/common"
	ethtypes "github.com/ethereum/go-ethereum/core/types"
	ethcrypto "github.com/ethereum/go-ethereum/crypto"
	"github.com/ontio/ontology-crypto/ec"
	"github.com/ontio/ontology-crypto/keypair"
	csig "github.com/ontio/ontology-crypto/signature"
	"github.com/ontio/ontology/account"
	"github.com/ontio/ontology/common"
	"github.com/ontio/ontology/common/config"
	"github.com/ontio/ontology/core/payload"
	"github.com/ontio/ontology/core/types"
	"github.com/ontio/ontology/smartcontract/event"
	nutils "github.com/ontio/ontology/smartcontract/service/native/utils"

	"verif/harness/ledgerkit"
)

// TxSpec describes one transaction of a probe; everything is explicit so that a replay file is
// self-contained. Accounts are deterministic (index -> key), -1 is the bookkeeper.
type TxSpec struct {
	Kind     string `json:"kind"`               // code | native | deploy | evm
	Code     string `json:"code,omitempty"`     // code / deploy: NeoVM byte code (hex)
	Contract string `json:"contract,omitempty"` // native: contract address (hex, as in utils.*ContractAddress)
	Method   string `json:"method,omitempty"`
	Ver      int64  `json:"ver,omitempty"`
	Args     *Node  `json:"args,omitempty"`
	Signers  []int  `json:"signers,omitempty"`
	GasLimit uint64 `json:"gas_limit,omitempty"`
	GasPrice uint64 `json:"gas_price,omitempty"`
	// evm
	From  int    `json:"from,omitempty"`  // ethereum account index
	To    string `json:"to,omitempty"`    // hex, "" = contract creation
	Data  string `json:"data,omitempty"`  // hex
	Value uint64 `json:"value,omitempty"` // wei
	Nonce *int64 `json:"nonce,omitempty"` // nil: the account's next nonce in this child
	Note  string `json:"note,omitempty"`  // what the transaction exercises (evm operand family: OPCODE(operands))
}

type Probe struct {
	Name string   `json:"name"`
	Txs  []TxSpec `json:"txs"`
	// NoPre: do not pre-execute (setup transactions of a sequence are still executed in the block)
	PreOnly   bool `json:"pre_only,omitempty"`
	BlockOnly bool `json:"block_only,omitempty"`
	StackMB   int  `json:"stack_mb,omitempty"` // goroutine stack cap for this probe (default 256)
}

const (
	nUsers        = 6
	nEth          = 3
	defaultGas    = 200000
	userOntAmount = 1000000
	userOngAmount = 1000 * 1000000000 // 1000 ONG
)

func detAccount(i int) *account.Account {
	seed := sha256.Sum256([]byte(fmt.Sprintf("verif-c12-account-%d", i)))
	k := ec.ConstructPrivateKey(seed[:], elliptic.P256())
	pri := &ec.PrivateKey{Algorithm: ec.ECDSA, PrivateKey: k}
	pub := pri.Public().(keypair.PublicKey)
	return &account.Account{PrivateKey: pri, PublicKey: pub, Address: types.AddressFromPubKey(pub), SigScheme: csig.SHA256withECDSA}
}

type ethAcct struct {
	key   *ecdsa.PrivateKey
	addr  common.Address
	nonce uint64
}

// The fixed world every child starts from (used by generators in the parent too: pure functions).
type world struct {
	book  *account.Account
	users []*account.Account
	ids   []string // ONT IDs: ids[i] = did of users[i]'s address
}

func ontID(a common.Address) string { return "did:ont:" + a.ToBase58() }

func newWorld() *world {
	w := &world{book: detAccount(-1)}
	for i := 0; i < nUsers; i++ {
		u := detAccount(i)
		w.users = append(w.users, u)
		w.ids = append(w.ids, ontID(u.Address))
	}
	return w
}

func (w *world) acct(i int) *account.Account {
	if i < 0 || i >= len(w.users) {
		return w.book
	}
	return w.users[i]
}

func (w *world) pk(i int) []byte { return keypair.SerializePublicKey(w.acct(i).PublicKey) }

type env struct {
	*world
	kit  *ledgerkit.Kit
	eths []*ethAcct
}

func (e *env) close() { e.kit.Close() }

func newEnv(dir string) (*env, error) {
	w := newWorld()
	kit, err := ledgerkit.NewWithAccount(dir, w.book)
	if err != nil {
		return nil, err
	}
	e := &env{world: w, kit: kit}
	for i := 0; i < nEth; i++ {
		e.eths = append(e.eths, newEthAcct(i))
	}
	for bi, specs := range setupBlocks(w) {
		var txs []*types.Transaction
		for _, s := range specs {
			tx, err := e.build(s)
			if err != nil {
				return nil, fmt.Errorf("setup block %d: %v", bi, err)
			}
			txs = append(txs, tx)
		}
		b, err := kit.MakeBlock(txs)
		if err != nil {
			return nil, err
		}
		res, err := kit.Ledger.ExecuteBlock(b)
		if err != nil {
			return nil, fmt.Errorf("setup block %d: %v", bi, err)
		}
		for ti, n := range res.Notify {
			if n.State != event.CONTRACT_STATE_SUCCESS && !specs[ti].mayFail() {
				return nil, fmt.Errorf("setup block %d tx %d (%s %s) failed", bi, ti, specs[ti].Kind, specs[ti].Method)
			}
		}
		if err := kit.Ledger.AddBlock(b, nil, res.MerkleRoot); err != nil {
			return nil, fmt.Errorf("setup block %d: %v", bi, err)
		}
	}
	return e, nil
}

func (s TxSpec) mayFail() bool { return strings.HasPrefix(s.Method, "?") }

func addrHex(a common.Address) string { return hex.EncodeToString(a[:]) }

// build turns a TxSpec into a signed transaction.
func (e *env) build(s TxSpec) (*types.Transaction, error) {
	gas := s.GasLimit
	if gas == 0 {
		gas = defaultGas
	}
	switch s.Kind {
	case "evm":
		return e.buildEvm(s, gas)
	case "deploy":
		code, err := hex.DecodeString(s.Code)
		if err != nil {
			return nil, err
		}
		dc, err := payload.NewDeployCode(code, payload.NEOVM_TYPE, "c12", "1", "v", "e", "d")
		if err != nil {
			return nil, err
		}
		mtx := &types.MutableTransaction{GasPrice: 0, GasLimit: 30000000, TxType: types.Deploy, Nonce: e.nonce(), Payload: dc}
		return e.sign(mtx, s.Signers)
	}
	var code []byte
	switch s.Kind {
	case "code":
		c, err := hex.DecodeString(s.Code)
		if err != nil {
			return nil, err
		}
		code = c
	case "native":
		addr, err := hex.DecodeString(s.Contract)
		if err != nil {
			return nil, err
		}
		args := nStruct()
		if s.Args != nil {
			args = *s.Args
		}
		code = nativeCallCode(addr, s.Ver, strings.TrimPrefix(s.Method, "?"), args)
	default:
		return nil, fmt.Errorf("unknown tx kind %q", s.Kind)
	}
	mtx := &types.MutableTransaction{GasPrice: s.GasPrice, GasLimit: gas, TxType: types.InvokeNeo, Nonce: e.nonce(), Payload: &payload.InvokeCode{Code: code}}
	return e.sign(mtx, s.Signers)
}

var txNonce uint32 = 1000

func (e *env) nonce() uint32 { txNonce++; return txNonce }

func (e *env) sign(mtx *types.MutableTransaction, signers []int) (*types.Transaction, error) {
	if len(signers) == 0 {
		signers = []int{0}
	}
	for _, i := range signers {
		if err := ledgerkit.Sign(mtx, e.acct(i)); err != nil {
			return nil, err
		}
	}
	return mtx.IntoImmutable()
}

func (e *env) buildEvm(s TxSpec, gas uint64) (*types.Transaction, error) {
	if s.From < 0 || s.From >= len(e.eths) {
		s.From = 0
	}
	a := e.eths[s.From]
	data, err := hex.DecodeString(s.Data)
	if err != nil {
		return nil, err
	}
	nonce := a.nonce
	if s.Nonce != nil {
		nonce = uint64(*s.Nonce)
	}
	var raw *ethtypes.Transaction
	val := new(big.Int).SetUint64(s.Value)
	if s.To == "" {
		raw = ethtypes.NewContractCreation(nonce, val, gas, big.NewInt(0), data)
	} else {
		raw = ethtypes.NewTransaction(nonce, ethcomm.HexToAddress(s.To), val, gas, big.NewInt(0), data)
	}
	chainID := big.NewInt(int64(config.DefConfig.P2PNode.EVMChainId))
	signed, err := ethtypes.SignTx(raw, ethtypes.NewEIP155Signer(chainID), a.key)
	if err != nil {
		return nil, err
	}
	return types.TransactionFromEIP155(signed)
}

func newEthAcct(i int) *ethAcct {
	seed := sha256.Sum256([]byte(fmt.Sprintf("verif-c12-eth-%d", i)))
	k, err := ethcrypto.ToECDSA(seed[:])
	if err != nil {
		panic(err)
	}
	return &ethAcct{key: k, addr: common.Address(ethcrypto.PubkeyToAddress(k.PublicKey))}
}

var (
	ontAddrHex   = addrHex(nutils.OntContractAddress)
	ongAddrHex   = addrHex(nutils.OngContractAddress)
	ontidAddrHex = addrHex(nutils.OntIDContractAddress)
	ontfsAddrHex = addrHex(nutils.OntFSContractAddress)
)
