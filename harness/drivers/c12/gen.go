package c12

import (
	"bytes"
	"fmt"
	"go/ast"
	"go/parser"
	"go/printer"
	"go/token"
	"path/filepath"
	"strings"

	"github.com/ontio/ontology/smartcontract"
	"github.com/ontio/ontology/smartcontract/service/native/ontfs/pdp"
	sneovm "github.com/ontio/ontology/smartcontract/service/neovm"
	vm "github.com/ontio/ontology/vm/neovm"
	"github.com/ontio/ontology/vm/neovm/constants"
	vmtypes "github.com/ontio/ontology/vm/neovm/types"

	"verif/harness/gen"
)

// Translator for Gen/GuardSites.v: the bounds tests that stand between user-controlled integers
// and slice accesses are read from the source as boolean formulas. A guard is located by file,
// function, optional `case` label inside the function's switch, and its position among the `if`
// conditions of that scope that are pure formulas over the named operands (conditions that
// mention anything else - err != nil, opcode == CALL, ... - are not counted). Props/C12.v proves,
// for the formulas as they are NOW in the source, that the access that follows stays inside its
// slice; weakening a guard (>= to >, dropping a disjunct) changes the generated formula and the
// proof no longer checks; removing it makes the site disappear and the file does not compile
// (fail closed).

type guardSite struct {
	Name  string
	File  string
	Func  string
	Case  string // "" or the case label inside the function's switch
	K     int    // k-th pure condition in that scope
	Subst map[string]string
	Vars  []string
}

func gs(name, file, fn, cs string, k int, vars []string, subst ...string) guardSite {
	m := map[string]string{}
	for i := 0; i+1 < len(subst); i += 2 {
		m[subst[i]] = subst[i+1]
	}
	return guardSite{Name: name, File: file, Func: fn, Case: cs, K: k, Subst: m, Vars: vars}
}

const (
	fStack = "vm/neovm/value_stack.go"
	fExec  = "vm/neovm/executor.go"
	fOwner = "smartcontract/service/native/ontid/owner.go"
)

var guardSites = []guardSite{
	// ValueStack
	gs("vs_insert_full", fStack, "Insert", "", 0, []string{"l", "limit"}, "l", "l", "self.limit", "limit"),
	gs("vs_insert_bad", fStack, "Insert", "", 0, []string{"index", "l"}, "index", "index", "l", "l"),
	gs("vs_peek_bad", fStack, "Peek", "", 0, []string{"index", "l"}, "index", "index", "l", "l"),
	gs("vs_remove_bad", fStack, "Remove", "", 0, []string{"index", "l"}, "index", "index", "l", "l"),
	gs("vs_set_bad", fStack, "Set", "", 0, []string{"index", "l"}, "index", "index", "l", "l"),
	gs("vs_push_full", fStack, "Push", "", 0, []string{"l", "limit"}, "len(self.data)", "l", "self.limit", "limit"),
	gs("vs_pushmany_full", fStack, "PushMany", "", 0, []string{"l", "n", "limit"}, "len(self.data)", "l", "len(vals)", "n", "self.limit", "limit"),
	gs("vs_swap_bad_i", fStack, "Swap", "", 0, []string{"i", "l"}, "i", "i", "l", "l"),
	gs("vs_swap_bad_j", fStack, "Swap", "", 0, []string{"j", "l"}, "j", "j", "l", "l"),
	gs("vs_copyto_full", fStack, "CopyTo", "", 0, []string{"l", "n", "limit"}, "len(self.data)", "l", "len(stack.data)", "n", "stack.limit", "limit"),
	// executor: splice
	gs("ex_substr_start_bad", fExec, "ExecuteOp", "SUBSTR", 0, []string{"start", "length"}, "start", "start", "length", "length"),
	gs("ex_substr_count_bad", fExec, "ExecuteOp", "SUBSTR", 0, []string{"count", "length"}, "count", "count", "length", "length"),
	gs("ex_substr_end_bad", fExec, "ExecuteOp", "SUBSTR", 0, []string{"fin", "length"}, "end", "fin", "length", "length"),
	gs("ex_left_bad", fExec, "ExecuteOp", "LEFT", 0, []string{"count", "length"}, "count", "count", "length", "length"),
	gs("ex_right_bad", fExec, "ExecuteOp", "RIGHT", 0, []string{"count", "length"}, "count", "count", "length", "length"),
	// executor: element access
	gs("ex_pickitem_array_bad", fExec, "ExecuteOp", "PICKITEM", 0, []string{"ind", "l"}, "ind", "ind", "array.Len()", "l"),
	gs("ex_pickitem_struct_bad", fExec, "ExecuteOp", "PICKITEM", 0, []string{"ind", "l"}, "ind", "ind", "struc.Len()", "l"),
	gs("ex_pickitem_bytes_bad", fExec, "ExecuteOp", "PICKITEM", 0, []string{"ind", "l"}, "ind", "ind", "len(buf)", "l"),
	gs("ex_setitem_array_bad", fExec, "ExecuteOp", "SETITEM", 0, []string{"ind", "l"}, "ind", "ind", "array.Len()", "l"),
	gs("ex_setitem_struct_bad", fExec, "ExecuteOp", "SETITEM", 0, []string{"ind", "l"}, "ind", "ind", "struc.Len()", "l"),
	gs("ex_newarray_bad", fExec, "ExecuteOp", "NEWARRAY", 0, []string{"count"}, "count", "count", "MAX_ARRAY_SIZE", "EXEC_MAX_ARRAY_SIZE"),
	gs("ex_newstruct_bad", fExec, "ExecuteOp", "NEWSTRUCT", 0, []string{"count"}, "count", "count", "MAX_ARRAY_SIZE", "EXEC_MAX_ARRAY_SIZE"),
	gs("ex_pack_bad", fExec, "ExecuteOp", "PACK", 0, []string{"size"}, "size", "size"),
	gs("arr_removeat_bad", "vm/neovm/types/array_value.go", "RemoveAt", "", 0, []string{"index", "l"}, "index", "index", "self.Len()", "l"),
	// executor: control flow
	gs("ex_jmp_bad", fExec, "ExecuteOp", "JMP", 0, []string{"offset", "codelen"}, "offset", "offset", "len(context.Code)", "codelen"),
	gs("ex_dcall_bad", fExec, "ExecuteOp", "DCALL", 0, []string{"target", "codelen"}, "target", "target", "len(self.Context.Code)", "codelen"),
	gs("ex_pushcontext_full", fExec, "PushContext", "", 0, []string{"callers"}, "len(self.Callers)", "callers", "constants.MAX_INVOCATION_STACK_SIZE", "MAX_INVOCATION_STACK_SIZE"),
	// recursion counters
	gs("clone_over", "vm/neovm/types/struct_value.go", "cloneStruct", "", 0, []string{"length"}, "*length", "length", "MAX_CLONE_LENGTH", "MAX_CLONE_LENGTH"),
	gs("convert_count_over", "vm/neovm/types/neovm_value.go", "convertNeoVmValueHexString", "", 0, []string{"count"}, "*count", "count", "MAX_COUNT", "CONVERT_MAX_COUNT"),
	gs("convert_length_over", "vm/neovm/types/neovm_value.go", "convertNeoVmValueHexString", "", 0, []string{"length"}, "*length", "length", "MAX_NOTIFY_LENGTH", "MAX_NOTIFY_LENGTH"),
	// engines, steps, gas
	gs("sc_contexts_over", "smartcontract/smart_contract.go", "checkContexts", "", 0, []string{"contexts"}, "len(this.Contexts)", "contexts", "MAX_EXECUTE_ENGINE", "MAX_EXECUTE_ENGINE"),
	gs("sc_steps_over", "smartcontract/smart_contract.go", "CheckExecStep", "", 0, []string{"steps"}, "this.ExecStep", "steps", "neovm.VM_STEP_LIMIT", "VM_STEP_LIMIT"),
	gs("sc_gas_short", "smartcontract/smart_contract.go", "CheckUseGas", "", 0, []string{"have", "gas"}, "this.Gas", "have", "gas", "gas"),
	// native contracts: the repaired index / length tests
	gs("ontid_revoke_bad_v0", fOwner, "revokePkByIndex", "", 0, []string{"index", "n"}, "index", "index", "len(owners)", "n"),
	gs("ontid_revoke_bad_v1", fOwner, "revokePkByIndex", "", 0, []string{"index", "n"}, "index", "index", "len(publicKeys)", "n"),
	gs("ontid_getpk_bad", fOwner, "getPk", "", 1, []string{"index", "n"}, "index", "index", "len(publicKeys)", "n"),
	gs("gov_config_k_zero", "smartcontract/service/native/governance/governance.go", "UpdateConfig", "", 0, []string{"k"}, "configuration.K", "k"),
	gs("ontfs_proof_short", "smartcontract/service/native/ontfs/node_business.go", "CheckPdpProve", "", 0, []string{"n"}, "len(proofData)", "n", "pdp.VersionLength", "PDP_VERSION_LENGTH"),
	gs("ontfs_blocknum_zero", "smartcontract/service/native/ontfs/pdp/pdp.go", "GenChallenge", "", 0, []string{"n"}, "fileBlockNum", "n"),
	gs("ontfs_merkle_short", "smartcontract/service/native/ontfs/pdp/merkle_pdp/merkle_pdp.go", "VerifyMerkleProof", "", 0, []string{"n"}, "proofLength", "n"),
}

func pnode(fset *token.FileSet, n ast.Node) string {
	var b bytes.Buffer
	printer.Fprint(&b, fset, n)
	return b.String()
}

// zexpr translates an integer expression over the substituted operands.
func zexpr(fset *token.FileSet, e ast.Expr, subst map[string]string) (string, bool) {
	if v, ok := subst[pnode(fset, e)]; ok {
		return v, true
	}
	switch x := e.(type) {
	case *ast.ParenExpr:
		return zexpr(fset, x.X, subst)
	case *ast.BasicLit:
		if x.Kind == token.INT {
			return "(" + x.Value + ")", true
		}
	case *ast.CallExpr: // width conversions of values that are in range: identity
		if id, ok := x.Fun.(*ast.Ident); ok && len(x.Args) == 1 {
			switch id.Name {
			case "int64", "int", "uint32", "uint64", "uint":
				return zexpr(fset, x.Args[0], subst)
			}
		}
	case *ast.BinaryExpr:
		l, ok1 := zexpr(fset, x.X, subst)
		r, ok2 := zexpr(fset, x.Y, subst)
		if ok1 && ok2 {
			switch x.Op {
			case token.ADD:
				return "(" + l + " + " + r + ")", true
			case token.SUB:
				return "(" + l + " - " + r + ")", true
			}
		}
	}
	return "", false
}

func bexpr(fset *token.FileSet, e ast.Expr, subst map[string]string) (string, bool) {
	switch x := e.(type) {
	case *ast.ParenExpr:
		return bexpr(fset, x.X, subst)
	case *ast.UnaryExpr:
		if x.Op == token.NOT {
			if b, ok := bexpr(fset, x.X, subst); ok {
				return "(negb " + b + ")", true
			}
		}
	case *ast.BinaryExpr:
		switch x.Op {
		case token.LOR, token.LAND:
			l, ok1 := bexpr(fset, x.X, subst)
			r, ok2 := bexpr(fset, x.Y, subst)
			if ok1 && ok2 {
				op := " || "
				if x.Op == token.LAND {
					op = " && "
				}
				return "(" + l + op + r + ")", true
			}
		case token.LSS, token.LEQ, token.GTR, token.GEQ, token.EQL, token.NEQ:
			l, ok1 := zexpr(fset, x.X, subst)
			r, ok2 := zexpr(fset, x.Y, subst)
			if ok1 && ok2 {
				switch x.Op {
				case token.LSS:
					return "(" + l + " <? " + r + ")", true
				case token.LEQ:
					return "(" + l + " <=? " + r + ")", true
				case token.GTR:
					return "(" + r + " <? " + l + ")", true
				case token.GEQ:
					return "(" + r + " <=? " + l + ")", true
				case token.EQL:
					return "(" + l + " =? " + r + ")", true
				default:
					return "(negb (" + l + " =? " + r + "))", true
				}
			}
		}
	}
	return "", false
}

func translateGuard(repo string, s guardSite) (goText, coq string, err error) {
	fset := token.NewFileSet()
	f, perr := parser.ParseFile(fset, filepath.Join(repo, s.File), nil, 0)
	if perr != nil {
		return "", "", perr
	}
	var fd *ast.FuncDecl
	for _, d := range f.Decls {
		if x, ok := d.(*ast.FuncDecl); ok && x.Name.Name == s.Func && x.Body != nil {
			fd = x
			break
		}
	}
	if fd == nil {
		return "", "", fmt.Errorf("function %s not found in %s", s.Func, s.File)
	}
	var scope ast.Node = fd.Body
	if s.Case != "" {
		var found ast.Node
		ast.Inspect(fd.Body, func(n ast.Node) bool {
			if cc, ok := n.(*ast.CaseClause); ok && found == nil {
				for _, l := range cc.List {
					if id, ok := l.(*ast.Ident); ok && id.Name == s.Case {
						found = cc
					}
				}
			}
			return found == nil
		})
		if found == nil {
			return "", "", fmt.Errorf("case %s not found in %s", s.Case, s.Func)
		}
		scope = found
	}
	k := 0
	ast.Inspect(scope, func(n ast.Node) bool {
		if is, ok := n.(*ast.IfStmt); ok && coq == "" {
			if b, ok := bexpr(fset, is.Cond, s.Subst); ok {
				if k == s.K {
					coq, goText = b, pnode(fset, is.Cond)
				}
				k++
			}
		}
		return coq == ""
	})
	if coq == "" {
		return "", "", fmt.Errorf("guard #%d over the operands %v not found in %s/%s %s (found %d)", s.K, s.Vars, s.File, s.Func, s.Case, k)
	}
	return goText, coq, nil
}

func produceGuardSites(repo string) ([]byte, []string) {
	var b bytes.Buffer
	var errs []string
	b.WriteString("(* GENERATED by harness/drivers/c12/gen.go from /repo's source. Do not edit. *)\nFrom Coq Require Import ZArith Bool.\nLocal Open Scope Z_scope.\n\n")
	minGas := sneovm.OPCODE_GAS
	sneovm.GAS_TABLE.Range(func(k, v interface{}) bool {
		if p := v.(uint64); p < minGas {
			minGas = p
		}
		return true
	})
	consts := []struct {
		n string
		v int64
		c string
	}{
		{"STACK_LIMIT", int64(vm.STACK_LIMIT), "vm/neovm.STACK_LIMIT (NewValueStack(STACK_LIMIT))"},
		{"EXEC_MAX_ARRAY_SIZE", int64(vm.MAX_ARRAY_SIZE), "vm/neovm.MAX_ARRAY_SIZE (NEWARRAY / NEWSTRUCT)"},
		{"APPEND_MAX_ARRAY_SIZE", int64(constants.MAX_ARRAY_SIZE), "vm/neovm/constants.MAX_ARRAY_SIZE (ArrayValue.Append)"},
		{"MAX_INVOCATION_STACK_SIZE", int64(constants.MAX_INVOCATION_STACK_SIZE), "vm/neovm/constants.MAX_INVOCATION_STACK_SIZE"},
		{"MAX_BYTEARRAY_SIZE", int64(constants.MAX_BYTEARRAY_SIZE), "vm/neovm/constants.MAX_BYTEARRAY_SIZE"},
		{"MAX_CLONE_LENGTH", int64(vmtypes.MAX_CLONE_LENGTH), "vm/neovm/types.MAX_CLONE_LENGTH"},
		{"CONVERT_MAX_COUNT", int64(vmtypes.MAX_COUNT), "vm/neovm/types.MAX_COUNT"},
		{"MAX_NOTIFY_LENGTH", int64(vmtypes.MAX_NOTIFY_LENGTH), "vm/neovm/types.MAX_NOTIFY_LENGTH"},
		{"MAX_EXECUTE_ENGINE", int64(smartcontract.MAX_EXECUTE_ENGINE), "smartcontract.MAX_EXECUTE_ENGINE"},
		{"VM_STEP_LIMIT", int64(sneovm.VM_STEP_LIMIT), "smartcontract/service/neovm.VM_STEP_LIMIT"},
		{"MIN_OPCODE_GAS", int64(minGas), "minimum over neovm.GAS_TABLE and OPCODE_GAS: the least gas one executed instruction costs"},
		{"METHOD_LENGTH_LIMIT", int64(sneovm.METHOD_LENGTH_LIMIT), "smartcontract/service/neovm.METHOD_LENGTH_LIMIT"},
		{"PDP_VERSION_LENGTH", int64(pdp.VersionLength), "ontfs/pdp.VersionLength"},
	}
	for _, c := range consts {
		fmt.Fprintf(&b, "(* %s *)\nDefinition %s : Z := %d.\n", c.c, c.n, c.v)
	}
	b.WriteString("\n")
	for _, s := range guardSites {
		goText, coq, err := translateGuard(repo, s)
		if err != nil {
			errs = append(errs, s.Name+": "+err.Error())
			fmt.Fprintf(&b, "(* translator_broken_%s: %s *)\n", s.Name, strings.ReplaceAll(err.Error(), "*)", "* )"))
			continue
		}
		params := ""
		if len(s.Vars) > 0 {
			params = " (" + strings.Join(s.Vars, " ") + " : Z)"
		}
		fmt.Fprintf(&b, "(* %s %s %s: if %s *)\nDefinition %s%s : bool := %s.\n", s.File, s.Func, s.Case, strings.ReplaceAll(goText, "*)", "* )"), s.Name, params, coq)
	}
	return b.Bytes(), errs
}

func init() { gen.RegisterFile("GuardSites.v", produceGuardSites) }
