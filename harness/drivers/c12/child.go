package c12

import (
	"bufio"
	"bytes"
	"context"
	"encoding/json"
	"fmt"
	"os"
	"os/exec"
	"runtime"
	"runtime/debug"
	"runtime/metrics"
	"strconv"
	"strings"
	"sync"
	"sync/atomic"
	"syscall"
	"time"
)

// Every execution of generated input happens in a CHILD process: the harness binary re-executed
// with VERIF_C12_CHILD=1. The child builds its own solo ledger (process globals are per child),
// applies the fixed setup blocks, then runs the probes it reads from stdin and answers one JSON
// line per probe. A Go panic is caught by a deferred recover in the child (the node itself has no
// recover on this path: a panic there ends the process) and reported with its message and
// innermost frames; fatal runtime errors (stack overflow, out of memory) and hangs end the child,
// the parent records that for the probe that was running and starts a new child for the rest.

const childEnv = "VERIF_C12_CHILD"

const (
	childMaxStack  = 256 << 20        // goroutine stack cap in the child (Go default 1 GB): an overflow is fast
	childMemLimit  = 4 << 30          // watchdog: total Go memory above this = unbounded allocation
	probeTimeLimit = 40 * time.Second // CPU time of one probe
	probeWallLimit = 3 * time.Minute
	exitOOM        = 97
	exitHang       = 98
	exitAfterPanic = 96
)

type Job struct {
	Dir    string  `json:"dir"`
	Probes []Probe `json:"probes"`
}

// Outcome of one execution path of a probe.
type Outcome struct {
	Path   string `json:"path"`  // block | pre:<k>
	State  string `json:"state"` // ok | fail | err | panic
	Detail string `json:"detail,omitempty"`
	Millis int64  `json:"ms"`
}

type ProbeResult struct {
	I        int       `json:"i"`
	Outcomes []Outcome `json:"outcomes"`
	// filled by the parent when the child did not come back
	Crashed bool   `json:"crashed,omitempty"`
	Timeout bool   `json:"timeout,omitempty"`
	OOM     bool   `json:"oom,omitempty"`
	Death   string `json:"death,omitempty"`
}

var probeStart atomic.Int64 // unix nanos of the running probe, 0 when idle
var probeCPU atomic.Int64   // process CPU time (ns) when the running probe started

// cpuTime: user+system time of the process. The hang test uses CPU time, so that a loaded machine
// does not turn a slow probe into a "hang"; the wall-clock limit is only for executions that block.
func cpuTime() time.Duration {
	var ru syscall.Rusage
	if syscall.Getrusage(syscall.RUSAGE_SELF, &ru) != nil {
		return 0
	}
	return time.Duration(ru.Utime.Nano() + ru.Stime.Nano())
}

func init() {
	if os.Getenv(childEnv) == "" {
		return
	}
	if os.Getenv(childEnv) == "corr" {
		debug.SetMaxStack(64 << 20)
		corrChildMain()
	}
	debug.SetMaxStack(childMaxStack)
	if mb, _ := strconv.Atoi(os.Getenv("VERIF_C12_STACK_MB")); mb > 0 {
		debug.SetMaxStack(mb << 20)
	}
	debug.SetMemoryLimit(3 << 30)
	if os.Getenv("VERIF_C12_GC") == "" {
		debug.SetGCPercent(-1)
	} // collect only near the limit: every collection scans the (possibly huge) stack
	var job Job
	if err := json.NewDecoder(bufio.NewReaderSize(os.Stdin, 1<<20)).Decode(&job); err != nil {
		fmt.Fprintln(os.Stderr, "child: bad input:", err)
		os.Exit(3)
	}
	go watchdog()
	w := bufio.NewWriter(os.Stdout)
	env, err := newEnv(job.Dir)
	if err != nil {
		fmt.Fprintln(os.Stderr, "child: setup failed:", err)
		os.Exit(4)
	}
	for i, p := range job.Probes {
		if p.StackMB > 0 { // witnesses of unbounded recursion: a small cap shows the same thing sooner
			debug.SetMaxStack(p.StackMB << 20)
		} else {
			debug.SetMaxStack(childMaxStack)
		}
		probeStart.Store(time.Now().UnixNano())
		probeCPU.Store(int64(cpuTime()))
		r := env.runProbe(p)
		probeStart.Store(0)
		r.I = i
		b, _ := json.Marshal(r)
		w.Write(b)
		w.WriteByte('\n')
		w.Flush()
	}
	env.close()
	os.Exit(0)
}

func watchdog() {
	s := []metrics.Sample{{Name: "/memory/classes/total:bytes"}, {Name: "/memory/classes/heap/released:bytes"}}
	for {
		time.Sleep(50 * time.Millisecond)
		metrics.Read(s)
		if s[0].Value.Uint64()-s[1].Value.Uint64() > childMemLimit {
			fmt.Fprintln(os.Stderr, "WATCHDOG-OOM: memory in use above", childMemLimit>>20, "MiB")
			os.Exit(exitOOM)
		}
		limit := probeTimeLimit
		if sec, _ := strconv.Atoi(os.Getenv("VERIF_C12_TLIMIT")); sec > 0 {
			limit = time.Duration(sec) * time.Second
		}
		if t := probeStart.Load(); t != 0 {
			if used := cpuTime() - time.Duration(probeCPU.Load()); used > limit {
				fmt.Fprintln(os.Stderr, "WATCHDOG-HANG: probe used more than", limit, "of CPU time")
				os.Exit(exitHang)
			}
			if time.Since(time.Unix(0, t)) > probeWallLimit {
				fmt.Fprintln(os.Stderr, "WATCHDOG-HANG: probe blocked for more than", probeWallLimit)
				os.Exit(exitHang)
			}
		}
	}
}

// guarded runs f and converts a panic into an Outcome with the innermost frames of ontology code.
func guarded(path string, f func() (string, string)) (o Outcome) {
	o.Path = path
	t0 := time.Now()
	defer func() {
		o.Millis = time.Since(t0).Milliseconds()
		if r := recover(); r != nil {
			o.State = "panic"
			o.Detail = fmt.Sprintf("%v @ %s", r, panicSite())
		}
	}()
	o.State, o.Detail = f()
	return
}

// panicSite: the first frames below the runtime's panic machinery.
func panicSite() string {
	pcs := make([]uintptr, 64)
	n := runtime.Callers(3, pcs)
	frames := runtime.CallersFrames(pcs[:n])
	var out []string
	for {
		fr, more := frames.Next()
		fn := fr.Function
		if strings.Contains(fn, "github.com/ontio/ontology/") {
			if i := strings.LastIndex(fr.File, "/"); i >= 0 {
				out = append(out, fmt.Sprintf("%s (%s:%d)", shortFn(fn), fr.File[i+1:], fr.Line))
			}
		}
		if !more || len(out) == 4 {
			break
		}
	}
	return strings.Join(out, " < ")
}

func shortFn(fn string) string {
	if i := strings.LastIndex(fn, "/"); i >= 0 {
		return fn[i+1:]
	}
	return fn
}

// runParallel splits the probes over `par` concurrent children (round-robin, so that every child
// gets the same mix); the probes of `fatal` are expected to end their child (known findings) and
// are placed last in different children, so that no restart is needed for them.
func runParallel(dir string, probes, fatal []Probe, par int, perChild time.Duration) (res []ProbeResult, fres []ProbeResult) {
	if par < len(fatal) {
		par = len(fatal)
	}
	if par < 1 {
		par = 1
	}
	chunks := make([][]Probe, par)
	idx := make([][]int, par)
	for i, p := range probes {
		chunks[i%par] = append(chunks[i%par], p)
		idx[i%par] = append(idx[i%par], i)
	}
	for i, p := range fatal {
		chunks[i] = append(chunks[i], p)
		idx[i] = append(idx[i], -1-i)
	}
	res = make([]ProbeResult, len(probes))
	fres = make([]ProbeResult, len(fatal))
	var wg sync.WaitGroup
	for k := range chunks {
		if len(chunks[k]) == 0 {
			continue
		}
		wg.Add(1)
		go func(k int) {
			defer wg.Done()
			rs := runInChildren(fmt.Sprintf("%s/w%d", dir, k), chunks[k], perChild)
			for j, r := range rs {
				if t := idx[k][j]; t >= 0 {
					r.I = t
					res[t] = r
				} else {
					r.I = -1 - t
					fres[-1-t] = r
				}
			}
		}(k)
	}
	wg.Wait()
	return
}

// runInChildren executes the probes in child processes; dir is the scratch directory for ledgers.
func runInChildren(dir string, all []Probe, perChild time.Duration) []ProbeResult {
	res := make([]ProbeResult, len(all))
	self, err := os.Executable()
	if err != nil {
		panic(err)
	}
	start := 0
	round := 0
	for start < len(all) {
		round++
		job := Job{Dir: fmt.Sprintf("%s/ledger-%d", dir, round), Probes: all[start:]}
		in, _ := json.Marshal(job)
		ctx, cancel := context.WithTimeout(context.Background(), perChild)
		cmd := exec.CommandContext(ctx, self)
		cmd.Env = append(os.Environ(), childEnv+"=1", "GOTRACEBACK=single")
		cmd.Stdin = bytes.NewReader(in)
		var stdout, stderr bytes.Buffer
		cmd.Stdout = &stdout
		cmd.Stderr = &stderr
		runErr := cmd.Run()
		timedOut := ctx.Err() == context.DeadlineExceeded
		cancel()
		os.RemoveAll(job.Dir)
		done := 0
		sc := bufio.NewScanner(&stdout)
		sc.Buffer(make([]byte, 1<<20), 1<<26)
		for sc.Scan() {
			var r ProbeResult
			if json.Unmarshal(sc.Bytes(), &r) != nil {
				break
			}
			r.I += start
			res[r.I] = r
			done++
		}
		if runErr == nil && done == len(all)-start {
			break
		}
		code := -1
		if ee, ok := runErr.(*exec.ExitError); ok {
			code = ee.ExitCode()
		}
		if code == exitAfterPanic { // the probe that panicked was reported; go on with the rest
			start += done
			continue
		}
		k := start + done
		if k >= len(all) {
			break
		}
		if code == 3 || code == 4 {
			panic("c12 child could not start: " + stderr.String())
		}
		r := ProbeResult{I: k, Death: deathLine(stderr.String())}
		switch {
		case code == exitOOM:
			r.OOM = true
		case code == exitHang || timedOut:
			r.Timeout = true
		default:
			r.Crashed = true
		}
		res[k] = r
		start = k + 1
	}
	return res
}

// deathLine: what the Go runtime printed when the child died: the first meaningful lines, then the
// innermost distinct ontology functions of the traceback.
func deathLine(s string) string {
	var keep []string
	var fns []string
	seen := map[string]bool{}
	lines := strings.Split(s, "\n")
	for i, l := range lines { // skip what the node logged before the runtime's report
		if strings.HasPrefix(l, "runtime: goroutine stack exceeds") || strings.HasPrefix(l, "fatal error:") ||
			strings.HasPrefix(l, "panic:") || strings.HasPrefix(l, "WATCHDOG-") {
			lines = lines[i:]
			break
		}
	}
	for _, l := range lines {
		l = strings.TrimSpace(l)
		if l == "" || strings.HasPrefix(l, "runtime: sp=") || strings.HasPrefix(l, "stack: frame") {
			continue
		}
		if len(keep) < 2 {
			keep = append(keep, l)
			continue
		}
		if i := strings.Index(l, "github.com/ontio/ontology/"); i == 0 && len(fns) < 4 {
			fn := l[len("github.com/ontio/ontology/"):]
			// "pkg/path.(*T).method(0xc000..., ...)" -> "path.(*T).method"
			if k := strings.LastIndex(fn, "("); k > 0 && !strings.HasPrefix(fn[k:], "(*") {
				fn = fn[:k]
			}
			fn = shortFn(fn)
			if !seen[fn] {
				seen[fn] = true
				fns = append(fns, fn)
			}
		}
	}
	d := strings.Join(keep, " | ")
	if len(d) > 240 {
		d = d[:240]
	}
	if len(fns) > 0 {
		d += " @ " + strings.Join(fns, " < ")
	}
	return d
}
