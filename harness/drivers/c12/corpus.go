package c12

import (
	"encoding/hex"
	"math/big"

	"github.com/ontio/ontology/common"
	nutils "github.com/ontio/ontology/smartcontract/service/native/utils"
)

type seed struct {
	note string
	p    Probe
}

// corpusSeeds: the repaired defects kept in corpus/C12 (written by TestDumpCorpus).
func corpusSeeds(w *world) map[string]seed {
	idA := w.ids[3] // user 3: not registered by the setup blocks
	idB := w.ids[5]
	regA := nStruct(nS(idA), nB(w.pk(3)))
	regB := nStruct(nS(idB), nS(idA), nI(1))
	rmC := nStruct(nS(idB), nI(0), nI(1))
	rmC2 := nStruct(nS(w.ctlID()), nI(0), nI(1))
	rmR := nStruct(nS(w.ids[0]), nI(0), nB(w.signers(1)))
	out := fsSeeds(w)
	// governance.updateConfig(N 7, C 1, K 0, L 112, ...) signed by the admin (the bookkeeper)
	cfg := nStruct(nI(7), nI(1), nI(0), nI(112), nI(10000), nI(10000), nI(10000), nI(1000))
	out["governance-updateconfig-k0"] = seed{
		note: "repaired defect (0545dab5): governance.updateConfig with K = 0 evaluated `configuration.L % configuration.K` before any test of K: 'integer divide by zero' in block execution (admin witness needed; in pre-execution anyone can name the admin's key, signatures are not verified there).",
		p: Probe{Name: "corpus:governance-updateconfig-k0",
			Txs: []TxSpec{{Kind: "native", Contract: addrHex(nutils.GovernanceContractAddress), Method: "updateConfig", Args: &cfg, Signers: []int{-1}}}}}
	out["gasprice-2pow59"] = seed{
		note: "repaired defect (96f31c72, found by C05): tuneGasFeeByHeight divided by gasRound == 0 when GasPrice is a multiple of 2^59; a transaction with GasPrice 2^59 in a block must execute (or be refused) without a panic.",
		p: Probe{Name: "corpus:gasprice-2pow59", BlockOnly: true,
			Txs: []TxSpec{{Kind: "code", Code: "51", Signers: []int{0}, GasLimit: 20000, GasPrice: 1 << 59}}}}
	for k, v := range ontidSeeds(w, regA, regB, rmC, rmC2, rmR) {
		out[k] = v
	}
	return out
}

func ontidSeeds(w *world, regA, regB, rmC, rmC2, rmR Node) map[string]seed {
	return map[string]seed{
		"ontid-revoke-index0-by-controller": {
			note: "repaired defect (fixed in /repo by 2977caad): ontid revokePkByIndex with key index 0 wrapped to 2^32-1 and indexed the key slice: panic 'index out of range [4294967295]' in block execution and pre-execution. Any user: register id A, regIDWithController(B, controller=A, signer key 1), removeKeyByController(B, key index 0, signer key 1). Replayed first on every run; a panic here is an unlisted class => VIOLATION.",
			p: Probe{Name: "corpus:ontid-revoke-index0-by-controller", BlockOnly: true, Txs: []TxSpec{
				{Kind: "native", Contract: ontidAddrHex, Method: "regIDWithPublicKey", Args: &regA, Signers: []int{3}},
				{Kind: "native", Contract: ontidAddrHex, Method: "regIDWithController", Args: &regB, Signers: []int{3}},
				{Kind: "native", Contract: ontidAddrHex, Method: "removeKeyByController", Args: &rmC, Signers: []int{3}},
			}},
		},
		"ontid-revoke-index0-by-controller-committed": {
			note: "same repaired defect (2977caad) against the committed setup state (an id registered with a controller): one transaction, block execution and pre-execution.",
			p: Probe{Name: "corpus:ontid-revoke-index0-by-controller-committed", Txs: []TxSpec{
				{Kind: "native", Contract: ontidAddrHex, Method: "removeKeyByController", Args: &rmC2, Signers: []int{1}},
			}},
		},
		"ontid-revoke-index0-by-recovery": {
			note: "same repaired defect (2977caad) through removeKeyByRecovery: id 0 has two keys and the recovery group {id 1}; key index 0.",
			p: Probe{Name: "corpus:ontid-revoke-index0-by-recovery", Txs: []TxSpec{
				{Kind: "native", Contract: ontidAddrHex, Method: "removeKeyByRecovery", Args: &rmR, Signers: []int{1}},
			}},
		},
	}
}

// fsProbe: ontfs node registration, file storage and a proof for it, in one block.
func fsProbe(w *world, name string, blockCount int64, pdpParam, prove []byte) Probe {
	reg := nStruct(nI(0), nI(0), nI(1048576), nI(0), nI(1<<40), nB(w.users[0].Address[:]), nS("x"))
	fi := nativeBytesN(nS("f1"), nB(w.users[1].Address[:]), nS(""), nI(blockCount), nI(1), nI(1), nI(0), nI(0), nT(true),
		nI(0), nI(1<<40), nI(0), nI(0), nB(pdpParam), nT(true), nI(0), nI(1))
	store := nStruct(nB(nativeBytesN(nI(1), nB(fi))))
	prv := nStruct(nB(w.users[0].Address[:]), nS("f1"), nB(prove), nI(setupHeight+1))
	return Probe{Name: name, BlockOnly: true, Txs: []TxSpec{
		{Kind: "native", Contract: ontfsAddrHex, Method: "FsNodeRegister", Args: &reg, Signers: []int{0}},
		{Kind: "native", Contract: ontfsAddrHex, Method: "FsStoreFiles", Args: &store, Signers: []int{1}},
		{Kind: "native", Contract: ontfsAddrHex, Method: "FsFileProve", Args: &prv, Signers: []int{0}},
	}}
}

var pdpV1 = []byte{1, 0, 0, 0, 0, 0, 0, 0}

func cat(bs ...[]byte) []byte {
	var out []byte
	for _, b := range bs {
		out = append(out, b...)
	}
	return out
}

// fsSeeds: the ontfs defects found by this check and repaired in /repo.
func fsSeeds(w *world) map[string]seed {
	param := cat(pdpV1, make([]byte, 8))
	del := nStruct(nB(nativeBytesN(nBig(new(big.Int).SetUint64(^uint64(0))))))
	return map[string]seed{
		"ontfs-prove-empty-proof": {
			note: "repaired defect (ae8b0797): ontfs FsFileProve with empty ProveData: GetPdpVersionFromProof sliced proof[0:8] of a nil slice (panic 'slice bounds out of range [:8] with capacity 0', pdp.go:142). Any user: FsNodeRegister, FsStoreFiles (FirstPdp), FsFileProve.",
			p:    fsProbe(w, "corpus:ontfs-prove-empty-proof", 1, param, nil)},
		"ontfs-prove-zero-blockcount": {
			note: "repaired defect (6811a1ff): ontfs FsStoreFiles accepts FileBlockCount 0; GenChallenge then computed big.Int.Mod(x, 0) (panic 'division by zero', pdp.go:88).",
			p:    fsProbe(w, "corpus:ontfs-prove-zero-blockcount", 0, param, cat(pdpV1, []byte{1, 2, 3}))},
		"ontfs-prove-one-element-merkle-proof": {
			note: "repaired defect (b73cd5e2): a JSON merkle proof with ONE element whose last 8 bytes are the challenged index and which equals the unique id: VerifyMerkleProof sliced proof[1:0] (panic, merkle_pdp.go:141).",
			p:    fsProbe(w, "corpus:ontfs-prove-one-element-merkle-proof", 1, param, cat(pdpV1, []byte(`["AAAAAAAAAAA="]`)))},
		"ontfs-delete-files-huge-count": {
			note: "repaired defect (354e9fe4): ontfs FsDeleteFiles with list count 2^64-1 and no items: the package-local DecodeVarBytes reported end of input as success (NewDetailErr(nil) == nil), FileDelList.Deserialization appended entries for ever: infinite loop with unbounded allocation, no witness, also in pre-execution.",
			p: Probe{Name: "corpus:ontfs-delete-files-huge-count",
				Txs: []TxSpec{{Kind: "native", Contract: ontfsAddrHex, Method: "FsDeleteFiles", Args: &del, Signers: []int{2}}}}},
	}
}

// ctlID: the id the setup registers with controller ids[1].
func (w *world) ctlID() string { return w.ids[5] }

// nativeBytes: the bytes BuildParamToNative writes for a flat list of byte strings / integers.
func nativeBytes(fields ...interface{}) []byte {
	sink := common.NewZeroCopySink(nil)
	for _, f := range fields {
		switch v := f.(type) {
		case []byte:
			sink.WriteVarBytes(v)
		case string:
			sink.WriteVarBytes([]byte(v))
		case int:
			sink.WriteVarBytes(common.BigIntToNeoBytes(big.NewInt(int64(v))))
		}
	}
	return sink.Bytes()
}

// group: serialized ontid Group {members, threshold}; signers: serialized signer list [(id, key index)].
func (w *world) group(threshold int, members ...int) []byte {
	fs := []interface{}{len(members)}
	for _, m := range members {
		fs = append(fs, w.ids[m])
	}
	fs = append(fs, threshold)
	return nativeBytes(fs...)
}

func (w *world) signers(members ...int) []byte {
	fs := []interface{}{len(members)}
	for _, m := range members {
		fs = append(fs, w.ids[m], 1)
	}
	return nativeBytes(fs...)
}

// nativeBytesN: the bytes BuildParamToNative writes for a flat list of leaf nodes.
func nativeBytesN(fields ...Node) []byte {
	sink := common.NewZeroCopySink(nil)
	for _, f := range fields {
		switch f.K {
		case "b":
			b, _ := hex.DecodeString(f.B)
			sink.WriteVarBytes(b)
		case "i":
			v, _ := new(big.Int).SetString(f.I, 10)
			sink.WriteVarBytes(common.BigIntToNeoBytes(v))
		case "t":
			sink.WriteBool(f.T)
		}
	}
	return sink.Bytes()
}
