package c12

import (
	"fmt"
	"strings"

	"github.com/ontio/ontology/core/types"
	"github.com/ontio/ontology/smartcontract/event"
)

// runProbe executes one probe on the implementation, both ways a node executes user input:
//
//	block   the probe's transactions as the next block through Ledger.ExecuteBlock (not committed)
//	pre:k   transaction k alone through LedgerStore.PreExecuteContract (what the RPC calls)
func (e *env) runProbe(p Probe) ProbeResult {
	var r ProbeResult
	for _, a := range e.eths {
		a.nonce = 0
	}
	var txs []*types.Transaction
	for k, s := range p.Txs {
		tx, err := e.build(s)
		if err != nil {
			r.Outcomes = append(r.Outcomes, Outcome{Path: fmt.Sprintf("build:%d", k), State: "err", Detail: short(err.Error())})
			return r
		}
		if s.Kind == "evm" && s.Nonce == nil {
			e.eths[clampEth(s.From)].nonce++
		}
		txs = append(txs, tx)
	}
	if !p.PreOnly {
		r.Outcomes = append(r.Outcomes, guarded("block", func() (string, string) {
			b, err := e.kit.MakeBlock(txs)
			if err != nil {
				return "err", "make block: " + short(err.Error())
			}
			res, err := e.kit.Ledger.ExecuteBlock(b)
			if err != nil {
				return "err", short(err.Error())
			}
			var sb strings.Builder
			state := "ok"
			for _, n := range res.Notify {
				if n.State == event.CONTRACT_STATE_SUCCESS {
					sb.WriteByte('S')
				} else {
					sb.WriteByte('F')
					state = "fail"
				}
			}
			return state, sb.String()
		}))
	}
	if !p.BlockOnly {
		for k, tx := range txs {
			tx := tx
			r.Outcomes = append(r.Outcomes, guarded(fmt.Sprintf("pre:%d", k), func() (string, string) {
				res, err := e.kit.Store().PreExecuteContract(tx)
				if err != nil {
					return "err", short(err.Error())
				}
				if res != nil && res.State == event.CONTRACT_STATE_SUCCESS {
					return "ok", ""
				}
				return "fail", ""
			}))
		}
	}
	return r
}

func clampEth(i int) int {
	if i < 0 || i >= nEth {
		return 0
	}
	return i
}

func short(s string) string {
	if len(s) > 200 { // the innermost message is at the end
		return "..." + s[len(s)-200:]
	}
	return s
}

// setupBlocks: the committed state every child starts from.
//
//	block 1  the bookkeeper (genesis holder) sends ONT and ONG to the users
//	block 2  ONT IDs: users 0,1,2 register their own id with their key; user 0 adds user 4's key to
//	         its id (two keys) and two attributes
//	         two attributes; id 5 is registered with controller id 1; id 0 gets the recovery group {id 1}
//	block 3  a NeoVM contract that returns its argument (target for APPCALL)
const setupHeight = 3 // number of setup blocks: probes execute as block setupHeight+1

func setupBlocks(w *world) [][]TxSpec {
	var b1 []TxSpec
	for i := 0; i < nUsers; i++ {
		st := nArr(nStruct(nB(w.book.Address[:]), nB(w.users[i].Address[:]), nI(userOntAmount)))
		b1 = append(b1, TxSpec{Kind: "native", Contract: ontAddrHex, Method: "transfer", Args: &st, Signers: []int{-1}})
		sg := nArr(nStruct(nB(w.book.Address[:]), nB(w.users[i].Address[:]), nI(userOngAmount)))
		b1 = append(b1, TxSpec{Kind: "native", Contract: ongAddrHex, Method: "transfer", Args: &sg, Signers: []int{-1}})
	}
	var b2 []TxSpec
	for i := 0; i < 3; i++ {
		a := nStruct(nS(w.ids[i]), nB(w.pk(i)))
		b2 = append(b2, TxSpec{Kind: "native", Contract: ontidAddrHex, Method: "regIDWithPublicKey", Args: &a, Signers: []int{i}})
	}
	add := nStruct(nS(w.ids[0]), nB(w.pk(4)), nB(w.pk(0)))
	b2 = append(b2, TxSpec{Kind: "native", Contract: ontidAddrHex, Method: "addKey", Args: &add, Signers: []int{0}})
	attrs := nStruct(nS(w.ids[0]), nI(2), nS("k1"), nS("t1"), nS("v1"), nS("k2"), nS("t2"), nS("v2"), nB(w.pk(0)))
	b2 = append(b2, TxSpec{Kind: "native", Contract: ontidAddrHex, Method: "?addAttributes", Args: &attrs, Signers: []int{0}})
	ctl := nStruct(nS(w.ctlID()), nS(w.ids[1]), nI(1))
	b2 = append(b2, TxSpec{Kind: "native", Contract: ontidAddrHex, Method: "regIDWithController", Args: &ctl, Signers: []int{1}})
	rec := nStruct(nS(w.ids[0]), nB(w.group(1, 1)), nI(1))
	b2 = append(b2, TxSpec{Kind: "native", Contract: ontidAddrHex, Method: "setRecovery", Args: &rec, Signers: []int{0}})
	b3 := []TxSpec{{Kind: "deploy", Code: fmt.Sprintf("%x", echoContract()), Signers: []int{0}}}
	return [][]TxSpec{b1, b2, b3}
}

// echoContract: DUP-free identity: leaves what the caller copied onto its stack.
func echoContract() []byte { return []byte{0x61, 0x66} } // NOP RET
