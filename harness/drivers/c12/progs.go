package c12

import (
	"encoding/hex"
	"fmt"
	"math/big"
	"math/rand"

	"github.com/ontio/ontology/common"
	nutils "github.com/ontio/ontology/smartcontract/service/native/utils"
	vm "github.com/ontio/ontology/vm/neovm"

	"verif/harness/hx"
)

// Generated NeoVM programs. The generator keeps an abstract picture of the evaluation stack (the
// kind of every slot) so that most instructions are applicable, and biases towards what the
// property is about: containers that share, contain themselves or nest deeply; index operands at
// the boundaries of the slices they index; jump and call targets at the boundaries of the code;
// then one of the operations that walk a value recursively or hand it to other components
// (Serialize, Deserialize, Notify, Native.Invoke, Storage.Put/Get, APPCALL, EQUAL, struct clone).

type pgen struct {
	r    *rand.Rand
	w    *world
	a    *asm
	st   []byte  // kinds: i int, b bytes, a array, s struct, m map
	ob   []int   // per slot: index into objs of the container it refers to, -1 primitive, -2 unknown
	objs [][]int // generator-side picture of the containers built so far: children (object ids)
	alt  int
	tags map[string]bool
	// cyclicBudget: how many more sinks may receive a value that can reach a reference cycle
	// (each costs seconds: the encoders recurse ~10^5..10^6 levels before the size limit or the
	// stack limit stops them)
	cyclicBudget *int
}

func (g *pgen) newObj() int { g.objs = append(g.objs, nil); return len(g.objs) - 1 }

// cyclicFrom: can a reference cycle be reached from object id (unknown values count as cyclic once
// any cycle exists in the program)?
func (g *pgen) cyclicFrom(id int) bool {
	if id == -2 {
		for i := range g.objs {
			if g.cyclicFrom(i) {
				return true
			}
		}
		return false
	}
	if id < 0 {
		return false
	}
	state := map[int]int{}
	var dfs func(int) bool
	dfs = func(x int) bool {
		if x < 0 {
			return x == -2 && false
		}
		if state[x] == 1 {
			return true
		}
		if state[x] == 2 {
			return false
		}
		state[x] = 1
		for _, c := range g.objs[x] {
			if dfs(c) {
				return true
			}
		}
		state[x] = 2
		return false
	}
	return dfs(id)
}

func (g *pgen) topObj(i int) int {
	if i < len(g.ob) {
		return g.ob[len(g.ob)-1-i]
	}
	return -1
}

var intBoundaries = []int64{0, 1, 2, 3, -1, 15, 16, 17, 255, 256, 1023, 1024, 1025, 2047, 2048, 2049, 65535, 65536,
	1 << 20, 1<<20 + 1, 1<<31 - 1, 1 << 31, 1<<32 - 1, 1 << 32, 1<<63 - 1, -1 << 63, -2, -1024}

func (g *pgen) push(k byte) {
	o := -1
	if k == 'a' || k == 's' || k == 'm' {
		o = -2
	}
	g.pushObj(k, o)
}
func (g *pgen) pushObj(k byte, o int) { g.st = append(g.st, k); g.ob = append(g.ob, o) }
func (g *pgen) pop() {
	if len(g.st) > 0 {
		g.st = g.st[:len(g.st)-1]
		g.ob = g.ob[:len(g.ob)-1]
	}
}
func (g *pgen) top(i int) byte {
	if i < len(g.st) {
		return g.st[len(g.st)-1-i]
	}
	return 0
}
func (g *pgen) isCont(k byte) bool { return k == 'a' || k == 's' || k == 'm' }

func (g *pgen) pushInt() {
	switch g.r.Intn(6) {
	case 0, 1:
		g.a.int(int64(g.r.Intn(5)))
	case 2: // relative to the stack depth
		g.a.int(int64(len(g.st) + g.r.Intn(3) - 1))
	case 3:
		v := new(big.Int).Lsh(big.NewInt(1), uint(g.r.Intn(300)))
		if g.r.Intn(2) == 0 {
			v.Neg(v)
		}
		g.a.big(v)
	default:
		g.a.int(intBoundaries[g.r.Intn(len(intBoundaries))])
	}
	g.push('i')
}

func (g *pgen) pushBytes() {
	n := []int{0, 1, 2, 20, 32, 33, 75, 76, 255, 256, 1000}[g.r.Intn(11)]
	if g.r.Intn(60) == 0 {
		n = 65536 + g.r.Intn(3)
	}
	b := make([]byte, n)
	g.r.Read(b)
	g.a.bytes(b)
	g.push('b')
}

func (g *pgen) newContainer() {
	switch g.r.Intn(5) {
	case 0:
		g.a.op(vm.NEWMAP)
		g.pushObj('m', g.newObj())
	case 1:
		g.a.int(int64(g.r.Intn(4))).op(vm.NEWSTRUCT)
		g.pushObj('s', g.newObj())
	default:
		g.a.int(int64(g.r.Intn(4))).op(vm.NEWARRAY)
		g.pushObj('a', g.newObj())
	}
}

// findKind returns the stack distance of a slot whose kind is in set, or -1.
func (g *pgen) findKind(set string) int {
	var idx []int
	for i := 0; i < len(g.st) && i < 16; i++ {
		for j := 0; j < len(set); j++ {
			if g.top(i) == set[j] {
				idx = append(idx, i)
			}
		}
	}
	if len(idx) == 0 {
		return -1
	}
	return idx[g.r.Intn(len(idx))]
}

// pick copies the slot at distance d to the top.
func (g *pgen) pick(d int) {
	k, o := g.top(d), g.topObj(d)
	switch d {
	case 0:
		g.a.op(vm.DUP)
	case 1:
		g.a.op(vm.OVER)
	default:
		g.a.int(int64(d)).op(vm.PICK)
	}
	g.pushObj(k, o)
}

// link records container <- item in the generator's picture (a struct item is cloned by the VM:
// a new object with the same children).
func (g *pgen) link(cont, item int, itemKind byte) {
	if cont < 0 {
		return
	}
	if itemKind == 's' && item >= 0 {
		n := g.newObj()
		g.objs[n] = append([]int{}, g.objs[item]...)
		item = n
	}
	g.objs[cont] = append(g.objs[cont], item)
}

func (g *pgen) step() {
	r := g.r.Intn(100)
	switch {
	case r < 8:
		g.pushInt()
	case r < 12:
		g.pushBytes()
	case r < 22:
		g.newContainer()
	case r < 40: // container <- item, the item possibly the container itself or another container
		d := g.findKind("asm")
		if d < 0 {
			g.newContainer()
			return
		}
		g.pick(d)
		k := g.top(0)
		// the item
		switch g.r.Intn(5) {
		case 0, 1: // a container already on the stack (maybe the same one: a cycle)
			if e := g.findKind("asm"); e >= 0 {
				g.pick(e)
				g.tags["nest"] = true
				break
			}
			g.pushInt()
		case 2:
			g.pushBytes()
		default:
			g.pushInt()
		}
		if g.isCont(g.top(0)) {
			g.link(g.topObj(1), g.topObj(0), g.top(0))
		}
		if k == 'm' { // map: key value SETITEM
			if g.isCont(g.top(0)) {
				g.a.int(int64(g.r.Intn(3))).op(vm.SWAP) // key under the value
			} else {
				g.pushInt()
				g.pop()
			}
			g.a.op(vm.SETITEM)
			g.pop()
			g.pop()
			return
		}
		if g.r.Intn(3) == 0 && k != 'm' { // SETITEM at a boundary index
			g.a.int([]int64{0, 1, 2, 3, -1, 1024, 1 << 32}[g.r.Intn(7)]).op(vm.SWAP).op(vm.SETITEM)
		} else {
			g.a.op(vm.APPEND)
		}
		g.pop()
		g.pop()
	case r < 46: // read an element
		d := g.findKind("asmb")
		if d < 0 {
			return
		}
		g.pick(d)
		g.pushInt()
		g.a.op(vm.PICKITEM)
		g.pop()
		g.pop()
		g.push('i')
	case r < 50: // stack index operations with boundary operands
		g.pushInt()
		op := []vm.OpCode{vm.XDROP, vm.XSWAP, vm.XTUCK, vm.PICK, vm.ROLL}[g.r.Intn(5)]
		g.a.op(op)
		g.pop()
		if op == vm.XDROP {
			g.pop()
		}
		if op == vm.XTUCK || op == vm.PICK {
			g.push('i')
		}
	case r < 54: // splice
		g.pushBytes()
		switch g.r.Intn(4) {
		case 0:
			if g.r.Intn(3) == 0 { // start + count wraps around int64
				g.a.int(int64(g.r.Intn(3))).int(1<<63 - 1 - int64(g.r.Intn(2)))
				g.push('i')
				g.push('i')
			} else {
				g.pushInt()
				g.pushInt()
			}
			g.a.op(vm.SUBSTR)
			g.pop()
			g.pop()
		case 1:
			g.pushInt()
			g.a.op(vm.LEFT)
			g.pop()
		case 2:
			g.pushInt()
			g.a.op(vm.RIGHT)
			g.pop()
		default:
			g.pushBytes()
			g.a.op(vm.CAT)
			g.pop()
		}
	case r < 58: // PACK / UNPACK / REVERSE / REMOVE / ARRAYSIZE / KEYS / VALUES / HASKEY
		switch g.r.Intn(7) {
		case 0:
			g.pushInt()
			g.a.op(vm.PACK)
			g.pop()
			g.push('a')
		case 1:
			if d := g.findKind("as"); d >= 0 {
				g.pick(d)
				g.a.op(vm.UNPACK)
				g.pop()
				g.push('i')
			}
		case 2:
			if d := g.findKind("as"); d >= 0 {
				g.pick(d)
				g.a.op(vm.REVERSE)
				g.pop()
			}
		case 3:
			if d := g.findKind("am"); d >= 0 {
				g.pick(d)
				g.pushInt()
				g.a.op(vm.REMOVE)
				g.pop()
				g.pop()
			}
		case 4:
			if d := g.findKind("asmb"); d >= 0 {
				g.pick(d)
				g.a.op(vm.ARRAYSIZE)
				g.pop()
				g.push('i')
			}
		case 5:
			if d := g.findKind("m"); d >= 0 {
				g.pick(d)
				g.a.op([]vm.OpCode{vm.KEYS, vm.VALUES}[g.r.Intn(2)])
				g.pop()
				g.push('a')
			}
		default:
			if d := g.findKind("m"); d >= 0 {
				g.pick(d)
				g.pushInt()
				g.a.op(vm.HASKEY)
				g.pop()
				g.pop()
				g.push('i')
			}
		}
	case r < 62: // arithmetic at the edges
		g.pushInt()
		g.pushInt()
		g.a.op([]vm.OpCode{vm.ADD, vm.SUB, vm.MUL, vm.DIV, vm.MOD, vm.SHL, vm.SHR, vm.AND, vm.OR, vm.XOR, vm.MAX, vm.MIN, vm.NUMEQUAL, vm.LT, vm.BOOLAND}[g.r.Intn(15)])
		g.pop()
	case r < 66: // alt stack
		switch g.r.Intn(3) {
		case 0:
			if len(g.st) > 0 {
				g.a.op(vm.TOALTSTACK)
				g.pop()
				g.alt++
			}
		case 1:
			if g.alt > 0 {
				g.a.op(vm.FROMALTSTACK)
				g.alt--
				g.push('i')
			}
		default:
			g.a.op(vm.DUPFROMALTSTACK)
			g.push('i')
		}
	case r < 70: // EQUAL on containers (struct comparison walks the values)
		if d := g.findKind("asm"); d >= 0 {
			g.pick(d)
			if e := g.findKind("asm"); e >= 0 {
				g.pick(e)
				g.a.op(vm.EQUAL)
				g.pop()
				g.pop()
				g.push('i')
			}
		}
	case r < 74: // hashes, VERIFY with garbage
		g.pushBytes()
		g.a.op([]vm.OpCode{vm.SHA1, vm.SHA256, vm.HASH160, vm.HASH256, vm.SIZE}[g.r.Intn(5)])
	case r < 77:
		g.pushBytes()
		g.pushBytes()
		g.pushBytes()
		g.a.op(vm.VERIFY)
		g.pop()
		g.pop()
	case r < 80: // shuffles
		g.a.op([]vm.OpCode{vm.SWAP, vm.ROT, vm.TUCK, vm.NIP, vm.DROP, vm.DEPTH, vm.OVER}[g.r.Intn(7)])
	default:
		g.sink()
	}
}

var syscalls = []string{"System.Runtime.Serialize", "System.Runtime.Notify", "System.Runtime.Log", "System.Runtime.Deserialize",
	"System.Runtime.CheckWitness", "System.Runtime.Base58ToAddress", "System.Runtime.AddressToBase58", "Ontology.Runtime.VerifyMutiSig",
	"System.Storage.GetContext", "System.Storage.GetReadOnlyContext", "System.Runtime.GetTime", "System.Blockchain.GetHeight",
	"System.Blockchain.GetHeader", "System.Blockchain.GetBlock", "System.Blockchain.GetTransaction", "System.Blockchain.GetContract",
	"System.Blockchain.GetTransactionHeight", "System.Header.GetIndex", "System.Header.GetHash", "System.Header.GetPrevHash",
	"System.Header.GetTimestamp", "System.Block.GetTransactionCount", "System.Block.GetTransactions", "System.Block.GetTransaction",
	"System.Transaction.GetHash", "Ontology.Transaction.GetType", "Ontology.Transaction.GetAttributes", "Ontology.Header.GetVersion",
	"Ontology.Header.GetMerkleRoot", "Ontology.Header.GetConsensusData", "Ontology.Header.GetNextConsensus", "Ontology.Attribute.GetUsage",
	"Ontology.Attribute.GetData", "Ontology.Contract.GetScript", "System.Contract.GetStorageContext", "System.Contract.Destroy",
	"System.ExecutionEngine.GetScriptContainer", "System.ExecutionEngine.GetExecutingScriptHash", "System.ExecutionEngine.GetCallingScriptHash",
	"System.ExecutionEngine.GetEntryScriptHash", "System.StorageContext.AsReadOnly", "System.Runtime.GetTrigger",
	"Ontology.Runtime.GetCurrentBlockHash", "Ontology.Wasm.InvokeWasm", "No.Such.Service"}

// sink hands a value to one of the components that walk it.
func (g *pgen) sink() {
	d := g.findKind("asm")
	if d < 0 || g.r.Intn(6) == 0 {
		d = g.findKind("asmib")
	}
	if d >= 0 && g.isCont(g.top(d)) && g.cyclicFrom(g.topObj(d)) {
		if *g.cyclicBudget <= 0 {
			d = g.findKind("ib")
		} else {
			*g.cyclicBudget--
			g.tags["cyclic"] = true
		}
	}
	if d < 0 {
		g.pushInt()
		d = 0
	}
	switch g.r.Intn(14) {
	case 0, 1, 2:
		g.pick(d)
		g.a.syscall("System.Runtime.Serialize")
		g.pop()
		g.push('b')
		g.tags["serialize"] = true
		if g.r.Intn(2) == 0 {
			g.a.syscall("System.Runtime.Deserialize")
			g.pop()
			g.push('a')
		}
	case 3, 4:
		g.pick(d)
		g.a.syscall("System.Runtime.Notify")
		g.pop()
		g.tags["notify"] = true
	case 5, 6, 7: // Native.Invoke with the value as argument
		g.pick(d)
		ms := []string{"transfer", "balanceOf", "approve", "getDDO", "FsGetNodeList", "getGlobalParam", "name", "verifyToken"}
		cs := [][]byte{nutils.OntContractAddress[:], nutils.OngContractAddress[:], nutils.OntIDContractAddress[:], nutils.OntFSContractAddress[:],
			nutils.ParamContractAddress[:], nutils.AuthContractAddress[:], make([]byte, 20), {1, 2, 3}}
		g.a.bytes([]byte(ms[g.r.Intn(len(ms))])).bytes(cs[g.r.Intn(len(cs))])
		g.a.int([]int64{0, 0, 0, 1, 255, 256, -1}[g.r.Intn(7)]).syscall(nativeInvokeName)
		g.pop()
		g.push('b')
		g.tags["native"] = true
	case 8: // Storage.Put(ctx, key, value) / Get
		g.pick(d)
		g.pushBytes()
		g.a.syscall("System.Storage.GetContext").syscall("System.Storage.Put")
		g.pop()
		g.pop()
		g.tags["storage"] = true
	case 9: // APPCALL the echo contract with the value on the stack
		g.pick(d)
		addr := echoAddress()
		g.a.op(vm.APPCALL).raw(addr[:]...)
		g.tags["appcall"] = true
	case 10: // dynamic APPCALL: address from the stack
		g.pick(d)
		g.a.op(vm.APPCALL).raw(make([]byte, 20)...)
		g.pop()
	case 11: // Contract.Create / Migrate with boundary-sized fields
		for i := 0; i < 7; i++ {
			g.pushBytes()
		}
		g.a.syscall([]string{"Ontology.Contract.Create", "Ontology.Contract.Migrate"}[g.r.Intn(2)])
		for i := 0; i < 7; i++ {
			g.pop()
		}
		g.push('i')
	default: // any other service with whatever is on the stack
		g.pick(d)
		g.a.syscall(syscalls[g.r.Intn(len(syscalls))])
	}
}

func echoAddress() [20]byte { return common.AddressFromVmCode(echoContract()) }

// flow-control scaffolds around a random body
func (g *pgen) program(steps int) []byte {
	shape := g.r.Intn(12)
	switch shape {
	case 0: // endless loop: only gas / the step limit stop it
		g.a.raw(byte(vm.NOP))
		body := 1 + g.r.Intn(3)
		for i := 0; i < body; i++ {
			g.a.op(vm.PUSH1, vm.DROP)
		}
		g.a.op(vm.JMP)
		off := -(2*body + 0)
		g.a.raw(byte(uint16(off)), byte(uint16(off)>>8))
		g.tags["loop"] = true
		return g.a.code()
	case 1: // unbounded recursion through CALL: the invocation stack limit stops it
		g.a.op(vm.CALL).raw(0x00, 0x00) // CALL +0: calls itself
		g.a.op(vm.RET)
		g.tags["recursion"] = true
		return g.a.code()
	case 2: // a loop that grows a value: nest k levels through a non-first element, then a sink
		k := []int{3, 9, 10, 11, 12, 100, 1024, 3000}[g.r.Intn(8)]
		g.a.int(0).op(vm.NEWARRAY) // acc
		g.a.int(int64(k))          // counter
		loop := len(g.a.code())
		// stack: acc counter
		g.a.op(vm.SWAP)                                            // counter acc
		g.a.int(0).op(vm.NEWARRAY).op(vm.DUP).int(7).op(vm.APPEND) // counter acc n=[7]
		g.a.op(vm.DUP).op(vm.ROT).op(vm.APPEND)                    // counter n=[7,acc]
		g.a.op(vm.SWAP).op(vm.DEC).op(vm.DUP)                      // n counter-1 counter-1
		back := loop - (len(g.a.code()))
		g.a.op(vm.JMPIF).raw(byte(uint16(back)), byte(uint16(back)>>8)) // n counter
		g.a.op(vm.DROP)
		g.st, g.ob = []byte{'a'}, []int{-1}
		g.tags["deep"] = true
		g.sink()
		return g.a.code()
	}
	for i := 0; i < steps; i++ {
		g.step()
		if shape == 3 && i == steps/2 { // a jump with a boundary offset in the middle
			off := []int{0, 1, 2, 3, 4, -1, -3, 32767, -32768, 100}[g.r.Intn(10)]
			g.a.op([]vm.OpCode{vm.JMP, vm.JMPIF, vm.JMPIFNOT, vm.CALL}[g.r.Intn(4)]).raw(byte(uint16(off)), byte(uint16(off)>>8))
		}
		if shape == 4 && i == steps/2 {
			g.pushInt()
			g.a.op(vm.DCALL)
			g.pop()
		}
	}
	if shape == 5 { // truncated code: the last instruction's operand is cut
		c := g.a.code()
		return c[:len(c)-g.r.Intn(minInt(len(c), 6))]
	}
	if shape == 6 { // raw noise appended
		n := 1 + g.r.Intn(12)
		b := make([]byte, n)
		g.r.Read(b)
		g.a.raw(b...)
	}
	g.sink()
	return g.a.code()
}

func genPrograms(c *hx.Ctx, w *world, n int) []Probe {
	var out []Probe
	budget := c.N(4, 40)
	for i := 0; i < n; i++ {
		g := &pgen{r: c.Rng, w: w, a: newAsm(), tags: map[string]bool{}, cyclicBudget: &budget}
		code := g.program(4 + c.Rng.Intn(40))
		name := "prog"
		for _, t := range []string{"loop", "recursion", "deep", "cyclic", "nest", "native", "serialize", "notify", "storage", "appcall"} {
			if g.tags[t] {
				name += "+" + t
				c.Count("prog-tag:" + t)
			}
		}
		gas := uint64([]int{20000, 200000, 200000, 1000000}[c.Rng.Intn(4)])
		out = append(out, Probe{Name: fmt.Sprintf("prog:%d:%s", i, name),
			Txs: []TxSpec{{Kind: "code", Code: hex.EncodeToString(code), Signers: []int{c.Rng.Intn(nUsers)}, GasLimit: gas}}})
		c.Count(fmt.Sprintf("prog-len:%d", bucket(len(code))))
	}
	return out
}

func bucket(n int) int {
	b := 16
	for b < n {
		b *= 4
	}
	return b
}

func minInt(a, b int) int {
	if a < b {
		return a
	}
	return b
}
