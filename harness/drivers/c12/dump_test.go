package c12

import (
	"encoding/json"
	"os"
	"testing"
)

// TestDumpCorpus writes corpus/C12/ontid-revoke-index0.json (run by hand when the world changes).
func TestDumpCorpus(t *testing.T) {
	if os.Getenv("C12_DUMP") == "" {
		t.Skip()
	}
	w := newWorld()
	for name, p := range corpusSeeds(w) {
		out := map[string]interface{}{"property": "C12", "kind": "corpus", "note": p.note, "input": p.p}
		b, _ := json.MarshalIndent(out, "", " ")
		if err := os.WriteFile(os.Getenv("C12_DUMP")+"/"+name+".json", b, 0o644); err != nil {
			t.Fatal(err)
		}
	}
}
