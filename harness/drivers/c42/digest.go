package c42

import (
	"bytes"
	"crypto/sha256"
	"encoding/hex"
	"encoding/json"
	"fmt"
	"os"
	"path/filepath"
	"sort"
	"strings"

	ethcomm "github.com/ethereum/go-ethereum/common"
	"github.com/ontio/ontology/common"
	"github.com/ontio/ontology/core/types"
	"github.com/ontio/ontology/smartcontract/service/neovm"

	"verif/harness/ledgerkit"
)

// snap is a component-wise digest of everything a pre-execution must leave alone.
type snap map[string]string

func sha(s string) string {
	h := sha256.Sum256([]byte(s))
	return hex.EncodeToString(h[:12])
}

// gasTable renders the process-global neovm.GAS_TABLE, sorted by key.
func gasTable() (keys []string, vals map[string]uint64) {
	vals = map[string]uint64{}
	neovm.GAS_TABLE.Range(func(k, v interface{}) bool {
		keys = append(keys, k.(string))
		vals[k.(string)] = v.(uint64)
		return true
	})
	sort.Strings(keys)
	return
}

func gasDigest() string {
	keys, vals := gasTable()
	var b strings.Builder
	for _, k := range keys {
		fmt.Fprintf(&b, "%s=%d;", k, vals[k])
	}
	return fmt.Sprintf("%d:%s", len(keys), sha(b.String()))
}

// memKeysDropped: membership of the read-through caches changes when a getter (or a contract's
// Blockchain.GetBlock syscall) loads a block; they hold copies of persisted data, not ledger state.
var memKeysDropped = map[string]bool{"blockCache": true, "txCache": true}

// takeSnap digests: every key/value pair of the four LevelDB stores (hook iteration), the sizes
// of their write-ahead logs (any write, even of an identical value, grows them), the bytes of
// every other file of the data directory (merkle_tree.db), the in-memory chain fields (hook), all
// getters for every height / known account / contract, the process-global gas table, and the
// result of executing (not adding) a fixed probe block on the current state.
func (c *chain) takeSnap(probe *types.Block) snap {
	s := snap{}
	st := c.k.Store()
	for k, v := range st.VerifC39StoreDigests() {
		s["db:"+k] = v
	}
	for k, v := range st.VerifC39MemState() {
		if !memKeysDropped[k] {
			s["mem:"+k] = v
		}
	}
	// files
	var logs, files []string
	filepath.Walk(c.k.Dir, func(p string, info os.FileInfo, err error) error {
		if err != nil || info.IsDir() {
			return nil
		}
		rel, _ := filepath.Rel(c.k.Dir, p)
		if strings.Contains(rel, string(filepath.Separator)) {
			if strings.HasSuffix(rel, ".log") {
				logs = append(logs, fmt.Sprintf("%s:%d", rel, info.Size()))
			}
			return nil
		}
		b, _ := os.ReadFile(p)
		files = append(files, fmt.Sprintf("%s:%d:%s", rel, len(b), sha(string(b))))
		return nil
	})
	sort.Strings(logs)
	sort.Strings(files)
	s["file:wal-sizes"] = strings.Join(logs, ",")
	s["file:merkle-and-others"] = strings.Join(files, ",")
	// getters
	l := c.k.Ledger
	h := l.GetCurrentBlockHeight()
	var chainS, evS strings.Builder
	fmt.Fprintf(&chainS, "h=%d hh=%d cur=%s curh=%s;", h, l.GetCurrentHeaderHeight(), l.GetCurrentBlockHash().ToHexString(), l.GetCurrentHeaderHash().ToHexString())
	for i := uint32(0); i <= h+1; i++ {
		bh := l.GetBlockHash(i)
		root, rerr := l.GetStateMerkleRoot(i)
		hdr, herr := l.GetHeaderByHeight(i)
		hs := "nil"
		if herr == nil && hdr != nil {
			x := hdr.Hash()
			hs = x.ToHexString() + fmt.Sprint(hdr.Timestamp)
		}
		blk, berr := l.GetBlockByHeight(i)
		ntx := -1
		if berr == nil && blk != nil {
			ntx = len(blk.Transactions)
			for _, t := range blk.Transactions {
				ok, _ := l.IsContainTransaction(t.Hash())
				n, _ := l.GetEventNotifyByTx(t.Hash())
				j, _ := json.Marshal(n)
				fmt.Fprintf(&evS, "%v:%s;", ok, j)
			}
		}
		fmt.Fprintf(&chainS, "%d:%s:%s:%v:%s:%d;", i, bh.ToHexString(), root.ToHexString(), rerr != nil, hs, ntx)
		ns, _ := l.GetEventNotifyByBlock(i)
		j, _ := json.Marshal(ns)
		fmt.Fprintf(&evS, "blk%d:%s;", i, j)
	}
	s["get:chain"] = sha(chainS.String())
	s["get:events"] = sha(evS.String())
	var acc strings.Builder
	addrs := []common.Address{c.k.Acct.Address}
	for _, u := range c.users {
		addrs = append(addrs, u.Address)
	}
	for _, a := range c.ethAddrs {
		addrs = append(addrs, common.Address(a))
	}
	addrs = append(addrs, common.Address(c.evmStore), common.Address(c.evmKill), c.neoLive, c.neoDead, c.neoDel, ledgerkit.GovAddr)
	for _, a := range addrs {
		for _, tok := range []common.Address{ledgerkit.OntAddr, ledgerkit.OngAddr} {
			v, err := l.GetStorageItem(tok, a[:])
			fmt.Fprintf(&acc, "%x:%v;", v, err != nil)
		}
		ea, err := l.GetEthAccount(ethcomm.Address(a))
		if err == nil && ea != nil {
			code, _ := l.GetEthCode(ea.CodeHash)
			fmt.Fprintf(&acc, "n%d:%x:%d;", ea.Nonce, ea.CodeHash, len(code))
		}
		for slot := byte(0); slot < 4; slot++ {
			v, _ := l.GetEthState(ethcomm.Address(a), ethcomm.Hash{31: slot})
			fmt.Fprintf(&acc, "%x,", v)
		}
		cs, err := l.GetContractState(a)
		fmt.Fprintf(&acc, "c%v:%v;", cs != nil, err != nil)
		for _, k := range []string{"k0", "k1", "k9", "new"} {
			v, _ := l.GetStorageItem(a, []byte(k))
			fmt.Fprintf(&acc, "%x,", v)
		}
	}
	bk, _ := l.GetBookkeeperState()
	j, _ := json.Marshal(bk)
	fmt.Fprintf(&acc, "bk:%s", j)
	s["get:accounts-contracts"] = sha(acc.String())
	s["global:gas-table"] = gasDigest()
	s["fresh:cache-reads"] = c.freshReads()
	if probe != nil {
		res, err := l.ExecuteBlock(probe)
		if err != nil {
			s["probe:execute-block"] = "err:" + err.Error()
		} else {
			var ns []string
			for _, n := range res.Notify {
				ns = append(ns, fmt.Sprintf("%d/%d/%d", n.State, n.GasConsumed, len(n.Notify)))
			}
			s["probe:execute-block"] = res.Hash.ToHexString() + ":" + res.MerkleRoot.ToHexString() + ":" + strings.Join(ns, ",")
		}
		// the probe refreshes the gas table from the persisted parameters: digest it again
		s["global:gas-table-after-probe"] = gasDigest()
	}
	return s
}

// diff lists the components on which two snapshots differ.
func (a snap) diff(b snap) []string {
	var out []string
	for k, v := range a {
		if b[k] != v {
			out = append(out, k)
		}
	}
	for k := range b {
		if _, ok := a[k]; !ok {
			out = append(out, k)
		}
	}
	sort.Strings(out)
	return out
}

// freshReads: a fresh CacheDB over a fresh overlay (LedgerStoreImp.GetCacheDB, what every
// pre-execution and every block execution starts from) must read exactly the persisted state:
// every ST_STORAGE key of the state LevelDB through Get, the whole ST_STORAGE range through an
// iterator, every destroyed-contract mark and every contract record. Anything that leaks from an
// earlier execution into later ones through process-wide state shows up here.
func (c *chain) freshReads() string {
	st := c.k.Store()
	keys, vals := st.VerifC42StateDump()
	cache := st.GetCacheDB()
	var bad []string
	n := 0
	var want [][2][]byte
	for i, k := range keys {
		if len(k) < 2 {
			continue
		}
		switch k[0] {
		case 5: // ST_STORAGE
			n++
			want = append(want, [2][]byte{k[1:], vals[i]})
			v, err := cache.Get(k[1:])
			if err != nil || !bytes.Equal(v, vals[i]) {
				bad = append(bad, "get:"+hex.EncodeToString(k))
			}
		case 6: // ST_DESTROYED
			if len(k) == 21 {
				n++
				var a common.Address
				copy(a[:], k[1:])
				d, err := cache.IsContractDestroyed(a)
				if err != nil || !d {
					bad = append(bad, "destroyed:"+hex.EncodeToString(k))
				}
			}
		case 4: // ST_CONTRACT
			if len(k) == 21 {
				n++
				var a common.Address
				copy(a[:], k[1:])
				dc, _, err := cache.GetContract(a)
				if err != nil || dc == nil {
					bad = append(bad, "contract:"+hex.EncodeToString(k))
				}
			}
		}
	}
	it := st.GetCacheDB().NewIterator(nil)
	j := 0
	for ok := it.First(); ok; ok = it.Next() {
		if j >= len(want) || !bytes.Equal(it.Key(), want[j][0]) || !bytes.Equal(it.Value(), want[j][1]) {
			bad = append(bad, fmt.Sprintf("iter:%d:%x", j, it.Key()))
			break
		}
		j++
	}
	it.Release()
	if j != len(want) && len(bad) == 0 {
		bad = append(bad, fmt.Sprintf("iter:listed %d of %d", j, len(want)))
	}
	if len(bad) > 4 {
		bad = append(bad[:4], fmt.Sprintf("... %d more", len(bad)-4))
	}
	return fmt.Sprintf("%d reads, mismatches=%v", n, bad)
}
