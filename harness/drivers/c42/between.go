package c42

import (
	"crypto/sha256"
	"encoding/hex"
	"fmt"
	"strings"

	"github.com/ontio/ontology/core/store"
	"github.com/ontio/ontology/core/types"

	"verif/harness/hx"
	"verif/harness/ledgerkit"
)

// The two-phase consensus sequence: ExecuteBlock(b) hands the caller an ExecuteResult whose
// WriteSet is the memdb of the overlay the block was executed on (OverlayDB.GetWriteSet returns it,
// no copy); SubmitBlock(b, result) persists exactly that write set later. Everything a node answers
// between the two calls -- in particular pre-executions -- must leave the pending result alone:
// it is ledger state that is about to be persisted.

// resultDigest renders an ExecuteResult: hash, state root, every key/value of the write set, notifications.
func resultDigest(res *store.ExecuteResult) string {
	h := sha256.New()
	n := 0
	if res.WriteSet != nil {
		res.WriteSet.ForEach(func(k, v []byte) {
			fmt.Fprintf(h, "%d:%x=%d:%x;", len(k), k, len(v), v)
			n++
		})
	}
	var ns []string
	for _, e := range res.Notify {
		ns = append(ns, fmt.Sprintf("%d/%d/%d", e.State, e.GasConsumed, len(e.Notify)))
	}
	return fmt.Sprintf("hash=%s root=%s writes=%d:%s notify=%s", res.Hash.ToHexString(), res.MerkleRoot.ToHexString(),
		n, hex.EncodeToString(h.Sum(nil)[:12]), strings.Join(ns, ","))
}

type roundRec struct {
	blocks []*types.Block
	submit int
	kind   string
}

// roundBlocks builds one (or two competing) next block(s): a native transfer, a contract storage
// write and an EVM storage write each, with different values.
func (r *run) roundBlocks(round int, competing bool) []*types.Block {
	c := r.c
	var out []*types.Block
	n := 1
	if competing {
		n = 2
	}
	for i := 0; i < n; i++ {
		t1, _ := c.k.TransferTx(ledgerkit.OntAddr, c.k.Acct, c.users[i].Address, uint64(10+round*2+i), 0, 20000)
		t2, _ := c.signedInvoke(neoCall(c.neoLive, []byte("k9"), []byte(fmt.Sprintf("round%d-%d", round, i)), false), c.k.Acct, 0, 100000)
		var w [32]byte
		w[31] = byte(0x40 + round*2 + i)
		_, t3, _ := c.ethTx(c.ethKeys[0], c.ethNonce[c.ethAddrs[0]], &c.evmStore, 0, 100000, 0, w[:])
		b, err := c.k.MakeBlock([]*types.Transaction{t1, t2, t3})
		if err != nil {
			r.x.Note("round block: " + err.Error())
			continue
		}
		out = append(out, b)
	}
	return out
}

// betweenSteps: the pre-executions run between ExecuteBlock and SubmitBlock.
func (r *run) betweenSteps() []step {
	x := r.x
	rnd := func() (uint64, uint64) { return uint64(x.Intn(1 << 20)), uint64(x.Intn(1 << 16)) }
	var steps []step
	for _, ke := range [][2]string{
		{"evm-store", "eip155"}, {"ont-transfer", "contract"}, {"neo-put", "batch"}, {"evm-ong-transfer", "msg"},
		{"evm-store", "trace"}, {"param-set-snapshot", "param"}, {"evm-create", "ledger"}, {"neo-destroy", "contract"},
		{"evm-kill", "eip155"}, {"ont-transfer-user", "ledger"}, {"deploy-neo", "contract"}, {"evm-store", "contract"},
		{"evm-create-fresh", "msg"}, {"evm-create-fresh", "trace"}, {"evm-factory-create", "eip155"}, {"evm-factory-revert", "contract"},
		{"evm-create-fresh-kill", "param"}, {"evm-factory-create2", "batch"}, {"ont-transfer-all", "contract"}, {"neo-delete-first", "ledger"},
	} {
		a, b := rnd()
		steps = append(steps, step{Kind: ke[0], Entry: ke[1], A: a, B: b})
	}
	kinds := allKinds()
	for i := 0; i < x.N(4, 30); i++ {
		k := kinds[x.Intn(len(kinds))]
		ents := anyEntries
		if isEip(k) {
			ents = eipEntries
		}
		a, b := rnd()
		steps = append(steps, step{Kind: k, Entry: ents[x.Intn(len(ents))], A: a, B: b})
	}
	x.Rng.Shuffle(len(steps), func(i, j int) { steps[i], steps[j] = steps[j], steps[i] })
	return steps
}

// twoPhase runs rounds of ExecuteBlock(s); pre-executions; SubmitBlock on the main ledger, checking
// after every pre-execution that the pending results (and everything else) are unchanged, then
// replays the same blocks on the twin with no pre-execution in between and compares the ledgers.
// With only != nil a single round with that one step is run (replay). The submitted rounds and the
// ledger digest after each are recorded in r.rounds / r.mainSnaps for the control comparison (later.go).
func (r *run) twoPhase(twinDir string, only *replayIn) {
	x, c := r.x, r.c
	st := c.k.Store()
	rounds := 2
	if only != nil {
		rounds = 1
	}
rounds:
	for round := 0; round < rounds; round++ {
		competing := (r.idx+round)%2 == 1
		if only != nil {
			competing = only.Between == 2
		}
		blocks := r.roundBlocks(round, competing)
		if len(blocks) == 0 {
			break rounds
		}
		between := 1
		if competing {
			between = 2
		}
		var results []store.ExecuteResult
		var digests []string
		okExec := true
		for _, b := range blocks {
			res, err := st.ExecuteBlock(b)
			x.Eval()
			if err != nil {
				x.Note("ExecuteBlock of a round block failed: " + err.Error())
				okExec = false
				break
			}
			results = append(results, res)
			digests = append(digests, resultDigest(&res))
		}
		if !okExec {
			x.Fail("preexec-changed:next-block-execution", "the next block executes after a round of ExecuteBlock; pre-executions; SubmitBlock",
				replayIn{Extra: r.extra, Between: between}, "ExecuteBlock failed", "executes")
			break rounds
		}
		steps := r.betweenSteps()
		if only != nil {
			steps = []step{only.Step}
		}
		for _, s := range steps {
			b, err := c.mkTx(s.Kind, s.A)
			if err != nil {
				continue
			}
			if !isEip(s.Kind) && (s.Entry == "eip155" || s.Entry == "msg" || s.Entry == "trace") {
				s.Entry = "contract"
			}
			in := replayIn{Extra: r.extra, Step: s, Between: between}
			before := c.takeSnap(nil)
			panicked, msg := hx.Recover(func() { r.preExec(s, b) })
			x.Eval()
			after := c.takeSnap(nil)
			if panicked {
				x.Fail("preexec-panic:"+s.Kind, "a pre-execution returns a result or an error", in, "panic: "+msg, "no panic")
			}
			r.check(before, after, in, s.Kind+" via "+s.Entry+" between ExecuteBlock and SubmitBlock")
			for i := range results {
				if d := resultDigest(&results[i]); d != digests[i] {
					x.Fail("preexec-changed:pending:execute-result", fmt.Sprintf(
						"the result of ExecuteBlock (hash, state root, write set) held for SubmitBlock is unchanged by a pre-execution (%s via %s; pending block %d of %d)",
						s.Kind, s.Entry, i+1, len(results)), in, d, digests[i])
					digests[i] = d
				}
			}
			x.Count("between:" + s.Entry)
			x.Nontrivial(fmt.Sprintf("between/%d/%s/%s", between, s.Kind, s.Entry))
		}
		// submit the most recently executed block on even chains, the first one otherwise
		sub := len(blocks) - 1
		if r.idx%4 == 3 {
			sub = 0
		}
		err := st.SubmitBlock(blocks[sub], nil, results[sub])
		x.Eval()
		if err != nil {
			x.Fail("preexec-changed:submit-after-preexec", "SubmitBlock accepts the executed block after pre-executions",
				replayIn{Extra: r.extra, Between: between}, err.Error(), "nil")
			break rounds
		}
		c.ethNonce[c.ethAddrs[0]]++
		r.rounds = append(r.rounds, roundRec{blocks: blocks, submit: sub, kind: fmt.Sprintf("ExecuteBlock of %d block(s); pre-executions; SubmitBlock", len(blocks))})
		r.mainSnaps = append(r.mainSnaps, c.takeSnap(nil))
		x.Count(fmt.Sprintf("between:round-competing-%v", competing))
	}
	_ = twinDir
}
