package c42

import (
	"bufio"
	"bytes"
	"context"
	"encoding/json"
	"fmt"
	"os"
	"os/exec"
	"sync"
	"time"

	ethcomm "github.com/ethereum/go-ethereum/common"
	"github.com/ontio/ontology-crypto/keypair"
	"github.com/ontio/ontology/account"
	"github.com/ontio/ontology/common"
	"github.com/ontio/ontology/common/config"
	"github.com/ontio/ontology/core/genesis"
	"github.com/ontio/ontology/core/store"
	"github.com/ontio/ontology/core/types"

	"verif/harness/hx"
	"verif/harness/ledgerkit"
)

// Later blocks and the control ledger.
//
// After the pre-executions (and the ExecuteBlock; pre-execute; SubmitBlock rounds) the main ledger
// adds further blocks with no pre-execution at all: blocks of zero-fee read-only transactions
// (every transaction's cache commits without having written anything) alternating with blocks of
// ordinary transactions. The ledger digest (every key/value of the four LevelDBs, state roots,
// per-transaction event records, getters, reads through fresh CacheDBs, gas table) is taken after
// EVERY block and compared with a CONTROL ledger: a copy of the data directory made before the
// first pre-execution, on which a SEPARATE PROCESS (the harness binary re-executed with
// VERIF_C42_CONTROL=1) executes and submits exactly the same blocks. A separate process, because
// what a pre-execution may leak can be process-wide state that a second ledger in the same process
// would share.

const controlEnv = "VERIF_C42_CONTROL"

type jobRound struct {
	Blocks []string `json:"blocks"` // hex of Block.Serialization
	Submit int      `json:"submit"`
}

type controlJob struct {
	Dir      string     `json:"dir"`
	Pub      string     `json:"pub"` // bookkeeper public key (serialized)
	Users    []string   `json:"users"`
	EthAddrs []string   `json:"eth"`
	EvmStore string     `json:"evm_store"`
	EvmKill  string     `json:"evm_kill"`
	NeoLive  string     `json:"neo_live"`
	NeoDead  string     `json:"neo_dead"`
	NeoDel   string     `json:"neo_del"`
	Rounds   []jobRound `json:"rounds"`
}

type controlOut struct {
	Snap snap   `json:"snap"`
	Err  string `json:"err"`
}

func addrOf(h string) common.Address {
	var a common.Address
	copy(a[:], hx.UnHex(h))
	return a
}

func init() {
	if os.Getenv(controlEnv) == "" {
		return
	}
	var job controlJob
	if err := json.NewDecoder(bufio.NewReaderSize(os.Stdin, 1<<20)).Decode(&job); err != nil {
		fmt.Fprintln(os.Stderr, "c42 control: bad input:", err)
		os.Exit(3)
	}
	pk, err := keypair.DeserializePublicKey(hx.UnHex(job.Pub))
	if err != nil {
		fmt.Fprintln(os.Stderr, "c42 control: bad key:", err)
		os.Exit(3)
	}
	acct := &account.Account{PublicKey: pk, Address: types.AddressFromPubKey(pk)}
	ledgerkit.ConfigureSolo(acct)
	bks := []keypair.PublicKey{pk}
	gb, err := genesis.BuildGenesisBlock(bks, config.DefConfig.Genesis)
	if err != nil {
		fmt.Fprintln(os.Stderr, "c42 control: genesis:", err)
		os.Exit(3)
	}
	k := &ledgerkit.Kit{Dir: job.Dir, Acct: acct, Bookkeepers: bks, Genesis: gb}
	if err := k.Open(); err != nil {
		fmt.Fprintln(os.Stderr, "c42 control: open:", err)
		os.Exit(3)
	}
	c := &chain{k: k, evmStore: ethcomm.Address(addrOf(job.EvmStore)), evmKill: ethcomm.Address(addrOf(job.EvmKill)),
		neoLive: addrOf(job.NeoLive), neoDead: addrOf(job.NeoDead), neoDel: addrOf(job.NeoDel)}
	for _, u := range job.Users {
		c.users = append(c.users, &account.Account{Address: addrOf(u)})
	}
	for _, e := range job.EthAddrs {
		c.ethAddrs = append(c.ethAddrs, ethcomm.Address(addrOf(e)))
	}
	w := bufio.NewWriter(os.Stdout)
	st := k.Store()
	for _, rd := range job.Rounds {
		out := controlOut{}
		var results []store.ExecuteResult
		var blocks []*types.Block
		for _, bh := range rd.Blocks {
			b, err := types.BlockFromRawBytes(hx.UnHex(bh))
			if err != nil {
				out.Err += "decode: " + err.Error() + "; "
				continue
			}
			res, err := st.ExecuteBlock(b)
			if err != nil {
				out.Err += "execute: " + err.Error() + "; "
			}
			blocks = append(blocks, b)
			results = append(results, res)
		}
		if rd.Submit < len(blocks) {
			if err := st.SubmitBlock(blocks[rd.Submit], nil, results[rd.Submit]); err != nil {
				out.Err += "submit: " + err.Error() + "; "
			}
		}
		out.Snap = c.takeSnap(nil)
		b, _ := json.Marshal(out)
		w.Write(b)
		w.WriteByte('\n')
	}
	w.Flush()
	k.Close()
	os.Exit(0)
}

// runControl executes the job in one fresh process.
func runControl(job *controlJob, timeout time.Duration) ([]controlOut, error) {
	self, err := os.Executable()
	if err != nil {
		return nil, err
	}
	in, _ := json.Marshal(job)
	ctx, cancel := context.WithTimeout(context.Background(), timeout)
	defer cancel()
	cmd := exec.CommandContext(ctx, self)
	cmd.Env = append(os.Environ(), controlEnv+"=1")
	cmd.Stdin = bytes.NewReader(in)
	var stdout, stderr bytes.Buffer
	cmd.Stdout = &stdout
	cmd.Stderr = &stderr
	if err := cmd.Run(); err != nil {
		return nil, fmt.Errorf("control process: %v: %s", err, firstN(stderr.String(), 600))
	}
	var out []controlOut
	sc := bufio.NewScanner(&stdout)
	sc.Buffer(make([]byte, 1<<20), 1<<26)
	for sc.Scan() {
		var o controlOut
		if err := json.Unmarshal(sc.Bytes(), &o); err != nil {
			return nil, err
		}
		out = append(out, o)
	}
	return out, nil
}

// laterBlock builds block number i of the later-blocks phase.
func (r *run) laterBlock(i int) (*types.Block, string) {
	c := r.c
	var txs []*types.Transaction
	add := func(t *types.Transaction, err error) {
		if err == nil && t != nil {
			txs = append(txs, t)
		}
	}
	kind := "read-only"
	if i%2 == 0 {
		// zero-fee read-only transactions only
		who := []common.Address{c.k.Acct.Address}
		for _, u := range c.users {
			who = append(who, u.Address)
		}
		for j, a := range who {
			m, err := c.k.NativeTx(ledgerkit.OntAddr, 0, 0, 20000, "balanceOf", []interface{}{a[:]})
			if err == nil {
				m.Nonce = uint32(1000*i + j)
				add(m.IntoImmutable())
			}
			m, err = c.k.NativeTx(ledgerkit.OngAddr, 0, 0, 20000, "balanceOf", []interface{}{a[:]})
			if err == nil {
				m.Nonce = uint32(1000*i + 100 + j)
				add(m.IntoImmutable())
			}
		}
	} else {
		kind = "ordinary"
		add(c.k.TransferTx(ledgerkit.OntAddr, c.k.Acct, c.users[i%3].Address, uint64(20+i), 0, 20000))
		add(c.k.TransferTx(ledgerkit.OngAddr, c.k.Acct, c.users[(i+1)%3].Address, uint64(1000+i), 0, 20000))
		add(c.signedInvoke(neoCall(c.neoLive, []byte("k1"), []byte(fmt.Sprintf("later%d", i)), false), c.k.Acct, 0, uint64(100100+i)))
		add(c.signedInvoke(neoDelCall(c.neoDel, []byte("k9"), []byte(fmt.Sprintf("later%d", i)), true), c.k.Acct, 0, uint64(100200+i)))
		var w [32]byte
		w[31] = byte(0x70 + i)
		_, t, err := c.ethTx(c.ethKeys[0], c.ethNonce[c.ethAddrs[0]], &c.evmStore, 0, 100000, 0, w[:])
		add(t, err)
	}
	b, err := c.k.MakeBlock(txs)
	if err != nil {
		r.x.Note("later block: " + err.Error())
		return nil, kind
	}
	return b, kind
}

// laterBlocks adds n blocks (no pre-execution any more), recording the digest after each.
func (r *run) laterBlocks(n int) {
	c := r.c
	st := c.k.Store()
	for i := 0; i < n; i++ {
		b, kind := r.laterBlock(i)
		if b == nil {
			return
		}
		res, err := st.ExecuteBlock(b)
		if err == nil {
			err = st.SubmitBlock(b, nil, res)
		}
		r.x.Eval()
		if err != nil {
			r.x.Fail("preexec-changed:later-block-rejected", "a later "+kind+" block is executed and submitted after pre-executions",
				r.historyInput(), err.Error(), "accepted")
			return
		}
		if kind == "ordinary" {
			c.ethNonce[c.ethAddrs[0]]++
		}
		r.rounds = append(r.rounds, roundRec{blocks: []*types.Block{b}, submit: 0, kind: kind})
		r.mainSnaps = append(r.mainSnaps, c.takeSnap(nil))
		r.x.Count("later-block:" + kind)
	}
}

// historyInput: a replayable candidate history for a divergence seen only in later blocks: the
// steps the per-step oracle flagged on this chain (if any), to be pre-executed before the blocks.
func (r *run) historyInput() interface{} {
	if len(r.flagged) > 0 {
		return replayIn{Extra: r.extra, Later: r.flagged}
	}
	return map[string]interface{}{"chain": r.idx, "phase": "blocks after the pre-executions, against the control ledger"}
}

// controlJobOf renders the job of this chain's control process.
func (r *run) controlJobOf(twinDir string) *controlJob {
	c := r.c
	job := &controlJob{Dir: twinDir, Pub: hx.Hex(keypair.SerializePublicKey(c.k.Acct.PublicKey)),
		EvmStore: hx.Hex(c.evmStore[:]), EvmKill: hx.Hex(c.evmKill[:]),
		NeoLive: hx.Hex(c.neoLive[:]), NeoDead: hx.Hex(c.neoDead[:]), NeoDel: hx.Hex(c.neoDel[:])}
	for _, u := range c.users {
		job.Users = append(job.Users, hx.Hex(u.Address[:]))
	}
	for _, e := range c.ethAddrs {
		job.EthAddrs = append(job.EthAddrs, hx.Hex(e[:]))
	}
	for _, rd := range r.rounds {
		jr := jobRound{Submit: rd.submit}
		for _, b := range rd.blocks {
			sink := common.NewZeroCopySink(nil)
			b.Serialization(sink)
			jr.Blocks = append(jr.Blocks, hx.Hex(sink.Bytes()))
		}
		job.Rounds = append(job.Rounds, jr)
	}
	return job
}

// pendingControl is one chain's comparison, run after all chains (the control processes in parallel).
type pendingControl struct {
	r   *run
	job *controlJob
}

func compareControls(x *hx.Ctx, pcs []pendingControl) {
	outs := make([][]controlOut, len(pcs))
	errs := make([]error, len(pcs))
	var wg sync.WaitGroup
	sem := make(chan struct{}, 4)
	for i := range pcs {
		wg.Add(1)
		go func(i int) {
			defer wg.Done()
			sem <- struct{}{}
			defer func() { <-sem }()
			outs[i], errs[i] = runControl(pcs[i].job, 10*time.Minute)
		}(i)
	}
	wg.Wait()
	for i, pc := range pcs {
		r := pc.r
		if errs[i] != nil {
			x.Fail("harness:control-process", "the control ledger runs", map[string]int{"chain": r.idx}, errs[i].Error(), "runs")
			continue
		}
		if len(outs[i]) != len(r.mainSnaps) {
			x.Fail("harness:control-process", "the control ledger answers every block", map[string]int{"chain": r.idx},
				fmt.Sprintf("%d answers", len(outs[i])), fmt.Sprintf("%d", len(r.mainSnaps)))
			continue
		}
		reported := map[string]bool{}
		for j, o := range outs[i] {
			if o.Err != "" {
				x.Note(fmt.Sprintf("control ledger, block %d: %s", j, o.Err))
			}
			m := snap{}
			for k, v := range r.mainSnaps[j] {
				m[k] = v
			}
			delete(m, "file:wal-sizes") // the two ledgers were reopened a different number of times
			delete(o.Snap, "file:wal-sizes")
			for _, comp := range m.diff(o.Snap) {
				if reported[comp] {
					continue
				}
				reported[comp] = true
				what := "round"
				if j < len(r.rounds) {
					what = r.rounds[j].kind
				}
				x.Fail("preexec-changed:control:"+comp, fmt.Sprintf(
					"after block %d of %d following the pre-executions (%s) the ledger equals a control ledger that executed and submitted the same blocks in another process without any pre-execution",
					j+1, len(outs[i]), what), r.historyInput(), m[comp], o.Snap[comp])
			}
			x.Count("control:block-compared")
		}
	}
}
