package c42

import (
	"bytes"
	"fmt"
	"math/rand"
	"sort"
	"strings"

	"github.com/ontio/ontology/common"
	"github.com/ontio/ontology/common/config"

	"verif/harness/hx"
)

// CacheDB session histories through LedgerStoreImp.GetCacheDB() (the constructor executeEip155Tx
// uses) over the real state store. Histories are generated from a seed with symbolic keys (resolved
// against the chain's sorted storage keys), so a failing history is replayable on a fresh chain:
// replayIn{SessSeed, SessUpto} re-runs sessions 0..SessUpto-1 in one process, in order.
//
// Oracle: (a) the ledger digest is unchanged by the session; (b) every value read and every
// listing equals a reference computed in Go -- the persisted state (hook dump) overlaid with the
// session's own committed and uncommitted writes, nothing else: a session must not see anything
// of any earlier session. The same observations go to Coq as a CSession case.

type keySel struct {
	Mode  int // 0 existing key, 1 existing key cut + one byte, 2 random bytes
	Idx   int
	Cut   int
	Extra byte
	Rand  []byte
}

type sessOp struct {
	Op  string // put del get iter commit reset isdestroyed delcontract
	Key keySel
	Val []byte
	Pfx int // iter: prefix shape
	H   uint32
}

func genKey(g *rand.Rand) keySel {
	k := keySel{Idx: g.Intn(1 << 16)}
	switch g.Intn(4) {
	case 0, 1:
		k.Mode = 0
	case 2:
		k.Mode = 1
		k.Cut = g.Intn(64)
		k.Extra = byte(g.Intn(256))
	default:
		k.Mode = 2
		k.Rand = make([]byte, 1+g.Intn(24))
		g.Read(k.Rand)
	}
	return k
}

func genSession(g *rand.Rand) []sessOp {
	var ops []sessOp
	nops := 4 + g.Intn(14)
	for j := 0; j < nops; j++ {
		switch g.Intn(12) {
		case 0, 1, 2:
			v := make([]byte, 1+g.Intn(12))
			g.Read(v)
			ops = append(ops, sessOp{Op: "put", Key: genKey(g), Val: v})
		case 3, 4:
			ops = append(ops, sessOp{Op: "del", Key: genKey(g)})
		case 5, 6, 7:
			ops = append(ops, sessOp{Op: "get", Key: genKey(g)})
		case 8, 9:
			ops = append(ops, sessOp{Op: "iter", Key: keySel{Idx: g.Intn(1 << 16), Cut: g.Intn(64), Extra: byte(g.Intn(256))}, Pfx: g.Intn(12)})
		case 10:
			if g.Intn(2) == 0 {
				ops = append(ops, sessOp{Op: "commit"})
			} else {
				ops = append(ops, sessOp{Op: "reset"})
			}
		default:
			if g.Intn(2) == 0 {
				ops = append(ops, sessOp{Op: "isdestroyed", Key: keySel{Idx: g.Intn(1 << 16)}})
			} else {
				ops = append(ops, sessOp{Op: "delcontract", Key: keySel{Idx: g.Intn(1 << 16)}, H: uint32(g.Intn(1000))})
			}
		}
	}
	return ops
}

// sessEnv: what symbolic keys resolve against, and the reference's view of the persisted state.
type sessEnv struct {
	storageKeys [][]byte          // ST_STORAGE keys of the state store, prefix stripped, sorted
	contracts   []common.Address  // addresses with a contract / destroyed record, plus a few others
	persisted   map[string][]byte // full key (with prefix byte) -> value
}

func (r *run) sessEnv() *sessEnv {
	keys, vals := r.c.k.Store().VerifC42StateDump()
	e := &sessEnv{persisted: map[string][]byte{}}
	for i, k := range keys {
		e.persisted[string(k)] = vals[i]
		if len(k) > 1 && k[0] == 5 {
			e.storageKeys = append(e.storageKeys, k[1:])
		}
		if len(k) == 21 && (k[0] == 4 || k[0] == 6) {
			var a common.Address
			copy(a[:], k[1:])
			e.contracts = append(e.contracts, a)
		}
	}
	e.contracts = append(e.contracts, r.c.neoLive, r.c.neoDead, r.c.neoDel, r.c.users[0].Address)
	return e
}

func (e *sessEnv) key(k keySel) []byte {
	switch k.Mode {
	case 0:
		return append([]byte(nil), e.storageKeys[k.Idx%len(e.storageKeys)]...)
	case 1:
		b := append([]byte(nil), e.storageKeys[k.Idx%len(e.storageKeys)]...)
		if len(b) > 20 {
			b = b[:20+k.Cut%(len(b)-20)]
		}
		return append(b, k.Extra)
	default:
		return append([]byte(nil), k.Rand...)
	}
}

func (e *sessEnv) prefix(o sessOp) []byte {
	k := e.storageKeys[o.Key.Idx%len(e.storageKeys)]
	switch o.Pfx {
	case 0:
		return nil // everything under ST_STORAGE
	case 1, 2:
		return []byte{o.Key.Extra}
	case 3, 4, 5, 6:
		if len(k) >= 20 {
			return append([]byte(nil), k[:20]...) // one contract's storage
		}
		return append([]byte(nil), k...)
	case 7, 8:
		return append([]byte(nil), k...)
	default:
		n := len(k)
		if n > 20 {
			n = 20 + o.Key.Cut%(n-19)
		}
		return append([]byte(nil), k[:n]...)
	}
}

// ref is the reference: persisted state + overlay writes + cache writes (nil value = deleted).
type ref struct {
	e              *sessEnv
	overlay, cache map[string][]byte
}

func (f *ref) get(full []byte) []byte {
	if v, ok := f.cache[string(full)]; ok {
		return v
	}
	if v, ok := f.overlay[string(full)]; ok {
		return v
	}
	return f.e.persisted[string(full)]
}

func (f *ref) list(fullPrefix []byte) (ks, vs [][]byte) {
	seen := map[string]bool{}
	var all []string
	for _, m := range []map[string][]byte{f.cache, f.overlay, f.e.persisted} {
		for k := range m {
			if !seen[k] && strings.HasPrefix(k, string(fullPrefix)) {
				seen[k] = true
				all = append(all, k)
			}
		}
	}
	sort.Strings(all)
	for _, k := range all {
		if v := f.get([]byte(k)); len(v) > 0 {
			ks = append(ks, []byte(k)[1:])
			vs = append(vs, v)
		}
	}
	return
}

// runSession performs one history on a fresh GetCacheDB(); returns the Coq ops, op kinds and the
// reads that differ from the reference.
func (r *run) runSession(e *sessEnv, ops []sessOp) (coq []string, kinds []string, bad []string) {
	cache := r.c.k.Store().GetCacheDB()
	f := &ref{e: e, overlay: map[string][]byte{}, cache: map[string][]byte{}}
	full := func(p byte, k []byte) []byte { return append([]byte{p}, k...) }
	for _, o := range ops {
		switch o.Op {
		case "put":
			k := e.key(o.Key)
			cache.Put(k, o.Val)
			f.cache[string(full(5, k))] = o.Val
			coq = append(coq, fmt.Sprintf("(SPut 5 %s %s, RNone)", hx.CoqBytes(k), hx.CoqBytes(o.Val)))
			kinds = append(kinds, "put")
		case "del":
			k := e.key(o.Key)
			cache.Delete(k)
			f.cache[string(full(5, k))] = nil
			coq = append(coq, fmt.Sprintf("(SDel 5 %s, RNone)", hx.CoqBytes(k)))
			kinds = append(kinds, "delete")
		case "get":
			k := e.key(o.Key)
			v, err := cache.Get(k)
			if err != nil {
				r.x.Note("CacheDB.Get error: " + err.Error())
			}
			if want := f.get(full(5, k)); !bytes.Equal(v, want) {
				bad = append(bad, fmt.Sprintf("Get(%x) = %x, persisted state + own writes give %x", k, v, want))
			}
			coq = append(coq, fmt.Sprintf("(SGet 5 %s, RVal %s)", hx.CoqBytes(k), hx.CoqBytes(v)))
			kinds = append(kinds, "get")
		case "iter":
			p := e.prefix(o)
			it := cache.NewIterator(p)
			var ks, vs [][]byte
			for ok := it.First(); ok; ok = it.Next() {
				ks = append(ks, append([]byte(nil), it.Key()...))
				vs = append(vs, append([]byte(nil), it.Value()...))
			}
			it.Release()
			wk, wv := f.list(full(5, p))
			same := len(wk) == len(ks)
			for i := 0; same && i < len(ks); i++ {
				same = bytes.Equal(ks[i], wk[i]) && bytes.Equal(vs[i], wv[i])
			}
			if !same {
				bad = append(bad, fmt.Sprintf("NewIterator(%x) listed %d entries, persisted state + own writes give %d (or different ones)", p, len(ks), len(wk)))
			}
			coq = append(coq, fmt.Sprintf("(SIter 5 %s, RList %s)", hx.CoqBytes(p), coqKvs(ks, vs)))
			kinds = append(kinds, "iter")
		case "commit":
			cache.Commit()
			for k, v := range f.cache {
				f.overlay[k] = v
			}
			f.cache = map[string][]byte{}
			coq = append(coq, "(SCommit, RNone)")
			kinds = append(kinds, "commit")
		case "reset":
			cache.Reset()
			f.cache = map[string][]byte{}
			coq = append(coq, "(SReset, RNone)")
			kinds = append(kinds, "reset")
		case "isdestroyed":
			a := e.contracts[o.Key.Idx%len(e.contracts)]
			d, err := cache.IsContractDestroyed(a)
			if err != nil {
				r.x.Note("IsContractDestroyed error: " + err.Error())
			}
			if want := len(f.get(full(6, a[:]))) != 0; d != want {
				bad = append(bad, fmt.Sprintf("IsContractDestroyed(%x) = %v, persisted state + own writes give %v", a[:], d, want))
			}
			coq = append(coq, fmt.Sprintf("(SGet 6 %s, RFlag %s)", hx.CoqBytes(a[:]), hx.CoqBool(d)))
			kinds = append(kinds, "is-destroyed")
		case "delcontract":
			a := e.contracts[o.Key.Idx%len(e.contracts)]
			cache.DeleteContract(a, o.H)
			f.cache[string(full(4, a[:]))] = nil
			coq = append(coq, fmt.Sprintf("(SDel 4 %s, RNone)", hx.CoqBytes(a[:])))
			if config.GetTrackDestroyedContractHeight() <= o.H {
				hb := []byte{byte(o.H), byte(o.H >> 8), byte(o.H >> 16), byte(o.H >> 24)}
				f.cache[string(full(6, a[:]))] = hb
				coq = append(coq, fmt.Sprintf("(SPut 6 %s %s, RNone)", hx.CoqBytes(a[:]), hx.CoqBytes(hb)))
			}
			kinds = append(kinds, "delete-contract")
		}
	}
	return
}

// sessions runs sessions 0..n-1 generated from seed, in order.
func (r *run) sessions(seed int64, n int) {
	g := rand.New(rand.NewSource(seed))
	st := r.c.k.Store()
	e := r.sessEnv()
	if len(e.storageKeys) == 0 {
		return
	}
	for i := 0; i < n; i++ {
		ops := genSession(g)
		in := replayIn{Extra: r.extra, SessSeed: seed, SessUpto: i + 1}
		before := r.c.takeSnap(nil)
		coq, kinds, bad := r.runSession(e, ops)
		r.x.Eval()
		after := r.c.takeSnap(nil)
		same := r.check(before, after, in, "CacheDB session through GetCacheDB: "+strings.Join(kinds, ","))
		if len(bad) > 0 {
			r.x.Fail("session-read:not-persisted-state-plus-own-writes",
				"a fresh CacheDB (GetCacheDB) reads the persisted state overlaid with its own writes only; history = sessions 0.."+fmt.Sprint(i)+
					" of this seed, each on its own fresh CacheDB, last one: "+strings.Join(kinds, ","),
				in, bad[0], "the reference value")
		}
		r.emit(fmt.Sprintf("CSession %s %d %s %s", r.stName, st.GetCurrentBlockHeight(), hx.CoqList(coq), hx.CoqBool(same)), in)
		for _, k := range kinds {
			r.x.Count("session-op:" + k)
		}
		firstWrite := "none"
		for _, k := range kinds {
			if k == "put" || k == "delete" || k == "delete-contract" {
				firstWrite = k
				break
			}
		}
		r.x.Count("session-first-write:" + firstWrite)
		r.x.Nontrivial(fmt.Sprintf("session/%d/%d", r.idx, i))
	}
}
