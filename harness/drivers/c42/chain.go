package c42

import (
	"bytes"
	"crypto/ecdsa"
	"fmt"
	"math/big"
	"math/rand"

	ethcomm "github.com/ethereum/go-ethereum/common"
	ethtypes "github.com/ethereum/go-ethereum/core/types"
	"github.com/ethereum/go-ethereum/crypto"
	"github.com/ontio/ontology/account"
	"github.com/ontio/ontology/common"
	"github.com/ontio/ontology/common/config"
	"github.com/ontio/ontology/common/constants"
	"github.com/ontio/ontology/core/payload"
	"github.com/ontio/ontology/core/types"
	"github.com/ontio/ontology/smartcontract/service/native/ont"

	"verif/harness/ledgerkit"
)

// ---- NeoVM byte code (hand assembled; opcodes from vm/neovm/opcode.go) ----

const (
	opPUSH0    = 0x00
	opPUSH1    = 0x51
	opNOP      = 0x61
	opJMPIFNOT = 0x64
	opRET      = 0x66
	opAPPCALL  = 0x67
	opSYSCALL  = 0x68
)

func neoPush(b *bytes.Buffer, d []byte) {
	switch {
	case len(d) == 0:
		b.WriteByte(opPUSH0)
	case len(d) <= 75:
		b.WriteByte(byte(len(d)))
		b.Write(d)
	default:
		b.WriteByte(0x4c) // PUSHDATA1
		b.WriteByte(byte(len(d)))
		b.Write(d)
	}
}

func neoSyscall(b *bytes.Buffer, name string) {
	b.WriteByte(opSYSCALL)
	b.WriteByte(byte(len(name)))
	b.WriteString(name)
}

// neoContract: entry stack (top first) key, value, flag.
//
//	Storage.Put(GetContext(), key, value); if flag { Contract.Destroy() }; Notify("c42"); return 1
//
// `variant` appends NOPs after RET so that several instances get distinct addresses.
func neoContract(variant int) []byte {
	var b bytes.Buffer
	neoSyscall(&b, "System.Storage.GetContext")
	neoSyscall(&b, "System.Storage.Put")
	destroy := "System.Contract.Destroy"
	b.WriteByte(opJMPIFNOT)
	off := 3 + 2 + len(destroy)
	b.WriteByte(byte(off))
	b.WriteByte(0)
	neoSyscall(&b, destroy)
	neoPush(&b, []byte("c42"))
	neoSyscall(&b, "System.Runtime.Notify")
	b.WriteByte(opPUSH1)
	b.WriteByte(opRET)
	for i := 0; i < variant; i++ {
		b.WriteByte(opNOP)
	}
	return b.Bytes()
}

// neoDelContract: entry stack (top first) mode, key, value.
//
//	mode true:  Storage.Put(GetContext(), key, value); return 1
//	mode false: Storage.Delete(GetContext(), key); return 1      (the first write is a delete)
func neoDelContract() []byte {
	var put, del bytes.Buffer
	neoSyscall(&put, "System.Storage.GetContext")
	neoSyscall(&put, "System.Storage.Put")
	put.WriteByte(opPUSH1)
	put.WriteByte(opRET)
	neoSyscall(&del, "System.Storage.GetContext")
	neoSyscall(&del, "System.Storage.Delete")
	del.WriteByte(opPUSH1)
	del.WriteByte(opRET)
	var b bytes.Buffer
	b.WriteByte(opJMPIFNOT)
	off := 3 + put.Len()
	b.WriteByte(byte(off))
	b.WriteByte(byte(off >> 8))
	b.Write(put.Bytes())
	b.Write(del.Bytes())
	return b.Bytes()
}

// neoDelCall: invoke code for neoDelContract (put when val != nil, else delete).
func neoDelCall(addr common.Address, key, val []byte, put bool) []byte {
	var b bytes.Buffer
	neoPush(&b, val)
	neoPush(&b, key)
	if put {
		b.WriteByte(opPUSH1)
	} else {
		b.WriteByte(opPUSH0)
	}
	b.WriteByte(opAPPCALL)
	b.Write(addr[:])
	return b.Bytes()
}

// neoCall: invoke code calling a deployed neoContract.
func neoCall(addr common.Address, key, val []byte, destroy bool) []byte {
	var b bytes.Buffer
	if destroy {
		b.WriteByte(opPUSH1)
	} else {
		b.WriteByte(opPUSH0)
	}
	neoPush(&b, val)
	neoPush(&b, key)
	b.WriteByte(opAPPCALL)
	b.Write(addr[:])
	return b.Bytes()
}

// neoCreate: invoke code deploying `code` through the Ontology.Contract.Create syscall
// (stack, top first: code, vmType, name, version, author, email, desc).
func neoCreate(code []byte) []byte {
	var b bytes.Buffer
	neoPush(&b, []byte("d"))
	neoPush(&b, []byte("e"))
	neoPush(&b, []byte("a"))
	neoPush(&b, []byte("v"))
	neoPush(&b, []byte("n"))
	b.WriteByte(opPUSH1) // vmType flags = 1 (NeoVM)
	neoPush(&b, code)
	neoSyscall(&b, "Ontology.Contract.Create")
	return b.Bytes()
}

// ---- EVM byte code ----

// evmRuntimeStore: storage[0] = calldata[0:32]; storage[1] += 1; LOG0(0,0); STOP
var evmRuntimeStore = []byte{
	0x60, 0x00, 0x35, 0x60, 0x00, 0x55,
	0x60, 0x01, 0x54, 0x60, 0x01, 0x01, 0x60, 0x01, 0x55,
	0x60, 0x00, 0x60, 0x00, 0xa0,
	0x00,
}

// evmRuntimeKill: storage[2] = 7; SELFDESTRUCT(CALLER)
var evmRuntimeKill = []byte{0x60, 0x07, 0x60, 0x02, 0x55, 0x33, 0xff}

// factories: the calldata is the init code of the child.
//
//	evmFactoryCreate:  CALLDATACOPY(0,0,size); CREATE(0,0,size);        POP; STOP
//	evmFactoryCreate2: CALLDATACOPY(0,0,size); CREATE2(0,0,size,0x2a);  POP; STOP
//	evmFactoryRevert:  CALLDATACOPY(0,0,size); CREATE(0,0,size);        POP; REVERT(0,0)
var evmFactoryCreate = []byte{0x36, 0x60, 0x00, 0x60, 0x00, 0x37, 0x36, 0x60, 0x00, 0x60, 0x00, 0xf0, 0x50, 0x00}
var evmFactoryCreate2 = []byte{0x36, 0x60, 0x00, 0x60, 0x00, 0x37, 0x60, 0x2a, 0x36, 0x60, 0x00, 0x60, 0x00, 0xf5, 0x50, 0x00}
var evmFactoryRevert = []byte{0x36, 0x60, 0x00, 0x60, 0x00, 0x37, 0x36, 0x60, 0x00, 0x60, 0x00, 0xf0, 0x50, 0x60, 0x00, 0x60, 0x00, 0xfd}

// freshRuntime: runtime code never stored before on this chain (unreachable tail bytes after STOP
// make its hash new): the store runtime, or the self-destruct runtime, plus a tag.
func (c *chain) freshRuntime(a uint64, kill bool) []byte {
	c.fresh++
	base := evmRuntimeStore
	if kill {
		base = append(append([]byte(nil), evmRuntimeKill...), 0x00)
	}
	tag := []byte{0xfe, byte(a), byte(a >> 8), byte(a >> 16), byte(c.fresh), byte(c.fresh >> 8), byte(c.fresh >> 16)}
	return append(append([]byte(nil), base...), tag...)
}

// evmInit wraps a runtime into creation code (stores 5 at slot 3 first, so creation writes too).
func evmInit(runtime []byte) []byte {
	pre := []byte{0x60, 0x05, 0x60, 0x03, 0x55}
	hdr := []byte{0x60, byte(len(runtime)), 0x80, 0x60, byte(len(pre) + 11), 0x60, 0x00, 0x39, 0x60, 0x00, 0xf3}
	return append(append(pre, hdr...), runtime...)
}

// ---- the chain ----

type chain struct {
	k        *ledgerkit.Kit
	users    []*account.Account
	ethKeys  []*ecdsa.PrivateKey
	ethAddrs []ethcomm.Address
	ethNonce map[ethcomm.Address]uint64
	neoLive  common.Address // deployed, has storage
	neoDead  common.Address // deployed, then destroyed in a later block
	neoDel   common.Address // deployed, has storage k0/k1; its delete path writes a tombstone first
	neoCodes [][]byte
	evmStore ethcomm.Address
	evmKill  ethcomm.Address
	evmFact  [3]ethcomm.Address // factories: CREATE, CREATE2, CREATE then REVERT
	fresh    uint32             // counter behind freshRuntime
	notes    []string
}

func keyFromRand(r *rand.Rand) *ecdsa.PrivateKey {
	for {
		var b [32]byte
		r.Read(b[:])
		b[0] &= 0x7f
		if k, err := crypto.ToECDSA(b[:]); err == nil {
			return k
		}
	}
}

func chainID() *big.Int { return big.NewInt(int64(config.DefConfig.P2PNode.EVMChainId)) }

// ethTx builds and signs an EIP-155 transaction (gas price in ontology units, value in 1e-9 ONG units).
func (c *chain) ethTx(key *ecdsa.PrivateKey, nonce uint64, to *ethcomm.Address, value int64, gasLimit, gasPrice uint64, data []byte) (*ethtypes.Transaction, *types.Transaction, error) {
	price := new(big.Int).Mul(new(big.Int).SetUint64(gasPrice), big.NewInt(constants.GWei))
	val := new(big.Int).Mul(big.NewInt(value), big.NewInt(constants.GWei))
	var raw *ethtypes.Transaction
	if to == nil {
		raw = ethtypes.NewContractCreation(nonce, val, gasLimit, price, data)
	} else {
		raw = ethtypes.NewTransaction(nonce, *to, val, gasLimit, price, data)
	}
	signed, err := ethtypes.SignTx(raw, ethtypes.NewEIP155Signer(chainID()), key)
	if err != nil {
		return nil, nil, err
	}
	t, err := types.TransactionFromEIP155(signed)
	return signed, t, err
}

func (c *chain) signedInvoke(code []byte, signer *account.Account, gasPrice, gasLimit uint64) (*types.Transaction, error) {
	m := c.k.InvokeTx(code, gasPrice, gasLimit)
	if signer != nil {
		if err := ledgerkit.Sign(m, signer); err != nil {
			return nil, err
		}
	}
	return m.IntoImmutable()
}

func (c *chain) deployTx(code []byte, vmType payload.VmType, signer *account.Account, gasLimit uint64) (*types.Transaction, error) {
	dc, err := payload.NewDeployCode(code, vmType, "n", "v", "a", "e", "d")
	if err != nil {
		return nil, err
	}
	m := &types.MutableTransaction{TxType: types.Deploy, Payload: dc, GasPrice: 0, GasLimit: gasLimit, Nonce: uint32(len(code))*7 + uint32(gasLimit%1000)}
	if signer != nil {
		if err := ledgerkit.Sign(m, signer); err != nil {
			return nil, err
		}
	}
	return m.IntoImmutable()
}

func (c *chain) nativeTx(contract common.Address, method string, params []interface{}, signer *account.Account) (*types.Transaction, error) {
	m, err := c.k.NativeTx(contract, 0, 0, 20000, method, params)
	if err != nil {
		return nil, err
	}
	if signer != nil {
		if err := ledgerkit.Sign(m, signer); err != nil {
			return nil, err
		}
	}
	return m.IntoImmutable()
}

func (c *chain) add(txs ...*types.Transaction) error {
	_, err := c.k.AddBlock(txs)
	return err
}

// txState returns the recorded execution state of a transaction of an added block.
func (c *chain) txState(t *types.Transaction) byte {
	n, err := c.k.Ledger.GetEventNotifyByTx(t.Hash())
	if err != nil || n == nil {
		return 255
	}
	return n.State
}

// newChain builds a solo chain with: funded ontology users, funded EVM senders, two NeoVM
// contracts (one with storage, one destroyed), two EVM contracts (storage writer, self-destructor).
func newChain(dir string, r *rand.Rand, extraBlocks int) (*chain, error) {
	k, err := ledgerkit.New(dir)
	if err != nil {
		return nil, err
	}
	c := &chain{k: k, ethNonce: map[ethcomm.Address]uint64{}}
	for i := 0; i < 3; i++ {
		c.users = append(c.users, account.NewAccount(""))
	}
	for i := 0; i < 2; i++ {
		key := keyFromRand(r)
		c.ethKeys = append(c.ethKeys, key)
		c.ethAddrs = append(c.ethAddrs, crypto.PubkeyToAddress(key.PublicKey))
	}
	must := func(t *types.Transaction, err error) *types.Transaction {
		if err != nil {
			panic(err)
		}
		return t
	}
	// block 1: ONT and ONG to the users, ONG to the EVM senders
	var txs []*types.Transaction
	for i, u := range c.users {
		txs = append(txs, must(k.TransferTx(ledgerkit.OntAddr, k.Acct, u.Address, uint64(1000*(i+1)), 0, 20000)))
		txs = append(txs, must(k.TransferTx(ledgerkit.OngAddr, k.Acct, u.Address, 5_000_000_000, 0, 20000)))
	}
	for _, a := range c.ethAddrs {
		txs = append(txs, must(k.TransferTx(ledgerkit.OngAddr, k.Acct, common.Address(a), 50_000_000_000, 0, 20000)))
	}
	ap, err := c.nativeTx(ledgerkit.OngAddr, "approve", []interface{}{&ont.TransferState{From: k.Acct.Address, To: c.users[0].Address, Value: 1_000_000_000}}, k.Acct)
	if err != nil {
		return nil, err
	}
	txs = append(txs, ap)
	if err := c.add(txs...); err != nil {
		return nil, fmt.Errorf("block1: %v", err)
	}
	for i, t := range txs {
		if s := c.txState(t); s != 1 {
			c.notes = append(c.notes, fmt.Sprintf("setup: block-1 tx %d state %d", i, s))
		}
	}
	// block 2: deploy the NeoVM contracts and the EVM contracts
	c.neoCodes = [][]byte{neoContract(0), neoContract(1)}
	c.neoLive = common.AddressFromVmCode(c.neoCodes[0])
	c.neoDead = common.AddressFromVmCode(c.neoCodes[1])
	d0 := must(c.deployTx(c.neoCodes[0], payload.NEOVM_TYPE, k.Acct, 30_000_000))
	d1 := must(c.deployTx(c.neoCodes[1], payload.NEOVM_TYPE, k.Acct, 30_000_001))
	c.neoDel = common.AddressFromVmCode(neoDelContract())
	d2 := must(c.deployTx(neoDelContract(), payload.NEOVM_TYPE, k.Acct, 30_000_002))
	_, e0, err := c.ethTx(c.ethKeys[0], 0, nil, 0, 300000, 0, evmInit(evmRuntimeStore))
	if err != nil {
		return nil, err
	}
	_, e1, err := c.ethTx(c.ethKeys[0], 1, nil, 0, 300000, 0, evmInit(evmRuntimeKill))
	if err != nil {
		return nil, err
	}
	c.evmStore = crypto.CreateAddress(c.ethAddrs[0], 0)
	c.evmKill = crypto.CreateAddress(c.ethAddrs[0], 1)
	var facts []*types.Transaction
	for i, rt := range [][]byte{evmFactoryCreate, evmFactoryCreate2, evmFactoryRevert} {
		_, ft, err := c.ethTx(c.ethKeys[0], uint64(2+i), nil, 0, 300000, 0, evmInit(rt))
		if err != nil {
			return nil, err
		}
		facts = append(facts, ft)
		c.evmFact[i] = crypto.CreateAddress(c.ethAddrs[0], uint64(2+i))
	}
	c.ethNonce[c.ethAddrs[0]] = 5
	if err := c.add(d0, d1, d2, e0, e1, facts[0], facts[1], facts[2]); err != nil {
		return nil, fmt.Errorf("block2: %v", err)
	}
	for i, t := range []*types.Transaction{d0, d1, d2, e0, e1, facts[0], facts[1], facts[2]} {
		if s := c.txState(t); s != 1 {
			c.notes = append(c.notes, fmt.Sprintf("setup: block-2 tx %d state %d", i, s))
		}
	}
	// block 3: give both NeoVM contracts storage, call the EVM store contract
	w0 := must(c.signedInvoke(neoCall(c.neoLive, []byte("k0"), []byte("v0"), false), k.Acct, 0, 100000))
	w1 := must(c.signedInvoke(neoCall(c.neoLive, []byte("k1"), []byte("v1"), false), k.Acct, 0, 100001))
	w2 := must(c.signedInvoke(neoCall(c.neoDead, []byte("k0"), []byte("x0"), false), k.Acct, 0, 100002))
	w3 := must(c.signedInvoke(neoDelCall(c.neoDel, []byte("k0"), []byte("d0"), true), k.Acct, 0, 100004))
	w4 := must(c.signedInvoke(neoDelCall(c.neoDel, []byte("k1"), []byte("d1"), true), k.Acct, 0, 100005))
	var word [32]byte
	word[31] = 0x2a
	_, e2, err := c.ethTx(c.ethKeys[0], 5, &c.evmStore, 0, 100000, 0, word[:])
	if err != nil {
		return nil, err
	}
	c.ethNonce[c.ethAddrs[0]] = 6
	if err := c.add(w0, w1, w2, w3, w4, e2); err != nil {
		return nil, fmt.Errorf("block3: %v", err)
	}
	for i, t := range []*types.Transaction{w0, w1, w2, w3, w4, e2} {
		if s := c.txState(t); s != 1 {
			c.notes = append(c.notes, fmt.Sprintf("setup: block-3 tx %d state %d", i, s))
		}
	}
	// block 4: destroy the second NeoVM contract for real
	x := must(c.signedInvoke(neoCall(c.neoDead, []byte("k9"), []byte("x9"), true), k.Acct, 0, 100003))
	if err := c.add(x); err != nil {
		return nil, fmt.Errorf("block4: %v", err)
	}
	if s := c.txState(x); s != 1 {
		c.notes = append(c.notes, fmt.Sprintf("setup: block-4 destroy state %d", s))
	}
	for i := 0; i < extraBlocks; i++ {
		t := must(k.TransferTx(ledgerkit.OntAddr, c.users[i%3], c.users[(i+1)%3].Address, uint64(1+i), 0, 20000))
		if err := c.add(t); err != nil {
			return nil, fmt.Errorf("extra block: %v", err)
		}
	}
	return c, nil
}

func transferStates(from, to common.Address, v uint64) []*ont.TransferState {
	return []*ont.TransferState{{From: from, To: to, Value: v}}
}
