package c42

import (
	"bytes"
	"fmt"
	"go/ast"
	"go/parser"
	"go/printer"
	"go/token"
	"path/filepath"
	"sort"
	"strings"

	"github.com/ontio/ontology/common/config"
	scom "github.com/ontio/ontology/core/store/common"
	"github.com/ontio/ontology/smartcontract/service/neovm"

	"verif/harness/gen"
)

// The pre-execution entry points (the read-only interfaces of LedgerStoreImp).
var entryPoints = []string{
	"PreExecuteContract", "PreExecuteContractBatch", "PreExecuteContractWithParam",
	"PreExecuteEIP155", "PreExecuteEip155Tx", "TraceEip155Tx",
}

// files of package ledgerstore that are scanned for callee bodies
var pkgFiles = []string{"ledger_store.go", "tx_handler.go", "state_store.go", "block_store.go", "event_store.go", "cross_chain_store.go"}

const pkgDir = "core/store/ledgerstore"

// conversions / builtins that are not calls
var notCalls = map[string]bool{
	"uint8": true, "uint16": true, "uint32": true, "uint64": true, "int": true, "int32": true, "int64": true,
	"byte": true, "string": true, "len": true, "cap": true, "make": true, "append": true, "new": true,
	"copy": true, "delete": true, "panic": true, "[]byte": true,
}

func pr(fset *token.FileSet, n ast.Node) string {
	var b bytes.Buffer
	printer.Fprint(&b, fset, n)
	return strings.Join(strings.Fields(b.String()), " ")
}

type fnInfo struct {
	name  string
	recv  string // receiver variable name ("" for plain functions)
	rtype string // receiver type name
	body  *ast.BlockStmt
	fset  *token.FileSet
}

// rootIdent returns the left-most identifier of a selector / index / star chain.
func rootIdent(e ast.Expr) string {
	for {
		switch x := e.(type) {
		case *ast.Ident:
			return x.Name
		case *ast.SelectorExpr:
			e = x.X
		case *ast.IndexExpr:
			e = x.X
		case *ast.StarExpr:
			e = x.X
		case *ast.ParenExpr:
			e = x.X
		case *ast.CallExpr:
			e = x.Fun
		default:
			return ""
		}
	}
}

// loadPackage parses the scanned files and indexes every function declaration by
// "<ReceiverType>.<Name>" (methods) or "<Name>" (functions); also the imported package names.
func loadPackage(repo string) (map[string]*fnInfo, map[string]bool, []string) {
	fns := map[string]*fnInfo{}
	imports := map[string]bool{}
	var errs []string
	for _, f := range pkgFiles {
		fset := token.NewFileSet()
		af, err := parser.ParseFile(fset, filepath.Join(repo, pkgDir, f), nil, 0)
		if err != nil {
			errs = append(errs, err.Error())
			continue
		}
		for _, im := range af.Imports {
			p := strings.Trim(im.Path.Value, "\"")
			n := p[strings.LastIndex(p, "/")+1:]
			if im.Name != nil {
				n = im.Name.Name
			}
			imports[n] = true
		}
		for _, d := range af.Decls {
			fd, ok := d.(*ast.FuncDecl)
			if !ok || fd.Body == nil {
				continue
			}
			fi := &fnInfo{name: fd.Name.Name, body: fd.Body, fset: fset}
			key := fd.Name.Name
			if fd.Recv != nil && len(fd.Recv.List) == 1 {
				t := fd.Recv.List[0].Type
				if st, ok := t.(*ast.StarExpr); ok {
					t = st.X
				}
				if id, ok := t.(*ast.Ident); ok {
					fi.rtype = id.Name
				}
				if len(fd.Recv.List[0].Names) == 1 {
					fi.recv = fd.Recv.List[0].Names[0].Name
				}
				key = fi.rtype + "." + fd.Name.Name
			}
			fns[key] = fi
		}
	}
	return fns, imports, errs
}

// interfaceMethods parses core/store/store.go and returns the LedgerStore interface's method
// names, split into getters (Get*/Is*/BloomStatus) and the rest.
func interfaceMethods(repo string) (getters, others []string, err error) {
	fset := token.NewFileSet()
	af, e := parser.ParseFile(fset, filepath.Join(repo, "core/store/store.go"), nil, 0)
	if e != nil {
		return nil, nil, e
	}
	found := false
	ast.Inspect(af, func(n ast.Node) bool {
		ts, ok := n.(*ast.TypeSpec)
		if !ok || ts.Name.Name != "LedgerStore" {
			return true
		}
		it, ok := ts.Type.(*ast.InterfaceType)
		if !ok {
			return true
		}
		found = true
		for _, m := range it.Methods.List {
			for _, nm := range m.Names {
				s := nm.Name
				if strings.HasPrefix(s, "Get") || strings.HasPrefix(s, "IsContain") || s == "BloomStatus" {
					getters = append(getters, s)
				} else {
					others = append(others, s)
				}
			}
		}
		return false
	})
	if !found {
		return nil, nil, fmt.Errorf("interface LedgerStore not found in core/store/store.go")
	}
	sort.Strings(getters)
	sort.Strings(others)
	return
}

// fieldType: the struct type behind this.<field> for the receivers we follow.
var fieldType = map[string]string{
	"stateStore": "StateStore", "blockStore": "BlockStore", "eventStore": "EventStore", "crossChainStore": "CrossChainStore",
}

// scan lists, in source order, the calls and the writes to receiver fields / package variables
// made by fn (closures included). Calls on the receiver are rendered "this.<...>".
func scan(fi *fnInfo, imports map[string]bool) (calls []string, resolved []string) {
	locals := map[string]bool{}
	ast.Inspect(fi.body, func(n ast.Node) bool {
		switch x := n.(type) {
		case *ast.AssignStmt:
			if x.Tok == token.DEFINE {
				for _, l := range x.Lhs {
					if id, ok := l.(*ast.Ident); ok {
						locals[id.Name] = true
					}
				}
			}
		case *ast.RangeStmt:
			if x.Tok == token.DEFINE {
				for _, l := range []ast.Expr{x.Key, x.Value} {
					if id, ok := l.(*ast.Ident); ok {
						locals[id.Name] = true
					}
				}
			}
		case *ast.ValueSpec:
			for _, id := range x.Names {
				locals[id.Name] = true
			}
		}
		return true
	})
	norm := func(s string) string {
		if fi.recv != "" && (s == fi.recv || strings.HasPrefix(s, fi.recv+".")) {
			return "this" + s[len(fi.recv):]
		}
		return s
	}
	write := func(lhs ast.Expr) {
		if id, ok := lhs.(*ast.Ident); ok {
			_ = id // plain local or parameter: not ledger state
			return
		}
		if st, ok := lhs.(*ast.StarExpr); ok {
			calls = append(calls, "write:*"+norm(pr(fi.fset, st.X)))
			return
		}
		root := rootIdent(lhs)
		if root == fi.recv && fi.recv != "" {
			calls = append(calls, "write:"+norm(pr(fi.fset, lhs)))
		} else if imports[root] && !locals[root] {
			calls = append(calls, "write:"+pr(fi.fset, lhs))
		}
	}
	ast.Inspect(fi.body, func(n ast.Node) bool {
		switch x := n.(type) {
		case *ast.AssignStmt:
			if x.Tok != token.DEFINE {
				for _, l := range x.Lhs {
					write(l)
				}
			}
		case *ast.IncDecStmt:
			write(x.X)
		case *ast.GoStmt:
			calls = append(calls, "go")
		case *ast.CallExpr:
			name := pr(fi.fset, x.Fun)
			if notCalls[name] {
				return true
			}
			if _, isLit := x.Fun.(*ast.FuncLit); isLit {
				return true
			}
			name = norm(name)
			calls = append(calls, "call:"+name)
			// resolution of same-package callees
			parts := strings.Split(name, ".")
			switch {
			case len(parts) == 1:
				resolved = append(resolved, parts[0])
			case len(parts) == 2 && parts[0] == "this":
				resolved = append(resolved, fi.rtype+"."+parts[1])
			case len(parts) == 3 && parts[0] == "this" && fieldType[parts[1]] != "":
				resolved = append(resolved, fieldType[parts[1]]+"."+parts[2])
			}
		}
		return true
	})
	return
}

func dedupe(l []string) []string {
	seen := map[string]bool{}
	var out []string
	for _, s := range l {
		if !seen[s] {
			seen[s] = true
			out = append(out, s)
		}
	}
	return out
}

func coqStr(s string) string { return "\"" + strings.ReplaceAll(s, "\"", "\"\"") + "\"" }

func coqStrList(l []string, indent string) string {
	var s []string
	for _, x := range l {
		s = append(s, coqStr(x))
	}
	return "[" + strings.Join(s, ";\n"+indent) + "]"
}

// producePreExecGen renders coq/Gen/PreExecGen.v: for every pre-execution entry point the calls
// (and writes to receiver fields / package variables) reachable through functions of package
// ledgerstore, not descending into the getters of the LedgerStore interface; plus the constants
// of the gas computation.
func producePreExecGen(repo string) ([]byte, []string) {
	var b bytes.Buffer
	fmt.Fprintf(&b, "(* GENERATED by harness/drivers/c42/gen.go from %s/*.go and core/store/store.go (go/ast), and by linking\n   /repo's packages for the constants. Do not edit. *)\n", pkgDir)
	fmt.Fprintf(&b, "From Coq Require Import NArith List String.\nImport ListNotations.\nLocal Open Scope string_scope.\n\n")
	fns, imports, errs := loadPackage(repo)
	getters, others, err := interfaceMethods(repo)
	if err != nil {
		errs = append(errs, err.Error())
		fmt.Fprintf(&b, "Definition translator_broken_c42_interface : unit := tt.\n")
		return b.Bytes(), errs
	}
	isGetter := map[string]bool{}
	for _, g := range getters {
		isGetter["LedgerStoreImp."+g] = true
	}
	isGetter["LedgerStoreImp.GetCacheDB"] = false // builds the overlay + cache: followed
	fmt.Fprintf(&b, "(* LedgerStore interface (core/store/store.go): getters, and every other method *)\n")
	fmt.Fprintf(&b, "Definition c42_interface_getters : list string :=\n  %s.\n", coqStrList(getters, "   "))
	fmt.Fprintf(&b, "Definition c42_interface_others : list string :=\n  %s.\n\n", coqStrList(others, "   "))

	type fres struct {
		key   string
		calls []string
	}
	var direct []fres
	var reach [][2]interface{}
	for _, ep := range entryPoints {
		key := "LedgerStoreImp." + ep
		if fns[key] == nil {
			errs = append(errs, "entry point not found: "+ep)
			fmt.Fprintf(&b, "Definition translator_broken_c42_%s : unit := tt.\n", ep)
			continue
		}
		visited := map[string]bool{}
		var all []string
		var order []string
		var visit func(k string, depth int)
		visit = func(k string, depth int) {
			if visited[k] || fns[k] == nil || depth > 6 {
				return
			}
			visited[k] = true
			order = append(order, k)
			calls, res := scan(fns[k], imports)
			all = append(all, calls...)
			found := false
			for _, d := range direct {
				if d.key == k {
					found = true
				}
			}
			if !found {
				direct = append(direct, fres{k, calls})
			}
			for _, r := range res {
				if isGetter[r] {
					continue
				}
				visit(r, depth+1)
			}
		}
		visit(key, 0)
		reach = append(reach, [2]interface{}{ep, dedupe(all)})
		fmt.Fprintf(&b, "(* functions followed from %s: %s *)\n", ep, strings.Join(order, ", "))
	}
	fmt.Fprintf(&b, "\n(* direct calls / writes of every function followed, in source order *)\n")
	fmt.Fprintf(&b, "Definition c42_direct : list (string * list string) := [\n")
	for i, d := range direct {
		sep := ";"
		if i == len(direct)-1 {
			sep = ""
		}
		fmt.Fprintf(&b, " (%s,\n  %s)%s\n", coqStr(d.key), coqStrList(d.calls, "   "), sep)
	}
	fmt.Fprintf(&b, "].\n\n(* per entry point: every call / write reachable (deduplicated, first-occurrence order) *)\n")
	fmt.Fprintf(&b, "Definition c42_reach : list (string * list string) := [\n")
	for i, r := range reach {
		sep := ";"
		if i == len(reach)-1 {
			sep = ""
		}
		fmt.Fprintf(&b, " (%s,\n  %s)%s\n", coqStr(r[0].(string)), coqStrList(r[1].([]string), "   "), sep)
	}
	fmt.Fprintf(&b, "].\n\n")
	fmt.Fprintf(&b, "(* constants of the gas computation (linked values) *)\n")
	fmt.Fprintf(&b, "Definition c42_MIN_TRANSACTION_GAS : N := %d%%N.\n", neovm.MIN_TRANSACTION_GAS)
	fmt.Fprintf(&b, "Definition c42_PER_UNIT_CODE_LEN : N := %d%%N.\n", neovm.PER_UNIT_CODE_LEN)
	fmt.Fprintf(&b, "Definition c42_CONTRACT_CREATE_NAME : string := %s.\n", coqStr(neovm.CONTRACT_CREATE_NAME))
	fmt.Fprintf(&b, "Definition c42_UINT_DEPLOY_CODE_LEN_NAME : string := %s.\n", coqStr(neovm.UINT_DEPLOY_CODE_LEN_NAME))
	fmt.Fprintf(&b, "Definition c42_UINT_INVOKE_CODE_LEN_NAME : string := %s.\n", coqStr(neovm.UINT_INVOKE_CODE_LEN_NAME))
	fmt.Fprintf(&b, "Definition c42_WASM_GAS_FACTOR : string := %s.\n", coqStr(config.WASM_GAS_FACTOR))
	fmt.Fprintf(&b, "(* config.GetGasRoundTuneHeight(3): the solo network the harness runs *)\n")
	fmt.Fprintf(&b, "Definition c42_GAS_ROUND_TUNE_HEIGHT : N := %d%%N.\n", config.GetGasRoundTuneHeight(3))
	fmt.Fprintf(&b, "(* core/store/common data-entry prefixes the CacheDB uses *)\n")
	fmt.Fprintf(&b, "Definition c42_ST_CONTRACT : N := %d%%N.\nDefinition c42_ST_STORAGE : N := %d%%N.\nDefinition c42_ST_DESTROYED : N := %d%%N.\nDefinition c42_ST_ETH_CODE : N := %d%%N.\nDefinition c42_ST_ETH_ACCOUNT : N := %d%%N.\n",
		scom.ST_CONTRACT, scom.ST_STORAGE, scom.ST_DESTROYED, scom.ST_ETH_CODE, scom.ST_ETH_ACCOUNT)
	return b.Bytes(), errs
}

func registerGen() { gen.RegisterFile("PreExecGen.v", producePreExecGen) }
