package c42

import (
	"bytes"
	"encoding/hex"
	"fmt"
	"math/big"
	"math/rand"

	ethcomm "github.com/ethereum/go-ethereum/common"
	ethtypes "github.com/ethereum/go-ethereum/core/types"
	"github.com/ontio/ontology/account"
	"github.com/ontio/ontology/common"
	"github.com/ontio/ontology/core/payload"
	"github.com/ontio/ontology/core/types"
	cutils "github.com/ontio/ontology/core/utils"
	"github.com/ontio/ontology/smartcontract/service/native/global_params"
	"github.com/ontio/ontology/smartcontract/service/native/ont"
	nutils "github.com/ontio/ontology/smartcontract/service/native/utils"

	"verif/harness/ledgerkit"
)

// step is the replayable description of one pre-execution.
type step struct {
	Kind  string `json:"kind"`  // transaction kind (txKinds)
	Entry string `json:"entry"` // entry point (entries)
	A     uint64 `json:"a"`     // kind parameter (amount / key choice / code size ...)
	B     uint64 `json:"b"`     // entry parameter (WasmFactor / atomic / batch size)
}

var neoKinds = []string{
	"ont-transfer", "ont-transfer-unsigned", "ont-transfer-user", "ong-transfer", "ont-approve",
	"ong-transferfrom", "ont-balanceof", "ont-transfer-all", "ong-transfer-all", "ong-transferfrom-all", "ont-approve-zero",
	"neo-delete-first", "neo-delete-missing", "neo-delete-then-put", "neo-put", "neo-put-empty", "neo-destroy", "neo-dead",
	"neo-create", "param-set", "param-snapshot", "param-set-snapshot", "neo-garbage", "neo-empty", "neo-loop", "wasm-invoke",
}
var deployKinds = []string{"deploy-neo", "deploy-wasm", "deploy-neo-wasm-magic"}
var eipKinds = []string{
	"evm-ong-transfer", "evm-store", "evm-kill", "evm-create", "evm-poor", "evm-lowgas",
	"evm-create-fresh", "evm-create-fresh-kill", "evm-create-selfdestruct-init", "evm-create-outofgas",
	"evm-factory-create", "evm-factory-create2", "evm-factory-revert",
	"evm-badnonce", "evm-unknown-sender",
}
var otherKinds = []string{"bad-type"}

var anyEntries = []string{"contract", "param", "batch", "ledger"}
var eipEntries = []string{"contract", "param", "batch", "ledger", "eip155", "msg", "trace"}

func isEip(kind string) bool {
	for _, k := range eipKinds {
		if k == kind {
			return true
		}
	}
	return false
}

func allKinds() []string {
	var l []string
	l = append(l, neoKinds...)
	l = append(l, deployKinds...)
	l = append(l, eipKinds...)
	l = append(l, otherKinds...)
	return l
}

// built is a transaction ready for pre-execution, with what the driver knows about it.
type built struct {
	tx     *types.Transaction
	eth    *ethtypes.Transaction // for EIP-155 kinds
	writes bool                  // the engine writes to its cache when it runs this transaction
}

func (c *chain) nativeRaw(contract common.Address, method string, args []byte, signer *account.Account) (*types.Transaction, error) {
	m := cutils.BuildNativeTransaction(contract, method, args)
	m.GasLimit = 20000
	m.Nonce = uint32(len(args))*31 + uint32(len(method))
	if signer != nil {
		if err := ledgerkit.Sign(m, signer); err != nil {
			return nil, err
		}
	}
	return m.IntoImmutable()
}

// balanceOf reads a native token balance through a balanceOf pre-execution (0 on any error).
func (c *chain) balanceOf(token, who common.Address) uint64 {
	t, err := c.nativeTx(token, "balanceOf", []interface{}{who[:]}, nil)
	if err != nil {
		return 0
	}
	res, err := c.k.Store().PreExecuteContract(t)
	if err != nil || res == nil {
		return 0
	}
	hs, _ := res.Result.(string)
	raw, err := hex.DecodeString(hs)
	if err != nil {
		return 0
	}
	return common.BigIntFromNeoBytes(raw).Uint64()
}

// mkTx builds the transaction of a step. Deterministic in (kind, a) on a given chain.
func (c *chain) mkTx(kind string, a uint64) (*built, error) {
	k := c.k
	r := rand.New(rand.NewSource(int64(a)*7919 + int64(len(kind))))
	user := c.users[a%3]
	other := c.users[(a+1)%3]
	wrap := func(t *types.Transaction, err error, w bool) (*built, error) {
		if err != nil {
			return nil, err
		}
		return &built{tx: t, writes: w}, nil
	}
	eip := func(key int, nonce uint64, to *ethcomm.Address, value int64, gasLimit, gasPrice uint64, data []byte, w bool) (*built, error) {
		e, t, err := c.ethTx(c.ethKeys[key], nonce, to, value, gasLimit, gasPrice, data)
		if err != nil {
			return nil, err
		}
		return &built{tx: t, eth: e, writes: w}, nil
	}
	switch kind {
	case "ont-transfer":
		t, err := k.TransferTx(ledgerkit.OntAddr, k.Acct, user.Address, 1+a%1000, 0, 20000)
		return wrap(t, err, true)
	case "ont-transfer-unsigned":
		t, err := c.nativeTx(ledgerkit.OntAddr, "transfer", []interface{}{transferStates(k.Acct.Address, user.Address, 1+a%1000)}, nil)
		return wrap(t, err, false)
	case "ont-transfer-user":
		t, err := k.TransferTx(ledgerkit.OntAddr, user, other.Address, 1+a%500, 0, 20000)
		return wrap(t, err, true)
	case "ong-transfer":
		t, err := k.TransferTx(ledgerkit.OngAddr, user, other.Address, 1+a%1_000_000, 0, 20000)
		return wrap(t, err, true)
	case "ont-approve":
		t, err := c.nativeTx(ledgerkit.OntAddr, "approve", []interface{}{&ont.TransferState{From: user.Address, To: other.Address, Value: 1 + a%100}}, user)
		return wrap(t, err, true)
	case "ong-transferfrom":
		// within the allowance the bookkeeper approved to users[0] in block 1
		st := ont.NewTransferFromState(c.users[0].Address, k.Acct.Address, other.Address, 1+a%1000)
		t, err := c.nativeTx(ledgerkit.OngAddr, "transferFrom", []interface{}{st}, c.users[0])
		return wrap(t, err, true)
	case "ont-transfer-all":
		// the sender's entire balance: reduceFromBalance deletes the from-key before anything is put
		t, err := k.TransferTx(ledgerkit.OntAddr, user, other.Address, c.balanceOf(ledgerkit.OntAddr, user.Address), 0, 20000)
		return wrap(t, err, true)
	case "ong-transfer-all":
		t, err := k.TransferTx(ledgerkit.OngAddr, user, other.Address, c.balanceOf(ledgerkit.OngAddr, user.Address), 0, 20000)
		return wrap(t, err, true)
	case "ong-transferfrom-all":
		// the entire allowance: fromApprove deletes the approve key
		st := ont.NewTransferFromState(c.users[0].Address, k.Acct.Address, other.Address, 1_000_000_000)
		t, err := c.nativeTx(ledgerkit.OngAddr, "transferFrom", []interface{}{st}, c.users[0])
		return wrap(t, err, true)
	case "ont-approve-zero":
		t, err := c.nativeTx(ledgerkit.OntAddr, "approve", []interface{}{&ont.TransferState{From: user.Address, To: other.Address, Value: 0}}, user)
		return wrap(t, err, true)
	case "neo-delete-first":
		t, err := c.signedInvoke(neoDelCall(c.neoDel, [][]byte{[]byte("k0"), []byte("k1")}[a%2], nil, false), nil, 0, 0)
		return wrap(t, err, true)
	case "neo-delete-missing":
		t, err := c.signedInvoke(neoDelCall(c.neoDel, []byte("nokey"), nil, false), nil, 0, 0)
		return wrap(t, err, true)
	case "neo-delete-then-put":
		code := append(neoDelCall(c.neoDel, []byte("k0"), nil, false), neoDelCall(c.neoDel, []byte("k1"), []byte("again"), true)...)
		t, err := c.signedInvoke(code, nil, 0, 0)
		return wrap(t, err, true)
	case "ont-balanceof":
		t, err := c.nativeTx(ledgerkit.OntAddr, "balanceOf", []interface{}{user.Address[:]}, nil)
		return wrap(t, err, false)
	case "neo-put":
		key := [][]byte{[]byte("k0"), []byte("k1"), []byte("new")}[a%3]
		val := make([]byte, 1+r.Intn(40))
		r.Read(val)
		t, err := c.signedInvoke(neoCall(c.neoLive, key, val, false), nil, 0, 0)
		return wrap(t, err, true)
	case "neo-put-empty":
		t, err := c.signedInvoke(neoCall(c.neoLive, []byte("k0"), nil, false), nil, 0, 0)
		return wrap(t, err, true)
	case "neo-destroy":
		t, err := c.signedInvoke(neoCall(c.neoLive, []byte("k1"), []byte("bye"), true), nil, 0, 0)
		return wrap(t, err, true)
	case "neo-dead":
		t, err := c.signedInvoke(neoCall(c.neoDead, []byte("k0"), []byte("zz"), false), nil, 0, 0)
		return wrap(t, err, false)
	case "neo-create":
		t, err := c.signedInvoke(neoCreate(neoContract(2+int(a%5))), nil, 0, 0)
		return wrap(t, err, true)
	case "param-set":
		ps := []global_params.Param{{Key: "Deploy.Code.Gas", Value: fmt.Sprint(1 + a%999999)}, {Key: "c42", Value: "x"}}
		t, err := c.nativeTx(nutils.ParamContractAddress, "setGlobalParam", []interface{}{ps}, k.Acct)
		return wrap(t, err, true)
	case "param-set-snapshot":
		// one transaction: set a gas parameter, then make it current
		ps := []global_params.Param{{Key: "Deploy.Code.Gas", Value: fmt.Sprint(1 + a%999999)}}
		c1, err := cutils.BuildNativeInvokeCode(nutils.ParamContractAddress, 0, "setGlobalParam", []interface{}{ps})
		if err != nil {
			return nil, err
		}
		c2, err := cutils.BuildNativeInvokeCode(nutils.ParamContractAddress, 0, "createSnapshot", []interface{}{})
		if err != nil {
			return nil, err
		}
		t, err := c.signedInvoke(append(c1, c2...), k.Acct, 0, 20000)
		return wrap(t, err, true)
	case "param-snapshot":
		t, err := c.nativeRaw(nutils.ParamContractAddress, "createSnapshot", []byte{}, k.Acct)
		return wrap(t, err, true)
	case "neo-garbage":
		code := make([]byte, 1+r.Intn(60))
		r.Read(code)
		t, err := c.signedInvoke(code, nil, 0, 0)
		return wrap(t, err, false)
	case "neo-empty":
		t, err := c.signedInvoke([]byte{}, nil, 0, 0)
		return wrap(t, err, false)
	case "neo-loop":
		// put, then JMP -0 forever: runs into the pre-execution step limit after writing
		var b bytes.Buffer
		b.Write(neoCall(c.neoLive, []byte("k0"), []byte("loop"), false))
		b.Write([]byte{0x62, 0x00, 0x00}) // JMP +0
		t, err := c.signedInvoke(b.Bytes(), nil, 0, 0)
		return wrap(t, err, true)
	case "wasm-invoke":
		m := c.k.InvokeTx([]byte{1, 2, 3, byte(a)}, 0, 0)
		m.TxType = types.InvokeWasm
		t, err := m.IntoImmutable()
		return wrap(t, err, false)
	case "deploy-neo":
		code := make([]byte, 1+r.Intn(5000))
		r.Read(code)
		code[0] = 0x51
		t, err := c.deployTx(code, payload.NEOVM_TYPE, nil, a%1000)
		return wrap(t, err, false)
	case "deploy-wasm":
		code := append([]byte{0x00, 0x61, 0x73, 0x6d, 0x01, 0x00, 0x00, 0x00}, make([]byte, r.Intn(100))...)
		t, err := c.deployTx(code, payload.WASMVM_TYPE, nil, a%1000)
		return wrap(t, err, false)
	case "deploy-neo-wasm-magic":
		code := append([]byte{0x00, 0x61, 0x73, 0x6d, 0x01, 0x00, 0x00, 0x00}, make([]byte, r.Intn(100))...)
		t, err := c.deployTx(code, payload.NEOVM_TYPE, nil, a%1000)
		return wrap(t, err, false)
	case "evm-ong-transfer":
		return eip(0, c.ethNonce[c.ethAddrs[0]], &c.ethAddrs[1], int64(1+a%1_000_000), 100000, 500*(a%2), nil, true)
	case "evm-store":
		var w [32]byte
		big.NewInt(int64(a + 1)).FillBytes(w[:])
		return eip(0, c.ethNonce[c.ethAddrs[0]], &c.evmStore, 0, 100000, 0, w[:], true)
	case "evm-kill":
		return eip(0, c.ethNonce[c.ethAddrs[0]], &c.evmKill, 0, 100000, 0, nil, true)
	case "evm-create":
		return eip(1, 0, nil, int64(a%1000), 300000, 0, evmInit(evmRuntimeStore), true)
	case "evm-create-fresh":
		// To == nil, runtime code never stored before
		return eip(int(a%2), c.ethNonce[c.ethAddrs[a%2]], nil, 0, 300000, 0, evmInit(c.freshRuntime(a, false)), true)
	case "evm-create-fresh-kill":
		return eip(0, c.ethNonce[c.ethAddrs[0]], nil, 0, 300000, 0, evmInit(c.freshRuntime(a, true)), true)
	case "evm-create-selfdestruct-init":
		// the init code self-destructs (after a storage write); carries fresh bytes
		init := append([]byte{0x60, 0x05, 0x60, 0x03, 0x55, 0x33, 0xff}, c.freshRuntime(a, false)...)
		return eip(0, c.ethNonce[c.ethAddrs[0]], nil, 0, 300000, 0, init, true)
	case "evm-create-outofgas":
		// enough gas to run the init code, not enough for the code deposit
		return eip(0, c.ethNonce[c.ethAddrs[0]], nil, 0, 53000+22100+2000+uint64(a%3)*1500, 0, evmInit(c.freshRuntime(a, false)), true)
	case "evm-factory-create":
		return eip(0, c.ethNonce[c.ethAddrs[0]], &c.evmFact[0], 0, 300000, 0, evmInit(c.freshRuntime(a, a%2 == 1)), true)
	case "evm-factory-create2":
		return eip(0, c.ethNonce[c.ethAddrs[0]], &c.evmFact[1], 0, 300000, 0, evmInit(c.freshRuntime(a, false)), true)
	case "evm-factory-revert":
		// the child is created, then the factory reverts
		return eip(0, c.ethNonce[c.ethAddrs[0]], &c.evmFact[2], 0, 300000, 0, evmInit(c.freshRuntime(a, false)), true)
	case "evm-poor":
		return eip(1, 0, &c.ethAddrs[0], 1_000_000_000_000, 100000, 0, nil, false)
	case "evm-lowgas":
		return eip(0, c.ethNonce[c.ethAddrs[0]], &c.evmStore, 0, 20000, 0, []byte{1}, false)
	case "evm-badnonce":
		return eip(0, c.ethNonce[c.ethAddrs[0]]+5+a%7, &c.evmStore, 0, 100000, 0, []byte{2}, true)
	case "evm-unknown-sender":
		e, t, err := c.ethTx(keyFromRand(r), 0, &c.evmStore, 0, 100000, 0, []byte{3})
		if err != nil {
			return nil, err
		}
		return &built{tx: t, eth: e, writes: true}, nil
	case "bad-type":
		return &built{tx: &types.Transaction{TxType: types.TransactionType(0x77), Payload: &payload.InvokeCode{Code: []byte{0x51}}}}, nil
	}
	return nil, fmt.Errorf("unknown kind %q", kind)
}
