package c42

import (
	"fmt"
	"math/rand"
	"path/filepath"

	"verif/harness/hx"
)

func init() { registerGen(); hx.Register("C42", Run) }

func Run(x *hx.Ctx) {
	x.CoqModule("Corr.C42")
	r := rand.New(rand.NewSource(x.Rng.Int63()))
	c, err := newChain(filepath.Join(x.OutDir, "chain0"), r, 1)
	if err != nil {
		panic(err)
	}
	defer c.k.Close()
	fmt.Println("notes", c.notes, "height", c.k.Ledger.GetCurrentBlockHeight())
	st := c.k.Store()
	fmt.Println(st.VerifC39StoreDigests())
	t, _ := c.signedInvoke(neoCall(c.neoLive, []byte("k0"), []byte("zz"), false), nil, 0, 0)
	res, err := st.PreExecuteContract(t)
	fmt.Printf("pre neo write: %+v %v\n", res, err)
	t, _ = c.signedInvoke(neoCall(c.neoLive, []byte("k0"), []byte("zz"), true), nil, 0, 0)
	res, err = st.PreExecuteContract(t)
	fmt.Printf("pre neo destroy: %+v %v\n", res, err)
	t, _ = c.signedInvoke(neoCall(c.neoDead, []byte("k0"), []byte("zz"), false), nil, 0, 0)
	res, err = st.PreExecuteContract(t)
	fmt.Printf("pre neo dead: %+v %v\n", res, err)
	t, _ = c.signedInvoke(neoCreate(neoContract(5)), nil, 0, 0)
	res, err = st.PreExecuteContract(t)
	fmt.Printf("pre neo create: %+v %v\n", res, err)
	var word [32]byte
	word[31] = 9
	_, et, err := c.ethTx(c.ethKeys[0], 3, &c.evmStore, 0, 100000, 0, word[:])
	res, err = st.PreExecuteContract(et)
	fmt.Printf("pre evm store: %+v %v\n", res, err)
	_, et, err = c.ethTx(c.ethKeys[0], 3, &c.evmKill, 0, 100000, 0, nil)
	res, err = st.PreExecuteContract(et)
	fmt.Printf("pre evm kill: %+v %v\n", res, err)
	_, et, err = c.ethTx(c.ethKeys[0], 3, &c.ethAddrs[1], 1000, 100000, 500, nil)
	res, err = st.PreExecuteContract(et)
	fmt.Printf("pre evm transfer: %+v %v\n", res, err)
	fmt.Println(st.VerifC39StoreDigests())
}
