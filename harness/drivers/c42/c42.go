// Package c42: pre-execution never changes persisted state.
//
// Builds solo-consensus chains on disk (funded ontology and EVM accounts, two NeoVM contracts --
// one with storage, one destroyed -- and two EVM contracts), then pre-executes generated invoke /
// deploy / EIP-155 transactions (native ONT/ONG transfers, approve, transferFrom, global-parameter
// updates, contract storage writers, contract create and destroy, EVM value transfers, storage
// writers, self-destructs, creations, and failing ones of every kind) through every read-only
// entry point: PreExecuteContract, PreExecuteContractWithParam, PreExecuteContractBatch (atomic or
// not), PreExecuteEIP155, PreExecuteEip155Tx, TraceEip155Tx, and the LedgerStore interface.
//
// Oracle (on the implementation): a component-wise digest (digest.go) taken before and after each
// pre-execution must be identical; after all of them the ledger is closed, reopened (digest equal),
// a block is added, and the result must equal a twin copy of the data directory that never saw a
// pre-execution.
//
// Correspondence (Corr/C42.v): CacheDB histories through GetCacheDB() over the real state store,
// deploy gas, MinGas rounding, batch results, and the "unchanged" verdict of every entry point.
package c42

import (
	"encoding/json"
	"fmt"
	"math/big"
	"math/rand"
	"path/filepath"
	"strings"

	ethtypes "github.com/ethereum/go-ethereum/core/types"
	"github.com/ontio/ontology/common/config"
	"github.com/ontio/ontology/core/payload"
	"github.com/ontio/ontology/core/store/ledgerstore"
	"github.com/ontio/ontology/core/types"
	sstate "github.com/ontio/ontology/smartcontract/states"
	evm2 "github.com/ontio/ontology/vm/evm"

	"verif/harness/hx"
	"verif/harness/ledgerkit"
)

func init() {
	registerGen()
	hx.Register("C42", Run)
}

type replayIn struct {
	Extra   int  `json:"extra"` // extra blocks on the chain
	Step    step `json:"step"`
	Between int  `json:"between,omitempty"` // 0: plain pre-execution; 1/2: between ExecuteBlock and SubmitBlock (1 block / 2 competing blocks)
	// CacheDB session histories: sessions 0..SessUpto-1 generated from SessSeed (session.go)
	SessSeed int64 `json:"sess_seed,omitempty"`
	SessUpto int   `json:"sess_upto,omitempty"`
	// later-blocks scenario: the steps pre-executed before the blocks (later.go)
	Later []step `json:"later,omitempty"`
}

type run struct {
	x         *hx.Ctx
	c         *chain
	idx       int
	extra     int
	probe     *types.Block
	stName    string         // Coq name of the state-store dump of this chain
	pending   *[]pendingCase // buffered correspondence cases (the store definitions must precede the first case)
	seenErr   map[string]bool
	rounds    []roundRec // blocks submitted after the pre-executions (between.go, later.go)
	mainSnaps []snap     // ledger digest after each of them
	flagged   []step     // steps on which the per-step oracle failed (candidate history for later divergences)
}

func firstN(s string, n int) string {
	if len(s) > n {
		return s[:n]
	}
	return s
}

type pendingCase struct {
	term string
	desc interface{}
}

func Run(x *hx.Ctx) {
	x.CoqModule("Corr.C42")
	var pend []pendingCase
	var controls []pendingControl
	var in replayIn
	if x.ReplayInput(&in) {
		if r := newRun(x, 0, in.Extra, &pend); r != nil {
			if pc := r.replay(&in); pc != nil {
				controls = append(controls, *pc)
			}
		}
		compareControls(x, controls)
		flush(x, pend)
		return
	}
	idx := 0
	for _, raw := range x.CorpusInputs() {
		var ci replayIn
		if json.Unmarshal(raw, &ci) == nil {
			if r := newRun(x, idx, ci.Extra, &pend); r != nil {
				if pc := r.replay(&ci); pc != nil {
					controls = append(controls, *pc)
				}
			}
			idx++
		}
	}
	nChains := x.N(2, 6)
	for i := 0; i < nChains; i++ {
		r := newRun(x, idx, i%3, &pend)
		idx++
		if r == nil {
			continue
		}
		if pc := r.everything(); pc != nil {
			controls = append(controls, *pc)
		}
	}
	compareControls(x, controls)
	flush(x, pend)
}

// replay runs one recorded input: a plain pre-execution; a pre-execution between ExecuteBlock and
// SubmitBlock; a list of pre-executions followed by later blocks; or CacheDB session histories.
// Everything but the first ends with later blocks compared against the control process.
func (r *run) replay(in *replayIn) *pendingControl {
	switch {
	case in.SessUpto > 0:
		twinDir, ok := r.makeTwin()
		if !ok {
			return nil
		}
		r.sessions(in.SessSeed, in.SessUpto)
		r.laterBlocks(2)
		r.c.k.Close()
		return &pendingControl{r: r, job: r.controlJobOf(twinDir)}
	case in.Between > 0:
		twinDir, ok := r.makeTwin()
		if !ok {
			return nil
		}
		r.twoPhase(twinDir, in)
		r.laterBlocks(2)
		r.c.k.Close()
		return &pendingControl{r: r, job: r.controlJobOf(twinDir)}
	case len(in.Later) > 0:
		twinDir, ok := r.makeTwin()
		if !ok {
			return nil
		}
		for _, s := range in.Later {
			r.doStep(s)
		}
		r.laterBlocks(4)
		r.c.k.Close()
		return &pendingControl{r: r, job: r.controlJobOf(twinDir)}
	default:
		r.doStep(in.Step)
		r.c.k.Close()
		return nil
	}
}

func flush(x *hx.Ctx, pend []pendingCase) {
	for _, p := range pend {
		x.Case(p.term, p.desc)
	}
}

func (r *run) emit(term string, desc interface{}) {
	*r.pending = append(*r.pending, pendingCase{term, desc})
}

func coqKvs(keys, vals [][]byte) string {
	var s []string
	for i := range keys {
		s = append(s, "("+hx.CoqBytes(keys[i])+", "+hx.CoqBytes(vals[i])+")")
	}
	return "[" + strings.Join(s, ";\n ") + "]"
}

func coqGas() string {
	keys, vals := gasTable()
	var s []string
	for _, k := range keys {
		s = append(s, fmt.Sprintf("(%s, %d)", hx.CoqStr(k), vals[k]))
	}
	return hx.CoqList(s)
}

func newRun(x *hx.Ctx, idx, extra int, pend *[]pendingCase) *run {
	rr := rand.New(rand.NewSource(x.Rng.Int63()))
	dir := filepath.Join(x.OutDir, fmt.Sprintf("chain%d", idx))
	c, err := newChain(dir, rr, extra)
	if err != nil {
		x.Note("chain construction failed: " + err.Error())
		x.Fail("harness:chain-construction", "setup", map[string]int{"chain": idx}, err.Error(), "a chain")
		return nil
	}
	for _, n := range c.notes {
		x.Note(n)
	}
	r := &run{x: x, c: c, idx: idx, extra: extra, pending: pend, seenErr: map[string]bool{}}
	// the probe block: two zero-fee read-only transactions first (their caches commit without
	// having written anything), then a transfer, a contract storage write and an EVM storage write
	r0a, _ := c.nativeTx(ledgerkit.OntAddr, "balanceOf", []interface{}{c.users[1].Address[:]}, nil)
	r0b, _ := c.nativeTx(ledgerkit.OngAddr, "balanceOf", []interface{}{c.users[2].Address[:]}, nil)
	t1, _ := c.k.TransferTx(ledgerkit.OntAddr, c.k.Acct, c.users[0].Address, 3, 0, 20000)
	t2, _ := c.signedInvoke(neoCall(c.neoLive, []byte("k9"), []byte("probe"), false), c.k.Acct, 0, 100000)
	var w [32]byte
	w[31] = 0x99
	_, t3, _ := c.ethTx(c.ethKeys[0], c.ethNonce[c.ethAddrs[0]], &c.evmStore, 0, 100000, 0, w[:])
	probe, err := c.k.MakeBlock([]*types.Transaction{r0a, r0b, t1, t2, t3})
	if err != nil {
		x.Note("probe block: " + err.Error())
	}
	r.probe = probe
	keys, vals := c.k.Store().VerifC42StateDump()
	r.stName = fmt.Sprintf("c42_st_%d", idx)
	x.CoqHeader(fmt.Sprintf("Definition %s : list kv :=\n %s.", r.stName, coqKvs(keys, vals)))
	x.Count(fmt.Sprintf("chain:state-entries:%d", len(keys)/10*10))
	return r
}

// check compares two snapshots and reports every changed component.
func (r *run) check(before, after snap, in interface{}, what string) bool {
	d := before.diff(after)
	if len(d) == 0 {
		return true
	}
	for _, comp := range d {
		r.x.Fail("preexec-changed:"+comp, "a pre-execution leaves every persisted / chain component unchanged ("+what+")",
			in, after[comp], before[comp])
	}
	return false
}

var entryCode = map[string]int{"contract": 0, "ledger": 0, "eip155": 1, "msg": 2, "trace": 2, "param": 4, "batch": 5}

// preExec runs one step's entry point; returns (error text, result gas, number of results).
func (r *run) preExec(s step, b *built) (errText string, res *sstate.PreExecResult, n int) {
	st := r.c.k.Store()
	msgOf := func() (ethtypes.Message, error) {
		signer := ethtypes.NewEIP155Signer(big.NewInt(int64(config.DefConfig.P2PNode.EVMChainId)))
		m, err := b.eth.AsMessage(signer)
		if err != nil {
			return m, err
		}
		return ethtypes.NewMessage(m.From(), m.To(), m.Nonce(), m.Value(), m.Gas(), m.GasPrice(), m.Data(), false), nil
	}
	var err error
	switch s.Entry {
	case "contract":
		res, err = st.PreExecuteContract(b.tx)
	case "ledger":
		res, err = r.c.k.Ledger.PreExecuteContract(b.tx)
	case "param":
		res, err = st.PreExecuteContractWithParam(b.tx, ledgerstore.PrexecuteParam{JitMode: s.B%2 == 1, WasmFactor: s.B, MinGas: s.B%3 == 0})
	case "batch":
		txs := []*types.Transaction{b.tx}
		for i := uint64(0); i < s.B%3; i++ {
			o, e := r.c.mkTx([]string{"ont-transfer", "neo-put", "deploy-neo"}[(s.A+i)%3], s.A+i)
			if e == nil {
				txs = append(txs, o.tx)
			}
		}
		if s.B%5 == 4 {
			txs[0], txs[len(txs)-1] = txs[len(txs)-1], txs[0]
		}
		var rs []*sstate.PreExecResult
		rs, _, err = st.PreExecuteContractBatch(txs, s.B%2 == 0)
		n = len(rs)
		if len(rs) > 0 {
			res = rs[0]
		}
	case "eip155":
		h := st.GetCurrentBlockHeight()
		ctx := ledgerstore.Eip155Context{BlockHash: st.GetBlockHash(h), TxIndex: uint32(s.B % 4), Height: h, Timestamp: uint32(1600000000 + s.B)}
		var er interface{}
		er, _, err = st.PreExecuteEIP155(b.eth, ctx)
		_ = er
	case "msg":
		m, e := msgOf()
		if e != nil {
			return "msg:" + e.Error(), nil, 0
		}
		_, err = st.PreExecuteEip155Tx(m)
	case "trace":
		m, e := msgOf()
		if e != nil {
			return "msg:" + e.Error(), nil, 0
		}
		_, err = r.c.k.Ledger.TraceEip155Tx(m, evm2.NewStructLogger(nil))
	}
	if err != nil {
		errText = err.Error()
	}
	return
}

func (r *run) doStep(s step) {
	x := r.x
	b, err := r.c.mkTx(s.Kind, s.A)
	if err != nil {
		x.Count("build-error:" + s.Kind)
		return
	}
	if !isEip(s.Kind) && (s.Entry == "eip155" || s.Entry == "msg" || s.Entry == "trace") {
		s.Entry = "contract"
	}
	in := replayIn{Extra: r.extra, Step: s}
	before := r.c.takeSnap(r.probe)
	var errText string
	var res *sstate.PreExecResult
	panicked, msg := hx.Recover(func() { errText, res, _ = r.preExec(s, b) })
	x.Eval()
	after := r.c.takeSnap(r.probe)
	x.Count("kind:" + s.Kind)
	x.Count("entry:" + s.Entry)
	if panicked {
		x.Count("outcome:panic")
		x.Fail("preexec-panic:"+s.Kind, "a pre-execution returns a result or an error", in, "panic: "+msg, "no panic")
	} else if errText != "" {
		x.Count("outcome:error")
		x.Count("kind-error:" + s.Kind)
		if x.Quick() && !r.seenErr[s.Kind] {
			r.seenErr[s.Kind] = true
			x.Count("error-text:" + s.Kind + ": " + firstN(errText[max0(len(errText)-110):], 110))
		}
	} else {
		x.Count("outcome:ok")
		x.Count("kind-ok:" + s.Kind)
		if res != nil {
			x.Count(fmt.Sprintf("state:%d", res.State))
			if isEip(s.Kind) {
				x.Count(fmt.Sprintf("evm-state:%s:%d", s.Kind, res.State))
			}
		}
	}
	same := r.check(before, after, in, s.Kind+" via "+s.Entry)
	if !same && len(r.flagged) < 4 {
		r.flagged = append(r.flagged, s)
	}
	if b.writes && errText == "" && !panicked {
		x.Nontrivial(s.Kind + "/" + s.Entry)
		x.Count("writer-succeeded")
	}
	x.Sample(map[string]interface{}{"step": s, "error": errText, "unchanged": same})
	r.emit(fmt.Sprintf("CEntry %d %s %s", entryCode[s.Entry], r.stName, hx.CoqBool(same)), in)
	// deploy gas / MinGas rounding ties
	if s.Entry == "contract" && !panicked {
		r.gasTies(s, b, res, errText, same)
	}
}

// gasTies emits the result-level correspondence cases for a step pre-executed with the default parameters.
func (r *run) gasTies(s step, b *built, res *sstate.PreExecResult, errText string, same bool) {
	st := r.c.k.Store()
	h := st.GetCurrentBlockHeight()
	switch b.tx.TxType {
	case types.Deploy:
		dc := b.tx.Payload.(*payload.DeployCode)
		chk := 0
		if s.Kind == "deploy-wasm" {
			chk = 1
		} else if s.Kind == "deploy-neo-wasm-magic" {
			chk = 2
		}
		var gas uint64
		if res != nil {
			gas = res.Gas
		}
		wf := s.A % 3 * 1000
		before := r.c.takeSnap(nil)
		res2, err2 := st.PreExecuteContractWithParam(b.tx, ledgerstore.PrexecuteParam{WasmFactor: wf, MinGas: true})
		r.x.Eval()
		same2 := len(before.diff(r.c.takeSnap(nil))) == 0
		if err2 == nil {
			gas = res2.Gas
		}
		if (err2 != nil) != (errText != "") {
			r.x.Note("deploy pre-execution error differs between default and explicit parameters: " + s.Kind)
		}
		r.emit(fmt.Sprintf("CDeploy %s %d %d %d %d %s %d %s", coqGas(), h, wf, chk, len(dc.GetRawCode()),
			hx.CoqBool(err2 != nil), gas, hx.CoqBool(same && same2)), replayIn{Extra: r.extra, Step: s})
		r.x.Count("case:deploy-gas")
	case types.InvokeNeo:
		if errText != "" || res == nil {
			return
		}
		before := r.c.takeSnap(nil)
		raw, err := st.PreExecuteContractWithParam(b.tx, ledgerstore.PrexecuteParam{MinGas: false})
		r.x.Eval()
		same2 := len(before.diff(r.c.takeSnap(nil))) == 0
		if err != nil {
			return
		}
		code := b.tx.Payload.(*payload.InvokeCode).Code
		r.emit(fmt.Sprintf("CInvokeGas %s %d %d %d %d %s", coqGas(), h, len(code), raw.Gas, res.Gas, hx.CoqBool(same && same2)),
			replayIn{Extra: r.extra, Step: s})
		r.x.Count("case:invoke-mingas")
	}
}

// batches: PreExecuteContractBatch over deploys (succeed) and bad-type transactions (fail).
func (r *run) batches(n int) {
	st := r.c.k.Store()
	for i := 0; i < n; i++ {
		var kinds []string
		var txs []*types.Transaction
		m := r.x.Intn(5)
		for j := 0; j < m; j++ {
			k := 0
			if r.x.Intn(4) == 0 {
				k = 1
			}
			kinds = append(kinds, fmt.Sprint(k))
			var b *built
			if k == 0 {
				b, _ = r.c.mkTx("deploy-neo", uint64(r.x.Intn(1000)))
			} else {
				b, _ = r.c.mkTx("bad-type", 0)
			}
			txs = append(txs, b.tx)
		}
		atomic := r.x.Intn(2) == 0
		before := r.c.takeSnap(r.probe)
		rs, h, err := st.PreExecuteContractBatch(txs, atomic)
		r.x.Eval()
		after := r.c.takeSnap(r.probe)
		same := r.check(before, after, map[string]interface{}{"batch": kinds, "atomic": atomic}, "batch")
		r.emit(fmt.Sprintf("CBatch %s %d %s %s %s %d %d %s", coqGas(), st.GetCurrentBlockHeight(), hx.CoqList(kinds),
			hx.CoqBool(atomic), hx.CoqBool(err != nil), len(rs), h, hx.CoqBool(same)), map[string]interface{}{"batch": kinds})
		r.x.Count(fmt.Sprintf("batch:len%d", m))
		if err != nil {
			r.x.Count("batch:error")
		}
	}
}

// makeTwin copies the data directory (closed for the copy) before any pre-execution.
func (r *run) makeTwin() (string, bool) {
	x, c := r.x, r.c
	twinDir := filepath.Join(x.OutDir, fmt.Sprintf("twin%d", r.idx))
	c.k.Close()
	if err := ledgerkit.CopyDir(c.k.Dir, twinDir); err != nil {
		x.Note("twin copy failed: " + err.Error())
	}
	if err := c.k.Open(); err != nil {
		x.Fail("harness:reopen", "setup", nil, err.Error(), "reopen")
		return "", false
	}
	return twinDir, true
}

// everything: the whole scenario on one chain.
func (r *run) everything() *pendingControl {
	x := r.x
	c := r.c
	twinDir, ok := r.makeTwin()
	if !ok {
		return nil
	}
	gas0 := gasDigest()
	// every kind through every entry point, then random ones
	var steps []step
	for _, k := range allKinds() {
		ents := anyEntries
		if isEip(k) {
			ents = eipEntries
		}
		for _, e := range ents {
			steps = append(steps, step{Kind: k, Entry: e, A: uint64(x.Intn(1 << 20)), B: uint64(x.Intn(1 << 16))})
		}
	}
	kinds := allKinds()
	for i := 0; i < x.N(40, 400); i++ {
		k := kinds[x.Intn(len(kinds))]
		ents := anyEntries
		if isEip(k) {
			ents = eipEntries
		}
		steps = append(steps, step{Kind: k, Entry: ents[x.Intn(len(ents))], A: uint64(x.Intn(1 << 20)), B: uint64(x.Intn(1 << 16))})
	}
	x.Rng.Shuffle(len(steps), func(i, j int) { steps[i], steps[j] = steps[j], steps[i] })
	for _, s := range steps {
		r.doStep(s)
	}
	r.batches(x.N(12, 60))
	r.sessions(x.Rng.Int63(), x.N(16, 150))

	// restart: the reopened ledger is the ledger from before the pre-executions
	first := c.takeSnap(r.probe)
	c.k.Close()
	if err := c.k.Open(); err != nil {
		x.Fail("preexec-changed:reopen-fails", "the ledger reopens after pre-executions", map[string]int{"chain": r.idx}, err.Error(), "reopen")
		return nil
	}
	reopened := c.takeSnap(r.probe)
	delete(first, "file:wal-sizes") // reopening rotates the write-ahead logs
	delete(reopened, "file:wal-sizes")
	r.check(first, reopened, map[string]interface{}{"chain": r.idx, "phase": "restart after all pre-executions"}, "restart")
	if g := gasDigest(); g != gas0 {
		x.Fail("preexec-changed:global:gas-table", "the gas table after all pre-executions is the one before", map[string]int{"chain": r.idx}, g, gas0)
	}
	// two-phase consensus sequence with pre-executions between ExecuteBlock and SubmitBlock
	// (between.go), then blocks with no pre-execution at all (later.go); the control process
	// replays all of them on the twin directory
	r.twoPhase(twinDir, nil)
	r.laterBlocks(x.N(4, 8))
	c.k.Close()
	return &pendingControl{r: r, job: r.controlJobOf(twinDir)}
}

func max0(n int) int {
	if n < 0 {
		return 0
	}
	return n
}
