package c07

import "verif/harness/hx"

func init() { hx.Register("C07", Run) }

func Run(c *hx.Ctx) {}
