// Package c07 checks property C07 (EVM transactions conserve ONG and advance the sender nonce by
// one) on the real StateStore.HandleEIP155Transaction over a ledgerkit chain:
//   - direct property oracle on the implementation (conservation over ALL ONG balance records of the
//     state, charge bound, nonce step, rejection without state change, frame, exact fee, failed
//     transactions cost the fee only),
//   - the interpreter hypotheses of the Coq theorems (H1 sum, H2 revert, gas, nonce, debit, alive)
//     checked on every observed interpreter invocation,
//   - correspondence cases for Model/EvmEnvelope.v (Corr/C07.v), the interpreter's observed effect
//     supplied as the model's [run].
package c07

import (
	"encoding/json"
	"errors"
	"fmt"
	"math/big"
	"math/rand"
	"sort"

	"github.com/ontio/ontology/common"
	"github.com/ontio/ontology/common/constants"
	sevm "github.com/ontio/ontology/smartcontract/service/evm"

	"verif/harness/hx"
)

func init() { hx.Register("C07", Run) }

const (
	classSelfdestruct = "evm:selfdestruct-to-self-burns-ong"
	classRefundHeight = "evm:refund-height-mints-ong"
	classRepeat       = "evm:selfdestruct-repeat-mints"
)

func mulU(a uint64, b *big.Int) *big.Int { return new(big.Int).Mul(new(big.Int).SetUint64(a), b) }

// judge: oracle + hypotheses + correspondence case for one applied transaction.
func (w *world) judge(sc *Scenario, ti *txInfo, ob *observation) {
	c := w.c
	fail := func(class, clause string, got, want interface{}) {
		c.Fail(class, clause, sc, got, want)
	}
	if ob.panicA != "" {
		fail("evm:handler-panic", "HandleEIP155Transaction panicked", ob.panicA, "no panic")
		return
	}
	kind := "call"
	switch {
	case ti.to == nil:
		kind = "create"
	case ob.pre.hasCode(*ti.to):
		kind = "call-contract"
	default:
		kind = "transfer"
	}
	c.Count("tx:" + kind)
	c.Count(fmt.Sprintf("chain:%d", ti.chain))
	switch {
	case ti.height == uint32(sevm.RefundHeight):
		c.Count("height:refund-height")
	case ti.height >= buyGasFixHeight:
		c.Count("height:>=15380000")
	default:
		c.Count("height:<15380000")
	}

	// ---- A and B must agree (B only adds observation points) ----
	agree := (ob.err == nil) == (ob.errB == nil)
	if agree && ob.err == nil {
		agree = ob.res.UsedGas == ob.resB.UsedGas && errCode(ob.res.Err) == errCode(ob.resB.Err) && dumpsEqual(ob.post, ob.postB)
	}
	if !agree {
		fail("harness:instrumented-path-diverges", "ApplyTransaction with tracer differs from HandleEIP155Transaction",
			fmt.Sprint(ob.err, ob.res), fmt.Sprint(ob.errB, ob.resB))
		return
	}

	from := ti.from
	want := mulU(ti.spec.GasLimit, ti.price)
	have := ob.pre.bal(from)
	adjusted := have.Cmp(want) < 0

	// ---- clause 4: nonce mismatch => error, nothing changed ----
	mismatch := ti.checkNon && ti.nonce != ti.stNonce
	if mismatch {
		c.Count("nonce:mismatch")
		if ob.err == nil {
			fail("evm:nonce-mismatch-accepted", "a transaction whose nonce differs from the account nonce was applied",
				fmt.Sprintf("tx nonce %d state nonce %d: applied", ti.nonce, ti.stNonce), "error")
			return
		}
		wantErr := sevm.ErrNonceTooLow
		code := 2
		if ti.stNonce < ti.nonce {
			wantErr, code = sevm.ErrNonceTooHigh, 1
		}
		if !errors.Is(ob.err, wantErr) {
			fail("evm:nonce-mismatch-wrong-error", "wrong error for a nonce mismatch", ob.err.Error(), wantErr.Error())
		}
		if !dumpsEqual(ob.pre, ob.post) {
			fail("evm:rejected-tx-changed-state", "a rejected transaction changed the state", fmt.Sprint(diffAddrs(ob.pre, ob.post)), "no change")
		}
		if !ob.dbErr {
			fail("evm:rejected-tx-no-overlay-error", "HandleEIP155Transaction did not record the error on the overlay", "nil", "error")
		}
		c.Nontrivial(fmt.Sprintf("rej|%d|%d|%d", ti.chain, ti.nonce, ti.stNonce))
		w.emitTx(sc, ti, ob, fmt.Sprintf("(ObsErr %d)", code), nil)
		return
	}
	if ob.err != nil {
		fail("evm:valid-tx-rejected", "a transaction with the right nonce was rejected", ob.err.Error(), "applied")
		return
	}
	if ob.dbErr {
		fail("evm:storage-error", "overlay error after a successful HandleEIP155Transaction", "error", "nil")
		return
	}
	c.Count("nonce:ok")
	if ti.checkNon {
		c.Count("path:block")
	} else {
		c.Count("path:preexec")
	}
	ec := errCode(ob.res.Err)
	c.Count(fmt.Sprintf("vmerr:%d", ec))
	if adjusted {
		c.Count("buygas:adjusted")
	}

	// ---- what the interpreter did (path B) ----
	ran := ob.tr.ended
	preRun, postRun := ob.spy.preRun, ob.tr.postRun
	if !ran {
		postRun = ob.spy.firstAdd
		if ec >= 100 {
			c.Count("oracle:interpreter-unobserved")
		}
	}
	if preRun == nil || postRun == nil {
		fail("harness:no-observation", "path B made no balance operation", "nil", "buyGas")
		return
	}
	burned := new(big.Int).Sub(preRun.total(), postRun.total()) // > 0: the interpreter destroyed ONG
	selfBurned := new(big.Int)                                  // the part explained by SELFDESTRUCT-to-self

	// ---- interpreter hypotheses, on this invocation ----
	if ran {
		c.Count("run:observed")
		if ob.tr.gasLeft > ob.tr.gasIn {
			fail("evm:interpreter-returns-more-gas", "H_gas: left-over gas exceeds the gas supplied", ob.tr.gasLeft, ob.tr.gasIn)
		}
		// every executed SELFDESTRUCT must leave the contract with a zero ONG balance
		for _, n := range ob.tr.sdLog {
			c.Count("run:selfdestruct")
			if n.repeat {
				c.Count("run:selfdestruct-repeat")
				if n.sdMoved.Sign() > 0 {
					c.Count("run:selfdestruct-repeat-with-balance")
				}
			}
			if n.sdAfter.Sign() != 0 {
				cl, what := "evm:selfdestruct-leaves-balance", "first"
				if n.repeat {
					cl, what = classRepeat, "repeated"
				}
				fail(cl, "a "+what+" SELFDESTRUCT credited the beneficiary but left the contract's ONG balance in place",
					fmt.Sprintf("contract %x balance after %s (moved %s to %x)", n.from[:], n.sdAfter, n.sdMoved, n.to[:]), "0")
			}
		}
		// the only explained change of the sum: SELFDESTRUCTs with beneficiary = executing contract in
		// frames that were not reverted (the effect tree gives the exact amount)
		selfBurned = selfBurn(ob.tr.top, true)
		if selfBurned.Sign() > 0 {
			c.Count("run:selfdestruct-self-burn")
			if ti.chain != constants.EIP155_CHAINID_MAINNET {
				fail(classSelfdestruct, "H1: the interpreter invocation changed the ONG sum (SELFDESTRUCT with beneficiary = self)",
					"sum after run "+postRun.total().String(), "sum before run "+preRun.total().String())
			}
		}
		if burned.Cmp(selfBurned) != 0 {
			fail("evm:interpreter-changes-ong-sum", "H1: the interpreter invocation changed the ONG sum by something other than SELFDESTRUCT-to-self",
				"sum after run "+postRun.total().String(), "sum before run "+preRun.total().String()+" minus "+selfBurned.String()+" burned by SELFDESTRUCT-to-self")
		}
		if postRun.nonce(from) != preRun.nonce(from)+1 {
			fail("evm:interpreter-sender-nonce", "H_nonce: sender nonce after the invocation is not the pre-transaction nonce + 1",
				postRun.nonce(from), preRun.nonce(from)+1)
		}
		if new(big.Int).Add(postRun.bal(from), ti.value).Cmp(preRun.bal(from)) < 0 {
			fail("evm:interpreter-debits-sender", "H_debit: the invocation debited the sender by more than the value",
				postRun.bal(from).String(), preRun.bal(from).String())
		}
		for _, a := range ob.tr.suicided {
			if a == from {
				fail("evm:sender-selfdestructed", "H_alive: the sender is in the suicide set", "suicided", "alive")
			}
		}
		if ob.tr.err != nil {
			c.Count("run:failed")
			bad := ""
			for _, a := range diffAddrs(preRun, postRun) {
				if a == from && postRun.bal(a).Cmp(preRun.bal(a)) == 0 && postRun.Acct[a].CodeHash == preRun.Acct[a].CodeHash {
					continue // the nonce step
				}
				bad += fmt.Sprintf(" %x", a[:])
			}
			if bad != "" || !rawEqual(preRun, postRun) || ob.tr.refund != 0 || len(ob.tr.suicided) != 0 {
				fail("evm:failed-run-left-changes", "H2: a failing invocation left state changes behind",
					fmt.Sprintf("accounts%s rawEqual=%v refund=%d suicided=%d", bad, rawEqual(preRun, postRun), ob.tr.refund, len(ob.tr.suicided)), "as at the snapshot")
			}
		}
	}

	// ---- clause 1: ONG sum over ALL balance records ----
	delta := new(big.Int).Sub(ob.post.total(), ob.pre.total())
	expect := new(big.Int).Neg(burned)
	mint := adjusted && ti.height == uint32(sevm.RefundHeight)
	if mint {
		expect.Add(expect, sevm.RefundValue)
		c.Count("gasfee:compensation-paid")
	}
	dusty := adjusted && ti.chain == constants.EIP155_CHAINID_MAINNET && ti.height < buyGasFixHeight
	if dusty {
		dust := new(big.Int).Mod(have, ti.price)
		expect.Sub(expect, dust)
		if dust.Sign() != 0 {
			c.Count("buygas:mainnet-dust-kept")
		}
	}
	if delta.Cmp(expect) != 0 {
		fail("evm:ong-accounting", "the change of the ONG sum is not (compensation - dust - burned by the interpreter)", delta.String(), expect.String())
	}
	if ti.chain != constants.EIP155_CHAINID_MAINNET && delta.Sign() != 0 {
		// explained parts: the compensation payment (known class) and the SELFDESTRUCT-to-self burn
		// (known class, reported above with its positive evidence); anything left is unexplained
		resid := new(big.Int).Add(delta, selfBurned)
		if mint {
			resid.Sub(resid, sevm.RefundValue)
			fail(classRefundHeight, "ONG sum changed on a non-mainnet chain id (handleGasFee at RefundHeight)", delta.String(), "0")
		}
		if resid.Sign() != 0 {
			fail("evm:ong-total-changed", "ONG sum changed on a non-mainnet chain id", delta.String(), "0")
		}
	}

	// ---- clause 2: charge bound ----
	paid := new(big.Int).Sub(ob.pre.bal(from), ob.post.bal(from))
	bound := new(big.Int).Add(want, ti.value)
	if paid.Cmp(bound) > 0 {
		fail("evm:sender-overcharged", "sender paid more than gasLimit*gasPrice + value", paid.String(), bound.String())
	}
	// ---- clause 3: nonce + 1, success or failure ----
	if ob.post.nonce(from) != ob.pre.nonce(from)+1 {
		fail("evm:nonce-step", "sender nonce did not advance by exactly one", ob.post.nonce(from), ob.pre.nonce(from)+1)
	}
	// ---- frame: outside the interpreter only sender and fee receiver move ----
	for _, a := range diffAddrs(ob.pre, ob.post) {
		if a == from || a == feeReceiver {
			continue
		}
		if ob.post.bal(a).Cmp(postRun.bal(a)) != 0 || preRun.bal(a).Cmp(ob.pre.bal(a)) != 0 {
			fail("evm:envelope-touches-third-party", "a balance other than sender / fee receiver changed outside the interpreter",
				fmt.Sprintf("%x: %s -> %s", a[:], ob.pre.bal(a), ob.post.bal(a)), "only inside the interpreter")
		}
	}
	// ---- exact fee ----
	fee := mulU(ob.res.UsedGas, ti.price)
	if ob.res.UsedGas > ti.spec.GasLimit {
		fail("evm:used-gas-exceeds-limit", "UsedGas > gas limit", ob.res.UsedGas, ti.spec.GasLimit)
	}
	if from != feeReceiver {
		got := new(big.Int).Sub(ob.post.bal(feeReceiver), postRun.bal(feeReceiver))
		if got.Cmp(fee) != 0 {
			fail("evm:fee-not-used-gas-times-price", "fee receiver was not paid UsedGas*gasPrice", got.String(), fee.String())
		}
	}
	// ---- failed transactions cost the fee and change nothing else ----
	if ob.res.Err != nil {
		for _, a := range diffAddrs(ob.pre, ob.post) {
			if a == from || a == feeReceiver {
				continue
			}
			fail("evm:failed-tx-changed-state", "a failed transaction changed a third account", fmt.Sprintf("%x", a[:]), "unchanged")
		}
		if !rawEqual(ob.pre, ob.post) {
			fail("evm:failed-tx-changed-state", "a failed transaction changed contract storage", "changed", "unchanged")
		}
		if !mint && !dusty && from != feeReceiver && paid.Cmp(fee) != 0 {
			fail("evm:failed-tx-charge", "a failed transaction did not cost exactly UsedGas*gasPrice", paid.String(), fee.String())
		}
	}
	if ec != 0 || adjusted || kind != "transfer" {
		c.Nontrivial(fmt.Sprintf("tx|%s|%d|%d|%v|%s|%d|%s|%s", kind, ti.chain, ec, adjusted, ti.spec.To, ti.spec.GasLimit, ti.spec.Value, ti.spec.Data))
	}
	fl := "None"
	if ec != 0 {
		fl = fmt.Sprintf("(Some %d)", ec)
	}
	w.emitTx(sc, ti, ob, fmt.Sprintf("(ObsOk %d %s)", ob.res.UsedGas, fl), postRun)
}

// ---------- correspondence cases ----------

func (w *world) acctList(d *dump, set []common.Address) string {
	var items []string
	for _, a := range set {
		items = append(items, fmt.Sprintf("(mkA %d %s %d %s)", w.id(a), d.bal(a).String(), d.nonce(a), hx.CoqBool(d.hasCode(a))))
	}
	return hx.CoqList(items)
}

// acctListDiff lists only the accounts of set whose record in d differs from the one in base.
func (w *world) acctListDiff(d, base *dump, set []common.Address, always map[common.Address]bool) string {
	var items []string
	for _, a := range set {
		if !always[a] && d.bal(a).Cmp(base.bal(a)) == 0 && d.Acct[a] == base.Acct[a] {
			continue
		}
		items = append(items, fmt.Sprintf("(mkA %d %s %d %s)", w.id(a), d.bal(a).String(), d.nonce(a), hx.CoqBool(d.hasCode(a))))
	}
	return hx.CoqList(items)
}

func (w *world) emitTx(sc *Scenario, ti *txInfo, ob *observation, obs string, postRun *dump) {
	set := map[common.Address]bool{ti.from: true, feeReceiver: true}
	if ti.to != nil {
		set[*ti.to] = true
	}
	add := func(x, y *dump) {
		if x == nil || y == nil {
			return
		}
		for _, a := range diffAddrs(x, y) {
			set[a] = true
		}
	}
	add(ob.pre, ob.post)
	if ob.spy != nil {
		add(ob.pre, ob.spy.preRun)
		add(ob.spy.preRun, postRun)
		add(postRun, ob.post)
	}
	if ob.tr != nil {
		for _, a := range ob.tr.suicided {
			set[a] = true
		}
	}
	var accts []common.Address
	for a := range set {
		accts = append(accts, a)
	}
	sort.Slice(accts, func(i, j int) bool { return w.id(accts[i]) < w.id(accts[j]) })

	to := "None"
	if ti.to != nil {
		to = fmt.Sprintf("(Some %d)", w.id(*ti.to))
	}
	msg := fmt.Sprintf("(mkMsg %d %s %d %s %d %s %s %s)", w.id(ti.from), to, ti.nonce, ti.price.String(), ti.spec.GasLimit,
		ti.value.String(), hx.CoqBytes(ti.data), hx.CoqBool(ti.checkNon))
	oracle := "NoRun"
	if ob.err == nil {
		ec := errCode(ob.res.Err)
		switch {
		case ob.tr.ended:
			re := "None"
			if ob.tr.err != nil {
				re = fmt.Sprintf("(Some %d)", runErrCode(ob.tr.err))
			}
			var su []string
			always := map[common.Address]bool{}
			for _, a := range ob.tr.suicided {
				su = append(su, fmt.Sprint(w.id(a)))
				always[a] = true
			}
			oracle = fmt.Sprintf("(Ran %s %d %s %d %d %s %s %s)", hx.CoqBool(ob.tr.create), ob.tr.gasIn, ob.spy.preRun.bal(ti.from).String(),
				ob.tr.gasLeft, ob.tr.refund, re, w.acctListDiff(postRun, ob.spy.preRun, accts, always), hx.CoqList(su))
		case ec >= 100:
			w.c.Count("case:skipped-unobserved-run")
			return
		}
	}
	term := fmt.Sprintf("(CTx %d %d %d %s %s %s %s %s)", ti.chain, ti.height, w.id(feeReceiver), w.acctList(ob.pre, accts), msg, oracle, obs,
		w.acctListDiff(ob.post, ob.pre, accts, nil))
	w.c.Case(term, sc)
	w.c.Sample(map[string]interface{}{"scenario": sc, "observed": obs})

	// effect-tree correspondence (Model/EvmFrames.v): the tree recorded by the tracer, run by the
	// model from the state after buyGas, must give the state observed when the interpreter returned
	if ob.err == nil && ob.tr.ended && ob.tr.top != nil && effSize(ob.tr.top) <= 400 {
		tset := map[common.Address]bool{}
		for _, a := range accts {
			tset[a] = true
		}
		effAddrs(ob.tr.top, tset)
		var all []common.Address
		for a := range tset {
			all = append(all, a)
		}
		sort.Slice(all, func(i, j int) bool { return w.id(all[i]) < w.id(all[j]) })
		var su []string
		always := map[common.Address]bool{}
		for _, a := range ob.tr.suicided {
			su = append(su, fmt.Sprint(w.id(a)))
			always[a] = true
		}
		top := ob.tr.top
		var sdl []string
		for _, n := range ob.tr.sdLog {
			sdl = append(sdl, fmt.Sprintf("(%d, %s, %s)", w.id(n.from), n.sdMoved.String(), n.sdAfter.String()))
		}
		w.c.Case(fmt.Sprintf("(CTree %d %s %d %s %d %s %s %s %s %s %s)", ti.height, w.acctList(ob.spy.preRun, all), w.id(ti.from),
			hx.CoqBool(ob.tr.create), w.id(top.to), top.value.String(), hx.CoqBool(top.ok), w.coqEffects(top.body),
			w.acctListDiff(postRun, ob.spy.preRun, all, always), hx.CoqList(su), hx.CoqList(sdl)), sc)
		w.c.Count("case:effect-tree")
		if effSize(top) > 1 {
			w.c.Count("case:effect-tree-nested")
		}
	}

	// SELFDESTRUCT correspondence: a direct call of one of the three one-instruction library contracts
	if ob.err == nil && ob.tr.ended && ob.tr.err == nil && ti.to != nil && ob.tr.sdAny {
		for i, l := range w.lib[:7] {
			if l.Addr != *ti.to {
				continue
			}
			var ben common.Address
			switch i {
			case 4:
				ben = w.plain[0]
			case 5:
				ben = l.Addr
			case 6:
				ben = ti.from
			default:
				continue
			}
			all := append([]common.Address{}, accts...)
			if !set[ben] {
				all = append(all, ben)
			}
			var su []string
			for _, a := range ob.tr.suicided {
				su = append(su, fmt.Sprint(w.id(a)))
			}
			w.c.Case(fmt.Sprintf("(CSuicide %s %d %d %s %d %s %s)", w.acctList(ob.spy.preRun, all), w.id(ti.from), w.id(*ti.to), ti.value.String(),
				w.id(ben), w.acctList(postRun, all), hx.CoqList(su)), sc)
			w.c.Count("case:selfdestruct")
		}
	}
}

// ---------- deterministic probes (the witnesses of Props/C07.v, replayed on the implementation) ----------

func (w *world) probes(libSeed int64) []*Scenario {
	price := uint64(2500)
	wei := new(big.Int).Mul(big.NewInt(2500), big.NewInt(constants.GWei))
	short := new(big.Int).Add(new(big.Int).Mul(big.NewInt(30000), wei), big.NewInt(5)).String()
	return []*Scenario{
		{LibSeed: libSeed, ChainID: constants.EIP155_CHAINID_POLARIS, Height: 100, Note: "c07_refuted_by_selfdestruct_self",
			Pre: []PreOp{{"s3", "1000000000000000000"}, {"l5", "5000"}},
			Txs: []TxSpec{{From: 3, PriceGwei: price, GasLimit: 100000, Value: "7", To: "l5"}}},
		{LibSeed: libSeed, ChainID: constants.EIP155_CHAINID_POLARIS, Height: uint32(sevm.RefundHeight), Note: "c07_refuted_at_refund_height",
			Pre: []PreOp{{"s3", short}},
			Txs: []TxSpec{{From: 3, PriceGwei: price, GasLimit: 100000, Value: "0", To: "p3"}}},
		{LibSeed: libSeed, ChainID: constants.EIP155_CHAINID_MAINNET, Height: 100, Note: "c07_mainnet_dust_burned",
			Pre: []PreOp{{"s3", short}},
			Txs: []TxSpec{{From: 3, PriceGwei: price, GasLimit: 100000, Value: "0", To: "p3"}}},
		{LibSeed: libSeed, ChainID: constants.EIP155_CHAINID_POLARIS, Height: 100, Note: "c07_nonvacuous",
			Pre: []PreOp{{"s3", "1000000000000000000"}, {"p3", "40"}},
			Txs: []TxSpec{{From: 3, PriceGwei: price, GasLimit: 30000, Value: "12345", To: "p3"}}},
		// SELFDESTRUCT to self inside a constructor (endowment burned) and through a nested call
		{LibSeed: libSeed, ChainID: constants.EIP155_CHAINID_POLARIS, Height: 100, Note: "constructor selfdestructs to itself",
			Txs: []TxSpec{{From: 0, PriceGwei: price, GasLimit: 200000, Value: "1000", To: "", Data: hx.Hex(codeSelfdestructSelf())}}},
		{LibSeed: libSeed, ChainID: constants.EIP155_CHAINID_POLARIS, Height: 100, Note: "nested call into sd_self",
			Txs: []TxSpec{{From: 0, PriceGwei: price, GasLimit: 200000, Value: "900", To: "l12"}}},
		// SELFDESTRUCT to another address conserves
		{LibSeed: libSeed, ChainID: constants.EIP155_CHAINID_POLARIS, Height: 100, Note: "sd_other",
			Pre: []PreOp{{"l4", "777"}},
			Txs: []TxSpec{{From: 0, PriceGwei: price, GasLimit: 200000, Value: "5", To: "l4"}}},
		// SELFDESTRUCT(ADDRESS) run by DELEGATECALL in the caller's context: the CALLER's balance burns
		{LibSeed: libSeed, ChainID: constants.EIP155_CHAINID_POLARIS, Height: 100, Note: "delegatecall into sd_self",
			Pre: []PreOp{{"l17", "4242"}},
			Txs: []TxSpec{{From: 0, PriceGwei: price, GasLimit: 200000, Value: "11", To: "l17"}}},
		// CALLCODE into sd_other (beneficiary another address: conserved), STATICCALL into sd_self (refused)
		{LibSeed: libSeed, ChainID: constants.EIP155_CHAINID_POLARIS, Height: 100, Note: "callcode / staticcall / create2 / delegated forward",
			Pre: []PreOp{{"l18", "999"}, {"l19", "555"}},
			Txs: []TxSpec{{From: 0, PriceGwei: price, GasLimit: 200000, Value: "3", To: "l18"},
				{From: 0, PriceGwei: price, GasLimit: 200000, Value: "0", To: "l19"},
				{From: 0, PriceGwei: price, GasLimit: 200000, Value: "17", To: "l20"},
				{From: 0, PriceGwei: price, GasLimit: 200000, Value: "17", To: "l20"}, // same salt again: address collision
				{From: 0, PriceGwei: price, GasLimit: 200000, Value: "23", To: "l21"}}},
		// the same victim (beneficiary = another account) self-destructs twice / three times in one
		// transaction and receives value in between; also through a reverted frame and after CREATE
		{LibSeed: libSeed, ChainID: constants.EIP155_CHAINID_POLARIS, Height: 100, Note: "repeated SELFDESTRUCT (0,v) (v,0) (v,w) (0,v,w)",
			Pre: []PreOp{{"l24", "5000"}, {"l25", "5000"}, {"l4", "31"}},
			Txs: []TxSpec{{From: 0, PriceGwei: price, GasLimit: 300000, Value: "500", To: "l22"},
				{From: 0, PriceGwei: price, GasLimit: 300000, Value: "500", To: "l23"},
				{From: 0, PriceGwei: price, GasLimit: 300000, Value: "500", To: "l24"},
				{From: 0, PriceGwei: price, GasLimit: 300000, Value: "500", To: "l25"}}},
		{LibSeed: libSeed, ChainID: constants.EIP155_CHAINID_POLARIS, Height: 100, Note: "repeated SELFDESTRUCT around a reverted frame; after CREATE; beneficiary a contract",
			Txs: []TxSpec{{From: 0, PriceGwei: price, GasLimit: 400000, Value: "600", To: "l27"},
				{From: 0, PriceGwei: price, GasLimit: 400000, Value: "600", To: "l28"},
				{From: 0, PriceGwei: price, GasLimit: 400000, Value: "600", To: "l29"},
				{From: 0, PriceGwei: price, GasLimit: 400000, Value: "600", To: "l30"},
				{From: 0, PriceGwei: price, GasLimit: 400000, Value: "600", To: "l31"}}},
		// storage refund: set then clear
		{LibSeed: libSeed, ChainID: constants.EIP155_CHAINID_POLARIS, Height: 100, Note: "sstore refund",
			Txs: []TxSpec{{From: 0, PriceGwei: price, GasLimit: 100000, Value: "0", To: "l10", Data: "01"},
				{From: 0, PriceGwei: price, GasLimit: 100000, Value: "0", To: "l10"}}},
	}
}

func Run(c *hx.Ctx) {
	c.CoqModule("Corr.C07")
	libSeed := c.Seed
	var replay Scenario
	isReplay := c.ReplayInput(&replay)
	if isReplay {
		libSeed = replay.LibSeed
	}
	w, err := newWorld(c)
	if err != nil {
		panic(err)
	}
	defer w.close()
	if err := w.buildBase(libSeed); err != nil {
		c.Fail("harness:base-chain", "could not build the base chain", nil, err.Error(), "ok")
		return
	}
	if isReplay {
		w.runScenario(&replay)
		return
	}
	for _, raw := range c.CorpusInputs() {
		var sc Scenario
		if json.Unmarshal(raw, &sc) == nil && sc.LibSeed == libSeed {
			w.runScenario(&sc)
		}
	}
	for _, sc := range w.probes(libSeed) {
		w.runScenario(sc)
	}
	g := &generator{r: rand.New(rand.NewSource(c.Rng.Int63())), w: w}
	n := c.N(130, 1500)
	for i := 0; i < n; i++ {
		sc := g.scenario()
		sc.LibSeed = libSeed
		w.runScenario(sc)
	}
}
