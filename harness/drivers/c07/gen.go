package c07

// Translator part of C07: the integer / big.Int formulas and branch conditions of
// smartcontract/service/evm/state_transition.go are read from the current source with go/ast and
// printed as Gallina (coq/Gen/EvmEnvelopeGen.v); constants are printed from the linked packages.
// Model/EvmEnvelope.v is written in terms of these definitions, so the theorems of Props/C07.v are
// re-checked against what the source says on every run. Fail closed: a site that is missing or has
// a shape outside the fragment yields `translator_broken_<name>` and no definition.

import (
	"bytes"
	"fmt"
	"go/ast"
	"go/parser"
	"go/printer"
	"go/token"
	"math/big"
	"path/filepath"
	"sort"
	"strings"

	"github.com/ontio/ontology/common/constants"
	sevm "github.com/ontio/ontology/smartcontract/service/evm"
	"github.com/ontio/ontology/vm/evm/params"

	"verif/harness/gen"
)

const stFile = "smartcontract/service/evm/state_transition.go"
const svcEvmFile = "smartcontract/service/evm/evm.go"

func init() { gen.RegisterFile("EvmEnvelopeGen.v", produceEnvelopeGen) }

func pnode(fset *token.FileSet, n ast.Node) string {
	var b bytes.Buffer
	printer.Fprint(&b, fset, n)
	return b.String()
}

type site struct {
	name   string
	file   string
	fn     string
	loc    string // assign:<var>#k | ifcond#k | return#k | callarg:<fn>:<idx>#k
	boolean bool
	vars   []string          // Coq parameters in order, "x" (N) or "x:bool"
	subst  map[string]string // printed Go expression -> Coq term
}

const two64 = "18446744073709551616"

// isBigRecv recognises `new(big.Int)` and `big.NewInt(0)` (a fresh big.Int used as receiver).
func isBigRecv(fset *token.FileSet, e ast.Expr) bool {
	s := pnode(fset, e)
	return s == "new(big.Int)" || s == "big.NewInt(0)"
}

// numExpr translates the supported numeric fragment to an N-valued Coq term.
// Go operators (+ - * /) only exist on the uint64 operands here, so they wrap modulo 2^64.
func numExpr(fset *token.FileSet, e ast.Expr, subst map[string]string) (string, error) {
	if v, ok := subst[pnode(fset, e)]; ok {
		return v, nil
	}
	switch x := e.(type) {
	case *ast.ParenExpr:
		return numExpr(fset, x.X, subst)
	case *ast.BasicLit:
		if x.Kind == token.INT {
			v, ok := new(big.Int).SetString(x.Value, 0)
			if !ok {
				return "", fmt.Errorf("literal %s", x.Value)
			}
			return v.String(), nil
		}
	case *ast.BinaryExpr:
		l, err := numExpr(fset, x.X, subst)
		if err != nil {
			return "", err
		}
		r, err := numExpr(fset, x.Y, subst)
		if err != nil {
			return "", err
		}
		switch x.Op {
		case token.ADD:
			return "((" + l + " + " + r + ") mod " + two64 + ")", nil
		case token.SUB:
			return "((" + l + " + " + two64 + " - " + r + ") mod " + two64 + ")", nil
		case token.MUL:
			return "((" + l + " * " + r + ") mod " + two64 + ")", nil
		case token.QUO:
			return "(" + l + " / " + r + ")", nil
		}
	case *ast.CallExpr:
		sel, ok := x.Fun.(*ast.SelectorExpr)
		if !ok {
			break
		}
		switch sel.Sel.Name {
		case "Mul", "Add", "Div":
			if len(x.Args) == 2 && isBigRecv(fset, sel.X) {
				l, err := numExpr(fset, x.Args[0], subst)
				if err != nil {
					return "", err
				}
				r, err := numExpr(fset, x.Args[1], subst)
				if err != nil {
					return "", err
				}
				op := map[string]string{"Mul": "*", "Add": "+", "Div": "/"}[sel.Sel.Name]
				return "(" + l + " " + op + " " + r + ")", nil
			}
		case "SetUint64":
			if len(x.Args) == 1 && isBigRecv(fset, sel.X) {
				return numExpr(fset, x.Args[0], subst)
			}
		case "Uint64":
			if len(x.Args) == 0 {
				a, err := numExpr(fset, sel.X, subst)
				if err != nil {
					return "", err
				}
				return "(" + a + " mod " + two64 + ")", nil
			}
		}
	}
	return "", fmt.Errorf("unsupported numeric expression %q", pnode(fset, e))
}

func cmpTerm(op token.Token, l, r string) (string, error) {
	switch op {
	case token.LSS:
		return "(" + l + " <? " + r + ")", nil
	case token.GTR:
		return "(" + r + " <? " + l + ")", nil
	case token.LEQ:
		return "(" + l + " <=? " + r + ")", nil
	case token.GEQ:
		return "(" + r + " <=? " + l + ")", nil
	case token.EQL:
		return "(" + l + " =? " + r + ")", nil
	case token.NEQ:
		return "(negb (" + l + " =? " + r + "))", nil
	}
	return "", fmt.Errorf("unsupported comparison %s", op)
}

// boolExpr translates || && ! comparisons, `a.Cmp(b) <op> 0` and `a.Sign() > 0`.
func boolExpr(fset *token.FileSet, e ast.Expr, subst map[string]string) (string, error) {
	if v, ok := subst[pnode(fset, e)]; ok {
		return v, nil
	}
	switch x := e.(type) {
	case *ast.ParenExpr:
		return boolExpr(fset, x.X, subst)
	case *ast.UnaryExpr:
		if x.Op == token.NOT {
			a, err := boolExpr(fset, x.X, subst)
			if err != nil {
				return "", err
			}
			return "(negb " + a + ")", nil
		}
	case *ast.BinaryExpr:
		switch x.Op {
		case token.LOR, token.LAND:
			l, err := boolExpr(fset, x.X, subst)
			if err != nil {
				return "", err
			}
			r, err := boolExpr(fset, x.Y, subst)
			if err != nil {
				return "", err
			}
			if x.Op == token.LOR {
				return "(" + l + " || " + r + ")", nil
			}
			return "(" + l + " && " + r + ")", nil
		case token.LSS, token.GTR, token.LEQ, token.GEQ, token.EQL, token.NEQ:
			// a.Cmp(b) <op> 0   and   a.Sign() <op> 0
			if lit, ok := x.Y.(*ast.BasicLit); ok && lit.Value == "0" {
				if ce, ok := x.X.(*ast.CallExpr); ok {
					if sel, ok := ce.Fun.(*ast.SelectorExpr); ok {
						if sel.Sel.Name == "Cmp" && len(ce.Args) == 1 {
							l, err := numExpr(fset, sel.X, subst)
							if err != nil {
								return "", err
							}
							r, err := numExpr(fset, ce.Args[0], subst)
							if err != nil {
								return "", err
							}
							return cmpTerm(x.Op, l, r)
						}
						if sel.Sel.Name == "Sign" && len(ce.Args) == 0 {
							l, err := numExpr(fset, sel.X, subst)
							if err != nil {
								return "", err
							}
							return cmpTerm(x.Op, l, "0")
						}
					}
				}
			}
			l, err := numExpr(fset, x.X, subst)
			if err != nil {
				return "", err
			}
			r, err := numExpr(fset, x.Y, subst)
			if err != nil {
				return "", err
			}
			return cmpTerm(x.Op, l, r)
		}
	}
	return "", fmt.Errorf("unsupported boolean expression %q", pnode(fset, e))
}

func findFn(f *ast.File, name string) *ast.FuncDecl {
	for _, d := range f.Decls {
		if fd, ok := d.(*ast.FuncDecl); ok && fd.Name.Name == name && fd.Body != nil {
			return fd
		}
	}
	return nil
}

func locateSite(fset *token.FileSet, fd *ast.FuncDecl, loc string) (ast.Expr, error) {
	k := 0
	if i := strings.LastIndex(loc, "#"); i >= 0 {
		fmt.Sscanf(loc[i+1:], "%d", &k)
		loc = loc[:i]
	}
	parts := strings.Split(loc, ":")
	var found []ast.Expr
	ast.Inspect(fd.Body, func(n ast.Node) bool {
		switch s := n.(type) {
		case *ast.AssignStmt:
			if parts[0] == "assign" && len(s.Lhs) == len(s.Rhs) {
				for i, l := range s.Lhs {
					if id, ok := l.(*ast.Ident); ok && id.Name == parts[1] {
						found = append(found, s.Rhs[i])
					}
				}
			}
		case *ast.IfStmt:
			if parts[0] == "ifcond" {
				found = append(found, s.Cond)
			}
		case *ast.ReturnStmt:
			if parts[0] == "return" && len(s.Results) > 0 {
				found = append(found, s.Results[0])
			}
		case *ast.CallExpr:
			if parts[0] == "callarg" {
				var idx int
				fmt.Sscanf(parts[2], "%d", &idx)
				name := pnode(fset, s.Fun)
				if (name == parts[1] || strings.HasSuffix(name, "."+parts[1])) && idx < len(s.Args) {
					found = append(found, s.Args[idx])
				}
			}
		}
		return true
	})
	if k >= len(found) {
		return nil, fmt.Errorf("locator %q: %d matches, wanted #%d", loc, len(found), k)
	}
	return found[k], nil
}

func sites() []site {
	price := "st.gasPrice"
	return []site{
		// buyGas
		{name: "buygas_want", fn: "buyGas", loc: "assign:mgval#0", vars: []string{"gas", "price"},
			subst: map[string]string{"gas": "gas", price: "price"}},
		{name: "buygas_short", fn: "buyGas", loc: "ifcond#0", boolean: true, vars: []string{"have", "want"},
			subst: map[string]string{"have": "have", "want": "want"}},
		{name: "buygas_short_cost_old", fn: "buyGas", loc: "assign:mgval#1", vars: []string{"have"},
			subst: map[string]string{"have": "have"}},
		{name: "buygas_short_gas", fn: "buyGas", loc: "assign:gas#1", vars: []string{"have", "price"},
			subst: map[string]string{"have": "have", price: "price"}},
		{name: "buygas_fixed", fn: "buyGas", loc: "ifcond#1", boolean: true, vars: []string{"chain", "height"},
			subst: map[string]string{
				"st.evm.ChainConfig().ChainID.Uint64()":  "chain",
				"constants.EIP155_CHAINID_MAINNET":       "EIP155_CHAINID_MAINNET",
				"st.evm.Context.BlockNumber.Uint64()":    "height",
			}},
		{name: "buygas_short_cost_fixed", fn: "buyGas", loc: "assign:mgval#2", vars: []string{"gas", "price"},
			subst: map[string]string{"gas": "gas", price: "price"}},
		// preCheck
		{name: "nonce_too_high", fn: "preCheck", loc: "ifcond#1", boolean: true, vars: []string{"st_nonce", "msg_nonce"},
			subst: map[string]string{"stNonce": "st_nonce", "msgNonce": "msg_nonce"}},
		{name: "nonce_too_low", fn: "preCheck", loc: "ifcond#2", boolean: true, vars: []string{"st_nonce", "msg_nonce"},
			subst: map[string]string{"stNonce": "st_nonce", "msgNonce": "msg_nonce"}},
		// handleGasFee: the condition under which NOTHING is paid
		{name: "gasfee_skip", fn: "handleGasFee", loc: "ifcond#0", boolean: true, vars: []string{"adjusted:bool", "height"},
			subst: map[string]string{"adjustedGas": "adjusted", "st.evm.Context.BlockNumber.Uint64()": "height", "RefundHeight": "REFUND_HEIGHT"}},
		// TransitionDb
		{name: "intrinsic_short", fn: "TransitionDb", loc: "ifcond#1", boolean: true, vars: []string{"stgas", "igas"},
			subst: map[string]string{"st.gas": "stgas", "gas": "igas"}},
		{name: "transfer_short", fn: "TransitionDb", loc: "ifcond#2", boolean: true, vars: []string{"value", "bal"},
			subst: map[string]string{"msg.Value()": "value",
				"st.evm.Context.CanTransfer(st.state, msg.From(), msg.Value())": "(can_transfer bal value)"}},
		{name: "next_nonce", fn: "TransitionDb", loc: "callarg:SetNonce:1#0", vars: []string{"n"},
			subst: map[string]string{"st.state.GetNonce(sender.Address())": "n"}},
		{name: "next_nonce_failed", fn: "TransitionDb", loc: "callarg:SetNonce:1#1", vars: []string{"n"},
			subst: map[string]string{"st.state.GetNonce(sender.Address())": "n"}},
		{name: "fee_amount", fn: "TransitionDb", loc: "assign:gAmount#0", vars: []string{"used", "price"},
			subst: map[string]string{"st.gasUsed()": "used", price: "price"}},
		// refundGas / gasUsed
		{name: "refund_cap", fn: "refundGas", loc: "assign:refund#0", vars: []string{"used"},
			subst: map[string]string{"st.gasUsed()": "used"}},
		{name: "refund_over", fn: "refundGas", loc: "ifcond#0", boolean: true, vars: []string{"refund", "counter"},
			subst: map[string]string{"refund": "refund", "st.state.GetRefund()": "counter"}},
		{name: "refund_remaining", fn: "refundGas", loc: "assign:remaining#0", vars: []string{"stgas", "price"},
			subst: map[string]string{"st.gas": "stgas", price: "price"}},
		{name: "gas_used", fn: "gasUsed", loc: "return#0", vars: []string{"initial", "stgas"},
			subst: map[string]string{"st.initialGas": "initial", "st.gas": "stgas"}},
	}
}

func produceEnvelopeGen(repo string) ([]byte, []string) {
	var b bytes.Buffer
	var errs []string
	fmt.Fprintf(&b, "(* GENERATED by harness/drivers/c07/gen.go from %s (go/ast) and the linked packages. Do not edit. *)\n", stFile)
	b.WriteString("From Coq Require Import NArith Bool String List.\nImport ListNotations.\nLocal Open Scope N_scope.\nLocal Open Scope bool_scope.\n\n")
	b.WriteString("(* constants printed from the linked packages *)\n")
	consts := []struct {
		n, v, c string
	}{
		{"TX_GAS", fmt.Sprint(params.TxGas), "vm/evm/params.TxGas"},
		{"TX_GAS_CONTRACT_CREATION", fmt.Sprint(params.TxGasContractCreation), "vm/evm/params.TxGasContractCreation"},
		{"TX_DATA_ZERO_GAS", fmt.Sprint(params.TxDataZeroGas), "vm/evm/params.TxDataZeroGas"},
		{"TX_DATA_NONZERO_GAS_FRONTIER", fmt.Sprint(params.TxDataNonZeroGasFrontier), "vm/evm/params.TxDataNonZeroGasFrontier"},
		{"TX_DATA_NONZERO_GAS_EIP2028", fmt.Sprint(params.TxDataNonZeroGasEIP2028), "vm/evm/params.TxDataNonZeroGasEIP2028"},
		{"EIP155_CHAINID_MAINNET", fmt.Sprint(constants.EIP155_CHAINID_MAINNET), "common/constants.EIP155_CHAINID_MAINNET"},
		{"REFUND_HEIGHT", fmt.Sprint(uint64(sevm.RefundHeight)), "smartcontract/service/evm.RefundHeight"},
		{"REFUND_VALUE", sevm.RefundValue.String(), "smartcontract/service/evm.RefundValue"},
		{"GWEI", fmt.Sprint(constants.GWei), "common/constants.GWei"},
		{"CALL_CREATE_DEPTH", fmt.Sprint(params.CallCreateDepth), "vm/evm/params.CallCreateDepth"},
	}
	for _, c := range consts {
		fmt.Fprintf(&b, "Definition %s : N := %s. (* %s *)\n", c.n, c.v, c.c)
	}
	// fork switches of GetChainConfig (the same for every chain id): IsHomestead / IsIstanbul from height 0
	cfg := params.GetChainConfig(5851)
	forkBlock := func(v *big.Int) string {
		if v == nil {
			return "None"
		}
		return "(Some " + v.String() + ")"
	}
	fmt.Fprintf(&b, "Definition HOMESTEAD_BLOCK : option N := %s. (* GetChainConfig(id).HomesteadBlock *)\n", forkBlock(cfg.HomesteadBlock))
	fmt.Fprintf(&b, "Definition ISTANBUL_BLOCK : option N := %s. (* GetChainConfig(id).IstanbulBlock *)\n", forkBlock(cfg.IstanbulBlock))
	fmt.Fprintf(&b, "Definition EIP158_BLOCK : option N := %s. (* GetChainConfig(id).EIP158Block *)\n\n", forkBlock(cfg.EIP158Block))

	fset := token.NewFileSet()
	parse := func(rel string) *ast.File {
		f, err := parser.ParseFile(fset, filepath.Join(repo, rel), nil, 0)
		if err != nil {
			errs = append(errs, err.Error())
			return nil
		}
		return f
	}
	emit := func(name string, vars []string, boolean bool, goExpr, coq string, err error) {
		if err != nil {
			errs = append(errs, name+": "+err.Error())
			fmt.Fprintf(&b, "(* %s: %s *)\nDefinition translator_broken_%s := tt.\n", name, strings.ReplaceAll(err.Error(), "*)", "* )"), name)
			return
		}
		var ps []string
		for _, v := range vars {
			if strings.HasSuffix(v, ":bool") {
				ps = append(ps, "("+strings.TrimSuffix(v, ":bool")+" : bool)")
			} else {
				ps = append(ps, "("+v+" : N)")
			}
		}
		ty := "N"
		if boolean {
			ty = "bool"
		}
		fmt.Fprintf(&b, "(* %s *)\nDefinition %s %s : %s := %s.\n", strings.ReplaceAll(goExpr, "*)", "* )"), name, strings.Join(ps, " "), ty, coq)
	}
	// CanTransfer of smartcontract/service/evm/evm.go
	if f := parse(svcEvmFile); f != nil {
		fd := findFn(f, "CanTransfer")
		if fd == nil {
			emit("can_transfer", nil, true, "", "", fmt.Errorf("function CanTransfer not found"))
		} else if e, err := locateSite(fset, fd, "return#0"); err != nil {
			emit("can_transfer", nil, true, "", "", err)
		} else {
			c, err := boolExpr(fset, e, map[string]string{"db.GetBalance(addr)": "bal", "amount": "amount"})
			emit("can_transfer", []string{"bal", "amount"}, true, "CanTransfer: "+pnode(fset, e), c, err)
		}
	}
	if f := parse(stFile); f != nil {
		for _, s := range sites() {
			fd := findFn(f, s.fn)
			if fd == nil {
				emit(s.name, nil, s.boolean, "", "", fmt.Errorf("function %s not found", s.fn))
				continue
			}
			e, err := locateSite(fset, fd, s.loc)
			if err != nil {
				emit(s.name, nil, s.boolean, "", "", err)
				continue
			}
			var c string
			if s.boolean {
				c, err = boolExpr(fset, e, s.subst)
			} else {
				c, err = numExpr(fset, e, s.subst)
			}
			emit(s.name, s.vars, s.boolean, s.fn+": "+pnode(fset, e), c, err)
		}
	}
	// inventory of every call that writes a balance, a nonce, code or the suicide set in the EVM
	// packages (Model/EvmFrames.v claims to model all of them)
	b.WriteString("\n(* every call of a balance / nonce / code / suicide writer in vm/evm/*.go and smartcontract/service/evm/*.go: (file, function, callee) *)\n")
	b.WriteString("Definition STATE_WRITE_SITES : list (string * string * string) := [\n")
	sitesFound, serrs := writeSites(repo)
	errs = append(errs, serrs...)
	for i, st := range sitesFound {
		sep := ";"
		if i == len(sitesFound)-1 {
			sep = ""
		}
		fmt.Fprintf(&b, "  (%q%%string, %q%%string, %q%%string)%s\n", st[0], st[1], st[2], sep)
	}
	b.WriteString("].\n")
	return b.Bytes(), errs
}

var writers = map[string]bool{"AddBalance": true, "SubBalance": true, "SetBalance": true, "SetNonce": true,
	"Suicide": true, "Transfer": true, "SetCode": true}

func writeSites(repo string) ([][3]string, []string) {
	var out [][3]string
	var errs []string
	for _, dir := range []string{"vm/evm", "smartcontract/service/evm"} {
		files, err := filepath.Glob(filepath.Join(repo, dir, "*.go"))
		if err != nil || len(files) == 0 {
			errs = append(errs, "no Go files in "+dir)
			continue
		}
		sort.Strings(files)
		for _, f := range files {
			if strings.HasSuffix(f, "_test.go") || strings.HasSuffix(f, "verif_hooks.go") {
				continue
			}
			fset := token.NewFileSet()
			af, err := parser.ParseFile(fset, f, nil, 0)
			if err != nil {
				errs = append(errs, err.Error())
				continue
			}
			rel := dir + "/" + filepath.Base(f)
			for _, d := range af.Decls {
				fd, ok := d.(*ast.FuncDecl)
				if !ok || fd.Body == nil {
					continue
				}
				ast.Inspect(fd.Body, func(n ast.Node) bool {
					ce, ok := n.(*ast.CallExpr)
					if !ok {
						return true
					}
					name := ""
					switch fn := ce.Fun.(type) {
					case *ast.SelectorExpr:
						name = fn.Sel.Name
					case *ast.Ident:
						name = fn.Name
					}
					if writers[name] {
						out = append(out, [3]string{rel, fd.Name.Name, name})
					}
					return true
				})
			}
		}
	}
	return out, errs
}
