package c07

// Chain set-up, state dumps and the two execution paths of one EIP-155 transaction:
//   path A  the real StateStore.HandleEIP155Transaction (what the property is about)
//   path B  evm.ApplyTransaction (the body of HandleEIP155Transaction) with a logging
//           OngBalanceHandle and a tracer, on an identical overlay, only to observe what the
//           interpreter was given and what it returned (the [run] oracle of the Coq model) and to
//           check the interpreter hypotheses H1/H2/... on that invocation.
// A and B are compared after every transaction; a difference is reported as a failure.

import (
	"bytes"
	"crypto/ecdsa"
	"errors"
	"fmt"
	"math/big"
	"math/rand"
	"path/filepath"
	"sort"
	"time"

	ethcomm "github.com/ethereum/go-ethereum/common"
	ethtypes "github.com/ethereum/go-ethereum/core/types"
	"github.com/ethereum/go-ethereum/crypto"
	"github.com/ontio/ontology/common"
	"github.com/ontio/ontology/common/config"
	"github.com/ontio/ontology/core/states"
	scommon "github.com/ontio/ontology/core/store/common"
	"github.com/ontio/ontology/core/store/ledgerstore"
	"github.com/ontio/ontology/core/store/overlaydb"
	"github.com/ontio/ontology/core/types"
	"github.com/ontio/ontology/smartcontract/event"
	sevm "github.com/ontio/ontology/smartcontract/service/evm"
	evmtypes "github.com/ontio/ontology/smartcontract/service/evm/types"
	"github.com/ontio/ontology/smartcontract/service/native/ong"
	nutils "github.com/ontio/ontology/smartcontract/service/native/utils"
	"github.com/ontio/ontology/smartcontract/storage"
	"github.com/ontio/ontology/vm/evm"
	vmerrs "github.com/ontio/ontology/vm/evm/errors"
	"github.com/ontio/ontology/vm/evm/params"

	"verif/harness/hx"
	"verif/harness/ledgerkit"
)

const nSenders = 6

var feeReceiver = nutils.GovernanceContractAddress

// keys are derived from fixed seeds so that scenarios replay identically.
func keyFromSeed(seed int64) *ecdsa.PrivateKey {
	r := rand.New(rand.NewSource(seed))
	for {
		var b [32]byte
		r.Read(b[:])
		b[0] &= 0x7f
		if k, err := crypto.ToECDSA(b[:]); err == nil {
			return k
		}
	}
}

type world struct {
	c       *hx.Ctx
	kit     *ledgerkit.Kit
	store   *ledgerstore.LedgerStoreImp
	keys    [nSenders]*ecdsa.PrivateKey
	addrs   [nSenders]common.Address
	lib     []libContract    // deployed through real blocks
	plain   []common.Address // addresses without code / key (beneficiaries, fresh recipients)
	known   map[common.Address]bool
	ids     map[common.Address]uint64 // address -> Coq id
	nextID  uint64
	blockTS uint32
}

type libContract struct {
	Name string
	Addr common.Address
	Code []byte
}

func (w *world) id(a common.Address) uint64 {
	if v, ok := w.ids[a]; ok {
		return v
	}
	w.nextID++
	w.ids[a] = w.nextID
	return w.nextID
}

func (w *world) know(a common.Address) { w.known[a] = true }

// ---------- state dumps ----------

type dump struct {
	Bal  map[common.Address]*big.Int           // ONG balance records (non-zero)
	Acct map[common.Address]storage.EthAccount // non-empty EthAccount records
	Raw  map[string]string                     // every other ST_STORAGE record, and ST_ETH_CODE keys
}

func decodeBalance(val []byte) (*big.Int, error) {
	item := new(states.StorageItem)
	if err := item.Deserialization(common.NewZeroCopySource(val)); err != nil {
		return nil, err
	}
	b, err := states.NativeTokenBalanceFromStorageItem(item)
	if err != nil {
		return nil, err
	}
	return b.ToBigInt(), nil
}

func (d *dump) addStorage(key, val []byte) {
	// key without the ST_STORAGE prefix byte: contract(20) ++ rest
	if len(key) == 40 && bytes.Equal(key[:20], nutils.OngContractAddress[:]) {
		v, err := decodeBalance(val)
		if err != nil {
			panic(fmt.Sprintf("ONG balance record %x: %v", key, err))
		}
		if v.Sign() != 0 {
			var a common.Address
			copy(a[:], key[20:])
			d.Bal[a] = v
		}
		return
	}
	d.Raw["s"+string(key)] = string(val)
}

// dumpOverlay reads the complete committed view of an overlay (store + overlay writes).
func (w *world) dumpOverlay(ov *overlaydb.OverlayDB) *dump {
	d := &dump{Bal: map[common.Address]*big.Int{}, Acct: map[common.Address]storage.EthAccount{}, Raw: map[string]string{}}
	it := ov.NewIterator([]byte{byte(scommon.ST_STORAGE)})
	for ok := it.First(); ok; ok = it.Next() {
		if len(it.Value()) == 0 {
			continue
		}
		d.addStorage(append([]byte{}, it.Key()[1:]...), append([]byte{}, it.Value()...))
	}
	it.Release()
	it = ov.NewIterator([]byte{byte(scommon.ST_ETH_ACCOUNT)})
	for ok := it.First(); ok; ok = it.Next() {
		if len(it.Value()) == 0 {
			continue
		}
		var acct storage.EthAccount
		if err := acct.Deserialization(common.NewZeroCopySource(it.Value())); err != nil {
			panic(err)
		}
		var a common.Address
		copy(a[:], it.Key()[1:])
		if !acct.IsEmpty() {
			d.Acct[a] = acct
			w.know(a)
		}
	}
	it.Release()
	it = ov.NewIterator([]byte{byte(scommon.ST_ETH_CODE)})
	for ok := it.First(); ok; ok = it.Next() {
		if len(it.Value()) != 0 {
			d.Raw["c"+string(it.Key()[1:])] = fmt.Sprint(len(it.Value()))
		}
	}
	it.Release()
	for a := range d.Bal {
		w.know(a)
	}
	return d
}

// dumpCache reads the view of a transaction cache in the middle of a transaction: all ST_STORAGE
// records through the cache iterator, EthAccount records of every known address.
func (w *world) dumpCache(cache *storage.CacheDB) *dump {
	d := &dump{Bal: map[common.Address]*big.Int{}, Acct: map[common.Address]storage.EthAccount{}, Raw: map[string]string{}}
	it := cache.NewIterator(nil)
	for ok := it.First(); ok; ok = it.Next() {
		if len(it.Value()) == 0 {
			continue
		}
		d.addStorage(append([]byte{}, it.Key()...), append([]byte{}, it.Value()...))
	}
	it.Release()
	for a := range w.known {
		acct, err := cache.GetEthAccount(ethcomm.Address(a))
		if err != nil {
			panic(err)
		}
		if !acct.IsEmpty() {
			d.Acct[a] = acct
		}
	}
	return d
}

func (d *dump) total() *big.Int {
	t := new(big.Int)
	for _, v := range d.Bal {
		t.Add(t, v)
	}
	return t
}

func (d *dump) bal(a common.Address) *big.Int {
	if v, ok := d.Bal[a]; ok {
		return v
	}
	return new(big.Int)
}

func (d *dump) nonce(a common.Address) uint64 { return d.Acct[a].Nonce }
func (d *dump) hasCode(a common.Address) bool { return d.Acct[a].CodeHash != (ethcomm.Hash{}) }

// diffAddrs returns every address whose balance, nonce or code flag differs between two dumps.
func diffAddrs(x, y *dump) []common.Address {
	set := map[common.Address]bool{}
	for a, v := range x.Bal {
		if y.bal(a).Cmp(v) != 0 {
			set[a] = true
		}
	}
	for a, v := range y.Bal {
		if x.bal(a).Cmp(v) != 0 {
			set[a] = true
		}
	}
	for a, v := range x.Acct {
		if y.Acct[a] != v {
			set[a] = true
		}
	}
	for a, v := range y.Acct {
		if x.Acct[a] != v {
			set[a] = true
		}
	}
	var out []common.Address
	for a := range set {
		out = append(out, a)
	}
	sort.Slice(out, func(i, j int) bool { return bytes.Compare(out[i][:], out[j][:]) < 0 })
	return out
}

func rawEqual(x, y *dump) bool {
	if len(x.Raw) != len(y.Raw) {
		return false
	}
	for k, v := range x.Raw {
		if w, ok := y.Raw[k]; !ok || w != v {
			return false
		}
	}
	return true
}

func dumpsEqual(x, y *dump) bool { return len(diffAddrs(x, y)) == 0 && rawEqual(x, y) }

// ---------- error codes shared with the Coq side ----------

// vm error -> code: 0 none, 1 intrinsic gas, 2 insufficient funds for transfer, 100+k interpreter error k
func errCode(err error) uint64 {
	switch {
	case err == nil:
		return 0
	case errors.Is(err, sevm.ErrIntrinsicGas):
		return 1
	case errors.Is(err, sevm.ErrInsufficientFundsForTransfer):
		return 2
	}
	return 100 + runErrCode(err)
}

func runErrCode(err error) uint64 {
	switch {
	case err == nil:
		return 0
	case errors.Is(err, vmerrs.ErrExecutionReverted):
		return 1
	case errors.Is(err, vmerrs.ErrOutOfGas):
		return 2
	case errors.Is(err, vmerrs.ErrCodeStoreOutOfGas):
		return 3
	case errors.Is(err, vmerrs.ErrDepth):
		return 4
	case errors.Is(err, vmerrs.ErrInsufficientBalance):
		return 5
	case errors.Is(err, vmerrs.ErrContractAddressCollision):
		return 6
	case errors.Is(err, vmerrs.ErrInvalidJump):
		return 7
	case errors.Is(err, vmerrs.ErrMaxCodeSizeExceeded):
		return 8
	}
	return 9 // invalid opcode, stack under/overflow, write protection, ...
}

// ---------- path B instrumentation ----------

type spyHandle struct {
	inner    ong.OngBalanceHandle
	w        *world
	firstSub bool
	preRun   *dump    // after buyGas' SubBalance
	mgval    *big.Int // what buyGas debited
	firstAdd *dump    // before the first AddBalance after buyGas (used when the tracer never fired)
}

func (h *spyHandle) SubBalance(cache *storage.CacheDB, addr common.Address, val *big.Int) error {
	err := h.inner.SubBalance(cache, addr, val)
	if !h.firstSub {
		h.firstSub = true
		h.mgval = new(big.Int).Set(val)
		h.preRun = h.w.dumpCache(cache)
	}
	return err
}
func (h *spyHandle) AddBalance(cache *storage.CacheDB, addr common.Address, val *big.Int) error {
	if h.firstSub && h.firstAdd == nil {
		h.firstAdd = h.w.dumpCache(cache)
	}
	return h.inner.AddBalance(cache, addr, val)
}
func (h *spyHandle) SetBalance(cache *storage.CacheDB, addr common.Address, val *big.Int) error {
	return h.inner.SetBalance(cache, addr, val)
}
func (h *spyHandle) GetBalance(cache *storage.CacheDB, addr common.Address) (*big.Int, error) {
	return h.inner.GetBalance(cache, addr)
}

// eff is one node of the effect tree of an interpreter invocation (Model/EvmFrames.v).
type eff struct {
	sd    bool // SELFDESTRUCT with beneficiary to
	dummy bool
	kind  string
	to    common.Address
	value *big.Int
	ok    bool
	body  []*eff
	// SELFDESTRUCT nodes: the executing contract, the balance opSuicide moved, and the contract's
	// ONG balance right after StateDB.Suicide returned
	from    common.Address
	sdMoved *big.Int
	sdAfter *big.Int
	repeat  bool // the same contract had already executed a SELFDESTRUCT in this transaction
	// a CREATE / CREATE2 instruction was started in this frame and evm.create has not (yet) told the
	// tracer about it: the early exits (insufficient balance, depth, address collision) stay silent
	pending *eff
}

// flushPending records a creation that exited before the tracer was told (no frame was opened).
func (e *eff) flushPending() {
	if e != nil && e.pending != nil {
		e.pending.ok = false
		e.body = append(e.body, e.pending)
		e.pending = nil
	}
}

func (w *world) coqEffects(l []*eff) string {
	var items []string
	for _, e := range l {
		items = append(items, w.coqEffect(e))
	}
	return hx.CoqList(items)
}

func (w *world) coqEffect(e *eff) string {
	if e.sd {
		return fmt.Sprintf("(ESelfDestruct %d)", w.id(e.to))
	}
	return fmt.Sprintf("(EFrame %s %d %s %s %s)", e.kind, w.id(e.to), e.value.String(), hx.CoqBool(e.ok), w.coqEffects(e.body))
}

func effAddrs(e *eff, out map[common.Address]bool) {
	out[e.to] = true
	for _, b := range e.body {
		effAddrs(b, out)
	}
}

func effSize(e *eff) int {
	n := 1
	for _, b := range e.body {
		n += effSize(b)
	}
	return n
}

type spyTracer struct {
	top      *eff
	stack    []*eff
	w        *world
	cache    *storage.CacheDB
	statedb  *storage.StateDB
	started  bool
	ended    bool
	create   bool
	gasIn    uint64
	gasLeft  uint64
	refund   uint64
	err      error
	postRun  *dump
	suicided []common.Address
	sdSelf   bool // a SELFDESTRUCT whose beneficiary is the executing contract was executed
	sdAny    bool
	sdSeen   map[common.Address]int
	sdLog    []*eff // every executed SELFDESTRUCT in execution order (reverted ones included)
}

// selfBurn is the amount the effect tree says was destroyed by SELFDESTRUCTs whose beneficiary is
// the executing contract itself and whose enclosing frames all succeeded (positive evidence for the
// known finding); every other change of the ONG sum by the interpreter is unexplained.
func selfBurn(e *eff, alive bool) *big.Int {
	t := new(big.Int)
	if e.sd {
		if alive && e.to == e.from && e.sdMoved != nil {
			t.Add(t, e.sdMoved)
		}
		return t
	}
	for _, b := range e.body {
		t.Add(t, selfBurn(b, alive && e.ok))
	}
	return t
}

func (t *spyTracer) CaptureStart(env *evm.EVM, from, to ethcomm.Address, create bool, input []byte, gas uint64, value *big.Int) {
	t.started, t.create, t.gasIn = true, create, gas
	t.w.know(common.Address(to))
	kind := "KCall"
	if create {
		kind = "KCreate"
	}
	t.top = &eff{kind: kind, to: common.Address(to), value: new(big.Int).Set(value)}
	t.stack = []*eff{t.top}
}
func (t *spyTracer) CaptureState(env *evm.EVM, pc uint64, op evm.OpCode, gas, cost uint64, memory *evm.Memory, stack *evm.Stack,
	rStack *evm.ReturnStack, rData []byte, contract *evm.Contract, depth int, err error) {
	if len(t.stack) > 0 {
		cur := t.stack[len(t.stack)-1]
		cur.flushPending()
		if err == nil && (op == evm.CREATE || op == evm.CREATE2) {
			self := contract.Address()
			value := stack.Back(0).ToBig()
			var to ethcomm.Address
			if op == evm.CREATE {
				to = crypto.CreateAddress(self, env.StateDB.GetNonce(self))
			} else {
				offset, size, salt := stack.Back(1), stack.Back(2), stack.Back(3)
				code := memory.GetCopy(int64(offset.Uint64()), int64(size.Uint64()))
				to = crypto.CreateAddress2(self, salt.Bytes32(), crypto.Keccak256(code))
			}
			t.w.know(common.Address(to))
			cur.pending = &eff{kind: "KCreate", to: common.Address(to), value: value}
		}
	}
	if op == evm.SELFDESTRUCT && len(stack.Data()) > 0 {
		t.sdAny = true
		top := stack.Data()[len(stack.Data())-1]
		ben := ethcomm.Address(top.Bytes20())
		t.w.know(common.Address(ben))
		if ben == contract.Address() {
			t.sdSelf = true
		}
	}
	if (op == evm.CREATE || op == evm.CREATE2) && err == nil {
		// the address of a nested creation becomes known only afterwards; pick it up from dumps
	}
}
func (t *spyTracer) CaptureEnter(typ evm.OpCode, from, to ethcomm.Address, input []byte, gas uint64, value *big.Int) {
	t.w.know(common.Address(to))
	if len(t.stack) == 0 {
		return
	}
	cur := t.stack[len(t.stack)-1]
	if typ == evm.CREATE || typ == evm.CREATE2 {
		cur.pending = nil // evm.create got past its early exits and reports the frame itself
	}
	v := new(big.Int)
	if value != nil {
		v.Set(value)
	}
	var f *eff
	switch typ {
	case evm.SELFDESTRUCT: // opSuicide reports itself as a frame: from = executing contract, to = beneficiary
		// (called after AddBalance and StateDB.Suicide: the contract's balance must be zero now)
		if t.sdSeen == nil {
			t.sdSeen = map[common.Address]int{}
		}
		n := &eff{sd: true, to: common.Address(to), from: common.Address(from), sdMoved: v,
			sdAfter: new(big.Int).Set(t.statedb.GetBalance(from)), repeat: t.sdSeen[common.Address(from)] > 0}
		t.sdSeen[common.Address(from)]++
		cur.body = append(cur.body, n)
		t.sdLog = append(t.sdLog, n)
		f = &eff{dummy: true}
	case evm.CALL:
		f = &eff{kind: "KCall", to: common.Address(to), value: v}
	case evm.CALLCODE:
		f = &eff{kind: "KCallCode", to: common.Address(to), value: v}
	case evm.DELEGATECALL:
		f = &eff{kind: "KDelegateCall", to: common.Address(to), value: v}
	case evm.STATICCALL:
		f = &eff{kind: "KStaticCall", to: common.Address(to), value: v}
	case evm.CREATE, evm.CREATE2:
		f = &eff{kind: "KCreate", to: common.Address(to), value: v}
	default:
		f = &eff{dummy: true}
	}
	if !f.dummy {
		cur.body = append(cur.body, f)
	}
	t.stack = append(t.stack, f)
}
func (t *spyTracer) CaptureExit(output []byte, gasUsed uint64, err error) {
	if len(t.stack) <= 1 {
		return
	}
	f := t.stack[len(t.stack)-1]
	t.stack = t.stack[:len(t.stack)-1]
	f.flushPending()
	f.ok = err == nil
}
func (t *spyTracer) CaptureFault(env *evm.EVM, pc uint64, op evm.OpCode, gas, cost uint64, memory *evm.Memory, stack *evm.Stack,
	rStack *evm.ReturnStack, contract *evm.Contract, depth int, err error) {
}
func (t *spyTracer) CaptureEnd(output []byte, gasUsed uint64, d time.Duration, err error) {
	t.ended = true
	if t.top != nil {
		t.top.flushPending()
		t.top.ok = err == nil
	}
	t.gasLeft = t.gasIn - gasUsed
	t.err = err
	t.refund = t.statedb.GetRefund()
	t.postRun = t.w.dumpCache(t.cache)
	for a, v := range t.statedb.Suicided {
		if v {
			t.suicided = append(t.suicided, common.Address(a))
		}
	}
	sort.Slice(t.suicided, func(i, j int) bool { return bytes.Compare(t.suicided[i][:], t.suicided[j][:]) < 0 })
}

// ---------- one transaction on both paths ----------

type txEnv struct {
	ChainID uint32
	Height  uint32
}

type observation struct {
	// path A
	pre, post *dump
	res       *evmtypes.ExecutionResult
	err       error
	dbErr     bool
	// path B
	spy    *spyHandle
	tr     *spyTracer
	resB   *evmtypes.ExecutionResult
	errB   error
	postB  *dump
	panicA string
}

func (w *world) ctxFor(env txEnv) ledgerstore.Eip155Context {
	return ledgerstore.Eip155Context{BlockHash: common.Uint256{1, 2, 3}, TxIndex: 0, Height: env.Height, Timestamp: w.blockTS}
}

// applyBoth runs one transaction through path A on (ovA, cacheA) and path B on (ovB, cacheB).
func (w *world) applyBoth(env txEnv, ovA, ovB *overlaydb.OverlayDB, cacheA, cacheB *storage.CacheDB, tx *ethtypes.Transaction, checkNonce bool) *observation {
	config.DefConfig.P2PNode.EVMChainId = env.ChainID
	ob := &observation{}
	ob.pre = w.dumpOverlay(ovA)
	ctx := w.ctxFor(env)
	// path A: the real handler
	cacheA.Reset()
	notify := &event.ExecuteNotify{State: event.CONTRACT_STATE_FAIL}
	if p, msg := hx.Recover(func() {
		ob.res, _, ob.err = w.store.VerifC07HandleEIP155(cacheA, tx, ctx, notify, checkNonce)
	}); p {
		ob.panicA = msg
		return ob
	}
	w.c.Eval()
	ob.dbErr = ovA.Error() != nil
	ob.post = w.dumpOverlay(ovA)

	// path B: the same calls HandleEIP155Transaction makes, with observation points
	cacheB.Reset()
	ob.spy = &spyHandle{w: w}
	statedb := storage.NewStateDB(cacheB, tx.Hash(), ethcomm.Hash(ctx.BlockHash), ob.spy)
	ob.tr = &spyTracer{w: w, cache: cacheB, statedb: statedb}
	usedGas := uint64(0)
	cfg := params.GetChainConfig(config.DefConfig.P2PNode.EVMChainId)
	ob.resB, _, ob.errB = sevm.ApplyTransaction(cfg, w.store, statedb, ctx.Height, ctx.Timestamp, tx, &usedGas,
		feeReceiver, evm.Config{Debug: true, Tracer: ob.tr}, checkNonce)
	ob.postB = w.dumpOverlay(ovB)
	return ob
}

// ---------- chain set-up ----------

func newWorld(c *hx.Ctx) (*world, error) {
	k, err := ledgerkit.New(filepath.Join(c.OutDir, "ledger"))
	if err != nil {
		return nil, err
	}
	w := &world{c: c, kit: k, store: k.Store(), known: map[common.Address]bool{}, ids: map[common.Address]uint64{}, blockTS: 1700000000}
	for i := 0; i < nSenders; i++ {
		w.keys[i] = keyFromSeed(int64(7000 + i))
		w.addrs[i] = common.Address(crypto.PubkeyToAddress(w.keys[i].PublicKey))
		w.know(w.addrs[i])
	}
	w.know(feeReceiver)
	for i := 0; i < 6; i++ {
		var a common.Address
		copy(a[:], crypto.Keccak256([]byte(fmt.Sprintf("c07-plain-%d", i)))[:20])
		w.plain = append(w.plain, a)
		w.know(a)
	}
	return w, nil
}

func (w *world) close() { w.kit.Close() }

// signTx builds a go-ethereum-signed EIP-155 transaction for the configured chain id.
func (w *world) signTx(chainID uint32, from int, nonce uint64, to *common.Address, value *big.Int, gasLimit uint64, gasPrice *big.Int, data []byte) *ethtypes.Transaction {
	signer := ethtypes.NewEIP155Signer(big.NewInt(int64(chainID)))
	var raw *ethtypes.Transaction
	if to == nil {
		raw = ethtypes.NewContractCreation(nonce, value, gasLimit, gasPrice, data)
	} else {
		raw = ethtypes.NewTransaction(nonce, ethcomm.Address(*to), value, gasLimit, gasPrice, data)
	}
	signed, err := ethtypes.SignTx(raw, signer, w.keys[from])
	if err != nil {
		panic(err)
	}
	return signed
}

// ontTx wraps an eth transaction as an Ontology transaction (the decoder's range checks apply).
func ontTx(tx *ethtypes.Transaction) (*types.Transaction, error) { return types.TransactionFromEIP155(tx) }
