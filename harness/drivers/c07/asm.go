package c07

// A very small EVM assembler and the bytecode the generator uses.

import (
	"math/big"
	"math/rand"

	"github.com/ontio/ontology/common"
)

const (
	opSTOP         = 0x00
	opISZERO       = 0x15
	opADDRESS      = 0x30
	opCALLER       = 0x33
	opCALLVALUE    = 0x34
	opCALLDATASIZE = 0x36
	opCODECOPY     = 0x39
	opSELFBALANCE  = 0x47
	opPOP          = 0x50
	opMSTORE       = 0x52
	opSSTORE       = 0x55
	opJUMP         = 0x56
	opGAS          = 0x5a
	opJUMPDEST     = 0x5b
	opPUSH1        = 0x60
	opPUSH20       = 0x73
	opLOG0         = 0xa0
	opCREATE       = 0xf0
	opCALL         = 0xf1
	opRETURN       = 0xf3
	opREVERT       = 0xfd
	opINVALID      = 0xfe
	opSELFDESTRUCT = 0xff
)

type asm struct{ b []byte }

func (a *asm) op(ops ...byte) *asm { a.b = append(a.b, ops...); return a }
func (a *asm) push1(v byte) *asm   { a.b = append(a.b, opPUSH1, v); return a }
func (a *asm) pushAddr(x common.Address) *asm {
	a.b = append(a.b, opPUSH20)
	a.b = append(a.b, x[:]...)
	return a
}

// pushBig pushes a value of up to 32 bytes.
func (a *asm) pushBig(v *big.Int) *asm {
	bs := v.Bytes()
	if len(bs) == 0 {
		bs = []byte{0}
	}
	a.b = append(a.b, byte(opPUSH1+len(bs)-1))
	a.b = append(a.b, bs...)
	return a
}

// callValue: CALL(gas = all, to, value on stack producer, no data); the success flag is popped.
func (a *asm) callWith(to common.Address, value func(*asm)) *asm {
	a.push1(0).push1(0).push1(0).push1(0)
	value(a)
	a.pushAddr(to).op(opGAS, opCALL, opPOP)
	return a
}

func codeStop() []byte    { return []byte{opSTOP} }
func codeRevert() []byte  { return (&asm{}).push1(0).push1(0).op(opREVERT).b }
func codeInvalid() []byte { return []byte{opINVALID} }
func codeLoop() []byte    { return (&asm{}).op(opJUMPDEST).push1(0).op(opJUMP).b }
func codeSelfdestructTo(x common.Address) []byte {
	return (&asm{}).pushAddr(x).op(opSELFDESTRUCT).b
}
func codeSelfdestructSelf() []byte   { return []byte{opADDRESS, opSELFDESTRUCT} }
func codeSelfdestructCaller() []byte { return []byte{opCALLER, opSELFDESTRUCT} }

// forward the call value to x, then stop or revert
func codeForward(x common.Address, thenRevert bool) []byte {
	a := (&asm{}).callWith(x, func(a *asm) { a.op(opCALLVALUE) })
	if thenRevert {
		return a.push1(0).push1(0).op(opREVERT).b
	}
	return a.op(opSTOP).b
}

// send the whole balance back to the caller
func codePayback() []byte {
	a := &asm{}
	a.push1(0).push1(0).push1(0).push1(0).op(opSELFBALANCE, opCALLER, opGAS, opCALL, opPOP, opSTOP)
	return a.b
}

// SSTORE(0, CALLDATASIZE): empty call data clears the slot (refund), any data sets it
func codeToggle() []byte { return (&asm{}).op(opCALLDATASIZE).push1(0).op(opSSTORE, opSTOP).b }

// CREATE a child with empty init code, endowed with the call value
func codeCreateChild() []byte {
	return (&asm{}).push1(0).push1(0).op(opCALLVALUE, opCREATE, opPOP, opSTOP).b
}

// DELEGATECALL / STATICCALL (no value) and CALLCODE (value = call value) into x, result popped
func codeDelegate(x common.Address) []byte {
	return (&asm{}).push1(0).push1(0).push1(0).push1(0).pushAddr(x).op(opGAS, 0xf4, opPOP, opSTOP).b
}
func codeStatic(x common.Address) []byte {
	return (&asm{}).push1(0).push1(0).push1(0).push1(0).pushAddr(x).op(opGAS, 0xfa, opPOP, opSTOP).b
}
func codeCallCode(x common.Address) []byte {
	return (&asm{}).push1(0).push1(0).push1(0).push1(0).op(opCALLVALUE).pushAddr(x).op(opGAS, 0xf2, opPOP, opSTOP).b
}

// CREATE2 a child with empty init code and salt 1, endowed with the call value
func codeCreate2Child() []byte {
	return (&asm{}).push1(1).push1(0).push1(0).op(opCALLVALUE, 0xf5, opPOP, opSTOP).b
}

// callSeq calls x once per entry of values: "cv" = CALLVALUE, "bal" = SELFBALANCE, otherwise a constant.
func callSeq(calls []calls) []byte {
	a := &asm{}
	for _, c := range calls {
		c := c
		a.callWith(c.to, func(a *asm) {
			switch c.val {
			case "cv":
				a.op(opCALLVALUE)
			case "bal":
				a.op(opSELFBALANCE)
			default:
				v, _ := new(big.Int).SetString(c.val, 10)
				a.pushBig(v)
			}
		})
	}
	return a.op(opSTOP).b
}

// CREATE a child from the init code appended to this code, then CALL the child once per value
// ("cv" = CALLVALUE, otherwise a constant below 256).
func codeCreateThenCall(childInit []byte, values []string) []byte {
	build := func(off byte) []byte {
		a := &asm{}
		a.push1(byte(len(childInit))).push1(off).push1(0).op(opCODECOPY)
		a.push1(byte(len(childInit))).push1(0).push1(0).op(opCREATE)
		a.push1(0x80).op(opMSTORE)
		for _, v := range values {
			a.push1(0).push1(0).push1(0).push1(0)
			if v == "cv" {
				a.op(opCALLVALUE)
			} else {
				var n int
				for _, ch := range v {
					n = n*10 + int(ch-'0')
				}
				a.push1(byte(n))
			}
			a.push1(0x80).op(0x51 /* MLOAD */, opGAS, opCALL, opPOP)
		}
		return a.op(opSTOP).b
	}
	pro := build(0)
	pro = build(byte(len(pro)))
	return append(pro, childInit...)
}

// initCode wraps runtime code in a constructor that returns it.
func initCode(runtime []byte) []byte {
	// PUSH1 len DUP1 PUSH1 off PUSH1 0 CODECOPY PUSH1 0 RETURN   (12 bytes)
	if len(runtime) > 255 {
		panic("runtime too long for the one-byte wrapper")
	}
	pre := []byte{opPUSH1, byte(len(runtime)), 0x80, opPUSH1, 12, opPUSH1, 0, opCODECOPY, opPUSH1, 0, opRETURN}
	pre = append([]byte{}, pre...)
	// pad to 12 bytes
	for len(pre) < 12 {
		pre = append(pre, opSTOP)
	}
	return append(pre, runtime...)
}

// randomCode builds a contract from random balanced snippets and a random terminator.
// targets: addresses value may be sent to; lib: library contracts that may be called.
func randomCode(r *rand.Rand, targets []common.Address, lib []libContract) []byte {
	a := &asm{}
	n := 1 + r.Intn(4)
	for i := 0; i < n; i++ {
		switch r.Intn(7) {
		case 0: // send a small constant amount to a target
			t := targets[r.Intn(len(targets))]
			v := big.NewInt(int64(r.Intn(5000)))
			a.callWith(t, func(a *asm) { a.pushBig(v) })
		case 1: // forward the call value to a target
			t := targets[r.Intn(len(targets))]
			a.callWith(t, func(a *asm) { a.op(opCALLVALUE) })
		case 2: // storage write (set or clear)
			a.push1(byte(r.Intn(2))).push1(byte(r.Intn(2))).op(opSSTORE)
		case 3: // log
			a.push1(0).push1(0).op(opLOG0)
		case 4: // call a library contract with a small value
			if len(lib) > 0 {
				l := lib[r.Intn(len(lib))]
				v := big.NewInt(int64(r.Intn(3000)))
				a.callWith(l.Addr, func(a *asm) { a.pushBig(v) })
			}
		case 5: // create a child endowed with a small amount
			a.push1(0).push1(0).push1(byte(r.Intn(200))).op(opCREATE, opPOP)
		case 6: // call a self-destructing library contract (beneficiary: another account) twice
			if len(lib) > 13 {
				victim := lib[[]int{4, 13}[r.Intn(2)]].Addr
				first, second := big.NewInt(int64(r.Intn(2)*r.Intn(900))), big.NewInt(int64(1+r.Intn(900)))
				a.callWith(victim, func(a *asm) { a.pushBig(first) })
				if r.Intn(2) == 0 {
					a.callWith(victim, func(a *asm) { a.op(opCALLVALUE) })
				} else {
					a.callWith(victim, func(a *asm) { a.pushBig(second) })
				}
			}
		}
	}
	switch r.Intn(8) {
	case 0:
		a.push1(0).push1(0).op(opREVERT)
	case 1:
		a.op(opINVALID)
	case 2:
		a.op(opADDRESS, opSELFDESTRUCT)
	case 3:
		a.pushAddr(targets[r.Intn(len(targets))]).op(opSELFDESTRUCT)
	case 4:
		a.op(opJUMPDEST).push1(byte(len(a.b) - 1)).op(opJUMP) // loop: jumps back to this JUMPDEST
	default:
		a.op(opSTOP)
	}
	return a.b
}
