package c07

// Scenarios: a chain id, a block height, direct balance overrides and a list of transactions that
// are applied one after the other on a fresh overlay over the committed state of the base chain.

import (
	"fmt"
	"math/big"
	"math/rand"
	"strings"

	ethcomm "github.com/ethereum/go-ethereum/common"
	ethtypes "github.com/ethereum/go-ethereum/core/types"
	"github.com/ethereum/go-ethereum/crypto"
	"github.com/ontio/ontology/common"
	"github.com/ontio/ontology/common/config"
	"github.com/ontio/ontology/common/constants"
	"github.com/ontio/ontology/core/types"
	sevm "github.com/ontio/ontology/smartcontract/service/evm"
	"github.com/ontio/ontology/smartcontract/service/native/ong"
	"github.com/ontio/ontology/smartcontract/storage"

	"verif/harness/hx"
	"verif/harness/ledgerkit"
)

const buyGasFixHeight = 15380000 // only used to steer the generator; the model takes it from the source

type TxSpec struct {
	From      int    `json:"from"`
	NonceOff  int64  `json:"nonce_off"` // tx nonce = account nonce + off
	PriceGwei uint64 `json:"price_gwei"`
	PriceWei  uint64 `json:"price_wei"` // extra wei (non-zero makes the Ontology decoder reject the tx)
	GasLimit  uint64 `json:"gas_limit"`
	Value     string `json:"value"`
	To        string `json:"to"` // "" create | s<i> sender | p<i> plain | l<i> library | fee | pre<i> precompile
	Data      string `json:"data"`
	NoCheck   bool   `json:"no_check"` // pre-execution path (checkNonce = false)
}

type PreOp struct {
	Who string `json:"who"`
	Bal string `json:"bal"`
}

type Scenario struct {
	LibSeed int64    `json:"lib_seed"`
	ChainID uint32   `json:"chain_id"`
	Height  uint32   `json:"height"`
	Pre     []PreOp  `json:"pre"`
	Txs     []TxSpec `json:"txs"`
	Note    string   `json:"note,omitempty"`
}

func (w *world) resolve(ref string) (common.Address, bool) {
	var i int
	switch {
	case ref == "fee":
		return feeReceiver, true
	case strings.HasPrefix(ref, "pre"):
		fmt.Sscanf(ref[3:], "%d", &i)
		var a common.Address
		a[19] = byte(i)
		w.know(a)
		return a, true
	case strings.HasPrefix(ref, "s"):
		fmt.Sscanf(ref[1:], "%d", &i)
		return w.addrs[i%nSenders], true
	case strings.HasPrefix(ref, "p"):
		fmt.Sscanf(ref[1:], "%d", &i)
		return w.plain[i%len(w.plain)], true
	case strings.HasPrefix(ref, "l"):
		fmt.Sscanf(ref[1:], "%d", &i)
		return w.lib[i%len(w.lib)].Addr, true
	}
	return common.Address{}, false
}

func bigOf(s string) *big.Int {
	v, ok := new(big.Int).SetString(s, 10)
	if !ok {
		panic("bad decimal " + s)
	}
	return v
}

// ---------- base chain ----------

type calls = struct {
	to  common.Address
	val string
}

func (w *world) buildBase(libSeed int64) error {
	// block 1: ONG to the EVM senders (amounts in units of 1e-9 ONG)
	fund := []uint64{1000000000000, 100000000000, 5000000000, 100000000, 1000000, 0}
	var txs []*types.Transaction
	for i, amt := range fund {
		if amt == 0 {
			continue
		}
		t, err := w.kit.TransferTx(ledgerkit.OngAddr, w.kit.Acct, w.addrs[i], amt, 0, 20000)
		if err != nil {
			return err
		}
		txs = append(txs, t)
	}
	if err := w.addBlockChecked(txs, "fund"); err != nil {
		return err
	}
	for i, amt := range fund {
		got := w.ongOf(w.addrs[i])
		want := new(big.Int).Mul(new(big.Int).SetUint64(amt), big.NewInt(constants.GWei))
		if got.Cmp(want) != 0 {
			return fmt.Errorf("funding sender %d: balance %s, want %s", i, got, want)
		}
	}
	// block 2: the library contracts, deployed by sender 0 through real EIP-155 transactions
	r := rand.New(rand.NewSource(libSeed))
	targets := append(append([]common.Address{}, w.plain...), w.addrs[1], w.addrs[5], feeReceiver)
	type lc struct {
		name string
		code []byte
	}
	// the addresses of the library contracts are fixed by (sender 0, nonce): compute them first so
	// that code can refer to other library contracts
	nFixed := 32
	nRandom := 8
	addrOf := func(n int) common.Address {
		return common.Address(crypto.CreateAddress(ethcomm.Address(w.addrs[0]), uint64(n)))
	}
	fixed := []lc{
		{"stop", codeStop()},
		{"revert", codeRevert()},
		{"invalid", codeInvalid()},
		{"loop", codeLoop()},
		{"sd_other", codeSelfdestructTo(w.plain[0])},
		{"sd_self", codeSelfdestructSelf()},
		{"sd_caller", codeSelfdestructCaller()},
		{"forward", codeForward(w.plain[1], false)},
		{"forward_revert", codeForward(w.plain[1], true)},
		{"payback", codePayback()},
		{"toggle", codeToggle()},
		{"create_child", codeCreateChild()},
		{"call_sd_self", codeForward(addrOf(5), false)},
		{"sd_to_contract", codeSelfdestructTo(addrOf(0))},
		{"forward_to_fee", codeForward(feeReceiver, false)},
		{"forward_to_sender", codeForward(w.addrs[1], false)},
		{"call_sd_self_revert", codeForward(addrOf(5), true)},
		{"delegate_sd_self", codeDelegate(addrOf(5))},   // SELFDESTRUCT(ADDRESS) in the caller's context
		{"callcode_sd_other", codeCallCode(addrOf(4))},  // SELFDESTRUCT(plain0) in the caller's context
		{"static_sd_self", codeStatic(addrOf(5))},       // write protection
		{"create2_child", codeCreate2Child()},
		{"delegate_forward", codeDelegate(addrOf(7))},   // CALL with CALLVALUE from the caller's context
		// one transaction, the same victim (SELFDESTRUCT to ANOTHER account) run several times,
		// receiving value between its self-destructs
		{"twice_0_v", callSeq([]calls{{addrOf(4), "0"}, {addrOf(4), "cv"}})},
		{"twice_v_0", callSeq([]calls{{addrOf(4), "cv"}, {addrOf(4), "0"}})},
		{"twice_v_w", callSeq([]calls{{addrOf(4), "1234"}, {addrOf(4), "cv"}})},
		{"thrice_0_v_w", callSeq([]calls{{addrOf(4), "0"}, {addrOf(4), "cv"}, {addrOf(4), "77"}})},
		{"fwd_victim_revert", codeForward(addrOf(4), true)}, // victim self-destructs inside a frame that reverts
		{"twice_revert_between", callSeq([]calls{{addrOf(4), "0"}, {addrOf(26), "cv"}, {addrOf(4), "bal"}})},
		{"revert_then_once", callSeq([]calls{{addrOf(26), "cv"}, {addrOf(4), "cv"}})},
		{"create_then_twice", codeCreateThenCall(initCode(codeSelfdestructTo(w.plain[0])), []string{"0", "cv"})},
		{"twice_to_contract", callSeq([]calls{{addrOf(13), "0"}, {addrOf(13), "cv"}})},
		{"create_then_thrice", codeCreateThenCall(initCode(codeSelfdestructTo(w.plain[4])), []string{"9", "cv", "0"})},
	}
	if len(fixed) != nFixed {
		panic("library size")
	}
	var all []lc
	all = append(all, fixed...)
	var libSoFar []libContract
	for i, f := range fixed {
		libSoFar = append(libSoFar, libContract{Name: f.name, Addr: addrOf(i), Code: f.code})
	}
	for i := 0; i < nRandom; i++ {
		all = append(all, lc{fmt.Sprintf("random%d", i), randomCode(r, targets, libSoFar)})
	}
	price := new(big.Int).Mul(big.NewInt(2500), big.NewInt(constants.GWei))
	txs = nil
	for i, l := range all {
		etx := w.signTx(w.baseChainID(), 0, uint64(i), nil, big.NewInt(0), 400000, price, initCode(l.code))
		otx, err := ontTx(etx)
		if err != nil {
			return err
		}
		txs = append(txs, otx)
	}
	if err := w.addBlockChecked(txs, "deploy"); err != nil {
		return err
	}
	ov := w.store.VerifC07Overlay()
	cache := storage.NewCacheDB(ov)
	for i, l := range all {
		a := addrOf(i)
		acct, _ := cache.GetEthAccount(ethcomm.Address(a))
		code, _ := cache.GetEthCode(acct.CodeHash)
		if string(code) != string(l.code) {
			return fmt.Errorf("library contract %s not deployed as expected (code %x, want %x)", l.name, code, l.code)
		}
		w.lib = append(w.lib, libContract{Name: l.name, Addr: a, Code: l.code})
		w.know(a)
	}
	return nil
}

// ---------- running a scenario ----------

func (w *world) baseChainID() uint32 { return constants.EIP155_CHAINID_POLARIS }

// addBlockChecked executes a block through the real ledger (AddBlock) and checks that the sum of
// all ONG balances in the state did not change (the transactions of the base chain pay no fee to
// anybody outside the state).
func (w *world) addBlockChecked(txs []*types.Transaction, what string) error {
	config.DefConfig.P2PNode.EVMChainId = w.baseChainID()
	before := w.dumpOverlay(w.store.VerifC07Overlay())
	if _, err := w.kit.AddBlock(txs); err != nil {
		return fmt.Errorf("block %s: %v", what, err)
	}
	after := w.dumpOverlay(w.store.VerifC07Overlay())
	w.c.Eval()
	w.c.Count("block:" + what)
	if before.total().Cmp(after.total()) != 0 {
		w.c.Fail("evm:ong-total-changed", "block executed by the ledger changed the ONG sum", map[string]string{"block": what},
			after.total().String(), before.total().String())
	}
	return nil
}

func (w *world) ongOf(a common.Address) *big.Int {
	cache := storage.NewCacheDB(w.store.VerifC07Overlay())
	v, err := ong.OngBalanceHandle{}.GetBalance(cache, a)
	if err != nil {
		panic(err)
	}
	return v
}

func setBalance(ov interface{ Error() error }, cache *storage.CacheDB, a common.Address, v *big.Int) {
	if err := (ong.OngBalanceHandle{}).SetBalance(cache, a, v); err != nil {
		panic(err)
	}
	cache.Commit()
}

type txInfo struct {
	spec     TxSpec
	from     common.Address
	to       *common.Address
	price    *big.Int
	value    *big.Int
	data     []byte
	nonce    uint64
	stNonce  uint64
	tx       *ethtypes.Transaction
	chain    uint32
	height   uint32
	checkNon bool
}

func (w *world) buildTx(sc *Scenario, spec TxSpec, pre *dump, created []common.Address) *txInfo {
	ti := &txInfo{spec: spec, chain: sc.ChainID, height: sc.Height, checkNon: !spec.NoCheck}
	ti.from = w.addrs[spec.From%nSenders]
	if strings.HasPrefix(spec.To, "c") {
		// the contract created by an earlier transaction of this scenario (or a plain address)
		var j int
		fmt.Sscanf(spec.To[1:], "%d", &j)
		a := w.plain[j%len(w.plain)]
		if len(created) > 0 {
			a = created[j%len(created)]
		}
		ti.to = &a
	} else if spec.To != "" {
		a, ok := w.resolve(spec.To)
		if !ok {
			panic("bad to ref " + spec.To)
		}
		ti.to = &a
	}
	ti.price = new(big.Int).Mul(new(big.Int).SetUint64(spec.PriceGwei), big.NewInt(constants.GWei))
	ti.price.Add(ti.price, new(big.Int).SetUint64(spec.PriceWei))
	ti.value = bigOf(spec.Value)
	ti.data = hx.UnHex(spec.Data)
	ti.stNonce = pre.nonce(ti.from)
	n := int64(ti.stNonce) + spec.NonceOff
	if n < 0 {
		n = 0
	}
	ti.nonce = uint64(n)
	ti.tx = w.signTx(sc.ChainID, spec.From%nSenders, ti.nonce, ti.to, ti.value, spec.GasLimit, ti.price, ti.data)
	return ti
}

// runScenario applies the scenario; each transaction is checked by the oracle and recorded as a
// correspondence case. It returns false when an oracle failure was recorded.
func (w *world) runScenario(sc *Scenario) {
	ovA, ovB := w.store.VerifC07Overlay(), w.store.VerifC07Overlay()
	cacheA, cacheB := storage.NewCacheDB(ovA), storage.NewCacheDB(ovB)
	for _, p := range sc.Pre {
		a, ok := w.resolve(p.Who)
		if !ok {
			panic("bad pre ref " + p.Who)
		}
		setBalance(ovA, cacheA, a, bigOf(p.Bal))
		setBalance(ovB, cacheB, a, bigOf(p.Bal))
	}
	env := txEnv{ChainID: sc.ChainID, Height: sc.Height}
	var created []common.Address
	for i, spec := range sc.Txs {
		pre := w.dumpOverlay(ovA)
		ti := w.buildTx(sc, spec, pre, created)
		if ti.to == nil {
			a := common.Address(crypto.CreateAddress(ethcomm.Address(ti.from), ti.nonce))
			created = append(created, a)
			w.know(a)
		}
		// an affordable gas amount in the billions would keep a looping contract busy for hours
		eff := new(big.Int).SetUint64(spec.GasLimit)
		if ti.price.Sign() > 0 {
			if q := new(big.Int).Div(pre.bal(ti.from), ti.price); q.Cmp(eff) < 0 {
				eff = q
			}
		}
		if eff.Cmp(big.NewInt(5000000)) > 0 && (ti.to == nil || pre.hasCode(*ti.to)) {
			w.c.Count("tx:skipped-unbounded-gas")
			continue
		}
		if _, err := ontTx(ti.tx); err != nil {
			// never reaches the handler in a node: the Ontology transaction decoder refuses it
			w.c.Count("tx:decoder-rejected")
			continue
		}
		ob := w.applyBoth(env, ovA, ovB, cacheA, cacheB, ti.tx, ti.checkNon)
		prefix := *sc
		prefix.Txs = append([]TxSpec{}, sc.Txs[:i+1]...)
		w.judge(&prefix, ti, ob)
		if ob.err != nil || ob.panicA != "" || ob.dbErr {
			return // the overlay carries an error now: in a node the block is rejected
		}
	}
}

// ---------- generator ----------

type generator struct {
	r *rand.Rand
	w *world
}

var gasLimits = []uint64{0, 20000, 20999, 21000, 21001, 21016, 23000, 30000, 52999, 53000, 60000, 100000, 250000, 1000000, 1 << 40, 1<<63 - 1, 1<<64 - 1}

func (g *generator) pick(xs ...string) string { return xs[g.r.Intn(len(xs))] }

func (g *generator) tx(sc *Scenario) TxSpec {
	r := g.r
	t := TxSpec{From: r.Intn(nSenders)}
	if r.Intn(100) < 70 {
		t.From = r.Intn(3) // the funded ones more often
	}
	switch r.Intn(20) {
	case 0:
		t.NonceOff = 1
	case 1:
		t.NonceOff = -1
	case 2:
		t.NonceOff = int64(r.Intn(1000)) - 500
	}
	switch r.Intn(10) {
	case 0:
		t.PriceGwei = 0
	case 1:
		t.PriceGwei = uint64(1 + r.Intn(5000))
	case 2:
		t.PriceGwei = 1
	case 3:
		t.PriceGwei = 18000000000 // ~ 2^64 / 1e9: the largest prices the decoder lets through
	default:
		t.PriceGwei = 2500
	}
	if r.Intn(60) == 0 {
		t.PriceWei = uint64(1 + r.Intn(999999999))
	}
	switch k := r.Intn(100); {
	case k < 30:
		t.GasLimit = gasLimits[r.Intn(len(gasLimits))]
	case k < 55:
		t.GasLimit = uint64(21000 + r.Intn(200000))
	default:
		t.GasLimit = []uint64{100000, 250000, 400000, 1000000}[r.Intn(4)]
	}
	switch r.Intn(16) {
	case 0, 1, 2, 3:
		t.Value = "0"
	case 4, 5:
		t.Value = fmt.Sprint(1 + r.Intn(100000))
	case 6:
		t.Value = "1000000000000000000" // 1 ONG
	case 7:
		t.Value = new(big.Int).Lsh(big.NewInt(1), uint(r.Intn(200))).String()
	default:
		t.Value = fmt.Sprint(r.Intn(1000000000))
	}
	k := r.Intn(100)
	switch {
	case k < 12:
		t.To = ""
		t.Data = hx.Hex(g.initCode())
	case k < 22:
		t.To = fmt.Sprintf("p%d", r.Intn(len(g.w.plain)))
	case k < 27:
		t.To = fmt.Sprintf("s%d", r.Intn(nSenders))
	case k < 29:
		t.To = "fee"
	case k < 31:
		t.To = fmt.Sprintf("pre%d", 1+r.Intn(9))
	case k < 39:
		t.To = fmt.Sprintf("c%d", r.Intn(4))
	default:
		t.To = fmt.Sprintf("l%d", r.Intn(len(g.w.lib)))
		if r.Intn(2) == 0 {
			t.Data = hx.Hex(g.w.c.Bytes(1 + r.Intn(40)))
		}
	}
	if t.To != "" && t.Data == "" && r.Intn(6) == 0 {
		d := make([]byte, r.Intn(30))
		for i := range d {
			if r.Intn(2) == 0 {
				d[i] = byte(r.Intn(256))
			}
		}
		t.Data = hx.Hex(d)
	}
	t.NoCheck = r.Intn(12) == 0
	return t
}

func (g *generator) initCode() []byte {
	r := g.r
	w := g.w
	switch r.Intn(10) {
	case 0:
		return nil // empty init code: an account with nonce 1 and no code
	case 1:
		return codeRevert()
	case 2:
		return codeInvalid()
	case 3:
		return codeSelfdestructSelf() // constructor destroys the new contract, beneficiary = itself
	case 4:
		return codeSelfdestructTo(w.plain[r.Intn(len(w.plain))])
	case 5:
		return codeLoop()
	case 6:
		return codeForward(w.plain[2], false)
	case 7:
		return initCode(randomCode(r, w.plain, w.lib))
	default:
		return initCode(w.lib[r.Intn(len(w.lib))].Code)
	}
}

func (g *generator) scenario() *Scenario {
	r := g.r
	sc := &Scenario{}
	switch r.Intn(10) {
	case 0, 1, 2:
		sc.ChainID = constants.EIP155_CHAINID_MAINNET
	case 3:
		sc.ChainID = 12345
	default:
		sc.ChainID = constants.EIP155_CHAINID_POLARIS
	}
	switch r.Intn(12) {
	case 0:
		sc.Height = buyGasFixHeight - 1
	case 1:
		sc.Height = buyGasFixHeight
	case 2:
		sc.Height = uint32(sevm.RefundHeight) + uint32(r.Intn(3)) - 1
	case 3:
		sc.Height = uint32(r.Uint32())
	default:
		sc.Height = 3 + uint32(r.Intn(1000))
	}
	n := 1 + r.Intn(7)
	for i := 0; i < n; i++ {
		sc.Txs = append(sc.Txs, g.tx(sc))
	}
	// balance overrides around the thresholds of the first transaction of some sender
	if r.Intn(3) == 0 {
		t := sc.Txs[0]
		price := new(big.Int).Mul(new(big.Int).SetUint64(t.PriceGwei), big.NewInt(constants.GWei))
		cost := new(big.Int).Mul(price, new(big.Int).SetUint64(t.GasLimit))
		var b *big.Int
		switch r.Intn(7) {
		case 0:
			b = big.NewInt(0)
		case 1:
			b = new(big.Int).Sub(cost, big.NewInt(1))
		case 2:
			b = new(big.Int).Set(cost)
		case 3:
			b = new(big.Int).Add(cost, bigOf(t.Value))
		case 4:
			b = new(big.Int).Sub(new(big.Int).Add(cost, bigOf(t.Value)), big.NewInt(1))
		case 5: // pays for part of the gas only, with a remainder below the price
			b = new(big.Int).Add(new(big.Int).Mul(price, big.NewInt(int64(20000+r.Intn(60000)))), big.NewInt(int64(r.Intn(1000000000))))
		default:
			b = new(big.Int).Add(new(big.Int).Mul(price, big.NewInt(int64(r.Intn(30000)))), big.NewInt(int64(r.Intn(1000))))
		}
		if b.Sign() < 0 {
			b = big.NewInt(0)
		}
		// keep it below the total supply so that the uint64 storage form cannot overflow
		max := new(big.Int).Mul(big.NewInt(1000000000), big.NewInt(1000000000000000000))
		if b.Cmp(max) > 0 {
			b = max
		}
		sc.Pre = append(sc.Pre, PreOp{Who: fmt.Sprintf("s%d", t.From%nSenders), Bal: b.String()})
	}
	// give some library contracts a balance of their own (what SELFDESTRUCT moves or burns)
	if r.Intn(2) == 0 {
		for i := 0; i < 1+r.Intn(3); i++ {
			sc.Pre = append(sc.Pre, PreOp{Who: fmt.Sprintf("l%d", r.Intn(len(g.w.lib))), Bal: fmt.Sprint(1 + r.Intn(1000000))})
		}
	}
	return sc
}
