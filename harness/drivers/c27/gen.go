package c27

// Gen/MerklePathConsts.v and Gen/MerklePathFormulas.v: what merkle/merkle_hasher.go says right now.
//   * prefix bytes of HashLeaf / HashChildren (the package-level functions used by the cross-chain
//     path code, not the TreeHasher methods) are read from the AST: the first argument of the
//     first append call must be a one-element []byte literal;
//   * LEFT, RIGHT, MAX_SIZE, UINT256_SIZE are printed from the linked package;
//   * the integer formulas (path size bound, number of proof steps, next-level length, parent
//     index) are translated from the function bodies by the shared expression translator.

import (
	"fmt"
	"go/ast"
	"go/parser"
	"go/token"
	"path/filepath"
	"strconv"

	"github.com/ontio/ontology/common"
	"github.com/ontio/ontology/merkle"

	"verif/harness/gen"
)

// prefixByte returns the one-byte literal that a package-level function prepends with
// append([]byte{<b>}, ...).
func prefixByte(f *ast.File, fn string) (int64, error) {
	for _, d := range f.Decls {
		fd, ok := d.(*ast.FuncDecl)
		if !ok || fd.Name.Name != fn || fd.Recv != nil || fd.Body == nil {
			continue
		}
		var found *ast.CallExpr
		ast.Inspect(fd.Body, func(n ast.Node) bool {
			if ce, ok := n.(*ast.CallExpr); ok && found == nil {
				if id, ok := ce.Fun.(*ast.Ident); ok && id.Name == "append" {
					found = ce
				}
			}
			return true
		})
		if found == nil || len(found.Args) < 1 {
			return 0, fmt.Errorf("%s: no append call", fn)
		}
		cl, ok := found.Args[0].(*ast.CompositeLit)
		if !ok || len(cl.Elts) != 1 {
			return 0, fmt.Errorf("%s: first append argument is not a one-element composite literal", fn)
		}
		at, ok := cl.Type.(*ast.ArrayType)
		if !ok || at.Len != nil {
			return 0, fmt.Errorf("%s: literal is not a slice", fn)
		}
		if id, ok := at.Elt.(*ast.Ident); !ok || id.Name != "byte" {
			return 0, fmt.Errorf("%s: literal is not []byte", fn)
		}
		bl, ok := cl.Elts[0].(*ast.BasicLit)
		if !ok || bl.Kind != token.INT {
			return 0, fmt.Errorf("%s: prefix is not an integer literal", fn)
		}
		return strconv.ParseInt(bl.Value, 0, 64)
	}
	return 0, fmt.Errorf("function %s not found", fn)
}

// Sites are the integer expressions of the path code the theorems depend on.
var Sites = []gen.Site{
	// size := len(hashes)*(common.UINT256_SIZE+1) + len(data) + 8   (compared with MAX_SIZE)
	{Name: "leaf_path_size", File: "merkle/merkle_hasher.go", Func: "MerkleLeafPath", Loc: "assign:size",
		Subst: map[string]string{"len(hashes)": "n", "len(data)": "m", "common.UINT256_SIZE": "hsz"}, Vars: []string{"n", "m", "hsz"}},
	// nIndex := index / 2
	{Name: "path_parent_index", File: "merkle/merkle_hasher.go", Func: "MerkleLeafPath", Loc: "assign:nIndex",
		Subst: map[string]string{"index": "index"}, Vars: []string{"index"}},
	// size := int((source.Size() - source.Pos()) / common.UINT256_SIZE)   (number of loop iterations)
	{Name: "prove_steps", File: "merkle/merkle_hasher.go", Func: "MerkleProve", Loc: "assign:size",
		Subst: map[string]string{"source.Size() - source.Pos()": "rem", "common.UINT256_SIZE": "hsz"}, Vars: []string{"rem", "hsz"}},
	// nextLevel := make([]common.Uint256, levelLen/2+remainder)
	{Name: "next_level_len", File: "merkle/merkle_hasher.go", Func: "MerkleHashes", Loc: "callarg:make:1#1",
		Subst: map[string]string{"len(level)": "n"}, Vars: []string{"n"}},
}

func registerGen() {
	gen.RegisterFile("MerklePathFormulas.v", gen.SitesProducer(Sites))
	gen.RegisterFile("MerklePathConsts.v", func(repo string) ([]byte, []string) {
		var errs []string
		fset := token.NewFileSet()
		f, err := parser.ParseFile(fset, filepath.Join(repo, "merkle", "merkle_hasher.go"), nil, 0)
		var lp, np int64 = -1, -1
		if err != nil {
			errs = append(errs, err.Error())
		} else {
			if lp, err = prefixByte(f, "HashLeaf"); err != nil {
				errs = append(errs, err.Error())
			}
			if np, err = prefixByte(f, "HashChildren"); err != nil {
				errs = append(errs, err.Error())
			}
		}
		cs := []gen.Const{
			{Name: "MP_LEAF_PREFIX", Type: "N", Value: fmt.Sprintf("%d%%N", lp), Comment: "merkle.HashLeaf: append([]byte{<this>}, data...)"},
			{Name: "MP_NODE_PREFIX", Type: "N", Value: fmt.Sprintf("%d%%N", np), Comment: "merkle.HashChildren: append([]byte{<this>}, left[:]...)"},
			{Name: "MP_LEFT", Type: "N", Value: fmt.Sprintf("%d%%N", merkle.LEFT), Comment: "merkle.LEFT"},
			{Name: "MP_RIGHT", Type: "N", Value: fmt.Sprintf("%d%%N", merkle.RIGHT), Comment: "merkle.RIGHT"},
			{Name: "MP_MAX_SIZE", Type: "Z", Value: fmt.Sprintf("%d%%Z", merkle.MAX_SIZE), Comment: "merkle.MAX_SIZE"},
			{Name: "MP_HASH_SIZE", Type: "nat", Value: fmt.Sprintf("%d%%nat", common.UINT256_SIZE), Comment: "common.UINT256_SIZE"},
		}
		return gen.EmitConsts("", cs), errs
	})
}
