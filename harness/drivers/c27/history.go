package c27

// History oracle: every output of MerkleLeafPath / MerkleHashes / HashFullTreeWithLeafHash must be
// a function of the CURRENT contents of the hash list, whatever was called before and however the
// caller's slice was reused.  One long-lived []common.Uint256 per length is modified in place
// between calls (one entry, several, all, append-then-truncate to the same length, nothing), the
// functions are called in varying orders (root before path, path twice, ...), and every result is
// compared with an independent computation (crypto/sha256, written from the specification) on a
// copy of the current contents.

import (
	"bytes"
	"fmt"
	"math/bits"
	"strconv"
	"strings"

	"github.com/ontio/ontology/common"
	"github.com/ontio/ontology/merkle"

	"verif/harness/hx"
)

type histStep struct {
	Values      []string `json:"values"`                    // hex; entry i of the buffer becomes HashLeaf_spec(values[i]), written in place
	AppendTrunc bool     `json:"append_truncate,omitempty"` // buf = append(buf, zero)[:n] first
	Calls       []string `json:"calls"`                     // root | levels | path:<i>
}

// refLevels: the level-by-level tree in MerkleHashes' layout (levels[d] = leaves, levels[0] = [root]).
func refLevels(hs []common.Uint256) [][]common.Uint256 {
	d := bits.Len(uint(len(hs) - 1))
	levels := make([][]common.Uint256, d+1)
	levels[d] = append([]common.Uint256{}, hs...)
	for i := d; i > 0; i-- {
		cur := levels[i]
		var nx []common.Uint256
		for j := 0; j+1 < len(cur); j += 2 {
			nx = append(nx, refChildren(cur[j], cur[j+1]))
		}
		if len(cur)%2 == 1 {
			nx = append(nx, cur[len(cur)-1])
		}
		levels[i-1] = nx
	}
	return levels
}

type histFailure struct {
	step        int
	class, what string
	got, want   string
}

// runHistory executes the steps on one long-lived buffer and returns the first deviation.
func runHistory(c *hx.Ctx, n, extraCap int, steps []histStep) *histFailure {
	buf := make([]common.Uint256, n, n+extraCap)
	for si, st := range steps {
		if st.AppendTrunc {
			buf = append(buf, common.Uint256{})[:n]
		}
		vals := make([][]byte, n)
		for i := 0; i < n; i++ {
			vals[i] = hx.UnHex(st.Values[i])
			if h := refLeaf(vals[i]); buf[i] != h {
				buf[i] = h // in place: same slice, same length
			}
		}
		cur := append([]common.Uint256{}, buf...)
		spec := refLevels(cur)
		specRoot := spec[0][0]
		d := len(spec) - 1
		for _, call := range st.Calls {
			var f *histFailure
			switch {
			case call == "root":
				got, pm := rfcRoot(buf)
				c.Eval()
				if pm != "" || got != specRoot {
					f = &histFailure{si, "history:root-stale", call, pm + hx.Hex(got[:]), hx.Hex(specRoot[:])}
				}
			case call == "levels":
				var lv [][]common.Uint256
				_, pm := hx.Recover(func() { lv = merkle.MerkleHashes(buf, merkle.VerifDepth(n)) })
				c.Eval()
				ok := pm == "" && len(lv) == len(spec)
				for i := 0; ok && i < len(spec); i++ {
					ok = len(lv[i]) == len(spec[i])
					for j := 0; ok && j < len(spec[i]); j++ {
						ok = lv[i][j] == spec[i][j]
					}
				}
				if !ok {
					f = &histFailure{si, "history:levels-stale", call, pm, "the levels of the current contents"}
				}
			case strings.HasPrefix(call, "path:"):
				i, _ := strconv.Atoi(call[5:])
				idx := 0
				for cur[idx] != cur[i] { // getIndex finds the first occurrence
					idx++
				}
				want := encodePath(vals[i], stepsFrom(spec, d, idx))
				p, _, kind := leafPath(vals[i], buf)
				c.Eval()
				if kind != "ok" {
					f = &histFailure{si, "history:path-missing", call, kind, hx.Hex(want)}
				} else if v, _, pk := prove(p, specRoot); pk != "ok" || !bytes.Equal(v, vals[i]) {
					f = &histFailure{si, "history:path-stale", call + ": generated path does not prove its value against the root of the current list",
						fmt.Sprintf("path %x -> MerkleProve: %s", p, pk), hx.Hex(want)}
				} else if !bytes.Equal(p, want) {
					f = &histFailure{si, "history:path-differs", call, hx.Hex(p), hx.Hex(want)}
				}
			}
			if f == nil {
				for i := range cur {
					if buf[i] != cur[i] {
						f = &histFailure{si, "history:input-modified", call + " changed the caller's slice", "", ""}
						break
					}
				}
			}
			if f != nil {
				return f
			}
		}
	}
	return nil
}

func reportHistory(c *hx.Ctx, n, extraCap int, steps []histStep, f *histFailure) {
	c.Fail(f.class, "every output is a function of the current list contents, regardless of call history and slice reuse",
		replayIn{Kind: "history", N: n, Cap: extraCap, History: steps, Note: fmt.Sprintf("deviation at step %d, call %s", f.step, f.what)},
		f.got, f.want)
}

// historyOracle generates histories for one length.
func historyOracle(c *hx.Ctx, n, nSteps int) {
	extraCap := []int{0, 4}[c.Intn(2)]
	vals := make([]string, n)
	for i := range vals {
		vals[i] = hx.Hex(c.Bytes(4 + c.Intn(6)))
	}
	var steps []histStep
	for s := 0; s < nSteps; s++ {
		st := histStep{}
		changed := -1
		kind := c.Intn(6)
		if s == 0 {
			kind = 0
		}
		switch kind {
		case 1, 4: // one entry (4: after append-then-truncate)
			changed = c.Intn(n)
			vals[changed] = hx.Hex(c.Bytes(4 + c.Intn(6)))
			st.AppendTrunc = kind == 4
		case 2: // several entries
			for k := 0; k < 1+c.Intn(4); k++ {
				changed = c.Intn(n)
				vals[changed] = hx.Hex(c.Bytes(4 + c.Intn(6)))
			}
		case 3: // all entries
			for i := range vals {
				vals[i] = hx.Hex(c.Bytes(4 + c.Intn(6)))
			}
			changed = c.Intn(n)
		case 5:
			st.AppendTrunc = true
		}
		c.Count([]string{"history:no-change", "history:one-entry", "history:several-entries", "history:all-entries",
			"history:append-truncate+one-entry", "history:append-truncate"}[kind])
		st.Values = append([]string{}, vals...)
		other := c.Intn(n)
		target := other
		if changed >= 0 {
			target = changed
		}
		orders := [][]string{
			{fmt.Sprint("path:", target)},
			{fmt.Sprint("path:", other), fmt.Sprint("path:", target)},
			{"root", fmt.Sprint("path:", other)},
			{fmt.Sprint("path:", target), fmt.Sprint("path:", target), "root"},
			{"levels", fmt.Sprint("path:", target), "root"},
			{fmt.Sprint("path:", other), "levels"},
			{"root", "levels"},
		}
		st.Calls = orders[c.Intn(len(orders))]
		steps = append(steps, st)
	}
	f := runHistory(c, n, extraCap, steps)
	c.Nontrivial(fmt.Sprintf("history/%d/%s", n, strings.Join(steps[len(steps)-1].Values, "")))
	if f == nil {
		return
	}
	// shorten: the shortest window of steps ending at the deviating one that still deviates
	for k := f.step - 1; k >= 0; k-- {
		short := steps[k : f.step+1]
		if g := runHistory(c, n, extraCap, short); g != nil {
			reportHistory(c, n, extraCap, short, g)
			return
		}
	}
	reportHistory(c, n, extraCap, steps[:f.step+1], f)
}

// historyProbe: the smallest history that separates "function of the current contents" from
// "function of what was there at the first call": ask for the path of entry 0, replace the LAST
// entry of the same slice in place, ask again (the second path needs a fresh interior sibling).
func historyProbe(c *hx.Ctx, n int) {
	vals := make([]string, n)
	for i := range vals {
		vals[i] = hx.Hex(c.Bytes(4 + c.Intn(6)))
	}
	a := histStep{Values: append([]string{}, vals...), Calls: []string{"path:0"}}
	vals[n-1] = hx.Hex(c.Bytes(4 + c.Intn(6)))
	b := histStep{Values: append([]string{}, vals...), Calls: []string{"path:0"}}
	steps := []histStep{a, b}
	c.Count("history:two-step-probe")
	if f := runHistory(c, n, 0, steps); f != nil {
		reportHistory(c, n, 0, steps, f)
	}
}
