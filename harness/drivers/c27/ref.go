package c27

// Reference computation of the RFC-6962 style hashes, written from the specification (0x00 leaf
// prefix, 0x01 node prefix) with crypto/sha256.  It serves two purposes: it records every
// (preimage, digest) pair as the hash table the Coq model runs with (Corr/C27.v, tbl_hash), and
// it gives the oracle an independent root to compare the implementation's roots with.

import (
	"crypto/sha256"
	"encoding/binary"

	"github.com/ontio/ontology/common"
)

type table struct {
	seen    map[string]bool
	entries []string // Coq pairs
}

func newTable() *table { return &table{seen: map[string]bool{}} }

func (t *table) h(pre []byte) common.Uint256 {
	d := sha256.Sum256(pre)
	k := string(pre)
	if !t.seen[k] {
		t.seen[k] = true
		t.entries = append(t.entries, "("+cb(pre)+","+cb(d[:])+")")
	}
	return d
}

func (t *table) leaf(data []byte) common.Uint256 {
	return t.h(append([]byte{0}, data...))
}

func (t *table) children(l, r common.Uint256) common.Uint256 {
	b := append([]byte{1}, l[:]...)
	return t.h(append(b, r[:]...))
}

func (t *table) coq() string { return consList(t.entries) }

// refLevelRoot: pair up level by level, promoting an odd last element.
func (t *table) refLevelRoot(hs []common.Uint256) common.Uint256 {
	cur := append([]common.Uint256{}, hs...)
	for len(cur) > 1 {
		var nx []common.Uint256
		for i := 0; i+1 < len(cur); i += 2 {
			nx = append(nx, t.children(cur[i], cur[i+1]))
		}
		if len(cur)%2 == 1 {
			nx = append(nx, cur[len(cur)-1])
		}
		cur = nx
	}
	return cur[0]
}

// refRFC: RFC 6962 merkle tree hash over leaf hashes: split at the largest power of two < n.
func (t *table) refRFC(hs []common.Uint256) common.Uint256 {
	switch len(hs) {
	case 0:
		return t.h(nil)
	case 1:
		return hs[0]
	}
	k := 1
	for k*2 < len(hs) {
		k *= 2
	}
	return t.children(t.refRFC(hs[:k]), t.refRFC(hs[k:]))
}

// refProve walks a path the way a verifier would, only to record the preimages involved.
func (t *table) refProve(path []byte) {
	pos := 0
	if len(path) < 1 {
		return
	}
	var n uint64
	fb := path[0]
	pos = 1
	switch {
	case fb < 0xfd:
		n = uint64(fb)
	case fb == 0xfd:
		if len(path) < pos+2 {
			return
		}
		n = uint64(binary.LittleEndian.Uint16(path[pos:]))
		pos += 2
	case fb == 0xfe:
		if len(path) < pos+4 {
			return
		}
		n = uint64(binary.LittleEndian.Uint32(path[pos:]))
		pos += 4
	default:
		if len(path) < pos+8 {
			return
		}
		n = binary.LittleEndian.Uint64(path[pos:])
		pos += 8
	}
	if n > uint64(len(path)-pos) {
		return
	}
	value := path[pos : pos+int(n)]
	pos += int(n)
	hash := t.leaf(value)
	size := (len(path) - pos) / 32
	for i := 0; i < size; i++ {
		if len(path)-pos < 33 {
			return
		}
		f := path[pos]
		var v common.Uint256
		copy(v[:], path[pos+1:pos+33])
		pos += 33
		if f == 0 {
			hash = t.children(v, hash)
		} else {
			hash = t.children(hash, v)
		}
	}
}
