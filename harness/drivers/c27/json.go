package c27

import "encoding/json"

func jsonUnmarshal(b []byte, v interface{}) error { return json.Unmarshal(b, v) }
