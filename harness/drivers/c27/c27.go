// Package c27: cross-chain merkle paths (merkle.MerkleLeafPath / MerkleProve / MerkleHashes /
// depth / HashLeaf / HashChildren and TreeHasher.HashFullTreeWithLeafHash).
//
// Correspondence: for every list size 1..64 a list of leaf hashes of random values, the tree
// levels and both roots, the path of EVERY member (and the code's own verdict on it), a
// non-member, a dozen mutated paths (value / sibling / position byte / truncation / trailing
// bytes / extra steps / non-minimal length prefix / foreign root / 32+ steps) and two
// domain-separation attacks, each with the code's answer; the Coq model re-computes all of them
// (Corr/C27.v).  depth(n) is recorded for boundary and random n up to 2^53.
//
// Oracle (directly on the implementation): every generated path proves its value against the
// RFC root the ledger stores; no accepted path yields a value whose leaf hash is outside the
// list; level root = RFC root = root recomputed from the specification; depth(n) = ceil(log2 n)
// for every n in 1..2^20; MAX_SIZE boundary; no panic.
package c27

import (
	"bytes"
	"crypto/sha256"
	"fmt"
	"math/bits"
	"strings"

	"github.com/ontio/ontology/common"
	"github.com/ontio/ontology/merkle"

	"verif/harness/hx"
)

func init() {
	registerGen()
	hx.Register("C27", Run)
}

type replayIn struct {
	Kind   string   `json:"kind"` // complete | sound | roots | depth | size
	Hashes []string `json:"hashes,omitempty"`
	Data   string   `json:"data,omitempty"`
	Path   string   `json:"path,omitempty"`
	N      int      `json:"n,omitempty"`
	Note   string   `json:"note,omitempty"`
	// kind "history": steps on one long-lived buffer of length N with Cap spare capacity
	Cap     int        `json:"cap,omitempty"`
	History []histStep `json:"history,omitempty"`
}

func hexes(hs []common.Uint256) []string {
	var out []string
	for _, h := range hs {
		out = append(out, hx.Hex(h[:]))
	}
	return out
}

func unhexes(ss []string) []common.Uint256 {
	var out []common.Uint256
	for _, s := range ss {
		var h common.Uint256
		copy(h[:], hx.UnHex(s))
		out = append(out, h)
	}
	return out
}

// cb prints a byte string as (B len words): 7 bytes per primitive 63-bit integer, little-endian
// (see Corr/C27.v); cases.v is read in uint63_scope.
func cb(b []byte) string {
	if len(b) == 0 {
		return "(B 0 nil)"
	}
	var ws []string
	for i := 0; i < len(b); i += 7 {
		var w uint64
		for j := 0; j < 7 && i+j < len(b); j++ {
			w |= uint64(b[i+j]) << uint(8*j)
		}
		ws = append(ws, fmt.Sprintf("%d", w))
	}
	return fmt.Sprintf("(B %d %s)", len(b), consList(ws))
}

// consList prints a Coq list with explicit constructors (the [a;b] notation is several times
// slower to elaborate on large terms).
func consList(items []string) string {
	var sb strings.Builder
	for _, it := range items {
		sb.WriteString("(cons ")
		sb.WriteString(it)
		sb.WriteByte(' ')
	}
	sb.WriteString("nil")
	sb.WriteString(strings.Repeat(")", len(items)))
	return sb.String()
}

func parens(items []string) []string {
	out := make([]string, len(items))
	for i, it := range items {
		out[i] = "(" + it + ")"
	}
	return out
}

func coqHashes(hs []common.Uint256) string {
	var it []string
	for _, h := range hs {
		it = append(it, cb(h[:]))
	}
	return consList(it)
}

// ---- running the implementation ----

func leafPath(data []byte, hs []common.Uint256) (path []byte, coq string, kind string) {
	var err error
	panicked, msg := hx.Recover(func() { path, err = merkle.MerkleLeafPath(data, hs) })
	switch {
	case panicked:
		return nil, "(inl EPanic)", "panic:" + msg
	case err == nil:
		return path, "(inr " + cb(path) + ")", "ok"
	case strings.Contains(err.Error(), "over max value"):
		return nil, "(inl ETooLarge)", "too-large"
	case strings.Contains(err.Error(), "doesn't exist"):
		return nil, "(inl ENotFound)", "not-found"
	}
	return nil, "(inl EPanic)", "unknown-error:" + err.Error()
}

func prove(path []byte, root common.Uint256) (value []byte, coq string, kind string) {
	var err error
	panicked, msg := hx.Recover(func() { value, err = merkle.MerkleProve(path, root) })
	switch {
	case panicked:
		return nil, "(inl EPanicV)", "panic:" + msg // no such constructor: the case fails to type-check on purpose
	case err == nil:
		return value, "(inr " + cb(value) + ")", "ok"
	case err.Error() == "read bytes error":
		return nil, "(inl EReadBytes)", "read-bytes"
	case err.Error() == "read byte error":
		return nil, "(inl EReadByte)", "read-byte"
	case err.Error() == "read hash error":
		return nil, "(inl EReadHash)", "read-hash"
	case strings.HasPrefix(err.Error(), "excepted root is not equal"):
		return nil, "(inl ERootMismatch)", "root-mismatch"
	}
	return nil, "(inl EPanicV)", "unknown-error:" + err.Error()
}

func rfcRoot(hs []common.Uint256) (root common.Uint256, panicMsg string) {
	_, panicMsg = hx.Recover(func() { root = merkle.TreeHasher{}.HashFullTreeWithLeafHash(hs) })
	return
}

func member(h common.Uint256, hs []common.Uint256) bool {
	for _, x := range hs {
		if x == h {
			return true
		}
	}
	return false
}

// ---- oracles ----

// oracleComplete: MerkleLeafPath(data, hs) for a member must give a path that MerkleProve accepts
// against the RFC root and that yields data.
func oracleComplete(c *hx.Ctx, hs []common.Uint256, rfc common.Uint256, data []byte) (path []byte, coq string) {
	in := replayIn{Kind: "complete", Hashes: hexes(hs), Data: hx.Hex(data)}
	path, coq, kind := leafPath(data, hs)
	c.Eval()
	c.Count("leafpath:" + strings.SplitN(kind, ":", 2)[0])
	if kind != "ok" {
		c.Fail("complete:no-path-for-member", "a member of the list within the size bound gets a path", in, kind, "a path")
		return nil, coq
	}
	v, _, pk := prove(path, rfc)
	c.Eval()
	if pk != "ok" || !bytes.Equal(v, data) {
		in.Path = hx.Hex(path)
		c.Fail("complete:generated-path-rejected", "the generated path proves the value against the list's root", in,
			fmt.Sprintf("%s %x", pk, v), "ok "+hx.Hex(data))
	}
	return path, coq
}

// oracleSound: whatever MerkleProve accepts against the list's root must be a value whose leaf
// hash is in the list.
func oracleSound(c *hx.Ctx, hs []common.Uint256, root common.Uint256, path []byte, what string) (coq string) {
	v, coq, kind := prove(path, root)
	c.Eval()
	c.Count("prove[" + what + "]:" + strings.SplitN(kind, ":", 2)[0])
	in := replayIn{Kind: "sound", Hashes: hexes(hs), Path: hx.Hex(path), Note: what}
	if strings.HasPrefix(kind, "panic") || strings.HasPrefix(kind, "unknown") {
		c.Fail("prove:"+strings.SplitN(kind, ":", 2)[0], "MerkleProve returns a value or one of its four errors", in, kind, nil)
	}
	if kind == "ok" && !member(refLeaf(v), hs) { // leaf hash per the specification, not per the code under test
		c.Fail("sound:nonmember-accepted", "no path proves a value whose leaf hash is not in the list", in,
			"accepted value "+hx.Hex(v), "rejected")
	}
	return coq
}

func oracleRoots(c *hx.Ctx, t *table, hs []common.Uint256) (rfc common.Uint256, levels [][]common.Uint256, ok bool) {
	in := replayIn{Kind: "roots", Hashes: hexes(hs)}
	rfc, pm := rfcRoot(hs)
	c.Eval()
	if pm != "" {
		c.Fail("root:panic", "HashFullTreeWithLeafHash does not panic", in, pm, nil)
		return rfc, nil, false
	}
	if want := t.refRFC(hs); rfc != want {
		c.Fail("root:rfc-differs-from-spec", "HashFullTreeWithLeafHash is the RFC-6962 tree hash with 0x01 node prefix", in, hx.Hex(rfc[:]), hx.Hex(want[:]))
	}
	if len(hs) == 0 {
		return rfc, nil, true
	}
	d := merkle.VerifDepth(len(hs))
	_, pm = hx.Recover(func() { levels = merkle.MerkleHashes(hs, d) })
	c.Eval()
	if pm != "" || len(levels) == 0 || len(levels[0]) != 1 {
		c.Fail("root:levels-malformed", "MerkleHashes(hs, depth(n)) ends in a single root", in, fmt.Sprint(pm, " depth ", d), nil)
		return rfc, nil, false
	}
	if levels[0][0] != rfc {
		c.Fail("root:levels-vs-rfc", "the level-by-level root is the RFC root stored as CrossStatesRoot", in, hx.Hex(levels[0][0][:]), hx.Hex(rfc[:]))
	}
	if want := t.refLevelRoot(hs); levels[0][0] != want {
		c.Fail("root:levels-differ-from-spec", "the level-by-level root is pairwise hashing with promotion of the odd element", in, hx.Hex(levels[0][0][:]), hx.Hex(want[:]))
	}
	return rfc, levels, true
}

func oracleDepth(c *hx.Ctx, n int) {
	got := merkle.VerifDepth(n)
	want := bits.Len(uint(n - 1))
	if got != want {
		c.Fail("depth:float-vs-int", "depth(n) = ceil(log2 n)", replayIn{Kind: "depth", N: n}, got, want)
	}
}

// oracleSize: the size check is the generated formula against MAX_SIZE (boundary exact).
func oracleSize(c *hx.Ctx, n, dataLen int) {
	hs := make([]common.Uint256, n)
	for i := range hs {
		hs[i][0] = byte(i)
		hs[i][1] = byte(i >> 8)
		hs[i][2] = 0xA5
	}
	data := bytes.Repeat([]byte{7}, dataLen)
	hs[n/2] = merkle.HashLeaf(data)
	size := n*(common.UINT256_SIZE+1) + dataLen + 8
	_, _, kind := leafPath(data, hs)
	c.Eval()
	want := "ok"
	if size > merkle.MAX_SIZE {
		want = "too-large"
	}
	c.Count("size-boundary:" + kind)
	if kind != want {
		c.Fail("size:bound", "MerkleLeafPath accepts exactly the inputs with n*33+len(data)+8 <= MAX_SIZE",
			replayIn{Kind: "size", N: n, Note: fmt.Sprint("dataLen=", dataLen)}, kind, want)
	}
}

// ---- path surgery ----

type pstep struct {
	pos byte
	sib common.Uint256
}

func encodePath(value []byte, steps []pstep) []byte {
	sink := common.NewZeroCopySink(nil)
	sink.WriteVarBytes(value)
	for _, s := range steps {
		sink.WriteByte(s.pos)
		sink.WriteHash(s.sib)
	}
	return sink.Bytes()
}

// stepsFrom climbs from element idx of levels[lv] to the root (levels as returned by MerkleHashes).
func stepsFrom(levels [][]common.Uint256, lv, idx int) []pstep {
	var out []pstep
	for ; lv > 0; lv-- {
		sub := levels[lv]
		if idx == len(sub)-1 && len(sub)%2 == 1 {
			idx /= 2
			continue
		}
		if idx%2 == 1 {
			out = append(out, pstep{0, sub[idx-1]})
		} else {
			out = append(out, pstep{1, sub[idx+1]})
		}
		idx /= 2
	}
	return out
}

func valueLenPrefix(path []byte) int { // size of the canonical varuint prefix for short values
	if path[0] < 0xfd {
		return 1
	}
	return 3
}

// mutations of one valid path (value v at index i, k steps)
func mutate(c *hx.Ctx, path []byte, vlen int, other []byte, kinds map[string][]byte) {
	pl := valueLenPrefix(path)
	stepsOff := pl + vlen
	k := (len(path) - stepsOff) / 33
	cp := func() []byte { return append([]byte{}, path...) }
	if vlen > 0 {
		p := cp()
		p[pl+c.Intn(vlen)] ^= byte(1 << uint(c.Intn(8)))
		kinds["value-bitflip"] = p
		p = cp()
		p[pl+vlen-1] ^= byte(1 << uint(c.Intn(8)))
		kinds["value-lastbyte"] = p
	}
	if k > 0 {
		p := cp()
		j := c.Intn(k)
		p[stepsOff+33*j+1+c.Intn(32)] ^= byte(1 << uint(c.Intn(8)))
		kinds["sibling-bitflip"] = p
		p = cp()
		p[stepsOff+33*c.Intn(k)] ^= 1
		kinds["position-flip"] = p
		p = cp()
		p[stepsOff+33*c.Intn(k)] = []byte{2, 0x80, 0xff}[c.Intn(3)]
		kinds["position-other"] = p
		kinds["drop-last-step"] = cp()[:len(path)-33]
		p = append(cp()[:stepsOff], path[stepsOff+33:]...)
		kinds["drop-first-step"] = p
		kinds["dup-last-step"] = append(cp(), path[len(path)-33:]...)
	}
	cut := []int{1, 2, 16, 31, 32}[c.Intn(5)]
	if cut < len(path) {
		kinds["truncate"] = cp()[:len(path)-cut]
	}
	kinds["trailing-short"] = append(cp(), c.Bytes(1+c.Intn(8))...)
	if 31-k > 0 {
		kinds["trailing-max-ignored"] = append(cp(), c.Bytes(31-k)...)
	}
	kinds["trailing-one-too-many"] = append(cp(), c.Bytes(32-k)...)
	kinds["extra-step"] = append(cp(), append([]byte{byte(c.Intn(2))}, c.Bytes(32)...)...)
	{ // non-minimal length prefix: 0xfd len16 for a short value
		p := append([]byte{0xfd, byte(vlen), byte(vlen >> 8)}, path[pl:]...)
		if pl == 1 {
			kinds["nonminimal-prefix"] = p
		}
	}
	if other != nil {
		sink := common.NewZeroCopySink(nil)
		sink.WriteVarBytes(other)
		kinds["other-member-value"] = append(sink.Bytes(), path[stepsOff:]...)
	}
}

var mutationOrder = []string{"value-lastbyte", "value-bitflip", "sibling-bitflip", "position-flip", "position-other", "drop-last-step",
	"drop-first-step", "dup-last-step", "truncate", "trailing-short", "trailing-max-ignored", "trailing-one-too-many",
	"extra-step", "nonminimal-prefix", "other-member-value"}

// ---- one list ----

// boundaryLens: value lengths around the SHA-256 block structure of 0x00||value and around the
// sizes a hashing fast path is likely to special-case.
var boundaryLens = []int{0, 1, 31, 32, 33, 63, 64, 65, 66, 127, 128, 129, 255, 256}

func valueLen(c *hx.Ctx) int {
	switch c.Intn(16) {
	case 0, 1, 2, 3:
		return boundaryLens[c.Intn(len(boundaryLens))]
	case 4:
		return c.Intn(301)
	}
	return 1 + c.Intn(40)
}

// refLeaf / refChildren: the specification's hashes straight from crypto/sha256.
func refLeaf(d []byte) common.Uint256 { return sha256.Sum256(append([]byte{0}, d...)) }
func refChildren(l, r common.Uint256) common.Uint256 {
	return sha256.Sum256(append(append([]byte{1}, l[:]...), r[:]...))
}

// listCase: fixedLen >= 0 gives every value that length (and then every member's path gets the
// last-byte mutation).
func listCase(c *hx.Ctx, n int, everyMember bool, nMutated int, fixedLen int) {
	t := newTable()
	values := make([][]byte, n)
	for i := range values {
		if fixedLen >= 0 {
			values[i] = c.Bytes(fixedLen)
		} else {
			values[i] = c.Bytes(valueLen(c))
		}
	}
	dup := n >= 2 && fixedLen != 0 && c.Intn(6) == 0
	if dup {
		values[n-1] = values[c.Intn(n-1)] // duplicate value: getIndex finds the first one
		c.Count("list:with-duplicate")
	}
	// domain-separation attack B needs a 64-byte value a||b with a = HashLeaf(secret)
	secret := c.Bytes(1 + c.Intn(20))
	attackIdx := -1
	var attackB common.Uint256
	if n >= 1 && !dup && fixedLen < 0 {
		attackIdx = c.Intn(n)
		a := merkle.HashLeaf(secret)
		copy(attackB[:], c.Bytes(32))
		values[attackIdx] = append(append([]byte{}, a[:]...), attackB[:]...)
	}
	hs := make([]common.Uint256, n)
	for i, v := range values {
		hs[i] = merkle.HashLeaf(v)
		c.Eval()
		if want := t.leaf(v); hs[i] != want {
			c.Fail("hash:leaf-differs-from-spec", "HashLeaf(d) = sha256(0x00 || d)", replayIn{Kind: "hash", Data: hx.Hex(v)}, hx.Hex(hs[i][:]), hx.Hex(want[:]))
		}
	}
	c.Count(fmt.Sprintf("list:n<=%d", 1<<uint(bits.Len(uint(n-1)))))
	rfc, levels, ok := oracleRoots(c, t, hs)
	if !ok {
		return
	}
	var items []string
	paths := make([][]byte, n)
	for i := 0; i < n; i++ {
		if !everyMember && i != 0 && i != n-1 && c.Intn(4) != 0 {
			continue
		}
		p, coq := oracleComplete(c, hs, rfc, values[i])
		paths[i] = p
		items = append(items, "IPath "+cb(values[i])+" "+coq)
		if p != nil {
			t.refProve(p)
			c.Nontrivial(fmt.Sprintf("member/%d/%d/%x", n, i, hs[i][:4]))
		}
	}
	// a non-member
	{
		nm := c.Bytes(valueLen(c))
		if fixedLen >= 0 {
			nm = c.Bytes(fixedLen)
		}
		for member(refLeaf(nm), hs) { // e.g. the empty value when a member is empty
			nm = c.Bytes(len(nm) + 1)
		}
		_, coq, kind := leafPath(nm, hs)
		c.Eval()
		c.Count("leafpath[non-member]:" + kind)
		if kind != "not-found" {
			c.Fail("leafpath:nonmember-not-rejected", "MerkleLeafPath reports a value whose leaf hash is not in the list",
				replayIn{Kind: "complete", Hashes: hexes(hs), Data: hx.Hex(nm), Note: "non-member"}, kind, "not-found")
		}
		t.leaf(nm)
		items = append(items, "IPath "+cb(nm)+" "+coq)
	}
	addProve := func(what string, p []byte, root common.Uint256) {
		t.refProve(p)
		coq := oracleSound(c, hs, root, p, what)
		items = append(items, "IProve "+cb(p)+" "+cb(root[:])+" "+coq)
		c.Nontrivial(fmt.Sprintf("prove/%s/%d/%x", what, n, p))
	}
	if fixedLen > 0 {
		for i := 0; i < n; i++ {
			if paths[i] != nil {
				p := append([]byte{}, paths[i]...)
				p[valueLenPrefix(p)+fixedLen-1] ^= byte(1 << uint(c.Intn(8)))
				addProve(fmt.Sprintf("value-lastbyte/len=%d", fixedLen), p, rfc)
			}
		}
	}
	// mutated paths of a few members
	for m := 0; m < nMutated; m++ {
		i := c.Intn(n)
		if paths[i] == nil {
			continue
		}
		var other []byte
		if n >= 2 {
			j := (i + 1 + c.Intn(n-1)) % n
			if !bytes.Equal(values[j], values[i]) {
				other = values[j]
			}
		}
		kinds := map[string][]byte{}
		mutate(c, paths[i], len(values[i]), other, kinds)
		// quick tier: a rotating subset of the mutation kinds per member keeps cases.v small
		for q, name := range mutationOrder {
			p, ok := kinds[name]
			if !ok || (c.Quick() && name != "value-lastbyte" && (q+n+m)%3 != 0) {
				continue
			}
			addProve(name, p, rfc)
		}
		var foreign common.Uint256
		copy(foreign[:], c.Bytes(32))
		if (n+m)%4 == 0 {
			addProve("foreign-root", paths[i], foreign)
		}
	}
	// paths without steps: a bare value is accepted only if its leaf hash is the root itself
	{
		bv := c.Bytes(valueLen(c))
		for member(refLeaf(bv), hs) {
			bv = c.Bytes(len(bv) + 1)
		}
		addProve("bare-nonmember-value", encodePath(bv, nil), rfc)
	}
	addProve("bare-member-value", encodePath(values[c.Intn(n)], nil), rfc)
	if n%16 == 1 {
		addProve("empty-path", nil, rfc)
		addProve("empty-value-only", []byte{0}, rfc)
	}
	// domain-separation attack A: present the preimage body (left||right) of an inner node as a value
	if len(levels) >= 2 && n >= 2 {
		lv := 1 + c.Intn(len(levels)-1) // children level
		sub := levels[lv]
		j := 2 * c.Intn(len(sub)/2)
		body := append(append([]byte{}, sub[j][:]...), sub[j+1][:]...)
		addProve("attack:inner-node-as-value", encodePath(body, stepsFrom(levels, lv-1, j/2)), rfc)
	}
	// domain-separation attack B: the leaf a||b of the list read as an inner node over a = HashLeaf(secret)
	if attackIdx >= 0 {
		steps := append([]pstep{{1, attackB}}, stepsFrom(levels, len(levels)-1, attackIdx)...)
		addProve("attack:leaf-as-inner-node", encodePath(secret, steps), rfc)
	}
	// 32 or more steps are never accepted
	if n == 1 || n == 33 {
		var steps []pstep
		for s := 0; s < 32+c.Intn(2); s++ {
			var h common.Uint256
			copy(h[:], c.Bytes(32))
			steps = append(steps, pstep{byte(c.Intn(2)), h})
		}
		addProve("long-path", encodePath(values[0], steps), rfc)
	}
	// the documented precondition: a list element that is itself an inner-node hash
	if n == 2 {
		var sib common.Uint256
		copy(sib[:], c.Bytes(32))
		v := c.Bytes(5)
		el := merkle.HashChildren(merkle.HashLeaf(v), sib)
		t2 := newTable()
		t2.children(t2.leaf(v), sib)
		p := encodePath(v, []pstep{{1, sib}})
		got, coq, kind := prove(p, el)
		c.Eval()
		c.Count("probe:node-hash-as-list-element:" + kind)
		if kind == "ok" && bytes.Equal(got, v) {
			c.Note("precondition probe: a one-element list [HashChildren(HashLeaf(v), s)] lets the path (v, RIGHT s) prove v (theorem c27_node_as_leaf_accepts); the chain only ever appends HashLeaf(data) to the list")
		}
		c.Case(fmt.Sprintf("(CList %s %s %s %s (cons (IProve %s %s %s) nil))", t2.coq(), coqHashes([]common.Uint256{el}), cb(el[:]),
			consList([]string{coqHashes([]common.Uint256{el})}), cb(p), cb(el[:]), coq),
			map[string]interface{}{"kind": "probe-node-as-leaf", "element": hx.Hex(el[:]), "path": hx.Hex(p)})
	}
	var lv []string
	for _, l := range levels {
		lv = append(lv, coqHashes(l))
	}
	c.Case(fmt.Sprintf("(CList %s\n  %s\n  %s\n  %s\n  %s)", t.coq(), coqHashes(hs), cb(rfc[:]), consList(lv), consList(parens(items))),
		map[string]interface{}{"kind": "list", "hashes": hexes(hs), "items": len(items)})
	if n == 3 || n == 5 {
		c.Sample(map[string]interface{}{"n": n, "hashes": hexes(hs), "root": hx.Hex(rfc[:]), "member0_path": hx.Hex(paths[0]), "items": len(items)})
	}
}

// lengthProbe: everything the property says, for one value length, against a list of true leaf hashes.
func lengthProbe(c *hx.Ctx, L int) {
	v, w := c.Bytes(L), c.Bytes(L+1)
	c.Eval()
	if got, want := merkle.HashLeaf(v), refLeaf(v); got != want {
		c.Fail("hash:leaf-differs-from-spec", "HashLeaf(d) = sha256(0x00 || d)", replayIn{Kind: "hash", Data: hx.Hex(v)}, hx.Hex(got[:]), hx.Hex(want[:]))
	}
	hs := []common.Uint256{refLeaf(v), refLeaf(w)}
	if c.Intn(2) == 0 {
		hs[0], hs[1] = hs[1], hs[0]
	}
	root := refChildren(hs[0], hs[1])
	p, _ := oracleComplete(c, hs, root, v)
	c.Count("length-probe")
	if p == nil || L == 0 {
		return
	}
	q := append([]byte{}, p...)
	q[valueLenPrefix(q)+L-1] ^= byte(1 << uint(c.Intn(8)))
	oracleSound(c, hs, root, q, "length-probe:value-lastbyte")
}

func replay(c *hx.Ctx, in replayIn) {
	hs := unhexes(in.Hashes)
	t := newTable()
	switch in.Kind {
	case "history":
		if f := runHistory(c, in.N, in.Cap, in.History); f != nil {
			reportHistory(c, in.N, in.Cap, in.History, f)
		}
	case "complete":
		rfc, _ := rfcRoot(hs)
		oracleComplete(c, hs, rfc, hx.UnHex(in.Data))
	case "sound":
		rfc, _ := rfcRoot(hs)
		oracleSound(c, hs, rfc, hx.UnHex(in.Path), in.Note)
	case "roots":
		oracleRoots(c, t, hs)
	case "depth":
		oracleDepth(c, in.N)
	case "children":
		if len(hs) == 2 {
			if got, want := merkle.HashChildren(hs[0], hs[1]), refChildren(hs[0], hs[1]); got != want {
				c.Fail("hash:children-differs-from-spec", "HashChildren(l, r) = sha256(0x01 || l || r)", in, hx.Hex(got[:]), hx.Hex(want[:]))
			}
		}
	case "hash":
		d := hx.UnHex(in.Data)
		if got, want := merkle.HashLeaf(d), t.leaf(d); got != want {
			c.Fail("hash:leaf-differs-from-spec", "HashLeaf(d) = sha256(0x00 || d)", in, hx.Hex(got[:]), hx.Hex(want[:]))
		}
	case "size":
		var dl int
		fmt.Sscanf(in.Note, "dataLen=%d", &dl)
		oracleSize(c, in.N, dl)
	}
}

func Run(c *hx.Ctx) {
	c.CoqModule("Corr.C27")
	c.CoqHeader("Open Scope uint63_scope.")
	var in replayIn
	if c.ReplayInput(&in) {
		replay(c, in)
		return
	}
	for _, raw := range c.CorpusInputs() {
		var ci replayIn
		if jsonUnmarshal(raw, &ci) == nil {
			replay(c, ci)
		}
	}
	// 1. depth: exhaustive on the implementation for 1..2^20; recorded cases at boundaries and beyond
	for n := 1; n <= 1<<20; n++ {
		oracleDepth(c, n)
	}
	c.Eval()
	c.Count("depth:exhaustive-1..2^20")
	depthCase := func(n int) {
		d := merkle.VerifDepth(n)
		c.Eval()
		c.Case(fmt.Sprintf("(CDepth %d%%N %s)", n, hx.CoqZ(int64(d))), map[string]interface{}{"kind": "depth", "n": n, "depth": d})
	}
	for n := 0; n <= 33; n++ {
		depthCase(n)
	}
	for k := 6; k <= 53; k++ {
		for _, dlt := range []int{-1, 0, 1} {
			depthCase(1<<uint(k) + dlt)
		}
	}
	for i := 0; i < c.N(60, 600); i++ {
		depthCase(1 + int(c.Rng.Uint64()>>uint(11+c.Intn(50))))
	}
	c.Count("depth:cases")
	// 2. the hash functions with the real SHA-256 model
	for i := 0; i < c.N(6, 40); i++ {
		d := c.Bytes([]int{0, 1, 31, 54, 55, 56, 64, 100}[c.Intn(8)])
		h := merkle.HashLeaf(d)
		c.Eval()
		c.Case(fmt.Sprintf("(CHash true %s nil %s)", cb(d), cb(h[:])), map[string]interface{}{"kind": "hashleaf", "data": hx.Hex(d)})
		var l, r common.Uint256
		copy(l[:], c.Bytes(32))
		copy(r[:], c.Bytes(32))
		hc := merkle.HashChildren(l, r)
		c.Eval()
		c.Case(fmt.Sprintf("(CHash false %s %s %s)", cb(l[:]), cb(r[:]), cb(hc[:])), map[string]interface{}{"kind": "hashchildren"})
	}
	// 3. small lists end to end with the real SHA-256 model
	for _, n := range []int{1, 2, 3}[:c.N(3, 3)] {
		xs := make([][]byte, n)
		var cx []string
		hs := make([]common.Uint256, n)
		for i := range xs {
			xs[i] = c.Bytes(1 + c.Intn(10))
			cx = append(cx, cb(xs[i]))
			hs[i] = merkle.HashLeaf(xs[i])
		}
		rfc, _ := rfcRoot(hs)
		i := c.Intn(n)
		_, coq := oracleComplete(c, hs, rfc, xs[i])
		c.Case(fmt.Sprintf("(CSha %s %s %s %s)", consList(cx), cb(xs[i]), coq, cb(rfc[:])), map[string]interface{}{"kind": "sha", "n": n})
	}
	// 4. the empty list: RFC root is sha256(""), MerkleLeafPath reports not-found (never reaches depth(0))
	{
		t := newTable()
		rfc, _, _ := oracleRoots(c, t, nil)
		_, coq, kind := leafPath([]byte{1, 2, 3}, nil)
		c.Eval()
		c.Count("leafpath[empty-list]:" + kind)
		if kind != "not-found" {
			c.Fail("leafpath:empty-list", "MerkleLeafPath on an empty list reports not-found", replayIn{Kind: "complete", Data: "010203"}, kind, "not-found")
		}
		t.leaf([]byte{1, 2, 3})
		c.Case(fmt.Sprintf("(CList %s nil %s nil (cons (IPath %s %s) nil))", t.coq(), cb(rfc[:]), cb([]byte{1, 2, 3}), coq), map[string]interface{}{"kind": "empty-list"})
	}
	// 4b. value lengths: HashLeaf against crypto/sha256 for every length 0..300, a two-element list
	// of the TRUE leaf hashes (so a wrong HashLeaf cannot hide behind itself), the member's path and
	// its last-byte mutation (implementation only); then one recorded three-element list per
	// boundary length
	for L := 0; L <= 300; L++ {
		lengthProbe(c, L)
	}
	for i := 0; i < 64; i++ {
		var l, r common.Uint256
		copy(l[:], c.Bytes(32))
		copy(r[:], c.Bytes(32))
		c.Eval()
		if got, want := merkle.HashChildren(l, r), refChildren(l, r); got != want {
			c.Fail("hash:children-differs-from-spec", "HashChildren(l, r) = sha256(0x01 || l || r)",
				replayIn{Kind: "children", Hashes: hexes([]common.Uint256{l, r})}, hx.Hex(got[:]), hx.Hex(want[:]))
		}
	}
	for _, L := range boundaryLens {
		listCase(c, 3, true, 0, L)
	}
	// 4c. call histories on long-lived, reused slices (implementation only)
	for _, n := range []int{4, 3, 7, 16, 33, 64} {
		historyProbe(c, n)
	}
	for n := 1; n <= 64; n++ {
		for r := 0; r < c.N(2, 10); r++ {
			historyOracle(c, n, 6+c.Intn(5))
		}
	}
	// 5. lists of 1..64 hashes, every member
	maxN := 64
	for n := 1; n <= maxN; n++ {
		listCase(c, n, true, c.N(2, 6), -1)
	}
	// thorough: more lists, larger sizes (sampled members)
	for i := 0; i < c.N(0, 120); i++ {
		n := 1 + c.Intn(64)
		if i%10 == 0 {
			n = 65 + c.Intn(200)
		}
		listCase(c, n, n <= 64, 4, -1)
	}
	// 6. MAX_SIZE boundary (implementation only: inputs of one megabyte are not turned into Coq terms)
	if merkle.MAX_SIZE <= 1<<26 {
		top := (merkle.MAX_SIZE - 8) / (common.UINT256_SIZE + 1) // largest admissible list
		for _, n := range []int{1, 100, top} {
			exact := merkle.MAX_SIZE - n*(common.UINT256_SIZE+1) - 8
			oracleSize(c, n, exact)
			oracleSize(c, n, exact+1)
		}
		oracleSize(c, top+1, 0)
	} else {
		c.Note(fmt.Sprintf("MAX_SIZE = %d: boundary inputs too large to build; the size bound is covered by the proof obligations only", merkle.MAX_SIZE))
	}
}
