package c27

import "verif/harness/hx"

func init() {
	registerGen()
	hx.Register("C27", Run)
}

func Run(c *hx.Ctx) {
	c.CoqModule("Corr.C27")
}
