package c43

import (
	"verif/harness/hx"
)

func init() { hx.Register("C43", Run) }

func Run(c *hx.Ctx) {
	c.CoqModule("Corr.C43")
}
