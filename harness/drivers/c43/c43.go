package c43

import (
	"encoding/json"
	"fmt"

	ethtypes "github.com/ethereum/go-ethereum/core/types"
	"github.com/ontio/ontology/core/store/ledgerstore"

	"verif/harness/hx"
)

func init() { hx.Register("C43", Run) }

func dispatch(c *hx.Ctx, in Input) {
	switch in.Kind {
	case "logs":
		scenLogs(c, in)
	case "keys":
		scenKeys(c, in)
	case "comp":
		scenComp(c, in)
	case "index":
		scenIndex(c, in)
	case "chain":
		scenChain(c, in)
	case "concurrent":
		scenConcurrent(c, in)
	default:
		scenHist(c, in)
	}
}

func Run(c *hx.Ctx) {
	c.CoqModule("Corr.C43")
	if ledgerstore.BloomBitsBlocks != secSize || ethtypes.BloomBitLength != 2048 {
		// the harness-side oracle is written for these sizes; the Coq side takes them from Gen/BloomConsts.v
		c.Fail("index:section-size-changed", "BloomBitsBlocks/BloomBitLength differ from the values the oracle was written for", nil,
			fmt.Sprintf("%d/%d", ledgerstore.BloomBitsBlocks, ethtypes.BloomBitLength), "4096/2048")
		return
	}
	var in Input
	if c.ReplayInput(&in) {
		dispatch(c, in)
		return
	}
	for _, raw := range c.CorpusInputs() {
		var ci Input
		if json.Unmarshal(raw, &ci) == nil && ci.Kind != "" {
			dispatch(c, ci)
		}
	}
	many := func(kind string, n, size int) {
		for i := 0; i < n; i++ {
			dispatch(c, Input{Kind: kind, Seed: c.Rng.Int63(), Size: size})
		}
	}
	many("logs", c.N(80, 1500), 0)
	many("keys", c.N(40, 300), 0)
	many("comp", c.N(80, 1200), 0)
	many("index", c.N(2, 8), c.N(30, 60))
	many("hist-mainnet-genesis", c.N(2, 6), 0)
	many("hist-unaligned", c.N(3, 8), 0)
	many("hist-gap", c.N(2, 5), 0)
	many("hist-genesis", c.N(1, 2), c.N(1, 2))
	many("hist-mainnet-fork", c.N(1, 3), 0)
	many("hist-ceil", c.N(1, 3), c.N(1, 2))
	many("chain", c.N(1, 2), c.N(1, 2))
	many("concurrent", c.N(1, 3), c.N(5, 8))
}
