package c43

import (
	"crypto/ecdsa"
	"fmt"
	"math/big"
	"math/rand"

	ethcomm "github.com/ethereum/go-ethereum/common"
	ethtypes "github.com/ethereum/go-ethereum/core/types"
	"github.com/ethereum/go-ethereum/crypto"
	"github.com/ontio/ontology/common"
	"github.com/ontio/ontology/common/config"
	"github.com/ontio/ontology/common/constants"
	"github.com/ontio/ontology/core/types"
	"github.com/ontio/ontology/smartcontract/event"

	"verif/harness/ledgerkit"
)

const fundAmount = 10000000000000 // 1e13 (10^4 ONG)
const gasPriceGwei = 2500
const txGasLimit = 400000

// Log is one expected or observed EVM log: address + topics (data is not part of the bloom).
type Log struct {
	Addr   []byte   `json:"addr"`
	Topics [][]byte `json:"topics"`
	Data   []byte   `json:"data,omitempty"`
}

// chain is one solo ledger with funded EVM senders and a deployed emitter contract.
type chain struct {
	kit     *ledgerkit.Kit
	keys    []*ecdsa.PrivateKey
	addrs   []ethcomm.Address
	nonces  []uint64
	emitter ethcomm.Address
}

func keyFromRand(r *rand.Rand) *ecdsa.PrivateKey {
	for {
		var b [32]byte
		r.Read(b[:])
		b[0] &= 0x7f
		k, err := crypto.ToECDSA(b[:])
		if err == nil {
			return k
		}
	}
}

func newChain(dir string, r *rand.Rand, nSenders int) (*chain, error) {
	k, err := ledgerkit.New(dir)
	if err != nil {
		return nil, err
	}
	ch := &chain{kit: k}
	var funds []*types.Transaction
	for i := 0; i < nSenders; i++ {
		key := keyFromRand(r)
		ch.keys = append(ch.keys, key)
		a := crypto.PubkeyToAddress(key.PublicKey)
		ch.addrs = append(ch.addrs, a)
		ch.nonces = append(ch.nonces, 0)
		t, err := k.TransferTx(ledgerkit.OngAddr, k.Acct, common.Address(a), fundAmount, 0, 20000)
		if err != nil {
			return nil, err
		}
		funds = append(funds, t)
	}
	if _, err := k.AddBlock(funds); err != nil {
		return nil, fmt.Errorf("funding block: %v", err)
	}
	return ch, nil
}

func (ch *chain) height() uint32 { return ch.kit.Ledger.GetCurrentBlockHeight() }

// evmTx signs an EIP-155 transaction of sender s (to == nil: contract creation) and advances the
// local nonce.
func (ch *chain) evmTx(s int, to *ethcomm.Address, value int64, data []byte) *types.Transaction {
	chainId := big.NewInt(int64(config.DefConfig.P2PNode.EVMChainId))
	signer := ethtypes.NewEIP155Signer(chainId)
	price := new(big.Int).Mul(big.NewInt(gasPriceGwei), big.NewInt(constants.GWei))
	var raw *ethtypes.Transaction
	if to == nil {
		raw = ethtypes.NewContractCreation(ch.nonces[s], big.NewInt(value), txGasLimit, price, data)
	} else {
		raw = ethtypes.NewTransaction(ch.nonces[s], *to, big.NewInt(value), txGasLimit, price, data)
	}
	ch.nonces[s]++
	signed, err := ethtypes.SignTx(raw, signer, ch.keys[s])
	if err != nil {
		panic(err)
	}
	t, err := types.TransactionFromEIP155(signed)
	if err != nil {
		panic(err)
	}
	return t
}

// ---- a tiny EVM assembler ----

type asm struct{ b []byte }

func (a *asm) op(o ...byte) *asm { a.b = append(a.b, o...); return a }
func (a *asm) push1(v byte) *asm { return a.op(0x60, v) }
func (a *asm) push32(w []byte) *asm {
	var x [32]byte
	copy(x[32-len(w):], w)
	a.b = append(a.b, 0x7f)
	a.b = append(a.b, x[:]...)
	return a
}

// emitLog appends straight-line code that stores data at memory 0.. and executes LOGn.
func (a *asm) emitLog(topics [][]byte, data []byte) {
	for off := 0; off < len(data); off += 32 {
		var w [32]byte
		copy(w[:], data[off:])
		a.push32(w[:]).push1(byte(off)).op(0x52) // MSTORE
	}
	for i := len(topics) - 1; i >= 0; i-- {
		a.push32(topics[i])
	}
	a.push1(byte(len(data))).push1(0).op(0xa0 + byte(len(topics)))
}

const (
	endStop    = 0
	endRevert  = 1
	endInvalid = 2
)

func (a *asm) end(kind int) {
	switch kind {
	case endStop:
		a.op(0x00)
	case endRevert:
		a.push1(0).push1(0).op(0xfd)
	default:
		a.op(0xfe)
	}
}

// emitterRuntime: LOG2(cd[0:32], cd[32:64]) with data cd[0:8]; LOG1(cd[64:96]) without data;
// LOG0 with data cd[0:4]; LOG4(cd[0:32], cd[32:64], cd[64:96], cd[0:32]); then REVERT iff
// the word at cd[96:128] is non-zero.
func emitterRuntime() []byte {
	a := &asm{}
	a.op(0x36).push1(0).push1(0).op(0x37) // CALLDATASIZE 0 0 CALLDATACOPY
	cd := func(off byte) { a.push1(off).op(0x35) }
	cd(32)
	cd(0)
	a.push1(8).push1(0).op(0xa2)
	cd(64)
	a.push1(0).push1(0).op(0xa1)
	a.push1(4).push1(0).op(0xa0)
	cd(0)
	cd(64)
	cd(32)
	cd(0)
	a.push1(0).push1(0).op(0xa4)
	cd(96)
	dest := byte(len(a.b) + 4)
	a.push1(dest).op(0x57) // JUMPI
	a.op(0x00)             // STOP
	if int(dest) != len(a.b) {
		panic("emitter: bad jump destination")
	}
	a.op(0x5b).push1(0).push1(0).op(0xfd)
	return a.b
}

func deployCode(runtime []byte) []byte {
	if len(runtime) > 255 {
		panic("runtime too long")
	}
	p := []byte{0x60, byte(len(runtime)), 0x80, 0x60, 0x0b, 0x60, 0x00, 0x39, 0x60, 0x00, 0xf3}
	return append(p, runtime...)
}

// emitterLogs are the logs one successful call of the emitter produces.
func emitterLogs(addr ethcomm.Address, cd []byte) []Log {
	t1, t2, t3 := cd[0:32], cd[32:64], cd[64:96]
	return []Log{
		{Addr: addr.Bytes(), Topics: [][]byte{t1, t2}},
		{Addr: addr.Bytes(), Topics: [][]byte{t3}},
		{Addr: addr.Bytes()},
		{Addr: addr.Bytes(), Topics: [][]byte{t1, t2, t3, t1}},
	}
}

// observedLogs returns, per transaction of the block, the EVM logs the event store recorded for it
// (nil entry: not an EIP155 transaction, i.e. no receipt).
func (ch *chain) observedLogs(b *types.Block) ([][]Log, []bool, error) {
	var out [][]Log
	var isEvm []bool
	for _, tx := range b.Transactions {
		if tx.TxType != types.EIP155 {
			out = append(out, nil)
			isEvm = append(isEvm, false)
			continue
		}
		n, err := ch.kit.Ledger.GetEventNotifyByTx(tx.Hash())
		if err != nil {
			return nil, nil, fmt.Errorf("GetEventNotifyByTx: %v", err)
		}
		logs := []Log{}
		for _, ev := range n.Notify {
			if !ev.IsEvm {
				continue
			}
			sl, err := event.NotifyEventInfoToEvmLog(ev)
			if err != nil {
				return nil, nil, err
			}
			l := Log{Addr: sl.Address.Bytes(), Data: sl.Data}
			for _, t := range sl.Topics {
				l.Topics = append(l.Topics, append([]byte{}, t.Bytes()...))
			}
			logs = append(logs, l)
		}
		out = append(out, logs)
		isEvm = append(isEvm, true)
	}
	return out, isEvm, nil
}
