// Package c43: block log blooms (core/store/ledgerstore: executeBlock, SaveBloomData, GetBloomData)
// and the per-section bloom bit index (bloombits.go: PutBloomIndex, ReadBloomBits).
// This file: constants and integer formulas the Coq model takes from the current source.
package c43

import (
	"bytes"
	"fmt"
	"go/ast"
	"go/parser"
	"go/printer"
	"go/token"
	"path/filepath"

	ethtypes "github.com/ethereum/go-ethereum/core/types"
	scom "github.com/ontio/ontology/core/store/common"
	"github.com/ontio/ontology/core/store/ledgerstore"

	"verif/harness/gen"
)

const blockStoreFile = "core/store/ledgerstore/block_store.go"

var hsz = map[string]string{"height": "h", "BloomBitsBlocks": "sz"}

var sites = []gen.Site{
	{Name: "bloom_trigger", File: blockStoreFile, Func: "SaveBloomData", Loc: "cmp:==:lhs", Subst: hsz, Vars: []string{"h", "sz"}},
	{Name: "bloom_trigger_rhs", File: blockStoreFile, Func: "SaveBloomData", Loc: "cmp:==:rhs", Subst: hsz, Vars: []string{"h", "sz"}},
	{Name: "bloom_section", File: blockStoreFile, Func: "SaveBloomData", Loc: "assign:section", Subst: hsz, Vars: []string{"h", "sz"}},
	{Name: "bloom_loop_bound", File: blockStoreFile, Func: "SaveBloomData", Loc: "cmp:<:rhs#1", Subst: hsz, Vars: []string{"sz"}},
	{Name: "clean_bound", File: blockStoreFile, Func: "cleanStaleBloomData", Loc: "cmp:>:rhs",
		Subst: map[string]string{"curHeight": "h", "BloomBitsBlocks": "sz"}, Vars: []string{"sz"}},
	{Name: "clean_target", File: blockStoreFile, Func: "cleanStaleBloomData", Loc: "callarg:delete:1",
		Subst: map[string]string{"curHeight": "h", "BloomBitsBlocks": "sz"}, Vars: []string{"h", "sz"}},
	{Name: "load_init_start", File: blockStoreFile, Func: "LoadBloomBits", Loc: "assign:initStart#0",
		Subst: map[string]string{"curBlockHeight": "cur"}, Vars: []string{"cur"}},
	{Name: "load_start", File: blockStoreFile, Func: "LoadBloomBits", Loc: "assign:loadStart",
		Subst: map[string]string{"curBlockHeight": "cur", "BloomBitsBlocks": "sz"}, Vars: []string{"cur", "sz"}},
	{Name: "put_index_bound", File: "core/store/ledgerstore/bloombits.go", Func: "PutBloomIndex", Loc: "cmp:<:rhs",
		Subst: map[string]string{"types.BloomBitLength": "bbl"}, Vars: []string{"bbl"}},
	{Name: "min_filter_start", File: blockStoreFile, Func: "MinFilterStart", Loc: "return:0",
		Subst: map[string]string{"config.GetAddDecimalsHeight()": "adh"}, Vars: []string{"adh"}},
}

// memberExpr finds the index expression of `this.bloomCache[...]` inside the for loop of
// SaveBloomData (the height of the i-th bloom handed to PutBloomIndex) and translates it to Z with
// the uint32 wrap made explicit (+, -, * are ring operations, so one outer `mod 2^32` is exact).
func memberExpr(repo string) (goExpr, coq string, err error) {
	fset := token.NewFileSet()
	f, e := parser.ParseFile(fset, filepath.Join(repo, blockStoreFile), nil, 0)
	if e != nil {
		return "", "", e
	}
	var fd *ast.FuncDecl
	for _, d := range f.Decls {
		if x, ok := d.(*ast.FuncDecl); ok && x.Name.Name == "SaveBloomData" {
			fd = x
		}
	}
	if fd == nil {
		return "", "", fmt.Errorf("SaveBloomData not found")
	}
	var found []ast.Expr
	ast.Inspect(fd.Body, func(n ast.Node) bool {
		if fs, ok := n.(*ast.ForStmt); ok {
			ast.Inspect(fs.Body, func(m ast.Node) bool {
				if ix, ok := m.(*ast.IndexExpr); ok && pr(fset, ix.X) == "this.bloomCache" {
					found = append(found, ix.Index)
				}
				return true
			})
			return false
		}
		return true
	})
	if len(found) != 1 {
		return "", "", fmt.Errorf("expected one this.bloomCache[...] read in the loop of SaveBloomData, found %d", len(found))
	}
	goExpr = pr(fset, found[0])
	c, e := tr(fset, found[0])
	if e != nil {
		return goExpr, "", e
	}
	return goExpr, "(Z.modulo " + c + " 4294967296)", nil
}

func pr(fset *token.FileSet, n ast.Node) string {
	var b bytes.Buffer
	printer.Fprint(&b, fset, n)
	return b.String()
}

func tr(fset *token.FileSet, e ast.Expr) (string, error) {
	switch x := e.(type) {
	case *ast.Ident:
		switch x.Name {
		case "height":
			return "h", nil
		case "i":
			return "i", nil
		case "BloomBitsBlocks":
			return "sz", nil
		}
	case *ast.ParenExpr:
		return tr(fset, x.X)
	case *ast.BasicLit:
		if x.Kind == token.INT {
			var v int64
			if _, err := fmt.Sscanf(x.Value, "%v", &v); err == nil {
				return fmt.Sprintf("%d", v), nil
			}
		}
	case *ast.CallExpr:
		if id, ok := x.Fun.(*ast.Ident); ok && len(x.Args) == 1 && id.Name == "uint32" {
			a, err := tr(fset, x.Args[0])
			if err != nil {
				return "", err
			}
			return "(Z.modulo " + a + " 4294967296)", nil
		}
	case *ast.BinaryExpr:
		l, err := tr(fset, x.X)
		if err != nil {
			return "", err
		}
		r, err := tr(fset, x.Y)
		if err != nil {
			return "", err
		}
		switch x.Op {
		case token.ADD:
			return "(" + l + " + " + r + ")", nil
		case token.SUB:
			return "(" + l + " - " + r + ")", nil
		case token.MUL:
			return "(" + l + " * " + r + ")", nil
		}
	}
	return "", fmt.Errorf("unsupported expression %q", pr(fset, e))
}

func init() {
	gen.RegisterFile("BloomConsts.v", func(repo string) ([]byte, []string) {
		n := func(name string, v uint64, c string) gen.Const {
			return gen.Const{Name: name, Type: "N", Value: fmt.Sprintf("%d%%N", v), Comment: c}
		}
		pfx := ledgerstore.VerifC43BloomBitsPrefix()
		var errs []string
		if len(pfx) != 1 {
			errs = append(errs, fmt.Sprintf("bloomBitsPrefix has %d bytes, the model expects one", len(pfx)))
			pfx = []byte{0}
		}
		cs := []gen.Const{
			n("BloomBitsBlocks", uint64(ledgerstore.BloomBitsBlocks), "ledgerstore.BloomBitsBlocks (section size)"),
			n("BloomByteLength", uint64(ethtypes.BloomByteLength), "go-ethereum types.BloomByteLength"),
			n("BloomBitLength", uint64(ethtypes.BloomBitLength), "go-ethereum types.BloomBitLength (loop bound of PutBloomIndex)"),
			n("DATA_BLOOM", uint64(scom.DATA_BLOOM), "store/common.DATA_BLOOM (key prefix of the per-block bloom)"),
			n("ST_ETH_FILTER_START", uint64(scom.ST_ETH_FILTER_START), "store/common.ST_ETH_FILTER_START"),
			n("BLOOM_BITS_PREFIX", uint64(pfx[0]), "ledgerstore.bloomBitsPrefix[0]"),
		}
		return gen.EmitConsts("", cs), errs
	})
	gen.RegisterFile("BloomFormulas.v", func(repo string) ([]byte, []string) {
		var rs []gen.SiteResult
		var errs []string
		for _, s := range sites {
			r := gen.TranslateSite(repo, s)
			if r.Err != "" {
				errs = append(errs, s.Name+": "+r.Err)
			}
			rs = append(rs, r)
		}
		ms := gen.Site{Name: "bloom_member", File: blockStoreFile, Func: "SaveBloomData", Loc: "index:this.bloomCache (in the for loop)", Vars: []string{"h", "i", "sz"}}
		goExpr, coq, err := memberExpr(repo)
		mr := gen.SiteResult{Site: ms, GoExpr: goExpr, Coq: coq}
		if err != nil {
			mr.Err = err.Error()
			errs = append(errs, "bloom_member: "+mr.Err)
		}
		rs = append(rs, mr)
		return gen.EmitSites("", rs), errs
	})
}
