package c43

import (
	"bytes"
	"fmt"
	"math/rand"
	"path/filepath"
	"sync"
	"sync/atomic"
	"time"

	ethtypes "github.com/ethereum/go-ethereum/core/types"
	"github.com/ontio/ontology/core/store/ledgerstore"
	"github.com/ontio/ontology/core/store/leveldbstore"

	"verif/harness/hx"
)

// scenConcurrent: the eth-rpc bloom backend serves ReadBloomBits from many goroutines while the
// ledger keeps committing sections.  Section 0 is committed, then `readers` goroutines read every
// (bit, section) record of the committed sections over and over while in.Size-1 further sections
// are committed; every read is compared with the vector computed from the per-block blooms, and
// afterwards the whole stored index is compared again.  Bounded: a few hundred ms of overlap.
func scenConcurrent(c *hx.Ctx, in Input) {
	r := rand.New(rand.NewSource(in.Seed))
	nSec := in.Size
	if nSec < 2 {
		nSec = 2
	}
	const readers = 12
	db, err := leveldbstore.NewLevelDBStore(filepath.Join(c.OutDir, fmt.Sprintf("conc-%d", in.Seed)))
	if err != nil {
		panic(err)
	}
	defer db.Close()

	// per section: 4096 blooms (about 60 non-empty) and the 2048 expected vectors computed from them
	blooms := make([][]ethtypes.Bloom, nSec)
	want := make([][][]byte, nSec)
	for s := 0; s < nSec; s++ {
		blooms[s] = make([]ethtypes.Bloom, secSize)
		for j := 0; j < 60; j++ {
			blooms[s][r.Intn(secSize)] = randBloom(r, 3)
		}
		want[s] = make([][]byte, ethtypes.BloomBitLength)
		for i := range want[s] {
			want[s][i] = make([]byte, secSize/8)
		}
		for k := 0; k < secSize; k++ {
			b := blooms[s][k]
			for p := 0; p < ethtypes.BloomByteLength; p++ {
				if b[p] == 0 {
					continue
				}
				for t := uint(0); t < 8; t++ {
					if b[p]&(1<<t) != 0 {
						i := uint(255-p)*8 + t
						want[s][i][k/8] |= 1 << (7 - uint(k)%8)
					}
				}
			}
		}
	}
	put := func(s int) bool {
		db.NewBatch()
		p, msg := hx.Recover(func() { ledgerstore.PutBloomIndex(db, blooms[s], uint32(s)) })
		if p {
			c.Fail("index:panic", "PutBloomIndex panics on a full section of blooms", in, msg, "no panic")
			return false
		}
		if err := db.BatchCommit(); err != nil {
			panic(err)
		}
		c.Eval()
		return true
	}
	if !put(0) {
		return
	}
	var committed int32 = 1
	var done int32
	var reads, bad int64
	var mu sync.Mutex
	var reports []string
	describe := func(vec []byte) string {
		for s := 0; s < nSec; s++ {
			for i := range want[s] {
				if bytes.Equal(vec, want[s][i]) {
					return fmt.Sprintf("the vector of (bit %d, section %d) or an equal one", i, s)
				}
			}
		}
		return "a vector that belongs to no (bit, section)"
	}
	var wg sync.WaitGroup
	start := time.Now()
	for g := 0; g < readers; g++ {
		wg.Add(1)
		go func(g int) {
			defer wg.Done()
			off := uint(g) * 173
			for pass := 0; ; pass++ {
				finished := atomic.LoadInt32(&done) == 1
				n := int(atomic.LoadInt32(&committed))
				for s := 0; s < n; s++ {
					for j := uint(0); j < ethtypes.BloomBitLength; j++ {
						i := (j + off) % ethtypes.BloomBitLength
						v, err := ledgerstore.ReadBloomBits(db, i, uint32(s))
						atomic.AddInt64(&reads, 1)
						var got string
						if err != nil {
							got = "error: " + err.Error()
						} else if vec, derr := decompress(v); derr != nil {
							got = "undecodable record: " + derr.Error()
						} else if !bytes.Equal(vec, want[s][i]) {
							got = describe(vec)
						} else {
							continue
						}
						if atomic.AddInt64(&bad, 1) <= 3 {
							mu.Lock()
							reports = append(reports, fmt.Sprintf("reader %d: ReadBloomBits(bit %d, section %d) returned %s", g, i, s, got))
							mu.Unlock()
						}
					}
				}
				if (finished && pass >= 1) || time.Since(start) > 4*time.Second {
					return
				}
			}
		}(g)
	}
	ok := true
	for s := 1; s < nSec && ok; s++ {
		ok = put(s)
		if ok {
			atomic.StoreInt32(&committed, int32(s+1))
		}
	}
	atomic.StoreInt32(&done, 1)
	wg.Wait()
	c.Count("conc:runs")
	c.Count(fmt.Sprintf("conc:sections=%d", nSec))
	c.Note(fmt.Sprintf("concurrent oracle: %d readers, %d sections, %d reads in %v", readers, nSec, reads, time.Since(start).Round(time.Millisecond)))
	if bad > 0 {
		c.Fail("index:concurrent-read-wrong", "a ReadBloomBits issued concurrently with other readers / a section commit does not return the vector of its (bit, section)", in,
			fmt.Sprintf("%d of %d reads wrong; first: %v", bad, reads, reports), "every read returns the vector computed from the per-block blooms")
	}
	if !ok {
		return
	}
	// the stored index once everything is quiet
	for s := 0; s < nSec; s++ {
		s := s
		checkSection(c, in, uint32(s), func(k uint) ethtypes.Bloom { return blooms[s][k] },
			func(i uint) ([]byte, error) { return ledgerstore.ReadBloomBits(db, i, uint32(s)) })
	}
	c.Nontrivial(fmt.Sprintf("conc:%d", in.Seed))
}
