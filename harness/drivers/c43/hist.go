package c43

import (
	"fmt"
	"math/rand"
	"path/filepath"
	"sort"

	ethtypes "github.com/ethereum/go-ethereum/core/types"
	"github.com/ontio/ontology/common"
	"github.com/ontio/ontology/common/config"
	"github.com/ontio/ontology/core/store/ledgerstore"

	"verif/harness/hx"
)

const (
	opSave = iota
	opRun
	opRestart
)

type hop struct {
	kind  int
	h, n  uint32
	bloom ethtypes.Bloom
}

// consecutive builds the ops for heights from..to-1 (all saved in order): heights in `special`
// get a random non-empty bloom, the others are grouped into runs of zero blooms; a restart is
// placed before each height in `restarts`.
func consecutive(r *rand.Rand, from, to uint32, special, restarts map[uint32]bool, skip map[uint32]bool) []hop {
	var ops []hop
	runStart, runLen := uint32(0), uint32(0)
	flush := func() {
		if runLen > 0 {
			ops = append(ops, hop{kind: opRun, h: runStart, n: runLen})
			runLen = 0
		}
	}
	for h := from; h < to; h++ {
		if restarts[h] {
			flush()
			ops = append(ops, hop{kind: opRestart})
		}
		if skip[h] {
			flush()
			continue
		}
		if special[h] {
			flush()
			ops = append(ops, hop{kind: opSave, h: h, bloom: randBloom(r, 3)})
			continue
		}
		if runLen == 0 {
			runStart = h
		}
		runLen++
	}
	flush()
	return ops
}

func pickHeights(r *rand.Rand, from, to uint32, n int, forced ...uint32) map[uint32]bool {
	m := map[uint32]bool{}
	for i := 0; i < n && to > from; i++ {
		m[from+uint32(r.Intn(int(to-from)))] = true
	}
	for _, f := range forced {
		if f >= from && f < to {
			m[f] = true
		}
	}
	return m
}

// scenHist: a stand-alone BlockStore driven through SaveBloomData / LoadBloomBits at chosen heights.
func scenHist(c *hx.Ctx, in Input) {
	r := rand.New(rand.NewSource(in.Seed))
	netID := uint32(3)
	preload := false
	expectNoPanic := true
	var ops []hop
	S := uint32(secSize)
	switch in.Kind {
	case "hist-genesis":
		T := uint32(in.Size)*S + uint32(1+r.Intn(200))
		sp := pickHeights(r, 0, T, 14, 0, S-2, S-1, S, T-1)
		rs := pickHeights(r, 1, T, 3, []uint32{S - 1, S, S + 1}[r.Intn(3)])
		ops = consecutive(r, 0, T, sp, rs, nil)
		preload = r.Intn(4) == 0
	case "hist-mainnet-genesis":
		netID = config.NETWORK_ID_MAIN_NET
		T := uint32(40 + r.Intn(60))
		sp := pickHeights(r, 0, T, 10, 0, T-1)
		rs := pickHeights(r, 1, T, 2)
		ops = consecutive(r, 0, T, sp, rs, nil)
	case "hist-mainnet-fork":
		netID = config.NETWORK_ID_MAIN_NET
		config.DefConfig.P2PNode.NetworkId = netID
		mfs := ledgerstore.MinFilterStart()
		h0 := mfs - uint32(1+r.Intn(30))
		T := mfs + S + uint32(1+r.Intn(50))
		ops = append(ops, hop{kind: opSave, h: h0 - 1, bloom: randBloom(r, 2)}, hop{kind: opRestart})
		sp := pickHeights(r, h0, T, 12, h0, mfs-1, mfs, mfs+1, mfs+S-1, mfs+S)
		rs := pickHeights(r, h0+1, T, 2)
		ops = append(ops, consecutive(r, h0, T, sp, rs, nil)...)
	case "hist-ceil":
		k := uint32(1 + r.Intn(int(S)-100))
		if in.Size > 1 {
			k = uint32(1 + r.Intn(int(S)*in.Size-100))
		}
		T := (k/S+1)*S + uint32(1+r.Intn(40))
		sp := pickHeights(r, 0, T, 12, 0, k, k+1, T-1)
		ops = consecutive(r, 0, T, sp, map[uint32]bool{k + 1: true}, nil)
	case "hist-unaligned":
		expectNoPanic = false
		q := uint32(r.Intn(5))
		h0 := q*S + uint32(S-1-uint32(r.Intn(400)))
		T := (q+1)*S + uint32(r.Intn(3))
		if r.Intn(4) == 0 {
			T = (q+1)*S - 1 // stops before the boundary: no panic
		}
		sp := pickHeights(r, h0, T, 5, h0)
		ops = consecutive(r, h0, T, sp, nil, nil)
	case "hist-gap":
		expectNoPanic = false
		g := S - 2 - uint32(r.Intn(300))
		T := S + uint32(r.Intn(4))
		sp := pickHeights(r, 0, T, 6, 0)
		ops = consecutive(r, 0, T, sp, nil, map[uint32]bool{g: true})
	default:
		panic("unknown hist kind " + in.Kind)
	}

	saved := config.DefConfig.P2PNode.NetworkId
	config.DefConfig.P2PNode.NetworkId = netID
	defer func() { config.DefConfig.P2PNode.NetworkId = saved }()
	adh := config.GetAddDecimalsHeight()

	dir := filepath.Join(c.OutDir, fmt.Sprintf("%s-%d", in.Kind, in.Seed))
	bs, err := ledgerstore.NewBlockStore(dir, false)
	if err != nil {
		panic(err)
	}
	defer func() { bs.Close() }()
	if preload {
		if err := bs.LoadBloomBits(); err != nil {
			panic(err)
		}
	}
	nonzero := map[uint32]bool{}
	savedBloom := map[uint32]ethtypes.Bloom{}
	var heights []uint32
	panicked := false
	save := func(h uint32, b ethtypes.Bloom) bool {
		bs.NewBatch()
		bs.SaveCurrentBlock(h, common.Uint256{})
		p, msg := hx.Recover(func() { bs.SaveBloomData(h, b) })
		c.Eval()
		if p {
			panicked = true
			if expectNoPanic {
				c.Fail("index:panic", "SaveBloomData panics on a history of consecutive heights", in, fmt.Sprintf("height %d: %s", h, msg), "no panic")
			}
			return false
		}
		if err := bs.CommitTo(); err != nil {
			panic(err)
		}
		return true
	}
	var coqOps []string
	nRestart, nSave := 0, 0
loop:
	for _, o := range ops {
		switch o.kind {
		case opSave:
			coqOps = append(coqOps, fmt.Sprintf("HSave %d %s", o.h, sparse(o.bloom[:])))
			if !save(o.h, o.bloom) {
				break loop
			}
			nonzero[o.h] = true
			savedBloom[o.h] = o.bloom
			heights = append(heights, o.h)
			nSave++
		case opRun:
			coqOps = append(coqOps, fmt.Sprintf("HRun %d %d", o.h, o.n))
			for i := uint32(0); i < o.n; i++ {
				if !save(o.h+i, ethtypes.Bloom{}) {
					break loop
				}
				nSave++
			}
			heights = append(heights, o.h, o.h+o.n-1)
		case opRestart:
			coqOps = append(coqOps, "HRestart")
			bs.Close()
			bs, err = ledgerstore.NewBlockStore(dir, false)
			if err != nil {
				panic(err)
			}
			if err := bs.LoadBloomBits(); err != nil {
				c.Fail("index:load-error", "LoadBloomBits fails on reopening", in, err.Error(), "nil")
				return
			}
			nRestart++
		}
	}
	c.Count("hist:" + in.Kind)
	c.Count(fmt.Sprintf("hist:restarts=%d", nRestart))
	if panicked {
		c.Count("hist:panicked")
		c.Nontrivial(fmt.Sprintf("%s:%d", in.Kind, in.Seed))
		c.Case(fmt.Sprintf("CHist %d %s %s true 0 None 0 [] [] []", adh, hx.CoqBool(preload), joinLines(coqOps)),
			map[string]interface{}{"kind": in.Kind, "seed": in.Seed, "panicked": true, "saves": nSave})
		return
	}
	db := bs.VerifC43DB()
	fs := bs.VerifC43FilterStart()
	fsrec, ferr := ledgerstore.GetFilterStart(db)
	cached := bs.VerifC43CacheHeights()
	var cs []string
	for i := 0; i < 6 && len(cached) > 0; i++ {
		cs = append(cs, fmt.Sprintf("(%d, true)", cached[r.Intn(len(cached))]))
	}
	isCached := map[uint32]bool{}
	for _, h := range cached {
		isCached[h] = true
	}
	sort.Slice(heights, func(i, j int) bool { return heights[i] < heights[j] })
	for i := 0; i < 8 && len(heights) > 0; i++ {
		h := heights[r.Intn(len(heights))] + uint32(r.Intn(3)) - 1
		cs = append(cs, fmt.Sprintf("(%d, %s)", h, hx.CoqBool(isCached[h])))
	}
	// direct oracle: a bloom saved at or above the EVM fork height is what GetBloomData returns
	for h, want := range savedBloom {
		if h < adh {
			continue
		}
		got, err := bs.GetBloomData(h)
		if err != nil {
			panic(err)
		}
		if got != want {
			c.Fail("bloom:stored-differs", "GetBloomData does not return the bloom saved for a block at or above the EVM fork height", in,
				fmt.Sprintf("height %d: %x", h, sparseBytes(got[:])), fmt.Sprintf("%x", sparseBytes(want[:])))
		}
	}
	// blooms
	var probe []uint32
	for h := range nonzero {
		probe = append(probe, h)
	}
	sort.Slice(probe, func(i, j int) bool { return probe[i] < probe[j] })
	r.Shuffle(len(probe), func(i, j int) { probe[i], probe[j] = probe[j], probe[i] })
	if len(probe) > 25 {
		probe = probe[:25]
	}
	for i := 0; i < 6 && len(heights) > 0; i++ {
		probe = append(probe, heights[r.Intn(len(heights))]+uint32(r.Intn(5)))
	}
	var bl []string
	for _, h := range probe {
		b, err := bs.GetBloomData(h)
		if err != nil {
			panic(err)
		}
		bl = append(bl, fmt.Sprintf("(%d, %s)", h, sparse(b[:])))
	}
	// sections
	secs := map[uint32]bool{}
	for _, h := range heights {
		secs[h/S] = true
	}
	var sl []uint32
	for s := range secs {
		sl = append(sl, s)
	}
	sort.Slice(sl, func(i, j int) bool { return sl[i] < sl[j] })
	if len(sl) > 4 {
		sl = sl[len(sl)-4:]
	}
	lastSaved := heights[len(heights)-1]
	var bits []string
	for _, s := range sl {
		_, err := ledgerstore.ReadBloomBits(db, 0, s)
		end := (s+1)*S - 1
		mustExist := lastSaved >= end && end >= adh && (in.Kind == "hist-genesis" || in.Kind == "hist-ceil" || in.Kind == "hist-mainnet-genesis" ||
			(in.Kind == "hist-mainnet-fork" && s*S >= ledgerstore.MinFilterStart()))
		if err != nil {
			if mustExist {
				c.Fail("index:missing-record", "no index record for a section whose last block was committed", in, fmt.Sprintf("section %d", s), "a record")
			}
			for _, i := range []uint{0, uint(r.Intn(2048)), 2047} {
				if _, e := ledgerstore.ReadBloomBits(db, i, s); e == nil {
					c.Fail("index:partial-section", "some but not all bit records of a section exist", in, fmt.Sprintf("section %d bit %d", s, i), "none")
				}
				bits = append(bits, fmt.Sprintf("(%d, %d, None)", i, s))
			}
			c.Count("hist:section-absent")
			continue
		}
		set, raw := checkSection(c, in, s, func(k uint) ethtypes.Bloom {
			b, err := bs.GetBloomData(s*S + uint32(k))
			if err != nil {
				panic(err)
			}
			return b
		}, func(i uint) ([]byte, error) { return ledgerstore.ReadBloomBits(db, i, s) })
		c.Count("hist:section-checked")
		for _, i := range pickBits(r, set, 10, 4) {
			v, ok := raw[i]
			bits = append(bits, fmt.Sprintf("(%d, %d, %s)", i, s, coqOptBytes(v, ok)))
		}
	}
	c.Nontrivial(fmt.Sprintf("%s:%d", in.Kind, in.Seed))
	c.Case(fmt.Sprintf("CHist %d %s %s false %d %s %d %s %s %s", adh, hx.CoqBool(preload), joinLines(coqOps), fs,
		hx.CoqOpt(ferr == nil, fmt.Sprint(fsrec)), len(cached), hx.CoqList(cs), hx.CoqList(bl), hx.CoqList(bits)),
		map[string]interface{}{"kind": in.Kind, "seed": in.Seed, "saves": nSave, "restarts": nRestart, "filter_start": fs, "cached": len(cached), "sections": sl})
}
