package c43

import (
	"bytes"
	"fmt"
	"math/rand"
	"path/filepath"
	"sort"

	ethcomm "github.com/ethereum/go-ethereum/common"
	ethtypes "github.com/ethereum/go-ethereum/core/types"
	"github.com/ethereum/go-ethereum/crypto"
	"github.com/ontio/ontology/common"
	"github.com/ontio/ontology/core/store/ledgerstore"
	"github.com/ontio/ontology/core/types"

	"verif/harness/hx"
	"verif/harness/ledgerkit"
)

type blockRec struct {
	height   uint32
	receipts [][]Log // per tx; nil = no receipt
	isEvm    []bool
}

// scenChain: a real solo ledger executing EVM transactions that emit random logs, with restarts,
// carried past in.Size section boundaries by runs of blocks without transactions.
func scenChain(c *hx.Ctx, in Input) {
	r := rand.New(rand.NewSource(in.Seed))
	S := uint32(secSize)
	ch, err := newChain(filepath.Join(c.OutDir, fmt.Sprintf("chain-%d", in.Seed)), r, 3)
	if err != nil {
		panic(err)
	}
	defer func() { ch.kit.Close() }()
	k := ch.kit

	t := newTable()
	var coqOps []string
	var recs []blockRec
	allItems := map[uint32][][]byte{} // height -> observed address/topic items
	nLogs, nReverted, nTx := 0, 0, 0

	coqBlock := func(rec blockRec) string {
		var txs []string
		for i, ls := range rec.receipts {
			if !rec.isEvm[i] {
				txs = append(txs, "None")
				continue
			}
			txs = append(txs, "Some "+coqLogs(ls))
		}
		return "KB " + hx.CoqList(txs)
	}
	// record a committed block: observed logs, block-level oracle, coq op
	record := func(b *types.Block, expected [][]Log) {
		obs, isEvm, err := ch.observedLogs(b)
		if err != nil {
			panic(err)
		}
		rec := blockRec{height: b.Header.Height, receipts: obs, isEvm: isEvm}
		recs = append(recs, rec)
		coqOps = append(coqOps, coqBlock(rec))
		bloom, err := k.Ledger.GetBloomData(b.Header.Height)
		if err != nil {
			panic(err)
		}
		c.Eval()
		for i, ls := range obs {
			for _, l := range ls {
				t.addLog(l)
				nLogs++
				for _, it := range items(l) {
					allItems[b.Header.Height] = append(allItems[b.Header.Height], it)
					if !bloom.Test(it) {
						c.Fail("bloom:missing-log-item", "the stored block bloom tests negative for an address/topic of a log of the block", in,
							fmt.Sprintf("height %d tx %d item %x", b.Header.Height, i, it), "Test = true")
					}
				}
			}
			// the logs the generator asked for (successful transactions) must be among the observed ones
			if expected != nil && expected[i] != nil {
				for _, e := range expected[i] {
					found := false
					for _, l := range ls {
						if bytes.Equal(l.Addr, e.Addr) && len(l.Topics) == len(e.Topics) {
							same := true
							for j := range l.Topics {
								if !bytes.Equal(l.Topics[j], e.Topics[j]) {
									same = false
								}
							}
							if same {
								found = true
							}
						}
					}
					if !found {
						c.Fail("bloom:expected-log-not-emitted", "a log the transaction must emit is not in the event store", in,
							fmt.Sprintf("height %d tx %d", b.Header.Height, i), fmt.Sprintf("%x", e.Addr))
					}
					for _, it := range items(e) {
						if !bloom.Test(it) {
							c.Fail("bloom:missing-log-item", "the stored block bloom tests negative for an address/topic the transaction emitted", in,
								fmt.Sprintf("height %d tx %d item %x", b.Header.Height, i, it), "Test = true")
						}
					}
				}
			}
		}
	}
	dead := false
	// addBlock commits a block; a panic inside the ledger is reported as a failing input and ends the scenario
	addBlock := func(txs []*types.Transaction) *types.Block {
		var b *types.Block
		var err error
		p, msg := hx.Recover(func() { b, err = k.AddBlock(txs) })
		if p {
			dead = true
			if len(msg) > 300 {
				msg = msg[:300]
			}
			c.Fail("index:panic", "committing a block panics", in, fmt.Sprintf("height %d: %s", ch.height()+1, msg), "no panic")
			return nil
		}
		if err != nil {
			panic(fmt.Sprintf("AddBlock at %d: %v", ch.height()+1, err))
		}
		return b
	}
	empties := func(n uint32) {
		if n == 0 || dead {
			return
		}
		for i := uint32(0); i < n && !dead; i++ {
			addBlock(nil)
		}
		if dead {
			return
		}
		c.Eval()
		coqOps = append(coqOps, fmt.Sprintf("KE %d", n))
	}
	restart := func() {
		if dead {
			return
		}
		k.Close()
		if err := k.Open(); err != nil {
			panic(err)
		}
		coqOps = append(coqOps, "KR")
		c.Count("chain:restarts")
	}

	// genesis (height 0) and the funding block (height 1) are already committed
	for h := uint32(0); h <= 1; h++ {
		b, err := k.Ledger.GetBlockByHeight(h)
		if err != nil {
			panic(err)
		}
		record(b, nil)
	}
	// height 2: deploy the emitter
	dep := ch.evmTx(0, nil, 0, deployCode(emitterRuntime()))
	b, err := k.AddBlock([]*types.Transaction{dep})
	if err != nil {
		panic(err)
	}
	n, err := k.Ledger.GetEventNotifyByTx(dep.Hash())
	if err != nil || n.State != 1 {
		panic(fmt.Sprintf("emitter deployment failed: %v", err))
	}
	ch.emitter = ethcomm.Address(n.CreatedContract)
	record(b, nil)

	// one block with random transactions
	logBlock := func() {
		if dead {
			return
		}
		ntx := r.Intn(5)
		var txs []*types.Transaction
		var expected [][]Log
		for i := 0; i < ntx; i++ {
			s := r.Intn(len(ch.keys))
			nTx++
			switch r.Intn(6) {
			case 0, 1: // contract creation whose init code emits logs
				a := &asm{}
				var ls []Log
				nl := 1 + r.Intn(3)
				addr := crypto.CreateAddress(ch.addrs[s], ch.nonces[s])
				for j := 0; j < nl; j++ {
					l := randLog(r)
					l.Addr = addr.Bytes()
					a.emitLog(l.Topics, l.Data)
					ls = append(ls, l)
				}
				kind := []int{endStop, endStop, endStop, endRevert, endInvalid}[r.Intn(5)]
				a.end(kind)
				txs = append(txs, ch.evmTx(s, nil, 0, a.b))
				if kind == endStop {
					expected = append(expected, ls)
				} else {
					expected = append(expected, nil)
					nReverted++
				}
				c.Count("chain:tx-create")
			case 2, 3: // call of the emitter
				cd := make([]byte, 128)
				r.Read(cd[:96])
				if r.Intn(4) == 0 {
					copy(cd[32:64], cd[0:32])
				}
				rev := r.Intn(5) == 0
				if rev {
					cd[127] = 1
					nReverted++
				}
				txs = append(txs, ch.evmTx(s, &ch.emitter, 0, cd))
				if rev {
					expected = append(expected, nil)
				} else {
					expected = append(expected, emitterLogs(ch.emitter, cd))
				}
				c.Count("chain:tx-call")
			case 4: // ONG value transfer between EVM accounts
				to := ch.addrs[(s+1)%len(ch.addrs)]
				txs = append(txs, ch.evmTx(s, &to, int64(1+r.Intn(9))*1000000000, nil))
				expected = append(expected, nil)
				c.Count("chain:tx-ong-transfer")
			default: // an ordinary (non-EVM) ONT transfer: no receipt
				var to common.Address
				r.Read(to[:])
				tx, err := k.TransferTx(ledgerkit.OntAddr, k.Acct, to, 1, 0, 20000)
				if err != nil {
					panic(err)
				}
				txs = append(txs, tx)
				expected = append(expected, nil)
				c.Count("chain:tx-native")
			}
		}
		b := addBlock(txs)
		if dead {
			return
		}
		record(b, expected)
		c.Count(fmt.Sprintf("chain:block-txs=%d", ntx))
	}

	// phase 1: a busy stretch near the start
	busy := 20 + r.Intn(15)
	restartAt := r.Intn(busy)
	for i := 0; i < busy; i++ {
		if i == restartAt {
			restart()
		}
		if r.Intn(4) == 0 {
			empties(uint32(1 + r.Intn(3)))
		}
		logBlock()
	}
	// phase 2: cross in.Size section boundaries, with log blocks and a restart around each
	for sec := uint32(1); sec <= uint32(in.Size); sec++ {
		boundary := sec * S // first height of the next section
		near := boundary - uint32(3+r.Intn(8))
		if ch.height()+1 < near {
			// a few log blocks in the middle of the section
			mid := ch.height() + 1 + uint32(r.Intn(int(near-ch.height()-1)))
			empties(mid - ch.height() - 1)
			logBlock()
			empties(near - ch.height() - 1)
		}
		restartH := near + uint32(r.Intn(int(boundary-near)+4))
		stop := boundary + uint32(2+r.Intn(4))
		for ch.height()+1 < stop && !dead {
			if ch.height()+1 == restartH {
				restart()
			}
			if r.Intn(3) == 0 {
				empties(1)
			} else {
				logBlock()
			}
		}
	}
	if dead {
		return
	}
	last := ch.height()
	// final restart in half of the runs, so that the observations are read from a reopened ledger
	if r.Intn(2) == 0 {
		restart()
	}
	st := k.Store()
	db := st.VerifC43DB()
	fs := k.Ledger.GetFilterStart()

	// block-level oracle again on the final (possibly reopened) ledger + bloom observations
	var heights []uint32
	for h := range allItems {
		heights = append(heights, h)
	}
	sort.Slice(heights, func(i, j int) bool { return heights[i] < heights[j] })
	for _, h := range heights {
		bloom, err := k.Ledger.GetBloomData(h)
		if err != nil {
			panic(err)
		}
		for _, it := range allItems[h] {
			if !bloom.Test(it) {
				c.Fail("bloom:missing-log-item", "after reopening, the stored block bloom tests negative for an item of a log of the block", in,
					fmt.Sprintf("height %d item %x", h, it), "Test = true")
			}
		}
	}
	probe := append([]uint32{}, heights...)
	r.Shuffle(len(probe), func(i, j int) { probe[i], probe[j] = probe[j], probe[i] })
	if len(probe) > 30 {
		probe = probe[:30]
	}
	for i := 0; i < 6; i++ {
		probe = append(probe, uint32(r.Intn(int(last)+3)))
	}
	var bl []string
	for _, h := range probe {
		b, err := k.Ledger.GetBloomData(h)
		if err != nil {
			panic(err)
		}
		bl = append(bl, fmt.Sprintf("(%d, %s)", h, sparse(b[:])))
	}
	// section oracle + end-to-end + bit observations
	var bits []string
	for s := uint32(0); s <= last/S; s++ {
		complete := (s+1)*S-1 <= last
		if !complete {
			for _, i := range []uint{0, uint(r.Intn(2048)), 2047} {
				if _, e := ledgerstore.ReadBloomBits(db, i, s); e == nil {
					c.Fail("index:spurious-record", "an index record exists for a section that is not complete", in, fmt.Sprintf("section %d bit %d", s, i), "not found")
				}
				bits = append(bits, fmt.Sprintf("(%d, %d, None)", i, s))
			}
			continue
		}
		set, raw := checkSection(c, in, s, func(kk uint) ethtypes.Bloom {
			b, err := k.Ledger.GetBloomData(s*S + uint32(kk))
			if err != nil {
				panic(err)
			}
			return b
		}, func(i uint) ([]byte, error) { return ledgerstore.ReadBloomBits(db, i, s) })
		c.Count("chain:section-checked")
		// end to end: the three vectors of every log item have the block's bit
		for _, h := range heights {
			if h/S != s {
				continue
			}
			for _, it := range allItems[h] {
				for _, p := range positions(it) {
					rv, present := raw[p]
					vec, err := decompress(rv)
					if !present || err != nil || !vecBit(vec, uint(h%S)) {
						c.Fail("index:log-not-indexed", "a vector the matcher consults for a log item lacks the block's bit", in,
							fmt.Sprintf("height %d item %x bit %d", h, it, p), "bit set")
					}
				}
			}
		}
		for _, i := range pickBits(r, set, 16, 5) {
			v, ok := raw[i]
			bits = append(bits, fmt.Sprintf("(%d, %d, %s)", i, s, coqOptBytes(v, ok)))
		}
	}
	c.Count(fmt.Sprintf("chain:sections=%d", last/S))
	c.Nontrivial(fmt.Sprintf("chain:%d", in.Seed))
	c.Sample(map[string]interface{}{"kind": "chain", "seed": in.Seed, "height": last, "log_blocks": len(heights), "logs": nLogs, "txs": nTx, "reverted": nReverted, "filter_start": fs})
	c.Case(fmt.Sprintf("CChain %s %s %d %s %s", t.coq(), joinLines(coqOps), fs, hx.CoqList(bl), hx.CoqList(bits)),
		map[string]interface{}{"kind": "chain", "seed": in.Seed, "height": last, "log_blocks": len(heights), "logs": nLogs})
}
