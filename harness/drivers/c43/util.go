package c43

import (
	"fmt"
	"math/rand"
	"sort"
	"strings"

	"github.com/ethereum/go-ethereum/common/bitutil"
	ethtypes "github.com/ethereum/go-ethereum/core/types"
	"github.com/ethereum/go-ethereum/crypto"

	"verif/harness/hx"
)

const secSize = 4096 // checked against ledgerstore.BloomBitsBlocks in Run

// Input is the replayable description of one generated scenario.
type Input struct {
	Kind string `json:"kind"`
	Seed int64  `json:"seed"`
	Size int    `json:"size"`
}

func k6(d []byte) []byte { return crypto.Keccak256(d)[:6] }

// positions: the three bit indexes as go-ethereum's bloombits matcher computes them
// (calcBloomIndexes), independently of types.Bloom.
func positions(d []byte) [3]uint {
	h := crypto.Keccak256(d)
	var out [3]uint
	for i := 0; i < 3; i++ {
		out[i] = (uint(h[2*i])<<8)&2047 + uint(h[2*i+1])
	}
	return out
}

// bloomBit: bit i of a bloom in the generator's numbering, via big.Int (Bloom.Big()).
func bloomBit(b ethtypes.Bloom, i uint) bool { return b.Big().Bit(int(i)) == 1 }

// vecBit: bit k of a decompressed section vector.
func vecBit(v []byte, k uint) bool { return v[k/8]&(1<<(7-k%8)) != 0 }

// table collects the Keccak oracle entries a case needs.
type table struct {
	keys [][]byte
	seen map[string]bool
}

func newTable() *table { return &table{seen: map[string]bool{}} }
func (t *table) add(d []byte) {
	if !t.seen[string(d)] {
		t.seen[string(d)] = true
		t.keys = append(t.keys, append([]byte{}, d...))
	}
}

// index returns the position of d in the table (adding it if new).
func (t *table) index(d []byte) int {
	t.add(d)
	for i, k := range t.keys {
		if string(k) == string(d) {
			return i
		}
	}
	panic("unreachable")
}
func (t *table) addLog(l Log) {
	t.add(l.Addr)
	for _, x := range l.Topics {
		t.add(x)
	}
}
func (t *table) coq() string {
	var s []string
	for _, k := range t.keys {
		s = append(s, fmt.Sprintf("(%s, %s)", hx.CoqBytes(k), hx.CoqBytes(k6(k))))
	}
	return hx.CoqList(s)
}

func coqLog(l Log) string {
	var ts []string
	for _, t := range l.Topics {
		ts = append(ts, hx.CoqBytes(t))
	}
	return fmt.Sprintf("(Log %s %s %s)", hx.CoqBytes(l.Addr), hx.CoqList(ts), hx.CoqBytes(l.Data))
}

func coqLogs(ls []Log) string {
	var s []string
	for _, l := range ls {
		s = append(s, coqLog(l))
	}
	return hx.CoqList(s)
}

func sparse(b []byte) string {
	var s []string
	for i, v := range b {
		if v != 0 {
			s = append(s, fmt.Sprintf("(%d, %d)", i, v))
		}
	}
	return hx.CoqList(s)
}

func coqOptBytes(b []byte, ok bool) string { return hx.CoqOpt(ok, hx.CoqBytes(b)) }

func items(l Log) [][]byte { return append([][]byte{l.Addr}, l.Topics...) }

func toEth(ls []Log) []*ethtypes.Log {
	var out []*ethtypes.Log
	for _, l := range ls {
		e := &ethtypes.Log{Data: l.Data}
		copy(e.Address[:], l.Addr)
		for _, t := range l.Topics {
			var h [32]byte
			copy(h[:], t)
			e.Topics = append(e.Topics, h)
		}
		out = append(out, e)
	}
	return out
}

func randLog(r *rand.Rand) Log {
	l := Log{Addr: make([]byte, 20)}
	r.Read(l.Addr)
	if r.Intn(6) == 0 {
		l.Addr = make([]byte, 20)
		l.Addr[19] = byte(r.Intn(8))
	}
	n := r.Intn(5)
	for i := 0; i < n; i++ {
		t := make([]byte, 32)
		switch r.Intn(4) {
		case 0:
			t[31] = byte(r.Intn(4))
		case 1:
			if len(l.Topics) > 0 {
				copy(t, l.Topics[r.Intn(len(l.Topics))])
				break
			}
			fallthrough
		default:
			r.Read(t)
		}
		l.Topics = append(l.Topics, t)
	}
	if r.Intn(2) == 0 {
		l.Data = make([]byte, r.Intn(40))
		r.Read(l.Data)
	}
	return l
}

func randBloom(r *rand.Rand, maxLogs int) ethtypes.Bloom {
	var ls []Log
	n := 1 + r.Intn(maxLogs)
	for i := 0; i < n; i++ {
		ls = append(ls, randLog(r))
	}
	return ethtypes.BytesToBloom(ethtypes.LogsBloom(toEth(ls)))
}

func setBits(b ethtypes.Bloom) []uint {
	var out []uint
	for i := uint(0); i < ethtypes.BloomBitLength; i++ {
		if bloomBit(b, i) {
			out = append(out, i)
		}
	}
	return out
}

// pickBits chooses the bit indexes recorded in a case: up to maxSet of the set ones plus nRand others.
func pickBits(r *rand.Rand, set map[uint]bool, maxSet, nRand int) []uint {
	var s []uint
	for i := range set {
		s = append(s, i)
	}
	sort.Slice(s, func(i, j int) bool { return s[i] < s[j] })
	r.Shuffle(len(s), func(i, j int) { s[i], s[j] = s[j], s[i] })
	if len(s) > maxSet {
		s = s[:maxSet]
	}
	for i := 0; i < nRand; i++ {
		s = append(s, uint(r.Intn(ethtypes.BloomBitLength)))
	}
	s = append(s, 0, ethtypes.BloomBitLength-1)
	sort.Slice(s, func(i, j int) bool { return s[i] < s[j] })
	return s
}

func decompress(v []byte) ([]byte, error) { return bitutil.DecompressBytes(v, secSize/8) }

func joinLines(s []string) string { return "[" + strings.Join(s, ";\n  ") + "]" }

// sparseBytes: index/value pairs of the non-zero bytes (for failure reports).
func sparseBytes(b []byte) []byte {
	var out []byte
	for i, v := range b {
		if v != 0 {
			out = append(out, byte(i), v)
		}
	}
	return out
}
