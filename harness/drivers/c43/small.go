package c43

import (
	"bytes"
	"fmt"
	"math/rand"
	"path/filepath"

	"github.com/ethereum/go-ethereum/common/bitutil"
	ethtypes "github.com/ethereum/go-ethereum/core/types"
	"github.com/ontio/ontology/core/store/ledgerstore"
	"github.com/ontio/ontology/core/store/leveldbstore"

	"verif/harness/hx"
)

// scenLogs: go-ethereum's LogsBloom / Bloom.Test against the model, on random logs.
func scenLogs(c *hx.Ctx, in Input) {
	r := rand.New(rand.NewSource(in.Seed))
	n := r.Intn(6)
	if r.Intn(10) == 0 {
		n = 0
	}
	var logs []Log
	for i := 0; i < n; i++ {
		logs = append(logs, randLog(r))
	}
	bloom := ethtypes.BytesToBloom(ethtypes.LogsBloom(toEth(logs)))
	c.Eval()
	t := newTable()
	var tests []string
	probe := func(d []byte, member bool) {
		idx := t.index(d)
		got := bloom.Test(d)
		if member && !got {
			c.Fail("bloom:missing-log-item", "LogsBloom tests negative for an address/topic of one of its logs", in, hx.Hex(d), "Test = true")
		}
		p := positions(d)
		tests = append(tests, fmt.Sprintf("(%d, %s, [%d; %d; %d])", idx, hx.CoqBool(got), p[0], p[1], p[2]))
		if got {
			c.Count("logs:test-positive")
		} else {
			c.Count("logs:test-negative")
		}
	}
	var ls []string
	for _, l := range logs {
		var ts []string
		for _, x := range l.Topics {
			ts = append(ts, fmt.Sprint(t.index(x)))
		}
		ls = append(ls, fmt.Sprintf("(%d, %s, %s)", t.index(l.Addr), hx.CoqList(ts), hx.CoqBytes(l.Data)))
		for _, it := range items(l) {
			probe(it, true)
			if r.Intn(3) == 0 {
				m := append([]byte{}, it...)
				m[r.Intn(len(m))] ^= 1 << uint(r.Intn(8))
				probe(m, false)
			}
		}
	}
	for i := 0; i < 2; i++ {
		d := make([]byte, []int{20, 32, 0, 5}[r.Intn(4)])
		r.Read(d)
		probe(d, false)
	}
	c.Count(fmt.Sprintf("logs:n=%d", n))
	if n > 0 {
		c.Nontrivial(fmt.Sprintf("logs:%x", bloom[:]))
	}
	c.Case(fmt.Sprintf("CLogs %s %s %s %s", t.coq(), hx.CoqList(ls), sparse(bloom[:]), hx.CoqList(tests)),
		map[string]interface{}{"kind": "logs", "seed": in.Seed, "logs": n})
}

// scenKeys: the key encodings.
func scenKeys(c *hx.Ctx, in Input) {
	r := rand.New(rand.NewSource(in.Seed))
	pick32 := func() uint32 {
		switch r.Intn(5) {
		case 0:
			return []uint32{0, 1, 255, 256, 4095, 4096, 65535, 65536, 1<<24 - 1, 1 << 24, 1<<32 - 1, 13920000}[r.Intn(12)]
		case 1:
			return uint32(r.Intn(70000))
		}
		return r.Uint32()
	}
	h, s := pick32(), pick32()
	i := uint(r.Intn(2048))
	if r.Intn(4) == 0 {
		i = uint(r.Intn(140000)) // uint16(bit) truncation
	}
	bs, err := ledgerstore.NewBlockStore(filepath.Join(c.OutDir, "keys-store"), false)
	if err != nil {
		panic(err)
	}
	k1 := bs.VerifC43BloomKey(h)
	bs.Close()
	k2 := ledgerstore.VerifC43BloomBitsKey(i, s)
	c.Eval()
	c.Count("keys")
	c.Nontrivial(fmt.Sprintf("keys:%d/%d/%d", h, i, s))
	c.Case(fmt.Sprintf("CKeys %d %d %d %s %s", h, i, s, hx.CoqBytes(k1), hx.CoqBytes(k2)),
		map[string]interface{}{"kind": "keys", "h": h, "i": i, "s": s})

	// sequential aliasing clause: a key obtained from the builder stays what it was, and distinct
	// from later keys, after further builds (the key is a pure function of (bit, section)).
	i2, s2 := uint(r.Intn(2048)), pick32()
	if uint16(i2) == uint16(i) && s2 == s {
		i2 = (i2 + 1) % 2048
	}
	ka := ledgerstore.VerifC43BloomBitsKey(i, s)
	snapA := append([]byte{}, ka...)
	kb := ledgerstore.VerifC43BloomBitsKey(i2, s2)
	snapB := append([]byte{}, kb...)
	afterA, afterB := append([]byte{}, ka...), append([]byte{}, kb...) // both read after the second build
	c.Eval()
	c.Case(fmt.Sprintf("CKeyPair %d %d %d %d %s %s", i, s, i2, s2, hx.CoqBytes(afterA), hx.CoqBytes(afterB)),
		map[string]interface{}{"kind": "keypair", "i1": i, "s1": s, "i2": i2, "s2": s2})
	for j := 0; j < 3; j++ {
		ledgerstore.VerifC43BloomBitsKey(uint(r.Intn(2048)), r.Uint32())
	}
	shared := len(ka) > 0 && len(kb) > 0 && &ka[0] == &kb[0]
	if shared || !bytes.Equal(afterA, snapA) || !bytes.Equal(ka, snapA) || !bytes.Equal(kb, snapB) || bytes.Equal(afterA, afterB) {
		c.Fail("index:key-aliased", "two keys obtained from bloomBitsKey do not stay distinct and unchanged after further key builds", in,
			fmt.Sprintf("(bit %d, section %d) built %x, now %x; (bit %d, section %d) built %x, now %x; same backing array: %v",
				i, s, snapA, ka, i2, s2, snapB, kb, shared),
			"both unchanged, distinct, separately allocated")
	}
	c.Count("keys:pairs")
}

func randVector(r *rand.Rand) []byte {
	lens := []int{0, 1, 2, 3, 7, 8, 9, 15, 16, 17, 63, 64, 65, 100, 511, 512, 512, 512, 513}
	n := lens[r.Intn(len(lens))]
	d := make([]byte, n)
	switch r.Intn(5) {
	case 0: // all zero
	case 1: // dense
		r.Read(d)
	case 2: // single bit
		if n > 0 {
			d[r.Intn(n)] = 1 << uint(r.Intn(8))
		}
	default: // sparse
		k := 1 + r.Intn(6)
		for j := 0; j < k && n > 0; j++ {
			d[r.Intn(n)] = byte(1 + r.Intn(255))
		}
	}
	return d
}

// scenComp: bitutil.CompressBytes / DecompressBytes against the model, and malformed streams.
func scenComp(c *hx.Ctx, in Input) {
	r := rand.New(rand.NewSource(in.Seed))
	d := randVector(r)
	comp := bitutil.CompressBytes(d)
	back, err := bitutil.DecompressBytes(comp, len(d))
	c.Eval()
	if err != nil || !bytes.Equal(back, d) {
		c.Fail("compress:roundtrip", "DecompressBytes(CompressBytes(d), len d) differs from d", in, fmt.Sprint(err), hx.Hex(d))
	}
	c.Count(fmt.Sprintf("comp:len=%d", len(d)))
	if len(comp) < len(d) {
		c.Count("comp:compressed")
	} else {
		c.Count("comp:copied")
	}
	c.Nontrivial(fmt.Sprintf("comp:%x", d))
	c.Case(fmt.Sprintf("CComp %s %s", hx.CoqBytes(d), hx.CoqBytes(comp)), map[string]interface{}{"kind": "comp", "seed": in.Seed, "len": len(d)})
	// a malformed stream derived from the compressed form
	m := append([]byte{}, comp...)
	target := len(d)
	switch r.Intn(6) {
	case 0:
		if len(m) > 0 {
			m = m[:r.Intn(len(m))]
		}
	case 1:
		m = append(m, byte(r.Intn(256)))
	case 2:
		if len(m) > 0 {
			m[r.Intn(len(m))] ^= 1 << uint(r.Intn(8))
		}
	case 3:
		if len(m) > 0 {
			m[r.Intn(len(m))] = 0
		}
	case 4:
		target = []int{0, 1, 2, 8, 9, 64, 512}[r.Intn(7)]
	default:
		m = make([]byte, r.Intn(12))
		r.Read(m)
		target = []int{1, 2, 8, 9, 16, 64, 512}[r.Intn(7)]
	}
	out, err := bitutil.DecompressBytes(m, target)
	c.Eval()
	if err != nil {
		c.Count("decomp:error")
	} else {
		c.Count("decomp:ok")
		if out == nil {
			out = []byte{}
		}
	}
	c.Case(fmt.Sprintf("CDecomp %s %d %s", hx.CoqBytes(m), target, coqOptBytes(out, err == nil)),
		map[string]interface{}{"kind": "decomp", "seed": in.Seed, "target": target, "err": fmt.Sprint(err)})
}

// checkSection: the direct oracle for one section: every bit of every vector against the blooms.
// get(k) = bloom of block k of the section; read(i) = the stored record.
func checkSection(c *hx.Ctx, in Input, section uint32, get func(k uint) ethtypes.Bloom, read func(i uint) ([]byte, error)) (set map[uint]bool, raw map[uint][]byte) {
	set = map[uint]bool{}
	raw = map[uint][]byte{}
	var blooms [secSize]ethtypes.Bloom
	var bigs [secSize][]byte // big-endian bytes; bit i = byte 255-i/8, bit i%8 of the array itself
	for k := uint(0); k < secSize; k++ {
		blooms[k] = get(k)
		bigs[k] = blooms[k][:]
	}
	failedMissing, failedDecode, failedBit := false, false, false
	for i := uint(0); i < ethtypes.BloomBitLength; i++ {
		for k := uint(0); k < secSize; k++ {
			if bigs[k][255-i/8]&(1<<(i%8)) != 0 {
				set[i] = true
				break
			}
		}
		v, err := read(i)
		if err != nil {
			if !failedMissing {
				c.Fail("index:missing-record", "ReadBloomBits fails for a bit of a completed section", in, fmt.Sprintf("bit %d section %d: %v", i, section, err), "a record")
			}
			failedMissing = true
			continue
		}
		raw[i] = v
		vec, err := decompress(v)
		if err != nil {
			if !failedDecode {
				c.Fail("index:undecodable", "the stored vector does not decompress to BloomBitsBlocks/8 bytes", in, fmt.Sprintf("bit %d section %d: %v", i, section, err), "512 bytes")
			}
			failedDecode = true
			continue
		}
		for k := uint(0); k < secSize && !failedBit; k++ {
			want := bigs[k][255-i/8]&(1<<(i%8)) != 0
			if vecBit(vec, k) != want {
				c.Fail("index:bit-mismatch", "section vector bit differs from the block bloom bit", in,
					fmt.Sprintf("section %d bit %d block %d: vector=%v", section, i, k, vecBit(vec, k)), fmt.Sprintf("bloom bit=%v", want))
				failedBit = true
			}
		}
	}
	// cross-check the byte/bit numbering used above against Bloom.Big()
	for k := uint(0); k < secSize; k += 97 {
		for _, i := range []uint{0, 7, 8, 1029, 2047} {
			if bloomBit(blooms[k], i) != (bigs[k][255-i/8]&(1<<(i%8)) != 0) {
				panic("harness: bloom bit numbering")
			}
		}
	}
	return
}

// scenIndex: PutBloomIndex on 4096 synthetic blooms (a few non-empty).
func scenIndex(c *hx.Ctx, in Input) {
	r := rand.New(rand.NewSource(in.Seed))
	dir := filepath.Join(c.OutDir, fmt.Sprintf("index-%d", in.Seed))
	db, err := leveldbstore.NewLevelDBStore(dir)
	if err != nil {
		panic(err)
	}
	defer db.Close()
	blooms := make([]ethtypes.Bloom, secSize)
	m := 1 + r.Intn(in.Size)
	var sp []string
	used := map[int]bool{}
	for j := 0; j < m; j++ {
		k := r.Intn(secSize)
		if j == 0 {
			k = []int{0, 7, 8, secSize - 1}[r.Intn(4)]
		}
		if used[k] {
			continue
		}
		used[k] = true
		blooms[k] = randBloom(r, 3)
		sp = append(sp, fmt.Sprintf("(%d, %s)", k, sparse(blooms[k][:])))
	}
	section := []uint32{0, 1, 3398, 1<<20 - 1}[r.Intn(4)]
	db.NewBatch()
	panicked, msg := hx.Recover(func() { ledgerstore.PutBloomIndex(db, blooms, section) })
	c.Eval()
	if panicked {
		c.Fail("index:panic", "PutBloomIndex panics on a full section of blooms", in, msg, "no panic")
		return
	}
	if err := db.BatchCommit(); err != nil {
		panic(err)
	}
	set, raw := checkSection(c, in, section, func(k uint) ethtypes.Bloom { return blooms[k] },
		func(i uint) ([]byte, error) { return ledgerstore.ReadBloomBits(db, i, section) })
	var bits []string
	for _, i := range pickBits(r, set, 24, 8) {
		v, ok := raw[i]
		bits = append(bits, fmt.Sprintf("(%d, %s)", i, coqOptBytes(v, ok)))
	}
	// a neighbouring section has no record
	if _, err := ledgerstore.ReadBloomBits(db, 5, section+1); err == nil {
		c.Fail("index:spurious-record", "a record exists for a section that was not written", in, section+1, "not found")
	}
	c.Count("index:sections")
	c.Count(fmt.Sprintf("index:nonempty-blooms=%d", len(used)))
	c.Nontrivial(fmt.Sprintf("index:%d:%v", in.Seed, sp))
	c.Case(fmt.Sprintf("CIndex %s %d %s", hx.CoqList(sp), section, hx.CoqList(bits)),
		map[string]interface{}{"kind": "index", "seed": in.Seed, "nonempty": len(used), "section": section})
}
