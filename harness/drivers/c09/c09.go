// Package c09: ONG issuance (CalcUnbindOng / CalcGovernanceUnbindOng / GetGovUnboundDeadline).
//
// Translator: tables, interval, supplies and per-network deadlines -> coq/Gen/Unbind.v (gen.go).
// Correspondence: the three functions evaluated under network ids 1, 2, 3 and one other on
// boundary-heavy (balance, start, split, end) inputs; Coq re-computes with Model/Unbind.v.
// Oracle (directly on the implementation): f(s,m)+f(m,e) = f(s,e) for holders and governance,
// k-way splits, exact linearity in the balance without uint64 wrap for balances up to the ONT
// supply, whole-schedule total = ONG supply, no panic. The old defect F3 (gap lost when the
// split point is exactly the governance deadline) is probed on every run and replayed from
// corpus/C09.
package c09

import (
	"encoding/json"
	"fmt"
	"math/big"
	"sort"

	"github.com/ontio/ontology/common/config"
	"github.com/ontio/ontology/common/constants"
	nutils "github.com/ontio/ontology/smartcontract/service/native/utils"

	"verif/harness/gen"
	"verif/harness/hx"
)

func init() {
	gen.RegisterFile("Unbind.v", produceUnbind)
	hx.Register("C09", Run)
}

// Input is one replayable input: a network id, a balance and three offsets.
type Input struct {
	Net uint32 `json:"net"`
	B   uint64 `json:"b"`
	S   uint32 `json:"s"`
	M   uint32 `json:"m"`
	E   uint32 `json:"e"`
}

type outcome struct {
	Panicked bool
	V        uint64
	Msg      string
}

func (o outcome) coq() string { return hx.CoqOpt(!o.Panicked, fmt.Sprint(o.V)) }
func (o outcome) json() interface{} {
	if o.Panicked {
		return "panic: " + o.Msg
	}
	return o.V
}

func holder(c *hx.Ctx, net uint32, b uint64, s, e uint32) (o outcome) {
	withNet(net, func() {
		o.Panicked, o.Msg = hx.Recover(func() { o.V = nutils.CalcUnbindOng(b, s, e) })
	})
	c.Eval()
	return
}

func gov(c *hx.Ctx, net uint32, s, e uint32) (o outcome) {
	withNet(net, func() {
		o.Panicked, o.Msg = hx.Recover(func() { o.V = nutils.CalcGovernanceUnbindOng(s, e) })
	})
	c.Eval()
	return
}

const maxU32 = ^uint32(0)

var two64 = new(big.Int).Lsh(big.NewInt(1), 64)

// checkTriple is the oracle for one input; withCases also records the six observations as
// correspondence cases.
func checkTriple(c *hx.Ctx, in Input, withCases bool, origin string) {
	hsm, hme, hse := holder(c, in.Net, in.B, in.S, in.M), holder(c, in.Net, in.B, in.M, in.E), holder(c, in.Net, in.B, in.S, in.E)
	gsm, gme, gse := gov(c, in.Net, in.S, in.M), gov(c, in.Net, in.M, in.E), gov(c, in.Net, in.S, in.E)
	for _, o := range []outcome{hsm, hme, hse, gsm, gme, gse} {
		if o.Panicked {
			c.Fail("panic", "CalcUnbindOng / CalcGovernanceUnbindOng panicked", in, o.Msg, "a value")
			break
		}
	}
	gd := evalGovDeadline(in.Net)
	sorted := in.S <= in.M && in.M <= in.E
	if sorted && !hsm.Panicked && !hme.Panicked && !hse.Panicked {
		// uint64 addition wraps exactly as the ledger's own additions would
		if hsm.V+hme.V != hse.V {
			c.Fail("additivity:holder", "holder release over [s,e) differs from the sum over [s,m) and [m,e)", in,
				map[string]interface{}{"s_m": hsm.V, "m_e": hme.V, "s_e": hse.V}, "s_m + m_e == s_e")
		}
		if in.B <= constants.ONT_TOTAL_SUPPLY {
			// no wrap: the value is balance * (release of one unit), as integers
			unit := holder(c, in.Net, 1, in.S, in.E)
			want := new(big.Int).Mul(new(big.Int).SetUint64(in.B), new(big.Int).SetUint64(unit.V))
			if unit.Panicked || want.Cmp(two64) >= 0 || want.Uint64() != hse.V ||
				new(big.Int).Add(new(big.Int).SetUint64(hsm.V), new(big.Int).SetUint64(hme.V)).Cmp(two64) >= 0 {
				c.Fail("wrap:holder", "holder release for a balance <= ONT supply is not balance * unit release as an integer below 2^64", in,
					map[string]interface{}{"value": hse.V, "unit": unit.json()}, want.String())
			}
		}
	}
	if sorted && !gsm.Panicked && !gme.Panicked && !gse.Panicked {
		sum := new(big.Int).Add(new(big.Int).SetUint64(gsm.V), new(big.Int).SetUint64(gme.V))
		if sum.Cmp(new(big.Int).SetUint64(gse.V)) != 0 {
			class := "additivity:gov"
			if !gd.Panicked && in.M == gd.Deadline {
				class = "additivity:gov:split-at-gov-deadline"
			}
			c.Fail(class, "governance release over [s,e) differs from the sum over [s,m) and [m,e)", in,
				map[string]interface{}{"s_m": gsm.V, "m_e": gme.V, "s_e": gse.V}, "s_m + m_e == s_e")
		}
	}
	if withCases {
		d := map[string]interface{}{"net": in.Net, "b": in.B, "s": in.S, "m": in.M, "e": in.E, "origin": origin}
		c.Case(fmt.Sprintf("CHolder %d %d %d %d %s", in.Net, in.B, in.S, in.M, hsm.coq()), d)
		c.Case(fmt.Sprintf("CHolder %d %d %d %d %s", in.Net, in.B, in.M, in.E, hme.coq()), d)
		c.Case(fmt.Sprintf("CHolder %d %d %d %d %s", in.Net, in.B, in.S, in.E, hse.coq()), d)
		c.Case(fmt.Sprintf("CGov %d %d %d %s", in.Net, in.S, in.M, gsm.coq()), d)
		c.Case(fmt.Sprintf("CGov %d %d %d %s", in.Net, in.M, in.E, gme.coq()), d)
		c.Case(fmt.Sprintf("CGov %d %d %d %s", in.Net, in.S, in.E, gse.coq()), d)
		c.Count("cases:" + origin)
		c.Sample(map[string]interface{}{"input": in, "holder": []interface{}{hsm.json(), hme.json(), hse.json()},
			"gov": []interface{}{gsm.json(), gme.json(), gse.json()}})
	}
	// distribution
	c.Count(fmt.Sprintf("net:%s", netName(in.Net)))
	switch {
	case !sorted:
		c.Count("order:unsorted")
	case in.S == in.M || in.M == in.E:
		c.Count("order:degenerate-split")
	default:
		c.Count("order:s<m<e")
	}
	if !gd.Panicked {
		hd := evalHolderDeadline(in.Net)
		switch {
		case in.M == gd.Deadline:
			c.Count("split:at-gov-deadline")
		case in.M == hd:
			c.Count("split:at-holder-deadline")
		case nutils.TIME_INTERVAL != 0 && in.M%nutils.TIME_INTERVAL == 0:
			c.Count("split:at-interval-boundary")
		case in.M > gd.Deadline:
			c.Count("split:after-schedule")
		case in.M < hd:
			c.Count("split:holder-phase")
		default:
			c.Count("split:gov-phase")
		}
		if sorted && in.S < in.M && in.M < in.E && in.S <= gd.Deadline && in.B > 0 {
			c.Nontrivial(fmt.Sprintf("%d/%d/%d/%d/%d", in.Net, in.B, in.S, in.M, in.E))
		}
	}
}

func netName(id uint32) string {
	switch id {
	case config.NETWORK_ID_MAIN_NET:
		return "1-main"
	case config.NETWORK_ID_POLARIS_NET:
		return "2-polaris"
	case config.NETWORK_ID_SOLO_NET:
		return "3-solo"
	}
	return "other"
}

// checkSplits: a k-way split of [s,e) releases what the whole interval releases.
func checkSplits(c *hx.Ctx, net uint32, b uint64, pts []uint32) {
	sort.Slice(pts, func(i, j int) bool { return pts[i] < pts[j] })
	var hs, gs uint64
	gbig := new(big.Int)
	for i := 0; i+1 < len(pts); i++ {
		h, g := holder(c, net, b, pts[i], pts[i+1]), gov(c, net, pts[i], pts[i+1])
		if h.Panicked || g.Panicked {
			c.Fail("panic", "CalcUnbindOng / CalcGovernanceUnbindOng panicked", map[string]interface{}{"net": net, "b": b, "points": pts}, h.Msg+g.Msg, "a value")
			return
		}
		hs += h.V
		gs += g.V
		gbig.Add(gbig, new(big.Int).SetUint64(g.V))
	}
	h, g := holder(c, net, b, pts[0], pts[len(pts)-1]), gov(c, net, pts[0], pts[len(pts)-1])
	if h.Panicked || g.Panicked {
		return
	}
	c.Count("ksplit")
	if hs != h.V {
		c.Fail("additivity:holder", "holder release over a k-way split differs from the release over the whole interval",
			map[string]interface{}{"net": net, "b": b, "points": pts}, hs, h.V)
	}
	if gbig.Cmp(new(big.Int).SetUint64(g.V)) != 0 {
		c.Fail("additivity:gov", "governance release over a k-way split differs from the release over the whole interval",
			map[string]interface{}{"net": net, "points": pts}, gbig.String(), g.V)
	}
}

// checkTotals: whole-schedule release = ONG supply under this network id.
func checkTotals(c *hx.Ctx, net uint32) {
	gd := evalGovDeadline(net)
	hd := evalHolderDeadline(net)
	c.Case(fmt.Sprintf("CDeadline %d %d %s", net, hd, gd.coq()), map[string]interface{}{"net": net, "deadline_probe": true})
	if gd.Panicked {
		c.Fail("panic:gov-deadline", "GetGovUnboundDeadline panicked ('incompatible constants setting')", map[string]interface{}{"net": net}, "panic", "a deadline")
		return
	}
	ends := []uint32{gd.Deadline + 1, gd.Deadline + 2, nutils.TIME_INTERVAL * 18, nutils.TIME_INTERVAL * 108, maxU32 - 1, maxU32}
	for _, e := range ends {
		if e <= gd.Deadline {
			continue
		}
		h, g := holder(c, net, constants.ONT_TOTAL_SUPPLY, 0, e), gov(c, net, 0, e)
		if h.Panicked || g.Panicked {
			c.Fail("panic", "CalcUnbindOng / CalcGovernanceUnbindOng panicked", map[string]interface{}{"net": net, "e": e}, h.Msg+g.Msg, "a value")
			continue
		}
		total := new(big.Int).Add(new(big.Int).SetUint64(h.V), new(big.Int).SetUint64(g.V))
		c.Count("totals")
		if total.Cmp(new(big.Int).SetUint64(constants.ONG_TOTAL_SUPPLY)) != 0 {
			c.Fail("totals", "release to holders of the whole ONT supply plus release to governance over the whole schedule differs from the ONG total supply",
				map[string]interface{}{"net": net, "s": 0, "e": e}, map[string]interface{}{"holder": h.V, "gov": g.V, "sum": total.String()}, uint64(constants.ONG_TOTAL_SUPPLY))
		}
		c.Case(fmt.Sprintf("CHolder %d %d 0 %d %s", net, uint64(constants.ONT_TOTAL_SUPPLY), e, h.coq()), map[string]interface{}{"net": net, "totals_e": e})
		c.Case(fmt.Sprintf("CGov %d 0 %d %s", net, e, g.coq()), map[string]interface{}{"net": net, "totals_e": e})
	}
	// nothing is released after the schedule
	if gd.Deadline < maxU32-1 {
		g := gov(c, net, gd.Deadline+1, maxU32)
		h := holder(c, net, constants.ONT_TOTAL_SUPPLY, gd.Deadline+1, maxU32)
		if !g.Panicked && !h.Panicked && (g.V != 0 || h.V != 0) {
			c.Fail("totals", "ONG released after the end of the schedule", map[string]interface{}{"net": net, "s": gd.Deadline + 1, "e": maxU32},
				map[string]interface{}{"holder": h.V, "gov": g.V}, 0)
		}
	}
}

// boundaries returns the offsets the branches of the three functions compare against, +-2.
func boundaries(net uint32) []uint32 {
	set := map[uint32]bool{}
	add := func(x uint32) {
		for _, d := range []uint32{0, 1, 2, maxU32, maxU32 - 1} { // +0 +1 +2 -1 -2 (wrapping is fine: still an offset)
			set[x+d] = true
		}
	}
	add(0)
	add(maxU32)
	add(evalHolderDeadline(net))
	if gd := evalGovDeadline(net); !gd.Panicked {
		add(gd.Deadline)
	}
	ti := nutils.TIME_INTERVAL
	for _, k := range []uint32{1, 2, 3, 13, 16, 17, 18, 19, 108} {
		add(ti * k)
	}
	var out []uint32
	for x := range set {
		out = append(out, x)
	}
	sort.Slice(out, func(i, j int) bool { return out[i] < out[j] })
	return out
}

func pickOffset(c *hx.Ctx, bs []uint32) uint32 {
	switch c.Intn(10) {
	case 0, 1, 2, 3, 4:
		return bs[c.Intn(len(bs))]
	case 5:
		return bs[c.Intn(len(bs))] + uint32(c.Intn(2000)) - 1000
	case 6:
		// inside the schedule
		return uint32(c.Rng.Int63n(int64(nutils.TIME_INTERVAL)*18 + 1))
	case 7:
		return uint32(c.Rng.Int63n(int64(nutils.TIME_INTERVAL)*3 + 1))
	default:
		return c.Rng.Uint32()
	}
}

func pickBalance(c *hx.Ctx) uint64 {
	switch c.Intn(10) {
	case 0:
		return 0
	case 1:
		return 1
	case 2:
		return constants.ONT_TOTAL_SUPPLY
	case 3:
		return constants.ONT_TOTAL_SUPPLY - uint64(c.Intn(3))
	case 4:
		return constants.ONT_TOTAL_SUPPLY + 1 + uint64(c.Intn(1000))
	case 5:
		return c.Rng.Uint64()
	case 6:
		return ^uint64(0) - uint64(c.Intn(3))
	default:
		return uint64(c.Rng.Int63n(constants.ONT_TOTAL_SUPPLY + 1))
	}
}

func Run(c *hx.Ctx) {
	c.CoqModule("Corr.C09")
	var in Input
	if c.ReplayInput(&in) {
		checkTriple(c, in, true, "replay")
		return
	}
	// 0. corpus: the old F3 witnesses (split exactly at the governance deadline), concrete numbers
	for _, raw := range c.CorpusInputs() {
		var r Input
		if json.Unmarshal(raw, &r) == nil {
			checkTriple(c, r, true, "corpus")
		}
	}
	ids, others, err := knownIDs(c.Repo)
	if err != nil {
		c.Note("network switch: " + err.Error())
		c.Fail("translator:network-switch", "config.GetOntHolderUnboundDeadline no longer has the shape the translator reads", "common/config/config.go", err.Error(), nil)
		ids = []uint32{config.NETWORK_ID_MAIN_NET, config.NETWORK_ID_POLARIS_NET}
		others = defaultProbes
	}
	// networks exercised: every id the switch names, 1, 2, 3, and one other id (seed-dependent)
	netSet := map[uint32]bool{1: true, 2: true, 3: true}
	for _, id := range ids {
		netSet[id] = true
	}
	var extra []uint32
	for _, o := range others {
		if !netSet[o] {
			extra = append(extra, o)
		}
	}
	other := c.Rng.Uint32()
	if len(extra) > 0 && c.Intn(4) != 0 {
		other = extra[c.Intn(len(extra))]
	}
	for netSet[other] {
		other++
	}
	netSet[other] = true
	var nets []uint32
	for id := range netSet {
		nets = append(nets, id)
	}
	sort.Slice(nets, func(i, j int) bool { return nets[i] < nets[j] })
	c.Note(fmt.Sprintf("network ids exercised: %v (other = %d)", nets, other))

	for _, net := range nets {
		// 1. totals + deadline correspondence
		checkTotals(c, net)
		// 2. deterministic F3 probe: split exactly at the governance deadline as the code computes it now
		gd := evalGovDeadline(net)
		hd := evalHolderDeadline(net)
		if !gd.Panicked {
			for _, s := range []uint32{0, hd, gd.Deadline - 1, gd.Deadline} {
				for _, e := range []uint32{gd.Deadline, gd.Deadline + 1, maxU32} {
					if s <= gd.Deadline && gd.Deadline <= e {
						checkTriple(c, Input{Net: net, B: constants.ONT_TOTAL_SUPPLY, S: s, M: gd.Deadline, E: e}, true, "probe-f3")
					}
				}
			}
		}
		// 3. all sorted triples over the boundary set: oracle only
		bs := boundaries(net)
		for i := 0; i < len(bs); i++ {
			for j := i; j < len(bs); j++ {
				for k := j; k < len(bs); k++ {
					checkTriple(c, Input{Net: net, B: []uint64{1, constants.ONT_TOTAL_SUPPLY, 977}[(i+j+k)%3], S: bs[i], M: bs[j], E: bs[k]}, false, "boundary-sweep")
				}
			}
		}
	}
	// 4. generated inputs: boundary-heavy, recorded as correspondence cases
	n := c.N(200, 2000)
	bsets := map[uint32][]uint32{}
	for _, net := range nets {
		bsets[net] = boundaries(net)
	}
	for i := 0; i < n; i++ {
		net := nets[i%len(nets)]
		bs := bsets[net]
		t := []uint32{pickOffset(c, bs), pickOffset(c, bs), pickOffset(c, bs)}
		if c.Intn(5) != 0 {
			sort.Slice(t, func(a, b int) bool { return t[a] < t[b] })
		}
		checkTriple(c, Input{Net: net, B: pickBalance(c), S: t[0], M: t[1], E: t[2]}, true, "generated")
	}
	// 5. k-way splits and many more oracle-only triples
	m := c.N(20000, 400000)
	for i := 0; i < m; i++ {
		net := nets[i%len(nets)]
		bs := bsets[net]
		if i%10 == 0 {
			k := 3 + c.Intn(8)
			pts := make([]uint32, k)
			for j := range pts {
				pts[j] = pickOffset(c, bs)
			}
			checkSplits(c, net, pickBalance(c), pts)
			continue
		}
		t := []uint32{pickOffset(c, bs), pickOffset(c, bs), pickOffset(c, bs)}
		sort.Slice(t, func(a, b int) bool { return t[a] < t[b] })
		checkTriple(c, Input{Net: net, B: pickBalance(c), S: t[0], M: t[1], E: t[2]}, false, "generated-oracle")
	}
}
