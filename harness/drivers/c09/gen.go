package c09

import (
	"bytes"
	"fmt"
	"go/ast"
	"go/parser"
	"go/printer"
	"go/token"
	"path/filepath"
	"strconv"
	"strings"

	"github.com/ontio/ontology/common/config"
	"github.com/ontio/ontology/common/constants"
	nutils "github.com/ontio/ontology/smartcontract/service/native/utils"

	"verif/harness/hx"
)

// The network ids the switch in config.GetOntHolderUnboundDeadline may name. Any other label
// must be an integer literal or a constant of package config declared with an integer literal;
// anything else makes the producer fail closed.
var knownNetConsts = map[string]uint32{
	"NETWORK_ID_MAIN_NET":    config.NETWORK_ID_MAIN_NET,
	"NETWORK_ID_POLARIS_NET": config.NETWORK_ID_POLARIS_NET,
	"NETWORK_ID_SOLO_NET":    config.NETWORK_ID_SOLO_NET,
}

// ids outside every switch label that are evaluated to obtain (and cross-check) the default branch.
var defaultProbes = []uint32{3, 0, 4, 5, 7, 100, 0x7fffffff, 0x80000000, 0xfffffffe, 0xffffffff}

func withNet(id uint32, f func()) {
	old := config.DefConfig.P2PNode.NetworkId
	config.DefConfig.P2PNode.NetworkId = id
	defer func() { config.DefConfig.P2PNode.NetworkId = old }()
	f()
}

type govDeadline struct {
	Panicked bool
	Deadline uint32
	Gap      uint64
}

func evalHolderDeadline(id uint32) (d uint32) {
	withNet(id, func() { d = config.GetOntHolderUnboundDeadline() })
	return
}

func evalGovDeadline(id uint32) (g govDeadline) {
	withNet(id, func() {
		p, _ := hx.Recover(func() { g.Deadline, g.Gap = config.GetGovUnboundDeadline() })
		g.Panicked = p
	})
	return
}

func (g govDeadline) coq() string {
	if g.Panicked {
		return "None"
	}
	return fmt.Sprintf("(Some (%d, %d))", g.Deadline, g.Gap)
}

func printNode(fset *token.FileSet, n ast.Node) string {
	var b bytes.Buffer
	printer.Fprint(&b, fset, n)
	return b.String()
}

// switchLabels reads the network ids named by the case clauses of
// `switch DefConfig.P2PNode.NetworkId { case A: return ...; default: return ... }`
// which must be the whole body of fn.
func switchLabels(repo, file, fn string) ([]uint32, error) {
	fset := token.NewFileSet()
	f, err := parser.ParseFile(fset, filepath.Join(repo, file), nil, 0)
	if err != nil {
		return nil, err
	}
	var fd *ast.FuncDecl
	for _, d := range f.Decls {
		if x, ok := d.(*ast.FuncDecl); ok && x.Name.Name == fn && x.Recv == nil {
			fd = x
		}
	}
	if fd == nil || fd.Body == nil {
		return nil, fmt.Errorf("function %s not found in %s", fn, file)
	}
	if len(fd.Body.List) != 1 {
		return nil, fmt.Errorf("%s: body is not a single switch statement (%d statements)", fn, len(fd.Body.List))
	}
	sw, ok := fd.Body.List[0].(*ast.SwitchStmt)
	if !ok || sw.Init != nil || sw.Tag == nil {
		return nil, fmt.Errorf("%s: body is not a plain switch statement", fn)
	}
	if tag := printNode(fset, sw.Tag); tag != "DefConfig.P2PNode.NetworkId" {
		return nil, fmt.Errorf("%s: switch tag is %q, expected DefConfig.P2PNode.NetworkId", fn, tag)
	}
	consts := map[string]string{}
	for _, d := range f.Decls {
		gd, ok := d.(*ast.GenDecl)
		if !ok || gd.Tok != token.CONST {
			continue
		}
		for _, s := range gd.Specs {
			vs := s.(*ast.ValueSpec)
			for i, n := range vs.Names {
				if i < len(vs.Values) {
					if bl, ok := vs.Values[i].(*ast.BasicLit); ok && bl.Kind == token.INT {
						consts[n.Name] = bl.Value
					}
				}
			}
		}
	}
	var ids []uint32
	hasDefault := false
	for _, st := range sw.Body.List {
		cc := st.(*ast.CaseClause)
		if len(cc.Body) != 1 {
			return nil, fmt.Errorf("%s: a case clause has %d statements, expected one return", fn, len(cc.Body))
		}
		if _, ok := cc.Body[0].(*ast.ReturnStmt); !ok {
			return nil, fmt.Errorf("%s: a case clause does not consist of a return statement", fn)
		}
		if cc.List == nil {
			hasDefault = true
			continue
		}
		for _, e := range cc.List {
			switch x := e.(type) {
			case *ast.BasicLit:
				v, err := strconv.ParseUint(x.Value, 0, 32)
				if err != nil {
					return nil, fmt.Errorf("%s: case label %s", fn, x.Value)
				}
				ids = append(ids, uint32(v))
			case *ast.Ident:
				if v, ok := knownNetConsts[x.Name]; ok {
					ids = append(ids, v)
				} else if lit, ok := consts[x.Name]; ok {
					v, err := strconv.ParseUint(lit, 0, 32)
					if err != nil {
						return nil, fmt.Errorf("%s: case label %s = %s", fn, x.Name, lit)
					}
					ids = append(ids, uint32(v))
				} else {
					return nil, fmt.Errorf("%s: case label %s is not a known network id constant", fn, x.Name)
				}
			default:
				return nil, fmt.Errorf("%s: unsupported case label %q", fn, printNode(fset, e))
			}
		}
	}
	if !hasDefault {
		return nil, fmt.Errorf("%s: switch has no default clause", fn)
	}
	return ids, nil
}

func coqNList(xs []uint64) string {
	var s []string
	for _, x := range xs {
		s = append(s, fmt.Sprint(x))
	}
	return "[" + strings.Join(s, "; ") + "]"
}

// knownIDs returns the ids named by the switch (source order, duplicates removed) and the
// probes for the default branch (those not named by the switch).
func knownIDs(repo string) (ids []uint32, others []uint32, err error) {
	raw, err := switchLabels(repo, "common/config/config.go", "GetOntHolderUnboundDeadline")
	if err != nil {
		return nil, nil, err
	}
	seen := map[uint32]bool{}
	for _, id := range raw {
		if !seen[id] {
			seen[id] = true
			ids = append(ids, id)
		}
	}
	for _, p := range defaultProbes {
		if !seen[p] {
			others = append(others, p)
		}
	}
	return
}

// produceUnbind renders coq/Gen/Unbind.v: release tables, interval, supplies (values of the
// linked packages) and the per-network holder / governance deadlines (the switch labels are
// read from the source, the values are obtained by running the linked functions).
func produceUnbind(repo string) ([]byte, []string) {
	var errs []string
	var b bytes.Buffer
	fmt.Fprintf(&b, "(* GENERATED by harness/drivers/c09 by linking /repo's packages and reading the network switch of\n   config.GetOntHolderUnboundDeadline. Do not edit. *)\nFrom Coq Require Import NArith List.\nImport ListNotations.\nLocal Open Scope N_scope.\n\n")
	fmt.Fprintf(&b, "(* native/utils: TIME_INTERVAL, GENERATION_AMOUNT, NEW_GENERATION_AMOUNT (what CalcUnbindOng / CalcGovernanceUnbindOng read) *)\n")
	fmt.Fprintf(&b, "Definition time_interval : N := %d.\n", nutils.TIME_INTERVAL)
	fmt.Fprintf(&b, "Definition generation_amount : list N := %s.\n", coqNList(nutils.GENERATION_AMOUNT[:]))
	fmt.Fprintf(&b, "Definition new_generation_amount : list N := %s.\n\n", coqNList(nutils.NEW_GENERATION_AMOUNT[:]))
	fmt.Fprintf(&b, "(* common/constants: what config.GetGovUnboundDeadline reads *)\n")
	fmt.Fprintf(&b, "Definition cfg_time_interval : N := %d.\n", constants.UNBOUND_TIME_INTERVAL)
	fmt.Fprintf(&b, "Definition cfg_generation_amount : list N := %s.\n", coqNList(constants.UNBOUND_GENERATION_AMOUNT[:]))
	fmt.Fprintf(&b, "Definition cfg_new_generation_amount : list N := %s.\n", coqNList(constants.NEW_UNBOUND_GENERATION_AMOUNT[:]))
	fmt.Fprintf(&b, "Definition ont_total_supply : N := %d.\n", uint64(constants.ONT_TOTAL_SUPPLY))
	fmt.Fprintf(&b, "Definition ong_total_supply : N := %d.\n\n", uint64(constants.ONG_TOTAL_SUPPLY))

	ids, others, err := knownIDs(repo)
	if err != nil {
		errs = append(errs, err.Error())
		fmt.Fprintf(&b, "Definition translator_broken_holder_deadline : unit := tt. (* %s *)\n", strings.ReplaceAll(err.Error(), "*)", "* )"))
		return b.Bytes(), errs
	}
	fmt.Fprintf(&b, "(* config.GetOntHolderUnboundDeadline: (network id, value) per case label of the switch, and the default *)\n")
	var hc, gc []string
	for _, id := range ids {
		hc = append(hc, fmt.Sprintf("(%d, %d)", id, evalHolderDeadline(id)))
		gc = append(gc, fmt.Sprintf("(%d, %s)", id, evalGovDeadline(id).coq()))
	}
	if len(others) == 0 {
		errs = append(errs, "no probe id left for the default branch")
		fmt.Fprintf(&b, "Definition translator_broken_holder_deadline : unit := tt.\n")
		return b.Bytes(), errs
	}
	defH := evalHolderDeadline(others[0])
	defG := evalGovDeadline(others[0])
	for _, p := range others[1:] {
		if evalHolderDeadline(p) != defH || evalGovDeadline(p) != defG {
			e := fmt.Sprintf("default branch is not constant: ids %d and %d give different deadlines", others[0], p)
			errs = append(errs, e)
			fmt.Fprintf(&b, "Definition translator_broken_holder_deadline : unit := tt. (* %s *)\n", e)
			return b.Bytes(), errs
		}
	}
	fmt.Fprintf(&b, "Definition holder_deadline_cases : list (N * N) := [%s].\n", strings.Join(hc, "; "))
	fmt.Fprintf(&b, "Definition holder_deadline_default : N := %d.\n\n", defH)
	fmt.Fprintf(&b, "(* config.GetGovUnboundDeadline evaluated under each network id: Some (deadline, gap), None = panic *)\n")
	fmt.Fprintf(&b, "Definition gov_deadline_cases : list (N * option (N * N)) := [%s].\n", strings.Join(gc, "; "))
	fmt.Fprintf(&b, "Definition gov_deadline_default : option (N * N) := %s.\n", defG.coq())
	var os []uint64
	for _, p := range others {
		os = append(os, uint64(p))
	}
	fmt.Fprintf(&b, "(* ids evaluated for the default branch (all agreed) *)\nDefinition default_probe_ids : list N := %s.\n", coqNList(os))
	return b.Bytes(), errs
}
