package c37

// Translator part of C37: the branch conditions of the anchored routing-table code and the
// constants the theorems depend on are read from the current source / the linked packages and
// written to coq/Gen/KBucketGen.v.  Model/KBucket.v uses these definitions, so a changed
// comparison operator or clamp changes the model and the theorems are re-checked against it.
// Fails closed: a site that is missing, duplicated or of another shape yields
// `translator_broken_<name>` instead of the definition, so the development stops compiling.

import (
	"bytes"
	"fmt"
	"go/ast"
	"go/parser"
	"go/printer"
	"go/token"
	"path/filepath"
	"strings"

	p2pcommon "github.com/ontio/ontology/p2pserver/common"
	"github.com/ontio/ontology/p2pserver/dht"

	"verif/harness/gen"
)

const (
	tableGo  = "p2pserver/dht/kbucket/table.go"
	bucketGo = "p2pserver/dht/kbucket/bucket.go"
	dhtGo    = "p2pserver/dht/dht.go"
)

func pr(fset *token.FileSet, n ast.Node) string {
	var b bytes.Buffer
	printer.Fprint(&b, fset, n)
	return strings.Join(strings.Fields(b.String()), "")
}

type srcFile struct {
	fset *token.FileSet
	f    *ast.File
}

func parse(repo, rel string) (*srcFile, error) {
	fset := token.NewFileSet()
	f, err := parser.ParseFile(fset, filepath.Join(repo, rel), nil, 0)
	if err != nil {
		return nil, err
	}
	return &srcFile{fset, f}, nil
}

func (s *srcFile) fn(name string) *ast.FuncDecl {
	var found *ast.FuncDecl
	for _, d := range s.f.Decls {
		if fd, ok := d.(*ast.FuncDecl); ok && fd.Name.Name == name && fd.Body != nil {
			if found != nil {
				return nil // ambiguous
			}
			found = fd
		}
	}
	return found
}

// intExpr translates the tiny integer fragment used by the sites: substituted operands,
// literals, + and -.
func intExpr(fset *token.FileSet, e ast.Expr, subst map[string]string) (string, error) {
	if v, ok := subst[pr(fset, e)]; ok {
		return v, nil
	}
	switch x := e.(type) {
	case *ast.ParenExpr:
		return intExpr(fset, x.X, subst)
	case *ast.BasicLit:
		if x.Kind == token.INT {
			var v int64
			if _, err := fmt.Sscanf(x.Value, "%v", &v); err == nil {
				return fmt.Sprintf("%d", v), nil
			}
		}
	case *ast.BinaryExpr:
		l, err := intExpr(fset, x.X, subst)
		if err != nil {
			return "", err
		}
		r, err := intExpr(fset, x.Y, subst)
		if err != nil {
			return "", err
		}
		switch x.Op {
		case token.ADD:
			return "(" + l + " + " + r + ")", nil
		case token.SUB:
			return "(" + l + " - " + r + ")", nil
		}
	}
	return "", fmt.Errorf("unsupported integer expression %q", pr(fset, e))
}

// cmpExpr translates `a OP b` to a boolean Z comparison.
func cmpExpr(fset *token.FileSet, e ast.Expr, subst map[string]string) (string, error) {
	be, ok := e.(*ast.BinaryExpr)
	if !ok {
		return "", fmt.Errorf("not a comparison: %q", pr(fset, e))
	}
	l, err := intExpr(fset, be.X, subst)
	if err != nil {
		return "", err
	}
	r, err := intExpr(fset, be.Y, subst)
	if err != nil {
		return "", err
	}
	switch be.Op {
	case token.LSS:
		return fmt.Sprintf("Z.ltb %s %s", l, r), nil
	case token.LEQ:
		return fmt.Sprintf("Z.leb %s %s", l, r), nil
	case token.GTR:
		return fmt.Sprintf("Z.ltb %s %s", r, l), nil
	case token.GEQ:
		return fmt.Sprintf("Z.leb %s %s", r, l), nil
	case token.EQL:
		return fmt.Sprintf("Z.eqb %s %s", l, r), nil
	case token.NEQ:
		return fmt.Sprintf("negb (Z.eqb %s %s)", l, r), nil
	}
	return "", fmt.Errorf("not a comparison: %q", pr(fset, e))
}

type def struct {
	name, params, typ, body, comment, err string
}

// comparisons in fd whose operands mention all of `must` (printed, whitespace-free).
func findCmps(s *srcFile, fd *ast.FuncDecl, must ...string) []*ast.BinaryExpr {
	var out []*ast.BinaryExpr
	ast.Inspect(fd.Body, func(n ast.Node) bool {
		be, ok := n.(*ast.BinaryExpr)
		if !ok {
			return true
		}
		switch be.Op {
		case token.LSS, token.LEQ, token.GTR, token.GEQ, token.EQL, token.NEQ:
		default:
			return true
		}
		txt := pr(s.fset, be.X) + "\x00" + pr(s.fset, be.Y)
		for _, m := range must {
			if !strings.Contains(txt, m) {
				return true
			}
		}
		out = append(out, be)
		return true
	})
	return out
}

// cmpDefs emits one boolean definition per comparison found; the number found must be len(names).
func cmpDefs(s *srcFile, file, fn string, names []string, params string, subst map[string]string, must ...string) []def {
	var ds []def
	fail := func(msg string) []def {
		for _, n := range names {
			ds = append(ds, def{name: n, err: msg})
		}
		return ds
	}
	if s == nil {
		return fail("cannot parse " + file)
	}
	fd := s.fn(fn)
	if fd == nil {
		return fail("function " + fn + " not found (or ambiguous) in " + file)
	}
	cs := findCmps(s, fd, must...)
	if len(cs) != len(names) {
		return fail(fmt.Sprintf("%s.%s: expected %d comparison(s) over %v, found %d", file, fn, len(names), must, len(cs)))
	}
	for i, be := range cs {
		d := def{name: names[i], params: params, typ: "bool", comment: fmt.Sprintf("%s, func %s: %s", file, fn, pr(s.fset, be))}
		body, err := cmpExpr(s.fset, be, subst)
		if err != nil {
			d.err = err.Error()
		}
		d.body = body
		ds = append(ds, d)
	}
	return ds
}

// clampDefs handles `if V >= len(rt.Buckets) { V = len(rt.Buckets) - 1 }`: per occurrence a
// condition (i n) and the assigned value (n).
func clampDefs(s *srcFile, file, fn, v string, names []string) []def {
	var ds []def
	fail := func(msg string) []def {
		for _, n := range names {
			ds = append(ds, def{name: n, err: msg}, def{name: n + "_to", err: msg})
		}
		return ds
	}
	if s == nil {
		return fail("cannot parse " + file)
	}
	fd := s.fn(fn)
	if fd == nil {
		return fail("function " + fn + " not found (or ambiguous) in " + file)
	}
	type occ struct {
		cond ast.Expr
		val  ast.Expr
	}
	var occs []occ
	bad := ""
	ast.Inspect(fd.Body, func(n ast.Node) bool {
		is, ok := n.(*ast.IfStmt)
		if !ok {
			return true
		}
		be, ok := is.Cond.(*ast.BinaryExpr)
		if !ok || be.Op == token.EQL || pr(s.fset, be.X) != v || !strings.Contains(pr(s.fset, be.Y), "len(rt.Buckets)") {
			return true // (the `bucketID == len(rt.Buckets)-1` test is the separate site kb_update_is_last)
		}
		if is.Init != nil || is.Else != nil || len(is.Body.List) != 1 {
			bad = "clamp of " + v + " has an unexpected shape"
			return true
		}
		as, ok := is.Body.List[0].(*ast.AssignStmt)
		if !ok || as.Tok != token.ASSIGN || len(as.Lhs) != 1 || len(as.Rhs) != 1 || pr(s.fset, as.Lhs[0]) != v {
			bad = "clamp of " + v + " does not assign " + v
			return true
		}
		occs = append(occs, occ{is.Cond, as.Rhs[0]})
		return true
	})
	if bad != "" {
		return fail(bad)
	}
	if len(occs) != len(names) {
		return fail(fmt.Sprintf("%s.%s: expected %d clamp(s) of %s, found %d", file, fn, len(names), v, len(occs)))
	}
	subst := map[string]string{v: "i", "len(rt.Buckets)": "n"}
	for i, o := range occs {
		c := def{name: names[i], params: "(i n : Z)", typ: "bool", comment: fmt.Sprintf("%s, func %s: if %s", file, fn, pr(s.fset, o.cond))}
		body, err := cmpExpr(s.fset, o.cond, subst)
		if err != nil {
			c.err = err.Error()
		}
		c.body = body
		t := def{name: names[i] + "_to", params: "(n : Z)", typ: "Z", comment: fmt.Sprintf("%s, func %s: %s = %s", file, fn, v, pr(s.fset, o.val))}
		body, err = intExpr(s.fset, o.val, subst)
		if err != nil {
			t.err = err.Error()
		}
		t.body = body
		ds = append(ds, c, t)
	}
	return ds
}

// unfoldIndexDef: nextBucket takes `rt.Buckets[E]` and calls `bucket.Split(E, rt.local)` with
// the same E; E is emitted as a function of n = len(rt.Buckets).
func unfoldIndexDef(s *srcFile) def {
	d := def{name: "kb_unfold_index", params: "(n : Z)", typ: "Z"}
	if s == nil {
		d.err = "cannot parse " + tableGo
		return d
	}
	fd := s.fn("nextBucket")
	if fd == nil {
		d.err = "function nextBucket not found"
		return d
	}
	var idx, arg []ast.Expr
	var target []string
	ast.Inspect(fd.Body, func(n ast.Node) bool {
		switch x := n.(type) {
		case *ast.IndexExpr:
			if pr(s.fset, x.X) == "rt.Buckets" {
				idx = append(idx, x.Index)
			}
		case *ast.CallExpr:
			if strings.HasSuffix(pr(s.fset, x.Fun), ".Split") && len(x.Args) == 2 {
				arg = append(arg, x.Args[0])
				target = append(target, pr(s.fset, x.Args[1]))
			}
		}
		return true
	})
	if len(idx) != 1 || len(arg) != 1 {
		d.err = fmt.Sprintf("nextBucket: expected one rt.Buckets[..] and one Split(..) call, found %d and %d", len(idx), len(arg))
		return d
	}
	if pr(s.fset, idx[0]) != pr(s.fset, arg[0]) {
		d.err = fmt.Sprintf("nextBucket: bucket index %s differs from the Split level %s", pr(s.fset, idx[0]), pr(s.fset, arg[0]))
		return d
	}
	if target[0] != "rt.local" {
		d.err = "nextBucket: Split target is " + target[0] + ", not rt.local"
		return d
	}
	d.comment = fmt.Sprintf("%s, func nextBucket: rt.Buckets[%s].Split(%s, rt.local)", tableGo, pr(s.fset, idx[0]), pr(s.fset, arg[0]))
	body, err := intExpr(s.fset, idx[0], map[string]string{"len(rt.Buckets)": "n"})
	if err != nil {
		d.err = err.Error()
	}
	d.body = body
	return d
}

// dhtSizeDef: NewDHT passes `bucketSize := <expr over KValue>` to NewRoutingTable.
func dhtSizeDef(s *srcFile) def {
	d := def{name: "kb_dht_bucket_size", params: "(kvalue : Z)", typ: "Z"}
	if s == nil {
		d.err = "cannot parse " + dhtGo
		return d
	}
	fd := s.fn("NewDHT")
	if fd == nil {
		d.err = "function NewDHT not found"
		return d
	}
	var rhs []ast.Expr
	var passed []string
	ast.Inspect(fd.Body, func(n ast.Node) bool {
		switch x := n.(type) {
		case *ast.AssignStmt:
			if len(x.Lhs) == 1 && len(x.Rhs) == 1 && pr(s.fset, x.Lhs[0]) == "bucketSize" {
				rhs = append(rhs, x.Rhs[0])
			}
		case *ast.CallExpr:
			if strings.HasSuffix(pr(s.fset, x.Fun), ".NewRoutingTable") && len(x.Args) == 2 {
				passed = append(passed, pr(s.fset, x.Args[0]))
			}
		}
		return true
	})
	if len(rhs) != 1 || len(passed) != 1 || passed[0] != "bucketSize" {
		d.err = fmt.Sprintf("NewDHT: expected `bucketSize := ...` once and NewRoutingTable(bucketSize, ..), found %d assignment(s), args %v", len(rhs), passed)
		return d
	}
	d.comment = fmt.Sprintf("%s, func NewDHT: bucketSize := %s; NewRoutingTable(bucketSize, id)", dhtGo, pr(s.fset, rhs[0]))
	body, err := intExpr(s.fset, rhs[0], map[string]string{"KValue": "kvalue"})
	if err != nil {
		d.err = err.Error()
	}
	d.body = body
	return d
}

func produce(repo string) ([]byte, []string) {
	var errs []string
	tab, err := parse(repo, tableGo)
	if err != nil {
		errs = append(errs, err.Error())
		tab = nil
	}
	buck, err := parse(repo, bucketGo)
	if err != nil {
		errs = append(errs, err.Error())
		buck = nil
	}
	dh, err := parse(repo, dhtGo)
	if err != nil {
		errs = append(errs, err.Error())
		dh = nil
	}
	var ds []def
	// constants obtained by linking the real packages
	var zero p2pcommon.PeerId
	dist := zero.Distance(zero)
	ds = append(ds,
		def{name: "KB_ID_LEN", typ: "nat", body: fmt.Sprint(len(dist)), comment: "len(PeerId.Distance(..)): bytes of a peer id (p2pserver/common/id.go)"},
		def{name: "KB_KVALUE", typ: "Z", body: fmt.Sprint(dht.KValue), comment: "dht.KValue (p2pserver/dht/dht.go), the bucket size NewDHT configures"},
		dhtSizeDef(dh))
	lenSize := map[string]string{"bucket.Len()": "len", "newBucket.Len()": "len", "rt.bucketsize": "size"}
	// Update: `bucket.Len() < rt.bucketsize` (room) and `bucket.Len() >= rt.bucketsize` (after unfolding)
	ds = append(ds, cmpDefs(tab, tableGo, "Update", []string{"kb_update_has_room", "kb_update_still_full"}, "(len size : Z)", lenSize, "bucket.Len()", "rt.bucketsize")...)
	// Update: `bucketID == len(rt.Buckets)-1`
	ds = append(ds, cmpDefs(tab, tableGo, "Update", []string{"kb_update_is_last"}, "(i n : Z)",
		map[string]string{"bucketID": "i", "len(rt.Buckets)": "n"}, "bucketID\x00", "len(rt.Buckets)-1")...)
	ds = append(ds, clampDefs(tab, tableGo, "Update", "bucketID", []string{"kb_clamp_update_1", "kb_clamp_update_2"})...)
	ds = append(ds, clampDefs(tab, tableGo, "Remove", "bucketID", []string{"kb_clamp_remove"})...)
	ds = append(ds, clampDefs(tab, tableGo, "NearestPeers", "cpl", []string{"kb_clamp_nearest"})...)
	// nextBucket
	ds = append(ds, unfoldIndexDef(tab))
	ds = append(ds, cmpDefs(tab, tableGo, "nextBucket", []string{"kb_unfold_again"}, "(len size : Z)", lenSize, "newBucket.Len()", "rt.bucketsize")...)
	// Split: `peerCPL > cpl`
	ds = append(ds, cmpDefs(buck, bucketGo, "Split", []string{"kb_split_moves"}, "(peercpl cpl : Z)",
		map[string]string{"peerCPL": "peercpl", "cpl": "cpl"}, "peerCPL", "cpl")...)
	// NearestPeers: the two `pds.Len() < count` loop guards and `count < pds.Len()`
	pc := map[string]string{"pds.Len()": "have", "count": "count"}
	ds = append(ds, cmpDefs(tab, tableGo, "NearestPeers", []string{"kb_nearest_short_right", "kb_nearest_short_left"}, "(have count : Z)", pc, "pds.Len()\x00", "count")...)
	ds = append(ds, cmpDefs(tab, tableGo, "NearestPeers", []string{"kb_nearest_truncate"}, "(count have : Z)", pc, "count\x00", "pds.Len()")...)

	// lock discipline of the three exported operations
	ds = append(ds, lockShapeDef(tab, "kb_locks_update", "Update"), lockShapeDef(tab, "kb_locks_remove", "Remove"),
		lockShapeDef(tab, "kb_locks_nearest", "NearestPeers"))

	var b bytes.Buffer
	b.WriteString("(* GENERATED by harness/drivers/c37 (gen.go) from /repo's current source and linked packages on every run. Do not edit. *)\n")
	b.WriteString("From Coq Require Import ZArith NArith Bool List.\nLocal Open Scope Z_scope.\n\n")
	b.WriteString(lockPreamble)
	for _, d := range ds {
		if d.comment != "" {
			fmt.Fprintf(&b, "(* %s *)\n", strings.ReplaceAll(d.comment, "*)", "* )"))
		}
		if d.err != "" {
			errs = append(errs, d.name+": "+d.err)
			fmt.Fprintf(&b, "Definition translator_broken_%s : unit := tt. (* %s *)\n\n", d.name, strings.ReplaceAll(d.err, "*)", "* )"))
			continue
		}
		sp := ""
		if d.params != "" {
			sp = " " + d.params
		}
		body := d.body
		if d.typ == "nat" {
			body = "(" + body + ")%nat"
		}
		fmt.Fprintf(&b, "Definition %s%s : %s := %s.\n\n", d.name, sp, d.typ, body)
	}
	return b.Bytes(), errs
}

func init() {
	gen.RegisterFile("KBucketGen.v", produce)
}
