package c37

// Bounded concurrent oracle.  The theorems of C37 speak about sequential histories; the code's
// claim for concurrent callers is that Update / Remove / NearestPeers are atomic with respect to
// each other (one table lock), which Gen/KBucketGen.v records as a lock-shape inventory and
// Props.C37.c37_concurrent_callers lifts to every schedule.  Here that claim is tested on the real
// table: G goroutines released together announce the SAME fresh peer ids (with NearestPeers and
// Remove in between); after every round the structural part of the property must hold (each id
// once, bucket sizes, bucket index by common prefix length, NearestPeers distinct and sorted), and
// after removing the round's ids no copy may be left.  There is no hook inside the table to force a
// particular schedule, so the oracle relies on repetition under two scheduler settings
// (GOMAXPROCS = all CPUs, and GOMAXPROCS = 2 with runtime.Gosched() pressure).  Runs in a child
// process of its own: a table corrupted by a race may loop forever or panic.

import (
	"fmt"
	"math/rand"
	"runtime"
	"sync"
	"time"

	ocommon "github.com/ontio/ontology/common"
	"github.com/ontio/ontology/p2pserver/common"
	kb "github.com/ontio/ontology/p2pserver/dht/kbucket"

	"verif/harness/hx"
)

type concJob struct {
	Seed     int64 `json:"seed"`
	G        int   `json:"g"`
	Rounds   int   `json:"rounds"`    // per scheduler setting
	BudgetMs int   `json:"budget_ms"` // wall-clock cap for the whole oracle
	Size     int   `json:"size"`
}

type concObs struct {
	Conc     bool    `json:"conc"`
	Rounds   int     `json:"rounds"`
	Calls    int     `json:"calls"`
	Ms       int64   `json:"ms"`
	Settings []string `json:"settings"`
	Fails    []ofail `json:"fails,omitempty"`
}

// concID returns an id with a common prefix of exactly k bits with local (k < 128); n makes it unique.
func concID(local []byte, k int, n uint64) []byte {
	// offset = 2^(159-k) + (mix(n) mod 2^(159-k)); 32 low bits forced to n for uniqueness
	ids := poolIDs(local, []uint64{entry(uint64(k), n&0xffff)})
	id := ids[0]
	id[idLen-4] = byte(n >> 24)
	id[idLen-3] = byte(n >> 16)
	id[idLen-2] = byte(n >> 8)
	id[idLen-1] = byte(n)
	return id
}

func runConcurrent(cj *concJob) concObs {
	t0 := time.Now()
	o := concObs{Conc: true}
	rng := rand.New(rand.NewSource(cj.Seed))
	local := make([]byte, idLen)
	rng.Read(local)
	size := cj.Size
	rt := kb.NewRoutingTable(size, mkID(local))
	raw := map[common.PeerId][]byte{}
	h := &history{Size: int64(size)}
	var mu sync.Mutex
	addFail := func(f ofail) {
		mu.Lock()
		if len(o.Fails) < 8 {
			o.Fails = append(o.Fails, f)
		}
		mu.Unlock()
	}
	// a few resident peers so that the table has several buckets
	var n uint64 = 1
	var residents []common.PeerId
	for i := 0; i < 32; i++ { // 8 per prefix length 0..3: every bucket keeps free slots
		id := concID(local, i%4, n)
		n++
		raw[mkID(id)] = id
		residents = append(residents, mkID(id))
		rt.Update(mkID(id), "a1")
	}
	prev := runtime.GOMAXPROCS(0)
	defer runtime.GOMAXPROCS(prev)
	settings := []struct {
		procs   int
		gosched bool
	}{{runtime.NumCPU(), false}, {2, true}}
	budget := time.Duration(cj.BudgetMs) * time.Millisecond
	round := 0
	for si, st := range settings {
		runtime.GOMAXPROCS(st.procs)
		o.Settings = append(o.Settings, fmt.Sprintf("GOMAXPROCS=%d gosched=%v", st.procs, st.gosched))
		deadline := t0.Add(budget * time.Duration(si+1) / time.Duration(len(settings)))
		for r := 0; r < cj.Rounds && time.Now().Before(deadline) && len(o.Fails) == 0; r++ {
			round++
			ka, kb2 := rng.Intn(6), rng.Intn(6)
			a, b := concID(local, ka, n), concID(local, kb2, n+1)
			n += 2
			pa, pb := mkID(a), mkID(b)
			raw[pa], raw[pb] = a, b
			// Even rounds: each fresh id is announced exactly once by exactly two goroutines, so
			// that a broken check-then-insert leaves its duplicate in the table for the inspection
			// after the round.  Odd rounds: everybody hammers both ids (a table that already holds a
			// duplicate may then never return from Bucket.MoveToFront: the watchdog below).
			pairRound := r%2 == 0
			withRemove := r%4 == 3
			res := residents[r%len(residents)]
			start := make(chan struct{})
			var wg sync.WaitGroup
			scripts := make([]string, cj.G)
			for g := 0; g < cj.G; g++ {
				wg.Add(1)
				role := g % 3
				if pairRound {
					role = 10 + g%6
				}
				switch role {
				case 0:
					scripts[g] = "Update(a); Update(b)"
				case 1:
					scripts[g] = "Update(a); NearestPeers(a,4); Update(b)"
				case 2:
					scripts[g] = "Update(b); Update(a)"
					if withRemove {
						scripts[g] += "; Remove(b); Update(b)"
					}
				case 10, 11:
					scripts[g] = "Update(a)"
				case 12, 13:
					scripts[g] = "Update(b)"
				case 14:
					scripts[g] = "NearestPeers(a,4); NearestPeers(b,4)"
				default:
					scripts[g] = "Remove(resident); Update(resident)"
				}
				go func(g, role int) {
					defer wg.Done()
					defer func() {
						if p := recover(); p != nil {
							addFail(ofail{"panic:concurrent", "a call panicked while other goroutines were using the table", round,
								map[string]interface{}{"goroutine": g, "script": scripts[g], "panic": fmt.Sprint(p)}, "no panic"})
						}
					}()
					yield := func() {
						if st.gosched {
							runtime.Gosched()
						}
					}
					near := func(p common.PeerId, raw []byte) {
						out := rt.NearestPeers(p, 4)
						var fs []ofail
						checkNearestShape(out, raw, round, &fs)
						for _, f := range fs {
							f.Class += "-concurrent"
							f.Got = map[string]interface{}{"observed": f.Got, "goroutine": g, "script": scripts[g], "all_goroutines": scripts}
							addFail(f)
						}
					}
					addr := fmt.Sprintf("a%d", 1+g%9)
					<-start
					switch role {
					case 0:
						rt.Update(pa, addr)
						yield()
						rt.Update(pb, addr)
					case 1:
						rt.Update(pa, addr)
						yield()
						near(pa, a)
						rt.Update(pb, addr)
					case 2:
						rt.Update(pb, addr)
						yield()
						rt.Update(pa, addr)
						if withRemove {
							rt.Remove(pb)
							yield()
							rt.Update(pb, addr)
						}
					case 10, 11:
						yield()
						rt.Update(pa, addr)
					case 12, 13:
						yield()
						rt.Update(pb, addr)
					case 14:
						near(pa, a)
						yield()
						near(pb, b)
					default:
						rt.Remove(res)
						yield()
						rt.Update(res, "a1")
					}
				}(g, role)
			}
			close(start)
			done := make(chan struct{})
			go func() { wg.Wait(); close(done) }()
			select {
			case <-done:
			case <-time.After(3 * time.Second):
				addFail(ofail{"no-return-concurrent", "a call did not return within 3 s while other goroutines were using the table (the table lock or a bucket lock is still held, so the table cannot be inspected)", round,
					map[string]interface{}{"round": round, "scheduler": o.Settings[len(o.Settings)-1], "a": hx.Hex(a), "b": hx.Hex(b), "cpl_a": ka, "cpl_b": kb2, "goroutines": scripts},
					"every call returns"})
				o.Ms = time.Since(t0).Milliseconds()
				return o
			}
			o.Rounds++
			if pairRound {
				o.Calls += cj.G + 2
			} else {
				o.Calls += 2*cj.G + cj.G/3
			}
			// the round is over: nobody else touches the table now
			ba, bb := bucketHex(rt, ka), bucketHex(rt, kb2) // before the round's ids are removed again
			state := func() interface{} {
				return map[string]interface{}{"round": round, "scheduler": o.Settings[len(o.Settings)-1], "a": hx.Hex(a), "b": hx.Hex(b),
					"cpl_a": ka, "cpl_b": kb2, "goroutines": scripts, "bucket_of_a_after_round": ba, "bucket_of_b_after_round": bb}
			}
			var fs []ofail
			v := view(rt)
			checkTable(h, v, raw, local, round, &fs)
			out := rt.NearestPeers(pa, 8)
			checkNearest(out, a, 8, v, raw, round, &fs)
			rt.Remove(pa)
			rt.Remove(pb)
			for _, bk := range view(rt).buckets {
				for _, p := range bk {
					if p.ID == pa || p.ID == pb {
						fs = append(fs, ofail{"structure:stale-after-remove", "a peer is still in the table after Remove returned (a second copy was left)", round, idHex(p.ID), "absent"})
					}
				}
			}
			for _, f := range fs {
				f.Class += "-concurrent"
				f.Clause += " — after a round of concurrent Update/Remove/NearestPeers calls on the same fresh ids"
				f.Got = map[string]interface{}{"observed": f.Got, "round_state": state()}
				addFail(f)
			}
		}
	}
	o.Ms = time.Since(t0).Milliseconds()
	return o
}

func bucketHex(rt *kb.RouteTable, cpl int) []string {
	i := cpl
	if i >= len(rt.Buckets) {
		i = len(rt.Buckets) - 1
	}
	var s []string
	for _, p := range rt.Buckets[i].Peers() {
		s = append(s, idHex(p.ID))
	}
	return s
}

// checkNearestShape: distinct and sorted, evaluated by a goroutine on its own result while the
// table keeps changing (membership cannot be judged then).
func checkNearestShape(out []common.PeerIDAddressPair, target []byte, at int, fails *[]ofail) {
	seen := map[common.PeerId]bool{}
	for k, p := range out {
		if seen[p.ID] {
			*fails = append(*fails, ofail{"nearest:duplicate", "NearestPeers returned a peer twice", at, idHex(p.ID), "distinct peers"})
		}
		seen[p.ID] = true
		if k > 0 {
			// ids print as the hex of their bytes; distances from the ids themselves
			da := refDist(idBytes(out[k-1].ID), target)
			db := refDist(idBytes(p.ID), target)
			if da.Cmp(db) > 0 {
				*fails = append(*fails, ofail{"nearest:unsorted", "NearestPeers result is not sorted by XOR distance to the target", at,
					map[string]interface{}{"position": k}, "non-decreasing distances"})
			}
		}
	}
}

func idBytes(p common.PeerId) []byte {
	sink := ocommon.NewZeroCopySink(nil)
	p.Serialization(sink)
	return append([]byte{}, sink.Bytes()...)
}

func idHex(p common.PeerId) string { return hx.Hex(idBytes(p)) }
