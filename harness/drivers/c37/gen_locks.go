package c37

// Lock-shape inventory of RouteTable.Update / Remove / NearestPeers (table.go), regenerated on
// every run into Gen/KBucketGen.v.  For each method the sequence of events, in source order and
// with the bodies of the RouteTable methods it calls inlined: taking / releasing rt.tabLock
// (exclusive or shared, deferred or not) and touching rt.Buckets.  Model/KBucketConc.v decides from
// these lists whether each operation is one critical section ([lock_discipline_ok]); the theorem
// that lifts the sequential result to concurrent callers (Props.C37.c37_concurrent_callers) needs
// that to compute to true.

import (
	"go/ast"
	"strings"
)

func lockEvents(s *srcFile, fd *ast.FuncDecl, recv string, visiting map[string]bool, out *[]string, errs *[]string) {
	push := func(e string) {
		if e == "KTouch" && len(*out) > 0 && (*out)[len(*out)-1] == "KTouch" {
			return
		}
		*out = append(*out, e)
	}
	lockCall := func(ce *ast.CallExpr) string {
		txt := pr(s.fset, ce.Fun)
		if !strings.HasPrefix(txt, recv+".tabLock.") {
			return ""
		}
		return strings.TrimPrefix(txt, recv+".tabLock.")
	}
	ast.Inspect(fd.Body, func(n ast.Node) bool {
		switch x := n.(type) {
		case *ast.DeferStmt:
			switch lockCall(x.Call) {
			case "Unlock":
				push("KDeferUnlock")
				return false
			case "RUnlock":
				push("KDeferRUnlock")
				return false
			case "":
				return true
			default:
				*errs = append(*errs, fd.Name.Name+": deferred "+pr(s.fset, x.Call))
				return false
			}
		case *ast.GoStmt:
			*errs = append(*errs, fd.Name.Name+": starts a goroutine")
		case *ast.CallExpr:
			switch lockCall(x) {
			case "Lock":
				push("KLock")
				return false
			case "Unlock":
				push("KUnlock")
				return false
			case "RLock":
				push("KRLock")
				return false
			case "RUnlock":
				push("KRUnlock")
				return false
			case "":
			default:
				*errs = append(*errs, fd.Name.Name+": unknown lock call "+pr(s.fset, x.Fun))
				return false
			}
			// a call of another method of the table: its events happen here
			if sel, ok := x.Fun.(*ast.SelectorExpr); ok && pr(s.fset, sel.X) == recv {
				if callee := s.fn(sel.Sel.Name); callee != nil && callee.Recv != nil {
					for _, a := range x.Args {
						ast.Inspect(a, func(m ast.Node) bool {
							if se, ok := m.(*ast.SelectorExpr); ok && pr(s.fset, se) == recv+".Buckets" {
								push("KTouch")
							}
							return true
						})
					}
					if !visiting[callee.Name.Name] {
						visiting[callee.Name.Name] = true
						r := recv
						if len(callee.Recv.List) == 1 && len(callee.Recv.List[0].Names) == 1 {
							r = callee.Recv.List[0].Names[0].Name
						}
						lockEvents(s, callee, r, visiting, out, errs)
						delete(visiting, callee.Name.Name)
					}
					return false
				}
			}
		case *ast.SelectorExpr:
			if pr(s.fset, x) == recv+".Buckets" {
				push("KTouch")
				return false
			}
		}
		return true
	})
}

func lockShapeDef(s *srcFile, name, fn string) def {
	d := def{name: name, typ: "list kb_lock_ev"}
	if s == nil {
		d.err = "cannot parse " + tableGo
		return d
	}
	fd := s.fn(fn)
	if fd == nil || fd.Recv == nil || len(fd.Recv.List) != 1 || len(fd.Recv.List[0].Names) != 1 {
		d.err = "method " + fn + " not found (or ambiguous) in " + tableGo
		return d
	}
	var evs, errs []string
	lockEvents(s, fd, fd.Recv.List[0].Names[0].Name, map[string]bool{fn: true}, &evs, &errs)
	if len(errs) > 0 {
		d.err = strings.Join(errs, "; ")
		return d
	}
	d.comment = tableGo + ", method " + fn + ": rt.tabLock events and rt.Buckets accesses in source order (called table methods inlined)"
	d.body = "(" + strings.Join(evs, " :: ") + " :: nil)"
	if len(evs) == 0 {
		d.body = "nil"
	}
	return d
}

const lockPreamble = `(* events of the lock-shape inventory *)
Inductive kb_lock_ev := KLock | KUnlock | KDeferUnlock | KRLock | KRUnlock | KDeferRUnlock | KTouch.

`
