package c37

import "verif/harness/hx"

func init() { hx.Register("C37", Run) }

func Run(c *hx.Ctx) {}
