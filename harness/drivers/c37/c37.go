// Package c37: the Kademlia routing table of p2pserver/dht/kbucket.
//
// The parent process only generates histories (NewRoutingTable(size, local) followed by Update /
// Remove / NearestPeers calls over a pool of peer ids: random, adversarially close to the local
// id, clustered deep, churned).  The implementation is always executed in a child process (the
// same binary, `run -replay <job file>`) under a timeout and a reduced stack limit, because the
// bucket unfolding is a recursion: a call that does not return kills the child, and the history it
// was executing is the failing input.  The child runs the property oracle on the real table after
// every call (independent prefix-length / XOR code) and records what the correspondence compares:
// every call's result, the PeerAdded / PeerRemoved callbacks and the final rt.Buckets.
package c37

import (
	"bufio"
	"bytes"
	"context"
	"encoding/json"
	"fmt"
	"math/big"
	"os"
	"os/exec"
	"path/filepath"
	"runtime/debug"
	"strings"
	"time"

	ocommon "github.com/ontio/ontology/common"
	"github.com/ontio/ontology/p2pserver/common"
	kb "github.com/ontio/ontology/p2pserver/dht/kbucket"

	"verif/harness/hx"
)

func init() { hx.Register("C37", Run) }

const idLen = 20

// ---------- inputs ----------

type hop struct {
	K string `json:"k"`           // "u" update, "r" remove, "n" nearest
	I int    `json:"i"`           // pool index
	A uint64 `json:"a,omitempty"` // address number (update)
	C int64  `json:"c,omitempty"` // count (nearest)
}

// A pool entry e = 65536*k + s describes a peer id by its XOR offset from the local id (same rule
// as Corr.C37.offset_of): k < 160: common prefix of exactly k bits, lower bits from mix(s);
// k = 160: the local id; 160 < k < 200: mix(s); k >= 200: entry k-200 with bit s flipped.
type history struct {
	Kind  string   `json:"kind"`
	Size  int64    `json:"size"`
	Local string   `json:"local"`
	Pool  []uint64 `json:"pool"`
	Ops   []hop    `json:"ops"`
	IDs   []string `json:"ids,omitempty"` // the derived ids (hex), for the reader of a replay file
}

// idCase: t, a = entry EA from t, b = entry EB from t (EB may refer to entry 0 = a).
type idCase struct {
	T  string `json:"t"`
	EA uint64 `json:"ea"`
	EB uint64 `json:"eb"`
}

var (
	mixMult, _ = new(big.Int).SetString("1311185441393030098788534042950262523632243239815", 10)
	two160     = new(big.Int).Lsh(big.NewInt(1), 8*idLen)
)

func mix(s uint64) *big.Int {
	r := new(big.Int).SetUint64(s + 1)
	r.Mul(r, mixMult)
	return r.Mod(r, two160)
}

func entry(k, s uint64) uint64 { return k<<16 | s }

func offsetOf(earlier []*big.Int, e uint64) *big.Int {
	k, s := e>>16, e&0xffff
	switch {
	case k < 8*idLen:
		top := new(big.Int).Lsh(big.NewInt(1), uint(8*idLen-1-k))
		low := new(big.Int).Mod(mix(s), top)
		return top.Add(top, low)
	case k == 8*idLen:
		return new(big.Int)
	case k < 200:
		return mix(s)
	default:
		d := new(big.Int)
		if int(k-200) < len(earlier) {
			d.Set(earlier[k-200])
		}
		return d.Xor(d, new(big.Int).Lsh(big.NewInt(1), uint(s)))
	}
}

func offsets(pool []uint64) []*big.Int {
	var ds []*big.Int
	for _, e := range pool {
		ds = append(ds, offsetOf(ds, e))
	}
	return ds
}

// poolIDs derives the ids of a pool (mirror of Corr.C37.pool_ids).
func poolIDs(local []byte, pool []uint64) [][]byte {
	l := new(big.Int).SetBytes(local)
	var ids [][]byte
	for _, d := range offsets(pool) {
		x := new(big.Int).Xor(l, d)
		x.Mod(x, two160)
		ids = append(ids, x.FillBytes(make([]byte, idLen)))
	}
	return ids
}

// job is what the parent hands to the child through the replay-file mechanism.
type job struct {
	Histories []history `json:"histories,omitempty"`
	Ids       []idCase  `json:"ids,omitempty"`
	Conc      *concJob  `json:"conc,omitempty"`
	ChildOut  string    `json:"child_out,omitempty"`
	MaxStack  int       `json:"max_stack,omitempty"`
	// a replay file written by ./check holds one history (or id case) directly
	history
	idCase
}

// ---------- observations (child -> parent) ----------

type pent struct {
	I int    `json:"i"`
	A uint64 `json:"a"`
}

type ores struct {
	K   string `json:"k"` // "moved" "added" "rejected" | "removed" "absent" | "near" | "panic"
	Out []pent `json:"out,omitempty"`
	Msg string `json:"msg,omitempty"`
}

type ofail struct {
	Class  string      `json:"class"`
	Clause string      `json:"clause"`
	At     int         `json:"at"` // index of the call after which it was seen
	Got    interface{} `json:"got"`
	Want   interface{} `json:"want"`
}

type hobs struct {
	Idx      int      `json:"idx"`
	Begin    bool     `json:"begin,omitempty"`
	Res      []ores   `json:"res,omitempty"`
	Final    [][]pent `json:"final,omitempty"`
	Fails    []ofail  `json:"fails,omitempty"`
	NBuckets int      `json:"nbuckets,omitempty"`
	MaxDepth int      `json:"maxdepth,omitempty"` // most buckets created by one Update
}

type idobs struct {
	IdIdx  int     `json:"ididx"`
	Cpl    int     `json:"cpl"`
	Dist   string  `json:"dist"`
	Closer bool    `json:"closer"`
	Fails  []ofail `json:"fails,omitempty"`
}

// ---------- implementation side (child) ----------

func mkID(b []byte) common.PeerId {
	var p common.PeerId
	if err := p.Deserialization(ocommon.NewZeroCopySource(b)); err != nil {
		panic(err)
	}
	return p
}

// independent reference functions for the oracle
func refCPL(a, b []byte) int {
	n := 0
	for i := 0; i < len(a) && i < len(b); i++ {
		for bit := 7; bit >= 0; bit-- {
			if (a[i]>>uint(bit))&1 != (b[i]>>uint(bit))&1 {
				return n
			}
			n++
		}
	}
	return n
}

func refDist(a, b []byte) *big.Int {
	x := new(big.Int).SetBytes(a)
	return x.Xor(x, new(big.Int).SetBytes(b))
}

func addrStr(a uint64) string { return fmt.Sprintf("a%d", a) }

func addrNum(s string) uint64 {
	var a uint64
	if _, err := fmt.Sscanf(s, "a%d", &a); err != nil {
		return ^uint64(0)
	}
	return a
}

type tableView struct {
	buckets [][]common.PeerIDAddressPair
}

func view(rt *kb.RouteTable) tableView {
	var v tableView
	for _, b := range rt.Buckets {
		v.buckets = append(v.buckets, b.Peers())
	}
	return v
}

// checkTable is the structural part of the property, evaluated on the real table.
func checkTable(h *history, v tableView, raw map[common.PeerId][]byte, local []byte, at int, fails *[]ofail) {
	add := func(class, clause string, got, want interface{}) {
		if len(*fails) < 6 {
			*fails = append(*fails, ofail{class, clause, at, got, want})
		}
	}
	seen := map[common.PeerId]int{}
	last := len(v.buckets) - 1
	if last < 0 {
		add("structure:no-buckets", "the table has no bucket", 0, ">= 1")
		return
	}
	for i, b := range v.buckets {
		if int64(len(b)) > h.Size {
			add("structure:bucket-overflow", "a bucket holds more peers than the bucket size",
				map[string]interface{}{"bucket": i, "len": len(b)}, fmt.Sprintf("<= %d", h.Size))
		}
		for _, p := range b {
			if j, dup := seen[p.ID]; dup {
				add("structure:duplicate-peer", "a peer appears more than once in the table",
					map[string]interface{}{"peer": idHex(p.ID), "buckets": []int{j, i}}, "at most once")
			}
			seen[p.ID] = i
			rb, ok := raw[p.ID]
			if !ok {
				add("structure:unknown-peer", "the table holds a peer that was never inserted", idHex(p.ID), "a peer of the history")
				continue
			}
			c := refCPL(rb, local)
			if !(c == i || (i == last && c >= i)) {
				add("structure:misplaced-peer", "a peer is not in the bucket of its common prefix length (nor in the last bucket with a longer prefix)",
					map[string]interface{}{"peer": hx.Hex(rb), "cpl": c, "bucket": i, "last_bucket": last}, "bucket == cpl, or bucket == last <= cpl")
			}
		}
	}
}

func total(v tableView) int {
	n := 0
	for _, b := range v.buckets {
		n += len(b)
	}
	return n
}

func checkNearest(out []common.PeerIDAddressPair, target []byte, count int64, v tableView, raw map[common.PeerId][]byte, at int, fails *[]ofail) {
	add := func(class, clause string, got, want interface{}) {
		if len(*fails) < 6 {
			*fails = append(*fails, ofail{class, clause, at, got, want})
		}
	}
	in := map[common.PeerId]bool{}
	for _, b := range v.buckets {
		for _, p := range b {
			in[p.ID] = true
		}
	}
	seen := map[common.PeerId]bool{}
	var prev *big.Int
	for k, p := range out {
		if seen[p.ID] {
			add("nearest:duplicate", "NearestPeers returned a peer twice", idHex(p.ID), "distinct peers")
		}
		seen[p.ID] = true
		if !in[p.ID] {
			add("nearest:not-in-table", "NearestPeers returned a peer that is not in the table", idHex(p.ID), "peers of the table")
			continue
		}
		d := refDist(raw[p.ID], target)
		if prev != nil && prev.Cmp(d) > 0 {
			add("nearest:unsorted", "NearestPeers result is not sorted by XOR distance to the target",
				map[string]interface{}{"position": k, "distance": d.Text(16), "previous": prev.Text(16)}, "non-decreasing distances")
		}
		prev = d
	}
	want := int64(total(v))
	if count < want {
		want = count
	}
	if count >= 0 && int64(len(out)) != want {
		add("nearest:length", "NearestPeers returned fewer or more peers than min(count, table size)", len(out), want)
	}
}

// runHistory executes one history on the implementation.
func runHistory(h *history, idx int) hobs {
	o := hobs{Idx: idx}
	local := hx.UnHex(h.Local)
	pool := poolIDs(local, h.Pool)
	ids := make([]common.PeerId, len(h.Pool))
	index := map[common.PeerId]int{}
	raw := map[common.PeerId][]byte{}
	for i := range pool {
		ids[i] = mkID(pool[i])
		if _, dup := index[ids[i]]; !dup {
			index[ids[i]] = i
		}
		raw[ids[i]] = pool[i]
	}
	rt := kb.NewRoutingTable(int(h.Size), mkID(local))
	var added, removed []common.PeerId
	rt.PeerAdded = func(p common.PeerId) { added = append(added, p) }
	rt.PeerRemoved = func(p common.PeerId) { removed = append(removed, p) }
	pents := func(ps []common.PeerIDAddressPair) []pent {
		out := make([]pent, 0, len(ps))
		for _, p := range ps {
			i, ok := index[p.ID]
			if !ok {
				i = -1
			}
			out = append(out, pent{i, addrNum(p.Address)})
		}
		return out
	}
	for k, op := range h.Ops {
		added, removed = added[:0], removed[:0]
		before := len(rt.Buckets)
		switch op.K {
		case "u":
			var err error
			p, msg := hx.Recover(func() { err = rt.Update(ids[op.I], addrStr(op.A)) })
			switch {
			case p:
				o.Res = append(o.Res, ores{K: "panic", Msg: msg})
				o.Fails = append(o.Fails, ofail{"panic:update", "Update panicked", k, msg, "a result"})
			case err == nil && len(added) == 1 && added[0] == ids[op.I]:
				o.Res = append(o.Res, ores{K: "added"})
			case err == nil && len(added) == 0:
				o.Res = append(o.Res, ores{K: "moved"})
			case err == kb.ErrPeerRejectedNoCapacity && len(added) == 0:
				o.Res = append(o.Res, ores{K: "rejected"})
			default:
				o.Res = append(o.Res, ores{K: "other", Msg: fmt.Sprint(err, len(added))})
			}
			if d := len(rt.Buckets) - before; d > o.MaxDepth {
				o.MaxDepth = d
			}
		case "r":
			p, msg := hx.Recover(func() { rt.Remove(ids[op.I]) })
			switch {
			case p:
				o.Res = append(o.Res, ores{K: "panic", Msg: msg})
				o.Fails = append(o.Fails, ofail{"panic:remove", "Remove panicked", k, msg, "no panic"})
			case len(removed) == 1 && removed[0] == ids[op.I]:
				o.Res = append(o.Res, ores{K: "removed"})
			case len(removed) == 0:
				o.Res = append(o.Res, ores{K: "absent"})
			default:
				o.Res = append(o.Res, ores{K: "other", Msg: fmt.Sprint(len(removed))})
			}
		case "n":
			var out []common.PeerIDAddressPair
			p, msg := hx.Recover(func() { out = rt.NearestPeers(ids[op.I], int(op.C)) })
			if p {
				o.Res = append(o.Res, ores{K: "panic", Msg: msg})
				if op.C >= 0 {
					o.Fails = append(o.Fails, ofail{"panic:nearest", "NearestPeers panicked for a non-negative count", k, msg, "a result"})
				}
			} else {
				o.Res = append(o.Res, ores{K: "near", Out: pents(out)})
				checkNearest(out, pool[op.I], op.C, view(rt), raw, k, &o.Fails)
			}
		}
		checkTable(h, view(rt), raw, local, k, &o.Fails)
	}
	for _, b := range view(rt).buckets {
		o.Final = append(o.Final, pents(b))
	}
	o.NBuckets = len(rt.Buckets)
	return o
}

func runIdCase(ic *idCase, idx int) idobs {
	t := hx.UnHex(ic.T)
	ab := poolIDs(t, []uint64{ic.EA, ic.EB})
	a, b := ab[0], ab[1]
	pt, pa, pb := mkID(t), mkID(a), mkID(b)
	d := pt.Distance(pa)
	o := idobs{IdIdx: idx, Cpl: common.CommonPrefixLen(pt, pa), Dist: hx.Hex(d[:]), Closer: pt.Closer(pa, pb)}
	if want := refCPL(t, a); o.Cpl != want {
		o.Fails = append(o.Fails, ofail{"id:cpl", "CommonPrefixLen is not the number of leading bits two ids share", 0, o.Cpl, want})
	}
	if want := refDist(t, a); new(big.Int).SetBytes(d[:]).Cmp(want) != 0 {
		o.Fails = append(o.Fails, ofail{"id:distance", "Distance is not the XOR of the two ids", 0, o.Dist, want.Text(16)})
	}
	if want := refDist(t, a).Cmp(refDist(t, b)) < 0; o.Closer != want {
		o.Fails = append(o.Fails, ofail{"id:closer", "Closer disagrees with the numeric order of the XOR distances", 0, o.Closer, want})
	}
	return o
}

// child: run everything in the job, one JSON line per result, a "begin" line before each history.
func runChild(j *job) {
	if j.MaxStack > 0 {
		debug.SetMaxStack(j.MaxStack)
	}
	f, err := os.Create(j.ChildOut)
	if err != nil {
		panic(err)
	}
	defer f.Close()
	w := bufio.NewWriter(f)
	emit := func(v interface{}) {
		b, _ := json.Marshal(v)
		w.Write(b)
		w.WriteByte('\n')
		w.Flush()
	}
	for i := range j.Ids {
		emit(runIdCase(&j.Ids[i], i))
	}
	for i := range j.Histories {
		emit(hobs{Idx: i, Begin: true})
		emit(runHistory(&j.Histories[i], i))
	}
	if j.Conc != nil {
		emit(runConcurrent(j.Conc))
	}
	emit(map[string]bool{"done": true})
}

// ---------- parent ----------

type childResult struct {
	hist     map[int]*hobs
	ids      map[int]*idobs
	conc     *concObs
	begun    int // index of the last history begun
	done     bool
	timedOut bool
	exitErr  string
	stderr   string
}

var childSeq int

func spawn(c *hx.Ctx, j *job, timeout time.Duration) childResult {
	childSeq++
	dir := filepath.Join(c.OutDir, fmt.Sprintf("child%d", childSeq))
	os.MkdirAll(dir, 0o755)
	j.ChildOut = filepath.Join(dir, "obs.jsonl")
	if j.MaxStack == 0 {
		j.MaxStack = 64 << 20
	}
	b, _ := json.Marshal(map[string]interface{}{"input": j})
	jobFile := filepath.Join(dir, "job.json")
	if err := os.WriteFile(jobFile, b, 0o644); err != nil {
		panic(err)
	}
	exe, err := os.Executable()
	if err != nil {
		panic(err)
	}
	ctx, cancel := context.WithTimeout(context.Background(), timeout)
	defer cancel()
	cmd := exec.CommandContext(ctx, exe, "run", "-id", "C37", "-seed", fmt.Sprint(c.Seed), "-tier", c.Tier,
		"-out", dir, "-replay", jobFile, "-repo", c.Repo)
	var stderr bytes.Buffer
	cmd.Stderr = &stderr
	cmd.Stdout = &stderr
	runErr := cmd.Run()
	r := childResult{hist: map[int]*hobs{}, ids: map[int]*idobs{}, begun: -1}
	if ctx.Err() == context.DeadlineExceeded {
		r.timedOut = true
	}
	if runErr != nil {
		r.exitErr = runErr.Error()
	}
	s := stderr.String()
	if len(s) > 600 {
		s = s[:600]
	}
	r.stderr = s
	f, err := os.Open(j.ChildOut)
	if err != nil {
		return r
	}
	defer f.Close()
	sc := bufio.NewScanner(f)
	sc.Buffer(make([]byte, 1<<20), 1<<28)
	for sc.Scan() {
		line := sc.Bytes()
		switch {
		case bytes.HasPrefix(line, []byte(`{"done"`)):
			r.done = true
		case bytes.HasPrefix(line, []byte(`{"conc"`)):
			var o concObs
			if json.Unmarshal(line, &o) == nil {
				r.conc = &o
			}
		case bytes.HasPrefix(line, []byte(`{"ididx"`)):
			var o idobs
			if json.Unmarshal(line, &o) == nil {
				r.ids[o.IdIdx] = &o
			}
		default:
			var o hobs
			if json.Unmarshal(line, &o) != nil {
				continue
			}
			if o.Begin {
				r.begun = o.Idx
			} else {
				oo := o
				r.hist[o.Idx] = &oo
			}
		}
	}
	return r
}

// ---------- Coq printing ----------

// an id is printed as the number its bytes denote (big-endian); Corr.C37.id_of turns it back
func coqID(hexid string) string { return new(big.Int).SetBytes(hx.UnHex(hexid)).String() }

func coqPool(pool []uint64) string {
	var s []string
	for _, e := range pool {
		s = append(s, fmt.Sprint(e))
	}
	return hx.CoqList(s)
}

func coqOps(ops []hop) string {
	var s []string
	for _, o := range ops {
		switch o.K {
		case "u":
			s = append(s, fmt.Sprintf("IUpdate %d %d", o.I, o.A))
		case "r":
			s = append(s, fmt.Sprintf("IRemove %d", o.I))
		default:
			s = append(s, fmt.Sprintf("INearest %d %s", o.I, hx.CoqZ(o.C)))
		}
	}
	return hx.CoqList(s)
}

func coqPents(ps []pent) string {
	var s []string
	for _, p := range ps {
		if p.I < 0 || p.A > 15 {
			s = append(s, "999999999") // a peer outside the pool / an unknown address: matches nothing
			continue
		}
		s = append(s, fmt.Sprint(16*uint64(p.I)+p.A))
	}
	return hx.CoqList(s)
}

func coqRes(rs []ores) (string, bool) {
	var s []string
	for _, r := range rs {
		switch r.K {
		case "moved":
			s = append(s, "IRUpdate UMoved")
		case "added":
			s = append(s, "IRUpdate UAdded")
		case "rejected":
			s = append(s, "IRUpdate URejected")
		case "removed":
			s = append(s, "IRRemove true")
		case "absent":
			s = append(s, "IRRemove false")
		case "near":
			s = append(s, "IRNearest "+coqPents(r.Out))
		case "panic":
			s = append(s, "IRPanic")
		default:
			return "", false
		}
	}
	return hx.CoqList(s), true
}

// ---------- generators ----------

func pickCPL(c *hx.Ctx, style string) int {
	switch style {
	case "close":
		switch c.Intn(6) {
		case 0:
			return []int{0, 1, 7, 8, 9, 15, 16, 17, 63, 64, 65, 151, 152, 153, 158, 159, 160}[c.Intn(17)]
		case 1:
			return 150 + c.Intn(11)
		case 2:
			return c.Intn(12)
		default:
			return c.Intn(161)
		}
	case "deep":
		return 100 + c.Intn(61)
	case "shallow":
		return c.Intn(6)
	}
	return c.Intn(161)
}

func genHistory(c *hx.Ctx, kind string) history {
	local := c.Bytes(idLen)
	if c.Intn(8) == 0 { // boundary local ids
		for i := range local {
			local[i] = []byte{0x00, 0xff}[c.Intn(2)]
		}
	}
	sizes := []int64{1, 1, 2, 2, 3, 5, 20}
	size := sizes[c.Intn(len(sizes))]
	np := 6 + c.Intn(30)
	nops := 10 + c.Intn(70)
	style := kind
	switch kind {
	case "random":
	case "churn":
		np = 4 + c.Intn(8)
		style = "close"
	case "deep":
		size = []int64{1, 2, 3}[c.Intn(3)]
	case "full": // many peers of one prefix length, bucket size 20
		size = 20
		np = 30 + c.Intn(40)
		nops = 60 + c.Intn(80)
		style = "shallow"
	}
	seen := map[string]bool{}
	var pool []uint64
	var offs []*big.Int
	addEntry := func(e uint64) {
		d := offsetOf(offs, e)
		if key := d.Text(16); !seen[key] {
			seen[key] = true
			pool = append(pool, e)
			offs = append(offs, d)
		}
	}
	seed := func() uint64 { return uint64(c.Intn(1 << 16)) }
	for len(pool) < np {
		if kind == "random" {
			addEntry(entry(161, seed()))
		} else {
			addEntry(entry(uint64(pickCPL(c, style)), seed()))
		}
	}
	if c.Intn(3) == 0 {
		addEntry(entry(8*idLen, 0)) // the local id itself is a legal argument of Update
	}
	npeers := len(pool)
	// query-only targets: random, one bit away from a pool id, the local id
	for k := 0; k < 3; k++ {
		switch c.Intn(3) {
		case 0:
			addEntry(entry(161, seed()))
		case 1:
			addEntry(entry(200+uint64(c.Intn(npeers)), uint64(c.Intn(24))))
		default:
			addEntry(entry(8*idLen, 0))
		}
	}
	counts := []int64{0, 1, 1, 2, 3, 5, size, size + 1, 20, 50}
	h := history{Kind: kind, Size: size, Local: hx.Hex(local), Pool: pool}
	for k := 0; k < nops; k++ {
		r := c.Intn(100)
		switch {
		case r < 62 || (k < npeers/2 && r < 85):
			h.Ops = append(h.Ops, hop{K: "u", I: c.Intn(npeers), A: uint64(1 + c.Intn(9))})
		case r < 80:
			h.Ops = append(h.Ops, hop{K: "r", I: c.Intn(npeers)})
		default:
			cnt := counts[c.Intn(len(counts))]
			if c.Intn(40) == 0 {
				// negative counts panic in `pds.peers[:count]`.  Kept above -size: with
				// count+size < 0 the earlier make() panics while tabLock is read-locked (no defer),
				// and every later Update/Remove of the history would block forever.
				cnt = -1 - int64(c.Intn(int(size)))
			}
			h.Ops = append(h.Ops, hop{K: "n", I: c.Intn(len(pool)), C: cnt})
		}
	}
	h.Ops = append(h.Ops, hop{K: "n", I: c.Intn(len(pool)), C: int64(1 + c.Intn(25))})
	return h
}

func genIdCase(c *hx.Ctx) idCase {
	t := c.Bytes(idLen)
	ka := uint64(pickCPL(c, "close"))
	ic := idCase{T: hx.Hex(t), EA: entry(ka, uint64(c.Intn(1<<16)))}
	switch c.Intn(3) {
	case 0:
		ic.EB = entry(161, uint64(c.Intn(1<<16)))
	case 1:
		ic.EB = entry(ka, uint64(c.Intn(1<<16))) // same prefix length as a
	default:
		ic.EB = entry(200, uint64(c.Intn(8*idLen))) // a with one bit flipped
	}
	return ic
}

// probes executed on every run
func probeSize1Local() history {
	local := make([]byte, idLen)
	for i := range local {
		local[i] = byte(i * 7)
	}
	// pool: the local id, a peer sharing no prefix bit, a peer sharing 159 bits
	return history{Kind: "probe:size1-local-id", Size: 1, Local: hx.Hex(local),
		Pool: []uint64{entry(8*idLen, 0), entry(0, 1), entry(8*idLen-1, 2)},
		Ops:  []hop{{K: "u", I: 0, A: 1}, {K: "u", I: 1, A: 2}, {K: "u", I: 2, A: 3}, {K: "n", I: 2, C: 5}, {K: "r", I: 0}, {K: "u", I: 0, A: 4}}}
}

func probeNonPositive(size int64) history {
	h := probeSize1Local()
	h.Kind = fmt.Sprintf("probe:size%d", size)
	h.Size = size
	h.Ops = h.Ops[:1]
	return h
}

// ---------- recording ----------

func bucketOf(n int) string {
	for _, b := range []int{1, 2, 4, 8, 16, 32, 64, 162} {
		if n <= b {
			return fmt.Sprintf("<=%d", b)
		}
	}
	return ">162"
}

// withIDs returns a copy of the history that also spells out the derived ids.
func withIDs(h *history) history {
	hh := *h
	hh.IDs = nil
	for _, id := range poolIDs(hx.UnHex(h.Local), h.Pool) {
		hh.IDs = append(hh.IDs, hx.Hex(id))
	}
	return hh
}

func record(c *hx.Ctx, h *history, o *hobs) {
	c.Eval()
	c.Count("history:" + h.Kind)
	c.Count(fmt.Sprintf("size:%d", h.Size))
	c.Count("buckets:" + bucketOf(o.NBuckets))
	c.Count("unfold-rounds-max:" + bucketOf(o.MaxDepth))
	for _, r := range o.Res {
		c.Count("result:" + r.K)
	}
	for _, f := range o.Fails {
		c.Fail(f.Class, f.Clause, withIDs(h), map[string]interface{}{"after_call": f.At, "got": f.Got}, f.Want)
	}
	if o.NBuckets >= 2 {
		b, _ := json.Marshal(h)
		c.Nontrivial(string(b))
	}
	c.Sample(map[string]interface{}{"kind": h.Kind, "size": h.Size, "calls": len(h.Ops), "peers": len(h.Pool), "buckets": o.NBuckets, "most_buckets_created_by_one_update": o.MaxDepth})
	res, ok := coqRes(o.Res)
	if !ok {
		c.Fail("callback-mismatch", "Update/Remove result and the PeerAdded/PeerRemoved callbacks do not fit together", withIDs(h), o.Res, "added<->PeerAdded(id), removed<->PeerRemoved(id)")
		return
	}
	var fin []string
	for i, b := range o.Final {
		if len(b) > 0 {
			fin = append(fin, fmt.Sprintf("(%d, %s)", i, coqPents(b)))
		}
	}
	c.Case(fmt.Sprintf("CHist %s %s %s %s %s %d %s", hx.CoqZ(h.Size), coqID(h.Local), coqPool(h.Pool), coqOps(h.Ops), res, len(o.Final), hx.CoqList(fin)), h)
}

func runBatch(c *hx.Ctx, hs []history, ids []idCase, timeout time.Duration) {
	r := spawn(c, &job{Histories: hs, Ids: ids}, timeout)
	for i := range ids {
		o, ok := r.ids[i]
		if !ok {
			continue
		}
		c.Eval()
		c.Count("idcase")
		for _, f := range o.Fails {
			c.Fail(f.Class, f.Clause, ids[i], f.Got, f.Want)
		}
		c.Nontrivial(fmt.Sprint("id", ids[i]))
		c.Case(fmt.Sprintf("CId %s %d %d %d %s %s", coqID(ids[i].T), ids[i].EA, ids[i].EB,
			o.Cpl, coqID(o.Dist), hx.CoqBool(o.Closer)), ids[i])
	}
	for i := range hs {
		if o, ok := r.hist[i]; ok {
			record(c, &hs[i], o)
		}
	}
	if !r.done {
		// the child died or was killed: the history it had begun is the failing input
		if r.begun >= 0 && r.hist[r.begun] == nil {
			why := "the process crashed"
			if r.timedOut {
				why = "no result within the time limit"
			}
			if strings.Contains(r.stderr, "stack overflow") || strings.Contains(r.stderr, "stack exceeds") {
				why = "unbounded recursion (stack overflow)"
			}
			c.Fail("no-return", "a call of the history did not return: "+why, withIDs(&hs[r.begun]),
				map[string]interface{}{"exit": r.exitErr, "timed_out": r.timedOut, "output": r.stderr}, "every call returns")
			c.Note(fmt.Sprintf("child stopped at history %d of %d; the remaining ones were not run", r.begun, len(hs)))
		} else {
			c.Fail("child-failure", "the child process running the implementation ended abnormally", nil,
				map[string]interface{}{"exit": r.exitErr, "timed_out": r.timedOut, "output": r.stderr}, "normal exit")
		}
	}
}

// probeReturns runs a history in its own child and records whether every call returned.
func probeReturns(c *hx.Ctx, h history, timeout time.Duration) bool {
	r := spawn(c, &job{Histories: []history{h}, MaxStack: 32 << 20}, timeout)
	returned := r.done && r.hist[0] != nil
	c.Eval()
	outcome := "returned"
	if !returned {
		outcome = "did-not-return"
		if strings.Contains(r.stderr, "stack overflow") || strings.Contains(r.stderr, "stack exceeds") {
			outcome = "stack-overflow"
		} else if r.timedOut {
			outcome = "timeout"
		}
	}
	c.Count(h.Kind + ":" + outcome)
	c.Note(fmt.Sprintf("%s (bucket size %d, one Update): %s on the implementation", h.Kind, h.Size, outcome))
	c.Case(fmt.Sprintf("CReturns %s %s %s %s %s", hx.CoqZ(h.Size), coqID(h.Local), coqPool(h.Pool), coqOps(h.Ops), hx.CoqBool(returned)), h)
	return returned
}

// concurrentOracle runs the bounded concurrent oracle (conc.go) in a child of its own.
func concurrentOracle(c *hx.Ctx, cj concJob) {
	r := spawn(c, &job{Conc: &cj}, 40*time.Second)
	in := map[string]interface{}{"conc": cj}
	if r.conc == nil {
		why := "the process crashed"
		if r.timedOut {
			why = "no result within the time limit (a call never returned)"
		}
		c.Fail("no-return-concurrent", "concurrent Update/Remove/NearestPeers calls on one table: "+why, in,
			map[string]interface{}{"exit": r.exitErr, "timed_out": r.timedOut, "output": r.stderr}, "every call returns")
		return
	}
	for i := 0; i < r.conc.Rounds; i++ {
		c.Eval()
	}
	c.Count(fmt.Sprintf("concurrent:rounds=%d,calls=%d", r.conc.Rounds, r.conc.Calls))
	c.Note(fmt.Sprintf("concurrent oracle: %d goroutines, %d rounds (%d calls) on one table in %d ms under %v", cj.G, r.conc.Rounds, r.conc.Calls, r.conc.Ms, r.conc.Settings))
	for _, f := range r.conc.Fails {
		c.Fail(f.Class, f.Clause, in, f.Got, f.Want)
	}
}

func Run(c *hx.Ctx) {
	c.CoqModule("Corr.C37")
	var j job
	if c.ReplayInput(&j) {
		if j.ChildOut != "" {
			runChild(&j)
			return
		}
		if j.Conc != nil {
			concurrentOracle(c, *j.Conc)
			return
		}
		// a replay file of ./check: one history or one id case
		if j.history.Local != "" {
			runBatch(c, []history{j.history}, nil, 60*time.Second)
		} else if j.idCase.T != "" {
			runBatch(c, nil, []idCase{j.idCase}, 60*time.Second)
		}
		return
	}
	var hs []history
	for _, raw := range c.CorpusInputs() {
		var h history
		if json.Unmarshal(raw, &h) == nil && h.Local != "" {
			hs = append(hs, h)
		}
	}
	// deterministic probes: the candidate finding F14 (bucket size 1 with the local id in the
	// table) and the configuration outside the theorem's hypothesis (bucket size <= 0).
	hs = append(hs, probeSize1Local())
	probeReturns(c, probeNonPositive(0), 30*time.Second)
	probeReturns(c, probeNonPositive(-1), 30*time.Second)

	concurrentOracle(c, concJob{Seed: c.Seed, G: 6, Rounds: c.N(3000, 30000), BudgetMs: c.N(1800, 15000), Size: 20})

	n := c.N(300, 4000)
	kinds := []string{"random", "close", "close", "deep", "churn", "full", "close"}
	for i := 0; i < n; i++ {
		hs = append(hs, genHistory(c, kinds[i%len(kinds)]))
	}
	var ids []idCase
	for i := 0; i < c.N(200, 2000); i++ {
		ids = append(ids, genIdCase(c))
	}
	// batches, so that one non-returning history does not hide the others
	const batch = 150
	first := true
	for len(hs) > 0 {
		k := batch
		if k > len(hs) {
			k = len(hs)
		}
		if first {
			runBatch(c, hs[:k], ids, 90*time.Second)
			first = false
		} else {
			runBatch(c, hs[:k], nil, 90*time.Second)
		}
		hs = hs[k:]
	}
}
