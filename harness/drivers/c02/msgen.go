package c02

import (
	"encoding/hex"
	"fmt"

	"github.com/ontio/ontology-crypto/keypair"
	"github.com/ontio/ontology/account"
	"github.com/ontio/ontology/common"
	"github.com/ontio/ontology/core/signature"
	"github.com/ontio/ontology/core/types"
	"github.com/ontio/ontology/smartcontract/service/native/ont"
	nutils "github.com/ontio/ontology/smartcontract/service/native/utils"
)

// Witness scripts written to the wire format by an encoder that does NOT use core/program (what an
// SDK or another implementation produces):
//
//	push of a small number k (1..16):  one byte 0x50+k   (PUSH1 = 0x51 .. PUSH16 = 0x60)
//	push of a byte string (1..75):     one length byte, then the bytes
//	single key:   <push key> CHECKSIG(0xAC)
//	m-of-n:       <push m> <push key_1> .. <push key_n> <push n> CHECKMULTISIG(0xAE), keys in canonical order
//	parameters:   <push sig_1> .. <push sig_k>
//
// The account of a script is the hash of its bytes. A node that runs the validator re-derives the
// account from the PARSED keys with the tree's own builder; a node that only decodes the block
// hashes the raw script: for these standard scripts the two must coincide for every n up to 16.

func specPushNum(b []byte, k int) []byte {
	if k < 1 || k > 16 {
		panic("specPushNum: small numbers only")
	}
	return append(b, byte(0x50+k))
}

func specPushBytes(b, data []byte) []byte {
	if len(data) < 1 || len(data) > 75 {
		panic("specPushBytes: 1..75 bytes")
	}
	return append(append(b, byte(len(data))), data...)
}

func specSingleScript(pk keypair.PublicKey) []byte {
	return append(specPushBytes(nil, keypair.SerializePublicKey(pk)), 0xAC)
}

func specMultiScript(pks []keypair.PublicKey, m int) []byte {
	sorted := keypair.SortPublicKeys(append([]keypair.PublicKey{}, pks...))
	b := specPushNum(nil, m)
	for _, pk := range sorted {
		b = specPushBytes(b, keypair.SerializePublicKey(pk))
	}
	b = specPushNum(b, len(sorted))
	return append(b, 0xAE)
}

func specParams(sigs [][]byte) []byte {
	var b []byte
	for _, s := range sigs {
		b = specPushBytes(b, s)
	}
	return b
}

type specMulti struct {
	keys []*account.Account
	m    int
	addr common.Address // hash of the spec-encoded script
}

// multisigChain: standard m-of-n accounts for n in {2, 3, 15, 16} and m in {1, n-1}: funded by the
// bookkeeper, then debited twice (ONT transfer FROM the multi-signature account, so its witness is
// what the ONT contract checks) with a single-key account paying the fee.
func (g *txGen) multisigChain() *Input {
	in := &Input{Kind: "chain", BookKey: g.bookKeyHex(), Repeat: 1}
	var pool []*account.Account
	for i := 0; i < 16; i++ {
		pool = append(pool, account.NewAccount(""))
	}
	var ms []*specMulti
	seen := map[string]bool{}
	for _, n := range []int{2, 3, 15, 16} {
		for _, m := range []int{1, n - 1} {
			if seen[fmt.Sprint(n, "/", m)] {
				continue
			}
			seen[fmt.Sprint(n, "/", m)] = true
			off := g.r.Intn(len(pool))
			s := &specMulti{m: m}
			var pks []keypair.PublicKey
			for i := 0; i < n; i++ {
				a := pool[(off+i)%len(pool)]
				s.keys = append(s.keys, a)
				pks = append(pks, a.PublicKey)
			}
			s.addr = common.AddressFromVmCode(specMultiScript(pks, m))
			ms = append(ms, s)
		}
	}
	payer := g.accts[0]
	in.Track = []string{g.book.Address.ToHexString(), payer.Address.ToHexString(), nutils.GovernanceContractAddress.ToHexString()}
	// block 1: funding
	var fund []TxSpec
	var sts, ong []*ont.TransferState
	for _, s := range ms {
		sts = append(sts, &ont.TransferState{From: g.book.Address, To: s.addr, Value: 1000})
		in.Track = append(in.Track, s.addr.ToHexString())
	}
	ong = append(ong, &ont.TransferState{From: g.book.Address, To: payer.Address, Value: 1000000000000})
	for _, x := range []struct {
		tok common.Address
		st  []*ont.TransferState
	}{{nutils.OntContractAddress, sts}, {nutils.OngContractAddress, ong}} {
		tx := g.mtx(transferCode(x.tok, x.st), 0, 200000)
		tx.Payer = g.book.Address
		signSingle(tx, g.book)
		fund = append(fund, TxSpec{rawOf(tx), "fund"})
	}
	in.Blocks = append(in.Blocks, fund)
	// blocks 2, 3: debits
	for b := 0; b < 2; b++ {
		var blk []TxSpec
		for _, s := range ms {
			var to common.Address
			g.r.Read(to[:])
			gp := uint64(2500)
			if b == 1 {
				gp = 0
			}
			tx := g.mtx(transferCode(nutils.OntContractAddress, []*ont.TransferState{{From: s.addr, To: to, Value: uint64(1 + g.r.Intn(9))}}), gp, 30000)
			tx.Payer = payer.Address
			h := tx.Hash()
			sign := func(a *account.Account) []byte {
				sig, err := signature.Sign(a, h[:])
				if err != nil {
					panic(err)
				}
				return sig
			}
			var sigs [][]byte
			for _, i := range g.r.Perm(len(s.keys))[:s.m] {
				sigs = append(sigs, sign(s.keys[i]))
			}
			var pks []keypair.PublicKey
			for _, k := range s.keys {
				pks = append(pks, k.PublicKey)
			}
			raw := rawWithSigs(tx, []types.RawSig{
				{Invoke: specParams([][]byte{sign(payer)}), Verify: specSingleScript(payer.PublicKey)},
				{Invoke: specParams(sigs), Verify: specMultiScript(pks, s.m)},
			})
			if _, err := hex.DecodeString(raw); err != nil {
				panic(err)
			}
			blk = append(blk, TxSpec{raw, fmt.Sprintf("multisig-spec:%d-of-%d:debit", s.m, len(s.keys))})
		}
		in.Blocks = append(in.Blocks, blk)
	}
	for _, blk := range in.Blocks {
		for _, t := range blk {
			g.count("tx:" + t.Kind)
		}
	}
	return in
}
