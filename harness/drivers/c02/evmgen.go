package c02

import (
	"encoding/hex"
	"fmt"
	"math/big"

	ethcomm "github.com/ethereum/go-ethereum/common"
	ethtypes "github.com/ethereum/go-ethereum/core/types"
	ethcrypto "github.com/ethereum/go-ethereum/crypto"
	"github.com/ontio/ontology/common/config"
	"github.com/ontio/ontology/common/constants"
	"github.com/ontio/ontology/core/types"
)

// EVM family "reads of memory the frame never wrote". EVM memory is zero-initialised per call
// frame; a reader that loads / logs / hashes / returns memory it has not written must see zeros
// whatever the process executed before (other frames, other transactions, pre-executions). Readers
// make the bytes observable (storage, log, state root); polluters are frames that leave non-zero
// bytes at the same offsets in their own memory.

// evm opcodes used here
const (
	opSTOP     = 0x00
	opSHA3     = 0x20
	opCODECOPY = 0x39
	opPOP      = 0x50
	opMLOAD    = 0x51
	opMSTORE   = 0x52
	opSSTORE   = 0x55
	opGAS      = 0x5a
	opDUP1     = 0x80
	opLOG0     = 0xa0
	opCALL     = 0xf1
	opRETURN   = 0xf3
)

type evmAsm struct{ b []byte }

func (a *evmAsm) op(ops ...byte) *evmAsm { a.b = append(a.b, ops...); return a }
func (a *evmAsm) push(v []byte) *evmAsm {
	if len(v) == 0 || len(v) > 32 {
		panic("push size")
	}
	a.b = append(a.b, byte(0x5f+len(v)))
	a.b = append(a.b, v...)
	return a
}
func (a *evmAsm) push1(v byte) *evmAsm   { return a.push([]byte{v}) }
func (a *evmAsm) push2(v uint16) *evmAsm { return a.push([]byte{byte(v >> 8), byte(v)}) }

// initCode wraps runtime code in the usual constructor: copy it to memory and return it.
func initCode(runtime []byte) []byte {
	if len(runtime) > 0xffff {
		panic("runtime too long")
	}
	a := &evmAsm{}
	a.push2(uint16(len(runtime))).op(opDUP1).push1(0x0c).push1(0).op(opCODECOPY).push1(0).op(opRETURN)
	if len(a.b) != 0x0c {
		panic("constructor length")
	}
	return append(a.b, runtime...)
}

var memOffsets = []uint16{0x20, 0x400, 0x800, 0x1000, 0x3000}

// readers: none of them writes memory before reading it
func readerMload(off uint16) []byte { // sstore(1, mload(off))
	return (&evmAsm{}).push2(off).op(opMLOAD).push1(1).op(opSSTORE, opSTOP).b
}
func readerLog(off uint16) []byte { // log0(off, 0x40)
	return (&evmAsm{}).push1(0x40).push2(off).op(opLOG0, opSTOP).b
}
func readerSha3(off uint16) []byte { // sstore(1, keccak(mem[off:off+0x40]))
	return (&evmAsm{}).push1(0x40).push2(off).op(opSHA3).push1(1).op(opSSTORE, opSTOP).b
}
func readerReturn(off uint16) []byte { // return(off, 0x20)
	return (&evmAsm{}).push1(0x20).push2(off).op(opRETURN).b
}

// callerOf: call target, copy 32 bytes of its return data to memory 0, store them: makes a
// RETURN of unwritten memory observable in storage.
func callerOf(target ethcomm.Address) []byte {
	a := &evmAsm{}
	a.push1(0x20).push1(0).push1(0).push1(0).push1(0).push(target[:]).op(opGAS, opCALL, opPOP)
	a.push1(0).op(opMLOAD).push1(1).op(opSSTORE, opSTOP)
	return a.b
}

// polluter: mstore a non-zero pattern over [off, off+0x40) for every offset, then stop.
func polluter(tag byte, offs []uint16) []byte {
	a := &evmAsm{}
	pat := make([]byte, 32)
	for i := range pat {
		pat[i] = tag ^ byte(0xa5+i)
		if pat[i] == 0 {
			pat[i] = 0xff
		}
	}
	for _, off := range offs {
		a.push(pat).push2(off).op(opMSTORE)
		a.push(pat).push2(off + 0x20).op(opMSTORE)
	}
	return a.op(opSTOP).b
}

// evmSend signs one EIP-155 transaction of e (to == nil: contract creation); bump: the transaction
// goes into a block, so the account nonce advances.
func (g *txGen) evmSend(e *ethAcct, to *ethcomm.Address, data []byte, gas uint64, bump bool) string {
	chainID := big.NewInt(int64(config.DefConfig.P2PNode.EVMChainId))
	price := new(big.Int).Mul(big.NewInt(2500), big.NewInt(constants.GWei))
	var raw *ethtypes.Transaction
	if to == nil {
		raw = ethtypes.NewContractCreation(e.nonce, big.NewInt(0), gas, price, data)
	} else {
		raw = ethtypes.NewTransaction(e.nonce, *to, big.NewInt(0), gas, price, data)
	}
	signed, err := ethtypes.SignTx(raw, ethtypes.NewEIP155Signer(chainID), e.key)
	if err != nil {
		panic(err)
	}
	t, err := types.TransactionFromEIP155(signed)
	if err != nil {
		panic(err)
	}
	if bump {
		e.nonce++
	}
	return hex.EncodeToString(t.ToArray())
}

type evmContract struct {
	kind string
	addr ethcomm.Address
}

// evmMemoryChain: funding; a block creating readers (MLOAD+SSTORE, LOG0, SHA3+SSTORE, RETURN behind a
// storing caller, for every offset) and polluters; a block of reader calls (clean process); then
//
//	preexec == false: two blocks interleaving polluter and reader calls, the syncing node restarted as
//	                  a NEW PROCESS, two blocks of reader calls;
//	preexec == true:  four blocks of reader calls, the member pre-executing polluter calls before each
//	                  (pre-execution must not influence block results; the syncing node serves none).
func (g *txGen) evmMemoryChain(preexec bool) *Input {
	in := &Input{Kind: "chain", BookKey: g.bookKeyHex(), Track: g.track(), Repeat: 1}
	in.Blocks = append(in.Blocks, g.fundingBlock())
	e := g.eths[0]
	var creates []TxSpec
	var readers, polluters []evmContract
	create := func(kind string, runtime []byte) ethcomm.Address {
		addr := ethcrypto.CreateAddress(ethcomm.Address(e.addr), e.nonce)
		creates = append(creates, TxSpec{g.evmSend(e, nil, initCode(runtime), 300000, true), "evm:create:" + kind})
		return addr
	}
	for _, off := range memOffsets {
		readers = append(readers, evmContract{"reader-mload", create("reader-mload", readerMload(off))})
		readers = append(readers, evmContract{"reader-log", create("reader-log", readerLog(off))})
		readers = append(readers, evmContract{"reader-sha3", create("reader-sha3", readerSha3(off))})
		ret := create("reader-return", readerReturn(off))
		readers = append(readers, evmContract{"reader-return-via-caller", create("caller", callerOf(ret))})
	}
	polluters = append(polluters, evmContract{"polluter-all", create("polluter", polluter(1, memOffsets))})
	polluters = append(polluters, evmContract{"polluter-high", create("polluter", polluter(2, memOffsets[2:]))})
	polluters = append(polluters, evmContract{"polluter-one", create("polluter", polluter(3, memOffsets[2:3]))})
	in.Blocks = append(in.Blocks, creates)
	call := func(c evmContract, bump bool) TxSpec {
		return TxSpec{g.evmSend(e, &c.addr, nil, 200000, bump), "evm:call:" + c.kind}
	}
	readerBlock := func(n int) []TxSpec {
		var blk []TxSpec
		for i := 0; i < n; i++ {
			blk = append(blk, call(readers[g.r.Intn(len(readers))], true))
		}
		return blk
	}
	in.Blocks = append(in.Blocks, readerBlock(6)) // clean baseline
	if !preexec {
		for b := 0; b < 2; b++ {
			var blk []TxSpec
			for i := 0; i < 8; i++ {
				if i%2 == 0 {
					blk = append(blk, call(polluters[g.r.Intn(len(polluters))], true))
				} else {
					blk = append(blk, call(readers[g.r.Intn(len(readers))], true))
				}
			}
			in.Blocks = append(in.Blocks, blk)
		}
		in.ProcRestart = len(in.Blocks)
		in.Blocks = append(in.Blocks, readerBlock(8), readerBlock(8))
	} else {
		in.PreExec = make([][]string, len(in.Blocks))
		for b := 0; b < 4; b++ {
			var pre []string
			for i := 0; i < 3; i++ {
				pre = append(pre, call(polluters[g.r.Intn(len(polluters))], false).Raw)
				g.count("preexec:evm:call:polluter")
			}
			in.PreExec = append(in.PreExec, pre)
			in.Blocks = append(in.Blocks, readerBlock(6))
		}
	}
	for _, blk := range in.Blocks {
		for _, t := range blk {
			g.count("tx:" + t.Kind)
		}
	}
	if len(in.PreExec) > 0 && len(in.PreExec) != len(in.Blocks) {
		panic(fmt.Sprint("preexec/blocks ", len(in.PreExec), len(in.Blocks)))
	}
	return in
}
