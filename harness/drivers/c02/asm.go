package c02

import (
	"bytes"
	"math/big"
	"math/rand"

	"github.com/ontio/ontology/common"
	"github.com/ontio/ontology/vm/neovm"
)

// asm is a small NeoVM assembler on top of neovm.ParamsBuilder.
type asm struct {
	buf bytes.Buffer
	pb  *neovm.ParamsBuilder
}

func newAsm() *asm {
	a := &asm{}
	a.pb = neovm.NewParamsBuilder(&a.buf)
	return a
}

func (a *asm) op(ops ...neovm.OpCode) *asm {
	for _, o := range ops {
		a.pb.Emit(o)
	}
	return a
}
func (a *asm) pushInt(n int64) *asm    { a.pb.EmitPushInteger(big.NewInt(n)); return a }
func (a *asm) pushBytes(b []byte) *asm { a.pb.EmitPushByteArray(b); return a }
func (a *asm) pushStr(s string) *asm   { return a.pushBytes([]byte(s)) }
func (a *asm) syscall(name string) *asm {
	a.pb.Emit(neovm.SYSCALL)
	sink := common.NewZeroCopySink(nil)
	sink.WriteVarBytes([]byte(name))
	a.buf.Write(sink.Bytes())
	return a
}
func (a *asm) appcall(addr common.Address) *asm { a.pb.EmitPushCall(addr[:]); return a }
func (a *asm) bytes() []byte {
	return append([]byte{}, a.buf.Bytes()...)
}

const (
	sysGetContext   = "System.Storage.GetContext"
	sysPut          = "System.Storage.Put"
	sysGet          = "System.Storage.Get"
	sysNotify       = "System.Runtime.Notify"
	sysCheckWitness = "System.Runtime.CheckWitness"
	sysSerialize    = "System.Runtime.Serialize"
	sysGetTime      = "System.Runtime.GetTime"
	sysGetHeight    = "System.Blockchain.GetHeight"
)

// counterContract: n = Storage.Get("n") + 1; Storage.Put("n", n); Notify(n). tag varies the code
// (and with it the contract address).
func counterContract(tag byte) []byte {
	a := newAsm()
	a.pushBytes([]byte{'t', tag}).op(neovm.DROP)
	a.pushStr("n").syscall(sysGetContext).syscall(sysGet) // [v]
	a.op(neovm.PUSH1, neovm.ADD)                          // [v+1]
	a.op(neovm.DUP).pushStr("n").syscall(sysGetContext).syscall(sysPut)
	a.syscall(sysNotify)
	return a.bytes()
}

// witnessContract: b = CheckWitness(addr); Storage.Put("w", b); Notify(b): state and event depend
// on whether addr is in the transaction's signer list.
func witnessContract(addr common.Address) []byte {
	a := newAsm()
	a.pushBytes(addr[:]).syscall(sysCheckWitness) // [b]
	a.op(neovm.DUP).pushStr("w").syscall(sysGetContext).syscall(sysPut)
	a.syscall(sysNotify)
	return a.bytes()
}

// callScript: invoke a deployed contract.
func callScript(addr common.Address, salt int64) []byte {
	return newAsm().pushInt(salt).op(neovm.DROP).appcall(addr).bytes()
}

// nested(depth): depth arrays inside each other, the innermost empty.
func (a *asm) nested(depth int) *asm {
	a.op(neovm.PUSH0, neovm.PACK)
	for i := 1; i < depth; i++ {
		a.op(neovm.PUSH1, neovm.PACK)
	}
	return a
}

// pushValue emits a random value of bounded nesting (d = remaining depth).
func (a *asm) pushValue(r *rand.Rand, d int) {
	k := r.Intn(6)
	if d <= 0 && k >= 3 {
		k = r.Intn(3)
	}
	switch k {
	case 0:
		a.pushInt(r.Int63n(1<<40) - (1 << 39))
	case 1:
		b := make([]byte, r.Intn(12))
		r.Read(b)
		a.pushBytes(b)
	case 2:
		a.pb.EmitPushBool(r.Intn(2) == 0)
	case 3: // array
		n := r.Intn(4)
		for i := 0; i < n; i++ {
			a.pushValue(r, d-1)
		}
		a.pushInt(int64(n)).op(neovm.PACK)
	case 4: // map
		a.pushMap(r, 1+r.Intn(5), d-1)
	case 5:
		a.nested(1 + r.Intn(4))
	}
}

// pushMap emits NEWMAP followed by n insertions with distinct keys (ints and byte strings).
func (a *asm) pushMap(r *rand.Rand, n, d int) {
	a.op(neovm.NEWMAP)
	for i := 0; i < n; i++ {
		a.op(neovm.DUP)
		if r.Intn(2) == 0 {
			a.pushInt(int64(i*7 + r.Intn(7)))
		} else {
			a.pushBytes([]byte{byte('a' + i), byte(r.Intn(256))})
		}
		a.pushValue(r, d)
		a.op(neovm.SETITEM)
	}
}

// mapScript builds a map of n entries (values nested at most 3 deep, far from MAX_STRUCT_DEPTH) and
// notifies its serialization, its KEYS and its VALUES: all three must come out in key order.
func mapScript(r *rand.Rand, n int) []byte {
	a := newAsm()
	a.pushMap(r, n, 2)
	a.op(neovm.DUP).syscall(sysSerialize).syscall(sysNotify)
	a.op(neovm.DUP, neovm.KEYS).syscall(sysSerialize).syscall(sysNotify)
	a.op(neovm.VALUES).syscall(sysSerialize).syscall(sysNotify)
	return a.bytes()
}

// ctxScript notifies block time and height (block context must be the same on every node).
func ctxScript(salt int64) []byte {
	a := newAsm().pushInt(salt).op(neovm.DROP)
	a.syscall(sysGetTime).syscall(sysNotify)
	a.syscall(sysGetHeight).syscall(sysNotify)
	return a.bytes()
}

// throwScript fails after notifying (the fee is still charged, the notification dropped).
func throwScript(salt int64) []byte {
	return newAsm().pushInt(salt).syscall(sysNotify).op(neovm.THROW).bytes()
}

// cycleDetectorScript (F4, map branch): a map with `deep` entries whose value is 11 arrays deep
// (innermost empty: too deep when counted from the map, fine when counted from the value itself) and
// `shallow` entries with value 0; Serialize it and notify the result. Whether Serialize fails depends
// on which entry the runtime visits first.
func cycleDetectorScript(deep, shallow int) []byte {
	a := newAsm()
	a.op(neovm.NEWMAP)
	for i := 0; i < deep+shallow; i++ {
		a.op(neovm.DUP).pushBytes([]byte{'k', byte(i)})
		if i%2 == 0 && i/2 < deep || i >= 2*shallow {
			a.nested(11)
		} else {
			a.pushInt(0)
		}
		a.op(neovm.SETITEM)
	}
	a.syscall(sysSerialize).syscall(sysNotify)
	return a.bytes()
}
