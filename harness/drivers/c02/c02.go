// Package c02: every node derives the same state from the same blocks.
//
// Differential driver. One generated history (funding block + blocks of native transfers signed with
// every key type and with canonical multi-signature scripts, contract deploys and invokes, NeoVM
// scripts building maps, EIP-155 transfers and creations, transactions the validator refuses) is
// executed by two nodes, each in its own process on its own fresh ledger created from the same
// genesis:
//
//	member: wire bytes -> TransactionFromRawBytes -> VerifyTransaction -> block -> ExecuteBlock (xN) -> SubmitBlock
//	syncer: block.ToArray() -> BlockFromRawBytes -> AddBlock(block, root announced by the member)
//	        (closing and reopening its ledger in the middle of the chain for half of the histories)
//
// and the oracle compares, per block: state merkle root (computed and stored), change hash, write
// set, every transaction's notification, ONT/ONG balances of all accounts involved; at the end the
// digests of the state, event and block stores. The member repeats ExecuteBlock (nothing is
// committed, so each repetition differs only in the runtime's map iteration orders).
//
// The three known order / signer dependences are probed deterministically on every run (see
// txgen.go: probeUnsortedMultisig, probeOntfsErrors, probeCycleDetector).
//
// Correspondence cases (Corr/C02.v): the whole chain's (write set, hash, root) sequence replayed by
// the model's run_chain with SHA-256 in Coq; per transaction the validator's and the decoder's signer
// lists and CheckWitness under both.
package c02

import (
	"encoding/json"
	"fmt"
	"path/filepath"
	"sort"
	"strings"
	"time"

	"github.com/ontio/ontology/common"
	"github.com/ontio/ontology/common/config"
	"github.com/ontio/ontology/core/signature"
	"github.com/ontio/ontology/core/types"
	"github.com/ontio/ontology/smartcontract"

	"verif/harness/hx"
)

func init() { hx.Register("C02", Run) }

const childTimeout = 120 * time.Second

// classOf maps an input kind to the failure class its differences are reported under.
func classOf(in *Input, what string) string {
	if strings.HasPrefix(in.Kind, "probe:") {
		return strings.TrimPrefix(in.Kind, "probe:")
	}
	return "diff:" + what
}

type outcome struct {
	member, syncer *ChildOut
	failed         bool
}

// runInputs executes the inputs on both kinds of node and applies the oracle to each. Node
// processes are shared between inputs (start-up of the linked node is several seconds): `par`
// member processes run side by side, each working through its share of the inputs on one fresh
// ledger per input; then `par` syncer processes do the same with the sealed blocks.
func runInputs(c *hx.Ctx, ins []*Input, base int, par int) []*outcome {
	outs := make([]*outcome, len(ins))
	for i := range outs {
		outs[i] = &outcome{}
	}
	fail := func(i int, what, clause string, got, want interface{}) {
		outs[i].failed = true
		c.Fail(classOf(ins[i], what), clause, ins[i], got, want)
	}
	dir := func(i int, role string) string { return filepath.Join(c.OutDir, fmt.Sprintf("n%d-%s", base+i, role)) }
	if par < 1 {
		par = 1
	}
	// the syncer processes are started now, so that they initialise while the members work
	var pre []*nodeProc
	for p := 0; p < par; p++ {
		if np, err := startNode(2 * childTimeout); err == nil {
			pre = append(pre, np)
		}
	}
	// phase 1: members
	mjobs := make([]*Job, len(ins))
	for i, in := range ins {
		mjobs[i] = &Job{Role: "member", Dir: dir(i, "member"), BookKey: in.BookKey, Blocks: in.Blocks, Repeat: in.Repeat, Track: in.Track, PreExec: in.PreExec}
	}
	mouts := runSharded(mjobs, par, nil)
	// phase 2: syncers, for the inputs whose member produced a chain
	var sjobs, rjobs []*Job
	var sidx, ridx []int
	for i, in := range ins {
		m := mouts[i]
		c.Eval()
		if m.Fatal != "" {
			fail(i, "member-crash", "the consensus-member node failed to execute the history", m.Fatal, nil)
			continue
		}
		outs[i].member = m
		if signersOracle(c, in, m) {
			outs[i].failed = true
		}
		var sealed []Sealed
		ok := true
		for bi, b := range m.Blocks {
			if b.AddErr != "" {
				fail(i, "member-rejects-own-block", fmt.Sprintf("member could not execute/submit its own block %d", bi+1), b.AddErr, nil)
				ok = false
				break
			}
			if len(b.Variants) > 0 {
				// same block, same state, same process: only the runtime's map orders differed
				fail(i, "maporder", fmt.Sprintf("repeated ExecuteBlock of block %d on the member gave different results", bi+1),
					diffExec(b.Exec, b.Variants[0]), "identical results")
			}
			if b.Stored != b.Exec.Root {
				fail(i, "stored-root", "stored state root differs from the executed one", b.Stored, b.Exec.Root)
			}
			sealed = append(sealed, Sealed{Raw: b.Raw, Root: b.Exec.Root})
		}
		if !ok {
			continue
		}
		first := sealed
		if p := in.ProcRestart; p > 0 && p < len(sealed) {
			// the node is restarted as a new process before block index p: the rest goes to phase 3
			first = sealed[:p]
			rjobs = append(rjobs, &Job{Role: "syncer", Dir: dir(i, "syncer"), BookKey: in.BookKey, Sealed: sealed[p:], Resume: true, Track: in.Track})
			ridx = append(ridx, len(sjobs))
		}
		sjobs = append(sjobs, &Job{Role: "syncer", Dir: dir(i, "syncer"), BookKey: in.BookKey, Sealed: first, Restart: in.Restart, Track: in.Track})
		sidx = append(sidx, i)
	}
	souts := runSharded(sjobs, par, pre)
	// phase 3: the restarted syncers, in processes of their own (started only now: they must not have
	// seen anything of the chain before)
	var run3 []*Job
	var run3at []int
	for k, j := range rjobs {
		if s := souts[ridx[k]]; s.Fatal == "" && (len(s.Blocks) == 0 || s.Blocks[len(s.Blocks)-1].AddErr == "") {
			run3 = append(run3, j)
			run3at = append(run3at, ridx[k])
		}
	}
	for k, r := range runSharded(run3, par, nil) {
		s := souts[run3at[k]]
		c.Eval()
		if r.Fatal != "" {
			s.Fatal = "restarted process: " + r.Fatal
			continue
		}
		s.Blocks = append(s.Blocks, r.Blocks...)
		s.Digests, s.TreeSize, s.Millis = r.Digests, r.TreeSize, s.Millis+r.Millis
	}
	for k, i := range sidx {
		m, s := mouts[i], souts[k]
		c.Eval()
		if s.Fatal != "" {
			fail(i, "syncer-crash", "the syncing node failed", s.Fatal, nil)
			continue
		}
		outs[i].syncer = s
		compare(ins[i], m, s, func(what, clause string, got, want interface{}) { fail(i, what, clause, got, want) }, &outs[i].failed)
	}
	return outs
}

// runSharded splits the jobs round-robin over par node processes running concurrently (processes
// started beforehand are used first).
func runSharded(jobs []*Job, par int, pre []*nodeProc) []*ChildOut {
	res := make([]*ChildOut, len(jobs))
	if par > len(jobs) {
		par = len(jobs)
	}
	for _, p := range pre[min(par, len(pre)):] {
		p.abandon()
	}
	if len(jobs) == 0 {
		return res
	}
	done := make(chan bool, par)
	for p := 0; p < par; p++ {
		go func(p int) {
			var mine []*Job
			var idx []int
			for i := p; i < len(jobs); i += par {
				mine = append(mine, jobs[i])
				idx = append(idx, i)
			}
			var outs []*ChildOut
			if p < len(pre) {
				var err error
				if outs, err = pre[p].finish(mine); err != nil || len(outs) != len(mine) {
					outs = nil
				}
			}
			if outs == nil {
				outs = runChildren(mine, childTimeout)
			}
			for k, i := range idx {
				res[i] = outs[k]
			}
			done <- true
		}(p)
	}
	for p := 0; p < par; p++ {
		<-done
	}
	return res
}

func min(a, b int) int {
	if a < b {
		return a
	}
	return b
}

func compare(in *Input, m, s *ChildOut, fail func(what, clause string, got, want interface{}), failed *bool) {
	if s.Leaf0 != m.Leaf0 {
		fail("genesis", "genesis state roots differ", s.Leaf0, m.Leaf0)
	}
	for i, mb := range m.Blocks {
		if i >= len(s.Blocks) {
			fail("syncer-short", fmt.Sprintf("syncing node stopped before block %d", i+1), len(s.Blocks), len(m.Blocks))
			break
		}
		sb := s.Blocks[i]
		if !sameExec(mb.Exec, sb.Exec) {
			fail("exec", fmt.Sprintf("block %d: the syncing node computes a different result than the member", i+1),
				diffExec(mb.Exec, sb.Exec), "identical ExecuteResult")
		}
		if sb.AddErr != "" {
			fail("syncer-rejects", fmt.Sprintf("block %d sealed by the member is rejected by the syncing node", i+1), sb.AddErr, "accepted")
			break
		}
		if sb.Stored != mb.Stored {
			fail("stored-root", fmt.Sprintf("block %d: stored state merkle roots differ", i+1), sb.Stored, mb.Stored)
		}
		if d := diffMap(mb.Balances, sb.Balances); d != "" {
			fail("balances", fmt.Sprintf("block %d: balances differ", i+1), d, "identical balances")
		}
	}
	if !*failed {
		// state and event stores must be identical; the block store of a node that was restarted
		// also holds the header-index batches written at start-up, so it is compared only otherwise
		stores := []string{"states", "ledgerevent"}
		if in.Restart == 0 && in.ProcRestart == 0 {
			stores = append(stores, "block")
		}
		for _, st := range stores {
			if m.Digests[st] != s.Digests[st] {
				fail("store-digest:"+st, "store contents differ after the same chain", s.Digests[st], m.Digests[st])
			}
		}
		if m.TreeSize != s.TreeSize {
			fail("state-tree", "state merkle trees differ", s.TreeSize, m.TreeSize)
		}
	}
}

func diffExec(a, b Exec) map[string]interface{} {
	d := map[string]interface{}{}
	if a.Err != b.Err {
		d["err"] = []string{a.Err, b.Err}
	}
	if a.Root != b.Root {
		d["root"] = []string{a.Root, b.Root}
	}
	if a.Hash != b.Hash {
		d["hash"] = []string{a.Hash, b.Hash}
	}
	if a.WSDigest != b.WSDigest {
		d["write_set"] = []string{fmt.Sprintf("%d entries %s", a.WSLen, a.WSDigest), fmt.Sprintf("%d entries %s", b.WSLen, b.WSDigest)}
	}
	for i := 0; i < len(a.Notify) && i < len(b.Notify); i++ {
		if a.Notify[i] != b.Notify[i] {
			d[fmt.Sprintf("notify[%d]", i)] = []string{a.Notify[i], b.Notify[i]}
			break
		}
	}
	if len(a.Notify) != len(b.Notify) {
		d["notify_count"] = []int{len(a.Notify), len(b.Notify)}
	}
	return d
}

func diffMap(a, b map[string]string) string {
	var ks []string
	for k := range a {
		ks = append(ks, k)
	}
	sort.Strings(ks)
	for _, k := range ks {
		if a[k] != b[k] {
			return fmt.Sprintf("%s: %s vs %s", k, a[k], b[k])
		}
	}
	if len(a) != len(b) {
		return "different key sets"
	}
	return ""
}

const classSignerList = "signers:validated-list-differs"

// signersOracle: for every offered transaction whose verification scripts are canonical (script hash =
// address of the parsed keys; everything the chain generator builds), the list the validator publishes
// in tx.SignedAddr must be, as a set, the accounts of the scripts and what GetSignatureAddresses
// derives from the decoded bytes, and, as a list, free of empty and duplicate entries. Reports the
// single transaction as a minimal input.
func signersOracle(c *hx.Ctx, in *Input, m *ChildOut) bool {
	bad := false
	specCanonical := map[string]bool{}
	for _, blk := range in.Blocks {
		for _, t := range blk {
			if strings.HasPrefix(t.Kind, "multisig-spec:") {
				specCanonical[t.Raw] = true
			}
		}
	}
	for _, b := range m.Blocks {
		for _, ts := range b.Signers {
			c.Eval()
			if !ts.Accepted {
				continue
			}
			tx, err := types.TransactionFromRawBytes(hx.UnHex(ts.Raw))
			if err != nil {
				continue
			}
			want := map[string]bool{}
			canonical := true
			if tx.IsEipTx() {
				want[tx.Payer.ToHexString()] = true
			} else {
				for _, rs := range tx.Sigs {
					sg, err := rs.GetSig()
					if err != nil {
						canonical = false
						break
					}
					var ka common.Address
					if len(sg.PubKeys) == 1 {
						ka = types.AddressFromPubKey(sg.PubKeys[0])
					} else if ka, err = types.AddressFromMultiPubKeys(sg.PubKeys, int(sg.M)); err != nil {
						canonical = false
						break
					}
					if ka != common.AddressFromVmCode(rs.Verify) {
						canonical = false
						break
					}
					want[ka.ToHexString()] = true
				}
			}
			if !canonical && specCanonical[ts.Raw] {
				// canonical by construction (written by the spec-level encoder of msgen.go), yet the tree's
				// own builder re-encodes the parsed keys to a different script: compare the two lists directly
				c.Count("signers-oracle:checked-spec-encoded")
				ms, ss := map[string]bool{}, map[string]bool{}
				for _, a := range ts.Member {
					ms[a] = true
				}
				for _, a := range ts.Syncer {
					ss[a] = true
				}
				same := len(ms) == len(ss)
				for a := range ms {
					same = same && ss[a]
				}
				if !same {
					bad = true
					min := &Input{Kind: "chain", BookKey: in.BookKey, Blocks: [][]TxSpec{{{Raw: ts.Raw, Kind: "signers-oracle"}}}, Repeat: 1, Track: in.Track}
					c.Fail(classSignerList, "standard (spec-encoded, sorted keys) witness scripts: the validator's signer list differs from the decoder's script hashes",
						min, map[string]interface{}{"validator": ts.Member, "decoder": ts.Syncer}, "the same accounts")
				}
				continue
			}
			if !canonical {
				c.Count("signers-oracle:skipped-noncanonical")
				continue
			}
			c.Count("signers-oracle:checked")
			problem := ""
			seen := map[string]bool{}
			for _, a := range ts.Member {
				switch {
				case a == common.ADDRESS_EMPTY.ToHexString():
					problem = "empty address in the validator's list"
				case seen[a]:
					problem = "duplicate entry in the validator's list"
				case !want[a]:
					problem = "validator lists an account no script belongs to: " + a
				}
				seen[a] = true
			}
			syn := map[string]bool{}
			for _, a := range ts.Syncer {
				syn[a] = true
			}
			for a := range want {
				if !seen[a] && problem == "" {
					problem = "validator's list misses signer " + a
				}
				if !syn[a] && problem == "" {
					problem = "decoder's list misses signer " + a
				}
			}
			for a := range syn {
				if !want[a] && problem == "" {
					problem = "decoder lists an account no script belongs to: " + a
				}
			}
			if problem == "" {
				continue
			}
			bad = true
			min := &Input{Kind: "chain", BookKey: in.BookKey, Blocks: [][]TxSpec{{{Raw: ts.Raw, Kind: "signers-oracle"}}}, Repeat: 1, Track: in.Track}
			c.Fail(classSignerList, "the signer list the validator publishes differs from the accounts of the (canonical) scripts / from the decoder's list: "+problem,
				min, map[string]interface{}{"validator": ts.Member, "decoder": ts.Syncer}, "one entry per signing account, no others")
		}
	}
	return bad
}

// ---- correspondence cases ----

func coqHex(h string) string { return hx.CoqBytes(hx.UnHex(h)) }

// Uint256.ToHexString prints the array reversed; the model works on the array bytes.
func coqU256(h string) string {
	b := hx.UnHex(h)
	for i, j := 0, len(b)-1; i < j; i, j = i+1, j-1 {
		b[i], b[j] = b[j], b[i]
	}
	return hx.CoqBytes(b)
}

var chainBytes int

// chainCase: (write set, hash, root) of every block as the member executed it.
func chainCase(c *hx.Ctx, in *Input, m *ChildOut) {
	var blocks []string
	bytesTotal := 0
	for _, b := range m.Blocks {
		var kvs []string
		for _, e := range b.WS {
			kvs = append(kvs, fmt.Sprintf("(%s, %s)", coqHex(e.K), coqHex(e.V)))
			bytesTotal += (len(e.K) + len(e.V)) / 2
		}
		blocks = append(blocks, fmt.Sprintf("(%s, %s, %s)", hx.CoqList(kvs), coqU256(b.Exec.Hash), coqU256(b.Exec.Root)))
	}
	// SHA-256 inside Coq costs ~0.3 ms per byte: a budget of write-set bytes per run
	if chainBytes+bytesTotal > c.N(24000, 400000) {
		c.Count("case:chain-skipped-budget")
		return
	}
	chainBytes += bytesTotal
	c.Case(fmt.Sprintf("(ChainCase %s %s)", coqU256(m.Leaf0), hx.CoqList(blocks)),
		map[string]interface{}{"kind": "chain", "blocks": len(m.Blocks), "write_set_bytes": bytesTotal})
	c.Count("case:chain")
}

// signersCases: for every offered transaction, what the validator and the bare decoder derive.
func signersCases(c *hx.Ctx, m *ChildOut, limit int) {
	n := 0
	for _, b := range m.Blocks {
		for _, ts := range b.Signers {
			if n >= limit {
				return
			}
			raw := hx.UnHex(ts.Raw)
			tx, err := types.TransactionFromRawBytes(raw)
			if err != nil {
				continue
			}
			eip := "None"
			var sigs []string
			var probes []common.Address
			if tx.IsEipTx() {
				eip = fmt.Sprintf("(Some %s)", hx.CoqBytes(tx.Payer[:]))
			} else {
				h := tx.Hash()
				bad := false
				for _, rs := range tx.Sigs {
					sg, err := rs.GetSig()
					if err != nil {
						bad = true
						break
					}
					scriptAddr := common.AddressFromVmCode(rs.Verify)
					var keyAddr common.Address
					ok := true
					mm, kn := int(sg.M), len(sg.PubKeys)
					if kn == 1 {
						keyAddr = types.AddressFromPubKey(sg.PubKeys[0])
						ok = len(sg.SigData) >= 1 && signature.Verify(sg.PubKeys[0], h[:], sg.SigData[0]) == nil
					} else {
						keyAddr, err = types.AddressFromMultiPubKeys(sg.PubKeys, mm)
						ok = err == nil && signature.VerifyMultiSignature(h[:], sg.PubKeys, mm, sg.SigData) == nil
					}
					sigs = append(sigs, fmt.Sprintf("(%s, %s, %s)", hx.CoqBytes(scriptAddr[:]), hx.CoqBytes(keyAddr[:]), hx.CoqBool(ok)))
					probes = append(probes, scriptAddr, keyAddr)
				}
				if bad {
					continue
				}
			}
			probes = append(probes, tx.Payer, common.ADDRESS_EMPTY)
			// CheckWitness on the real SmartContract under both roles
			memberTx, _ := types.TransactionFromRawBytes(raw)
			memberGot := "None"
			if ts.Accepted {
				var l []common.Address
				for _, a := range ts.Member {
					x, _ := common.AddressFromHexString(a)
					l = append(l, x)
				}
				memberTx.SignedAddr = l
				memberGot = fmt.Sprintf("(Some %s)", coqAddrsRaw(l))
			}
			syncTx, _ := types.TransactionFromRawBytes(raw)
			var ps []string
			for _, a := range probes {
				mw := false
				if ts.Accepted {
					mw = (&smartcontract.SmartContract{Config: &smartcontract.Config{Tx: memberTx}}).CheckWitness(a)
				}
				sw := (&smartcontract.SmartContract{Config: &smartcontract.Config{Tx: syncTx}}).CheckWitness(a)
				ps = append(ps, fmt.Sprintf("(%s, %s, %s)", hx.CoqBytes(a[:]), hx.CoqBool(mw), hx.CoqBool(sw)))
				c.Eval()
			}
			var syn []common.Address
			for _, a := range ts.Syncer {
				x, _ := common.AddressFromHexString(a)
				syn = append(syn, x)
			}
			c.Case(fmt.Sprintf("(SignersCase %s %s %s %s %s %s)", eip, hx.CoqBytes(tx.Payer[:]), hx.CoqList(sigs), memberGot,
				coqAddrsRaw(syn), hx.CoqList(ps)),
				map[string]interface{}{"kind": "signers", "raw": ts.Raw, "accepted": ts.Accepted})
			c.Count("case:signers")
			c.Count(fmt.Sprintf("signers:sigsets=%d", len(tx.Sigs)))
			c.Nontrivial(fmt.Sprintf("signers/%v/%d/%v", tx.IsEipTx(), len(tx.Sigs), ts.Accepted))
			n++
		}
	}
}

func coqAddrsRaw(l []common.Address) string {
	var s []string
	for _, a := range l {
		s = append(s, hx.CoqBytes(a[:]))
	}
	return hx.CoqList(s)
}

func Run(c *hx.Ctx) {
	c.CoqModule("Corr.C02")
	config.DefConfig.P2PNode.NetworkId = config.NETWORK_ID_SOLO_NET // what ledgerkit.ConfigureSolo sets in the node processes

	// 1. replay
	var rin Input
	if c.ReplayInput(&rin) {
		runInputs(c, []*Input{&rin}, 0, 1)
		return
	}
	var ins []*Input
	// 2. corpus
	for _, raw := range c.CorpusInputs() {
		in := &Input{}
		if json.Unmarshal(raw, in) == nil && len(in.Blocks) > 0 {
			ins = append(ins, in)
			c.Count("corpus")
		}
	}
	nCorpus := len(ins)
	// 3. deterministic probes of the known findings (one fresh key set each)
	for _, mk := range []func(*txGen) *Input{
		func(g *txGen) *Input { return g.probeUnsortedMultisig() },
		func(g *txGen) *Input { return g.probeOntfsErrors(8) },
		func(g *txGen) *Input { return g.probeCycleDetector() },
		func(g *txGen) *Input { return g.probeStaleGasParam() },
	} {
		ins = append(ins, mk(newGen(c.Rng, c.Count)))
	}
	nProbes := len(ins) - nCorpus
	// 4. generated histories
	nChains := c.N(8, 60)
	for i := 0; i < nChains; i++ {
		g := newGen(c.Rng, c.Count)
		in := g.chain(c.N(5, 8), c.N(7, 10))
		if i%2 == 1 {
			in.Repeat = 1
		}
		if i%4 == 3 && in.Restart > 0 { // a real process restart instead of close/reopen
			in.ProcRestart, in.Restart = in.Restart, 0
		}
		ins = append(ins, in)
	}
	// 5. parameter change + process restart
	for i := 0; i < c.N(1, 6); i++ {
		ins = append(ins, newGen(c.Rng, c.Count).paramRestartChain())
	}
	// 6. EVM reads of memory the frame never wrote: polluters before a process restart / in pre-executions
	for i := 0; i < c.N(1, 4); i++ {
		ins = append(ins, newGen(c.Rng, c.Count).evmMemoryChain(false), newGen(c.Rng, c.Count).evmMemoryChain(true))
	}
	// 7. standard m-of-n witnesses (n up to 16) written by an encoder independent of core/program
	for i := 0; i < c.N(1, 3); i++ {
		ins = append(ins, newGen(c.Rng, c.Count).multisigChain())
	}
	outs := runInputs(c, ins, 0, c.N(2, 4))
	ms := int64(0)
	for i, in := range ins {
		o := outs[i]
		c.Count("input:" + in.Kind)
		if o.member != nil {
			ms += o.member.Millis
		}
		if o.syncer != nil {
			ms += o.syncer.Millis
		}
		if i < nCorpus {
			continue
		}
		if i < nCorpus+nProbes {
			switch {
			case strings.HasPrefix(in.Kind, "probe:regression:"):
				// a repaired defect: a difference here is an unlisted class (VIOLATION)
				if !o.failed {
					c.Count("regression-probe-holds:" + in.Kind)
				}
			case o.failed:
				c.Count("probe-exhibited:" + in.Kind)
			default:
				c.Note("probe " + in.Kind + " did not exhibit a difference on this run")
			}
			if o.member != nil {
				signersCases(c, o.member, 4)
				chainCase(c, in, o.member)
			}
			continue
		}
		if in.Restart > 0 {
			c.Count("input:syncer-restarts")
		}
		if in.ProcRestart > 0 {
			c.Count("input:syncer-restarts-as-new-process")
		}
		if len(in.PreExec) > 0 && o.member != nil {
			c.Count("input:member-serves-pre-executions")
			for k := 0; k < o.member.PreExecs; k++ {
				c.Count("pre-executed-tx")
			}
		}
		if o.member == nil {
			continue
		}
		nTx, nRej, nFailTx := 0, 0, 0
		kindOf := map[string]string{}
		for _, blk := range in.Blocks {
			for _, t := range blk {
				if tx, err := types.TransactionFromRawBytes(hx.UnHex(t.Raw)); err == nil {
					h := tx.Hash()
					kindOf[h.ToHexString()] = t.Kind
				}
			}
		}
		for bi, b := range o.member.Blocks {
			nRej += len(b.Rejected)
			for _, n := range b.Exec.Notify {
				nTx++
				var nv struct {
					Tx    string `json:"tx"`
					State byte   `json:"state"`
				}
				json.Unmarshal([]byte(n), &nv)
				if nv.State == 0 {
					nFailTx++
					c.Count("outcome:failed:" + kindOf[nv.Tx])
				} else {
					c.Count("outcome:ok:" + kindOf[nv.Tx])
				}
			}
			c.Nontrivial(fmt.Sprintf("chain%d/block%d/%s", i, bi, b.Exec.Hash))
		}
		c.Count(fmt.Sprintf("chain:blocks=%d", len(o.member.Blocks)))
		for k := 0; k < nTx; k++ {
			c.Count("executed-tx")
		}
		for k := 0; k < nFailTx; k++ {
			c.Count("executed-tx:failed-in-contract")
		}
		for k := 0; k < nRej; k++ {
			c.Count("offered-tx:refused-by-validator")
		}
		if i == nCorpus+nProbes && len(o.member.Blocks) > 1 {
			b := o.member.Blocks[1]
			c.Sample(map[string]interface{}{"height": b.Height, "root": b.Exec.Root, "hash": b.Exec.Hash,
				"write_set_entries": b.Exec.WSLen, "notifications": len(b.Exec.Notify), "refused": b.Rejected})
		}
		// the model re-computes the member's chain whether or not the nodes agreed
		chainCase(c, in, o.member)
		signersCases(c, o.member, c.N(60, 200))
	}
	c.Note(fmt.Sprintf("node time (ledger work inside the node processes): %d ms for %d inputs", ms, len(ins)))
}
