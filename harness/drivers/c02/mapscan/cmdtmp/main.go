package main

import (
	"fmt"
	"os"

	"verif/harness/drivers/c02"
)

func main() {
	b, errs := c02.MapRangesProducer(os.Args[1])
	os.WriteFile(os.Args[2], b, 0o644)
	fmt.Println(errs)
}
