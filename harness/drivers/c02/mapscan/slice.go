package mapscan

import (
	"crypto/sha256"
	"encoding/hex"
	"go/ast"
	"go/token"
	"go/types"
	"os"
	"strings"
)

// sliceDigest is the digest of what a site's classification depends on inside its function:
//
//	unit  - the range statement (or the statement containing the sync.Map.Range call) with its body;
//	        when the site sits inside another loop or inside a function literal, the outermost such
//	        loop / the statement holding the literal instead (loop-carried and captured state);
//	heads - the conditions (if / switch / case) under which the unit runs;
//	pre   - statements before the unit that mention a variable the unit mentions (definitions,
//	        aliases: an assignment whose right-hand side mentions one taints its left-hand side);
//	post  - the forward slice: walking the statements after the unit in program order (rest of the
//	        innermost block, then of each enclosing block), a statement that mentions a tainted
//	        variable is included and every variable it mentions becomes tainted.
//
// Variables are followed by NAME (shadowing only adds statements), through the base identifier
// of selectors (x.f.g -> x); package names, functions, types and constants are not carriers.
// Conservative fallbacks to the digest of the whole function: named results (a bare return carries
// values without naming them), defer, go, labels/goto.
// Stated limit: a loop product that leaves the loop only through package-level state which neither
// the unit nor a tainted statement names (callee writes a global, a later callee reads it) is not
// followed; neither digest looks into callees.
func (l *loader) sliceDigest(info *types.Info, fd *ast.FuncDecl, stack []ast.Node, site ast.Node) string {
	if needsWholeFunc(fd) {
		return l.digest(fd)
	}
	// stack: ancestors of site, outermost (fd.Body) first, site itself last
	unitIdx := -1
	for i, n := range stack {
		switch n.(type) {
		case *ast.ForStmt, *ast.RangeStmt:
			if i < len(stack)-1 || n == site {
				unitIdx = i
			}
		case *ast.FuncLit:
			// the innermost statement above the literal
			for j := i - 1; j >= 0; j-- {
				if _, ok := stack[j].(ast.Stmt); ok {
					if _, isBlock := stack[j].(*ast.BlockStmt); !isBlock {
						unitIdx = j
						break
					}
				}
			}
		}
		if unitIdx >= 0 {
			break
		}
	}
	if unitIdx < 0 {
		for j := len(stack) - 1; j >= 0; j-- {
			if _, ok := stack[j].(ast.Stmt); ok {
				if _, isBlock := stack[j].(*ast.BlockStmt); !isBlock {
					unitIdx = j
					break
				}
			}
		}
	}
	if unitIdx < 0 {
		return l.digest(fd)
	}
	unit := stack[unitIdx]
	taint := map[string]bool{}
	l.addVars(info, unit, taint)

	var heads, pre, post []string
	// enclosing statement lists, outermost first: (list, index of the child on the path)
	type level struct {
		list []ast.Stmt
		at   int
	}
	var levels []level
	for i := 0; i < unitIdx; i++ {
		var list []ast.Stmt
		switch b := stack[i].(type) {
		case *ast.BlockStmt:
			list = b.List
		case *ast.CaseClause:
			list = b.Body
			for _, e := range b.List {
				heads = append(heads, "case "+l.text(e))
			}
		case *ast.CommClause:
			list = b.Body
			if b.Comm != nil {
				heads = append(heads, "comm "+l.text(b.Comm))
			}
		case *ast.IfStmt:
			if b.Init != nil {
				heads = append(heads, "if-init "+l.text(b.Init))
			}
			heads = append(heads, "if "+l.text(b.Cond))
			if i+1 <= unitIdx && b.Else != nil && stack[i+1] == b.Else {
				heads = append(heads, "else")
			}
		case *ast.SwitchStmt:
			if b.Init != nil {
				heads = append(heads, "switch-init "+l.text(b.Init))
			}
			if b.Tag != nil {
				heads = append(heads, "switch "+l.text(b.Tag))
			}
		case *ast.TypeSwitchStmt:
			heads = append(heads, "typeswitch "+l.text(b.Assign))
		}
		if list == nil {
			continue
		}
		for k, s := range list {
			if ast.Node(s) == stack[i+1] {
				levels = append(levels, level{list, k})
				break
			}
		}
	}
	// pre: program order = outermost block first
	for _, lv := range levels {
		for _, s := range lv.list[:lv.at] {
			if !l.mentions(info, s, taint) {
				continue
			}
			pre = append(pre, l.text(s))
			l.preTaint(info, s, taint)
		}
	}
	// post: innermost block first
	for i := len(levels) - 1; i >= 0; i-- {
		lv := levels[i]
		for _, s := range lv.list[lv.at+1:] {
			if !l.mentions(info, s, taint) {
				continue
			}
			post = append(post, l.text(s))
			l.addVars(info, s, taint)
		}
	}
	text := "UNIT " + l.text(unit) + "\nHEADS " + strings.Join(heads, "\n") + "\nPRE " + strings.Join(pre, "\n") +
		"\nPOST " + strings.Join(post, "\n")
	h := sha256.Sum256([]byte(text))
	if dump := os.Getenv("VERIF_C02_SLICEDUMP"); dump != "" { // review aid: the slice texts, one block per site
		if f, err := os.OpenFile(dump, os.O_APPEND|os.O_CREATE|os.O_WRONLY, 0o644); err == nil {
			f.WriteString("=== " + funcName(fd) + " " + hex.EncodeToString(h[:6]) + "\n" + text + "\n")
			f.Close()
		}
	}
	return hex.EncodeToString(h[:6])
}

func needsWholeFunc(fd *ast.FuncDecl) bool {
	if fd.Type.Results != nil {
		for _, f := range fd.Type.Results.List {
			if len(f.Names) > 0 {
				return true
			}
		}
	}
	whole := false
	ast.Inspect(fd.Body, func(n ast.Node) bool {
		switch x := n.(type) {
		case *ast.DeferStmt, *ast.GoStmt, *ast.LabeledStmt:
			whole = true
		case *ast.BranchStmt:
			if x.Tok == token.GOTO || x.Label != nil {
				whole = true
			}
		}
		return !whole
	})
	return whole
}

// varNames: names of the variables (locals, parameters, receivers, package variables, fields used as
// composite keys, and identifiers the tolerant type-check could not resolve) mentioned in n, taking
// only the base of a selector chain.
func (l *loader) varNames(info *types.Info, n ast.Node, f func(string)) {
	var walk func(ast.Node)
	walk = func(n ast.Node) {
		ast.Inspect(n, func(m ast.Node) bool {
			switch x := m.(type) {
			case *ast.SelectorExpr:
				walk(x.X) // not x.Sel
				return false
			case *ast.Ident:
				if x.Name == "_" {
					return true
				}
				obj := info.Uses[x]
				if obj == nil {
					obj = info.Defs[x]
				}
				switch o := obj.(type) {
				case nil:
					if types.Universe.Lookup(x.Name) == nil {
						f(x.Name) // unresolved: may be a variable
					}
				case *types.Var:
					_ = o
					f(x.Name)
				}
			}
			return true
		})
	}
	walk(n)
}

func (l *loader) addVars(info *types.Info, n ast.Node, set map[string]bool) {
	l.varNames(info, n, func(s string) { set[s] = true })
}

func (l *loader) mentions(info *types.Info, n ast.Node, set map[string]bool) bool {
	hit := false
	l.varNames(info, n, func(s string) {
		if set[s] {
			hit = true
		}
	})
	return hit
}

// preTaint: a statement before the unit that mentions a tainted variable. A plain definition or
// assignment OF a tainted variable (tainted names on the left only) taints nothing more; an assignment
// whose right-hand side mentions one taints its left-hand side (alias, capture); any other statement
// taints everything it mentions.
func (l *loader) preTaint(info *types.Info, s ast.Stmt, taint map[string]bool) {
	switch x := s.(type) {
	case *ast.AssignStmt:
		rhs := false
		for _, e := range x.Rhs {
			rhs = rhs || l.mentions(info, e, taint)
		}
		if rhs {
			for _, e := range x.Lhs {
				l.addVars(info, e, taint)
			}
		}
	case *ast.DeclStmt:
		gd, ok := x.Decl.(*ast.GenDecl)
		if !ok {
			l.addVars(info, s, taint)
			return
		}
		for _, sp := range gd.Specs {
			vs, ok := sp.(*ast.ValueSpec)
			if !ok {
				continue
			}
			rhs := false
			for _, e := range vs.Values {
				rhs = rhs || l.mentions(info, e, taint)
			}
			if rhs {
				for _, id := range vs.Names {
					taint[id.Name] = true
				}
			}
		}
	default:
		l.addVars(info, s, taint)
	}
}
