package mapscan

import (
	"go/ast"
	"go/token"
	"go/types"
	"path/filepath"
	"sort"
	"strings"
)

// Global is one package-level variable of a scanned package that is written from a function body
// (other than `init`) of a scanned package: process-global mutable state on the execution path.
// Whatever such a variable caches outlives the block and the ledger instance, and is empty again in
// a restarted process - results that depend on it depend on how long the process has been running.
type Global struct {
	Pkg     string // directory of the declaring package, relative to the repo root
	Name    string
	Kind    string // map | slice | array | sync.Map | atomic | pointer | struct | basic | interface | other
	Writers string // sorted, ";"-joined "pkgdir.Func:how" of the writing sites (how: assign | index | field | incdec | addr | delete | method:<Name>)
}

// how a package-level variable can be written, as far as syntax shows it:
//
//	g = v, g[i] = v, g.f = v, *g = v, g++            assign / index / field / incdec
//	&g, &g[i], &g.f                                   addr   (e.g. atomic.StoreUint64(&g[i], v))
//	delete(g, k)                                      delete
//	g.M(..) with a pointer-receiver or unresolved M   method:M (sync.Map.Store, atomic.Value.Store, cache.Add, ...)
//
// Not followed (stated limit): a global passed by value as an argument and written by the callee
// through the shared backing store (slices, maps, pointers), and writes through an alias taken in
// another function (`addr` is reported where the alias is created).
func (l *loader) scanGlobals(rels []string) []Global {
	type key struct{ pkg, name string }
	writers := map[key]map[string]bool{}
	kinds := map[key]string{}
	for _, rel := range rels {
		info := l.infos[rel]
		if info == nil {
			continue
		}
		// the package-level variable an expression is rooted at, if any
		var rootVar func(e ast.Expr) (*types.Var, string)
		rootVar = func(e ast.Expr) (*types.Var, string) {
			switch x := e.(type) {
			case *ast.ParenExpr:
				return rootVar(x.X)
			case *ast.StarExpr:
				v, _ := rootVar(x.X)
				return v, "assign"
			case *ast.IndexExpr:
				v, _ := rootVar(x.X)
				return v, "index"
			case *ast.SliceExpr:
				v, _ := rootVar(x.X)
				return v, "index"
			case *ast.Ident:
				if v, ok := info.Uses[x].(*types.Var); ok && isPkgLevel(v) {
					return v, "assign"
				}
			case *ast.SelectorExpr:
				// pkg.Var ?
				if v, ok := info.Uses[x.Sel].(*types.Var); ok && isPkgLevel(v) {
					return v, "assign"
				}
				v, _ := rootVar(x.X)
				return v, "field"
			}
			return nil, ""
		}
		for _, f := range l.files[rel] {
			for _, d := range f.Decls {
				fd, ok := d.(*ast.FuncDecl)
				if !ok || fd.Body == nil || (fd.Recv == nil && fd.Name.Name == "init") {
					continue
				}
				fn := rel + "." + funcName(fd)
				note := func(v *types.Var, how string) {
					if v == nil || v.Pkg() == nil || !strings.HasPrefix(v.Pkg().Path(), ModulePath) {
						return
					}
					k := key{strings.TrimPrefix(strings.TrimPrefix(v.Pkg().Path(), ModulePath), "/"), v.Name()}
					if isMutex(v.Type()) {
						return // locking is not state
					}
					if writers[k] == nil {
						writers[k] = map[string]bool{}
						kinds[k] = kindOf(v.Type())
					}
					writers[k][fn+":"+how] = true
				}
				ast.Inspect(fd.Body, func(n ast.Node) bool {
					switch x := n.(type) {
					case *ast.AssignStmt:
						if x.Tok == token.DEFINE {
							return true
						}
						for _, lhs := range x.Lhs {
							v, how := rootVar(lhs)
							note(v, how)
						}
					case *ast.IncDecStmt:
						v, _ := rootVar(x.X)
						note(v, "incdec")
					case *ast.UnaryExpr:
						if x.Op == token.AND {
							v, _ := rootVar(x.X)
							note(v, "addr")
						}
					case *ast.CallExpr:
						if id, ok := x.Fun.(*ast.Ident); ok && id.Name == "delete" && len(x.Args) == 2 {
							v, _ := rootVar(x.Args[0])
							note(v, "delete")
						}
						if se, ok := x.Fun.(*ast.SelectorExpr); ok {
							if v, _ := rootVar(se.X); v != nil {
								if _, isPkgVar := info.Uses[se.Sel].(*types.Var); !isPkgVar && mayMutate(info, se) {
									note(v, "method:"+se.Sel.Name)
								}
							}
						}
					}
					return true
				})
			}
		}
	}
	var out []Global
	for k, ws := range writers {
		var l []string
		for w := range ws {
			l = append(l, w)
		}
		sort.Strings(l)
		out = append(out, Global{Pkg: filepath.ToSlash(k.pkg), Name: k.name, Kind: kinds[k], Writers: strings.Join(l, ";")})
	}
	sort.Slice(out, func(i, j int) bool {
		if out[i].Pkg != out[j].Pkg {
			return out[i].Pkg < out[j].Pkg
		}
		return out[i].Name < out[j].Name
	})
	return out
}

func isPkgLevel(v *types.Var) bool {
	return v != nil && !v.IsField() && v.Pkg() != nil && v.Parent() == v.Pkg().Scope()
}

// mayMutate: a method call that can change its receiver: pointer receiver, or a method the tolerant
// type-check could not resolve. Value-receiver methods and interface methods of resolved types are
// left out only when they are resolved as such.
func mayMutate(info *types.Info, se *ast.SelectorExpr) bool {
	sel := info.Selections[se]
	if sel == nil {
		return true // unresolved
	}
	fn, ok := sel.Obj().(*types.Func)
	if !ok {
		return false // field access that is called (func-typed field)
	}
	sig, ok := fn.Type().(*types.Signature)
	if !ok || sig.Recv() == nil {
		return true
	}
	switch sig.Recv().Type().Underlying().(type) {
	case *types.Pointer:
		return !readOnlyName(fn.Name())
	case *types.Interface:
		return !readOnlyName(fn.Name())
	}
	return false
}

// method names that by convention (and in sync.Map / atomic / lru / the repo's own types) only read
func readOnlyName(n string) bool {
	for _, p := range []string{"Load", "Get", "Range", "Len", "String", "Has", "Contains", "Peek", "Keys", "Is", "To", "Hash", "Bytes", "Serializ", "Cmp", "Equal", "BigInt", "Less", "Greater"} {
		if strings.HasPrefix(n, p) && n != "LoadOrStore" && n != "LoadAndDelete" && n != "GetOrAdd" {
			return true
		}
	}
	return false
}

func isMutex(t types.Type) bool {
	if p, ok := t.(*types.Pointer); ok {
		t = p.Elem()
	}
	n, ok := t.(*types.Named)
	return ok && n.Obj() != nil && n.Obj().Pkg() != nil && n.Obj().Pkg().Path() == "sync" &&
		(n.Obj().Name() == "Mutex" || n.Obj().Name() == "RWMutex")
}

func kindOf(t types.Type) string {
	if t == nil {
		return "other"
	}
	if isSyncMap(t) {
		return "sync.Map"
	}
	tt := t
	if p, ok := tt.(*types.Pointer); ok {
		tt = p.Elem()
	}
	if n, ok := tt.(*types.Named); ok && n.Obj() != nil && n.Obj().Pkg() != nil && n.Obj().Pkg().Path() == "sync/atomic" {
		return "atomic"
	}
	switch t.Underlying().(type) {
	case *types.Map:
		return "map"
	case *types.Slice:
		return "slice"
	case *types.Array:
		return "array"
	case *types.Pointer:
		return "pointer"
	case *types.Struct:
		return "struct"
	case *types.Basic:
		return "basic"
	case *types.Interface:
		return "interface"
	}
	return "other"
}
