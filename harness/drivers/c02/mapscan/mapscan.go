// Package mapscan enumerates, with go/parser + go/types, every place in a set of package
// directories of the ontology source tree where iteration order is chosen by the Go runtime:
//
//   - `for ... := range X` where X has a map type,
//   - `X.Range(f)` where X is a sync.Map,
//
// and every use of the transaction's signer list (GetSignatureAddresses / SignedAddr).
//
// Type information: the packages of the module under scan are type-checked from source
// (recursively, through a memoising importer); the standard library is imported from source
// by go/importer ("source"); every other import path (go-ethereum, ontology-crypto, leveldb, ...)
// is replaced by an empty package, and type errors are tolerated.  Consequence (stated limit):
// an expression whose type comes from a third-party package has no type here.  Such `range`
// operands are NOT dropped: they are reported with kind "untyped" unless their syntactic form
// proves they are not maps (range over a call to a known slice-returning function is not
// attempted) -- the committed classification must cover them as well, so the scan errs on the
// side of listing too much.
package mapscan

import (
	"bytes"
	"crypto/sha256"
	"encoding/hex"
	"fmt"
	"go/ast"
	"go/build"
	"go/importer"
	"go/parser"
	"go/printer"
	"go/token"
	"go/types"
	"os"
	"path/filepath"
	"sort"
	"strings"
	"time"
)

// StdTime accumulates the time spent importing the standard library from source (diagnostic).
var StdTime time.Duration

const ModulePath = "github.com/ontio/ontology"

// Site is one order-sensitive iteration site.
type Site struct {
	File   string // path relative to the repo root
	Func   string // enclosing function: Name, (T).Name or (*T).Name; closures get the outer name
	ID     string // line-independent id: "<kind> <operand text>#<k>", k = occurrence index inside Func
	Kind   string // map | syncmap | untyped
	Digest string // first 12 hex digits of sha256 of the site's slice of its function (slice.go; comments dropped)
	Line   int    // informational only; not emitted into Coq
}

// Use is one use of the signer list.
type Use struct {
	File string
	Func string
	What string // GetSignatureAddresses | SignedAddr
	N    int    // number of occurrences in Func
}

type Result struct {
	Sites  []Site
	Uses   []Use
	Errors []string // fail-closed problems: directory unreadable, parse error
	Pkgs   int
	Files  int
	// TypeErrs counts tolerated type errors (third-party imports are faked)
	TypeErrs int
	Globals  []Global // package-level variables written from function bodies (globals.go)
}

type loader struct {
	repo    string
	fset    *token.FileSet
	std     types.Importer
	pkgs    map[string]*types.Package
	infos   map[string]*types.Info
	files   map[string][]*ast.File
	busy    map[string]bool
	errs    []string
	tyErrs  int
	ctx     build.Context
	stdMemo map[string]*types.Package
	full    map[string]bool // directories whose function bodies are type-checked (the scan targets)
}

func newLoader(repo string) *loader {
	fset := token.NewFileSet()
	ctx := build.Default
	ctx.CgoEnabled = true
	ctx.BuildTags = nil
	return &loader{repo: repo, fset: fset, std: importer.ForCompiler(fset, "source", nil),
		pkgs: map[string]*types.Package{}, infos: map[string]*types.Info{}, files: map[string][]*ast.File{},
		busy: map[string]bool{}, ctx: ctx, full: map[string]bool{}, stdMemo: map[string]*types.Package{}}
}

func isStd(path string) bool {
	first := path
	if i := strings.IndexByte(path, '/'); i >= 0 {
		first = path[:i]
	}
	return !strings.Contains(first, ".")
}

func (l *loader) Import(path string) (*types.Package, error) {
	if path == "C" || path == "unsafe" {
		return types.Unsafe, nil
	}
	if path == ModulePath || strings.HasPrefix(path, ModulePath+"/") {
		rel := strings.TrimPrefix(strings.TrimPrefix(path, ModulePath), "/")
		if p := l.load(rel); p != nil {
			return p, nil
		}
		return fake(path), nil
	}
	if isStd(path) && !heavyStd(path) {
		if p, ok := l.stdMemo[path]; ok {
			return p, nil
		}
		t0 := time.Now()
		p, err := l.std.Import(path)
		StdTime += time.Since(t0)
		if err == nil {
			l.stdMemo[path] = p
			return p, nil
		}
	}
	return fake(path), nil
}

// heavyStd: standard-library packages whose (large) import closure is not needed to decide
// whether a range operand is a map: they are replaced by empty packages like third-party imports
// (an operand typed by one of them is then reported as "untyped", never dropped).
func heavyStd(path string) bool {
	for _, p := range []string{"fmt", "os", "net", "crypto", "log", "encoding/json", "reflect", "runtime", "testing",
		"database", "html", "text", "path", "io/ioutil", "compress", "archive", "debug", "go", "syscall", "regexp", "bufio", "flag"} {
		if path == p || strings.HasPrefix(path, p+"/") {
			return true
		}
	}
	return false
}

var fakes = map[string]*types.Package{}

func fake(path string) *types.Package {
	if p, ok := fakes[path]; ok {
		return p
	}
	name := path[strings.LastIndexByte(path, '/')+1:]
	if strings.HasPrefix(name, "v") && len(name) <= 3 { // .../v2
		rest := path[:strings.LastIndexByte(path, '/')]
		name = rest[strings.LastIndexByte(rest, '/')+1:]
	}
	name = strings.TrimPrefix(name, "go-")
	name = strings.ReplaceAll(name, "-", "_")
	p := types.NewPackage(path, name)
	p.MarkComplete()
	fakes[path] = p
	return p
}

// load parses and type-checks the package in directory rel (relative to the repo root).
func (l *loader) load(rel string) *types.Package {
	if p, ok := l.pkgs[rel]; ok {
		return p
	}
	if l.busy[rel] {
		return nil
	}
	l.busy[rel] = true
	defer delete(l.busy, rel)
	dir := filepath.Join(l.repo, rel)
	ents, err := os.ReadDir(dir)
	if err != nil {
		l.errs = append(l.errs, "read "+rel+": "+err.Error())
		l.pkgs[rel] = nil
		return nil
	}
	var files []*ast.File
	pkgName := ""
	for _, e := range ents {
		n := e.Name()
		if e.IsDir() || !strings.HasSuffix(n, ".go") || strings.HasSuffix(n, "_test.go") {
			continue
		}
		if ok, err := l.ctx.MatchFile(dir, n); err != nil || !ok {
			continue
		}
		f, err := parser.ParseFile(l.fset, filepath.Join(dir, n), nil, parser.SkipObjectResolution)
		if err != nil {
			l.errs = append(l.errs, "parse "+filepath.Join(rel, n)+": "+err.Error())
			continue
		}
		if pkgName == "" {
			pkgName = f.Name.Name
		}
		if f.Name.Name != pkgName {
			continue
		}
		files = append(files, f)
	}
	if len(files) == 0 {
		l.pkgs[rel] = nil
		return nil
	}
	info := &types.Info{Types: map[ast.Expr]types.TypeAndValue{}, Selections: map[*ast.SelectorExpr]*types.Selection{},
		Uses: map[*ast.Ident]types.Object{}, Defs: map[*ast.Ident]types.Object{}}
	conf := types.Config{Importer: l, FakeImportC: true, Error: func(error) { l.tyErrs++ }, IgnoreFuncBodies: !l.full[rel]}
	path := ModulePath
	if rel != "" {
		path += "/" + filepath.ToSlash(rel)
	}
	p, _ := conf.Check(path, l.fset, files, info)
	l.pkgs[rel] = p
	l.infos[rel] = info
	l.files[rel] = files
	return p
}

func funcName(fd *ast.FuncDecl) string {
	if fd.Recv == nil || len(fd.Recv.List) == 0 {
		return fd.Name.Name
	}
	var b bytes.Buffer
	printer.Fprint(&b, token.NewFileSet(), fd.Recv.List[0].Type)
	return "(" + b.String() + ")." + fd.Name.Name
}

func (l *loader) text(n ast.Node) string {
	var b bytes.Buffer
	(&printer.Config{Mode: printer.RawFormat}).Fprint(&b, l.fset, n)
	return strings.Join(strings.Fields(b.String()), " ")
}

// digest of a statement: printed without comments (the AST nodes are printed from a file parsed
// without ParseComments, so comments never reach the printer), whitespace-normalised.
func (l *loader) digest(n ast.Node) string {
	h := sha256.Sum256([]byte(l.text(n)))
	return hex.EncodeToString(h[:6])
}

func isSyncMap(t types.Type) bool {
	if t == nil {
		return false
	}
	if p, ok := t.(*types.Pointer); ok {
		t = p.Elem()
	}
	n, ok := t.(*types.Named)
	if !ok || n.Obj() == nil || n.Obj().Pkg() == nil {
		return false
	}
	return n.Obj().Pkg().Path() == "sync" && n.Obj().Name() == "Map"
}

// notMapSyntactically: operand forms that cannot be a map whatever their (unknown) type is.
func notMapSyntactically(e ast.Expr) bool {
	switch x := e.(type) {
	case *ast.BasicLit:
		return true
	case *ast.SliceExpr:
		return true
	case *ast.CompositeLit:
		_, isMap := x.Type.(*ast.MapType)
		return !isMap && x.Type != nil
	case *ast.ParenExpr:
		return notMapSyntactically(x.X)
	}
	return false
}

func (l *loader) scanPkg(rel string, only map[string]bool, res *Result) {
	info := l.infos[rel]
	for _, f := range l.files[rel] {
		fname := filepath.ToSlash(strings.TrimPrefix(l.fset.File(f.Pos()).Name(), l.repo+string(filepath.Separator)))
		if only != nil && !only[filepath.Base(fname)] {
			continue
		}
		res.Files++
		for _, d := range f.Decls {
			fd, ok := d.(*ast.FuncDecl)
			if !ok || fd.Body == nil {
				continue
			}
			fn := funcName(fd)
			// the digest covers what the classification depends on inside the function (slice.go):
			// the loop, the conditions it runs under, and the statements that feed or consume the
			// variables it touches; whole function when that slice cannot be taken safely
			var stack []ast.Node
			siteDigest := func(site ast.Node) string {
				return l.sliceDigest(info, fd, append([]ast.Node{}, stack...), site)
			}
			occ := map[string]int{}
			uses := map[string]int{}
			ast.Inspect(fd.Body, func(n ast.Node) bool {
				if n == nil {
					stack = stack[:len(stack)-1]
					return true
				}
				stack = append(stack, n)
				switch x := n.(type) {
				case *ast.RangeStmt:
					t := info.TypeOf(x.X)
					kind := ""
					if t == nil || t == types.Typ[types.Invalid] {
						if !notMapSyntactically(x.X) {
							kind = "untyped"
						}
					} else if _, ok := t.Underlying().(*types.Map); ok {
						kind = "map"
					}
					if kind != "" {
						key := "range " + l.text(x.X)
						res.Sites = append(res.Sites, Site{File: fname, Func: fn, ID: fmt.Sprintf("%s#%d", key, occ[key]),
							Kind: kind, Digest: siteDigest(x), Line: l.fset.Position(x.Pos()).Line})
						occ[key]++
					}
				case *ast.CallExpr:
					if se, ok := x.Fun.(*ast.SelectorExpr); ok && se.Sel.Name == "Range" && len(x.Args) == 1 {
						if isSyncMap(info.TypeOf(se.X)) {
							key := "syncmap " + l.text(se.X)
							res.Sites = append(res.Sites, Site{File: fname, Func: fn, ID: fmt.Sprintf("%s#%d", key, occ[key]),
								Kind: "syncmap", Digest: siteDigest(x), Line: l.fset.Position(x.Pos()).Line})
							occ[key]++
						}
					}
				case *ast.SelectorExpr:
					if x.Sel.Name == "GetSignatureAddresses" || x.Sel.Name == "SignedAddr" {
						uses[x.Sel.Name]++
					}
				case *ast.KeyValueExpr:
					if id, ok := x.Key.(*ast.Ident); ok && id.Name == "SignedAddr" {
						uses["SignedAddr"]++
					}
				}
				return true
			})
			if fd.Name.Name == "GetSignatureAddresses" {
				continue // the accessor itself
			}
			for _, w := range []string{"GetSignatureAddresses", "SignedAddr"} {
				if uses[w] > 0 {
					res.Uses = append(res.Uses, Use{File: fname, Func: fn, What: w, N: uses[w]})
				}
			}
		}
	}
}

// Target names a directory to scan; Recursive descends into sub-directories; Only restricts the
// scan (not the type-check) to the named files of that directory.
type Target struct {
	Dir       string
	Recursive bool
	Only      []string
	Skip      []string // sub-directory names skipped when Recursive
}

func Scan(repo string, targets []Target) *Result {
	l := newLoader(repo)
	res := &Result{}
	seen := map[string]bool{}
	type job struct {
		dir  string
		only map[string]bool
	}
	var jobs []job
	for _, t := range targets {
		var dirs []string
		if t.Recursive {
			root := filepath.Join(repo, t.Dir)
			err := filepath.Walk(root, func(p string, fi os.FileInfo, err error) error {
				if err != nil {
					return err
				}
				if fi.IsDir() {
					for _, s := range t.Skip {
						if fi.Name() == s {
							return filepath.SkipDir
						}
					}
					rel, _ := filepath.Rel(repo, p)
					dirs = append(dirs, rel)
				}
				return nil
			})
			if err != nil {
				res.Errors = append(res.Errors, "walk "+t.Dir+": "+err.Error())
			}
		} else {
			if _, err := os.Stat(filepath.Join(repo, t.Dir)); err != nil {
				res.Errors = append(res.Errors, "missing "+t.Dir)
				continue
			}
			dirs = []string{t.Dir}
		}
		sort.Strings(dirs)
		var only map[string]bool
		if len(t.Only) > 0 {
			only = map[string]bool{}
			for _, o := range t.Only {
				only[o] = true
				if _, err := os.Stat(filepath.Join(repo, t.Dir, o)); err != nil {
					res.Errors = append(res.Errors, "missing "+filepath.Join(t.Dir, o))
				}
			}
		}
		for _, d := range dirs {
			if seen[d] {
				continue
			}
			seen[d] = true
			l.full[d] = true
			jobs = append(jobs, job{d, only})
		}
	}
	var rels []string
	for _, j := range jobs {
		if l.load(j.dir) == nil {
			continue
		}
		res.Pkgs++
		l.scanPkg(j.dir, j.only, res)
		rels = append(rels, j.dir)
	}
	res.Globals = l.scanGlobals(rels)
	res.Errors = append(res.Errors, l.errs...)
	res.TypeErrs = l.tyErrs
	sort.SliceStable(res.Sites, func(i, j int) bool {
		a, b := res.Sites[i], res.Sites[j]
		if a.File != b.File {
			return a.File < b.File
		}
		if a.Func != b.Func {
			return a.Func < b.Func
		}
		return a.ID < b.ID
	})
	sort.SliceStable(res.Uses, func(i, j int) bool {
		a, b := res.Uses[i], res.Uses[j]
		if a.File != b.File {
			return a.File < b.File
		}
		if a.Func != b.Func {
			return a.Func < b.Func
		}
		return a.What < b.What
	})
	return res
}
