package c02

import (
	"crypto/ecdsa"
	"encoding/hex"
	"fmt"
	"math/big"
	"math/rand"

	ethcomm "github.com/ethereum/go-ethereum/common"
	ethtypes "github.com/ethereum/go-ethereum/core/types"
	ethcrypto "github.com/ethereum/go-ethereum/crypto"
	"github.com/ontio/ontology-crypto/keypair"
	csig "github.com/ontio/ontology-crypto/signature"
	"github.com/ontio/ontology/account"
	"github.com/ontio/ontology/common"
	"github.com/ontio/ontology/common/config"
	"github.com/ontio/ontology/common/constants"
	"github.com/ontio/ontology/core/payload"
	"github.com/ontio/ontology/core/program"
	"github.com/ontio/ontology/core/signature"
	"github.com/ontio/ontology/core/types"
	cutils "github.com/ontio/ontology/core/utils"
	"github.com/ontio/ontology/smartcontract/service/native/global_params"
	"github.com/ontio/ontology/smartcontract/service/native/ont"
	"github.com/ontio/ontology/smartcontract/service/native/ontfs"
	nutils "github.com/ontio/ontology/smartcontract/service/native/utils"
	"github.com/ontio/ontology/vm/neovm"
)

// TxSpec is one transaction of an input: its wire bytes and what the generator meant it to be.
type TxSpec struct {
	Raw  string `json:"raw"`
	Kind string `json:"kind"`
}

// Input is a replayable case: the genesis (bookkeeper key) and the transactions offered to the
// consensus member for each block, as wire bytes.
type Input struct {
	Kind    string     `json:"kind"` // chain | probe:<name>
	BookKey string     `json:"book_key"`
	Blocks  [][]TxSpec `json:"blocks"`
	Restart int        `json:"restart"` // the syncing node closes and reopens its ledger before this block index (0 = never)
	// the syncing node is restarted as a NEW PROCESS before this block index (0 = never): blocks
	// before it are added by one process, the rest by another one opening the same data directory
	ProcRestart int `json:"proc_restart"`
	// PreExec[i]: transactions (wire bytes) the MEMBER pre-executes (RPC-style, nothing committed) right
	// before it executes block i; the syncing node serves none. Pre-execution must not influence blocks.
	PreExec [][]string `json:"pre_exec,omitempty"`
	Track   []string   `json:"track"`  // addresses (hex) whose ONT/ONG balances are compared
	Repeat  int        `json:"repeat"` // ExecuteBlock repetitions on the member (map-order shaking)
}

var schemes = []string{"SHA256withECDSA", "SHA224withECDSA", "SHA384withECDSA", "SHA512withECDSA",
	"SHA3-256withECDSA", "RIPEMD160withECDSA", "SM3withSM2", "SHA512withEdDSA"}

func accountFromKeyHex(h string) (*account.Account, error) {
	b, err := hex.DecodeString(h)
	if err != nil {
		return nil, err
	}
	pri, err := keypair.DeserializePrivateKey(b)
	if err != nil {
		return nil, err
	}
	pub := pri.Public()
	return &account.Account{PrivateKey: pri, PublicKey: pub, Address: types.AddressFromPubKey(pub),
		SigScheme: csig.SHA256withECDSA}, nil
}

type multiAcct struct {
	keys []*account.Account
	m    int
	addr common.Address
}

type ethAcct struct {
	key   *ecdsa.PrivateKey
	addr  common.Address
	nonce uint64
}

// txGen builds the transactions of one input.
type txGen struct {
	r      *rand.Rand
	book   *account.Account
	accts  []*account.Account
	multis []*multiAcct
	eths   []*ethAcct
	nonce  uint32
	// contracts deployed so far: code hash -> kind
	counters  []common.Address
	witnesses []common.Address
	// contracts recording CheckWitness(special address)
	specialWitness []common.Address
	count          func(string)
}

func newGen(r *rand.Rand, count func(string)) *txGen {
	g := &txGen{r: r, book: account.NewAccount(""), nonce: 1000, count: count}
	for _, s := range schemes {
		g.accts = append(g.accts, account.NewAccount(s))
	}
	// two canonical multi-signature accounts over mixed key types
	g.multis = append(g.multis, g.newMulti([]int{0, 6, 7}, 2), g.newMulti([]int{1, 2, 3, 4}, 3))
	for i := 0; i < 2; i++ {
		k, err := ethcrypto.GenerateKey()
		if err != nil {
			panic(err)
		}
		g.eths = append(g.eths, &ethAcct{key: k, addr: common.Address(ethcrypto.PubkeyToAddress(k.PublicKey))})
	}
	return g
}

func (g *txGen) newMulti(idx []int, m int) *multiAcct {
	ma := &multiAcct{m: m}
	var pks []keypair.PublicKey
	for _, i := range idx {
		ma.keys = append(ma.keys, g.accts[i])
		pks = append(pks, g.accts[i].PublicKey)
	}
	a, err := types.AddressFromMultiPubKeys(pks, m)
	if err != nil {
		panic(err)
	}
	ma.addr = a
	return ma
}

func (g *txGen) bookKeyHex() string {
	return hex.EncodeToString(keypair.SerializePrivateKey(g.book.PrivateKey))
}

func (g *txGen) track() []string {
	var t []string
	t = append(t, g.book.Address.ToHexString())
	for _, a := range g.accts {
		t = append(t, a.Address.ToHexString())
	}
	for _, m := range g.multis {
		t = append(t, m.addr.ToHexString())
	}
	for _, e := range g.eths {
		t = append(t, e.addr.ToHexString())
	}
	t = append(t, nutils.GovernanceContractAddress.ToHexString())
	for _, a := range specialAddrs {
		t = append(t, a.ToHexString())
	}
	return t
}

// specialAddrs: accounts no key controls; no transaction can carry their witness.
var specialAddrs = []common.Address{common.ADDRESS_EMPTY, nutils.GovernanceContractAddress, nutils.OntContractAddress}

// dupSignerTx: the same account appears in two signature sets (the validator's address map holds it
// once), combined with an action that only a witness of a special address would allow: a transfer
// FROM the zero / governance / ONT contract address, or a call of the contract recording
// CheckWitness(special address).
func (g *txGen) dupSignerTx() TxSpec {
	gp, gl := g.gas()
	special := specialAddrs[g.r.Intn(len(specialAddrs))]
	var code []byte
	action := "transfer-from-special"
	if len(g.specialWitness) > 0 && g.r.Intn(2) == 0 {
		action = "witness-of-special"
		code = callScript(g.specialWitness[g.r.Intn(len(g.specialWitness))], g.r.Int63n(1000))
	} else {
		code = transferCode(g.token(), []*ont.TransferState{{From: special, To: g.anyAddr(), Value: uint64(1 + g.r.Intn(5))}})
	}
	tx := g.mtx(code, gp, gl)
	kind := ""
	switch g.r.Intn(3) {
	case 0: // the same key, two 1-of-1 sets
		a := g.accts[g.r.Intn(len(g.accts))]
		tx.Payer = a.Address
		signSingle(tx, a)
		signSingle(tx, a)
		if g.r.Intn(3) == 0 {
			signSingle(tx, g.accts[g.r.Intn(len(g.accts))])
		}
		kind = "same-key-twice"
	case 1: // a 1-of-1 set and a multi-signature set containing that key (two accounts, one key), either order
		ma := g.multis[g.r.Intn(len(g.multis))]
		a := ma.keys[g.r.Intn(len(ma.keys))]
		tx.Payer = a.Address
		if g.r.Intn(2) == 0 {
			signSingle(tx, a)
			signMulti(tx, ma, g.r)
			signSingle(tx, a)
		} else {
			signMulti(tx, ma, g.r)
			signSingle(tx, a)
			signMulti(tx, ma, g.r)
		}
		kind = "single+multisig-containing-it"
	default: // the same key set twice (signed by different subsets)
		ma := g.multis[g.r.Intn(len(g.multis))]
		tx.Payer = ma.addr
		signMulti(tx, ma, g.r)
		signMulti(tx, ma, g.r)
		kind = "same-multisig-twice"
	}
	return TxSpec{rawOf(tx), "dup:" + kind + ":" + action}
}

func (g *txGen) mtx(code []byte, gasPrice, gasLimit uint64) *types.MutableTransaction {
	g.nonce++
	return &types.MutableTransaction{GasPrice: gasPrice, GasLimit: gasLimit, TxType: types.InvokeNeo, Nonce: g.nonce,
		Payload: &payload.InvokeCode{Code: code}}
}

func signSingle(tx *types.MutableTransaction, a *account.Account) {
	h := tx.Hash()
	sig, err := signature.Sign(a, h[:])
	if err != nil {
		panic(err)
	}
	tx.Sigs = append(tx.Sigs, types.Sig{PubKeys: []keypair.PublicKey{a.PublicKey}, M: 1, SigData: [][]byte{sig}})
}

func signMulti(tx *types.MutableTransaction, ma *multiAcct, r *rand.Rand) {
	h := tx.Hash()
	var pks []keypair.PublicKey
	for _, k := range ma.keys {
		pks = append(pks, k.PublicKey)
	}
	perm := r.Perm(len(ma.keys))
	var sigs [][]byte
	for _, i := range perm[:ma.m] {
		sig, err := signature.Sign(ma.keys[i], h[:])
		if err != nil {
			panic(err)
		}
		sigs = append(sigs, sig)
	}
	tx.Sigs = append(tx.Sigs, types.Sig{PubKeys: pks, M: uint16(ma.m), SigData: sigs})
}

func rawOf(tx *types.MutableTransaction) string {
	t, err := tx.IntoImmutable()
	if err != nil {
		panic(err)
	}
	return hex.EncodeToString(t.ToArray())
}

func (g *txGen) gas() (uint64, uint64) {
	if g.r.Intn(3) == 0 {
		return 0, 20000 + uint64(g.r.Intn(5))*10000
	}
	return 2500, 20000 + uint64(g.r.Intn(5))*10000
}

func transferCode(token common.Address, sts []*ont.TransferState) []byte {
	code, err := cutils.BuildNativeInvokeCode(token, 0, "transfer", []interface{}{sts})
	if err != nil {
		panic(err)
	}
	return code
}

// fundingBlock: the bookkeeper pays ONT and ONG to every account the generator will use.
func (g *txGen) fundingBlock() []TxSpec {
	var dst []common.Address
	for _, a := range g.accts {
		dst = append(dst, a.Address)
	}
	for _, m := range g.multis {
		dst = append(dst, m.addr)
	}
	dst = append(dst, common.ADDRESS_EMPTY) // the zero address holds funds: a phantom zero witness would move them
	var out []TxSpec
	for _, tok := range []common.Address{nutils.OntContractAddress, nutils.OngContractAddress} {
		var sts []*ont.TransferState
		amt := uint64(100000)
		if tok == nutils.OngContractAddress {
			amt = 1000000000000
		}
		for _, d := range dst {
			sts = append(sts, &ont.TransferState{From: g.book.Address, To: d, Value: amt})
		}
		if tok == nutils.OngContractAddress {
			for _, e := range g.eths {
				sts = append(sts, &ont.TransferState{From: g.book.Address, To: e.addr, Value: amt})
			}
		}
		tx := g.mtx(transferCode(tok, sts), 0, 200000)
		tx.Payer = g.book.Address
		signSingle(tx, g.book)
		out = append(out, TxSpec{Raw: rawOf(tx), Kind: "fund"})
	}
	return out
}

func (g *txGen) token() common.Address {
	if g.r.Intn(2) == 0 {
		return nutils.OntContractAddress
	}
	return nutils.OngContractAddress
}

func (g *txGen) anyAddr() common.Address {
	switch g.r.Intn(4) {
	case 0:
		return g.multis[g.r.Intn(len(g.multis))].addr
	case 1:
		var a common.Address
		g.r.Read(a[:])
		return a
	default:
		return g.accts[g.r.Intn(len(g.accts))].Address
	}
}

func (g *txGen) deployTx(counter bool, gp uint64) TxSpec {
	var code []byte
	kind := "deploy:counter"
	if counter {
		code = counterContract(byte(g.r.Intn(256)))
	} else {
		kind = "deploy:witness"
		code = witnessContract(g.anyAddr())
	}
	dc, err := payload.NewDeployCode(code, payload.NEOVM_TYPE, "c", "1", "a", "e", "d")
	if err != nil {
		panic(err)
	}
	a := g.accts[g.r.Intn(len(g.accts))]
	g.nonce++
	tx := &types.MutableTransaction{GasPrice: gp, GasLimit: 30000000, TxType: types.Deploy, Nonce: g.nonce, Payload: dc, Payer: a.Address}
	if gp == 0 {
		tx.GasLimit = 20000
	}
	signSingle(tx, a)
	if counter {
		g.counters = append(g.counters, dc.Address())
	} else {
		g.witnesses = append(g.witnesses, dc.Address())
	}
	return TxSpec{rawOf(tx), kind}
}

// deployWitnessOf deploys the contract that records CheckWitness(addr) for a special address.
func (g *txGen) deployWitnessOf(addr common.Address) TxSpec {
	dc, err := payload.NewDeployCode(witnessContract(addr), payload.NEOVM_TYPE, "c", "1", "a", "e", "d")
	if err != nil {
		panic(err)
	}
	a := g.accts[g.r.Intn(len(g.accts))]
	g.nonce++
	tx := &types.MutableTransaction{GasLimit: 20000, TxType: types.Deploy, Nonce: g.nonce, Payload: dc, Payer: a.Address}
	signSingle(tx, a)
	g.specialWitness = append(g.specialWitness, dc.Address())
	return TxSpec{rawOf(tx), "deploy:witness-of-special"}
}

// randomTx draws one transaction; deploys are remembered so that later blocks can invoke them.
func (g *txGen) randomTx() TxSpec {
	gp, gl := g.gas()
	k := g.r.Intn(17)
	if k == 5 && g.r.Intn(2) == 0 {
		k = 0
	}
	switch k {
	case 15, 16:
		return g.dupSignerTx()
	case 0, 1: // single-signer native transfer, every key type
		a := g.accts[g.r.Intn(len(g.accts))]
		amt := uint64(1 + g.r.Intn(50))
		if g.r.Intn(12) == 0 {
			amt = 1 << 50 // more than it has: the transfer fails, the fee is charged
		}
		tx := g.mtx(transferCode(g.token(), []*ont.TransferState{{From: a.Address, To: g.anyAddr(), Value: amt}}), gp, gl)
		tx.Payer = a.Address
		signSingle(tx, a)
		return TxSpec{rawOf(tx), "transfer:" + a.SigScheme.Name()}
	case 2: // two senders in one transfer, two signature sets (payer first or second)
		a, b := g.accts[g.r.Intn(len(g.accts))], g.accts[g.r.Intn(len(g.accts))]
		tx := g.mtx(transferCode(g.token(), []*ont.TransferState{{From: a.Address, To: g.anyAddr(), Value: 3},
			{From: b.Address, To: g.anyAddr(), Value: 4}}), gp, gl)
		if g.r.Intn(2) == 0 {
			tx.Payer = a.Address
		} else {
			tx.Payer = b.Address
		}
		signSingle(tx, a)
		if b != a || g.r.Intn(2) == 0 {
			signSingle(tx, b) // b == a: the same signature set twice (one address in the validator's map)
		}
		return TxSpec{rawOf(tx), "transfer:two-signers"}
	case 3: // canonical m-of-n multi-signature sender
		ma := g.multis[g.r.Intn(len(g.multis))]
		tx := g.mtx(transferCode(g.token(), []*ont.TransferState{{From: ma.addr, To: g.anyAddr(), Value: uint64(1 + g.r.Intn(9))}}), gp, gl)
		tx.Payer = ma.addr
		signMulti(tx, ma, g.r)
		return TxSpec{rawOf(tx), fmt.Sprintf("transfer:multisig-%d-of-%d", ma.m, len(ma.keys))}
	case 4: // multi-signature sender, fee paid by a single-key account
		ma := g.multis[g.r.Intn(len(g.multis))]
		p := g.accts[g.r.Intn(len(g.accts))]
		tx := g.mtx(transferCode(g.token(), []*ont.TransferState{{From: ma.addr, To: g.anyAddr(), Value: 2}}), gp, gl)
		tx.Payer = p.Address
		signSingle(tx, p)
		signMulti(tx, ma, g.r)
		return TxSpec{rawOf(tx), "transfer:multisig+payer"}
	case 5: // transfer without the sender's signature: accepted by the validator, fails in the contract
		a, p := g.accts[g.r.Intn(len(g.accts))], g.accts[g.r.Intn(len(g.accts))]
		tx := g.mtx(transferCode(g.token(), []*ont.TransferState{{From: a.Address, To: p.Address, Value: 1}}), gp, gl)
		tx.Payer = p.Address
		signSingle(tx, p)
		return TxSpec{rawOf(tx), "transfer:unauthorized"}
	case 6: // deploy
		return g.deployTx(g.r.Intn(2) == 0, gp)
	case 7, 8: // invoke a deployed contract (or an address nothing was deployed at)
		var target common.Address
		kind := "invoke:undeployed"
		if n := len(g.counters) + len(g.witnesses); n > 0 && g.r.Intn(10) != 0 {
			i := g.r.Intn(n)
			if i < len(g.counters) {
				target, kind = g.counters[i], "invoke:counter"
			} else {
				target, kind = g.witnesses[i-len(g.counters)], "invoke:witness"
			}
		} else {
			g.r.Read(target[:])
		}
		tx := g.mtx(callScript(target, g.r.Int63n(1000)), gp, gl)
		// one or two signers, sometimes a multi-signature account: the witness contracts look at these
		a := g.accts[g.r.Intn(len(g.accts))]
		tx.Payer = a.Address
		signSingle(tx, a)
		if g.r.Intn(2) == 0 {
			signMulti(tx, g.multis[g.r.Intn(len(g.multis))], g.r)
		}
		if g.r.Intn(3) == 0 {
			signSingle(tx, g.accts[g.r.Intn(len(g.accts))])
		}
		return TxSpec{rawOf(tx), kind}
	case 9, 10: // map-building script
		a := g.accts[g.r.Intn(len(g.accts))]
		tx := g.mtx(mapScript(g.r, 1+g.r.Intn(9)), gp, gl+40000)
		tx.Payer = a.Address
		signSingle(tx, a)
		return TxSpec{rawOf(tx), "script:map"}
	case 11: // block context / failing script
		a := g.accts[g.r.Intn(len(g.accts))]
		var code []byte
		kind := "script:context"
		if g.r.Intn(2) == 0 {
			code = ctxScript(g.r.Int63n(1000))
		} else {
			kind = "script:throw"
			code = throwScript(g.r.Int63n(1000))
		}
		tx := g.mtx(code, gp, gl)
		tx.Payer = a.Address
		signSingle(tx, a)
		return TxSpec{rawOf(tx), kind}
	case 12: // rejected by the validator: signature over other bytes
		a, b := g.accts[g.r.Intn(len(g.accts))], g.accts[g.r.Intn(len(g.accts))]
		tx := g.mtx(transferCode(g.token(), []*ont.TransferState{{From: a.Address, To: b.Address, Value: 1}}), gp, gl)
		tx.Payer = a.Address
		signSingle(tx, a)
		tx.GasLimit++ // changes the hash after signing
		return TxSpec{rawOf(tx), "invalid:bad-signature"}
	default: // EIP-155
		return g.eipTx()
	}
}

func (g *txGen) eipTx() TxSpec {
	e := g.eths[g.r.Intn(len(g.eths))]
	chainID := big.NewInt(int64(config.DefConfig.P2PNode.EVMChainId))
	price := new(big.Int).Mul(big.NewInt(2500), big.NewInt(constants.GWei))
	var raw *ethtypes.Transaction
	kind := "eip155:transfer"
	switch g.r.Intn(3) {
	case 0: // contract creation: init code stores 42 at slot 0, leaves no code
		kind = "eip155:create"
		raw = ethtypes.NewContractCreation(e.nonce, big.NewInt(0), 100000, price, []byte{0x60, 0x2a, 0x60, 0x00, 0x55, 0x00})
	default:
		var to ethcomm.Address
		if g.r.Intn(2) == 0 {
			to = ethcomm.Address(g.eths[g.r.Intn(len(g.eths))].addr)
		} else {
			to = ethcomm.Address(g.accts[g.r.Intn(len(g.accts))].Address)
		}
		val := new(big.Int).Mul(big.NewInt(int64(g.r.Intn(1000))), big.NewInt(constants.GWei))
		raw = ethtypes.NewTransaction(e.nonce, to, val, 30000, price, nil)
	}
	signed, err := ethtypes.SignTx(raw, ethtypes.NewEIP155Signer(chainID), e.key)
	if err != nil {
		panic(err)
	}
	t, err := types.TransactionFromEIP155(signed)
	if err != nil {
		panic(err)
	}
	e.nonce++
	return TxSpec{hex.EncodeToString(t.ToArray()), kind}
}

// chain builds a whole input: funding block, then nBlocks blocks of up to maxTx random transactions.
func (g *txGen) chain(nBlocks, maxTx int) *Input {
	in := &Input{Kind: "chain", BookKey: g.bookKeyHex(), Track: g.track(), Repeat: 3}
	in.Blocks = append(in.Blocks, g.fundingBlock())
	for b := 0; b < nBlocks; b++ {
		n := g.r.Intn(maxTx + 1)
		var blk []TxSpec
		if b == 0 { // contracts for the later blocks to call
			blk = append(blk, g.deployTx(true, 0), g.deployTx(false, 2500))
			for _, sp := range specialAddrs {
				blk = append(blk, g.deployWitnessOf(sp))
			}
		}
		for i := 0; i < n; i++ {
			blk = append(blk, g.randomTx())
		}
		in.Blocks = append(in.Blocks, blk)
	}
	if g.r.Intn(2) == 0 && nBlocks > 1 {
		in.Restart = 1 + g.r.Intn(nBlocks)
	}
	for _, blk := range in.Blocks {
		for _, t := range blk {
			g.count("tx:" + t.Kind)
		}
	}
	return in
}

// hashScript: n rounds of SHA256 and HASH160 over a byte string, then an APPCALL of a deployed
// contract: the opcodes whose gas fee comes from the on-chain parameter table.
func hashScript(n int, target common.Address, salt int64) []byte {
	a := newAsm().pushInt(salt).op(neovm.DROP)
	a.pushStr("c02-parameter-change")
	for i := 0; i < n; i++ {
		a.op(neovm.SHA256, neovm.HASH160)
	}
	a.syscall(sysNotify)
	a.appcall(target)
	return a.bytes()
}

// paramRestartChain: blocks using SHA256 / HASH160 / APPCALL; then the chain's admin (the solo
// bookkeeper) changes the gas fee of those opcodes through the global_params contract
// (setGlobalParam + createSnapshot in one transaction); then more blocks using them, with gas limits
// below, between and above the old and the new cost. The syncing node is restarted as a new process
// right after the parameter change: a node that has seen the old fees and a node that has only seen
// the new ones must charge the same.
func (g *txGen) paramRestartChain() *Input {
	in := &Input{Kind: "chain", BookKey: g.bookKeyHex(), Track: g.track(), Repeat: 1}
	in.Blocks = append(in.Blocks, g.fundingBlock())
	in.Blocks = append(in.Blocks, []TxSpec{g.deployTx(true, 0)})
	target := g.counters[0]
	use := func(kind string, n int, gasLimit uint64) TxSpec {
		a := g.accts[g.r.Intn(len(g.accts))]
		tx := g.mtx(hashScript(n, target, g.r.Int63n(1000)), 2500, gasLimit)
		tx.Payer = a.Address
		signSingle(tx, a)
		return TxSpec{rawOf(tx), kind}
	}
	// old fees: SHA256 10, HASH160 20, APPCALL 10 (a few hundred gas per script: the minimum fee applies)
	var before []TxSpec
	for i := 0; i < 3+g.r.Intn(3); i++ {
		before = append(before, use("param:hash-before-change", 1+g.r.Intn(4), 20000+uint64(g.r.Intn(3))*20000))
	}
	in.Blocks = append(in.Blocks, before)
	// the change
	fee := uint64(20000 + g.r.Intn(20000))
	ps := []global_params.Param{{Key: "SHA256", Value: fmt.Sprint(fee)}, {Key: "HASH160", Value: fmt.Sprint(fee + 7)},
		{Key: "APPCALL", Value: fmt.Sprint(fee / 2)}}
	c1, err := cutils.BuildNativeInvokeCode(nutils.ParamContractAddress, 0, "setGlobalParam", []interface{}{ps})
	if err != nil {
		panic(err)
	}
	c2, err := cutils.BuildNativeInvokeCode(nutils.ParamContractAddress, 0, "createSnapshot", []interface{}{})
	if err != nil {
		panic(err)
	}
	adm := g.mtx(append(c1, c2...), 0, 20000)
	adm.Payer = g.book.Address
	signSingle(adm, g.book)
	in.Blocks = append(in.Blocks, []TxSpec{{rawOf(adm), "param:set+snapshot"}, use("param:hash-in-change-block", 2, 60000)})
	in.ProcRestart = len(in.Blocks)
	// new fees: one script with n rounds costs about n*(2*fee+7) + fee/2
	for b := 0; b < 2; b++ {
		var after []TxSpec
		for i := 0; i < 3+g.r.Intn(3); i++ {
			n := 1 + g.r.Intn(3)
			cost := uint64(n)*(2*fee+7) + fee/2
			var gl uint64
			switch g.r.Intn(4) {
			case 0:
				gl = 20000 // enough at the old fee only
			case 1:
				gl = cost - 1 - uint64(g.r.Intn(2000)) // just short at the new fee
			case 2:
				gl = cost + 200 + uint64(g.r.Intn(2000)) // just enough at the new fee
			default:
				gl = cost + 50000
			}
			after = append(after, use("param:hash-after-change", n, gl))
		}
		if b == 1 {
			after = append(after, g.randomTx(), g.randomTx())
		}
		in.Blocks = append(in.Blocks, after)
	}
	for _, blk := range in.Blocks {
		for _, t := range blk {
			g.count("tx:" + t.Kind)
		}
	}
	return in
}

// probeStaleGasParam: the process-global neovm.GAS_TABLE is only ever overwritten by
// refreshGlobalParam for parameters whose on-chain value parses as a number. The admin sets
// SHA256 = 30000 (a node running at that time stores it in its table), later sets SHA256 to a value
// that does not parse (nothing is stored: a running node keeps 30000, a node started afterwards has
// the compiled-in 10). The syncing node is restarted as a new process after the second change.
func (g *txGen) probeStaleGasParam() *Input {
	in := &Input{Kind: "probe:procstate:gas-table-keeps-unparsable-param", BookKey: g.bookKeyHex(), Repeat: 1,
		Track: []string{g.book.Address.ToHexString(), nutils.GovernanceContractAddress.ToHexString()}}
	dc, err := payload.NewDeployCode(counterContract(7), payload.NEOVM_TYPE, "c", "1", "a", "e", "d")
	if err != nil {
		panic(err)
	}
	g.nonce++
	dep := &types.MutableTransaction{GasLimit: 20000, TxType: types.Deploy, Nonce: g.nonce, Payload: dc, Payer: g.book.Address}
	signSingle(dep, g.book)
	setParam := func(val string) TxSpec {
		ps := []global_params.Param{{Key: "SHA256", Value: val}}
		c1, err := cutils.BuildNativeInvokeCode(nutils.ParamContractAddress, 0, "setGlobalParam", []interface{}{ps})
		if err != nil {
			panic(err)
		}
		c2, err := cutils.BuildNativeInvokeCode(nutils.ParamContractAddress, 0, "createSnapshot", []interface{}{})
		if err != nil {
			panic(err)
		}
		tx := g.mtx(append(c1, c2...), 0, 20000)
		tx.Payer = g.book.Address
		signSingle(tx, g.book)
		return TxSpec{rawOf(tx), "param:set SHA256=" + val}
	}
	use := func() TxSpec {
		tx := g.mtx(hashScript(2, dc.Address(), int64(g.nonce)), 2500, 200000)
		tx.Payer = g.book.Address
		signSingle(tx, g.book)
		return TxSpec{rawOf(tx), "param:hash-script"}
	}
	in.Blocks = [][]TxSpec{{{rawOf(dep), "deploy:counter"}}, {setParam("30000")}, {use()}, {setParam("not-a-number")}, {use()}, {use()}}
	in.ProcRestart = 4
	return in
}

// ---- deterministic probes of the known findings ----

// rawWithSigs re-attaches hand-built signature scripts to an unsigned transaction.
func rawWithSigs(unsigned *types.MutableTransaction, sigs []types.RawSig) string {
	t, err := unsigned.IntoImmutable() // no signature sets: ends with the count byte 0
	if err != nil {
		panic(err)
	}
	raw := t.ToArray()
	sink := common.NewZeroCopySink(append([]byte{}, raw[:len(raw)-1]...))
	sink.WriteVarUint(uint64(len(sigs)))
	for _, s := range sigs {
		sink.WriteVarBytes(s.Invoke)
		sink.WriteVarBytes(s.Verify)
	}
	return hex.EncodeToString(sink.Bytes())
}

// probeUnsortedMultisig (F2): block 1 funds the canonical 2-of-2 address of keys {a, b} and deploys a
// contract recording CheckWitness(that address); block 2 spends from that address and invokes the
// contract with a verification script listing the keys in the NON-canonical order.
func (g *txGen) probeUnsortedMultisig() *Input {
	a, b := g.accts[0], g.accts[4]
	pks := []keypair.PublicKey{a.PublicKey, b.PublicKey}
	maddr, err := types.AddressFromMultiPubKeys(pks, 2)
	if err != nil {
		panic(err)
	}
	sorted := keypair.SortPublicKeys([]keypair.PublicKey{a.PublicKey, b.PublicKey})
	unsorted := []keypair.PublicKey{sorted[1], sorted[0]}
	in := &Input{Kind: "probe:signers:unsorted-multisig", BookKey: g.bookKeyHex(), Repeat: 1,
		Track: []string{g.book.Address.ToHexString(), maddr.ToHexString(), a.Address.ToHexString()}}
	fund := g.mtx(transferCode(nutils.OntContractAddress, []*ont.TransferState{{From: g.book.Address, To: maddr, Value: 1000}}), 0, 20000)
	fund.Payer = g.book.Address
	signSingle(fund, g.book)
	dc, err := payload.NewDeployCode(witnessContract(maddr), payload.NEOVM_TYPE, "w", "1", "a", "e", "d")
	if err != nil {
		panic(err)
	}
	g.nonce++
	dep := &types.MutableTransaction{GasLimit: 20000, TxType: types.Deploy, Nonce: g.nonce, Payload: dc, Payer: g.book.Address}
	signSingle(dep, g.book)
	in.Blocks = append(in.Blocks, []TxSpec{{rawOf(fund), "fund"}, {rawOf(dep), "deploy:witness"}})

	mk := func(code []byte, kind string) TxSpec {
		tx := g.mtx(code, 0, 20000)
		tx.Payer = maddr
		h := tx.Hash()
		var sigData [][]byte
		for _, k := range []*account.Account{a, b} {
			s, err := signature.Sign(k, h[:])
			if err != nil {
				panic(err)
			}
			sigData = append(sigData, s)
		}
		pb := program.NewProgramBuilder()
		pb.PushNum(2)
		for _, k := range unsorted {
			pb.PushPubKey(k)
		}
		pb.PushNum(2)
		pb.PushOpCode(neovm.CHECKMULTISIG)
		return TxSpec{rawWithSigs(tx, []types.RawSig{{Invoke: program.ProgramFromParams(sigData), Verify: pb.Finish()}}), kind}
	}
	in.Blocks = append(in.Blocks, []TxSpec{
		mk(transferCode(nutils.OntContractAddress, []*ont.TransferState{{From: maddr, To: a.Address, Value: 7}}), "probe:unsorted-multisig-transfer"),
		mk(callScript(dc.Address(), 1), "probe:unsorted-multisig-witness")})
	return in
}

// probeOntfsErrors: one FsDeleteFiles call naming n files that do not exist: n entries in
// Errors.ObjectErrors, serialised in map order into the event.
func (g *txGen) probeOntfsErrors(n int) *Input {
	var l ontfs.FileDelList
	for i := 0; i < n; i++ {
		l.FilesDel = append(l.FilesDel, ontfs.FileDel{FileHash: []byte(fmt.Sprintf("no-such-file-%02d", i))})
	}
	sink := common.NewZeroCopySink(nil)
	l.Serialization(sink)
	code, err := cutils.BuildNativeInvokeCode(nutils.OntFSContractAddress, 0, ontfs.FS_DELETE_FILES, []interface{}{sink.Bytes()})
	if err != nil {
		panic(err)
	}
	tx := g.mtx(code, 0, 20000)
	tx.Payer = g.book.Address
	signSingle(tx, g.book)
	// repaired in /repo 859ea035 (entries written in key order): kept as a regression probe, all 40
	// executions must give the identical notification; the class is not a known finding any more
	return &Input{Kind: "probe:regression:ontfs-errors-event-order", BookKey: g.bookKeyHex(), Repeat: 40,
		Track: []string{g.book.Address.ToHexString()}, Blocks: [][]TxSpec{{{rawOf(tx), "probe:ontfs-delete-missing-files"}}}}
}

// probeCycleDetector (F4): Serialize of a map with deep and shallow values.
func (g *txGen) probeCycleDetector() *Input {
	tx := g.mtx(cycleDetectorScript(4, 4), 2500, 60000)
	tx.Payer = g.book.Address
	signSingle(tx, g.book)
	return &Input{Kind: "probe:maporder:cycle-detector-first-entry", BookKey: g.bookKeyHex(), Repeat: 40,
		Track:  []string{g.book.Address.ToHexString(), nutils.GovernanceContractAddress.ToHexString()},
		Blocks: [][]TxSpec{{{rawOf(tx), "probe:serialize-map-deep-and-shallow"}}}}
}
