package c02

import (
	"bufio"
	"bytes"
	"context"
	"crypto/sha256"
	"encoding/hex"
	"encoding/json"
	"fmt"
	"io"
	"os"
	"os/exec"
	"time"

	"github.com/ontio/ontology-crypto/keypair"
	"github.com/ontio/ontology/common"
	"github.com/ontio/ontology/common/config"
	"github.com/ontio/ontology/core/genesis"
	"github.com/ontio/ontology/core/store"
	"github.com/ontio/ontology/core/types"
	"github.com/ontio/ontology/core/validation"
	ontErrors "github.com/ontio/ontology/errors"
	"github.com/ontio/ontology/smartcontract/event"
	nutils "github.com/ontio/ontology/smartcontract/service/native/utils"

	"verif/harness/hx"
	"verif/harness/ledgerkit"
)

// Each node of the differential runs in its own process: the harness binary re-executed with
// VERIF_C02_CHILD=1 reads one Job on stdin and writes one ChildOut on stdout. Process-global state
// of the node (config.DefConfig, ledger.DefLedger, neovm.GAS_TABLE, the Go map hash seed) is
// therefore per node, as on a real network.

const childEnv = "VERIF_C02_CHILD"

type Sealed struct {
	Raw  string `json:"raw"`  // block.ToArray()
	Root string `json:"root"` // state merkle root the member computed (what a peer announces with the block)
}

type Job struct {
	Role    string     `json:"role"` // member | syncer
	Dir     string     `json:"dir"`
	BookKey string     `json:"book_key"`
	Blocks  [][]TxSpec `json:"blocks"` // member: transactions offered per block
	Sealed  []Sealed   `json:"sealed"` // syncer: blocks as received
	Repeat  int        `json:"repeat"`
	Restart int        `json:"restart"`
	PreExec [][]string `json:"pre_exec"` // member: pre-executed before block i
	Resume  bool       `json:"resume"`   // open the existing data directory (second segment of a node restarted as a new process)
	Track   []string   `json:"track"`
	Fresh   bool       `json:"fresh"` // member: decode the wire bytes again before every ExecuteBlock repetition
}

type KV struct {
	K string `json:"k"`
	V string `json:"v"`
}

// Exec is the canonical rendering of one ExecuteResult.
type Exec struct {
	Err      string   `json:"err,omitempty"`
	Hash     string   `json:"hash"`
	Root     string   `json:"root"`
	WSDigest string   `json:"ws_digest"`
	WSLen    int      `json:"ws_len"`
	Notify   []string `json:"notify"`
	ws       []KV
}

type TxSigners struct {
	Raw      string   `json:"raw"`
	Accepted bool     `json:"accepted"`
	Member   []string `json:"member"` // SignedAddr after VerifyTransaction
	Syncer   []string `json:"syncer"` // GetSignatureAddresses on freshly decoded bytes
}

type BlockObs struct {
	Height   uint32            `json:"height"`
	Raw      string            `json:"raw,omitempty"`
	Rejected []int             `json:"rejected,omitempty"` // member: offered transactions the validator refused
	Exec     Exec              `json:"exec"`
	Variants []Exec            `json:"variants,omitempty"` // member: results of repetitions that differ from Exec
	WS       []KV              `json:"ws,omitempty"`
	AddErr   string            `json:"add_err,omitempty"`
	Stored   string            `json:"stored_root"` // GetStateMerkleRoot(height) after the block was added
	Balances map[string]string `json:"balances"`
	Signers  []TxSigners       `json:"signers,omitempty"`
}

type ChildOut struct {
	Fatal    string            `json:"fatal,omitempty"`
	Leaf0    string            `json:"leaf0"` // state merkle root of the genesis block (= the first leaf)
	Blocks   []BlockObs        `json:"blocks"`
	Digests  map[string]string `json:"digests"`
	TreeSize string            `json:"state_tree"`
	Millis   int64             `json:"ms"`
	PreExecs int               `json:"pre_execs"`
}

func init() {
	if os.Getenv(childEnv) == "" {
		return
	}
	var jobs []Job
	var outs []*ChildOut
	if err := json.NewDecoder(bufio.NewReaderSize(os.Stdin, 1<<20)).Decode(&jobs); err != nil {
		outs = append(outs, &ChildOut{Fatal: "decode jobs: " + err.Error()})
	}
	for i := range jobs {
		out := &ChildOut{}
		t0 := time.Now()
		func() {
			defer func() {
				if r := recover(); r != nil {
					out.Fatal = fmt.Sprintf("panic: %v", r)
				}
			}()
			runJob(&jobs[i], out)
		}()
		out.Millis = time.Since(t0).Milliseconds()
		outs = append(outs, out)
	}
	w := bufio.NewWriter(os.Stdout)
	json.NewEncoder(w).Encode(outs)
	w.Flush()
	os.Exit(0)
}

func renderNotify(n *event.ExecuteNotify) string {
	type ev struct {
		Contract string      `json:"contract"`
		States   interface{} `json:"states"`
		IsEvm    bool        `json:"evm"`
	}
	r := struct {
		TxHash  string `json:"tx"`
		State   byte   `json:"state"`
		Gas     uint64 `json:"gas"`
		Step    uint64 `json:"step"`
		Index   uint32 `json:"index"`
		Created string `json:"created"`
		Events  []ev   `json:"events"`
	}{TxHash: n.TxHash.ToHexString(), State: n.State, Gas: n.GasConsumed, Step: n.GasStepUsed, Index: n.TxIndex,
		Created: n.CreatedContract.ToHexString()}
	for _, e := range n.Notify {
		r.Events = append(r.Events, ev{e.ContractAddress.ToHexString(), e.States, e.IsEvm})
	}
	b, err := json.Marshal(r)
	if err != nil {
		return "unmarshalable: " + err.Error()
	}
	return string(b)
}

func renderExec(res store.ExecuteResult, err error) Exec {
	if err != nil {
		return Exec{Err: err.Error()}
	}
	e := Exec{Hash: res.Hash.ToHexString(), Root: res.MerkleRoot.ToHexString()}
	h := sha256.New()
	if res.WriteSet != nil {
		res.WriteSet.ForEach(func(k, v []byte) {
			var l [8]byte
			l[0], l[1], l[2], l[3] = byte(len(k)), byte(len(k)>>8), byte(len(k)>>16), byte(len(k)>>24)
			l[4], l[5], l[6], l[7] = byte(len(v)), byte(len(v)>>8), byte(len(v)>>16), byte(len(v)>>24)
			h.Write(l[:])
			h.Write(k)
			h.Write(v)
			e.ws = append(e.ws, KV{hex.EncodeToString(k), hex.EncodeToString(v)})
		})
	}
	e.WSLen = len(e.ws)
	e.WSDigest = hex.EncodeToString(h.Sum(nil)[:16])
	for _, n := range res.Notify {
		e.Notify = append(e.Notify, renderNotify(n))
	}
	return e
}

func sameExec(a, b Exec) bool {
	if a.Err != b.Err || a.Hash != b.Hash || a.Root != b.Root || a.WSDigest != b.WSDigest || len(a.Notify) != len(b.Notify) {
		return false
	}
	for i := range a.Notify {
		if a.Notify[i] != b.Notify[i] {
			return false
		}
	}
	return true
}

func addrsHex(l []common.Address) []string {
	out := []string{}
	for _, a := range l {
		out = append(out, a.ToHexString())
	}
	return out
}

func balances(k *ledgerkit.Kit, track []string) map[string]string {
	out := map[string]string{}
	for _, h := range track {
		a, err := common.AddressFromHexString(h)
		if err != nil {
			continue
		}
		for name, tok := range map[string]common.Address{"ont": nutils.OntContractAddress, "ong": nutils.OngContractAddress} {
			v, err := k.Ledger.GetStorageItem(tok, a[:])
			if err != nil {
				out[name+":"+h] = "-"
			} else {
				out[name+":"+h] = hex.EncodeToString(v)
			}
		}
	}
	return out
}

func runJob(job *Job, out *ChildOut) {
	acct, err := accountFromKeyHex(job.BookKey)
	if err != nil {
		out.Fatal = "bookkeeper key: " + err.Error()
		return
	}
	var k *ledgerkit.Kit
	if job.Resume {
		// a restarted node: a NEW process opens the data directory an earlier process left behind
		ledgerkit.ConfigureSolo(acct)
		bookkeepers := []keypair.PublicKey{acct.PublicKey}
		gb, gerr := genesis.BuildGenesisBlock(bookkeepers, config.DefConfig.Genesis)
		if gerr != nil {
			out.Fatal = "genesis: " + gerr.Error()
			return
		}
		k = &ledgerkit.Kit{Dir: job.Dir, Acct: acct, Bookkeepers: bookkeepers, Genesis: gb}
		err = k.Open()
	} else {
		k, err = ledgerkit.NewWithAccount(job.Dir, acct)
	}
	if err != nil {
		out.Fatal = "ledger: " + err.Error()
		return
	}
	defer func() { k.Close() }()
	r0, err := k.Ledger.GetStateMerkleRoot(0)
	if err != nil {
		out.Fatal = "genesis root: " + err.Error()
		return
	}
	out.Leaf0 = r0.ToHexString()
	switch job.Role {
	case "member":
		runMember(job, k, out)
	case "syncer":
		runSyncer(job, k, out)
	default:
		out.Fatal = "unknown role " + job.Role
	}
	if out.Fatal == "" {
		out.Digests = k.Store().VerifC39StoreDigests()
		out.TreeSize = k.Store().VerifC39MemState()["stateTree"]
	}
}

// runMember: the consensus-member path. Transactions arrive as wire bytes, are decoded and checked
// by the transaction validator (which records the signer addresses in the transaction object); the
// accepted ones are sealed into a block that is executed (Repeat times: nothing is committed by
// ExecuteBlock, so every repetition starts from the same state and only the runtime's map orders
// differ) and then submitted with the last result.
func runMember(job *Job, k *ledgerkit.Kit, out *ChildOut) {
	for bi, offered := range job.Blocks {
		var obs BlockObs
		if bi < len(job.PreExec) {
			// RPC traffic between blocks: pre-executions run on scratch state and commit nothing
			for _, raw := range job.PreExec[bi] {
				if tx, err := types.TransactionFromRawBytes(hx.UnHex(raw)); err == nil {
					hx.Recover(func() { k.Ledger.PreExecuteContract(tx) })
					out.PreExecs++
				}
			}
		}
		decodeAll := func(record bool) []*types.Transaction {
			var txs []*types.Transaction
			for i, spec := range offered {
				raw := hx.UnHex(spec.Raw)
				tx, err := types.TransactionFromRawBytes(raw)
				if err != nil {
					if record {
						obs.Rejected = append(obs.Rejected, i)
					}
					continue
				}
				code := validation.VerifyTransaction(tx)
				if record {
					ts := TxSigners{Raw: spec.Raw, Accepted: code == ontErrors.ErrNoError}
					if ts.Accepted {
						ts.Member = addrsHex(tx.SignedAddr)
					}
					if fresh, err := types.TransactionFromRawBytes(hx.UnHex(spec.Raw)); err == nil {
						ts.Syncer = addrsHex(fresh.GetSignatureAddresses())
					}
					obs.Signers = append(obs.Signers, ts)
				}
				if code != ontErrors.ErrNoError {
					if record {
						obs.Rejected = append(obs.Rejected, i)
					}
					continue
				}
				txs = append(txs, tx)
			}
			return txs
		}
		txs := decodeAll(true)
		block, err := k.MakeBlock(txs)
		if err != nil {
			out.Fatal = "make block: " + err.Error()
			return
		}
		obs.Height = block.Header.Height
		obs.Raw = hex.EncodeToString(block.ToArray())
		rep := job.Repeat
		if rep < 1 {
			rep = 1
		}
		var first store.ExecuteResult
		for i := 0; i < rep; i++ {
			if job.Fresh && i > 0 {
				block.Transactions = decodeAll(false)
			}
			res, err := k.Ledger.ExecuteBlock(block)
			e := renderExec(res, err)
			if err != nil {
				obs.AddErr = "execute: " + err.Error()
			}
			if i == 0 {
				obs.Exec, obs.WS, first = e, e.ws, res
				continue
			}
			if !sameExec(obs.Exec, e) {
				dup := false
				for _, v := range obs.Variants {
					dup = dup || sameExec(v, e)
				}
				if !dup {
					obs.Variants = append(obs.Variants, e)
				}
			}
		}
		if obs.AddErr == "" {
			// what is submitted (and announced to the syncing node) is the first result
			if err := k.Ledger.SubmitBlock(block, nil, first); err != nil {
				obs.AddErr = "submit: " + err.Error()
			}
		}
		finishObs(k, job, &obs)
		out.Blocks = append(out.Blocks, obs)
		if obs.AddErr != "" {
			return
		}
	}
}

func finishObs(k *ledgerkit.Kit, job *Job, obs *BlockObs) {
	if r, err := k.Ledger.GetStateMerkleRoot(obs.Height); err == nil {
		obs.Stored = r.ToHexString()
	} else {
		obs.Stored = "error: " + err.Error()
	}
	obs.Balances = balances(k, job.Track)
}

// runSyncer: the syncing-node path. Blocks arrive sealed, as wire bytes, with the state root the
// network announced; the node decodes them and adds them (AddBlock executes and compares the root).
// No transaction validator runs. Before adding, the decoded block is executed once to observe the
// result the node computes (ExecuteBlock commits nothing).
func runSyncer(job *Job, k *ledgerkit.Kit, out *ChildOut) {
	for i, s := range job.Sealed {
		if job.Restart > 0 && i == job.Restart {
			k.Close()
			if err := k.Open(); err != nil {
				out.Fatal = "reopen: " + err.Error()
				return
			}
		}
		var obs BlockObs
		block, err := types.BlockFromRawBytes(hx.UnHex(s.Raw))
		if err != nil {
			obs.AddErr = "decode block: " + err.Error()
			out.Blocks = append(out.Blocks, obs)
			return
		}
		obs.Height = block.Header.Height
		res, err := k.Ledger.ExecuteBlock(block)
		obs.Exec = renderExec(res, err)
		obs.WS = obs.Exec.ws
		root, err := common.Uint256FromHexString(s.Root)
		if err != nil {
			out.Fatal = "root: " + err.Error()
			return
		}
		// a second decode: AddBlock gets an object no execution has touched yet
		block2, _ := types.BlockFromRawBytes(hx.UnHex(s.Raw))
		if err := k.Ledger.AddBlock(block2, nil, root); err != nil {
			obs.AddErr = err.Error()
		} else if k.Ledger.GetCurrentBlockHeight() != block.Header.Height {
			obs.AddErr = fmt.Sprintf("block not added: height %d", k.Ledger.GetCurrentBlockHeight())
		}
		finishObs(k, job, &obs)
		out.Blocks = append(out.Blocks, obs)
		if obs.AddErr != "" {
			return
		}
	}
}

// runChildren starts one node process that works through the jobs in order (one ledger open at a
// time). When the process dies without an answer the jobs are re-run one per process, so that a
// crash is attributed to the job that caused it.
func runChildren(jobs []*Job, timeout time.Duration) []*ChildOut {
	outs, err := runChildOnce(jobs, timeout)
	if err == nil && len(outs) == len(jobs) {
		return outs
	}
	if len(jobs) == 1 {
		return []*ChildOut{{Fatal: "node process: " + err.Error()}}
	}
	outs = nil
	for _, j := range jobs {
		outs = append(outs, runChildren([]*Job{j}, timeout)...)
	}
	return outs
}

func runChildOnce(jobs []*Job, timeout time.Duration) ([]*ChildOut, error) {
	p, err := startNode(timeout)
	if err != nil {
		return nil, err
	}
	return p.finish(jobs)
}

// nodeProc is a started node process that has not been given its jobs yet (it initialises while
// the parent is busy with something else).
type nodeProc struct {
	cmd            *exec.Cmd
	stdin          io.WriteCloser
	stdout, stderr bytes.Buffer
	cancel         context.CancelFunc
}

func startNode(timeout time.Duration) (*nodeProc, error) {
	self, err := os.Executable()
	if err != nil {
		return nil, err
	}
	ctx, cancel := context.WithTimeout(context.Background(), timeout)
	p := &nodeProc{cancel: cancel}
	p.cmd = exec.CommandContext(ctx, self)
	p.cmd.Env = append(os.Environ(), childEnv+"=1")
	p.cmd.Stdout = &p.stdout
	p.cmd.Stderr = &p.stderr
	if p.stdin, err = p.cmd.StdinPipe(); err != nil {
		cancel()
		return nil, err
	}
	if err := p.cmd.Start(); err != nil {
		cancel()
		return nil, err
	}
	return p, nil
}

// finish hands the jobs to the process and waits for its answer.
func (p *nodeProc) finish(jobs []*Job) ([]*ChildOut, error) {
	defer p.cancel()
	in, _ := json.Marshal(jobs)
	_, werr := p.stdin.Write(in)
	p.stdin.Close()
	runErr := p.cmd.Wait()
	var outs []*ChildOut
	if err := json.Unmarshal(p.stdout.Bytes(), &outs); err != nil {
		tail := p.stderr.String()
		if len(tail) > 600 {
			tail = tail[len(tail)-600:]
		}
		return nil, fmt.Errorf("%v / %v / %v / stderr: %s", werr, runErr, err, tail)
	}
	return outs, nil
}

// abandon stops a started process that turned out not to be needed.
func (p *nodeProc) abandon() {
	p.stdin.Close()
	p.cancel()
	p.cmd.Wait()
}
