package c30

import (
	"bytes"
	"fmt"
	"go/ast"
	"go/parser"
	"go/printer"
	"go/token"
	"hash/fnv"
	"math/big"
	"path/filepath"
	"strings"

	"verif/harness/gen"
)

const genesisFile = "consensus/vbft/config/genesis.go"

// Integer expressions of genesis.go handled by the shared translator.
var Sites = []gen.Site{
	{Name: "scale_expr", File: genesisFile, Func: "GenesisChainConfig", Loc: "assign:scale",
		Subst: map[string]string{"conf.L": "l", "conf.K": "k"}, Vars: []string{"l", "k"}},
	{Name: "kc_min", File: genesisFile, Func: "genConsensusPayload", Loc: "cmp:<:rhs#0",
		Subst: map[string]string{"cfg.C": "c"}, Vars: []string{"c"}},
	{Name: "kl_min", File: genesisFile, Func: "genConsensusPayload", Loc: "cmp:<:rhs#1",
		Subst: map[string]string{"cfg.K": "k"}, Vars: []string{"k"}},
}

// floatVars maps the printed Go operand of a float64(...) conversion to the Coq parameter.
var floatVars = map[string]string{
	"peers[i].InitPos": "pos",
	"scale":            "scale",
	"conf.K":           "k",
	"sum":              "sum",
}

func pr(fset *token.FileSet, n ast.Node) string {
	var b bytes.Buffer
	printer.Fprint(&b, fset, n)
	return b.String()
}

// floatToCoq translates the float fragment  float64(<known var>) | a*b | a/b | a+b | a-b | (a)
// to a term over Coq's primitive floats. Anything else is refused.
func floatToCoq(fset *token.FileSet, e ast.Expr) (string, error) {
	switch x := e.(type) {
	case *ast.ParenExpr:
		return floatToCoq(fset, x.X)
	case *ast.BinaryExpr:
		l, err := floatToCoq(fset, x.X)
		if err != nil {
			return "", err
		}
		r, err := floatToCoq(fset, x.Y)
		if err != nil {
			return "", err
		}
		op := map[token.Token]string{token.MUL: "PrimFloat.mul", token.QUO: "PrimFloat.div", token.ADD: "PrimFloat.add", token.SUB: "PrimFloat.sub"}[x.Op]
		if op == "" {
			return "", fmt.Errorf("unsupported float operator %s", x.Op)
		}
		return "(" + op + " " + l + " " + r + ")", nil
	case *ast.CallExpr:
		if id, ok := x.Fun.(*ast.Ident); ok && id.Name == "float64" && len(x.Args) == 1 {
			if v, ok := floatVars[pr(fset, x.Args[0])]; ok {
				return "(f64_of_N " + v + ")", nil
			}
			return "", fmt.Errorf("float64 of unknown operand %q", pr(fset, x.Args[0]))
		}
	}
	return "", fmt.Errorf("unsupported float expression %q", pr(fset, e))
}

// rankExpr finds `s = uint64(math.Ceil(X))` in GenesisChainConfig and returns X.
func rankExpr(repo string) (goExpr, coq string, err error) {
	fset := token.NewFileSet()
	f, perr := parser.ParseFile(fset, filepath.Join(repo, genesisFile), nil, 0)
	if perr != nil {
		return "", "", perr
	}
	var fd *ast.FuncDecl
	for _, d := range f.Decls {
		if x, ok := d.(*ast.FuncDecl); ok && x.Name.Name == "GenesisChainConfig" {
			fd = x
		}
	}
	if fd == nil {
		return "", "", fmt.Errorf("GenesisChainConfig not found")
	}
	var rhs []ast.Expr
	ast.Inspect(fd.Body, func(n ast.Node) bool {
		if as, ok := n.(*ast.AssignStmt); ok && as.Tok == token.ASSIGN && len(as.Lhs) == 1 && len(as.Rhs) == 1 {
			if id, ok := as.Lhs[0].(*ast.Ident); ok && id.Name == "s" {
				rhs = append(rhs, as.Rhs[0])
			}
		}
		return true
	})
	if len(rhs) != 1 {
		return "", "", fmt.Errorf("expected exactly one assignment `s = ...`, found %d", len(rhs))
	}
	goExpr = pr(fset, rhs[0])
	outer, ok := rhs[0].(*ast.CallExpr)
	if !ok || pr(fset, outer.Fun) != "uint64" || len(outer.Args) != 1 {
		return goExpr, "", fmt.Errorf("rank is not uint64(...)")
	}
	ceil, ok := outer.Args[0].(*ast.CallExpr)
	if !ok || pr(fset, ceil.Fun) != "math.Ceil" || len(ceil.Args) != 1 {
		return goExpr, "", fmt.Errorf("rank is not uint64(math.Ceil(...))")
	}
	coq, err = floatToCoq(fset, ceil.Args[0])
	return goExpr, coq, err
}

func produce(repo string) ([]byte, []string) {
	var errs []string
	var rs []gen.SiteResult
	for _, s := range Sites {
		r := gen.TranslateSite(repo, s)
		if r.Err != "" {
			errs = append(errs, s.Name+": "+r.Err)
		}
		rs = append(rs, r)
	}
	var b bytes.Buffer
	b.Write(gen.EmitSites("", rs))
	b.WriteString("\n(* ---- float rank expression (own translator, harness/drivers/c30/gen.go) ---- *)\n")
	b.WriteString("From Coq Require Import NArith Floats.\nFrom Ont Require Import Lib.F64.\n")
	goExpr, coq, err := rankExpr(repo)
	fmt.Fprintf(&b, "(* rank_float : %s, func GenesisChainConfig, the assignment `s = ...`\n   Go: %s\n   required shape uint64(math.Ceil(X)); X below *)\n", genesisFile, strings.ReplaceAll(goExpr, "*)", "* )"))
	if err != nil {
		errs = append(errs, "rank_float: "+err.Error())
		fmt.Fprintf(&b, "Definition translator_broken_rank_float : unit := tt. (* %s *)\n", strings.ReplaceAll(err.Error(), "*)", "* )"))
	} else {
		fmt.Fprintf(&b, "Definition rank_float (pos scale k sum : N) : PrimFloat.float :=\n  %s.\n", coq)
	}
	// FNV-1a 64 constants of the linked hash/fnv: offset = hash of the empty string; the prime is
	// recovered from the hash of the single byte 0: (offset xor 0) * prime mod 2^64.
	h := fnv.New64a()
	off := h.Sum64()
	h.Write([]byte{0})
	h1 := h.Sum64()
	m := new(big.Int).Lsh(big.NewInt(1), 64)
	inv := new(big.Int).ModInverse(new(big.Int).SetUint64(off), m)
	prime := new(big.Int).Mul(new(big.Int).SetUint64(h1), inv)
	prime.Mod(prime, m)
	b.WriteString("\n(* hash/fnv New64a, obtained by running the linked package *)\n")
	fmt.Fprintf(&b, "Definition fnv_offset64 : N := %d%%N.\nDefinition fnv_prime64 : N := %s%%N.\n", off, prime.String())
	return b.Bytes(), errs
}

func init() {
	gen.RegisterFile("ChainConfigGen.v", produce)
}
