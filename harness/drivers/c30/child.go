package c30

import (
	"bufio"
	"encoding/hex"
	"encoding/json"
	"fmt"
	"io"
	"os"
	"os/exec"
	"runtime"
	"strings"
	"sync/atomic"
	"time"

	vconfig "github.com/ontio/ontology/consensus/vbft/config"

	"verif/harness/hx"
)

// Every call of GenesisChainConfig / genConsensusPayload runs in a child process (the harness
// binary re-executed with VERIF_C30_CHILD=1): a changed implementation may compute a huge rank
// and then append to PosTable until memory is exhausted, which recover() cannot stop. The child
// serves one JSON request per line; a watchdog inside it ends the process when the heap passes
// childHeapCap or one request runs longer than childReqSeconds, after printing a "blowup" line;
// the parent additionally enforces a wall-clock timeout and restarts the child.

const (
	childEnv        = "VERIF_C30_CHILD"
	childHeapCap    = 256 << 20 // legitimate tables in this driver have <= 320 entries
	childReqSeconds = 4
	parentTimeout   = 40 * time.Second
)

type childReq struct {
	Kind  string   `json:"kind"` // config | payload
	In    input    `json:"in"`
	Peers []peerIn `json:"peers"` // the ordering to run
}

type childResp struct {
	Blowup string `json:"blowup,omitempty"`
	R      result `json:"r"`
	// payload only
	PayloadErr   string   `json:"payload_err,omitempty"`
	PayloadPanic string   `json:"payload_panic,omitempty"`
	PayloadCfg   *result  `json:"payload_cfg,omitempty"`
	PayloadBad   string   `json:"payload_bad,omitempty"`
	After        []peerIn `json:"after,omitempty"`
}

var reqStart atomic.Int64 // unix nanos of the request in progress, 0 when idle

func init() {
	if os.Getenv(childEnv) == "" {
		return
	}
	go func() {
		var ms runtime.MemStats
		for {
			time.Sleep(5 * time.Millisecond)
			runtime.ReadMemStats(&ms)
			why := ""
			if ms.HeapAlloc > childHeapCap {
				why = fmt.Sprintf("heap %d MiB", ms.HeapAlloc>>20)
			} else if t := reqStart.Load(); t != 0 && time.Since(time.Unix(0, t)) > childReqSeconds*time.Second {
				why = fmt.Sprintf("no result after %d s", childReqSeconds)
			}
			if why != "" {
				b, _ := json.Marshal(childResp{Blowup: why})
				os.Stdout.Write(append(b, '\n'))
				os.Exit(7)
			}
		}
	}()
	rd := bufio.NewReaderSize(os.Stdin, 1<<20)
	for {
		line, err := rd.ReadBytes('\n')
		if len(line) > 0 {
			var q childReq
			if e := json.Unmarshal(line, &q); e != nil {
				fmt.Fprintln(os.Stderr, "child: bad request:", e)
				os.Exit(3)
			}
			reqStart.Store(time.Now().UnixNano())
			resp := serve(&q)
			reqStart.Store(0)
			b, _ := json.Marshal(resp)
			os.Stdout.Write(append(b, '\n'))
		}
		if err != nil {
			os.Exit(0)
		}
	}
}

// serve performs one call on the implementation (child side).
func serve(q *childReq) childResp {
	var resp childResp
	in := &q.In
	switch q.Kind {
	case "config":
		resp.R = callGenesis(in, q.Peers)
	case "payload":
		cfg := in.conf()
		cfg.Peers = mkPeers(q.Peers)
		var out []byte
		var err error
		p, msg := hx.Recover(func() { out, err = vconfig.VerifGenConsensusPayload(cfg, txid(in), in.Height) })
		if p {
			resp.PayloadPanic = msg
			return resp
		}
		for _, x := range cfg.Peers {
			resp.After = append(resp.After, peerIn{x.Index, hex.EncodeToString([]byte(x.PeerPubkey)), x.InitPos})
		}
		if err != nil {
			resp.PayloadErr = err.Error()
			return resp
		}
		var info struct {
			NewChainConfig *vconfig.ChainConfig `json:"new_chain_config"`
		}
		if e := json.Unmarshal(out, &info); e != nil || info.NewChainConfig == nil {
			resp.PayloadBad = fmt.Sprint(e)
			return resp
		}
		r := project(info.NewChainConfig)
		resp.PayloadCfg = &r
	}
	return resp
}

// callGenesis: one execution of the real GenesisChainConfig on the peers in the given order.
func callGenesis(in *input, ps []peerIn) result {
	var r result
	var cc *vconfig.ChainConfig
	var err error
	p, msg := hx.Recover(func() {
		cc, err = vconfig.GenesisChainConfig(in.conf(), mkPeers(ps), txid(in), in.Height)
	})
	switch {
	case p:
		r.Err, r.PanicMsg = "EPanic", msg
	case err != nil && strings.Contains(err.Error(), "L is equal or less than K"):
		r.Err = "EScale"
	case err != nil:
		r.Err = "other:" + err.Error()
	default:
		r = project(cc)
	}
	return r
}

// ---- parent side ----

type worker struct {
	cmd   *exec.Cmd
	stdin io.WriteCloser
	lines chan []byte
}

var (
	theWorker *worker
	blowups   int
)

func startWorker() *worker {
	exe, err := os.Executable()
	if err != nil {
		panic(err)
	}
	cmd := exec.Command(exe)
	cmd.Env = append(os.Environ(), childEnv+"=1", "GOMEMLIMIT=512MiB")
	cmd.Stderr = io.Discard
	in, err := cmd.StdinPipe()
	if err != nil {
		panic(err)
	}
	out, err := cmd.StdoutPipe()
	if err != nil {
		panic(err)
	}
	if err := cmd.Start(); err != nil {
		panic(err)
	}
	w := &worker{cmd: cmd, stdin: in, lines: make(chan []byte, 4)}
	go func() {
		rd := bufio.NewReaderSize(out, 1<<20)
		for {
			line, err := rd.ReadBytes('\n')
			if len(line) > 0 && line[0] == '{' { // anything else is log noise
				w.lines <- line
			}
			if err != nil {
				close(w.lines)
				return
			}
		}
	}()
	return w
}

func (w *worker) stop() {
	w.stdin.Close()
	w.cmd.Process.Kill()
	w.cmd.Wait()
}

func stopWorker() {
	if theWorker != nil {
		theWorker.stop()
		theWorker = nil
	}
}

// call sends one request; a blow-up (watchdog, death of the child, no answer) is reported in
// resp.Blowup and the child is replaced.
func call(q *childReq) childResp {
	if theWorker == nil {
		theWorker = startWorker()
	}
	w := theWorker
	b, _ := json.Marshal(q)
	var resp childResp
	fail := func(why string) childResp {
		blowups++
		w.stop()
		theWorker = nil
		return childResp{Blowup: why}
	}
	if _, err := w.stdin.Write(append(b, '\n')); err != nil {
		return fail("child not accepting requests: " + err.Error())
	}
	select {
	case line, ok := <-w.lines:
		if !ok {
			return fail("child process died (killed or fatal runtime error, e.g. out of memory)")
		}
		if err := json.Unmarshal(line, &resp); err != nil {
			return fail("unreadable answer: " + err.Error())
		}
		if resp.Blowup != "" {
			return fail(resp.Blowup)
		}
		return resp
	case <-time.After(parentTimeout):
		return fail(fmt.Sprintf("no answer within %s", parentTimeout))
	}
}
