// Package c30: the VBFT chain configuration as a function of the stake set
// (consensus/vbft/config/genesis.go: GenesisChainConfig, genConsensusPayload, shuffle_hash).
//
// Correspondence: peer sets (equal / zero / huge stakes, adversarial key strings, random input
// orders) through the real GenesisChainConfig; the resulting ChainConfig (or error / panic) is
// recorded and re-computed by the Coq model (Model/ChainConfig.v, float rank on Coq's primitive
// floats, FNV-1a/JSON shuffle hash modelled too and validated on separate hash cases).
// Oracle (implementation only): same result for 20 random permutations of each input, exactly
// the K highest-staked peers selected, every selected peer has >= 1 slot, slot counts
// non-increasing in stake, PosTable only names selected peers.
package c30

import (
	"encoding/hex"
	"encoding/json"
	"fmt"
	"math"
	"sort"
	"strings"
	"time"

	"github.com/ontio/ontology/common"
	"github.com/ontio/ontology/common/config"
	vconfig "github.com/ontio/ontology/consensus/vbft/config"

	"verif/harness/hx"
)

func init() { hx.Register("C30", Run) }

type peerIn struct {
	Index uint32 `json:"index"`
	Key   string `json:"key"` // hex of the raw bytes of PeerPubkey (any bytes)
	Stake uint64 `json:"stake"`
}

type input struct {
	C          uint32   `json:"c"`
	K          uint32   `json:"k"`
	L          uint32   `json:"l"`
	BlockDelay uint32   `json:"block_delay"`
	HashDelay  uint32   `json:"hash_delay"`
	Handshake  uint32   `json:"handshake"`
	MaxView    uint32   `json:"max_view"`
	Peers      []peerIn `json:"peers"`
	Txid       string   `json:"txid"`
	Height     uint32   `json:"height"`
	// a second ordering of Peers on which the implementation answered differently (set in
	// failing inputs; replayed first)
	AltOrder []peerIn `json:"alt_order,omitempty"`
}

type result struct {
	Err      string      `json:"err"` // "" | "EPanic" | "EScale" | "other:<msg>" | "blowup:<why>"
	Misc     [8]uint64   `json:"misc"`
	Peers    [][2]string `json:"peers"` // index, hex key
	PosTable []uint32    `json:"pos_table"`
	PanicMsg string      `json:"panic_msg,omitempty"`
}

func (r result) blewUp() bool { return strings.HasPrefix(r.Err, "blowup:") }

func (r result) canon() string {
	if r.Err != "" {
		return r.Err
	}
	return fmt.Sprint(r.Misc, r.Peers, r.PosTable)
}

func (in *input) conf() *config.VBFTConfig {
	return &config.VBFTConfig{C: in.C, K: in.K, L: in.L, BlockMsgDelay: in.BlockDelay, HashMsgDelay: in.HashDelay,
		PeerHandshakeTimeout: in.Handshake, MaxBlockChangeView: in.MaxView}
}

func mkPeers(ps []peerIn) []*config.VBFTPeerStakeInfo {
	out := make([]*config.VBFTPeerStakeInfo, len(ps))
	for i, p := range ps {
		out[i] = &config.VBFTPeerStakeInfo{Index: p.Index, PeerPubkey: string(hx.UnHex(p.Key)), InitPos: p.Stake}
	}
	return out
}

func txid(in *input) common.Uint256 {
	var t common.Uint256
	copy(t[:], hx.UnHex(in.Txid))
	return t
}

func project(cc *vconfig.ChainConfig) result {
	var r result
	r.Misc = [8]uint64{uint64(cc.Version), uint64(cc.View), uint64(cc.N), uint64(cc.C), uint64(cc.BlockMsgDelay),
		uint64(cc.HashMsgDelay), uint64(cc.PeerHandshakeTimeout), uint64(cc.MaxBlockChangeView)}
	for _, p := range cc.Peers {
		if p == nil {
			r.Peers = append(r.Peers, [2]string{"nil", ""})
			continue
		}
		r.Peers = append(r.Peers, [2]string{fmt.Sprint(p.Index), hex.EncodeToString([]byte(p.ID))})
	}
	r.PosTable = append([]uint32{}, cc.PosTable...)
	return r
}

// runImpl: one execution of the real GenesisChainConfig on the peers in the given order, in the
// guarded child process (child.go).
func runImpl(c *hx.Ctx, in *input, ps []peerIn) result {
	c.Eval()
	q := *in
	q.AltOrder = nil
	resp := call(&childReq{Kind: "config", In: q, Peers: ps})
	if resp.Blowup != "" {
		return result{Err: "blowup:" + resp.Blowup}
	}
	return resp.R
}

// ---- gating: never ask the implementation to build a gigantic table ----

// stakeTotalWraps: the sum of ALL stakes reaches 2^64 (then the top-K sum may wrap).
func stakeTotalWraps(ps []peerIn) bool {
	var s uint64
	for _, p := range ps {
		if s+p.Stake < s {
			return true
		}
		s += p.Stake
	}
	return false
}

// predictedSlots is used only to decide whether an input is safe to run (table size); it is
// not an oracle. Returns -1 when a rank would leave the uint64 range.
func predictedSlots(in *input) int64 {
	if in.K == 0 || int(in.K) > len(in.Peers) {
		return 0
	}
	ps := append([]peerIn{}, in.Peers...)
	sort.SliceStable(ps, func(i, j int) bool {
		if ps[i].Stake != ps[j].Stake {
			return ps[i].Stake > ps[j].Stake
		}
		return string(hx.UnHex(ps[i].Key)) > string(hx.UnHex(ps[j].Key))
	})
	var sum uint64
	for i := 0; i < int(in.K); i++ {
		sum += ps[i].Stake
	}
	scale := in.L/in.K - 1
	var tot float64
	for i := 0; i < int(in.K); i++ {
		f := 1.0
		if sum > 0 && ps[i].Stake > 0 {
			f = math.Ceil(float64(ps[i].Stake) * float64(scale) * float64(in.K) / float64(sum))
		}
		if f >= 18446744073709551616.0 {
			return -1
		}
		tot += f
	}
	if tot > 1e15 {
		return 1e15
	}
	return int64(tot)
}

const maxSlots = 320

func safeToRun(in *input) bool {
	if in.K != 0 && int(in.K) <= len(in.Peers) {
		scale := in.L/in.K - 1 // wraps like the code when L < K
		if !stakeTotalWraps(in.Peers) {
			// without wrap the table has at most about scale*K + K entries
			return uint64(scale)*uint64(in.K)+uint64(in.K) <= maxSlots
		}
		n := predictedSlots(in)
		return n >= 0 && n <= maxSlots
	}
	return true // panics before any table is built
}

// ---- Coq printers ----

func coqConf(in *input) string {
	return fmt.Sprintf("(mkConf %d %d %d %d %d %d %d)", in.C, in.K, in.L, in.BlockDelay, in.HashDelay, in.Handshake, in.MaxView)
}

func coqPeers(ps []peerIn) string {
	var s []string
	for _, p := range ps {
		s = append(s, fmt.Sprintf("mkPeer %d %s %d", p.Index, hx.CoqBytes(hx.UnHex(p.Key)), p.Stake))
	}
	return hx.CoqList(s)
}

func coqRes(r result) string {
	switch r.Err {
	case "":
		var ps, pt []string
		for _, p := range r.Peers {
			ps = append(ps, fmt.Sprintf("(%s, %s)", p[0], hx.CoqBytes(hx.UnHex(p[1]))))
		}
		for _, x := range r.PosTable {
			pt = append(pt, fmt.Sprint(x))
		}
		m := r.Misc
		return fmt.Sprintf("(ROk %d %d %d %d %d %d %d %d %s %s)", m[0], m[1], m[2], m[3], m[4], m[5], m[6], m[7], hx.CoqList(ps), hx.CoqList(pt))
	case "EPanic", "EScale":
		return "(RErr " + r.Err + ")"
	}
	return "ROther"
}

// ---- the oracle, on the implementation's answer only ----

func validParams(in *input) bool {
	// the checks genConsensusPayload applies ("valid K, L, C"), evaluated in wide arithmetic
	// plus the absence of uint32 wrap in them
	c, k, l := uint64(in.C), uint64(in.K), uint64(in.L)
	return c > 0 && k <= uint64(len(in.Peers)) && k >= 2*c+1 && l%k == 0 && l >= 2*k && 2*k < 1<<32
}

func distinct(in *input) (keys, idx bool) {
	ks, is := map[string]bool{}, map[uint32]bool{}
	keys, idx = true, true
	for _, p := range in.Peers {
		if ks[p.Key] {
			keys = false
		}
		if is[p.Index] {
			idx = false
		}
		ks[p.Key], is[p.Index] = true, true
	}
	return
}

// specLess is the order the property prescribes (stake descending, then key descending); used
// only to build input orderings, never to judge a result.
func specLess(a, b peerIn) bool {
	if a.Stake != b.Stake {
		return a.Stake > b.Stake
	}
	return string(hx.UnHex(a.Key)) > string(hx.UnHex(b.Key))
}

// orderings: the deterministic input orders most likely to expose a dependence on the input
// order (highest first, lowest first = the K smallest in front, the K smallest in front followed
// by the rest highest first), then random ones.
func orderings(c *hx.Ctx, in *input, nrand int) (names []string, out [][]peerIn) {
	add := func(n string, ps []peerIn) { names, out = append(names, n), append(out, ps) }
	if len(in.AltOrder) == len(in.Peers) && len(in.AltOrder) > 0 {
		add("alt_order", in.AltOrder)
	}
	desc := append([]peerIn{}, in.Peers...)
	sort.SliceStable(desc, func(i, j int) bool { return specLess(desc[i], desc[j]) })
	add("highest-stake-first", desc)
	asc := make([]peerIn, len(desc))
	for i := range desc {
		asc[len(desc)-1-i] = desc[i]
	}
	add("lowest-stake-first", asc)
	if k := int(in.K); k > 0 && k < len(desc) {
		mixed := append([]peerIn{}, asc[:k]...)
		mixed = append(mixed, desc[:len(desc)-k]...)
		add("k-smallest-then-highest-first", mixed)
	}
	for t := 0; t < nrand; t++ {
		ps := append([]peerIn{}, in.Peers...)
		c.Rng.Shuffle(len(ps), func(i, j int) { ps[i], ps[j] = ps[j], ps[i] })
		add("random", ps)
	}
	return
}

// orderOracle runs first and is cheap: the configuration (whole result, errors included) must be
// the same for every ordering of the same peer set. Returns false when it already failed.
func orderOracle(c *hx.Ctx, in *input, r result) bool {
	names, ords := orderings(c, in, 14)
	for i, ps := range ords {
		r2 := runImpl(c, in, ps)
		if r2.canon() == r.canon() {
			continue
		}
		bad := *in
		bad.AltOrder = ps
		if r2.blewUp() {
			c.Fail("cfg:blowup", "GenesisChainConfig did not return on a reordering of a peer set it handles in another order (memory/time guard of the child process)",
				bad, map[string]interface{}{"ordering": names[i], "alt_order": r2.Err, "peers_order": short(r.canon())},
				fmt.Sprintf("the same configuration as for the order `peers`; position table of about %d entries expected", predictedSlots(in)))
		} else {
			c.Fail("order-dependence", "the configuration differs between two orderings (peers, alt_order) of the same peer set",
				bad, map[string]interface{}{"ordering": names[i], "alt_order": short(r2.canon()), "peers_order": short(r.canon()),
					"pos_table_len_alt": len(r2.PosTable), "pos_table_len_peers": len(r.PosTable)}, "identical configurations")
		}
		return false
	}
	c.Count("oracle:orderings-checked")
	return true
}

func oracle(c *hx.Ctx, in *input, r result) {
	dk, di := distinct(in)
	if !dk {
		c.Count("oracle:skipped-duplicate-keys")
		return
	}
	// 1. determinism over input orders (any parameters, errors included)
	if !orderOracle(c, in, r) {
		return
	}
	if !validParams(in) || !di {
		c.Count("oracle:invalid-params-or-dup-index(order-only)")
		return
	}
	if stakeTotalWraps(in.Peers) {
		// outside the property's domain for the slot clauses (uint64 stake sum wraps)
		c.Count("oracle:stake-sum-wraps(order-only)")
		return
	}
	if r.Err != "" {
		c.Fail("valid-config-rejected:"+r.Err, "a valid configuration produced no ChainConfig", in, r.Err+" "+r.PanicMsg, "a ChainConfig")
		return
	}
	// 2. exactly the K highest-staked peers
	byIdx := map[string]peerIn{}
	for _, p := range in.Peers {
		byIdx[fmt.Sprint(p.Index)] = p
	}
	sel := map[string]bool{}
	ok := len(r.Peers) == int(in.K) && r.Misc[2] == uint64(in.K) && r.Misc[3] == uint64(in.C)
	minSel := uint64(math.MaxUint64)
	for _, p := range r.Peers {
		q, found := byIdx[p[0]]
		if !found || q.Key != p[1] || sel[p[0]] {
			ok = false
			break
		}
		sel[p[0]] = true
		if q.Stake < minSel {
			minSel = q.Stake
		}
	}
	if ok {
		for _, p := range in.Peers {
			if !sel[fmt.Sprint(p.Index)] && p.Stake > minSel {
				ok = false
			}
		}
	}
	if !ok {
		c.Fail("top-k", "Peers is not exactly the K highest-staked peers of the input (N=K, C=C)", in, r.Peers, "K distinct input peers, none outside with a larger stake")
		return
	}
	// 3. slots
	cnt := map[string]int{}
	for _, x := range r.PosTable {
		cnt[fmt.Sprint(x)]++
		if !sel[fmt.Sprint(x)] {
			c.Fail("postable-foreign", "PosTable names a peer that was not selected", in, x, "selected indices only")
			return
		}
	}
	for a := range sel {
		if cnt[a] < 1 {
			c.Fail("slot-missing", "a selected peer has no slot in the position table", in, map[string]interface{}{"index": a, "pos_table": r.PosTable}, ">= 1 slot")
			return
		}
		for b := range sel {
			if byIdx[a].Stake <= byIdx[b].Stake && cnt[a] > cnt[b] {
				c.Fail("slots-not-monotone", "a peer with a smaller or equal stake has more slots", in,
					map[string]interface{}{"index_a": a, "stake_a": byIdx[a].Stake, "slots_a": cnt[a], "index_b": b, "stake_b": byIdx[b].Stake, "slots_b": cnt[b]}, "slots non-increasing in stake")
				return
			}
		}
	}
	c.Count("oracle:full")
}

// payloadCheck drives genConsensusPayload (hook) and records which parameter check fired.
func payloadCheck(c *hx.Ctx, in *input, direct result) {
	before := fmt.Sprint(in.Peers)
	c.Eval()
	q := *in
	q.AltOrder = nil
	resp := call(&childReq{Kind: "payload", In: q, Peers: in.Peers})
	if resp.Blowup != "" {
		c.Count("payload:blowup")
		c.Fail("cfg:blowup", "genConsensusPayload did not return (memory/time guard of the child process)", in, resp.Blowup,
			fmt.Sprintf("a payload; position table of about %d entries expected", predictedSlots(in)))
		return
	}
	e := resp.PayloadErr
	code := ""
	switch {
	case resp.PayloadPanic != "":
		code = "panic"
	case e == "":
		code = "None"
	case strings.Contains(e, "C must larger than zero"):
		code = "(Some PCzero)"
	case strings.Contains(e, "peer count is less than K"):
		code = "(Some PPeerCount)"
	case strings.Contains(e, "invalid config, K:") && strings.Contains(e, "C:"):
		code = "(Some PKC)"
	case strings.Contains(e, "invalid config, K:") && strings.Contains(e, "L:"):
		code = "(Some PKL)"
	case strings.Contains(e, "L is equal or less than K"):
		code = "None" // passed the parameter checks, GenesisChainConfig refused
	default:
		code = "other"
	}
	c.Count("payload:" + code)
	if code == "panic" {
		c.Fail("payload-panic", "genConsensusPayload panicked", in, resp.PayloadPanic, "error or payload")
		return
	}
	if code == "other" {
		c.Note("unclassified genConsensusPayload error: " + e)
		return
	}
	c.Case(fmt.Sprintf("CPayload %s %s %s", coqConf(in), hx.CoqNat(len(in.Peers)), code),
		map[string]interface{}{"kind": "payload", "in": in})
	// the caller's peer list must be left alone (deep copy)
	if fmt.Sprint(resp.After) != before {
		c.Fail("payload-mutates-config", "genConsensusPayload reordered the caller's peer list", in, resp.After, in.Peers)
	}
	if e == "" && asciiKeys(in) {
		if resp.PayloadCfg == nil {
			c.Fail("payload-undecodable", "payload does not decode to a block info with a chain config", in, resp.PayloadBad, nil)
			return
		}
		if got := *resp.PayloadCfg; got.canon() != direct.canon() {
			c.Fail("payload-differs", "chain config inside the payload differs from GenesisChainConfig on the same input", in, got.canon(), direct.canon())
		}
	}
}

func asciiKeys(in *input) bool {
	for _, p := range in.Peers {
		for _, b := range hx.UnHex(p.Key) {
			if b >= 0x80 {
				return false
			}
		}
	}
	return true
}

func doCase(c *hx.Ctx, in *input, kind string) {
	if !safeToRun(in) {
		c.Count("skipped:table-too-large-or-rank-out-of-range")
		return
	}
	r := runImpl(c, in, in.Peers)
	if r.blewUp() {
		// the specification predicts a small table (safeToRun) and the implementation did not return
		c.Count("result:blowup")
		c.Fail("cfg:blowup", "GenesisChainConfig did not return (memory/time guard of the child process)", in, r.Err,
			fmt.Sprintf("a configuration; position table of about %d entries expected", predictedSlots(in)))
		return
	}
	if strings.HasPrefix(r.Err, "other:") {
		// an error the model does not have: a correspondence mismatch (ROther), and a property
		// failure only if the parameters were valid (oracle below)
		c.Count("result:unmodelled-error")
	}
	c.Count("kind:" + kind)
	c.Count(fmt.Sprintf("peers<=%d", bucket(len(in.Peers))))
	if int(in.K) < len(in.Peers) && in.K > 0 {
		c.Count("candidates>K")
	}
	if r.Err == "" {
		c.Count(fmt.Sprintf("postable<=%d", bucket(len(r.PosTable))))
		c.Count("result:ok")
	} else if !strings.HasPrefix(r.Err, "other:") {
		c.Count("result:" + r.Err)
	}
	// the order oracle first (cheap, and the most likely to find a failing input)
	oracle(c, in, r)
	if len(in.Peers) >= 2 && r.Err == "" {
		c.Nontrivial(fmt.Sprint(in.C, in.K, in.L, in.Peers, in.Txid, in.Height))
	}
	c.Sample(map[string]interface{}{"kind": kind, "in": in, "err": r.Err, "peers": r.Peers, "pos_table": r.PosTable})
	if len(r.PosTable) <= 4*maxSlots {
		c.Case(fmt.Sprintf("CConfig %s %s %s %d %s", coqConf(in), coqPeers(in.Peers), hx.CoqBytes(hx.UnHex(in.Txid)), in.Height, coqRes(r)),
			map[string]interface{}{"kind": kind, "in": in})
	} else {
		c.Count("coq-case-omitted:table-larger-than-specified")
	}
	payloadCheck(c, in, r)
}

func short(s string) string {
	if len(s) > 700 {
		return s[:700] + fmt.Sprintf("... (%d characters)", len(s))
	}
	return s
}

func bucket(n int) int {
	for _, b := range []int{0, 1, 2, 4, 8, 16, 32, 64, 128, 256, 512, 1024} {
		if n <= b {
			return b
		}
	}
	return 1 << 20
}

// ---- generators ----

var specialBytes = []byte{'"', '\\', '<', '>', '&', '\n', '\r', '\t', 0x08, 0x0c, 0x01, 0x1f, 0x7f, ' ', '/', '\''}

func genKey(c *hx.Ctx, style int) []byte {
	switch style {
	case 0: // realistic: 66 hex characters (compressed P-256 key), common prefix 02/03
		b := []byte("0" + string("23"[c.Intn(2)]))
		b = append(b, []byte(hex.EncodeToString(c.Bytes(32)))...)
		return b
	case 1: // short alphanumerics, many shared prefixes
		n := c.Intn(4)
		b := make([]byte, n)
		for i := range b {
			b[i] = "ab"[c.Intn(2)]
		}
		return b
	case 2: // printable ASCII with JSON-special characters
		n := 1 + c.Intn(6)
		b := make([]byte, n)
		for i := range b {
			if c.Intn(3) == 0 {
				b[i] = specialBytes[c.Intn(len(specialBytes))]
			} else {
				b[i] = byte(0x20 + c.Intn(0x5f))
			}
		}
		return b
	default: // shared long prefix, differing tail
		b := []byte("02aabbccddeeff00112233445566778899")
		return append(b, []byte(fmt.Sprintf("%02x", c.Intn(256)))...)
	}
}

func genStake(c *hx.Ctx, style int, base uint64) uint64 {
	switch style {
	case 0: // all equal
		return base
	case 1: // all zero
		return 0
	case 2: // some zero, few distinct values
		return []uint64{0, 0, base, base, base + 1, 2 * base}[c.Intn(6)]
	case 3: // realistic ONT stakes
		return uint64(1000 + c.Intn(1000000))
	case 4: // around float53 boundaries, no wrap of the sum (< 2^58)
		return []uint64{1 << 53, 1<<53 + 1, 1<<53 - 1, 1<<54 + 2, 1<<54 + 3, 1<<57 + 129, 1 << 52, 3}[c.Intn(8)] + uint64(c.Intn(3))
	case 5: // huge: sums may wrap mod 2^64
		return []uint64{1 << 63, 1<<63 + 1, math.MaxUint64, math.MaxUint64 - 1, 1 << 62, 1<<64 - 1<<11, 1<<64 - 1<<10 - 1, 5}[c.Intn(8)]
	case 6: // tiny
		return uint64(c.Intn(4))
	case 8: // a few tiny stakes among large ones
		if c.Intn(3) == 0 {
			return uint64(1 + c.Intn(3))
		}
		return []uint64{1000000, 5000000, 1 << 30, 1 << 40}[c.Intn(4)] + uint64(c.Intn(1000))
	default:
		return c.U64Boundary() >> uint(c.Intn(20))
	}
}

func genInput(c *hx.Ctx) (*input, string) {
	in := &input{}
	n := 1 + c.Intn(9)
	if n < 3 && c.Intn(3) != 0 {
		n += 3
	}
	if c.Intn(12) == 0 {
		n = 10 + c.Intn(12)
	}
	keyStyle := []int{0, 1, 1, 2, 2, 3, 3, 1}[c.Intn(8)]
	stakeStyle := []int{0, 1, 2, 3, 4, 5, 6, 7, 8, 8, 8, 3}[c.Intn(12)]
	base := []uint64{1, 7, 1000, 1 << 40}[c.Intn(4)]
	seenK, seenI := map[string]bool{}, map[uint32]bool{}
	dupOK := c.Intn(25) == 0 // rarely allow duplicate keys / indexes (correspondence only)
	for len(in.Peers) < n {
		k := genKey(c, keyStyle)
		idx := uint32(1 + c.Intn(3*n+3))
		if c.Intn(20) == 0 {
			idx = uint32(c.U64Boundary())
		}
		hk := hex.EncodeToString(k)
		if !dupOK && (seenK[hk] || seenI[idx]) {
			if keyStyle == 1 && len(seenK) >= 12 {
				keyStyle = 2
			}
			continue
		}
		seenK[hk], seenI[idx] = true, true
		in.Peers = append(in.Peers, peerIn{Index: idx, Key: hk, Stake: genStake(c, stakeStyle, base)})
	}
	kind := fmt.Sprintf("stake%d", stakeStyle)
	// parameters: mostly valid
	switch c.Intn(10) {
	case 0: // anything
		in.K = uint32(c.Intn(n + 3))
		in.C = uint32(c.Intn(4))
		in.L = uint32(c.Intn(64))
		kind += "/params-random"
	case 1: // boundary breakers
		in.K = uint32(1 + c.Intn(n))
		in.C = (in.K - 1) / 2
		switch c.Intn(5) {
		case 0:
			in.L = in.K // scale 0
		case 1:
			in.L = uint32(c.Intn(int(in.K))) // L < K: L/K-1 wraps
		case 2:
			in.K = uint32(n + 1 + c.Intn(3)) // too few peers: panic
			in.L = 2 * in.K
		case 3:
			in.K = 0
			in.L = 8
		default:
			in.C = 0
			in.L = 2 * in.K
		}
		kind += "/params-boundary"
	default:
		in.K = uint32(1 + c.Intn(n))
		if c.Intn(3) == 0 {
			in.K = uint32(n)
		}
		if in.K < 3 && n >= 3 && c.Intn(8) != 0 {
			in.K = uint32(3 + c.Intn(n-2))
		}
		if n >= 4 && c.Intn(3) == 0 { // more candidates than K: n in K+1..K+5
			d := 1 + c.Intn(5)
			if n-d < 3 {
				d = n - 3
			}
			in.K = uint32(n - d)
		}
		maxC := (in.K - 1) / 2
		in.C = maxC
		if maxC > 0 && c.Intn(3) == 0 {
			in.C = 1 + uint32(c.Intn(int(maxC)))
		}
		in.L = in.K * uint32(2+c.Intn(5))
		if c.Intn(5) == 0 {
			in.L = in.K * uint32(2+c.Intn(24))
		}
		kind += "/params-valid"
	}
	in.BlockDelay, in.HashDelay, in.Handshake, in.MaxView = uint32(c.U64Boundary()), uint32(c.U64Boundary()), uint32(c.U64Boundary()), uint32(c.U64Boundary())
	in.Txid = hex.EncodeToString(c.Bytes(32))
	in.Height = uint32(c.U64Boundary())
	return in, kind
}

// hashCases validates the modelled shuffle_hash (JSON text + FNV-1a) against the real one.
func hashCases(c *hx.Ctx, n int) {
	for i := 0; i < n; i++ {
		var t common.Uint256
		copy(t[:], c.Bytes(32))
		if c.Intn(8) == 0 {
			t = common.Uint256{}
		}
		height := uint32(c.U64Boundary())
		id := genKey(c, c.Intn(4))
		idx := c.Intn(5000)
		if c.Intn(4) == 0 {
			idx = int(c.U64Boundary() >> 1)
		}
		c.Eval()
		h, err := vconfig.VerifShuffleHash(t, height, string(id), idx)
		if err != nil {
			c.Fail("shuffle-hash-error", "shuffle_hash failed", map[string]interface{}{"id": hx.Hex(id), "idx": idx}, err.Error(), nil)
			continue
		}
		c.Count("hash-case")
		c.Case(fmt.Sprintf("CHash %s %d %s %d %d", hx.CoqBytes(t[:]), height, hx.CoqBytes(id), idx, h),
			map[string]interface{}{"kind": "hash", "txid": hx.Hex(t[:]), "height": height, "id": hx.Hex(id), "idx": idx})
	}
}

// floatCases: the rank expression evaluated by the Go compiler's float64 arithmetic on operand
// ranges GenesisChainConfig cannot be driven to with a small table (validates that Coq's
// primitive floats and f64_of_N agree with Go's float64 on this platform).
func floatCases(c *hx.Ctx, n int) {
	for i := 0; i < n; i++ {
		pos, sum := c.U64Boundary(), c.U64Boundary()
		scale, k := uint32(c.U64Boundary()), uint32(c.U64Boundary())
		if pos == 0 || sum == 0 || scale == 0 || k == 0 {
			continue
		}
		f := math.Ceil(float64(pos) * float64(scale) * float64(k) / float64(sum))
		if f >= 18446744073709551616.0 {
			c.Case(fmt.Sprintf("CRank %d %d %d %d None", pos, scale, k, sum), map[string]interface{}{"kind": "rank", "pos": pos, "scale": scale, "k": k, "sum": sum})
		} else {
			c.Case(fmt.Sprintf("CRank %d %d %d %d (Some %d)", pos, scale, k, sum, uint64(f)), map[string]interface{}{"kind": "rank", "pos": pos, "scale": scale, "k": k, "sum": sum})
		}
		c.Count("float-case")
	}
}

func fixedInputs() []*input {
	z := strings.Repeat("00", 32)
	mk := func(c, k, l uint32, ps ...peerIn) *input {
		return &input{C: c, K: k, L: l, BlockDelay: 10000, HashDelay: 10000, Handshake: 10, MaxView: 1000, Peers: ps, Txid: z, Height: 0}
	}
	hexs := func(s string) string { return hex.EncodeToString([]byte(s)) }
	return []*input{
		// the shape of the main-net genesis: 7 equal stakes, K=7, L=112, C=2
		mk(2, 7, 112, peerIn{1, hexs("k1"), 10000}, peerIn{2, hexs("k2"), 10000}, peerIn{3, hexs("k3"), 10000}, peerIn{4, hexs("k4"), 10000},
			peerIn{5, hexs("k5"), 10000}, peerIn{6, hexs("k6"), 10000}, peerIn{7, hexs("k7"), 10000}),
		// all zero stakes
		mk(1, 3, 6, peerIn{1, hexs("a"), 0}, peerIn{2, hexs("ab"), 0}, peerIn{3, hexs(""), 0}, peerIn{4, hexs("b"), 0}),
		// one dominant staker
		mk(1, 3, 30, peerIn{9, hexs("x"), 1 << 40}, peerIn{8, hexs("y"), 1}, peerIn{7, hexs("z"), 1}, peerIn{6, hexs("w"), 0}),
		// more candidates than K, the K smallest stakes first in the input
		mk(1, 4, 8, peerIn{1, hexs("t1"), 1}, peerIn{2, hexs("t2"), 2}, peerIn{3, hexs("t3"), 1}, peerIn{4, hexs("t4"), 3},
			peerIn{5, hexs("b1"), 1000000}, peerIn{6, hexs("b2"), 2000000}, peerIn{7, hexs("b3"), 1500000}),
		mk(1, 3, 12, peerIn{1, hexs("t1"), 1}, peerIn{2, hexs("t2"), 1}, peerIn{3, hexs("t3"), 2}, peerIn{4, hexs("b1"), 1 << 40}, peerIn{5, hexs("b2"), 1 << 41}),
		// stakes around 2^53 (float64 rounding of the operands)
		mk(1, 4, 40, peerIn{1, hexs("p"), 1<<53 + 1}, peerIn{2, hexs("q"), 1 << 53}, peerIn{3, hexs("r"), 1<<53 - 1}, peerIn{4, hexs("s"), 1<<53 + 2}),
	}
}

// budget: the driver stops generating configuration cases after this much wall time or after
// this many blow-ups of the implementation (each costs a child restart), so that one bad
// implementation cannot make the run end without a result file.
const (
	runBudget  = 150 * time.Second
	maxBlowups = 4
)

func Run(c *hx.Ctx) {
	c.CoqModule("Corr.C30")
	defer stopWorker()
	t0 := time.Now()
	var rin input
	if c.ReplayInput(&rin) {
		doCase(c, &rin, "replay")
		return
	}
	stop := func() bool {
		if blowups >= maxBlowups {
			c.Note(fmt.Sprintf("configuration cases stopped after %d blow-ups of the implementation", blowups))
			return true
		}
		if time.Since(t0) > runBudget {
			c.Note("configuration cases stopped: wall-time budget of the driver used up")
			return true
		}
		return false
	}
	for _, raw := range c.CorpusInputs() {
		var in input
		if json.Unmarshal(raw, &in) == nil {
			doCase(c, &in, "corpus")
		}
	}
	for _, in := range fixedInputs() {
		if stop() {
			break
		}
		doCase(c, in, "fixed")
	}
	n := c.N(170, 2500)
	for i := 0; i < n && !stop(); i++ {
		in, kind := genInput(c)
		doCase(c, in, kind)
		// one permuted variant also goes to the model
		if c.Intn(4) == 0 && len(in.Peers) > 1 && safeToRun(in) {
			in2 := *in
			in2.Peers = append([]peerIn{}, in.Peers...)
			c.Rng.Shuffle(len(in2.Peers), func(i, j int) { in2.Peers[i], in2.Peers[j] = in2.Peers[j], in2.Peers[i] })
			r := runImpl(c, &in2, in2.Peers)
			if !strings.HasPrefix(r.Err, "other:") && !r.blewUp() && len(r.PosTable) <= 4*maxSlots {
				c.Count("kind:permuted-variant")
				c.Case(fmt.Sprintf("CConfig %s %s %s %d %s", coqConf(&in2), coqPeers(in2.Peers), hx.CoqBytes(hx.UnHex(in2.Txid)), in2.Height, coqRes(r)),
					map[string]interface{}{"kind": "permuted", "in": in2})
			}
		}
	}
	stopWorker()
	hashCases(c, c.N(200, 3000))
	floatCases(c, c.N(240, 3000))
}
