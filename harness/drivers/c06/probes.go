package c06

// Deterministic histories run on every check (before the generated ones): the boundary block
// times of the holder deadline, accrual of ONG allowance before the deadline and payout from
// the ONT contract's pool after it, calls that fail after having written to the scratch cache,
// self-transfer, zero amounts, the governance address (never paid out), an empty pool.

import (
	"fmt"
	"math/big"

	"github.com/ontio/ontology/common"
	"github.com/ontio/ontology/common/config"

	"verif/harness/hx"
)

func small(n int) common.Address {
	var a common.Address
	a[18], a[19] = byte(n>>8), byte(n)
	return a
}

func units(n int64) string { return new(big.Int).Mul(big.NewInt(n), scale).String() }

func probes(c *hx.Ctx) {
	X, Y, Z := hexOf(small(0x21)), hexOf(small(0x22)), hexOf(small(0x23))
	O, G := hexOf(ontC), hexOf(govC)
	net := uint32(config.NETWORK_ID_POLARIS_NET)
	var dl uint32
	withNet(net, func() { dl = config.GetOntHolderUnboundDeadline() })
	h := heightFor(net, true)
	pool := new(big.Int).Div(ongCap, big.NewInt(2)).String()
	base := func() jState {
		return jState{
			Bal: map[string][]jBal{
				"ONT": {{X, units(1000)}, {Y, "2500000000"}, {G, units(77)}},
				"ONG": {{O, pool}, {X, "123456789012"}},
			},
			Allow: map[string][]jAllow{
				"ONT": {{X, Y, units(30)}, {Y, Z, "1500000000"}},
				"ONG": {{O, X, units(5)}, {X, Z, "999"}},
			},
			Offs: []jBal{{X, fmt.Sprint(dl - 1000)}, {Y, "10"}},
		}
	}
	tr := func(tok string, v2 bool, t uint32, signers []string, sts ...jTS) jCall {
		return jCall{Tok: tok, Kind: "transfer", V2: v2, States: sts, Signers: signers, Time: genesis + t, Height: h}
	}
	tf := func(tok string, v2 bool, t uint32, signers []string, caller, sender, from, to, v string) jCall {
		return jCall{Tok: tok, Kind: "transferFrom", V2: v2, Sender: sender, From: from, To: to, Value: v, Signers: signers, Caller: caller, Time: genesis + t, Height: h}
	}
	ap := func(tok string, v2 bool, t uint32, signers []string, from, to, v string) jCall {
		return jCall{Tok: tok, Kind: "approve", V2: v2, From: from, To: to, Value: v, Signers: signers, Time: genesis + t, Height: h}
	}
	seqs := []jSeq{
		// the ONT contract as calling contract spending its own approval to X, at / after the deadline second
		{Mode: "direct", Net: net, Init: base(), Calls: []jCall{
			tf("ONG", false, dl, nil, O, X, O, X, "1"),
			tf("ONG", false, dl+1, nil, O, X, O, X, "1"),
			tf("ONG", true, dl+1, nil, O, X, O, Y, "1"),
			tf("ONG", true, dl+1, nil, Z, X, O, X, "1"),
			tf("ONG", true, dl+1, []string{X}, "", X, O, X, "7"),
		}},
		// accrual before the deadline, payout after it; governance is never paid out
		{Mode: "direct", Net: net, Init: base(), Calls: []jCall{
			tr("ONT", false, dl-500, []string{X}, jTS{X, Y, "10"}),
			tr("ONT", true, dl-100, []string{X}, jTS{X, Z, "1500000001"}),
			tr("ONT", false, dl, []string{X}, jTS{X, Y, "1"}),
			tr("ONT", false, dl+1, []string{X, Y}, jTS{X, Y, "1"}, jTS{Y, X, "2"}),
			tr("ONT", true, dl+5, []string{X}, jTS{X, G, units(3)}),
			tr("ONT", true, dl+9, []string{G}, jTS{G, X, units(1)}),
			tf("ONT", false, dl+20, []string{Y}, "", Y, X, Z, "29"),
			tf("ONT", true, dl+20, []string{Y}, "", Y, X, Y, units(1)),
			tf("ONT", true, dl+20, []string{Y}, "", Y, X, Y, "1"),
		}},
		// failures after writes to the scratch cache; self-transfer; zero amounts; time going back
		{Mode: "direct", Net: net, Init: base(), Calls: []jCall{
			tr("ONT", false, dl-10, []string{X, Y}, jTS{X, Y, "5"}, jTS{Y, X, "1000"}),
			tr("ONT", false, dl-10, []string{X}, jTS{X, Z, "5"}, jTS{Y, X, "1"}),
			tf("ONT", true, dl-10, []string{Z}, "", Z, Y, X, "1500000000"),
			tf("ONT", true, dl-10, []string{Y}, "", Y, X, Z, units(30)),
			ap("ONT", false, dl-9, []string{X}, X, Y, "2000"),
			tf("ONT", false, dl-9, []string{Y}, "", Y, X, Z, "1001"),
			tr("ONT", true, dl-8, []string{X}, jTS{X, X, units(7)}, jTS{X, Y, "0"}),
			tr("ONT", false, dl-20, []string{X}, jTS{X, Y, "1"}),
			tr("ONG", true, dl-8, []string{X}, jTS{X, X, "123456789012"}, jTS{X, Y, "123456789012"}, jTS{X, Z, "1"}),
			ap("ONG", true, dl-8, []string{Y}, X, Y, "5"),
			ap("ONG", true, dl-8, []string{X}, X, Y, ongCap.String()),
			ap("ONG", true, dl-8, []string{X}, X, Y, new(big.Int).Add(ongCap, big.NewInt(1)).String()),
		}},
	}
	// an ONT movement after the deadline with an empty pool cannot pay the holder: the call fails as a whole
	empty := base()
	empty.Bal["ONG"] = []jBal{{O, units(1)}, {X, "5"}}
	seqs = append(seqs, jSeq{Mode: "direct", Net: net, Init: empty, Calls: []jCall{
		tr("ONT", false, dl+50, []string{X}, jTS{X, Y, "1"}),
		tr("ONT", false, dl+50, []string{Y}, jTS{Y, Z, "1"}),
		tr("ONT", false, dl-50, []string{X}, jTS{X, Y, "1"}),
	}})
	// contract call chains: entry script E -> vault V -> plugin P -> token contract.  Only the
	// immediate caller authorizes; the vault further down the stack does not.
	E, V, P, Q := "00000000000000000000000000000000000000e1", hexOf(small(0x31)), hexOf(small(0x32)), hexOf(small(0x33))
	chain := base()
	chain.Bal["ONT"] = append(chain.Bal["ONT"], jBal{V, units(500)}, jBal{P, units(5)})
	chain.Bal["ONG"] = append(chain.Bal["ONG"], jBal{V, units(900)}, jBal{P, "17"})
	chain.Allow["ONT"] = append(chain.Allow["ONT"], jAllow{X, V, units(20)})
	on := func(k jCall, stack ...string) jCall { k.Stack = stack; return k }
	seqs = append(seqs, jSeq{Mode: "direct", Net: net, Init: chain, Calls: []jCall{
		on(tr("ONT", false, dl-50, []string{X}, jTS{V, X, "100"}), E, V, P), // plugin drains vault: refused
		on(tr("ONG", true, dl-50, nil, jTS{V, P, "1000000007"}), E, V, P),   // same on ONG
		on(ap("ONT", true, dl-50, []string{Y}, V, P, units(400)), E, V, P),  // allowance on the vault's behalf: refused
		on(ap("ONG", false, dl-50, nil, V, P, "400"), E, V, P),
		on(tr("ONT", true, dl-50, nil, jTS{V, X, units(1)}), E, V, P, Q),          // depth 4
		on(tr("ONT", true, dl-50, nil, jTS{V, X, units(1)}), V, E, P, Q),          // vault at the bottom
		on(tf("ONT", false, dl-50, nil, "", V, X, P, "3"), E, V, P),               // vault as spender, indirect: refused
		on(tr("ONT", false, dl-50, nil, jTS{V, X, "100"}), E, V),                  // vault calls the token contract itself: ok
		on(tf("ONT", false, dl-50, nil, "", V, X, P, "3"), E, V),                  // vault spends its allowance itself: ok
		on(tr("ONT", false, dl-40, nil, jTS{P, X, "2"}), E, V, P),                 // plugin moves its own tokens: ok
		on(tr("ONG", true, dl-40, nil, jTS{P, V, "17"}, jTS{V, P, "1"}), E, V, P), // second movement refused, whole call fails
		on(tr("ONT", false, dl-40, []string{X}, jTS{X, V, "1"}), E, V, P),         // a signer is a witness at any depth
		on(ap("ONT", false, dl-40, nil, V, P, "9"), E, V),
		on(tr("ONT", false, dl+60, nil, jTS{V, Y, "1"}), E, V),    // after the deadline: nested ONT -> ONG payout to V and Y
		on(tr("ONT", false, dl+70, nil, jTS{V, Y, "1"}), E, V, P), // still refused
	}})
	// V2 amounts at the edges of the two record encodings, as credited side, debited side,
	// approved allowance and spent-down allowance; sums of a multi-movement transfer crossing 2^64.
	for _, tok := range []string{"ONG", "ONT"} {
		rich := new(big.Int).Div(capOf(tok), big.NewInt(2))
		st := jState{Bal: map[string][]jBal{"ONT": {{X, units(10)}}, "ONG": {{O, units(1000)}}}, Allow: map[string][]jAllow{}, Offs: []jBal{{X, "5"}, {Y, "5"}, {Z, "5"}}}
		st.Bal[tok] = append(st.Bal[tok], jBal{hexOf(small(0x41)), rich.String()})
		R := hexOf(small(0x41))
		var calls []jCall
		t := uint32(5) // offsets equal to the stored ones: no ONG grant interferes with the ONT run
		for _, T := range boundaryValues(tok) {
			if T.Cmp(rich) > 0 {
				// above what anybody holds: still sent as amounts (bound / balance errors)
				calls = append(calls, tr(tok, true, t, []string{R}, jTS{R, Y, T.String()}), ap(tok, true, t, []string{R}, R, Y, T.String()))
				continue
			}
			calls = append(calls,
				tr(tok, true, t, []string{R}, jTS{R, Y, plus(T, 5).String()}),                  // credit: Y = T+5
				tr(tok, true, t, []string{Y}, jTS{Y, Z, "5"}),                                  // debit leaves Y = T
				ap(tok, true, t, []string{R}, R, Y, plus(T, 3).String()),                       // allowance T+3
				tf(tok, true, t, []string{Y}, "", Y, R, Z, "3"),                                // spent down to T
				tf(tok, true, t, []string{Y}, "", Y, R, Z, T.String()),                         // spent to 0: record deleted
				tr(tok, true, t, []string{Y}, jTS{Y, R, plus(T, -7).String()}, jTS{Y, R, "7"}), // two movements summing to T: Y = 0
			)
		}
		// running sum of one call crossing 2^64 on the credited side
		if tok == "ONG" {
			calls = append(calls,
				tr(tok, true, t, []string{R}, jTS{R, Y, plus(two64, -1000000000).String()}, jTS{R, Y, "999999999"}, jTS{R, Y, "1"}, jTS{R, Y, "709551616"}),
				tr(tok, false, t, []string{Y}, jTS{Y, Z, "18446744073"}),
				tr(tok, true, t, []string{Y}, jTS{Y, Z, "709551616"}, jTS{Y, Z, "709551616"}))
		}
		seqs = append(seqs, jSeq{Mode: "direct", Net: net, Init: st, Calls: calls})
	}
	for i := range seqs {
		c.Count("probe")
		runDirect(c, &seqs[i], nil, 0)
	}
}

var _ = hx.Hex
