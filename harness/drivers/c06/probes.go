package c06

// Deterministic histories run on every check (before the generated ones): the boundary block
// times of the holder deadline, accrual of ONG allowance before the deadline and payout from
// the ONT contract's pool after it, calls that fail after having written to the scratch cache,
// self-transfer, zero amounts, the governance address (never paid out), an empty pool.

import (
	"fmt"
	"math/big"

	"github.com/ontio/ontology/common"
	"github.com/ontio/ontology/common/config"

	"verif/harness/hx"
)

func small(n int) common.Address {
	var a common.Address
	a[18], a[19] = byte(n>>8), byte(n)
	return a
}

func units(n int64) string { return new(big.Int).Mul(big.NewInt(n), scale).String() }

func probes(c *hx.Ctx) {
	X, Y, Z := hexOf(small(0x21)), hexOf(small(0x22)), hexOf(small(0x23))
	O, G := hexOf(ontC), hexOf(govC)
	net := uint32(config.NETWORK_ID_POLARIS_NET)
	var dl uint32
	withNet(net, func() { dl = config.GetOntHolderUnboundDeadline() })
	h := heightFor(net, true)
	pool := new(big.Int).Div(ongCap, big.NewInt(2)).String()
	base := func() jState {
		return jState{
			Bal: map[string][]jBal{
				"ONT": {{X, units(1000)}, {Y, "2500000000"}, {G, units(77)}},
				"ONG": {{O, pool}, {X, "123456789012"}},
			},
			Allow: map[string][]jAllow{
				"ONT": {{X, Y, units(30)}, {Y, Z, "1500000000"}},
				"ONG": {{O, X, units(5)}, {X, Z, "999"}},
			},
			Offs: []jBal{{X, fmt.Sprint(dl - 1000)}, {Y, "10"}},
		}
	}
	tr := func(tok string, v2 bool, t uint32, signers []string, sts ...jTS) jCall {
		return jCall{Tok: tok, Kind: "transfer", V2: v2, States: sts, Signers: signers, Time: genesis + t, Height: h}
	}
	tf := func(tok string, v2 bool, t uint32, signers []string, caller, sender, from, to, v string) jCall {
		return jCall{Tok: tok, Kind: "transferFrom", V2: v2, Sender: sender, From: from, To: to, Value: v, Signers: signers, Caller: caller, Time: genesis + t, Height: h}
	}
	ap := func(tok string, v2 bool, t uint32, signers []string, from, to, v string) jCall {
		return jCall{Tok: tok, Kind: "approve", V2: v2, From: from, To: to, Value: v, Signers: signers, Time: genesis + t, Height: h}
	}
	seqs := []jSeq{
		// the ONT contract as calling contract spending its own approval to X, at / after the deadline second
		{Mode: "direct", Net: net, Init: base(), Calls: []jCall{
			tf("ONG", false, dl, nil, O, X, O, X, "1"),
			tf("ONG", false, dl+1, nil, O, X, O, X, "1"),
			tf("ONG", true, dl+1, nil, O, X, O, Y, "1"),
			tf("ONG", true, dl+1, nil, Z, X, O, X, "1"),
			tf("ONG", true, dl+1, []string{X}, "", X, O, X, "7"),
		}},
		// accrual before the deadline, payout after it; governance is never paid out
		{Mode: "direct", Net: net, Init: base(), Calls: []jCall{
			tr("ONT", false, dl-500, []string{X}, jTS{X, Y, "10"}),
			tr("ONT", true, dl-100, []string{X}, jTS{X, Z, "1500000001"}),
			tr("ONT", false, dl, []string{X}, jTS{X, Y, "1"}),
			tr("ONT", false, dl+1, []string{X, Y}, jTS{X, Y, "1"}, jTS{Y, X, "2"}),
			tr("ONT", true, dl+5, []string{X}, jTS{X, G, units(3)}),
			tr("ONT", true, dl+9, []string{G}, jTS{G, X, units(1)}),
			tf("ONT", false, dl+20, []string{Y}, "", Y, X, Z, "29"),
			tf("ONT", true, dl+20, []string{Y}, "", Y, X, Y, units(1)),
			tf("ONT", true, dl+20, []string{Y}, "", Y, X, Y, "1"),
		}},
		// failures after writes to the scratch cache; self-transfer; zero amounts; time going back
		{Mode: "direct", Net: net, Init: base(), Calls: []jCall{
			tr("ONT", false, dl-10, []string{X, Y}, jTS{X, Y, "5"}, jTS{Y, X, "1000"}),
			tr("ONT", false, dl-10, []string{X}, jTS{X, Z, "5"}, jTS{Y, X, "1"}),
			tf("ONT", true, dl-10, []string{Z}, "", Z, Y, X, "1500000000"),
			tf("ONT", true, dl-10, []string{Y}, "", Y, X, Z, units(30)),
			ap("ONT", false, dl-9, []string{X}, X, Y, "2000"),
			tf("ONT", false, dl-9, []string{Y}, "", Y, X, Z, "1001"),
			tr("ONT", true, dl-8, []string{X}, jTS{X, X, units(7)}, jTS{X, Y, "0"}),
			tr("ONT", false, dl-20, []string{X}, jTS{X, Y, "1"}),
			tr("ONG", true, dl-8, []string{X}, jTS{X, X, "123456789012"}, jTS{X, Y, "123456789012"}, jTS{X, Z, "1"}),
			ap("ONG", true, dl-8, []string{Y}, X, Y, "5"),
			ap("ONG", true, dl-8, []string{X}, X, Y, ongCap.String()),
			ap("ONG", true, dl-8, []string{X}, X, Y, new(big.Int).Add(ongCap, big.NewInt(1)).String()),
		}},
	}
	// an ONT movement after the deadline with an empty pool cannot pay the holder: the call fails as a whole
	empty := base()
	empty.Bal["ONG"] = []jBal{{O, units(1)}, {X, "5"}}
	seqs = append(seqs, jSeq{Mode: "direct", Net: net, Init: empty, Calls: []jCall{
		tr("ONT", false, dl+50, []string{X}, jTS{X, Y, "1"}),
		tr("ONT", false, dl+50, []string{Y}, jTS{Y, Z, "1"}),
		tr("ONT", false, dl-50, []string{X}, jTS{X, Y, "1"}),
	}})
	for i := range seqs {
		c.Count("probe")
		runDirect(c, &seqs[i], nil, 0)
	}
}

var _ = hx.Hex
