package c06

// The implementation side: an in-memory store behind an OverlayDB, every call executed the way
// chargeCostGas / HandleInvokeTransaction do it (SmartContract -> NewNativeService -> NativeCall on
// a fresh CacheDB, Commit only when the call returned no error), and an independent decoder of
// the stored records of both token contracts.

import (
	"bytes"
	"encoding/binary"
	"fmt"
	"math/big"
	"sort"
	"strings"

	"github.com/ontio/ontology/common"
	"github.com/ontio/ontology/common/config"
	"github.com/ontio/ontology/core/states"
	scommon "github.com/ontio/ontology/core/store/common"
	"github.com/ontio/ontology/core/store/leveldbstore"
	"github.com/ontio/ontology/core/store/overlaydb"
	"github.com/ontio/ontology/core/types"
	"github.com/ontio/ontology/smartcontract"
	sctx "github.com/ontio/ontology/smartcontract/context"
	"github.com/ontio/ontology/smartcontract/service/native/ong"
	"github.com/ontio/ontology/smartcontract/service/native/ont"
	nutils "github.com/ontio/ontology/smartcontract/service/native/utils"
	"github.com/ontio/ontology/smartcontract/storage"

	"verif/harness/hx"
)

var (
	ontC = nutils.OntContractAddress
	ongC = nutils.OngContractAddress
	govC = nutils.GovernanceContractAddress
)

func contractOf(tok string) common.Address {
	if tok == "ONG" {
		return ongC
	}
	return ontC
}

// ---------------------------------------------------------------- decoded storage

type balEnt struct {
	A common.Address
	V *big.Int
}
type allowEnt struct {
	O, S common.Address
	V    *big.Int
}

// dump is the decoded content of both contracts' balance / allowance / unbound-offset records,
// each list sorted by storage key.
type dump struct {
	Bal   map[string][]balEnt   // "ONT" / "ONG"
	Allow map[string][]allowEnt // "ONT" / "ONG"
	Offs  []balEnt
	Other int // records of other key families (totalSupply, governance offset)
}

func (d *dump) bal(tok string, a common.Address) *big.Int {
	for _, e := range d.Bal[tok] {
		if e.A == a {
			return e.V
		}
	}
	return new(big.Int)
}
func (d *dump) allow(tok string, o, s common.Address) *big.Int {
	for _, e := range d.Allow[tok] {
		if e.O == o && e.S == s {
			return e.V
		}
	}
	return new(big.Int)
}
func (d *dump) sum(tok string) *big.Int {
	t := new(big.Int)
	for _, e := range d.Bal[tok] {
		t.Add(t, e.V)
	}
	return t
}

type world struct {
	c       *hx.Ctx
	overlay *overlaydb.OverlayDB
}

func newWorld(c *hx.Ctx) *world {
	ont.InitOnt()
	ong.InitOng()
	return &world{c: c, overlay: overlaydb.NewOverlayDB(leveldbstore.NewMemLevelDBStore())}
}

// raw returns every stored record under the two contracts (key -> value), for the
// failed-call-changes-nothing oracle.
func (w *world) raw() map[string]string {
	out := map[string]string{}
	for _, ca := range []common.Address{ontC, ongC} {
		prefix := append([]byte{byte(scommon.ST_STORAGE)}, ca[:]...)
		it := w.overlay.NewIterator(prefix)
		for ok := it.First(); ok; ok = it.Next() {
			out[string(append([]byte{}, it.Key()...))] = string(append([]byte{}, it.Value()...))
		}
		it.Release()
	}
	return out
}

// decodeBalance is an independent decoder of a stored balance / allowance record, written from
// the format (not calling the package's own decoder): 1 byte state version, var-length value;
// version 0 = uint64 little-endian count of whole tokens (x 10^9 base units), version 1 = the
// base-unit amount as little-endian two's-complement bytes (minimal length).
func decodeBalance(val []byte) (*big.Int, error) {
	if len(val) < 2 {
		return nil, fmt.Errorf("record too short")
	}
	ver := val[0]
	n, hdr := uint64(val[1]), 2
	switch val[1] {
	case 0xfd:
		if len(val) < 4 {
			return nil, fmt.Errorf("truncated length")
		}
		n, hdr = uint64(binary.LittleEndian.Uint16(val[2:4])), 4
	case 0xfe, 0xff:
		return nil, fmt.Errorf("implausible value length")
	}
	body := val[hdr:]
	if uint64(len(body)) != n {
		return nil, fmt.Errorf("value length %d, header says %d", len(body), n)
	}
	switch ver {
	case 0:
		if len(body) != 8 {
			return nil, fmt.Errorf("version-0 record of %d bytes", len(body))
		}
		return new(big.Int).Mul(new(big.Int).SetUint64(binary.LittleEndian.Uint64(body)), scale), nil
	case 1:
		be := make([]byte, len(body))
		for i := range body {
			be[len(body)-1-i] = body[i]
		}
		v := new(big.Int).SetBytes(be)
		if len(body) > 0 && body[len(body)-1]&0x80 != 0 {
			return nil, fmt.Errorf("negative balance")
		}
		return v, nil
	}
	return nil, fmt.Errorf("unknown state version %d", ver)
}

func (w *world) dump() (*dump, error) {
	d := &dump{Bal: map[string][]balEnt{}, Allow: map[string][]allowEnt{}}
	raw := w.raw()
	keys := make([]string, 0, len(raw))
	for k := range raw {
		keys = append(keys, k)
	}
	sort.Strings(keys)
	offKey := []byte(ont.UNBOUND_TIME_OFFSET_KEY)
	for _, k := range keys {
		key := []byte(k)[1:]
		val := []byte(raw[k])
		tok := "ONT"
		if bytes.Equal(key[:20], ongC[:]) {
			tok = "ONG"
		}
		rest := key[20:]
		switch {
		case len(rest) == 20:
			v, err := decodeBalance(val)
			if err != nil {
				return nil, fmt.Errorf("balance record %x: %v", key, err)
			}
			var a common.Address
			copy(a[:], rest)
			d.Bal[tok] = append(d.Bal[tok], balEnt{a, v})
		case len(rest) == 40:
			v, err := decodeBalance(val)
			if err != nil {
				return nil, fmt.Errorf("allowance record %x: %v", key, err)
			}
			var o, s common.Address
			copy(o[:], rest[:20])
			copy(s[:], rest[20:])
			d.Allow[tok] = append(d.Allow[tok], allowEnt{o, s, v})
		case tok == "ONT" && len(rest) == len(offKey)+20 && bytes.HasPrefix(rest, offKey):
			item := new(states.StorageItem)
			if err := item.Deserialization(common.NewZeroCopySource(val)); err != nil || len(item.Value) != 4 {
				return nil, fmt.Errorf("offset record %x: %v", key, err)
			}
			var a common.Address
			copy(a[:], rest[len(offKey):])
			d.Offs = append(d.Offs, balEnt{a, new(big.Int).SetUint64(uint64(binary.LittleEndian.Uint32(item.Value)))})
		default:
			d.Other++
		}
	}
	return d, nil
}

// ---------------------------------------------------------------- initial state

// balanceBytes writes a start-state record from the format, independently of the package's
// encoder: whole-token amounts as version 0 (uint64 count), anything else as version 1 bytes.
func balanceBytes(v *big.Int) []byte {
	q, r := new(big.Int).QuoRem(v, scale, new(big.Int))
	if r.Sign() == 0 && q.IsUint64() {
		out := []byte{0, 8, 0, 0, 0, 0, 0, 0, 0, 0}
		binary.LittleEndian.PutUint64(out[2:], q.Uint64())
		return out
	}
	be := v.Bytes()
	le := make([]byte, 0, len(be)+1)
	for i := len(be) - 1; i >= 0; i-- {
		le = append(le, be[i])
	}
	if le[len(le)-1]&0x80 != 0 {
		le = append(le, 0)
	}
	if len(le) >= 0xfd {
		panic("amount too long")
	}
	return append([]byte{1, byte(len(le))}, le...)
}

func offsetKey(a common.Address) []byte {
	k := append([]byte{}, ontC[:]...)
	k = append(k, ont.UNBOUND_TIME_OFFSET_KEY...)
	return append(k, a[:]...)
}

func (w *world) load(st *jState) {
	cache := storage.NewCacheDB(w.overlay)
	for _, tok := range []string{"ONT", "ONG"} {
		ca := contractOf(tok)
		for _, e := range st.Bal[tok] {
			cache.Put(ont.GenBalanceKey(ca, addrOf(e.A)), balanceBytes(bigOf(e.V)))
		}
		for _, e := range st.Allow[tok] {
			cache.Put(ont.GenApproveKey(ca, addrOf(e.O), addrOf(e.S)), balanceBytes(bigOf(e.V)))
		}
	}
	for _, e := range st.Offs {
		cache.Put(offsetKey(addrOf(e.A)), nutils.GenUInt32StorageItem(uint32(bigOf(e.V).Uint64())).ToArray())
	}
	cache.Commit()
}

// ---------------------------------------------------------------- calls

func withNet(id uint32, f func()) {
	old := config.DefConfig.P2PNode.NetworkId
	config.DefConfig.P2PNode.NetworkId = id
	defer func() { config.DefConfig.P2PNode.NetworkId = old }()
	f()
}

// invoke runs one native call as its own transaction.
func (w *world) invoke(k *jCall, method string, args []byte, preExec, commit bool) (ret []byte, err error, panicked bool) {
	cache := storage.NewCacheDB(w.overlay)
	var signers []common.Address
	for _, s := range k.Signers {
		signers = append(signers, addrOf(s))
	}
	tx := &types.Transaction{SignedAddr: signers}
	sc := &smartcontract.SmartContract{
		Config:  &smartcontract.Config{Time: k.Time, Height: k.Height, Tx: tx},
		CacheDB: cache,
		Gas:     1 << 60,
		PreExec: preExec,
	}
	for _, x := range k.callStack() {
		sc.PushContext(&sctx.Context{ContractAddress: addrOf(x)})
	}
	ns, e := sc.NewNativeService()
	if e != nil {
		return nil, e, false
	}
	var msg string
	panicked, msg = hx.Recover(func() { ret, err = ns.NativeCall(contractOf(k.Tok), method, args) })
	if panicked {
		return nil, fmt.Errorf("PANIC: %s", msg), true
	}
	if err == nil && commit {
		cache.Commit()
	}
	w.c.Eval()
	return ret, err, false
}

func neoBytes(v *big.Int) []byte { return common.BigIntToNeoBytes(v) }

// encodeArgs serialises the call the way the client side does; V1 amounts are written with the
// same var-bytes integer encoding EncodeVarUint uses, so that amounts outside uint64 can be sent.
func encodeArgs(k *jCall) (method string, args []byte) {
	sink := common.NewZeroCopySink(nil)
	val := func(v string) { nutils.EncodeVarBytes(sink, neoBytes(bigOf(v))) }
	switch k.Kind {
	case "transfer":
		method = "transfer"
		nutils.EncodeVarUint(sink, uint64(len(k.States)))
		for _, s := range k.States {
			nutils.EncodeAddress(sink, addrOf(s.From))
			nutils.EncodeAddress(sink, addrOf(s.To))
			val(s.Value)
		}
	case "approve":
		method = "approve"
		nutils.EncodeAddress(sink, addrOf(k.From))
		nutils.EncodeAddress(sink, addrOf(k.To))
		val(k.Value)
	case "transferFrom":
		method = "transferFrom"
		nutils.EncodeAddress(sink, addrOf(k.Sender))
		nutils.EncodeAddress(sink, addrOf(k.From))
		nutils.EncodeAddress(sink, addrOf(k.To))
		val(k.Value)
	default:
		panic("bad kind " + k.Kind)
	}
	if k.V2 {
		method += "V2"
	}
	return method, sink.Bytes()
}

// classify maps the implementation's error to the model's error enum.
func classify(err error, panicked bool) string {
	if panicked {
		if strings.Contains(err.Error(), "too large token balance") {
			return "EPanic"
		}
		return "EOtherPanic"
	}
	m := err.Error()
	switch {
	case strings.Contains(m, "doesn't support this function"):
		return "ENoMethod"
	case strings.Contains(m, "deserialize error"):
		return "EDecode"
	case strings.Contains(m, "over totalSupply"):
		return "EBound"
	case strings.Contains(m, "authentication failed"):
		return "EAuth"
	case strings.Contains(m, "approve balance insufficient"):
		return "EAllowance"
	case strings.Contains(m, "balance insufficient"):
		return "EBalance"
	case strings.Contains(m, "wrong timestamp"):
		return "ETimestamp"
	}
	return "EOther"
}

// query reads balanceOf(V2) / allowance(V2) through the contract itself (pre-execution).
func (w *world) query(tok, method string, height uint32, addrs ...common.Address) (*big.Int, error) {
	sink := common.NewZeroCopySink(nil)
	for _, a := range addrs {
		nutils.EncodeAddress(sink, a)
	}
	k := &jCall{Tok: tok, Height: height}
	ret, err, _ := w.invoke(k, method, sink.Bytes(), true, false)
	if err != nil {
		return nil, err
	}
	return common.BigIntFromNeoBytes(ret), nil
}
