package c06

// Replayable histories (JSON) and their generator.

import (
	"encoding/hex"
	"math/big"

	"github.com/ontio/ontology/common"
	"github.com/ontio/ontology/common/config"
	"github.com/ontio/ontology/common/constants"

	"verif/harness/hx"
)

type jTS struct {
	From  string `json:"from"`
	To    string `json:"to"`
	Value string `json:"value"`
}

type jCall struct {
	Tok     string   `json:"tok"`  // ONT | ONG
	Kind    string   `json:"kind"` // transfer | approve | transferFrom
	V2      bool     `json:"v2"`
	States  []jTS    `json:"states,omitempty"`
	Sender  string   `json:"sender,omitempty"`
	From    string   `json:"from,omitempty"`
	To      string   `json:"to,omitempty"`
	Value   string   `json:"value,omitempty"`
	Signers []string `json:"signers"`
	// Stack: the contract contexts below the token contract, entry first (e.g. entry script,
	// vault, plugin): the last one is the immediate caller, the only one CheckWitness accepts.
	Stack   []string `json:"stack,omitempty"`
	Caller  string   `json:"caller,omitempty"` // legacy spelling of a one-element stack
	Time    uint32   `json:"time"`
	Height  uint32   `json:"height"`
	PreExec bool     `json:"preexec,omitempty"`
}

type jBal struct {
	A string `json:"a"`
	V string `json:"v"`
}
type jAllow struct {
	O string `json:"o"`
	S string `json:"s"`
	V string `json:"v"`
}
type jState struct {
	Bal   map[string][]jBal   `json:"bal"`
	Allow map[string][]jAllow `json:"allow"`
	Offs  []jBal              `json:"offs"`
}

type jSeq struct {
	Mode  string  `json:"mode"` // direct | ledger
	Net   uint32  `json:"net"`
	Init  jState  `json:"init"`
	Calls []jCall `json:"calls"`
}

func addrOf(h string) common.Address {
	b, err := hex.DecodeString(h)
	if err != nil || len(b) != 20 {
		panic("bad address " + h)
	}
	var a common.Address
	copy(a[:], b)
	return a
}
func hexOf(a common.Address) string { return hex.EncodeToString(a[:]) }
func bigOf(s string) *big.Int {
	v, ok := new(big.Int).SetString(s, 10)
	if !ok {
		panic("bad number " + s)
	}
	return v
}

var (
	scale   = big.NewInt(1000000000)
	two64   = new(big.Int).Lsh(big.NewInt(1), 64)
	ontCap  = new(big.Int).SetUint64(constants.ONT_TOTAL_SUPPLY_V2)
	ongCap  = constants.ONG_TOTAL_SUPPLY_V2.BigInt()
	genesis = constants.GENESIS_BLOCK_TIMESTAMP
)

func pow2(n uint) *big.Int              { return new(big.Int).Lsh(big.NewInt(1), n) }
func plus(a *big.Int, d int64) *big.Int { return new(big.Int).Add(a, big.NewInt(d)) }

// boundaryValues: stored base-unit amounts at the edges of the two record encodings (uint64 count
// of whole tokens / big-integer bytes): around 2^64 and its multiples, whole-token offsets from
// them, 2^63, the whole supply.  Values above the supply are still useful as call amounts.
func boundaryValues(tok string) []*big.Int {
	e9 := int64(1000000000)
	if tok == "ONT" { // the ONT supply (10^18 base units) is below 2^63: the edges are the whole-token ones
		c := capOf(tok)
		return []*big.Int{plus(c, -1), c, plus(c, 1), pow2(32), new(big.Int).Mul(pow2(32), scale), plus(new(big.Int).Mul(pow2(32), scale), 1),
			big.NewInt(e9 - 1), big.NewInt(e9), big.NewInt(e9 + 1), plus(new(big.Int).Div(c, big.NewInt(2)), 1), pow2(59), two64}
	}
	l := []*big.Int{
		plus(two64, -1), two64, plus(two64, 1), plus(two64, e9), plus(two64, 7*e9), plus(two64, 1000*e9), plus(two64, e9-1),
		new(big.Int).Mul(two64, big.NewInt(2)), plus(new(big.Int).Mul(two64, big.NewInt(3)), 5*e9),
		pow2(63), plus(pow2(63), e9), pow2(96), plus(capOf(tok), -1), capOf(tok), plus(capOf(tok), 1),
		plus(pow2(32), 0), plus(new(big.Int).Mul(pow2(32), scale), 0),
	}
	return l
}

// lowWordWhole: h*2^64 + j*10^9 - fractional amounts whose low 64-bit word is a whole-token count.
func (g *sgen) lowWordWhole(max *big.Int) *big.Int {
	hmax := new(big.Int).Div(max, two64)
	if hmax.Sign() <= 0 {
		return plus(new(big.Int).Mul(g.randBig(big.NewInt(1000000)), scale), int64(g.c.Intn(2)))
	}
	h := plus(g.randBig(hmax), 1)
	j := big.NewInt(int64(g.c.Intn(18446744073)))
	v := new(big.Int).Mul(h, two64)
	v.Add(v, j.Mul(j, scale))
	if v.Cmp(max) > 0 {
		return new(big.Int).Set(two64)
	}
	return v
}

// boundary picks a boundary stored value for the token (below or at max when possible).
func (g *sgen) boundary(tok string, max *big.Int) *big.Int {
	if g.c.Intn(3) == 0 {
		return g.lowWordWhole(max)
	}
	l := boundaryValues(tok)
	return new(big.Int).Set(l[g.c.Intn(len(l))])
}

func capOf(tok string) *big.Int {
	if tok == "ONG" {
		return ongCap
	}
	return ontCap
}

// heights per network id: [v2 methods on, no uint64 wrapping], [v2 off (mainnet only)]
func heightFor(net uint32, v2on bool) uint32 {
	switch net {
	case config.NETWORK_ID_MAIN_NET:
		if v2on {
			return constants.UINT64_WRAPPING_MAINNET + 1000
		}
		return constants.BLOCKHEIGHT_ADD_DECIMALS_MAINNET - 1000
	default:
		return 100
	}
}

type sgen struct {
	c     *hx.Ctx
	net   uint32
	accts []common.Address // users..., governance, ONT contract
	users int
}

func (g *sgen) pick() common.Address { return g.accts[g.c.Intn(len(g.accts))] }

// randBig: uniform below n (n > 0).
func (g *sgen) randBig(n *big.Int) *big.Int { return new(big.Int).Rand(g.c.Rng, n) }

// amount in storage units: integer multiples of 10^9, fractional values, tiny and huge ones.
func (g *sgen) stateAmount(tok string, max *big.Int) *big.Int {
	switch g.c.Intn(6) {
	case 0:
		return new(big.Int)
	case 1:
		return new(big.Int).Mul(g.randBig(big.NewInt(1000)), scale)
	case 2:
		return g.randBig(new(big.Int).Mul(big.NewInt(5000), scale)) // fractional
	case 3:
		return new(big.Int).Mul(g.randBig(new(big.Int).Div(max, scale)), scale)
	case 4:
		return g.randBig(max)
	default:
		return big.NewInt(int64(g.c.Intn(3)))
	}
}

func (g *sgen) initState() jState {
	st := jState{Bal: map[string][]jBal{}, Allow: map[string][]jAllow{}}
	for _, tok := range []string{"ONT", "ONG"} {
		left := new(big.Int).Set(capOf(tok))
		for _, a := range g.accts {
			if g.c.Intn(5) == 0 {
				continue
			}
			lim := new(big.Int).Div(left, big.NewInt(2))
			if tok == "ONG" && a == ontC {
				lim = new(big.Int).Set(left) // the pool is large
			}
			if lim.Sign() <= 0 {
				continue
			}
			v := g.stateAmount(tok, lim)
			if tok == "ONG" && a != ontC && g.c.Intn(3) == 0 {
				if b := g.boundary(tok, lim); b.Cmp(lim) <= 0 {
					v = plus(b, int64(g.c.Intn(3))*int64(g.c.Intn(1000000000)))
				}
			}
			if tok == "ONG" && a == ontC && g.c.Intn(4) != 0 {
				v = new(big.Int).Div(lim, big.NewInt(int64(1+g.c.Intn(3))))
			}
			left.Sub(left, v)
			st.Bal[tok] = append(st.Bal[tok], jBal{hexOf(a), v.String()})
		}
		n := g.c.Intn(5)
		seen := map[string]bool{}
		for i := 0; i < n; i++ {
			o, s := g.pick(), g.pick()
			if tok == "ONG" && g.c.Intn(3) == 0 {
				o = ontC // unbound ONG already approved to a holder
			}
			if seen[hexOf(o)+hexOf(s)] {
				continue
			}
			seen[hexOf(o)+hexOf(s)] = true
			av := g.stateAmount(tok, new(big.Int).Div(capOf(tok), big.NewInt(4)))
			if tok == "ONG" && g.c.Intn(3) == 0 {
				if b := g.boundary(tok, capOf(tok)); b.Cmp(capOf(tok)) <= 0 {
					av = b
				}
			}
			st.Allow[tok] = append(st.Allow[tok], jAllow{hexOf(o), hexOf(s), av.String()})
		}
	}
	d := config.GetOntHolderUnboundDeadline()
	for _, a := range g.accts {
		if g.c.Intn(2) == 0 {
			continue
		}
		st.Offs = append(st.Offs, jBal{hexOf(a), new(big.Int).SetUint64(uint64(g.offsetNear(d))).String()})
	}
	return st
}

// offsetNear: unbound-time offsets / block-time offsets around the interesting points.
func (g *sgen) offsetNear(d uint32) uint32 {
	switch g.c.Intn(7) {
	case 0:
		return uint32(g.c.Intn(3))
	case 1:
		return uint32(1 + g.c.Intn(40000000))
	case 2, 3:
		off := int64(d) + int64(g.c.Intn(7)) - 3
		if off < 0 {
			off = 0
		}
		return uint32(off)
	case 4:
		return d + uint32(g.c.Intn(100000000))
	case 5:
		return uint32(constants.UNBOUND_TIME_INTERVAL)*uint32(g.c.Intn(4)) + uint32(g.c.Intn(3))
	default:
		if d > 1000 {
			return d - uint32(g.c.Intn(1000))
		}
		return uint32(g.c.Intn(1000))
	}
}

// callAmount picks the amount of a movement given what the implementation currently stores.
func (g *sgen) callAmount(tok string, v2 bool, bal, allow *big.Int) *big.Int {
	var v *big.Int // storage units
	switch g.c.Intn(12) {
	case 0:
		v = new(big.Int)
	case 1:
		v = new(big.Int).Set(bal)
	case 2:
		v = new(big.Int).Add(bal, big.NewInt(1))
	case 3:
		v = new(big.Int).Set(allow)
	case 4:
		v = new(big.Int).Add(allow, big.NewInt(1))
	case 5:
		v = new(big.Int).Set(capOf(tok))
	case 6:
		v = new(big.Int).Add(capOf(tok), big.NewInt(1))
	case 7:
		if bal.Sign() > 0 {
			v = g.randBig(bal)
		} else {
			v = big.NewInt(1)
		}
	case 8:
		if allow.Sign() > 0 {
			v = g.randBig(allow)
		} else {
			v = big.NewInt(1)
		}
	case 9:
		v = g.randBig(new(big.Int).Mul(big.NewInt(100), scale))
	case 10:
		if bal.Sign() > 0 {
			v = new(big.Int).Div(bal, big.NewInt(2))
		} else {
			v = big.NewInt(2)
		}
	default:
		v = new(big.Int).Mul(big.NewInt(int64(1+g.c.Intn(20))), scale)
	}
	if v2 {
		if g.c.Intn(40) == 0 {
			return big.NewInt(-1 - int64(g.c.Intn(5)))
		}
		return v
	}
	// V1 carries whole units
	switch g.c.Intn(40) {
	case 0:
		return new(big.Int).Add(two64, big.NewInt(int64(g.c.Intn(3)))) // not a uint64
	case 1:
		return big.NewInt(-1)
	case 2:
		return new(big.Int).Sub(two64, big.NewInt(1))
	}
	q, r := new(big.Int).QuoRem(v, scale, new(big.Int))
	if r.Sign() != 0 && g.c.Intn(2) == 0 {
		q.Add(q, big.NewInt(1))
	}
	return q
}

func (g *sgen) signers(must ...common.Address) []string {
	var out []string
	seen := map[common.Address]bool{}
	add := func(a common.Address) {
		if !seen[a] {
			seen[a] = true
			out = append(out, hexOf(a))
		}
	}
	for _, m := range must {
		if g.c.Intn(10) < 7 {
			add(m)
		}
	}
	for i := g.c.Intn(3); i > 0; i-- {
		add(g.accts[g.c.Intn(g.users+1)]) // users and sometimes governance; never the ONT contract
	}
	return out
}

// next generates the next call given the current implementation state.
func (g *sgen) next(d *dump, now *uint32, v2on bool) jCall {
	k := jCall{Tok: []string{"ONT", "ONG"}[g.c.Intn(2)], Height: heightFor(g.net, v2on)}
	if g.c.Intn(5) < 3 {
		k.Tok = "ONT"
	}
	k.V2 = g.c.Intn(2) == 0
	// time: mostly forward, sometimes back, around the deadline
	dl := config.GetOntHolderUnboundDeadline()
	switch g.c.Intn(8) {
	case 0:
		*now = genesis + g.offsetNear(dl)
	case 1:
		*now = genesis - uint32(g.c.Intn(3)) // at or before genesis
	case 2:
		*now = genesis + dl + uint32(g.c.Intn(3))
	case 3:
		// unchanged
	default:
		*now += uint32(g.c.Intn(2000000))
	}
	k.Time = *now
	if g.c.Intn(12) == 0 {
		k.PreExec = true
	}
	from, to := g.pick(), g.pick()
	if g.c.Intn(8) == 0 {
		to = from
	}
	// prefer holders with a balance as the debited side
	if bs := d.Bal[k.Tok]; len(bs) > 0 && g.c.Intn(4) != 0 {
		from = bs[g.c.Intn(len(bs))].A
	}
	switch g.c.Intn(10) {
	case 0, 1, 2, 3:
		k.Kind = "transfer"
		n := 1
		if g.c.Intn(4) == 0 {
			n = g.c.Intn(4) // 0..3 states
		}
		var must []common.Address
		for i := 0; i < n; i++ {
			if i > 0 {
				from, to = g.pick(), g.pick()
			}
			v := g.callAmount(k.Tok, k.V2, d.bal(k.Tok, from), new(big.Int))
			k.States = append(k.States, jTS{hexOf(from), hexOf(to), v.String()})
			must = append(must, from)
		}
		k.Signers = g.signers(must...)
	case 4, 5, 6:
		k.Kind = "approve"
		k.From, k.To = hexOf(from), hexOf(to)
		k.Value = g.callAmount(k.Tok, k.V2, d.bal(k.Tok, from), d.allow(k.Tok, from, to)).String()
		k.Signers = g.signers(from)
	default:
		k.Kind = "transferFrom"
		sender := g.pick()
		if as := d.Allow[k.Tok]; len(as) > 0 && g.c.Intn(4) != 0 {
			e := as[g.c.Intn(len(as))]
			from, sender = e.O, e.S
		}
		if g.c.Intn(3) == 0 {
			to = sender
		}
		k.Sender, k.From, k.To = hexOf(sender), hexOf(from), hexOf(to)
		k.Value = g.callAmount(k.Tok, k.V2, d.bal(k.Tok, from), d.allow(k.Tok, from, sender)).String()
		k.Signers = g.signers(sender)
	}
	// V2 boundary amounts: make the credited side, the debited side or the allowance end up at a
	// stored value on the edge of the two record encodings (2^64, its multiples, whole supply ...)
	if k.V2 && g.c.Intn(4) == 0 {
		T := g.boundary(k.Tok, capOf(k.Tok))
		aim := func(fromH, toH string) (string, bool) {
			fb, tb := d.bal(k.Tok, addrOf(fromH)), d.bal(k.Tok, addrOf(toH))
			switch g.c.Intn(3) {
			case 0: // credited side ends at T
				if v := new(big.Int).Sub(T, tb); v.Sign() > 0 && fromH != toH {
					return v.String(), true
				}
			case 1: // debited side ends at T
				if v := new(big.Int).Sub(fb, T); v.Sign() > 0 && fromH != toH {
					return v.String(), true
				}
			}
			return T.String(), true // the amount itself
		}
		switch k.Kind {
		case "transfer":
			for i := range k.States {
				if v, ok := aim(k.States[i].From, k.States[i].To); ok {
					k.States[i].Value = v
				}
			}
			if len(k.States) == 1 && g.c.Intn(3) == 0 {
				// the same credit split in two movements whose running sum crosses the boundary
				v := bigOf(k.States[0].Value)
				if v.Cmp(big.NewInt(2)) > 0 {
					a := plus(g.randBig(plus(v, -1)), 1)
					k.States = []jTS{{k.States[0].From, k.States[0].To, a.String()}, {k.States[0].From, k.States[0].To, new(big.Int).Sub(v, a).String()}}
				}
			}
		case "approve":
			k.Value = T.String()
			if g.c.Intn(2) == 0 {
				k.Value = plus(T, int64(g.c.Intn(5))).String() // a later transferFrom of 0..4 lands on T
			}
		default:
			if g.c.Intn(2) == 0 {
				if v := new(big.Int).Sub(d.allow(k.Tok, addrOf(k.From), addrOf(k.Sender)), T); v.Sign() > 0 {
					k.Value = v.String() // the allowance ends at T
				}
			} else if v, ok := aim(k.From, k.To); ok {
				k.Value = v
			}
		}
	}
	// call stack below the token contract: none (the test-style direct call), an entry script,
	// contract -> contract chains 2-4 deep.  The debited account is often put somewhere in the
	// chain: as the immediate caller (authorizes) or deeper (an indirect caller: must not).
	debited := k.From
	if k.Kind == "transfer" && len(k.States) > 0 {
		debited = k.States[g.c.Intn(len(k.States))].From
	}
	if k.Kind == "transferFrom" && g.c.Intn(2) == 0 {
		debited = k.Sender
	}
	other := func() string {
		switch g.c.Intn(4) {
		case 0:
			return hexOf(g.pick())
		case 1:
			return hexOf(ontC)
		default:
			return []string{"00000000000000000000000000000000000000aa", "00000000000000000000000000000000000000ab", "00000000000000000000000000000000000000ac"}[g.c.Intn(3)]
		}
	}
	switch g.c.Intn(12) {
	case 0:
		k.Stack = []string{other()}
	case 1:
		k.Stack = []string{other(), other()}
	case 2, 3: // entry -> debited (immediate caller)
		k.Stack = []string{other(), debited}
	case 4, 5, 6: // entry -> debited (vault) -> plugin: the vault is only an indirect caller
		k.Stack = []string{other(), debited, other()}
		if debited != "" {
			k.Signers = dropSigner(k.Signers, debited)
		}
	case 7: // depth 4, vault at the bottom or second
		k.Stack = []string{debited, other(), other(), other()}
		if g.c.Intn(2) == 0 {
			k.Stack = []string{other(), debited, other(), other()}
		}
		if debited != "" && g.c.Intn(3) != 0 {
			k.Signers = dropSigner(k.Signers, debited)
		}
	case 8:
		k.Stack = []string{debited}
	}
	for i, x := range k.Stack {
		if x == "" {
			k.Stack[i] = "00000000000000000000000000000000000000aa"
		}
	}
	return k
}

func dropSigner(sg []string, a string) []string {
	var out []string
	for _, x := range sg {
		if x != a {
			out = append(out, x)
		}
	}
	return out
}

// callStack: the contexts below the token contract for this call.
func (k *jCall) callStack() []string {
	if len(k.Stack) > 0 {
		return k.Stack
	}
	if k.Caller != "" {
		return []string{k.Caller}
	}
	return nil
}
