package c06

import (
	_ "verif/harness/drivers/c09" // Gen/Unbind.v producer (Corr/C06.v instantiates CalcUnbindOng with Model/Unbind.v)

	"verif/harness/hx"
)

func init() { hx.Register("C06", Run) }

func Run(c *hx.Ctx) {
	c.CoqModule("Corr.C06")
}
